#!/usr/bin/env python3
"""print a python file without docstrings/comments/blank lines (reading aid)"""
import ast, sys
src = open(sys.argv[1]).read()
tree = ast.parse(src)
for node in ast.walk(tree):
    if isinstance(node, (ast.FunctionDef, ast.ClassDef, ast.Module, ast.AsyncFunctionDef)):
        b = node.body
        if b and isinstance(b[0], ast.Expr) and isinstance(getattr(b[0], 'value', None), ast.Constant) and isinstance(b[0].value.value, str):
            b.pop(0)
            if not b:
                b.append(ast.Pass())
print(ast.unparse(tree))
