#!/bin/bash
# usage: tools/try_seed.sh <patch.diff> <Cxx> [more check args]
# Applies a seeded change to a scratch copy of /repo (never to /repo itself while builders are running),
# runs the check against it via VERIF_REPO, prints the verdict, removes the copy.
set -u
patch=$(readlink -f "$1"); cid=$2; shift 2
d=$(mktemp -d /tmp/tryseed.XXXXXX)
git -C /repo archive HEAD | tar -x -C "$d"
( cd "$d" && git init -q . 2>/dev/null && git apply --whitespace=nowarn "$patch" ) || { echo "PATCH DOES NOT APPLY"; rm -rf "$d"; exit 2; }
if [ "${WITH_PROOF:-0}" = "1" ]; then
  # full run incl. layer P: needs its own copy of the Coq sources (Gen/*.v is regenerated from the seeded tree)
  mkdir -p "$d/_coq" && rsync -a --include='*/' --include='*.v' --include='_CoqProject' --exclude='*' --exclude='Gen/*.v' /verif/coq/ "$d/_coq/" && rm -f "$d/_coq/Gen/"*.v
  cd /verif && VERIF_REPO="$d" VERIF_OUT="$d/_out" VERIF_BUILD="$d/_build" VERIF_COQ="$d/_coq" ./check "$cid" "$@" 2>&1 | tail -60
else
  cd /verif && VERIF_REPO="$d" VERIF_OUT="$d/_out" VERIF_BUILD="$d/_build" ./check "$cid" --no-proof "$@" 2>&1 | tail -60
fi
rc=${PIPESTATUS[0]}
rm -rf "$d"
exit $rc
