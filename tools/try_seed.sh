#!/bin/bash
# usage: tools/try_seed.sh <patch.diff> <Cxx> [more check args]
# Applies a seeded change to a scratch copy of /repo (never to /repo itself while builders are running),
# runs the check against it via VERIF_REPO, prints the verdict, removes the copy.
# The run is hermetic: it gets its own copy of the Coq tree (sources + compiled files, taken under the build lock),
# because Gen/*.v is regenerated from the tree under test and must never be written into /verif/coq from a seeded tree.
set -u
patch=$(readlink -f "$1"); cid=$2; shift 2
d=$(mktemp -d /tmp/tryseed.XXXXXX)
git -C /repo archive HEAD | tar -x -C "$d"
( cd "$d" && git init -q . 2>/dev/null && git apply --whitespace=nowarn "$patch" ) || { echo "PATCH DOES NOT APPLY"; rm -rf "$d"; exit 2; }
mkdir -p "$d/_coq" /verif/build
flock /verif/build/.lock rsync -a /verif/coq/ "$d/_coq/"
cd /verif
if [ "${WITH_PROOF:-0}" = "1" ]; then
  VERIF_REPO="$d" VERIF_OUT="$d/_out" VERIF_BUILD="$d/_build" VERIF_COQ="$d/_coq" ./check "$cid" "$@" 2>&1 | tail -60
else
  VERIF_REPO="$d" VERIF_OUT="$d/_out" VERIF_BUILD="$d/_build" VERIF_COQ="$d/_coq" ./check "$cid" --no-proof "$@" 2>&1 | tail -60
fi
rc=${PIPESTATUS[0]}
rm -rf "$d"
exit $rc
