#!/bin/bash
# usage: tools/try_seed.sh <patch.diff> <Cxx> [more check args]
# Applies a seeded change to a scratch copy of /repo (never to /repo itself while builders are running),
# runs the check against it via VERIF_REPO, prints the verdict, removes the copy.
set -u
patch=$(readlink -f "$1"); cid=$2; shift 2
d=$(mktemp -d /tmp/tryseed.XXXXXX)
git -C /repo archive HEAD | tar -x -C "$d"
( cd "$d" && git init -q . 2>/dev/null && git apply --whitespace=nowarn "$patch" ) || { echo "PATCH DOES NOT APPLY"; rm -rf "$d"; exit 2; }
cd /verif && VERIF_REPO="$d" VERIF_OUT="$d/_out" VERIF_BUILD="$d/_build" ./check "$cid" --no-proof "$@" 2>&1 | tail -6
rc=${PIPESTATUS[0]}
rm -rf "$d"
exit $rc
