#!/usr/bin/env python3
"""Regenerates MANIFEST.json from tools/manifest_table.json (claimed checks) + properties.jsonl."""
import json, os
ROOT = os.path.dirname(os.path.dirname(os.path.abspath(__file__)))
tab = json.load(open(os.path.join(ROOT, "tools", "manifest_table.json")))
import glob
tab["checks"] = {os.path.basename(f)[:-5]: json.load(open(f)) for f in sorted(glob.glob(os.path.join(ROOT, "tools", "manifest_entries", "C*.json"))) if os.path.basename(f)[:-5] in tab.get("enabled", [])}
props = [json.loads(l) for l in open(os.path.join(ROOT, "properties.jsonl"))]
checks, na = [], []
for p in props:
    cid = p["id"]
    t = tab["checks"].get(cid)
    if not t:
        na.append({"property_id": cid, "reason": tab["not_applicable"].get(cid, "check not built yet in this round; planned in DESIGN.md section 5")})
        continue
    checks.append({
        "property_id": cid,
        "quick_cmd": "./check %s --tier quick" % cid,
        "thorough_cmd": "./check %s --tier thorough" % cid,
        "evidence_file": "/verif/evidence/%s.json" % cid,
        "replay_cmd_template": "./check %s --replay {path}" % cid,
        "engine": "coq-proof+correspondence",
        "level_claimed": {"category": "proof", "text": t["text"], "design_ref": "DESIGN.md section 5, %s" % cid},
        "level_note": t["note"],
        "technique": t.get("technique", "machine-checked proof in Coq 8.16.1 about a hand-written Gallina model, tied to /repo by an executed correspondence check (vm_compute) and a direct oracle for the failing-input search"),
    })
m = {
    "version": 1,
    "setup_cmd": "./setup.sh",
    "hooks": {"guard": "GADDLEMAPS_VERIF", "enable": "no hooks: every observation is made through the public API, module-level names resolved at call time, and files; nothing in /repo is instrumented",
              "baseline_off_cmd": "cd /repo && /venv/bin/python -m pytest -ra -q -p no:cacheprovider --timeout=900 --continue-on-collection-errors",
              "source_commits": [], "add_only": True},
    "engines": [{"name": "coq-proof+correspondence", "path": "/verif/check", "serves_properties": [c["property_id"] for c in checks],
                 "kind_free_text": "Coq 8.16.1 theorems (coq/Props) about executable Gallina models (coq/Model), correspondence by generated cases evaluated with vm_compute (coq/Corr, harness/), direct property oracles on the implementation for replay search"}],
    "checks": checks,
    "notes": tab.get("notes", ""),
    "not_applicable": na,
}
json.dump(m, open(os.path.join(ROOT, "MANIFEST.json"), "w"), indent=1)
print("MANIFEST.json: %d checks, %d not_applicable" % (len(checks), len(na)))
