#!/usr/bin/env python3
"""usage: tools/verify_seed.py <seed_dir with patch.diff demo.py notes.md> <Cxx> <name>
Confirms a seeded change independently in a scratch copy of /repo:
 patch applies; the stable baseline tests still pass with it; demo.py fails with it and passes without.
Then stores it as /verif/seeded/<name>/ (patch.diff, demo.py, notes.md, meta.json)."""
import json, os, shutil, subprocess, sys, tempfile, xml.etree.ElementTree as ET
src, cid, name = sys.argv[1], sys.argv[2], sys.argv[3]
ROOT = "/verif"
def run(cmd, cwd=None, env=None, timeout=1800):
    e = dict(os.environ); e.update(env or {})
    p = subprocess.run(cmd, shell=True, cwd=cwd, env=e, stdout=subprocess.PIPE, stderr=subprocess.STDOUT, universal_newlines=True, timeout=timeout)
    return p.returncode, p.stdout
d = tempfile.mkdtemp(prefix="vseed.")
try:
    clean, mut = os.path.join(d, "clean"), os.path.join(d, "mut")
    for t in (clean, mut):
        os.makedirs(t); run("git -C /repo archive HEAD | tar -x -C %s" % t)
    rc, out = run("git init -q . && git apply --whitespace=nowarn %s" % os.path.abspath(os.path.join(src, "patch.diff")), cwd=mut)
    meta = {"property": cid, "name": name, "patch_applies": rc == 0}
    if rc != 0:
        print("PATCH DOES NOT APPLY\n", out); sys.exit(2)
    demo = os.path.abspath(os.path.join(src, "demo.py"))
    rc_clean, out_clean = run("/venv/bin/python %s" % demo, cwd=d, env={"PYTHONPATH": clean, "PYTHONWARNINGS": "ignore"}, timeout=900)
    rc_mut, out_mut = run("/venv/bin/python %s" % demo, cwd=d, env={"PYTHONPATH": mut, "PYTHONWARNINGS": "ignore"}, timeout=900)
    meta["demo_exit_unchanged"] = rc_clean; meta["demo_exit_with_change"] = rc_mut
    meta["demo_tail_with_change"] = out_mut[-400:]
    rc, out = run("/venv/bin/python -m pytest -q -p no:cacheprovider --timeout=900 --continue-on-collection-errors --junitxml=%s/j.xml test" % d, cwd=mut, env={"PYTHONPATH": mut})
    base = json.load(open("/root/.vp/BASELINE.json"))["stable_pass"]
    passed = set()
    for tc in ET.parse(d + "/j.xml").iter("testcase"):
        if not any(c.tag in ("failure", "error", "skipped") for c in tc):
            passed.add(tc.get("classname") + "::" + tc.get("name"))
    missing = [x for x in base if x not in passed]
    if missing:   # re-run the missing ones once (two suite tests are randomised and flaky on the unchanged tree)
        ids = " ".join("'%s'" % (m.replace(".", "/", m.count(".") - (1 if "::" in m and "." in m.split("::")[0] else 0))) for m in [])
        rc2, out2 = run("/venv/bin/python -m pytest -q -p no:cacheprovider --timeout=900 -k '%s' test" % " or ".join(m.split("::")[-1] for m in missing), cwd=mut, env={"PYTHONPATH": mut})
        meta["rerun_of_missing"] = out2[-300:]
        if " failed" not in out2.splitlines()[-1]:
            missing = []
    meta["stable_tests_passing_with_change"] = len(base) - len(missing)
    meta["stable_tests_missing_with_change"] = missing
    ok = rc_clean == 0 and rc_mut != 0 and not missing
    meta["confirmed"] = ok
    meta["ran"] = ["git apply patch.diff on a scratch export of /repo HEAD", "demo.py with PYTHONPATH=unchanged / changed tree", "full pytest suite on the changed tree compared with BASELINE stable_pass"]
    print(json.dumps(meta, indent=1))
    if ok:
        dst = os.path.join(ROOT, "seeded", name); os.makedirs(dst, exist_ok=True)
        for f in ("patch.diff", "demo.py", "notes.md"):
            if os.path.exists(os.path.join(src, f)): shutil.copy(os.path.join(src, f), dst)
        notes = open(os.path.join(src, "notes.md")).read() if os.path.exists(os.path.join(src, "notes.md")) else ""
        meta["needs_to_manifest"] = notes[:1500]
        json.dump(meta, open(os.path.join(dst, "meta.json"), "w"), indent=1)
    sys.exit(0 if ok else 1)
finally:
    shutil.rmtree(d, ignore_errors=True)
