(* Monte-Carlo loop at T := R: the acceptance rule as an order statement, the best measure as a minimum,
   and the geometry of the translation / rotation proposals. *)
From Coq Require Import Nsatz.
From GM Require Import Proofs.RTac Model.Aux Proofs.AuxR Gen.SrcConsts Model.MC Proofs.MC.
Import ListNotations.
Local Open Scope R_scope.

Lemma acceptance_R : @acceptance R RScalar = 1 / 100.
Proof. reflexivity. Qed.

(* ---------------------------------------------------------------- the rule *)
Lemma judged_R (e0 e1 : R) ou acc : judged e0 e1 ou acc ->
  (acc = true <-> (e1 <= e0 \/ exists u, ou = Some u /\ u <= 1 / 100 * (e0 / e1))) /\
  (ou = None <-> e1 <= e0).
Proof.
  intros [(A & B & C)|(A & B & u & D & E)].
  - apply sleb_R in A. subst. split; split; auto.
  - apply sleb_R_false in A. subst. rewrite acceptance_R. split; split.
    + intros Hb. right. exists u. split; [reflexivity|]. apply sleb_R in Hb. exact Hb.
    + intros [Hle|(u' & Eu & Hu)]; [lra|]. inversion Eu; subst. apply sleb_R. exact Hu.
    + discriminate.
    + intros Hle; lra.
Qed.

Lemma accept_fn_R (P : Type) (e0 e1 u : R) (s : stream R P) : 0 < e1 ->
  exists b ou s', accept_metropolis P e0 e1 (DRand u :: s) = Ok (b, ou, s') /\
    (b = true <-> (e1 <= e0 \/ u <= 1 / 100 * (e0 / e1))) /\
    (e1 <= e0 -> ou = None /\ s' = DRand u :: s) /\
    (e0 < e1 -> ou = Some u /\ s' = s).
Proof.
  intros Hpos. destruct (Rle_dec e1 e0) as [Hle|Hgt].
  - exists true, None, (DRand u :: s). split; [|split; [|split]].
    + apply accept_equal_or_lower. apply sleb_R; exact Hle.
    + split; auto.
    + auto.
    + intros; lra.
  - apply Rnot_le_lt in Hgt.
    exists (@sleb R RScalar u (acceptance * (e0 / e1))), (Some u), s. split; [|split; [|split]].
    + unfold accept_metropolis.
      assert (A : @sleb R RScalar e1 e0 = false) by (apply sleb_R_false; exact Hgt).
      assert (B : @seqb R RScalar e1 s0 = false) by (apply seqb_R_false; cbn [s0 RScalar]; lra).
      rewrite A, B. reflexivity.
    + rewrite acceptance_R. split.
      * intros Hb; right; apply sleb_R in Hb; exact Hb.
      * intros [Hle|Hu]; [lra|]. apply sleb_R; exact Hu.
    + intros; lra.
    + auto.
Qed.

Lemma accept_equal_or_lower_R (P : Type) (e0 e1 : R) (s : stream R P) :
  e1 <= e0 -> accept_metropolis P e0 e1 s = Ok (true, None, s).
Proof. intros Hle. apply accept_equal_or_lower. apply sleb_R; exact Hle. Qed.

Section LoopR.
Variables conf P : Type.
Variable chi2 : conf -> R.
Variable propose : nat -> P -> conf -> res conf.
Variable sim : list nat.
Variable n : nat.

Notation Step := (step_rec R conf).
Notation run := (mc_run conf P chi2 propose sim n).
Notation S0 := (st0 conf chi2).

(* C09_accept_rule on runs *)
Lemma run_accept_rule fuel init s tr out : run fuel init s = (tr, out) ->
  Forall (fun r : Step =>
     e_held (sr_before r) = chi2 (held (sr_before r)) /\ sr_e1 r = chi2 (sr_test r) /\
     (sr_acc r = true <->
        (sr_e1 r <= e_held (sr_before r) \/
         exists u, sr_u r = Some u /\ u <= 1 / 100 * (e_held (sr_before r) / sr_e1 r))) /\
     (sr_u r = None <-> sr_e1 r <= e_held (sr_before r))) tr.
Proof.
  intros Hrun. destruct (run_energy_consistent _ _ _ _ _ _ _ _ _ _ _ Hrun) as (_ & _ & Hall).
  rewrite Forall_forall in *. intros r Hin. destruct (Hall r Hin) as (H1 & H2 & Hj & _).
  rewrite <- H1, <- H2 in Hj. destruct (judged_R _ _ _ _ Hj) as [Ha Hb].
  repeat split; auto; try apply Ha; try apply Hb.
Qed.

(* C09_accept_equal_or_lower on runs *)
Lemma run_accept_equal_or_lower fuel init s tr out : run fuel init s = (tr, out) ->
  Forall (fun r : Step => sr_e1 r <= e_held (sr_before r) ->
     sr_acc r = true /\ sr_u r = None /\ held (sr_after r) = sr_test r /\ e_held (sr_after r) = sr_e1 r) tr.
Proof.
  intros Hrun. pose proof (run_accept_rule _ _ _ _ _ Hrun) as Hall.
  pose proof (run_accept_takes _ _ _ _ _ _ _ _ _ _ _ Hrun) as Htk.
  rewrite Forall_forall in *. intros r Hin Hle.
  destruct (Hall r Hin) as (_ & _ & Ha & Hu).
  assert (Hacc : sr_acc r = true) by (apply Ha; left; exact Hle).
  destruct (Htk r Hin Hacc) as [H1 H2]. repeat split; auto. apply Hu; exact Hle.
Qed.

(* strict new minimum, as an order statement *)
Lemma run_newmin_R fuel init s tr out : run fuel init s = (tr, out) ->
  Forall (fun r : Step => sr_newmin r = true <-> (sr_acc r = true /\ sr_e1 r < e_min (sr_before r))) tr.
Proof.
  intros Hrun. destruct (run_exact_stop _ _ _ _ _ _ _ _ _ _ _ Hrun) as (_ & Hm & _).
  rewrite Forall_forall in *. intros r Hin. rewrite (Hm r Hin), Bool.andb_true_iff.
  split; intros [A B]; split; auto; apply sltb_R; exact B.
Qed.

(* the best measure is the minimum of the initial and the accepted measures, and never above the held one *)
Definition min_accepted (e : R) (tr : list Step) : R :=
  fold_left (fun m r => if sr_acc r then Rmin m (sr_e1 r) else m) tr e.

Lemma emin_step (r : Step) : step_ok conf P chi2 propose sim r ->
  e_min (sr_after r) = (if sr_acc r then Rmin (e_min (sr_before r)) (sr_e1 r) else e_min (sr_before r)) /\
  (e_min (sr_before r) <= e_held (sr_before r) -> e_min (sr_after r) <= e_held (sr_after r)).
Proof.
  intros (_ & _ & _ & _ & _ & Ha). rewrite Ha, next_e_min, next_e_held.
  destruct (sr_acc r); cbn [andb].
  - destruct (@sltb R RScalar (sr_e1 r) (e_min (sr_before r))) eqn:E.
    + apply sltb_R in E. split; [rewrite Rmin_right; lra|lra].
    + apply sltb_R_false in E. split; [rewrite Rmin_left; lra|lra].
  - split; auto.
Qed.

Lemma emin_trace : forall (tr : list Step) st, chained conf st tr -> Forall (step_ok conf P chi2 propose sim) tr ->
  e_min st <= e_held st ->
  e_min (final_state conf st tr) = min_accepted (e_min st) tr /\
  e_min (final_state conf st tr) <= e_held (final_state conf st tr) /\
  Forall (fun r => e_min (sr_before r) <= e_held (sr_before r)) tr.
Proof.
  induction tr as [|r tr IH]; intros st Hc Hf Hle; [simpl; auto|].
  destruct Hc as [Hb Hc]. inversion Hf as [|? ? Hr Hf']; subst.
  destruct (emin_step r Hr) as [H1 H2]. specialize (H2 Hle).
  destruct (IH _ Hc Hf' H2) as (I1 & I2 & I3).
  unfold final_state, min_accepted in *; simpl.
  split; [rewrite I1, H1; reflexivity|]. split; [exact I2|]. constructor; auto.
Qed.

Lemma run_emin fuel init s tr out : run fuel init s = (tr, out) ->
  (forall tr1 tr2, tr = tr1 ++ tr2 ->
     e_min (final_state conf (S0 init) tr1) = min_accepted (chi2 init) tr1 /\
     e_min (final_state conf (S0 init) tr1) <= e_held (final_state conf (S0 init) tr1)).
Proof.
  intros Hrun tr1 tr2 E; subst.
  destruct (run_trace _ _ _ _ _ _ _ _ _ _ _ Hrun) as (Hc & Hf & _ & _).
  apply chained_app in Hc. destruct Hc as [Hc1 _]. apply Forall_app in Hf. destruct Hf as [Hf1 _].
  destruct (emin_trace tr1 (S0 init) Hc1 Hf1) as (A & B & _); [simpl; lra|].
  split; [exact A|exact B].
Qed.

End LoopR.

(* ---------------------------------------------------------------- the proposal kinds *)
Section ProposalsR.
Variable AD : Type.
Variable atom_move : AD -> list (V3 R) -> res (list (V3 R)).

Definition is_proposal (kind : nat) (pos test : list (V3 R)) : Prop :=
  (kind = 0%nat /\ exists d, test = map (fun p => vadd p d) pos) \/
  (kind = 1%nat /\ pos <> [] /\
     exists axis theta M, axis <> vzero /\ rotation_matrix axis theta = Ok M /\
       mmul M (mtrans M) = mid /\ mmul (mtrans M) M = mid /\ mdet M = 1 /\
       test = map (fun p => vadd (vecm (vsub p (vmean pos)) M) (vmean pos)) pos) \/
  (kind = 2%nat /\ exists a, atom_move a pos = Ok test).

Lemma propose_geo_kinds kind p pos test :
  propose_geo AD cos sin atom_move kind p pos = Ok test -> is_proposal kind pos test.
Proof.
  unfold is_proposal.
  destruct kind as [|[|[|k]]]; destruct p as [d|axis theta|a]; simpl; try discriminate.
  - intros E; inversion E. left. split; [reflexivity|]. exists d. reflexivity.
  - unfold rotate_cs, centroid. destruct pos as [|x l]; simpl; [discriminate|].
    destruct (rotation_matrix_cs axis (cos theta) (sin theta)) as [M|] eqn:EM; simpl; [|discriminate].
    intros E; inversion E; clear E. right; left. split; [reflexivity|]. split; [discriminate|].
    assert (Hne : axis <> vzero).
    { intros E0; subst. pose proof (rotation_zero_axis theta) as Z. unfold rotation_matrix in Z.
      rewrite Z in EM; discriminate. }
    destruct (rotation_proper axis theta Hne) as (M' & EM' & O1 & O2 & D & _).
    assert (M' = M) by (unfold rotation_matrix in EM'; rewrite EM in EM'; inversion EM'; reflexivity).
    subst M'. exists axis, theta, M. repeat split; auto.
  - intros E. right; right. split; [reflexivity|]. exists a; exact E.
Qed.

Lemma run_proposal_kinds chi2 sim n fuel init s tr out :
  minimize AD cos sin atom_move chi2 sim n fuel init s = (tr, out) ->
  Forall (fun r => In (sr_kind r) sim /\
                   is_proposal (sr_kind r) (held (sr_before r)) (sr_test r)) tr.
Proof.
  unfold minimize. intros Hrun. pose proof (run_kinds _ _ _ _ _ _ _ _ _ _ _ Hrun) as Hk.
  rewrite Forall_forall in *. intros r Hin. destruct (Hk r Hin) as [H1 [p Hp]].
  split; [exact H1|]. eapply propose_geo_kinds; eauto.
Qed.

End ProposalsR.

(* what "translation" and "rotation about the centroid" mean geometrically *)
Lemma translate_rigid (p q d : V3 R) : vsub (vadd p d) (vadd q d) = vsub p q.
Proof. destruct p, q, d; runfold; apply V3_eq; simpl; ring. Qed.

Lemma rotate_isometry (M : M3 R) (c p q : V3 R) : mmul M (mtrans M) = mid ->
  vdist2 (vadd (vecm (vsub p c) M) c) (vadd (vecm (vsub q c) M) c) = vdist2 p q.
Proof.
  destruct M as [[a11 a12 a13] [a21 a22 a23] [a31 a32 a33]], c as [c1 c2 c3], p as [p1 p2 p3], q as [q1 q2 q3].
  runfold. intros E. injection E. clear E. intros. nsatz.
Qed.

Lemma vsum_acc (l : list (V3 R)) : forall a, fold_left vadd l a = vadd a (vsum l).
Proof.
  unfold vsum. induction l as [|x l IH]; intros a; simpl.
  - destruct a; runfold; apply V3_eq; simpl; ring.
  - rewrite (IH (vadd a x)), (IH (vadd vzero x)).
    destruct a, x, (fold_left vadd l vzero); runfold; apply V3_eq; simpl; ring.
Qed.

Lemma vsum_cons x (l : list (V3 R)) : vsum (x :: l) = vadd x (vsum l).
Proof.
  unfold vsum at 1; simpl. rewrite vsum_acc.
  destruct x, (vsum l); runfold; apply V3_eq; simpl; ring.
Qed.

Lemma vsum_rotate (M : M3 R) (c : V3 R) (l : list (V3 R)) :
  vsum (map (fun p => vadd (vecm (vsub p c) M) c) l) =
  vadd (vecm (vsub (vsum l) (vscale (INR (length l)) c)) M) (vscale (INR (length l)) c).
Proof.
  induction l as [|x l IH].
  - destruct M as [[a11 a12 a13] [a21 a22 a23] [a31 a32 a33]], c as [c1 c2 c3].
    unfold vsum; simpl. runfold. apply V3_eq; simpl; ring.
  - cbn [map length]. rewrite !vsum_cons, IH, S_INR.
    destruct M as [[a11 a12 a13] [a21 a22 a23] [a31 a32 a33]], c as [c1 c2 c3], x as [x1 x2 x3], (vsum l) as [s1 s2 s3].
    generalize (INR (length l)); intros k. runfold. apply V3_eq; simpl; ring.
Qed.

Lemma rotate_keeps_centroid (M : M3 R) (pos : list (V3 R)) : pos <> [] ->
  vmean (map (fun p => vadd (vecm (vsub p (vmean pos)) M) (vmean pos)) pos) = vmean pos.
Proof.
  intros Hne. unfold vmean at 1. rewrite map_length, vsum_rotate.
  unfold vmean. cbn [sofZ RScalar]. rewrite <- INR_IZR_INZ.
  assert (Hk : INR (length pos) <> 0).
  { destruct pos; [contradiction|]. apply not_0_INR. simpl; discriminate. }
  destruct M as [[a11 a12 a13] [a21 a22 a23] [a31 a32 a33]], (vsum pos) as [s1 s2 s3].
  generalize dependent (INR (length pos)); intros k Hk. runfold. apply V3_eq; simpl; field; exact Hk.
Qed.
