(* read_topology on every text that carries a topology (C15_parse_render). *)
From Coq Require Import List Ascii Bool Arith Lia ZArith Sorted.
From GM Require Import Base.Res Base.StrItp Model.Itp Model.Topology Proofs.ItpSpec Proofs.ItpCore Proofs.ItpText Proofs.ItpLine.
Import ListNotations.

(* ---------------------------------------------------------------- atom number -> position *)
Lemma lookup_last_none z (l : list (Z * nat)) : ~ In z (map fst l) -> lookup_last z l = None.
Proof.
  induction l as [|[k v] r IH]; simpl; intros H; [reflexivity|].
  rewrite IH by tauto. destruct (Z.eqb k z) eqn:E; [|reflexivity].
  apply Z.eqb_eq in E. subst. exfalso. apply H. left. reflexivity.
Qed.

Lemma combine_fst_seq (nrs : list Z) s : map fst (combine nrs (seq s (List.length nrs))) = nrs.
Proof.
  revert s; induction nrs as [|x r IH]; simpl; intros s; [reflexivity|]. rewrite IH. reflexivity.
Qed.

Lemma lookup_last_pos : forall (nrs : list Z) s i z, NoDup nrs -> nth_error nrs i = Some z ->
  lookup_last z (combine nrs (seq s (List.length nrs))) = Some (s + i).
Proof.
  induction nrs as [|x r IH]; intros s i z Hnd Hi; [destruct i; discriminate|].
  inversion Hnd as [|? ? Hx Hr]; subst. simpl. destruct i as [|i]; simpl in Hi.
  - inversion Hi; subst. rewrite lookup_last_none by (rewrite combine_fst_seq; exact Hx).
    rewrite Z.eqb_refl. f_equal. lia.
  - rewrite (IH (S s) i z Hr Hi). f_equal. lia.
Qed.

(* ---------------------------------------------------------------- tagged lines *)
Lemma tag_lines_In : forall ls cur n l, In (n, l) (tag_lines cur ls) -> In l ls /\ is_hdr l = false.
Proof.
  induction ls as [|x r IH]; simpl; intros cur n l H; [contradiction|].
  destruct (is_hdr x) eqn:Hx.
  - destruct (hdr_name x); [|contradiction]. destruct (IH _ _ _ H). tauto.
  - destruct cur as [c|].
    + destruct H as [H|H]; [inversion H; subst; tauto | destruct (IH _ _ _ H); tauto].
    + destruct (IH _ _ _ H). tauto.
Qed.

Lemma lines_in_In n l ls : In l (lines_in n ls) <-> In (n, l) (tag_lines None ls).
Proof.
  unfold lines_in. rewrite in_map_iff. split.
  - intros [[k x] [E H]]. simpl in E. subst x. apply filter_In in H as [H1 H2]. simpl in H2.
    apply str_eqb_eq in H2. subst. exact H1.
  - intros H. exists (n, l). split; [reflexivity|]. apply filter_In. split; [exact H|]. simpl. apply str_eqb_refl.
Qed.

Lemma sec_names_from_mono ls : forall ns x, In x ns -> In x (sec_names_from ns ls).
Proof.
  induction ls as [|l r IH]; simpl; intros ns x H; [exact H|].
  destruct (is_hdr l); [|apply IH; exact H]. destruct (hdr_name l); [|exact H].
  apply IH. apply add_name_In. right. exact H.
Qed.

Lemma tag_lines_name : forall ls cur ns n l, In (n, l) (tag_lines cur ls) ->
  (forall c, cur = Some c -> In c ns) -> In n (sec_names_from ns ls).
Proof.
  induction ls as [|x r IH]; simpl; intros cur ns n l H Hc; [contradiction|].
  destruct (is_hdr x) eqn:Hx.
  - destruct (hdr_name x) as [k|]; [|contradiction]. apply (IH (Some k) _ _ _ H).
    intros c E. inversion E; subst. apply add_name_In. left. reflexivity.
  - destruct cur as [c|].
    + destruct H as [H|H].
      * inversion H; subst. apply sec_names_from_mono. apply Hc. reflexivity.
      * apply (IH (Some c) _ _ _ H). exact Hc.
    + apply (IH None _ _ _ H). intros c E. discriminate.
Qed.

Lemma lines_in_name n l ls : In l (lines_in n ls) -> In n (sec_names ls).
Proof.
  intros H. apply lines_in_In in H. apply (tag_lines_name _ None [] _ _ H). intros c E. discriminate.
Qed.

(* ---------------------------------------------------------------- what a text must carry *)
Record atom_spec := { as_nr : Z; as_name : str; as_resname : str; as_resid : Z }.
Record topo_spec := { ts_name : str; ts_atoms : list atom_spec; ts_cons : list (Z * Z); ts_bonds : list (Z * Z);
                      ts_pairs : list (Z * Z) }.

Definition float_at (ts : list str) (k : nat) : Prop := forall x, nth_error ts k = Some x -> py_float_ok x = true.

(* nr type resid resname name cgnr [charge [mass [...]]] : integers in ANY spelling int() accepts *)
Definition atom_line_ok (a : atom_spec) (ts : list str) : Prop :=
  exists t0 ty t2 t5 extra c, ts = t0 :: ty :: t2 :: as_resname a :: as_name a :: t5 :: extra /\
    py_int t0 = Ok (as_nr a) /\ py_int t2 = Ok (as_resid a) /\ py_int t5 = Ok c /\
    float_at extra 0 /\ float_at extra 1.
Definition bond_line_ok (b : Z * Z) (ts : list str) : Prop :=
  exists t0 t1 rest, ts = t0 :: t1 :: rest /\ py_int t0 = Ok (fst b) /\ py_int t1 = Ok (snd b) /\
    (forall x, nth_error rest 0 = Some x -> exists f, py_int x = Ok f).
Definition mol_line_ok (name : str) (ts : list str) : Prop :=
  exists t1 rest k, ts = name :: t1 :: rest /\ py_int t1 = Ok k /\ (1 <= k)%Z.

(* the token lists of the content lines (lines with at least one token before the first ';', not
   preprocessor lines) of all occurrences of section n, in file order *)
Definition nonnil (t : list str) : bool := match t with [] => false | _ :: _ => true end.
Definition content_toks (n : str) (ls : list str) : list (list str) :=
  filter nonnil (map (fun l => fst (spec_entry l)) (lines_in n ls)).

(* `ls` carries the topology t, whatever the decoration: sections in any order and any number of
   occurrences, other sections of plain kind, comment / blank / preprocessor lines anywhere, any spacing,
   trailing comments, any header text *)
Definition file_denotes (ls : list str) (t : topo_spec) : Prop :=
  no_header_sec ls /\
  (forall n, In n (sec_names ls) ->
     n = s_moleculetype \/ n = s_atoms \/ n = s_bonds \/ n = s_constraints \/ n = s_pairs \/ kind_of n = KPlain) /\
  In s_moleculetype (sec_names ls) /\ In s_atoms (sec_names ls) /\
  (exists m0 rest, content_toks s_moleculetype ls = m0 :: rest /\ mol_line_ok (ts_name t) m0 /\
                   Forall (fun m => exists nm, mol_line_ok nm m) rest) /\
  Forall2 atom_line_ok (ts_atoms t) (content_toks s_atoms ls) /\
  Forall2 bond_line_ok (ts_cons t) (content_toks s_constraints ls) /\
  Forall2 bond_line_ok (ts_bonds t) (content_toks s_bonds ls) /\
  Forall2 bond_line_ok (ts_pairs t) (content_toks s_pairs ls).

Definition info_of (a : atom_spec) : atom_info := (as_name a, as_resname a, as_resid a).
(* (i, j) are the 0-based positions of the atoms numbered (fst b, snd b) *)
Definition bond_at (nrs : list Z) (b : Z * Z) (ij : nat * nat) : Prop :=
  nth_error nrs (fst ij) = Some (fst b) /\ nth_error nrs (snd ij) = Some (snd b).

(* ---------------------------------------------------------------- fields from well-formed tokens *)
Lemma atom_fields_ok a ts : atom_line_ok a ts ->
  exists af, atom_fields ts = Ok af /\ a_nr af = as_nr a /\ a_name af = as_name a /\
             a_resname af = as_resname a /\ a_resid af = as_resid a.
Proof.
  intros (t0 & ty & t2 & t5 & extra & c & E & H0 & H2 & H5 & F0 & F1). subst ts.
  unfold atom_fields, float_at in *. simpl. rewrite H0. simpl. rewrite H2. simpl. rewrite H5. simpl.
  unfold opt_float. simpl.
  destruct extra as [|e0 [|e1 r]]; simpl in *.
  - eexists. split; [reflexivity|]. simpl. tauto.
  - rewrite (F0 e0 eq_refl). simpl. eexists. split; [reflexivity|]. simpl. tauto.
  - rewrite (F0 e0 eq_refl). simpl. rewrite (F1 e1 eq_refl). simpl. eexists. split; [reflexivity|]. simpl. tauto.
Qed.

Lemma bond_fields_ok b ts : bond_line_ok b ts -> exists f, bond_fields ts = Ok (FBond (fst b) (snd b) f).
Proof.
  intros (t0 & t1 & rest & E & H0 & H1 & H2). subst ts. unfold bond_fields. rewrite H0, H1. simpl.
  destruct rest as [|t2 r]; [eauto|]. destruct (H2 t2 eq_refl) as [f Hf]. rewrite Hf. simpl. eauto.
Qed.

Lemma mol_fields_ok name ts : mol_line_ok name ts -> exists k, mol_fields ts = Ok (FMol name k).
Proof.
  intros (t1 & rest & k & E & H1 & Hk). subst ts. unfold mol_fields. simpl. rewrite H1. simpl.
  destruct (k <? 1)%Z eqn:Ek; [apply Z.ltb_lt in Ek; lia | eauto].
Qed.

(* ---------------------------------------------------------------- dictionary of a parsed file *)
Lemma get_sec_map (g : str -> list pline) names n :
  get_sec n (map (fun k => (k, g k)) names) = if existsb (fun k => str_eqb k n) names then Some (g n) else None.
Proof.
  induction names as [|k r IH]; simpl; [reflexivity|].
  destruct (str_eqb k n) eqn:E; simpl; [apply str_eqb_eq in E; subst; reflexivity | exact IH].
Qed.

Lemma existsb_name names n : existsb (fun k => str_eqb k n) names = true <-> In n names.
Proof.
  rewrite existsb_exists. split.
  - intros [k [H E]]. apply str_eqb_eq in E. subst. exact H.
  - intros H. exists n. split; [exact H | apply str_eqb_refl].
Qed.

(* ---------------------------------------------------------------- links to the line-level lemmas *)
Lemma nonempty_content p : nonempty (content p) = nonnil (split_ws (content p)).
Proof.
  unfold content. destruct (strip (p_content p)) as [|c r] eqn:E.
  - reflexivity.
  - change (nonempty (c :: r)) with true. destruct (split_ws (c :: r)) eqn:S; [|reflexivity].
    exfalso. apply (ItpLine.split_ws_cons_nonspace c r); [|exact S].
    apply (ItpLine.strip_head_nonspace _ _ _ E).
Qed.

Definition not_hdr_not_re_header := ItpLine.is_hdr_false_re_header.

(* ---------------------------------------------------------------- from parsed lines to fields *)
Lemma sec_items_fields : forall k ls ps,
  Forall2 (fun l p => parse_line k l = Ok p) ls ps ->
  Forall2 (fun ts p => fields_of k ts = Ok (p_fields p))
          (filter nonnil (map (fun l => fst (spec_entry l)) ls)) (sec_items ps).
Proof.
  intros k ls ps H. induction H as [|l p ls ps Hp _ IH]; simpl; [constructor|].
  destruct (parse_line_entry _ _ _ Hp) as (He & Hf & _).
  assert (Ht : split_ws (content p) = fst (spec_entry l)) by (rewrite <- He; reflexivity).
  unfold sec_items in *. simpl. rewrite nonempty_content. rewrite Ht.
  destruct (nonnil (fst (spec_entry l))); [constructor; assumption | exact IH].
Qed.

Lemma mapM_Forall2 {A B} (f : A -> res B) (R : A -> B -> Prop) l :
  Forall (fun a => exists b, f a = Ok b /\ R a b) l -> exists l', mapM f l = Ok l' /\ Forall2 R l l'.
Proof.
  induction l as [|a r IH]; intros H; simpl.
  - exists []. split; [reflexivity | constructor].
  - inversion H as [|? ? [b [Hb Rb]] Hr]; subst. destruct (IH Hr) as [r' [E F]].
    rewrite Hb. simpl. rewrite E. simpl. exists (b :: r'). split; [reflexivity | constructor; assumption].
Qed.

Lemma Forall2_compose {A B C} (R : A -> B -> Prop) (S : B -> C -> Prop) l1 l2 l3 :
  Forall2 R l1 l2 -> Forall2 S l2 l3 -> Forall2 (fun a c => exists b, R a b /\ S b c) l1 l3.
Proof.
  intros H; revert l3; induction H; intros l3 H3; inversion H3; subst; constructor; eauto.
Qed.

Lemma Forall2_Forall_r {A B} (R : A -> B -> Prop) (P : B -> Prop) l1 l2 :
  Forall2 R l1 l2 -> (forall a b, R a b -> P b) -> Forall P l2.
Proof. intros H HP. induction H; constructor; eauto. Qed.

Lemma Forall2_In_r {A B} (R : A -> B -> Prop) l1 l2 b : Forall2 R l1 l2 -> In b l2 -> exists a, In a l1 /\ R a b.
Proof.
  intros H. induction H as [|x y l1 l2 Hxy _ IH]; simpl; intros Hb; [contradiction|].
  destruct Hb as [Hb|Hb]; [subst; eauto | destruct (IH Hb) as [a [Ha Ra]]; eauto].
Qed.

Lemma kind_atoms : kind_of s_atoms = KAtom. Proof. reflexivity. Qed.
Lemma kind_bonds : kind_of s_bonds = KBond. Proof. reflexivity. Qed.
Lemma kind_constraints : kind_of s_constraints = KBond. Proof. reflexivity. Qed.
Lemma kind_pairs : kind_of s_pairs = KBond. Proof. reflexivity. Qed.
Lemma kind_mol : kind_of s_moleculetype = KMol. Proof. reflexivity. Qed.

Lemma fields_of_nonnil k ts : nonnil ts = true ->
  fields_of k ts = match k with
                   | KPlain => Ok FNone
                   | KAtom => let* a := atom_fields ts in Ok (FAtom a)
                   | KBond => bond_fields ts
                   | KMol => mol_fields ts
                   end.
Proof. destruct ts; [discriminate | reflexivity]. Qed.

Lemma content_toks_nonnil n ls ts : In ts (content_toks n ls) -> nonnil ts = true.
Proof. unfold content_toks. intros H. apply filter_In in H. tauto. Qed.

Lemma content_toks_In n ls l : In l (lines_in n ls) -> nonnil (fst (spec_entry l)) = true ->
  In (fst (spec_entry l)) (content_toks n ls).
Proof.
  intros H1 H2. unfold content_toks. apply filter_In. split; [|exact H2].
  apply in_map_iff. exists l. tauto.
Qed.

(* every line of a text that carries a topology is accepted by its section's line parser *)
Lemma denotes_fields_ok ls t n l : file_denotes ls t -> In l (lines_in n ls) ->
  exists f, fields_of (kind_of n) (fst (spec_entry l)) = Ok f.
Proof.
  intros (Hdom & Hkinds & _ & _ & (m0 & rest & Hm & Hm0 & Hrest) & Hat & Hco & Hbo & Hpa) Hl.
  destruct (nonnil (fst (spec_entry l))) eqn:Hn.
  2:{ destruct (fst (spec_entry l)); [simpl; eauto | discriminate]. }
  pose proof (content_toks_In _ _ _ Hl Hn) as Hin.
  rewrite (fields_of_nonnil _ _ Hn).
  destruct (Hkinds n (lines_in_name _ _ _ Hl)) as [E|[E|[E|[E|[E|E]]]]]; try subst n.
  - rewrite kind_mol. rewrite Hm in Hin. destruct Hin as [Hin|Hin].
    + subst m0. destruct (mol_fields_ok _ _ Hm0) as [k Hk]. eauto.
    + rewrite Forall_forall in Hrest. destruct (Hrest _ Hin) as [nm Hnm].
      destruct (mol_fields_ok _ _ Hnm) as [k Hk]. eauto.
  - rewrite kind_atoms. destruct (Forall2_In_r _ _ _ _ Hat Hin) as [a [_ Ha]].
    destruct (atom_fields_ok _ _ Ha) as [af [Haf _]]. rewrite Haf. simpl. eauto.
  - rewrite kind_bonds. destruct (Forall2_In_r _ _ _ _ Hbo Hin) as [b [_ Hb]].
    destruct (bond_fields_ok _ _ Hb) as [f Hf]. eauto.
  - rewrite kind_constraints. destruct (Forall2_In_r _ _ _ _ Hco Hin) as [b [_ Hb]].
    destruct (bond_fields_ok _ _ Hb) as [f Hf]. eauto.
  - rewrite kind_pairs. destruct (Forall2_In_r _ _ _ _ Hpa Hin) as [b [_ Hb]].
    destruct (bond_fields_ok _ _ Hb) as [f Hf]. eauto.
  - rewrite E. eauto.
Qed.

(* the bond pairs of one key *)
Lemma sec_bonds_ok f ls key spec :
  f_secs f = map (fun n => (n, sec_lines n (f_secs f))) (sec_names ls) ->
  (forall n, Forall2 (fun l p => parse_line (kind_of n) l = Ok p) (lines_in n ls) (sec_lines n (f_secs f))) ->
  kind_of key = KBond ->
  Forall2 bond_line_ok spec (content_toks key ls) ->
  sec_bonds f key = Ok spec.
Proof.
  intros Hsecs Hall Hk Hspec. unfold sec_bonds.
  assert (Hitems : mapM bond_of (sec_items (sec_lines key (f_secs f))) = Ok spec).
  { pose proof (sec_items_fields _ _ _ (Hall key)) as H. fold (content_toks key ls) in H. rewrite Hk in H.
    revert H. generalize (sec_items (sec_lines key (f_secs f))). revert Hspec.
    generalize (content_toks_nonnil key ls). generalize (content_toks key ls).
    intros toks Hnn Hspec. induction Hspec as [|b ts spec toks Hb _ IH]; intros items H; inversion H; subst; [reflexivity|].
    simpl. destruct (bond_fields_ok _ _ Hb) as [fu Hfu].
    match goal with Hf : fields_of KBond ts = Ok _ |- _ =>
      rewrite (fields_of_nonnil KBond ts (Hnn ts (or_introl eq_refl))) in Hf; rewrite Hfu in Hf; inversion Hf as [Hpf] end.
    unfold bond_of at 1. rewrite <- Hpf. simpl.
    rewrite IH; [destruct b; reflexivity | intros x Hx; apply Hnn; right; exact Hx | assumption]. }
  destruct (get_sec key (f_secs f)) as [ps|] eqn:Hg.
  - unfold sec_lines in Hitems. rewrite Hg in Hitems. exact Hitems.
  - unfold sec_lines in Hitems. rewrite Hg in Hitems. simpl in Hitems. exact Hitems.
Qed.

Theorem read_topology_denotes : forall ls t,
  Forall line_ok ls -> file_denotes ls t ->
  ts_atoms t <> [] -> NoDup (map as_nr (ts_atoms t)) ->
  (forall b, In b (ts_cons t ++ ts_bonds t ++ ts_pairs t) ->
     In (fst b) (map as_nr (ts_atoms t)) /\ In (snd b) (map as_nr (ts_atoms t))) ->
  exists f bonds, itp_parse ls = Ok f /\
    parser_of_file f = Ok (ts_name t, map info_of (ts_atoms t), bonds) /\
    Forall2 (bond_at (map as_nr (ts_atoms t))) (ts_cons t ++ ts_bonds t ++ ts_pairs t) bonds.
Proof.
  intros ls t Hok Hden Hne Hnd Hends.
  pose proof Hden as (Hdom & Hkinds & Hmolin & Hatin & (m0 & rest & Hm & Hm0 & Hrest) & Hat & Hco & Hbo & Hpa).
  (* the text parses *)
  destruct (itp_parse_total ls Hdom) as [f Hf].
  { intros l Hl Hh. rewrite Forall_forall in Hok. apply hdr_name_total; auto. }
  { intros n l Hnl. destruct (tag_lines_In _ _ _ _ Hnl) as [Hl Hh].
    apply lines_in_In in Hnl. destruct (denotes_fields_ok _ _ _ _ Hden Hnl) as [fl Hfl].
    rewrite Forall_forall in Hok. apply (parse_line_complete _ _ fl); [|exact Hfl].
    apply not_hdr_not_re_header; auto. }
  destruct (itp_parse_spec _ _ Hf Hdom) as (Hhead & Hnames & Hsecs & Hall).
  exists f.
  (* dictionary facts *)
  assert (Hkm : has_key s_moleculetype (f_secs f) = true) by (apply has_key_In; rewrite Hnames; exact Hmolin).
  assert (Hka : has_key s_atoms (f_secs f) = true) by (apply has_key_In; rewrite Hnames; exact Hatin).
  assert (Hget : forall n, In n (sec_names ls) -> get_sec n (f_secs f) = Some (sec_lines n (f_secs f))).
  { intros n Hn. rewrite Hsecs at 1. rewrite get_sec_map.
    destruct (existsb (fun k => str_eqb k n) (sec_names ls)) eqn:E; [reflexivity|].
    apply existsb_name in Hn. congruence. }
  (* name *)
  assert (Hname : top_name f = Ok (ts_name t)).
  { unfold top_name. rewrite (Hget _ Hmolin).
    pose proof (sec_items_fields _ _ _ (Hall s_moleculetype)) as H. fold (content_toks s_moleculetype ls) in H.
    rewrite Hm in H. inversion H as [|? p0 ? ? Hp0 _]; subst.
    rewrite kind_mol in Hp0. simpl in Hp0. destruct (mol_fields_ok _ _ Hm0) as [k Hk].
    destruct m0 as [|x m0]; [destruct Hm0 as (? & ? & ? & E & _); discriminate|].
    simpl in Hp0. rewrite Hk in Hp0. inversion Hp0 as [Hpf]. reflexivity. }
  (* atoms *)
  assert (Hatoms : exists afs, mapM atom_of (sec_items (sec_lines s_atoms (f_secs f))) = Ok afs /\
             Forall2 (fun a af => a_nr af = as_nr a /\ a_name af = as_name a /\ a_resname af = as_resname a /\
                                  a_resid af = as_resid a) (ts_atoms t) afs).
  { pose proof (sec_items_fields _ _ _ (Hall s_atoms)) as H. fold (content_toks s_atoms ls) in H. rewrite kind_atoms in H.
    revert H. generalize (sec_items (sec_lines s_atoms (f_secs f))). revert Hat.
    generalize (content_toks_nonnil s_atoms ls). generalize (content_toks s_atoms ls). generalize (ts_atoms t).
    intros specs toks Hnn Hat. induction Hat as [|a ts specs toks Ha _ IH]; intros items H; inversion H; subst.
    - exists []. split; [reflexivity | constructor].
    - destruct (atom_fields_ok _ _ Ha) as [af [Haf Hafs]].
      match goal with Hfo : fields_of KAtom ts = Ok _ |- _ =>
        rewrite (fields_of_nonnil KAtom ts (Hnn ts (or_introl eq_refl))) in Hfo; rewrite Haf in Hfo; simpl in Hfo;
        inversion Hfo as [Hpf] end.
      match goal with Hr : Forall2 _ toks ?its |- _ =>
        destruct (IH (fun x Hx => Hnn x (or_intror Hx)) its Hr) as [afs [E F]] end.
      exists (af :: afs). split; [|constructor; assumption].
      simpl. unfold atom_of at 1. rewrite <- Hpf. simpl. rewrite E. reflexivity. }
  destruct Hatoms as [afs [Hafs Hrel]].
  assert (Hinfos : map (fun a => (a_name a, a_resname a, a_resid a)) afs = map info_of (ts_atoms t)).
  { clear - Hrel. induction Hrel as [|a af l l' (H1 & H2 & H3 & H4) _ IH]; simpl; [reflexivity|].
    rewrite IH. unfold info_of. rewrite H2, H3, H4. reflexivity. }
  assert (Hnrs : map a_nr afs = map as_nr (ts_atoms t)).
  { clear - Hrel. induction Hrel as [|a af l l' (H1 & H2 & H3 & H4) _ IH]; simpl; [reflexivity|].
    rewrite IH, H1. reflexivity. }
  (* bonds *)
  assert (Hraw : top_bonds_raw f = Ok (ts_cons t ++ ts_bonds t ++ ts_pairs t)).
  { unfold top_bonds_raw.
    rewrite (sec_bonds_ok f ls s_constraints (ts_cons t) Hsecs Hall kind_constraints Hco). simpl.
    rewrite (sec_bonds_ok f ls s_bonds (ts_bonds t) Hsecs Hall kind_bonds Hbo). simpl.
    rewrite (sec_bonds_ok f ls s_pairs (ts_pairs t) Hsecs Hall kind_pairs Hpa). reflexivity. }
  set (nrs := map as_nr (ts_atoms t)) in *.
  set (nums := combine (map a_nr afs) (seq 0 (List.length afs))).
  assert (Htr : exists bonds, mapM (translate nums) (ts_cons t ++ ts_bonds t ++ ts_pairs t) = Ok bonds /\
                              Forall2 (bond_at nrs) (ts_cons t ++ ts_bonds t ++ ts_pairs t) bonds).
  { apply mapM_Forall2. apply Forall_forall. intros b Hb. destruct (Hends b Hb) as [H1 H2].
    apply In_nth_error in H1 as [i Hi]. apply In_nth_error in H2 as [j Hj].
    exists (i, j). split; [|split; assumption].
    unfold translate, nums. rewrite Hnrs. replace (List.length afs) with (List.length nrs).
    2:{ rewrite <- Hnrs. rewrite map_length. reflexivity. }
    rewrite (lookup_last_pos nrs 0 i (fst b) Hnd Hi), (lookup_last_pos nrs 0 j (snd b) Hnd Hj). reflexivity. }
  destruct Htr as [bonds [Hb1 Hb2]]. exists bonds. split; [exact Hf|]. split; [|exact Hb2].
  unfold parser_of_file. rewrite Hkm, Hka. simpl. rewrite Hname. simpl.
  unfold top_atoms. rewrite (Hget _ Hatin). rewrite Hafs. simpl.
  rewrite Hinfos. destruct (map info_of (ts_atoms t)) eqn:Emap.
  { destruct (ts_atoms t); [contradiction | discriminate]. }
  rewrite Hraw. simpl. fold nums. rewrite Hb1. simpl. reflexivity.
Qed.

(* the statement on the file text *)
Theorem read_topology_render : forall text t,
  file_denotes (lines text) t ->
  ts_atoms t <> [] -> NoDup (map as_nr (ts_atoms t)) ->
  (forall b, In b (ts_cons t ++ ts_bonds t ++ ts_pairs t) ->
     In (fst b) (map as_nr (ts_atoms t)) /\ In (snd b) (map as_nr (ts_atoms t))) ->
  exists bonds,
    read_topology text = Ok (ts_name t, map info_of (ts_atoms t), bonds) /\
    Forall2 (bond_at (map as_nr (ts_atoms t))) (ts_cons t ++ ts_bonds t ++ ts_pairs t) bonds /\
    (forall b, In b bonds -> fst b < List.length (ts_atoms t) /\ snd b < List.length (ts_atoms t)).
Proof.
  intros text t Hden Hne Hnd Hends.
  destruct (read_topology_denotes (lines text) t (lines_ok text) Hden Hne Hnd Hends) as (f & bonds & Hf & Hp & Hb).
  exists bonds. split; [|split; [exact Hb|]].
  - unfold read_topology, itp_read. rewrite Hf. simpl. exact Hp.
  - intros b Hin. destruct (Forall2_In_r _ _ _ _ Hb Hin) as [z [_ [H1 H2]]].
    assert (L : List.length (map as_nr (ts_atoms t)) = List.length (ts_atoms t)) by apply map_length.
    rewrite <- L. split; apply nth_error_Some; congruence.
Qed.

(* ---------------------------------------------------------------- a concrete decorated text *)
Definition no_header_secb (ls : list str) : bool :=
  forallb (fun l => negb (is_hdr l) || match hdr_name l with Ok n => negb (str_eqb n s_header) | Err _ => true end) ls.

Lemma no_header_secb_ok ls : no_header_secb ls = true -> no_header_sec ls.
Proof.
  unfold no_header_secb, no_header_sec. rewrite forallb_forall. intros H l Hl Hh E.
  specialize (H l Hl). rewrite Hh, E in H. rewrite str_eqb_refl in H. discriminate.
Qed.
