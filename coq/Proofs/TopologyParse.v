(* read_topology on every text that carries a topology (C15_parse_render). *)
From Coq Require Import List Ascii Bool Arith Lia ZArith Sorted.
From GM Require Import Base.Res Base.StrItp Model.Itp Model.Topology Proofs.ItpSpec Proofs.ItpCore.
Import ListNotations.

(* ---------------------------------------------------------------- atom number -> position *)
Lemma lookup_last_none z (l : list (Z * nat)) : ~ In z (map fst l) -> lookup_last z l = None.
Proof.
  induction l as [|[k v] r IH]; simpl; intros H; [reflexivity|].
  rewrite IH by tauto. destruct (Z.eqb k z) eqn:E; [|reflexivity].
  apply Z.eqb_eq in E. subst. exfalso. apply H. left. reflexivity.
Qed.

Lemma combine_fst_seq (nrs : list Z) s : map fst (combine nrs (seq s (List.length nrs))) = nrs.
Proof.
  revert s; induction nrs as [|x r IH]; simpl; intros s; [reflexivity|]. rewrite IH. reflexivity.
Qed.

Lemma lookup_last_pos : forall (nrs : list Z) s i z, NoDup nrs -> nth_error nrs i = Some z ->
  lookup_last z (combine nrs (seq s (List.length nrs))) = Some (s + i).
Proof.
  induction nrs as [|x r IH]; intros s i z Hnd Hi; [destruct i; discriminate|].
  inversion Hnd as [|? ? Hx Hr]; subst. simpl. destruct i as [|i]; simpl in Hi.
  - inversion Hi; subst. rewrite lookup_last_none by (rewrite combine_fst_seq; exact Hx).
    rewrite Z.eqb_refl. f_equal. lia.
  - rewrite (IH (S s) i z Hr Hi). f_equal. lia.
Qed.

(* ---------------------------------------------------------------- tagged lines *)
Lemma tag_lines_In : forall ls cur n l, In (n, l) (tag_lines cur ls) -> In l ls /\ is_hdr l = false.
Proof.
  induction ls as [|x r IH]; simpl; intros cur n l H; [contradiction|].
  destruct (is_hdr x) eqn:Hx.
  - destruct (hdr_name x); [|contradiction]. destruct (IH _ _ _ H). tauto.
  - destruct cur as [c|].
    + destruct H as [H|H]; [inversion H; subst; tauto | destruct (IH _ _ _ H); tauto].
    + destruct (IH _ _ _ H). tauto.
Qed.

Lemma lines_in_In n l ls : In l (lines_in n ls) <-> In (n, l) (tag_lines None ls).
Proof.
  unfold lines_in. rewrite in_map_iff. split.
  - intros [[k x] [E H]]. simpl in E. subst x. apply filter_In in H as [H1 H2]. simpl in H2.
    apply str_eqb_eq in H2. subst. exact H1.
  - intros H. exists (n, l). split; [reflexivity|]. apply filter_In. split; [exact H|]. simpl. apply str_eqb_refl.
Qed.

Lemma sec_names_from_mono ls : forall ns x, In x ns -> In x (sec_names_from ns ls).
Proof.
  induction ls as [|l r IH]; simpl; intros ns x H; [exact H|].
  destruct (is_hdr l); [|apply IH; exact H]. destruct (hdr_name l); [|exact H].
  apply IH. apply add_name_In. right. exact H.
Qed.

Lemma tag_lines_name : forall ls cur ns n l, In (n, l) (tag_lines cur ls) ->
  (forall c, cur = Some c -> In c ns) -> In n (sec_names_from ns ls).
Proof.
  induction ls as [|x r IH]; simpl; intros cur ns n l H Hc; [contradiction|].
  destruct (is_hdr x) eqn:Hx.
  - destruct (hdr_name x) as [k|]; [|contradiction]. apply (IH (Some k) _ _ _ H).
    intros c E. inversion E; subst. apply add_name_In. left. reflexivity.
  - destruct cur as [c|].
    + destruct H as [H|H].
      * inversion H; subst. apply sec_names_from_mono. apply Hc. reflexivity.
      * apply (IH (Some c) _ _ _ H). exact Hc.
    + apply (IH None _ _ _ H). intros c E. discriminate.
Qed.

Lemma lines_in_name n l ls : In l (lines_in n ls) -> In n (sec_names ls).
Proof.
  intros H. apply lines_in_In in H. apply (tag_lines_name _ None [] _ _ H). intros c E. discriminate.
Qed.

(* ---------------------------------------------------------------- what a text must carry *)
Record atom_spec := { as_nr : Z; as_name : str; as_resname : str; as_resid : Z }.
Record topo_spec := { ts_name : str; ts_atoms : list atom_spec; ts_cons : list (Z * Z); ts_bonds : list (Z * Z);
                      ts_pairs : list (Z * Z) }.

Definition float_at (ts : list str) (k : nat) : Prop := forall x, nth_error ts k = Some x -> py_float_ok x = true.

(* nr type resid resname name cgnr [charge [mass [...]]] : integers in ANY spelling int() accepts *)
Definition atom_line_ok (a : atom_spec) (ts : list str) : Prop :=
  exists t0 ty t2 t5 extra c, ts = t0 :: ty :: t2 :: as_resname a :: as_name a :: t5 :: extra /\
    py_int t0 = Ok (as_nr a) /\ py_int t2 = Ok (as_resid a) /\ py_int t5 = Ok c /\
    float_at extra 0 /\ float_at extra 1.
Definition bond_line_ok (b : Z * Z) (ts : list str) : Prop :=
  exists t0 t1 rest, ts = t0 :: t1 :: rest /\ py_int t0 = Ok (fst b) /\ py_int t1 = Ok (snd b) /\
    (forall x, nth_error rest 0 = Some x -> exists f, py_int x = Ok f).
Definition mol_line_ok (name : str) (ts : list str) : Prop :=
  exists t1 rest k, ts = name :: t1 :: rest /\ py_int t1 = Ok k /\ (1 <= k)%Z.

(* the token lists of the content lines (lines with at least one token before the first ';', not
   preprocessor lines) of all occurrences of section n, in file order *)
Definition nonnil (t : list str) : bool := match t with [] => false | _ :: _ => true end.
Definition content_toks (n : str) (ls : list str) : list (list str) :=
  filter nonnil (map (fun l => fst (spec_entry l)) (lines_in n ls)).

(* `ls` carries the topology t, whatever the decoration: sections in any order and any number of
   occurrences, other sections of plain kind, comment / blank / preprocessor lines anywhere, any spacing,
   trailing comments, any header text *)
Definition file_denotes (ls : list str) (t : topo_spec) : Prop :=
  no_header_sec ls /\
  (forall n, In n (sec_names ls) ->
     n = s_moleculetype \/ n = s_atoms \/ n = s_bonds \/ n = s_constraints \/ n = s_pairs \/ kind_of n = KPlain) /\
  In s_moleculetype (sec_names ls) /\ In s_atoms (sec_names ls) /\
  (exists m0 rest, content_toks s_moleculetype ls = m0 :: rest /\ mol_line_ok (ts_name t) m0 /\
                   Forall (fun m => exists nm, mol_line_ok nm m) rest) /\
  Forall2 atom_line_ok (ts_atoms t) (content_toks s_atoms ls) /\
  Forall2 bond_line_ok (ts_cons t) (content_toks s_constraints ls) /\
  Forall2 bond_line_ok (ts_bonds t) (content_toks s_bonds ls) /\
  Forall2 bond_line_ok (ts_pairs t) (content_toks s_pairs ls).

Definition info_of (a : atom_spec) : atom_info := (as_name a, as_resname a, as_resid a).
(* (i, j) are the 0-based positions of the atoms numbered (fst b, snd b) *)
Definition bond_at (nrs : list Z) (b : Z * Z) (ij : nat * nat) : Prop :=
  nth_error nrs (fst ij) = Some (fst b) /\ nth_error nrs (snd ij) = Some (snd b).

(* ---------------------------------------------------------------- fields from well-formed tokens *)
Lemma atom_fields_ok a ts : atom_line_ok a ts ->
  exists af, atom_fields ts = Ok af /\ a_nr af = as_nr a /\ a_name af = as_name a /\
             a_resname af = as_resname a /\ a_resid af = as_resid a.
Proof.
  intros (t0 & ty & t2 & t5 & extra & c & E & H0 & H2 & H5 & F0 & F1). subst ts.
  unfold atom_fields, float_at in *. simpl. rewrite H0. simpl. rewrite H2. simpl. rewrite H5. simpl.
  unfold opt_float. simpl.
  destruct extra as [|e0 [|e1 r]]; simpl in *.
  - eexists. split; [reflexivity|]. simpl. tauto.
  - rewrite (F0 e0 eq_refl). simpl. eexists. split; [reflexivity|]. simpl. tauto.
  - rewrite (F0 e0 eq_refl). simpl. rewrite (F1 e1 eq_refl). simpl. eexists. split; [reflexivity|]. simpl. tauto.
Qed.

Lemma bond_fields_ok b ts : bond_line_ok b ts -> exists f, bond_fields ts = Ok (FBond (fst b) (snd b) f).
Proof.
  intros (t0 & t1 & rest & E & H0 & H1 & H2). subst ts. unfold bond_fields. rewrite H0, H1. simpl.
  destruct rest as [|t2 r]; [eauto|]. destruct (H2 t2 eq_refl) as [f Hf]. rewrite Hf. simpl. eauto.
Qed.

Lemma mol_fields_ok name ts : mol_line_ok name ts -> exists k, mol_fields ts = Ok (FMol name k).
Proof.
  intros (t1 & rest & k & E & H1 & Hk). subst ts. unfold mol_fields. simpl. rewrite H1. simpl.
  destruct (k <? 1)%Z eqn:Ek; [apply Z.ltb_lt in Ek; lia | eauto].
Qed.

(* ---------------------------------------------------------------- dictionary of a parsed file *)
Lemma get_sec_map (g : str -> list pline) names n :
  get_sec n (map (fun k => (k, g k)) names) = if existsb (fun k => str_eqb k n) names then Some (g n) else None.
Proof.
  induction names as [|k r IH]; simpl; [reflexivity|].
  destruct (str_eqb k n) eqn:E; simpl; [apply str_eqb_eq in E; subst; reflexivity | exact IH].
Qed.

Lemma existsb_name names n : existsb (fun k => str_eqb k n) names = true <-> In n names.
Proof.
  rewrite existsb_exists. split.
  - intros [k [H E]]. apply str_eqb_eq in E. subst. exact H.
  - intros H. exists n. split; [exact H | apply str_eqb_refl].
Qed.
