(* Lemmas about Model/ExchangeMap.v at T := R: characterisation of build/apply, the
   anchor-and-scale law (C01), radius / cluster / locality (C03). *)
From GM Require Import Proofs.RTac Model.Aux Proofs.AuxR Model.ExchangeMap Proofs.ExchangeMapL.
Import ListNotations.
Local Open Scope R_scope.

(* ---------- small list facts ---------- *)
Lemma combine_nth_error {A B} (l1 : list A) (l2 : list B) k a b :
  nth_error l1 k = Some a -> nth_error l2 k = Some b -> nth_error (combine l1 l2) k = Some (a, b).
Proof.
  revert l2 k; induction l1 as [|x xs IH]; intros l2 k H1 H2; [destruct k; discriminate|].
  destruct l2 as [|y ys]; [destruct k; discriminate|].
  destruct k as [|k]; simpl in *; [inversion H1; inversion H2; reflexivity|apply IH; assumption].
Qed.

Lemma combine_nth_error_inv {A B} (l1 : list A) (l2 : list B) k a b :
  nth_error (combine l1 l2) k = Some (a, b) -> nth_error l1 k = Some a /\ nth_error l2 k = Some b.
Proof.
  revert l2 k; induction l1 as [|x xs IH]; intros l2 k H; [destruct k; discriminate|].
  destruct l2 as [|y ys]; [destruct k; discriminate|].
  destruct k as [|k]; simpl in *; [inversion H; auto|apply IH; assumption].
Qed.

Lemma nth_error_lt {A} (l : list A) n : (n < length l)%nat -> exists x, nth_error l n = Some x.
Proof.
  intros Hn. destruct (nth_error l n) eqn:E; [eauto|]. apply nth_error_None in E. lia.
Qed.

(* ---------- build / apply, given the table of bases ---------- *)
Lemma build_char g (ref tgt : list (V3 R)) s db fr :
  refsystems g ref db = Ok fr -> map fst fr <> [] ->
  (forall a, In a (map fst fr) -> (exists ra, nth_error ref a = Some ra) /\ exists F, dict_get fr a = Ok (Ok F)) ->
  exists m, build g ref tgt s db = Ok m /\ em_frames m = fr /\ em_scale m = s /\
    length (em_equiv m) = length tgt /\ length (em_coords m) = length tgt /\
    forall k p, nth_error tgt k = Some p ->
      exists a F, nth_error (em_equiv m) k = Some a /\ closest_to ref (map fst fr) p a /\
        dict_get fr a = Ok (Ok F) /\ nth_error (em_coords m) k = Some (project F p s).
Proof.
  intros Hfr Hne Hk. unfold build. rewrite Hfr. cbn [bind].
  assert (Hatom : forall p, exists a F, closest_to ref (map fst fr) p a /\ dict_get fr a = Ok (Ok F) /\
             map_atom ref fr s p = Ok (a, project F p s)).
  { intros p. destruct (find_closest_spec ref (map fst fr) p Hne) as (a & Ea & Hc).
    { intros a Ha. apply (Hk a Ha). }
    destruct Hc as [Hin Hrest]. destruct (Hk a Hin) as [_ [F HF]].
    exists a, F. split; [split; assumption|]. split; [exact HF|].
    unfold map_atom. rewrite Ea. cbn [bind]. rewrite HF. cbn [bind]. reflexivity. }
  destruct (mapM_total (map_atom ref fr s) tgt) as [ec Eec].
  { intros p _. destruct (Hatom p) as (a & F & _ & _ & E). eauto. }
  rewrite Eec. cbn [bind]. eexists; split; [reflexivity|]. cbn [em_frames em_scale em_equiv em_coords].
  pose proof (mapM_length _ _ _ Eec) as Hlen.
  split; [reflexivity|]. split; [reflexivity|].
  split; [rewrite map_length; exact Hlen|]. split; [rewrite map_length; exact Hlen|].
  intros k p Hp. destruct (mapM_nth _ _ _ _ _ Eec Hp) as (b & Eb & Hb).
  destruct (Hatom p) as (a & F & Hc & HF & E). rewrite E in Eb. inversion Eb; subst b.
  exists a, F. split; [rewrite (map_nth_error fst _ _ Hb); reflexivity|].
  split; [exact Hc|]. split; [exact HF|]. rewrite (map_nth_error snd _ _ Hb); reflexivity.
Qed.

Lemma apply_char (m : emap R) g (ref' : list (V3 R)) da upd :
  refsystems g ref' da = Ok upd -> length (em_equiv m) = length (em_coords m) ->
  (forall a, In a (em_equiv m) -> exists F', dict_get upd a = Ok (Ok F')) ->
  exists out, apply m g ref' da = Ok out /\ length out = length (em_equiv m) /\
    forall k a c, nth_error (em_equiv m) k = Some a -> nth_error (em_coords m) k = Some c ->
      exists F', dict_get upd a = Ok (Ok F') /\ nth_error out k = Some (restore F' c).
Proof.
  intros Hupd Hlen Hk. unfold apply. rewrite Hupd. cbn [bind].
  assert (Hatom : forall a c, In a (em_equiv m) -> exists F', dict_get upd a = Ok (Ok F') /\
            restore_atom m upd (a, c) = Ok (restore F' c)).
  { intros a c Ha. destruct (Hk a Ha) as [F' HF]. exists F'. split; [exact HF|].
    unfold restore_atom, current_frame. cbn [fst snd]. rewrite HF. cbn [bind]. reflexivity. }
  destruct (mapM_total (restore_atom m upd) (combine (em_equiv m) (em_coords m))) as [out Eout].
  { intros [a c] Hac. apply in_combine_l in Hac. destruct (Hatom a c Hac) as (F' & _ & E). eauto. }
  exists out. split; [exact Eout|]. split.
  - rewrite (mapM_length _ _ _ Eout). rewrite combine_length. rewrite Hlen. apply Nat.min_id.
  - intros k a c Ha Hc. pose proof (combine_nth_error _ _ _ _ _ Ha Hc) as Hac.
    destruct (mapM_nth _ _ _ _ _ Eout Hac) as (x & Ex & Hx).
    destruct (Hatom a c (nth_error_In _ _ Ha)) as (F' & HF & E). rewrite E in Ex. inversion Ex; subst x.
    exists F'. split; assumption.
Qed.

(* ---------- references of three or more atoms ---------- *)
Definition graph_wf (g : graph) : Prop :=
  forall a l, nth_error g a = Some l -> NoDup l /\ ~ In a l /\ forall j, In j l -> (j < length g)%nat.

(* a conformation of the species with bond graph g: one position per atom, >= 3 atoms, pairwise distinct *)
Definition conf_ok (g : graph) (ps : list (V3 R)) : Prop :=
  length ps = length g /\ (3 <= length ps)%nat /\ NoDup ps.

Definition general_table (g : graph) (ps : list (V3 R)) : list (nat * res (frame R)) :=
  map (fun a => (a, base_of (points_at g ps a))) (anchors g).

Lemma refsystems_general g (ps : list (V3 R)) d :
  (3 <= length ps)%nat -> refsystems g ps d = Ok (general_table g ps).
Proof.
  intros H3. unfold refsystems, refpoints, general_table.
  destruct ps as [|p0 [|p1 [|p2 ps]]]; simpl in H3; try lia.
  cbn [rmap]. rewrite map_map. reflexivity.
Qed.

Lemma general_table_keys g (ps : list (V3 R)) : map fst (general_table g ps) = anchors g.
Proof. unfold general_table. rewrite map_map. cbn [fst]. apply map_id. Qed.

Lemma general_table_get g (ps : list (V3 R)) a :
  In a (anchors g) -> dict_get (general_table g ps) a = Ok (base_of (points_at g ps a)).
Proof. intros Ha. unfold general_table. apply (dict_get_map (fun a => base_of (points_at g ps a))). exact Ha. Qed.

(* the frame of an anchor: built from the anchor and its two lowest bonded atoms, orthonormal *)
Definition frame_of (g : graph) (ps : list (V3 R)) (a n1 n2 : nat) (p0 p1 p2 : V3 R) (F : frame R) : Prop :=
  (exists l, nth_error g a = Some l /\ lowest2 l = Some (n1, n2)) /\
  nth_error ps a = Some p0 /\ nth_error ps n1 = Some p1 /\ nth_error ps n2 = Some p2 /\
  points_at g ps a = Ok (p0, p1, p2) /\ base_of (points_at g ps a) = Ok F /\
  p0 <> p2 /\ frame_good F p0 p1 p2.

Lemma frame_general g (ps : list (V3 R)) a :
  graph_wf g -> length ps = length g -> NoDup ps -> In a (anchors g) ->
  exists n1 n2 p0 p1 p2 F, frame_of g ps a n1 n2 p0 p1 p2 F.
Proof.
  intros Hwf Hlen Hnd Ha. apply anchors_In in Ha. destruct Ha as (l & Hl & H2).
  destruct (Hwf a l Hl) as (Hndl & Hnin & Hrange).
  destruct (lowest2_spec l Hndl H2) as (n1 & n2 & El & Hn1 & Hn2 & Hlt & _).
  assert (Hal : (a < length ps)%nat) by (rewrite Hlen; apply nth_error_Some; rewrite Hl; discriminate).
  destruct (nth_error_lt ps a Hal) as [p0 Hp0].
  destruct (nth_error_lt ps n1) as [p1 Hp1]; [rewrite Hlen; apply Hrange; exact Hn1|].
  destruct (nth_error_lt ps n2) as [p2 Hp2]; [rewrite Hlen; apply Hrange; exact Hn2|].
  assert (Hne : p0 <> p2).
  { intros E. subst p2. assert (a = n2).
    { apply (proj1 (NoDup_nth_error ps) Hnd a n2 Hal). rewrite Hp0, Hp2; reflexivity. }
    subst n2. contradiction. }
  destruct (calcule_base_frame p0 p1 p2 Hne) as (F & EF & HG & _).
  assert (Hpts : points_at g ps a = Ok (p0, p1, p2)).
  { unfold points_at. rewrite (nth_res_ok _ _ _ Hl). cbn [bind]. rewrite El.
    rewrite (nth_res_ok _ _ _ Hp0), (nth_res_ok _ _ _ Hp1), (nth_res_ok _ _ _ Hp2). reflexivity. }
  exists n1, n2, p0, p1, p2, F. unfold frame_of.
  split; [exists l; split; assumption|]. repeat (split; [assumption|]).
  split; [rewrite Hpts; cbn [base_of bind]; exact EF|]. split; assumption.
Qed.

Lemma frame_of_fun g (ps : list (V3 R)) a n1 n2 p0 p1 p2 F n1' n2' p0' p1' p2' F' :
  frame_of g ps a n1 n2 p0 p1 p2 F -> frame_of g ps a n1' n2' p0' p1' p2' F' ->
  n1 = n1' /\ n2 = n2' /\ p0 = p0' /\ p1 = p1' /\ p2 = p2' /\ F = F'.
Proof.
  intros ((l & Hl & El) & H0 & H1 & H2 & _ & HF & _) ((l' & Hl' & El') & H0' & H1' & H2' & _ & HF' & _).
  rewrite Hl in Hl'. inversion Hl'; subst l'. rewrite El in El'. inversion El'; subst.
  rewrite H0 in H0'. rewrite H1 in H1'. rewrite H2 in H2'. rewrite HF in HF'.
  inversion H0'; inversion H1'; inversion H2'; inversion HF'. repeat split; reflexivity.
Qed.

(* construction + call, >= 3 atoms: everything the later theorems need *)
Lemma general_char g (ref tgt : list (V3 R)) s db :
  graph_wf g -> conf_ok g ref -> anchors g <> [] ->
  exists m, build g ref tgt s db = Ok m /\ em_scale m = s /\
    length (em_equiv m) = length tgt /\ length (em_coords m) = length tgt /\
    (forall k p, nth_error tgt k = Some p ->
      exists a n1 n2 p0 p1 p2 F, nth_error (em_equiv m) k = Some a /\ closest_to ref (anchors g) p a /\
        frame_of g ref a n1 n2 p0 p1 p2 F /\ nth_error (em_coords m) k = Some (project F p s)) /\
    (forall a, In a (em_equiv m) -> In a (anchors g)) /\
    forall ref' da, conf_ok g ref' ->
      exists out, apply m g ref' da = Ok out /\ length out = length tgt /\
        forall k a c, nth_error (em_equiv m) k = Some a -> nth_error (em_coords m) k = Some c ->
          exists n1 n2 p0 p1 p2 F', frame_of g ref' a n1 n2 p0 p1 p2 F' /\
            nth_error out k = Some (restore F' c).
Proof.
  intros Hwf (Hlen & H3 & Hnd) Hanc.
  destruct (build_char g ref tgt s db (general_table g ref)) as (m & Em & Hfr & Hs & Hle & Hlc & Hk).
  - apply refsystems_general; exact H3.
  - rewrite general_table_keys; exact Hanc.
  - intros a Ha. rewrite general_table_keys in Ha.
    destruct (frame_general g ref a Hwf Hlen Hnd Ha) as (n1 & n2 & p0 & p1 & p2 & F & HF).
    split; [exists p0; apply HF|]. exists F. rewrite general_table_get by exact Ha.
    destruct HF as (_ & _ & _ & _ & _ & HF & _). rewrite HF; reflexivity.
  - rewrite general_table_keys in Hk.
    assert (Hin : forall a, In a (em_equiv m) -> In a (anchors g)).
    { intros a Ha. apply In_nth_error in Ha. destruct Ha as [k Hk'].
      assert (Hkt : (k < length tgt)%nat) by (rewrite <- Hle; apply nth_error_Some; rewrite Hk'; discriminate).
      destruct (nth_error_lt tgt k Hkt) as [p Hp].
      destruct (Hk k p Hp) as (a' & F & Ea & Hc & _). rewrite Hk' in Ea. inversion Ea; subst a'. apply Hc. }
    exists m. split; [exact Em|]. split; [exact Hs|]. split; [exact Hle|]. split; [exact Hlc|].
    split; [|split; [exact Hin|]].
    + intros k p Hp. destruct (Hk k p Hp) as (a & F & Ea & Hc & HF & Ec).
      assert (Ha : In a (anchors g)) by apply Hc.
      destruct (frame_general g ref a Hwf Hlen Hnd Ha) as (n1 & n2 & p0 & p1 & p2 & F0 & HF0).
      rewrite general_table_get in HF by exact Ha.
      assert (F0 = F). { destruct HF0 as (_ & _ & _ & _ & _ & HF0 & _). rewrite HF0 in HF. inversion HF; reflexivity. }
      subst F0. exists a, n1, n2, p0, p1, p2, F. repeat (split; [assumption|]). exact Ec.
    + intros ref' da (Hlen' & H3' & Hnd').
      destruct (apply_char m g ref' da (general_table g ref')) as (out & Eo & Hlo & Hko).
      * apply refsystems_general; exact H3'.
      * rewrite Hle, Hlc; reflexivity.
      * intros a Ha. apply Hin in Ha.
        destruct (frame_general g ref' a Hwf Hlen' Hnd' Ha) as (n1 & n2 & p0 & p1 & p2 & F & HF).
        exists F. rewrite general_table_get by exact Ha.
        destruct HF as (_ & _ & _ & _ & _ & HF & _). rewrite HF; reflexivity.
      * exists out. split; [exact Eo|]. split; [rewrite Hlo; exact Hle|].
        intros k a c Ha Hc. destruct (Hko k a c Ha Hc) as (F' & HF' & Ho).
        assert (Hia : In a (anchors g)) by (apply Hin; eapply nth_error_In; exact Ha).
        destruct (frame_general g ref' a Hwf Hlen' Hnd' Hia) as (n1 & n2 & p0 & p1 & p2 & F0 & HF0).
        rewrite general_table_get in HF' by exact Hia.
        assert (F0 = F'). { destruct HF0 as (_ & _ & _ & _ & _ & HF0 & _). rewrite HF0 in HF'. inversion HF'; reflexivity. }
        subst F0. exists n1, n2, p0, p1, p2, F'. split; assumption.
Qed.

(* ---------- geometry of project / restore in an orthonormal frame ---------- *)
Lemma vscaler_scale (v : V3 R) s : vscaler v s = vscale s v.
Proof. destruct v; runfold. apply V3_eq; simpl; ring. Qed.

Lemma fg_facts F (p0 p1 p2 x : V3 R) : frame_good F p0 p1 p2 ->
  forig F = p0 /\
  vnorm2 (mvec (fmat F) x) = vnorm2 x /\ vnorm2 (vecm x (fmat F)) = vnorm2 x /\
  vecm (mvec (fmat F) x) (fmat F) = x.
Proof.
  intros (Ho & (H11 & _ & H33 & _ & H13 & _) & _ & _ & _ & H2 & _).
  unfold fmat. rewrite H2. split; [exact Ho|].
  destruct (frame_isometry (f1 F) (f3 F) x H11 H33 H13) as [I1 I2].
  split; [exact I1|]. split; [exact I2|]. apply frame_complete; assumption.
Qed.

Lemma vnorm2_scale k (v : V3 R) : vnorm2 (vscale k v) = k * k * vnorm2 v.
Proof. destruct v; runfold; ring. Qed.

Lemma sqrt_scale2 k x : 0 <= x -> sqrt (k * k * x) = Rabs k * sqrt x.
Proof.
  intros Hx. rewrite sqrt_mult; [|nra|exact Hx]. f_equal.
  replace (k * k) with (Rsqr k) by (unfold Rsqr; ring). apply sqrt_Rsqr_abs.
Qed.

Lemma vnorm2_nonneg (v : V3 R) : 0 <= vnorm2 v.
Proof. destruct v; runfold; nra. Qed.

Lemma restore_project_same F (p0 p1 p2 p : V3 R) s : frame_good F p0 p1 p2 ->
  restore F (project F p s) = vadd p0 (vscale s (vsub p p0)).
Proof.
  intros HG. destruct (fg_facts F p0 p1 p2 (vsub p p0) HG) as (Ho & _ & _ & Hc).
  unfold restore, project. rewrite Ho. rewrite vscaler_scale, vecm_scale, Hc. reflexivity.
Qed.

Lemma vsub_vadd_l (o x : V3 R) : vsub (vadd o x) o = x.
Proof. destruct o, x; runfold; apply V3_eq; simpl; ring. Qed.

(* |restore F' (project F p s) - o'| = |s| |p - o| *)
Lemma restore_project_radius F F' (p0 p1 p2 q0 q1 q2 p : V3 R) s :
  frame_good F p0 p1 p2 -> frame_good F' q0 q1 q2 ->
  vdist (restore F' (project F p s)) q0 = Rabs s * vdist p p0.
Proof.
  intros HG HG'.
  destruct (fg_facts F p0 p1 p2 (vsub p p0) HG) as (Ho & I1 & _ & _).
  destruct (fg_facts F' q0 q1 q2 (project F p s) HG') as (Ho' & _ & I2 & _).
  unfold vdist, vnorm. unfold restore. rewrite Ho'. rewrite vsub_vadd_l. rewrite I2.
  unfold project. rewrite Ho. rewrite vscaler_scale, vnorm2_scale, I1.
  apply sqrt_scale2. apply vnorm2_nonneg.
Qed.

Lemma restore_project_cluster F F' (p0 p1 p2 q0 q1 q2 pa pb : V3 R) s :
  frame_good F p0 p1 p2 -> frame_good F' q0 q1 q2 ->
  vdist (restore F' (project F pa s)) (restore F' (project F pb s)) = Rabs s * vdist pa pb.
Proof.
  intros HG HG'.
  assert (E1 : vsub (restore F' (project F pa s)) (restore F' (project F pb s))
             = vecm (vsub (project F pa s) (project F pb s)) (fmat F')).
  { unfold restore. generalize (project F pa s) (project F pb s) (forig F') (fmat F').
    intros [a b c] [d e f] [o1 o2 o3] [[m1 m2 m3] [m4 m5 m6] [m7 m8 m9]]. runfold. apply V3_eq; simpl; ring. }
  assert (E2 : vsub (project F pa s) (project F pb s) = vscale s (mvec (fmat F) (vsub pa pb))).
  { unfold project. generalize (forig F) (fmat F).
    intros [o1 o2 o3] [[m1 m2 m3] [m4 m5 m6] [m7 m8 m9]]. destruct pa, pb. runfold. apply V3_eq; simpl; ring. }
  destruct (fg_facts F p0 p1 p2 (vsub pa pb) HG) as (_ & I1 & _ & _).
  destruct (fg_facts F' q0 q1 q2 (vsub (project F pa s) (project F pb s)) HG') as (_ & _ & I2 & _).
  unfold vdist, vnorm. rewrite E1, I2, E2, vnorm2_scale, I1.
  apply sqrt_scale2. apply vnorm2_nonneg.
Qed.

(* ---------- C01 ---------- *)
Lemma em_total g (ref tgt : list (V3 R)) s db :
  graph_wf g -> conf_ok g ref -> anchors g <> [] ->
  exists m, build g ref tgt s db = Ok m /\
    forall ref' da, conf_ok g ref' ->
      exists out, apply m g ref' da = Ok out /\ length out = length tgt.
Proof.
  intros Hwf Hc Ha. destruct (general_char g ref tgt s db Hwf Hc Ha) as (m & Em & _ & _ & _ & _ & _ & Happ).
  exists m. split; [exact Em|]. intros ref' da Hc'. destruct (Happ ref' da Hc') as (out & Eo & Hl & _).
  exists out; split; assumption.
Qed.

Lemma em_anchor_scale g (ref tgt : list (V3 R)) s db da m out k p :
  graph_wf g -> conf_ok g ref -> anchors g <> [] ->
  build g ref tgt s db = Ok m -> apply m g ref da = Ok out -> nth_error tgt k = Some p ->
  exists a ra, nth_error (em_equiv m) k = Some a /\ closest_to ref (anchors g) p a /\
    nth_error ref a = Some ra /\ nth_error out k = Some (vadd ra (vscale s (vsub p ra))).
Proof.
  intros Hwf Hc Ha Em Eo Hp.
  destruct (general_char g ref tgt s db Hwf Hc Ha) as (m' & Em' & _ & _ & _ & Hk & _ & Happ).
  rewrite Em in Em'. inversion Em'; subst m'.
  destruct (Hk k p Hp) as (a & n1 & n2 & p0 & p1 & p2 & F & Ea & Hcl & HF & Ec).
  destruct (Happ ref da Hc) as (out' & Eo' & _ & Hko). rewrite Eo in Eo'. inversion Eo'; subst out'.
  destruct (Hko k a _ Ea Ec) as (n1' & n2' & q0 & q1 & q2 & F' & HF' & Ho).
  destruct (frame_of_fun _ _ _ _ _ _ _ _ _ _ _ _ _ _ _ HF HF') as (_ & _ & <- & <- & <- & <-).
  exists a, p0. split; [exact Ea|]. split; [exact Hcl|]. split; [apply HF|].
  rewrite Ho. f_equal. apply (restore_project_same F p0 p1 p2). apply HF.
Qed.

Lemma nth_error_ext {A} (l l' : list A) : length l = length l' ->
  (forall k x, nth_error l k = Some x -> nth_error l' k = Some x) -> l' = l.
Proof.
  revert l'; induction l as [|x xs IH]; intros [|y ys] Hlen H; simpl in Hlen; try lia; [reflexivity|].
  f_equal.
  - specialize (H 0%nat x eq_refl). simpl in H. inversion H; reflexivity.
  - apply IH; [lia|]. intros k z Hz. apply (H (S k) z Hz).
Qed.

Lemma em_s1 g (ref tgt : list (V3 R)) db da m :
  graph_wf g -> conf_ok g ref -> anchors g <> [] ->
  build g ref tgt 1 db = Ok m -> apply m g ref da = Ok tgt.
Proof.
  intros Hwf Hc Ha Em.
  destruct (em_total g ref tgt 1 db Hwf Hc Ha) as (m' & Em' & Happ).
  rewrite Em in Em'. inversion Em'; subst m'.
  destruct (Happ ref da Hc) as (out & Eo & Hl). rewrite Eo. f_equal.
  apply nth_error_ext; [symmetry; exact Hl|].
  intros k p Hp.
  destruct (em_anchor_scale g ref tgt 1 db da m out k p Hwf Hc Ha Em Eo Hp) as (a & ra & _ & _ & _ & Ho).
  rewrite Ho. f_equal. destruct ra, p. runfold. apply V3_eq; simpl; ring.
Qed.

(* ---------- C03 ---------- *)
Lemma em_radius g (ref tgt ref' : list (V3 R)) s db da m out k p :
  graph_wf g -> conf_ok g ref -> anchors g <> [] -> conf_ok g ref' ->
  build g ref tgt s db = Ok m -> apply m g ref' da = Ok out -> nth_error tgt k = Some p ->
  exists a ra ra' x, nth_error (em_equiv m) k = Some a /\ nth_error ref a = Some ra /\
    nth_error ref' a = Some ra' /\ nth_error out k = Some x /\
    vdist x ra' = Rabs s * vdist p ra.
Proof.
  intros Hwf Hc Ha Hc' Em Eo Hp.
  destruct (general_char g ref tgt s db Hwf Hc Ha) as (m' & Em' & _ & _ & _ & Hk & _ & Happ).
  rewrite Em in Em'. inversion Em'; subst m'.
  destruct (Hk k p Hp) as (a & n1 & n2 & p0 & p1 & p2 & F & Ea & _ & HF & Ec).
  destruct (Happ ref' da Hc') as (out' & Eo' & _ & Hko). rewrite Eo in Eo'. inversion Eo'; subst out'.
  destruct (Hko k a _ Ea Ec) as (n1' & n2' & q0 & q1 & q2 & F' & HF' & Ho).
  exists a, p0, q0, (restore F' (project F p s)).
  split; [exact Ea|]. split; [apply HF|]. split; [apply HF'|]. split; [exact Ho|].
  apply (restore_project_radius F F' p0 p1 p2 q0 q1 q2); [apply HF|apply HF'].
Qed.

Lemma em_cluster g (ref tgt ref' : list (V3 R)) s db da m out j k pj pk a :
  graph_wf g -> conf_ok g ref -> anchors g <> [] -> conf_ok g ref' ->
  build g ref tgt s db = Ok m -> apply m g ref' da = Ok out ->
  nth_error tgt j = Some pj -> nth_error tgt k = Some pk ->
  nth_error (em_equiv m) j = Some a -> nth_error (em_equiv m) k = Some a ->
  exists xj xk, nth_error out j = Some xj /\ nth_error out k = Some xk /\
    vdist xj xk = Rabs s * vdist pj pk.
Proof.
  intros Hwf Hc Ha Hc' Em Eo Hpj Hpk Eaj Eak.
  destruct (general_char g ref tgt s db Hwf Hc Ha) as (m' & Em' & _ & _ & _ & Hk & _ & Happ).
  rewrite Em in Em'. inversion Em'; subst m'.
  destruct (Hk j pj Hpj) as (aj & n1 & n2 & p0 & p1 & p2 & F & Ea1 & _ & HF & Ec1).
  destruct (Hk k pk Hpk) as (ak & n1b & n2b & p0b & p1b & p2b & Fb & Ea2 & _ & HFb & Ec2).
  rewrite Eaj in Ea1. rewrite Eak in Ea2. inversion Ea1; inversion Ea2; subst aj ak.
  destruct (frame_of_fun _ _ _ _ _ _ _ _ _ _ _ _ _ _ _ HF HFb) as (_ & _ & <- & <- & <- & <-).
  destruct (Happ ref' da Hc') as (out' & Eo' & _ & Hko). rewrite Eo in Eo'. inversion Eo'; subst out'.
  destruct (Hko j a _ Eaj Ec1) as (n1' & n2' & q0 & q1 & q2 & F' & HF' & Hoj).
  destruct (Hko k a _ Eak Ec2) as (n1c & n2c & q0c & q1c & q2c & Fc & HFc & Hok).
  destruct (frame_of_fun _ _ _ _ _ _ _ _ _ _ _ _ _ _ _ HF' HFc) as (_ & _ & <- & <- & <- & <-).
  exists (restore F' (project F pj s)), (restore F' (project F pk s)).
  split; [exact Hoj|]. split; [exact Hok|].
  apply (restore_project_cluster F F' p0 p1 p2 q0 q1 q2); [apply HF|apply HF'].
Qed.

(* locality: pure dependency, no arithmetic, no hypothesis on the geometry.  If two conformations
   (>= 3 atoms) agree at the anchor of target atom k and at the anchor's two lowest bonded atoms,
   the k-th result is the same (including the failure case). *)
Lemma points_at_local g (ps ps' : list (V3 R)) a l n1 n2 :
  nth_error g a = Some l -> lowest2 l = Some (n1, n2) ->
  nth_error ps a = nth_error ps' a -> nth_error ps n1 = nth_error ps' n1 -> nth_error ps n2 = nth_error ps' n2 ->
  points_at g ps a = points_at g ps' a.
Proof.
  intros Hl El H0 H1 H2. unfold points_at. rewrite (nth_res_ok _ _ _ Hl). cbn [bind]. rewrite El.
  unfold nth_res. rewrite H0, H1, H2. reflexivity.
Qed.

Lemma mapM_nth_res {A B} (f f' : A -> res B) l out out' k x :
  mapM f l = Ok out -> mapM f' l = Ok out' -> nth_error l k = Some x -> f x = f' x ->
  nth_error out k = nth_error out' k.
Proof.
  intros E E' Hx Hf.
  destruct (mapM_nth _ _ _ _ _ E Hx) as (b & Eb & Hb).
  destruct (mapM_nth _ _ _ _ _ E' Hx) as (b' & Eb' & Hb').
  rewrite Hb, Hb'. rewrite Hf in Eb. rewrite Eb in Eb'. inversion Eb'; reflexivity.
Qed.

Lemma em_local (m : emap R) g (ref' ref'' : list (V3 R)) da da' out' out'' k a l n1 n2 :
  (3 <= length ref')%nat -> (3 <= length ref'')%nat ->
  apply m g ref' da = Ok out' -> apply m g ref'' da' = Ok out'' ->
  nth_error (em_equiv m) k = Some a -> In a (anchors g) ->
  nth_error g a = Some l -> lowest2 l = Some (n1, n2) ->
  nth_error ref' a = nth_error ref'' a -> nth_error ref' n1 = nth_error ref'' n1 ->
  nth_error ref' n2 = nth_error ref'' n2 ->
  nth_error out' k = nth_error out'' k.
Proof.
  intros H3 H3' E' E'' Ha Hanc Hl El H0 H1 H2.
  unfold apply in E', E''. rewrite refsystems_general in E', E'' by assumption. cbn [bind] in E', E''.
  destruct (nth_error (em_coords m) k) as [c|] eqn:Hc.
  - eapply (mapM_nth_res _ _ _ _ _ k (a, c) E' E'').
    + apply combine_nth_error; assumption.
    + unfold restore_atom, current_frame. cbn [fst snd].
      rewrite !general_table_get by exact Hanc.
      rewrite (points_at_local g ref' ref'' a l n1 n2 Hl El H0 H1 H2). reflexivity.
  - assert (Hlen : forall o, mapM (restore_atom m (general_table g ref')) (combine (em_equiv m) (em_coords m)) = Ok o ->
              nth_error o k = None).
    { intros o Eo. apply nth_error_None. rewrite (mapM_length _ _ _ Eo). rewrite combine_length.
      apply nth_error_None in Hc. lia. }
    assert (Hlen' : forall o, mapM (restore_atom m (general_table g ref'')) (combine (em_equiv m) (em_coords m)) = Ok o ->
              nth_error o k = None).
    { intros o Eo. apply nth_error_None. rewrite (mapM_length _ _ _ Eo). rewrite combine_length.
      apply nth_error_None in Hc. lia. }
    rewrite (Hlen _ E'), (Hlen' _ E''). reflexivity.
Qed.

Lemma em_equiv_anchors g (ref tgt : list (V3 R)) s db m a :
  graph_wf g -> conf_ok g ref -> anchors g <> [] ->
  build g ref tgt s db = Ok m -> In a (em_equiv m) -> In a (anchors g).
Proof.
  intros Hwf Hc Ha Em Hin.
  destruct (general_char g ref tgt s db Hwf Hc Ha) as (m' & Em' & _ & _ & _ & _ & Hi & _).
  rewrite Em in Em'. inversion Em'; subst m'. apply Hi; exact Hin.
Qed.
