(* Combinatorial lemmas about Model/Transform.v, for every Scalar T: wait list, LIFO stack, the loop
   invariant of move_mol_atom, the shape of the traversal tree, fuel.  No real arithmetic here. *)
From Coq Require Import List Arith Lia.
Import ListNotations.
From GM Require Import Base.Res Base.Scalar Base.Vec Model.Transform.

(* ------------------------------------------------------------------ lists *)
Lemma set_nth_length {A} (l : list A) i v : length (set_nth l i v) = length l.
Proof. revert i; induction l as [|x xs IH]; intros [|i]; simpl; auto. Qed.

Lemma nth_error_set_nth_eq {A} (l : list A) i v :
  i < length l -> nth_error (set_nth l i v) i = Some v.
Proof.
  revert i; induction l as [|x xs IH]; intros [|i]; simpl; intros Hl; try lia; auto.
  apply IH; lia.
Qed.

Lemma nth_error_set_nth_neq {A} (l : list A) i j v :
  i <> j -> nth_error (set_nth l i v) j = nth_error l j.
Proof.
  revert i j; induction l as [|x xs IH]; intros [|i] [|j]; simpl; intros Hne; auto; try lia.
Qed.

Lemma wmem_In x w : wmem x w = true <-> In x w.
Proof.
  unfold wmem. rewrite existsb_exists. split.
  - intros [y [Hy E]]. apply Nat.eqb_eq in E; subst; assumption.
  - intros Hi; exists x; split; [assumption | apply Nat.eqb_refl].
Qed.

Lemma wmem_false x w : wmem x w = false <-> ~ In x w.
Proof.
  rewrite <- wmem_In. destruct (wmem x w); split; intros; try discriminate; auto.
  exfalso; auto.
Qed.

Lemma remove1_incl x w y : In y (remove1 x w) -> In y w.
Proof.
  induction w as [|z zs IH]; simpl; auto.
  destruct (Nat.eqb x z); simpl; intros Hi; auto. destruct Hi; auto.
Qed.

Lemma remove1_other x w y : y <> x -> In y w -> In y (remove1 x w).
Proof.
  intros Hne. induction w as [|z zs IH]; simpl; auto.
  destruct (Nat.eqb x z) eqn:E; simpl; intros [Hz|Hi]; auto.
  apply Nat.eqb_eq in E; subst; contradiction Hne; reflexivity.
Qed.

Lemma remove1_NoDup x w : NoDup w -> NoDup (remove1 x w).
Proof.
  induction 1 as [|z zs Hz Hnd IH]; simpl; [constructor|].
  destruct (Nat.eqb x z); auto. constructor; auto.
  intros Hi; apply Hz; eapply remove1_incl; eauto.
Qed.

Lemma remove1_notin x w : NoDup w -> ~ In x (remove1 x w).
Proof.
  induction 1 as [|z zs Hz Hnd IH]; simpl; auto.
  destruct (Nat.eqb x z) eqn:E.
  - apply Nat.eqb_eq in E; subst; assumption.
  - apply Nat.eqb_neq in E. simpl; intros [Hi|Hi]; auto.
Qed.

Lemma remove1_length x w : In x w -> S (length (remove1 x w)) = length w.
Proof.
  induction w as [|z zs IH]; simpl; [contradiction|].
  destruct (Nat.eqb x z) eqn:E; auto.
  apply Nat.eqb_neq in E. intros [Hz|Hi]; [congruence|]. simpl; rewrite IH; auto.
Qed.

Lemma wremove_ok x w w' : wremove x w = Ok w' -> In x w /\ w' = remove1 x w.
Proof.
  unfold wremove. destruct (wmem x w) eqn:E; intros Hq; inversion Hq.
  split; auto. apply wmem_In; assumption.
Qed.

Lemma NoDup_app_intro {A} (l1 l2 : list A) :
  NoDup l1 -> NoDup l2 -> (forall x, In x l1 -> In x l2 -> False) -> NoDup (l1 ++ l2).
Proof.
  induction 1 as [|x xs Hx Hnd IH]; simpl; intros H2 Hd; auto.
  constructor.
  - rewrite in_app_iff; intros [Hi|Hi]; [auto | eapply Hd; eauto].
  - apply IH; auto. intros y Hy1 Hy2; eapply Hd; eauto.
Qed.

Lemma NoDup_app_l {A} (l1 l2 : list A) : NoDup (l1 ++ l2) -> NoDup l1.
Proof.
  induction l1 as [|x xs IH]; simpl; intros Hn; [constructor|].
  inversion Hn; subst. constructor; auto. intros Hi; apply H1; apply in_or_app; auto.
Qed.

Section Comb.
Context {T : Type} `{Scalar T}.

Notation edge := (edge T).
Notation bond_table := (bond_table T).

Definition children (st : list edge) : list nat := map e_child st.

Lemma tbl_get_ok (tb : bond_table) i l : tbl_get tb i = Ok l -> nth_error tb i = Some (Some l).
Proof.
  unfold tbl_get. destruct (nth_error tb i) as [[l'|]|]; intros Hq; inversion Hq; reflexivity.
Qed.

Lemma tbl_get_lt (tb : bond_table) i l : tbl_get tb i = Ok l -> i < length tb.
Proof. intros Hq. apply tbl_get_ok in Hq. apply nth_error_Some. congruence. Qed.

(* ------------------------------------------------------------------ pushes *)
(* what one round of pushes does to (wait, stack) *)
Record pushed (par : nat) (nb : list (nat * T)) (wait : list nat) (st : list edge)
              (wait' : list nat) (st' : list edge) (pu_new : list edge) : Prop := {
  pu_st : st' = pu_new ++ st;
  pu_edge : forall e, In e pu_new ->
            e_parent e = par /\ In (e_child e) wait /\ ~ In (e_child e) wait' /\ In (e_child e, e_len e) nb;
  pu_nodup_new : NoDup (children pu_new);
  pu_nodup : NoDup wait';
  pu_incl : incl wait' wait;
  pu_nb : forall j b, In (j, b) nb -> ~ In j wait';
  pu_split : forall x, In x wait -> In x wait' \/ In x (children pu_new);
  pu_len : length wait' + length pu_new = length wait
}.

Lemma push_wait_spec par nb : forall wait st wait' st',
  NoDup wait -> push_wait par nb wait st = (wait', st') -> exists new, pushed par nb wait st wait' st' new.
Proof.
  induction nb as [|[j b] rest IH]; simpl; intros wait st wait' st' Hnd Hq.
  - inversion Hq; subst. exists []. constructor; simpl; auto; try constructor;
      try (intros; contradiction); try (intros x Hx; exact Hx); lia.
  - destruct (wmem j wait) eqn:Em.
    + apply wmem_In in Em.
      destruct (IH _ _ _ _ (remove1_NoDup j wait Hnd) Hq) as [pu_new0 P]. destruct P.
      exists (pu_new0 ++ [(par, j, b)]). constructor.
      * rewrite <- app_assoc; simpl; assumption.
      * intros e He. apply in_app_or in He. destruct He as [He|[He|[]]].
        -- destruct (pu_edge0 e He) as (A & B & C & D). repeat split; auto.
           eapply remove1_incl; eauto. right; assumption.
        -- subst e; unfold e_parent, e_child, e_len; simpl.
           split; [reflexivity|]. split; [assumption|]. split; [|left; reflexivity].
           intros Hi. apply pu_incl0 in Hi. exact (remove1_notin j wait Hnd Hi).
      * unfold children. rewrite map_app. apply NoDup_app_intro; auto.
        -- simpl. constructor; auto. constructor.
        -- intros x Hx [Hj|[]]. unfold e_child in Hj; simpl in Hj; subst x.
           apply in_map_iff in Hx. destruct Hx as [e [Ee He]].
           destruct (pu_edge0 e He) as (_ & B & _ & _). rewrite Ee in B.
           exact (remove1_notin j wait Hnd B).
      * assumption.
      * intros x Hx. eapply remove1_incl. apply pu_incl0; eassumption.
      * intros j' b' [Hq'|Hi].
        -- assert (Ej : j' = j) by congruence. subst j'. intros Hi. apply pu_incl0 in Hi. exact (remove1_notin j wait Hnd Hi).
        -- eapply pu_nb0; eauto.
      * intros x Hx. destruct (Nat.eq_dec x j) as [->|Hne].
        -- right. unfold children. rewrite map_app. apply in_or_app. right. simpl. left. reflexivity.
        -- destruct (pu_split0 x (remove1_other j wait x Hne Hx)) as [Hw|Hc]; auto.
           right. unfold children in *. rewrite map_app. apply in_or_app. left; assumption.
      * rewrite app_length; simpl. pose proof (remove1_length j wait Em). lia.
    + apply wmem_false in Em.
      destruct (IH _ _ _ _ Hnd Hq) as [pu_new0 P]. destruct P.
      exists pu_new0. constructor; auto.
      * intros e He. destruct (pu_edge0 e He) as (A & B & C & D). repeat split; auto. right; assumption.
      * intros j' b' [Hq'|Hi].
        -- assert (Ej : j' = j) by congruence. subst j'. intros Hi. apply Em. apply pu_incl0; assumption.
        -- eapply pu_nb0; eauto.
Qed.

Lemma push_wait_length par (nb : list (nat * T)) : forall wait st wait' st',
  push_wait par nb wait st = (wait', st') -> length st' + length wait' = length st + length wait.
Proof.
  induction nb as [|[j b] rest IH]; simpl; intros wait st wait' st' Hq.
  - inversion Hq; subst; reflexivity.
  - destruct (wmem j wait) eqn:Em.
    + apply wmem_In in Em. pose proof (remove1_length j wait Em).
      rewrite (IH _ _ _ _ Hq). simpl. lia.
    + apply (IH _ _ _ _ Hq).
Qed.

Lemma push_init_wait k (nb : list (nat * T)) : forall wait st ws,
  push_init k nb wait st = Ok ws -> push_wait k nb wait st = ws.
Proof.
  induction nb as [|[j b] rest IH]; simpl; intros wait st ws Hq.
  - inversion Hq; reflexivity.
  - destruct (wremove j wait) as [w1|] eqn:Ew; simpl in Hq; [|discriminate].
    apply wremove_ok in Ew. destruct Ew as [Hi ->].
    apply wmem_In in Hi. rewrite Hi. apply IH; assumption.
Qed.

(* ------------------------------------------------------------------ the loop, one step *)
Lemma move_loop_nil tb fuel pos wait out wf tr :
  move_loop tb fuel pos wait [] = Ok (out, wf, tr) -> out = pos /\ wf = wait /\ tr = [].
Proof. destruct fuel; simpl; intros Hq; inversion Hq; auto. Qed.

Lemma move_loop_step tb fuel pos wait p c b rest out wf tr :
  move_loop tb fuel pos wait ((p, c, b) :: rest) = Ok (out, wf, tr) ->
  exists fuel' p1 p2 p2' nb wait' st' tr',
    fuel = S fuel' /\ nth_error pos p = Some p1 /\ nth_error pos c = Some p2 /\
    pull p1 p2 b = Ok p2' /\ tbl_get tb c = Ok nb /\ push_wait c nb wait rest = (wait', st') /\
    move_loop tb fuel' (set_nth pos c p2') wait' st' = Ok (out, wf, tr') /\ tr = (p, c, b) :: tr'.
Proof.
  destruct fuel as [|fuel]; simpl; [discriminate|].
  unfold nth_res.
  destruct (nth_error pos p) as [p1|] eqn:E1; simpl; [|discriminate].
  destruct (nth_error pos c) as [p2|] eqn:E2; simpl; [|discriminate].
  destruct (pull p1 p2 b) as [p2'|] eqn:E3; simpl; [|discriminate].
  destruct (tbl_get tb c) as [nb|] eqn:E4; simpl; [|discriminate].
  destruct (push_wait c nb wait rest) as [wait' st'] eqn:Ep.
  destruct (move_loop tb fuel (set_nth pos c p2') wait' st') as [[[o w] t]|] eqn:El; simpl; [|discriminate].
  intros Hq; inversion Hq; subst.
  exists fuel, p1, p2, p2', nb, wait', st', t. repeat split; auto.
Qed.

(* ------------------------------------------------------------------ invariant *)
Section Inv.
Variable n : nat.

Record inv (wait : list nat) (st : list edge) : Prop := {
  inv_nd_w : NoDup wait;
  inv_nd_c : NoDup (children st);
  inv_disj : forall x, In x wait -> ~ In x (children st);
  inv_par : forall e, In e st -> e_parent e < n /\ ~ In (e_parent e) wait /\ ~ In (e_parent e) (children st);
  inv_lt : forall x, In x wait \/ In x (children st) -> x < n
}.

(* atoms whose position is final *)
Definition done (wait : list nat) (st : list edge) (i : nat) : Prop :=
  i < n /\ ~ In i wait /\ ~ In i (children st).

Lemma children_app (a b : list edge) : children (a ++ b) = children a ++ children b.
Proof. apply map_app. Qed.

Lemma new_child_in_wait par nb wait st wait' st' new (P : pushed par nb wait st wait' st' new) x :
  In x (children new) -> In x wait /\ ~ In x wait'.
Proof.
  intros Hx. apply in_map_iff in Hx. destruct Hx as [e [Ee He]].
  destruct (pu_edge _ _ _ _ _ _ _ P e He) as (_ & B & C & _). subst x; auto.
Qed.

Lemma inv_step wait p c b rest nb wait' st' :
  inv wait ((p, c, b) :: rest) -> push_wait c nb wait rest = (wait', st') ->
  exists new, inv wait' st' /\ pushed c nb wait rest wait' st' new /\
  (forall i, done wait' st' i <-> done wait ((p, c, b) :: rest) i \/ i = c) /\
  c < n /\ ~ In c wait /\ ~ In c (children rest) /\ p <> c /\ done wait ((p, c, b) :: rest) p.
Proof.
  intros I Hp. destruct I as [Iw Ic Id Ip Il].
  destruct (push_wait_spec _ _ _ _ _ _ Iw Hp) as [new P]. exists new.
  simpl in Ic. inversion Ic as [|? ? Hc_rest Hnd_rest]; subst.
  assert (Hc_wait : ~ In c wait).
  { intros Hi. apply (Id c Hi). simpl. left. reflexivity. }
  assert (Hc_n : c < n) by (apply Il; right; simpl; left; reflexivity).
  destruct (Ip (p, c, b) (or_introl eq_refl)) as (Hp_n & Hp_w & Hp_c). unfold e_parent in *; simpl in *.
  assert (Hpc : p <> c) by (intros E; apply Hp_c; left; unfold e_child; simpl; auto).
  assert (Hnew : forall x, In x (children new) -> In x wait /\ ~ In x wait')
    by (exact (new_child_in_wait _ _ _ _ _ _ _ P)).
  assert (Est : children st' = children new ++ children rest)
    by (rewrite (pu_st _ _ _ _ _ _ _ P); apply children_app).
  split; [|split; [exact P|split; [|repeat split; auto]]].
  - constructor.
    + apply (pu_nodup _ _ _ _ _ _ _ P).
    + rewrite Est. apply NoDup_app_intro; auto.
      * apply (pu_nodup_new _ _ _ _ _ _ _ P).
      * intros x Hx Hr. destruct (Hnew x Hx) as [Hw _]. apply (Id x Hw). simpl; right; assumption.
    + intros x Hx. rewrite Est. rewrite in_app_iff. intros [Hn|Hr].
      * destruct (Hnew x Hn) as [_ Hnw]. contradiction.
      * apply (Id x (pu_incl _ _ _ _ _ _ _ P x Hx)). simpl; right; assumption.
    + intros e He. rewrite (pu_st _ _ _ _ _ _ _ P) in He. apply in_app_or in He. rewrite Est.
      destruct He as [He|He].
      * destruct (pu_edge _ _ _ _ _ _ _ P e He) as (A & _). rewrite A. repeat split; auto.
        -- intros Hi. apply Hc_wait. apply (pu_incl _ _ _ _ _ _ _ P); assumption.
        -- rewrite in_app_iff. intros [Hn|Hr]; [|contradiction].
           destruct (Hnew c Hn) as [Hw _]. contradiction.
      * destruct (Ip e (or_intror He)) as (A & B & C). repeat split; auto.
        -- intros Hi. apply B. apply (pu_incl _ _ _ _ _ _ _ P); assumption.
        -- rewrite in_app_iff. intros [Hn|Hr].
           ++ destruct (Hnew _ Hn) as [Hw _]. contradiction.
           ++ apply C. simpl; right; assumption.
    + intros x [Hx|Hx].
      * apply Il. left. apply (pu_incl _ _ _ _ _ _ _ P); assumption.
      * rewrite Est in Hx. apply in_app_or in Hx. destruct Hx as [Hn|Hr].
        -- destruct (Hnew x Hn) as [Hw _]. apply Il; left; assumption.
        -- apply Il; right; simpl; right; assumption.
  - intros i. unfold done. rewrite Est. simpl. split.
    + intros (Hn & Hw & Hc). destruct (Nat.eq_dec i c) as [->|Hne]; [right; reflexivity|left].
      rewrite in_app_iff in Hc.
      assert (Hiw : ~ In i wait).
      { intros Hi. destruct (pu_split _ _ _ _ _ _ _ P i Hi); auto. }
      repeat split; auto. intros [E|Hr]; [unfold e_child in E; simpl in E; congruence|auto].
    + intros [(Hn & Hw & Hc)|Eic].
      * repeat split; auto.
        -- intros Hi; apply Hw; apply (pu_incl _ _ _ _ _ _ _ P); assumption.
        -- rewrite in_app_iff. intros [Hnw|Hr]; [destruct (Hnew _ Hnw); contradiction|auto].
      * subst i. repeat split; auto.
        -- intros Hi; apply Hc_wait; apply (pu_incl _ _ _ _ _ _ _ P); assumption.
        -- rewrite in_app_iff. intros [Hnw|Hr]; [destruct (Hnew _ Hnw); contradiction|contradiction].
Qed.

(* ------------------------------------------------------------------ shape of a trace *)
Fixpoint tr_ok (S : nat -> Prop) (tr : list edge) : Prop :=
  match tr with
  | [] => True
  | e :: tr' => S (e_parent e) /\ ~ S (e_child e) /\ tr_ok (fun i => S i \/ i = e_child e) tr'
  end.

Lemma tr_ok_ext S S' tr : (forall i, S i <-> S' i) -> tr_ok S tr -> tr_ok S' tr.
Proof.
  revert S S'; induction tr as [|e tr IH]; simpl; intros S S' E; auto.
  intros (A & B & C). split; [apply E; assumption|]. split; [rewrite <- E; assumption|].
  eapply IH; [|exact C]. intros i; simpl. rewrite E. reflexivity.
Qed.

Lemma tr_ok_child S tr : tr_ok S tr -> forall e, In e tr -> ~ S (e_child e).
Proof.
  revert S; induction tr as [|e0 tr IH]; simpl; intros S Hok e He; [contradiction|].
  destruct Hok as (A & B & C). destruct He as [->|He]; auto.
  intros Hs. apply (IH _ C e He). left; assumption.
Qed.

Lemma tr_ok_irrefl S tr : tr_ok S tr -> forall e, In e tr -> e_parent e <> e_child e.
Proof.
  revert S; induction tr as [|e0 tr IH]; simpl; intros S Hok e He; [contradiction|].
  destruct Hok as (A & B & C). destruct He as [->|He]; [|eapply IH; eauto].
  intros E. apply B. rewrite <- E. assumption.
Qed.

Lemma tr_ok_nodup S tr : tr_ok S tr -> NoDup (children tr).
Proof.
  revert S; induction tr as [|e0 tr IH]; simpl; intros S Hok; [constructor|].
  destruct Hok as (A & B & C). constructor; [|eapply IH; eauto].
  intros Hi. apply in_map_iff in Hi. destruct Hi as [e [Ee He]].
  apply (tr_ok_child _ _ C e He). right. assumption.
Qed.

(* the parent relation of a trace has no 2-cycle: (p,c) and (c,p) are never both traversed *)
Lemma tr_ok_antisym S tr : tr_ok S tr ->
  forall p c b1 b2, In (p, c, b1) tr -> In (c, p, b2) tr -> False.
Proof.
  revert S; induction tr as [|e0 tr IH]; simpl; intros S Hok p c b1 b2 H1 H2; [contradiction|].
  destruct Hok as (A & B & C).
  destruct H1 as [E1|H1], H2 as [E2|H2].
  - subst e0. inversion E2; subst. unfold e_parent, e_child in *; simpl in *. contradiction.
  - subst e0. unfold e_parent, e_child in *; simpl in *.
    apply (tr_ok_child _ _ C _ H2). left. assumption.
  - subst e0. unfold e_parent, e_child in *; simpl in *.
    apply (tr_ok_child _ _ C _ H1). left. assumption.
  - eapply IH; eauto.
Qed.

(* ------------------------------------------------------------------ the loop: positions *)
Lemma move_loop_positions tb : forall fuel pos wait st out wf tr,
  move_loop tb fuel pos wait st = Ok (out, wf, tr) -> inv wait st ->
  length out = length pos /\
  incl wf wait /\
  (forall e, In e tr -> In (e_child e) wait \/ In (e_child e) (children st)) /\
  (forall i, In i wait \/ In i (children st) -> In i wf \/ In i (children tr)) /\
  (forall i, ~ In i wait -> ~ In i (children st) -> nth_error out i = nth_error pos i) /\
  (forall i, In i wf -> nth_error out i = nth_error pos i) /\
  (forall e, In e tr -> exists p1 p2 p2',
      nth_error out (e_parent e) = Some p1 /\ nth_error pos (e_child e) = Some p2 /\
      pull p1 p2 (e_len e) = Ok p2' /\ nth_error out (e_child e) = Some p2').
Proof.
  induction fuel as [|fuel IH]; intros pos wait st out wf tr Hq I.
  - destruct st as [|[[p c] b] rest]; simpl in Hq; [|discriminate].
    inversion Hq; subst.
    repeat split; auto; try (intros; contradiction); try (intros x Hx; exact Hx); try (intros i [Hi|Hi]; auto).
  - destruct st as [|[[p c] b] rest].
    + apply move_loop_nil in Hq. destruct Hq as (-> & -> & ->).
      repeat split; auto; try (intros; contradiction); try (intros x Hx; exact Hx); try (intros i [Hi|Hi]; auto).
    + apply move_loop_step in Hq.
      destruct Hq as (f' & p1 & p2 & p2' & nb & wait' & st' & tr' & Ef & Hp1 & Hp2 & Hpull & Htb & Hpush & Hloop & ->).
      inversion Ef; subst f'.
      destruct (inv_step _ _ _ _ _ _ _ _ I Hpush) as (new & I' & P & Hdone & Hcn & Hcw & Hcr & Hpc & Hpd).
      destruct (IH _ _ _ _ _ _ Hloop I') as (Hlen & Hincl & Hch & Hcov & Hframe & Hwf & Hed).
      assert (Est : children st' = children new ++ children rest)
        by (rewrite (pu_st _ _ _ _ _ _ _ P); apply children_app).
      assert (Hc_lt : c < length pos) by (apply nth_error_Some; congruence).
      assert (Hnot' : ~ In c wait' /\ ~ In c (children st')).
      { destruct (proj2 (Hdone c) (or_intror eq_refl)) as (_ & A & B). auto. }
      assert (Hsub : forall x, In x wait' \/ In x (children st') -> x <> c).
      { intros x [Hx|Hx] E; subst x; destruct Hnot'; contradiction. }
      assert (Hsub2 : forall x, In x wait' \/ In x (children st') -> In x wait \/ In x (children rest)).
      { intros x [Hx|Hx].
        - left; apply (pu_incl _ _ _ _ _ _ _ P); assumption.
        - rewrite Est in Hx. apply in_app_or in Hx. destruct Hx as [Hn|Hr]; auto.
          left. eapply new_child_in_wait; eauto. }
      repeat split.
      * rewrite Hlen. apply set_nth_length.
      * intros x Hx. apply (pu_incl _ _ _ _ _ _ _ P). apply Hincl; assumption.
      * intros e [<-|He]; [right; simpl; left; reflexivity|].
        destruct (Hsub2 _ (Hch e He)) as [Hw|Hr]; auto. right; simpl; right; assumption.
      * intros i [Hi|Hi].
        -- destruct (pu_split _ _ _ _ _ _ _ P i Hi) as [Hw|Hn].
           ++ destruct (Hcov i (or_introl Hw)); auto. right; simpl; right; assumption.
           ++ assert (Hs : In i (children st')) by (rewrite Est; apply in_or_app; left; assumption).
              destruct (Hcov i (or_intror Hs)); auto. right; simpl; right; assumption.
        -- simpl in Hi. destruct Hi as [Ei|Hr].
           ++ right. simpl. left. assumption.
           ++ assert (Hs : In i (children st')) by (rewrite Est; apply in_or_app; right; assumption).
              destruct (Hcov i (or_intror Hs)); auto. right; simpl; right; assumption.
      * intros i Hw Hc. simpl in Hc.
        assert (Hic : i <> c) by (intros E; apply Hc; left; unfold e_child; simpl; auto).
        rewrite Hframe.
        -- apply nth_error_set_nth_neq; auto.
        -- intros Hi; apply Hw; apply (pu_incl _ _ _ _ _ _ _ P); assumption.
        -- rewrite Est, in_app_iff. intros [Hn|Hr]; [|apply Hc; right; assumption].
           apply Hw. eapply new_child_in_wait; eauto.
      * intros i Hi. rewrite (Hwf i Hi). apply nth_error_set_nth_neq.
        intros E; subst i. destruct Hnot' as [A _]. apply A. apply Hincl; assumption.
      * intros e [<-|He].
        -- unfold e_parent, e_child, e_len; simpl.
           exists p1, p2, p2'. repeat split; auto.
           ++ assert (Hpd' : done wait' st' p) by (apply Hdone; left; exact Hpd).
              destruct Hpd' as (_ & A' & B').
              rewrite (Hframe p A' B'). rewrite nth_error_set_nth_neq; auto.
           ++ destruct Hnot' as [A' B']. rewrite (Hframe c A' B'). apply nth_error_set_nth_eq; assumption.
        -- destruct (Hed e He) as (q1 & q2 & q2' & A & B & C & D).
           exists q1, q2, q2'. repeat split; auto.
           rewrite <- B. symmetry. apply nth_error_set_nth_neq.
           intros E. apply (Hsub (e_child e)); auto.
Qed.

(* ------------------------------------------------------------------ the loop: shape of the trace *)
Definition from_table (tb : bond_table) (e : edge) : Prop :=
  exists l, tbl_get tb (e_parent e) = Ok l /\ In (e_child e, e_len e) l.

Lemma move_loop_trace tb : forall fuel pos wait st out wf tr,
  move_loop tb fuel pos wait st = Ok (out, wf, tr) -> inv wait st ->
  tr_ok (done wait st) tr /\
  length tr + length wf = length st + length wait /\
  NoDup wf /\
  (forall e, In e tr -> In e st \/ from_table tb e) /\
  ((forall i nb, done wait st i -> tbl_get tb i = Ok nb -> forall j b, In (j, b) nb -> ~ In j wait) ->
   (forall i nb, i < n -> ~ In i wf -> tbl_get tb i = Ok nb -> forall j b, In (j, b) nb -> ~ In j wf)).
Proof.
  induction fuel as [|fuel IH]; intros pos wait st out wf tr Hq I.
  - destruct st as [|[[p c] b] rest]; simpl in Hq; [|discriminate].
    inversion Hq; subst. simpl. repeat split; auto; try (intros; contradiction).
    + apply (inv_nd_w _ _ I).
    + intros Hcl i nb Hi Hw. apply Hcl. unfold done; simpl; auto.
  - destruct st as [|[[p c] b] rest].
    + apply move_loop_nil in Hq. destruct Hq as (-> & -> & ->). simpl.
      repeat split; auto; try (intros; contradiction).
      * apply (inv_nd_w _ _ I).
      * intros Hcl i nb Hi Hw. apply Hcl. unfold done; simpl; auto.
    + apply move_loop_step in Hq.
      destruct Hq as (f' & p1 & p2 & p2' & nb & wait' & st' & tr' & Ef & Hp1 & Hp2 & Hpull & Htb & Hpush & Hloop & ->).
      inversion Ef; subst f'.
      destruct (inv_step _ _ _ _ _ _ _ _ I Hpush) as (new & I' & P & Hdone & Hcn & Hcw & Hcr & Hpc & Hpd).
      destruct (IH _ _ _ _ _ _ Hloop I') as (Hok & Hlen & Hnd & Hfrom & Hclos).
      split; [|split; [|split; [assumption|split]]].
      * simpl. split; [exact Hpd|]. split.
        -- unfold done. intros (_ & _ & A). apply A. simpl; left; reflexivity.
        -- eapply tr_ok_ext; [|exact Hok]. intros i. apply Hdone.
      * simpl. rewrite (pu_st _ _ _ _ _ _ _ P) in Hlen. rewrite app_length in Hlen.
        pose proof (pu_len _ _ _ _ _ _ _ P). lia.
      * intros e [<-|He]; [left; left; reflexivity|].
        destruct (Hfrom e He) as [Hs|Hf]; auto.
        rewrite (pu_st _ _ _ _ _ _ _ P) in Hs. apply in_app_or in Hs. destruct Hs as [Hn|Hr].
        -- right. destruct (pu_edge _ _ _ _ _ _ _ P e Hn) as (A & _ & _ & D).
           exists nb. rewrite A. auto.
        -- left; right; assumption.
      * intros Hcl. apply Hclos.
        intros i nb' Hi Hg j b' Hj. apply Hdone in Hi. destruct Hi as [Hi| ->].
        -- intros Hw. apply (Hcl i nb' Hi Hg j b' Hj). apply (pu_incl _ _ _ _ _ _ _ P); assumption.
        -- rewrite Htb in Hg. inversion Hg; subst nb'. apply (pu_nb _ _ _ _ _ _ _ P j b' Hj).
Qed.

(* ------------------------------------------------------------------ fuel *)
Lemma move_loop_fuel tb : forall fuel pos wait st,
  length st + length wait <= fuel -> move_loop tb fuel pos wait st <> Err EFuel.
Proof.
  induction fuel as [|fuel IH]; intros pos wait st Hle.
  - destruct st; simpl in *; [discriminate|lia].
  - destruct st as [|[[p c] b] rest]; simpl; [discriminate|].
    unfold nth_res.
    destruct (nth_error pos p) as [p1|]; simpl; [|discriminate].
    destruct (nth_error pos c) as [p2|]; simpl; [|discriminate].
    destruct (pull p1 p2 b) as [p2'|e] eqn:Epull; simpl.
    2:{ unfold pull in Epull. destruct (seqb _ _) in Epull; inversion Epull. discriminate. }
    destruct (tbl_get tb c) as [nb|e] eqn:Etb; simpl.
    2:{ unfold tbl_get in Etb. destruct (nth_error tb c) as [[?|]|]; inversion Etb; discriminate. }
    destruct (push_wait c nb wait rest) as [wait' st'] eqn:Ep.
    assert (Hl : length st' + length wait' <= fuel).
    { pose proof (push_wait_length _ _ _ _ _ _ Ep). simpl in Hle. lia. }
    specialize (IH (set_nth pos c p2') wait' st' Hl).
    destruct (move_loop tb fuel (set_nth pos c p2') wait' st') as [[[o w] t]|e]; simpl; [discriminate|].
    intros E; inversion E; subst; apply IH; reflexivity.
Qed.

End Inv.

(* ------------------------------------------------------------------ the whole function *)
Lemma move_tr_unfold pos tb k d fuel out wf tr :
  move_mol_atom_tr pos tb k d fuel = Ok (out, wf, tr) ->
  exists pk nb wait0 st0,
    nth_error pos k = Some pk /\ tbl_get tb k = Ok nb /\
    push_wait k nb (remove1 k (seq 0 (length pos))) [] = (wait0, st0) /\
    move_loop tb fuel (set_nth pos k (vadd pk d)) wait0 st0 = Ok (out, wf, tr).
Proof.
  unfold move_mol_atom_tr, nth_res.
  destruct (nth_error pos k) as [pk|] eqn:Ek; simpl; [|discriminate].
  destruct (wremove k (seq 0 (length pos))) as [w|] eqn:Ew; simpl; [|discriminate].
  destruct (tbl_get tb k) as [nb|] eqn:Et; simpl; [|discriminate].
  destruct (push_init k nb w []) as [[wait0 st0]|] eqn:Ei; simpl; [|discriminate].
  intros Hl. apply wremove_ok in Ew. destruct Ew as [_ ->].
  apply push_init_wait in Ei.
  exists pk, nb, wait0, st0. auto.
Qed.

Lemma init_state (n k : nat) (nb : list (nat * T)) wait0 st0 :
  k < n -> push_wait k nb (remove1 k (seq 0 n)) [] = (wait0, st0) ->
  inv n wait0 st0 /\
  (forall i, done n wait0 st0 i <-> i = k) /\
  (forall e, In e st0 -> e_parent e = k /\ In (e_child e, e_len e) nb) /\
  (forall j b, In (j, b) nb -> ~ In j wait0) /\
  length st0 + length wait0 = n - 1 /\
  (forall x, In x wait0 -> x < n /\ x <> k).
Proof.
  intros Hk Hp.
  assert (Hnd : NoDup (remove1 k (seq 0 n))) by (apply remove1_NoDup, seq_NoDup).
  assert (Hkw : ~ In k (remove1 k (seq 0 n))) by (apply remove1_notin, seq_NoDup).
  assert (Hlt : forall x, In x (remove1 k (seq 0 n)) -> x < n).
  { intros x Hx. apply remove1_incl in Hx. apply in_seq in Hx. lia. }
  destruct (push_wait_spec _ _ _ _ _ _ Hnd Hp) as [new P].
  pose proof (pu_st _ _ _ _ _ _ _ P) as Est. rewrite app_nil_r in Est. subst st0.
  pose proof (new_child_in_wait _ _ _ _ _ _ _ P) as Hnew.
  assert (Hk0 : ~ In k wait0) by (intros Hi; apply Hkw; apply (pu_incl _ _ _ _ _ _ _ P); assumption).
  assert (Hkc : ~ In k (children new)) by (intros Hi; apply Hkw; apply Hnew; assumption).
  split; [constructor|split; [|split; [|split; [|split]]]].
  - apply (pu_nodup _ _ _ _ _ _ _ P).
  - apply (pu_nodup_new _ _ _ _ _ _ _ P).
  - intros x Hx Hc. destruct (Hnew x Hc); contradiction.
  - intros e He. destruct (pu_edge _ _ _ _ _ _ _ P e He) as (A & _). rewrite A. auto.
  - intros x [Hx|Hx]; apply Hlt; [apply (pu_incl _ _ _ _ _ _ _ P)|apply Hnew]; assumption.
  - intros i. split.
    + intros (Hi & Hw & Hc). destruct (Nat.eq_dec i k) as [E|Hne]; auto. exfalso.
      assert (Hin : In i (remove1 k (seq 0 n))) by (apply remove1_other; auto; apply in_seq; lia).
      destruct (pu_split _ _ _ _ _ _ _ P i Hin); contradiction.
    + intros ->. unfold done. auto.
  - intros e He. destruct (pu_edge _ _ _ _ _ _ _ P e He) as (A & _ & _ & D). auto.
  - apply (pu_nb _ _ _ _ _ _ _ P).
  - pose proof (pu_len _ _ _ _ _ _ _ P) as Hl.
    assert (Hs : S (length (remove1 k (seq 0 n))) = n).
    { rewrite remove1_length; [apply seq_length|apply in_seq; lia]. }
    lia.
  - intros x Hx. split.
    + apply Hlt. apply (pu_incl _ _ _ _ _ _ _ P); assumption.
    + intros E; subst x. contradiction.
Qed.

(* complete description of a successful run (any Scalar): the moved atom, the atoms never reached,
   and every other atom repositioned exactly once, from its input position, against the final
   position of its parent in the traversal tree *)
Definition rooted_tree (k : nat) (tr : list edge) : Prop := tr_ok (fun i => i = k) tr.

Record move_result (pos : list (V3 T)) (tb : bond_table) (k : nat) (d : V3 T)
       (out : list (V3 T)) (wf : list nat) (tr : list edge) : Prop := {
  mr_len : length out = length pos;
  mr_moved : exists pk, nth_error pos k = Some pk /\ nth_error out k = Some (vadd pk d);
  mr_unreached : forall i, In i wf -> i < length pos /\ i <> k /\ nth_error out i = nth_error pos i;
  mr_edges : forall e, In e tr -> from_table tb e /\ exists p1 p2 p2',
      nth_error out (e_parent e) = Some p1 /\ nth_error pos (e_child e) = Some p2 /\
      pull p1 p2 (e_len e) = Ok p2' /\ nth_error out (e_child e) = Some p2';
  mr_tree : rooted_tree k tr;
  mr_cover : forall i, i < length pos -> i = k \/ In i wf \/ In i (children tr);
  mr_count : length tr + length wf = length pos - 1;
  mr_closed : forall i nb, i < length pos -> ~ In i wf -> tbl_get tb i = Ok nb ->
              forall j b, In (j, b) nb -> ~ In j wf
}.

Lemma move_tr_result pos tb k d fuel out wf tr :
  move_mol_atom_tr pos tb k d fuel = Ok (out, wf, tr) -> move_result pos tb k d out wf tr.
Proof.
  intros Hq. apply move_tr_unfold in Hq.
  destruct Hq as (pk & nb & wait0 & st0 & Hk & Htb & Hpush & Hloop).
  set (n := length pos) in *.
  assert (Hkn : k < n) by (apply nth_error_Some; congruence).
  destruct (init_state n k nb wait0 st0 Hkn Hpush) as (I & Hdone & Hst & Hnb & Hcnt & Hw0).
  destruct (move_loop_positions n tb _ _ _ _ _ _ _ Hloop I) as (Hlen & Hincl & Hch & Hcov & Hframe & Hwf & Hed).
  destruct (move_loop_trace n tb _ _ _ _ _ _ _ Hloop I) as (Hok & Hlen2 & Hnd & Hfrom & Hclos).
  assert (Hdk : done n wait0 st0 k) by (apply Hdone; reflexivity).
  assert (Hroot : rooted_tree k tr).
  { unfold rooted_tree. eapply tr_ok_ext; [|exact Hok]. intros i; apply Hdone. }
  constructor.
  - rewrite Hlen. apply set_nth_length.
  - exists pk. split; auto. destruct Hdk as (_ & A & B). rewrite (Hframe k A B).
    apply nth_error_set_nth_eq. assumption.
  - intros i Hi. destruct (Hw0 i (Hincl i Hi)) as [A B]. repeat split; auto.
    rewrite (Hwf i Hi). apply nth_error_set_nth_neq. auto.
  - intros e He. split.
    + destruct (Hfrom e He) as [Hs|Hf]; auto.
      destruct (Hst e Hs) as [A B]. exists nb. rewrite A. auto.
    + destruct (Hed e He) as (p1 & p2 & p2' & A & B & C & D).
      exists p1, p2, p2'. repeat split; auto.
      rewrite <- B. symmetry. apply nth_error_set_nth_neq.
      intros E. apply (tr_ok_child _ _ Hroot e He). symmetry; assumption.
  - exact Hroot.
  - intros i Hi. destruct (Nat.eq_dec i k) as [E|Hne]; auto. right.
    apply Hcov. destruct (in_dec Nat.eq_dec i wait0) as [Hw|Hw]; auto.
    destruct (in_dec Nat.eq_dec i (children st0)) as [Hc|Hc]; auto.
    exfalso. apply Hne. apply Hdone. repeat split; auto.
  - lia.
  - apply Hclos. intros i nb' Hi Hg j b Hj. apply Hdone in Hi. subst i.
    rewrite Htb in Hg. inversion Hg; subst nb'. eapply Hnb; eauto.
Qed.

(* fuel: length pos suffices *)
Lemma move_tr_fuel pos tb k d : move_mol_atom_tr pos tb k d (length pos) <> Err EFuel.
Proof.
  unfold move_mol_atom_tr, nth_res.
  destruct (nth_error pos k) as [pk|] eqn:Ek; simpl; [|discriminate].
  assert (Hkn : k < length pos) by (apply nth_error_Some; congruence).
  unfold wremove. destruct (wmem k (seq 0 (length pos))); simpl; [|discriminate].
  destruct (tbl_get tb k) as [nb|e] eqn:Et; simpl.
  2:{ unfold tbl_get in Et. destruct (nth_error tb k) as [[?|]|]; inversion Et; discriminate. }
  destruct (push_init k nb (remove1 k (seq 0 (length pos))) []) as [[wait0 st0]|e] eqn:Ei; simpl.
  - apply push_init_wait in Ei.
    destruct (init_state _ _ _ _ _ Hkn Ei) as (_ & _ & _ & _ & Hcnt & _).
    apply move_loop_fuel. lia.
  - intros E; inversion E; subst e. clear -Ei.
    revert Ei. generalize (remove1 k (seq 0 (length pos))) as w. generalize (@nil edge) as st.
    induction nb as [|[j b] nb IH]; simpl; intros st w Ei; [discriminate|].
    unfold wremove in Ei. destruct (wmem j w); simpl in Ei; [eapply IH; eauto|discriminate].
Qed.


(* ------------------------------------------------------------------ the only failure on well-formed input
   is a zero distance *)
Lemma pull_cases (p1 p2 : V3 T) b : (exists q, pull p1 p2 b = Ok q) \/ pull p1 p2 b = Err EDiv0.
Proof. unfold pull. destruct (seqb _ _); eauto. Qed.

Lemma move_loop_total n tb : (forall i, i < n -> exists l, tbl_get tb i = Ok l) ->
  forall fuel pos wait st, inv n wait st -> length pos = n -> length st + length wait <= fuel ->
  (exists r, move_loop tb fuel pos wait st = Ok r) \/ move_loop tb fuel pos wait st = Err EDiv0.
Proof.
  intros Hkeys. induction fuel as [|fuel IH]; intros pos wait st I Hlen Hle.
  - destruct st; simpl in *; [eauto|lia].
  - destruct st as [|[[p c] b] rest]; [simpl; eauto|].
    assert (Hpn : p < n) by (apply (inv_par _ _ _ I (p, c, b)); left; reflexivity).
    assert (Hcn : c < n) by (apply (inv_lt _ _ _ I); right; left; reflexivity).
    destruct (nth_error pos p) as [p1|] eqn:E1; [|apply nth_error_None in E1; lia].
    destruct (nth_error pos c) as [p2|] eqn:E2; [|apply nth_error_None in E2; lia].
    destruct (Hkeys c Hcn) as [nb Hnb].
    simpl. unfold nth_res. rewrite E1, E2. cbn [bind].
    destruct (pull_cases p1 p2 b) as [[q Hq]|Hq]; rewrite Hq; cbn [bind]; [|auto].
    rewrite Hnb. cbn [bind].
    destruct (push_wait c nb wait rest) as [wait' st'] eqn:Ep.
    destruct (inv_step _ _ _ _ _ _ _ _ _ I Ep) as (new & I' & _).
    pose proof (push_wait_length _ _ _ _ _ _ Ep) as Hl. simpl in Hle.
    destruct (IH (set_nth pos c q) wait' st' I') as [[[[o w] t] Hr]|Hr].
    + rewrite set_nth_length; assumption.
    + lia.
    + rewrite Hr. cbn [bind]. eauto.
    + rewrite Hr. cbn [bind]. auto.
Qed.

Lemma push_init_ok k : forall (nb : list (nat * T)) wait st,
  NoDup (map fst nb) -> (forall j b, In (j, b) nb -> In j wait) ->
  exists ws, push_init k nb wait st = Ok ws.
Proof.
  induction nb as [|[j b] nb IH]; simpl; intros wait st Hnd Hin; [eauto|].
  inversion Hnd as [|? ? Hj Hnd']; subst.
  unfold wremove. assert (Hm : wmem j wait = true) by (apply wmem_In; eapply Hin; left; reflexivity).
  rewrite Hm. cbn [bind]. apply IH; auto.
  intros j' b' Hi. apply remove1_other; [|eapply Hin; right; eassumption].
  intros E; subst j'. apply Hj. apply in_map_iff. exists (j, b'). auto.
Qed.

(* table with an entry for every atom; the moved atom's neighbours are distinct atoms other than itself *)
Definition table_ok (n : nat) (tb : bond_table) (k : nat) : Prop :=
  k < n /\ (forall i, i < n -> exists l, tbl_get tb i = Ok l) /\
  (forall l, tbl_get tb k = Ok l -> NoDup (map fst l) /\ forall j b, In (j, b) l -> j < n /\ j <> k).

Lemma move_tr_total pos tb k d : table_ok (length pos) tb k ->
  (exists r, move_mol_atom_tr pos tb k d (length pos) = Ok r) \/
  move_mol_atom_tr pos tb k d (length pos) = Err EDiv0.
Proof.
  intros (Hk & Hkeys & Hnbk). unfold move_mol_atom_tr, nth_res.
  destruct (nth_error pos k) as [pk|] eqn:Ek; [|apply nth_error_None in Ek; lia].
  cbn [bind]. unfold wremove.
  assert (Hm : wmem k (seq 0 (length pos)) = true) by (apply wmem_In, in_seq; lia).
  rewrite Hm. cbn [bind].
  destruct (Hkeys k Hk) as [nb Hnb]. rewrite Hnb. cbn [bind].
  destruct (Hnbk nb Hnb) as [Hnd Hrange].
  destruct (push_init_ok k nb (remove1 k (seq 0 (length pos))) [] Hnd) as [[wait0 st0] Hi].
  { intros j b Hj. destruct (Hrange j b Hj). apply remove1_other; auto. apply in_seq; lia. }
  rewrite Hi. cbn [bind fst snd].
  apply push_init_wait in Hi.
  destruct (init_state _ _ _ _ _ Hk Hi) as (I & _ & _ & _ & Hcnt & _).
  apply (move_loop_total (length pos) tb Hkeys); auto.
  - apply set_nth_length.
  - lia.
Qed.

End Comb.
