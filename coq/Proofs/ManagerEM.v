(* Lemmas about Model/Manager.v, part 2: the ExchangeMap instance (any Scalar). *)
From Coq Require Import List ZArith Bool Arith Lia.
Import ListNotations.
From GM Require Import Base.Res Base.StrGro Base.Scalar Base.Vec Model.Aux Model.ExchangeMap Model.Manager
  Proofs.ManagerP.

Lemma flatten_res_length {C} (rids : list Z) (mm : mapped C) :
  length rids = length mm -> length (flatten_res (combine rids mm)) = length (concat mm).
Proof.
  revert mm; induction rids as [|r t IH]; intros [|x mt] Hl; try discriminate; [reflexivity|].
  cbn [combine flatten_res flat_map concat fst snd]. rewrite !app_length, map_length.
  f_equal. apply IH. simpl in Hl. lia.
Qed.

Section EMP.
  Context {T : Type} `{Scalar T}.

  Definition tlabel (t : tatom T) : bytes * bytes * option (V3 T) := (ta_resname t, ta_name t, ta_vel t).
  Definition mlabel (a : matom (cpay T)) : bytes * bytes * option (V3 T) :=
    (ma_resname a, ma_name a, snd (ma_coords a)).

  (* the copy of the target keeps, residue by residue, the names and velocities of the target's atoms and takes
     the positions of the map's output in order *)
  Lemma regroup_spec (shape : list (list (tatom T))) out mm : regroup shape out = Ok mm ->
    map (map mlabel) mm = map (map tlabel) shape /\
    map (fun a => fst (ma_coords a)) (concat mm) = out.
  Proof.
    unfold cpay in *.
    revert out mm; induction shape as [|r rest IH]; intros out mm Hr; cbn [regroup] in Hr.
    - destruct out; [|discriminate]. inversion Hr; subst. split; reflexivity.
    - destruct (length out <? length r) eqn:Hl; [discriminate|]. apply Nat.ltb_ge in Hl.
      destruct (regroup rest (skipn (length r) out)) as [tl|] eqn:Ht; cbn [bind] in Hr; [|discriminate].
      inversion Hr; subst. destruct (IH _ _ Ht) as [IH1 IH2]. cbn [map concat]. split.
      + f_equal; [|exact IH1]. rewrite map_map.
        assert (Hlen : length r = length (firstn (length r) out)) by (rewrite firstn_length; lia).
        revert Hlen. generalize (firstn (length r) out). clear. induction r as [|t r IH]; intros [|p ps] Hl;
          try discriminate; [reflexivity|]. cbn [combine map]. f_equal. apply IH. simpl in Hl. lia.
      + rewrite map_app, IH2, map_map.
        rewrite <- (firstn_skipn (length r) out) at 3. f_equal.
        assert (Hlen : length r = length (firstn (length r) out)) by (rewrite firstn_length; lia).
        revert Hlen. generalize (firstn (length r) out). clear. induction r as [|t r IH]; intros [|p ps] Hl;
          try discriminate; [reflexivity|]. cbn [combine map fst ma_coords]. f_equal. apply IH. simpl in Hl. lia.
  Qed.

  Lemma map_map_length {A B} (f : A -> B) (l : list (list A)) : map (@length _) (map (map f) l) = map (@length _) l.
  Proof. induction l as [|x t IH]; [reflexivity|]. cbn [map]. now rewrite map_length, IH. Qed.

  Lemma regroup_shape (shape : list (list (tatom T))) out mm : regroup shape out = Ok mm ->
    map (@length _) mm = map (@length _) shape.
  Proof.
    intros Hr. destruct (regroup_spec _ _ _ Hr) as [Hl _].
    apply (f_equal (map (@length _))) in Hl. now rewrite !map_map_length in Hl.
  Qed.

  Lemma concat_length_shape {A B} (a : list (list A)) (b : list (list B)) :
    map (@length _) a = map (@length _) b -> length (concat a) = length (concat b).
  Proof.
    revert b; induction a as [|x t IH]; intros [|y u] Hm; try discriminate; [reflexivity|].
    cbn [map] in Hm. inversion Hm. cbn [concat]. rewrite !app_length. f_equal; [assumption|]. now apply IH.
  Qed.

  (* what one call of the map object produces: the output of `apply` on the molecule's coordinates, with the
     target's labels; its size is the target's *)
  Theorem em_mapmol_spec (mo : emobj T) (b : ibody T) mm : em_mapmol mo b = Ok mm ->
    exists out, apply (eo_map mo) (eo_graph mo) (b_pos b) (b_draws b) = Ok out /\
      map (fun a => fst (ma_coords a)) (concat mm) = out /\
      map (map mlabel) mm = map (map tlabel) (eo_tgt mo) /\
      length (concat mm) = length (concat (eo_tgt mo)).
  Proof.
    unfold em_mapmol. destruct (apply _ _ _ _) as [out|] eqn:Ha; cbn [bind]; [|discriminate]. intros Hr.
    destruct (regroup_spec _ _ _ Hr) as [Hl Hp]. exists out. repeat split; auto.
    apply concat_length_shape. apply (regroup_shape _ _ _ Hr).
  Qed.

  (* target size of the species at index i in the state *)
  Definition tsize (sps : list (spstate (endmol T) (emobj T))) (i : nat) : nat :=
    match nth_error sps i with
    | Some st => match sp_map st with Some mo => length (concat (eo_tgt mo)) | None => 0 end
    | None => 0
    end.

  Lemma em_sizes (sps : list (spstate (endmol T) (emobj T))) (m : minst (ibody T)) atoms :
    maps_to em_mapmol sps m atoms -> length atoms = tsize sps (in_species m).
  Proof.
    intros Hm. destruct (mol_atoms_ok _ _ _ _ Hm) as (st & mp & mm & Hn & _ & Hmp & Hmm & Hl & ->).
    unfold tsize. rewrite Hn, Hmp. rewrite (flatten_res_length _ _ Hl).
    destruct (em_mapmol_spec _ _ _ Hmm) as (_ & _ & _ & _ & Hs). exact Hs.
  Qed.

  Theorem count_em_thm {F B} (f : F) title (box : B) sps (mols : list (minst (ibody T))) blocks :
    preflight sps = Ok tt ->
    Forall2 (maps_to em_mapmol sps) (selected sps mols) blocks ->
    length (written (fst (extrapolate em_mapmol f title box sps mols))) =
      list_sum (map (fun m => tsize sps (in_species m)) (selected sps mols)).
  Proof.
    intros Hp Hb. apply (count_sizes_thm em_mapmol f title box sps mols blocks (tsize sps) Hp Hb).
    intros m atoms _ Hm. apply em_sizes. exact Hm.
  Qed.
End EMP.
