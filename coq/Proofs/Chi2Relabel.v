(* Consistent relabelling of the mobile atoms (T := R); the counter-example with a tie; the
   non-vacuity example of Props/C08.v. *)
From GM Require Import Proofs.RTac Model.Chi2 Proofs.Chi2Lists Proofs.Chi2R.
From Coq Require Import Bool.
Import ListNotations.
Local Open Scope R_scope.

(* atom j of l carries the label s j in l' *)
Definition relabelling (s : nat -> nat) (l l' : list (V3 R)) : Prop :=
  length l' = length l /\
  (forall j, (j < length l)%nat -> (s j < length l)%nat /\ nth_error l' (s j) = nth_error l j) /\
  (forall j1 j2, (j1 < length l)%nat -> (j2 < length l)%nat -> s j1 = s j2 -> j1 = j2).

(* every unrestrained fixed atom has exactly one nearest mobile atom *)
Definition unique_nearest (fixed mobile : list (V3 R)) (restr : list (nat * nat)) : Prop :=
  forall i a, ~ In i (map fst restr) -> nth_error fixed i = Some a ->
  forall j1 j2 b1 b2, nth_error mobile j1 = Some b1 -> nth_error mobile j2 = Some b2 ->
    (forall b, In b mobile -> vdist2 a b1 <= vdist2 a b) ->
    (forall b, In b mobile -> vdist2 a b2 <= vdist2 a b) -> j1 = j2.

(* ---------- an injection of {0..n-1} into itself is onto ---------- *)
Lemma NoDup_map_inj_in {A B} (f : A -> B) l :
  (forall x y, In x l -> In y l -> f x = f y -> x = y) -> NoDup l -> NoDup (map f l).
Proof.
  intros Hinj N. induction N as [|x xs Hx N IH]; simpl; [constructor|].
  constructor.
  - intros Hin. apply in_map_iff in Hin. destruct Hin as [y [E Hy]].
    assert (y = x) by (apply Hinj; simpl; auto). subst. contradiction.
  - apply IH. intros a b Ha Hb. apply Hinj; simpl; auto.
Qed.

Lemma inj_range_onto (s : nat -> nat) n :
  (forall j, (j < n)%nat -> (s j < n)%nat) ->
  (forall j1 j2, (j1 < n)%nat -> (j2 < n)%nat -> s j1 = s j2 -> j1 = j2) ->
  forall j', (j' < n)%nat -> exists j, (j < n)%nat /\ s j = j'.
Proof.
  intros Hr Hinj j' Hj'.
  assert (N : NoDup (map s (seq 0 n))).
  { apply NoDup_map_inj_in; [|apply seq_NoDup].
    intros x y Hx Hy. apply in_seq in Hx. apply in_seq in Hy. apply Hinj; lia. }
  assert (I : incl (map s (seq 0 n)) (seq 0 n)).
  { intros x Hx. apply in_map_iff in Hx. destruct Hx as [j [<- Hj]]. apply in_seq in Hj.
    apply in_seq. specialize (Hr j). lia. }
  assert (I' : incl (seq 0 n) (map s (seq 0 n))).
  { apply NoDup_length_incl; [assumption| |assumption]. rewrite map_length. lia. }
  assert (Hin : In j' (map s (seq 0 n))) by (apply I'; apply in_seq; lia).
  apply in_map_iff in Hin. destruct Hin as [j [E Hj]]. apply in_seq in Hj. exists j. split; [lia|assumption].
Qed.

Lemma nth_error_map_Some {A B} (f : A -> B) l i y :
  nth_error (map f l) i = Some y -> exists x, nth_error l i = Some x /\ y = f x.
Proof.
  rewrite nth_error_map. destruct (nth_error l i) as [x|]; simpl; intros E; inversion E. eauto.
Qed.

(* ---------- the nearest atom follows the relabelling when it is unique ---------- *)
Lemma first_min_relabel (a : V3 R) mobile mobile' s m j m' j' :
  relabelling s mobile mobile' ->
  is_first_min (map (vdist2 a) mobile) m j -> is_first_min (map (vdist2 a) mobile') m' j' ->
  (forall j1 j2 b1 b2, nth_error mobile j1 = Some b1 -> nth_error mobile j2 = Some b2 ->
     (forall b, In b mobile -> vdist2 a b1 <= vdist2 a b) ->
     (forall b, In b mobile -> vdist2 a b2 <= vdist2 a b) -> j1 = j2) ->
  m' = m /\ j' = s j.
Proof.
  intros [Hlen [Hs Hinj]] [E [A _]] [E' [A' _]] Hu.
  destruct (nth_error_map_Some _ _ _ _ E) as [bj [Ebj ->]].
  destruct (nth_error_map_Some _ _ _ _ E') as [b' [Eb' ->]].
  assert (Hj : (j < length mobile)%nat) by (apply nth_error_Some; congruence).
  assert (Hj' : (j' < length mobile)%nat) by (rewrite <- Hlen; apply nth_error_Some; congruence).
  destruct (inj_range_onto s (length mobile) (fun j H => proj1 (Hs j H)) Hinj j' Hj') as [j0 [Hj0 Es]].
  destruct (Hs j0 Hj0) as [_ E0]. rewrite Es, Eb' in E0. symmetry in E0.
  destruct (Hs j Hj) as [_ E1]. rewrite Ebj in E1.
  assert (L1 : vdist2 a bj <= vdist2 a b').
  { apply (A j0). rewrite nth_error_map, E0. reflexivity. }
  assert (L2 : vdist2 a b' <= vdist2 a bj).
  { apply (A' (s j)). rewrite nth_error_map, E1. reflexivity. }
  assert (Em : vdist2 a b' = vdist2 a bj) by lra.
  split; [assumption|].
  assert (j = j0); [|subst; reflexivity].
  apply (Hu j j0 bj b' Ebj E0).
  - intros b Hb. apply In_nth_error in Hb. destruct Hb as [k Hk]. apply (A k).
    rewrite nth_error_map, Hk. reflexivity.
  - intros b Hb. apply In_nth_error in Hb. destruct Hb as [k Hk]. rewrite Em. apply (A k).
    rewrite nth_error_map, Hk. reflexivity.
Qed.

Lemma mapM_rel {A B} (f f' : A -> res B) (h : B -> B) l :
  (forall x, In x l -> exists y, f x = Ok y /\ f' x = Ok (h y)) ->
  exists ys, mapM f l = Ok ys /\ mapM f' l = Ok (map h ys).
Proof.
  induction l as [|x xs IH]; simpl; intros Hr; [exists []; auto|].
  destruct (Hr x) as [y [E E']]; auto. destruct IH as [ys [Es Es']]; auto.
  rewrite E, E', Es, Es'. simpl. eauto.
Qed.

(* ---------- the reference definition is invariant ---------- *)
Lemma chi2_spec_relabel (fixed mobile mobile' : list (V3 R)) restr s :
  relabelling s mobile mobile' -> mobile <> [] ->
  (forall i j, In (i, j) restr -> (i < length fixed)%nat /\ (j < length mobile)%nat) ->
  unique_nearest fixed mobile restr ->
  chi2_spec fixed mobile' (map (fun ij => (fst ij, s (snd ij))) restr) = chi2_spec fixed mobile restr.
Proof.
  intros Hrel Hne Hr Hu. pose proof Hrel as [Hlen [Hs Hinj]].
  assert (Hne' : mobile' <> []) by (intros ->; destruct mobile; [congruence|discriminate]).
  set (h := fun ij : nat * nat => (fst ij, s (snd ij))).
  assert (Hfst : map fst (map h restr) = map fst restr) by (rewrite map_map; apply map_ext; reflexivity).
  assert (Hsnd : map snd (map h restr) = map s (map snd restr)) by (rewrite !map_map; reflexivity).
  unfold chi2_spec. rewrite Hfst, Hsnd, Hlen.
  change (fun ij : nat * nat => let* a := nth_res fixed (fst ij) in
                                let* b := nth_res mobile' (snd ij) in Ok (vdist2 a b))
    with (pair_d2 fixed mobile').
  change (fun ij : nat * nat => let* a := nth_res fixed (fst ij) in
                                let* b := nth_res mobile (snd ij) in Ok (vdist2 a b))
    with (pair_d2 fixed mobile).
  (* restrained pairs: the same list of squared distances *)
  rewrite mapM_map.
  rewrite (mapM_ext_in (fun x => pair_d2 fixed mobile' (h x)) (pair_d2 fixed mobile)).
  2:{ intros [i j] Hin. destruct (Hr i j Hin) as [_ Hj]. unfold pair_d2, h. simpl.
      destruct (Hs j Hj) as [_ En]. unfold nth_res. rewrite En. reflexivity. }
  destruct (mapM (pair_d2 fixed mobile) restr) as [pairs|]; simpl; [|reflexivity].
  (* nearest atoms: same distances, labels mapped by s *)
  set (U := filter (fun i => negb (mem_nat i (map fst restr))) (seq 0 (length fixed))).
  set (hs := fun p : R * nat => (fst p, s (snd p))).
  destruct (mapM_rel (fun i => let* a := nth_res fixed i in nearest a mobile)
                     (fun i => let* a := nth_res fixed i in nearest a mobile') hs U) as [near [En En']].
  { intros i Hi. unfold U in Hi. apply filter_In in Hi. destruct Hi as [Hseq Hmem].
    apply in_seq in Hseq.
    assert (Hni : ~ In i (map fst restr)).
    { intros Hin. apply mem_nat_In in Hin. rewrite Hin in Hmem. discriminate. }
    destruct (nth_res_ok fixed i) as [a Ea]; [lia|]. rewrite Ea. simpl.
    destruct (nth_res_ok_inv _ _ _ Ea) as [Ea' _].
    destruct (row_min_nearest a mobile Hne) as [m [j [_ [N F]]]].
    destruct (row_min_nearest a mobile' Hne') as [m' [j' [_ [N' F']]]].
    destruct (first_min_relabel a mobile mobile' s m j m' j' Hrel F F' (Hu i a Hni Ea')) as [-> ->].
    exists (m, j). split; assumption. }
  rewrite En, En'. simpl.
  assert (Hnr : forall x, In x (map snd near) -> (x < length mobile)%nat).
  { intros x Hx. apply in_map_iff in Hx. destruct Hx as [[m j] [<- Hp]].
    destruct (mapM_In _ _ _ _ En Hp) as [i [_ Ei]].
    destruct (nth_res fixed i) as [a|]; simpl in Ei; [|discriminate].
    destruct (row_min_nearest a mobile Hne) as [m0 [j0 [_ [N F]]]].
    rewrite N in Ei. inversion Ei; subst. apply first_min_In in F. rewrite map_length in F. apply F. }
  assert (Hfs : map fst (map hs near) = map fst near) by (rewrite map_map; apply map_ext; reflexivity).
  assert (Hss : map snd (map hs near) = map s (map snd near)) by (rewrite !map_map; reflexivity).
  rewrite Hfs, Hss. f_equal. f_equal. f_equal.
  (* the number of lonely mobile atoms *)
  set (L := map snd restr ++ map snd near).
  assert (HL : forall x, In x L -> (x < length mobile)%nat).
  { intros x Hx. apply in_app_iff in Hx. destruct Hx as [Hx|Hx]; [|auto].
    apply in_map_iff in Hx. destruct Hx as [[i j] [<- Hp]]. apply (Hr _ _ Hp). }
  rewrite (filter_ext (fun j => negb (mem_nat j (map s (map snd restr))) && negb (mem_nat j (map s (map snd near))))
                      (fun j => negb (mem_nat j (map s L)))).
  2:{ intros j. unfold L. rewrite map_app, mem_nat_app, negb_orb. reflexivity. }
  rewrite (filter_ext (fun j => negb (mem_nat j (map snd restr)) && negb (mem_nat j (map snd near)))
                      (fun j => negb (mem_nat j L))).
  2:{ intros j. unfold L. rewrite mem_nat_app, negb_orb. reflexivity. }
  pose proof (count_not_in L (length mobile) HL) as C1.
  assert (HL' : forall x, In x (map s L) -> (x < length mobile)%nat).
  { intros x Hx. apply in_map_iff in Hx. destruct Hx as [j [<- Hj]]. apply Hs. auto. }
  pose proof (count_not_in (map s L) (length mobile) HL') as C2.
  assert (D : length (distinct (map s L)) = length (distinct L)).
  { rewrite <- (map_length s (distinct L)). apply NoDup_same_length.
    - apply distinct_NoDup.
    - apply NoDup_map_inj_in; [|apply distinct_NoDup].
      intros x y Hx Hy E. apply (proj1 (distinct_In _ _)) in Hx. apply (proj1 (distinct_In _ _)) in Hy.
      apply Hinj; [apply HL; assumption|apply HL; assumption|assumption].
    - intros x. rewrite distinct_In, !in_map_iff. split; intros [j [E Hj]]; exists j; split; auto.
      + apply (proj2 (distinct_In _ _)); assumption.
      + apply (proj1 (distinct_In _ _)); assumption. }
  lia.
Qed.

Lemma chi2_relabel (fixed mobile0 mobile mobile0' mobile' : list (V3 R)) restr (s : nat -> nat) :
  relabelling s mobile mobile' -> length mobile0' = length mobile0 ->
  mobile <> [] -> length mobile = length mobile0 ->
  (forall i j, In (i, j) restr -> (i < length fixed)%nat /\ (j < length mobile)%nat) ->
  unique_nearest fixed mobile restr ->
  chi2_eval fixed mobile0' (map (fun ij => (fst ij, s (snd ij))) restr) mobile'
  = chi2_eval fixed mobile0 restr mobile.
Proof.
  intros Hrel Hl0 Hne Hlen Hr Hu. pose proof Hrel as [Hl [Hs _]].
  destruct (chi2_equals_spec fixed mobile0 mobile restr Hne Hlen Hr) as [v [E1 S1]].
  destruct (chi2_equals_spec fixed mobile0' mobile' (map (fun ij => (fst ij, s (snd ij))) restr)) as [v' [E2 S2]].
  - intros ->. destruct mobile; [congruence|discriminate].
  - congruence.
  - intros i j Hin. apply in_map_iff in Hin. destruct Hin as [[i0 j0] [E Hin]]. simpl in E.
    inversion E; subst. destruct (Hr _ _ Hin) as [Hi Hj]. split; [assumption|].
    rewrite Hl. apply Hs. assumption.
  - rewrite (chi2_spec_relabel fixed mobile mobile' restr s Hrel Hne Hr Hu) in S2.
    rewrite E1, E2. congruence.
Qed.

(* ---------- concrete evaluations over R ---------- *)
Ltac decide_cmp :=
  repeat match goal with
  | |- context [Rltb ?x ?y] =>
      first [ rewrite (proj2 (Rltb_true x y)) by lra | rewrite (proj2 (Rltb_false x y)) by lra ]
  | |- context [Rleb ?x ?y] =>
      first [ rewrite (proj2 (Rleb_true x y)) by lra | rewrite (proj2 (Rleb_false x y)) by lra ]
  end.

Ltac eval_chi2 :=
  unfold chi2_eval, chi2_make; simpl;
  unfold chi2_call, chi2_call_k, chi2_none_k, chi2_with_k, chi2_only_k, restr_contrib; simpl;
  decide_cmp; simpl; unfold penal; simpl; f_equal; rewrite ?ssum_Rsum; unfold eleven_tenths; simpl; runfold.

Lemma relabel_counterexample :
  let fixed := [mk3 0 0 0; mk3 2 0 0] in
  let mobile := [mk3 1 0 0; mk3 (-1) 0 0] in
  let mobile' := [mk3 (-1) 0 0; mk3 1 0 0] in
  let s := fun j : nat => (1 - j)%nat in
  relabelling s mobile mobile' /\
  chi2_eval fixed mobile [] mobile = Ok (2 * (11 / 10)) /\
  chi2_eval fixed mobile' [] mobile' = Ok 2.
Proof.
  cbv zeta. split; [|split].
  - split; [reflexivity|]. split.
    + intros [|[|j]] Hj; simpl in *; try lia; split; (lia || reflexivity).
    + intros [|[|j1]] [|[|j2]]; simpl; intros; lia.
  - eval_chi2. field.
  - eval_chi2. field.
Qed.

Lemma nth3 {A} (x0 x1 x2 : A) j b : nth_error [x0; x1; x2] j = Some b ->
  (j = 0%nat /\ b = x0) \/ (j = 1%nat /\ b = x1) \/ (j = 2%nat /\ b = x2).
Proof.
  destruct j as [|[|[|j]]]; simpl; intros E; try (inversion E; auto; fail).
  destruct j; discriminate.
Qed.

Lemma chi2_nonvacuous :
  let fixed := [mk3 0 0 0; mk3 1 0 0; mk3 2 0 0] in
  let mobile0 := [mk3 9 9 9; mk3 8 8 8; mk3 7 7 7] in
  let mobile := [mk3 0 0 1; mk3 3 0 1; mk3 9 9 9] in
  let restr := [(0, 1); (0, 0)]%nat in
  mobile <> mobile0 /\ mobile <> [] /\ length mobile = length mobile0 /\
  (forall i j, In (i, j) restr -> (i < length fixed)%nat /\ (j < length mobile)%nat) /\
  unique_nearest fixed mobile restr /\
  chi2_eval fixed mobile0 restr mobile = Ok ((10 + 1 + 2 + 2) * (11 / 10)).
Proof.
  cbv zeta. split; [|split; [|split; [|split; [|split]]]].
  - intros E. inversion E. lra.
  - discriminate.
  - reflexivity.
  - simpl. intros i j [E|[E|[]]]; inversion E; subst; lia.
  - unfold unique_nearest. intros i a Hni Ea j1 j2 b1 b2 E1 E2 M1 M2.
    assert (M1a := M1 (mk3 0 0 1) (or_introl eq_refl)).
    assert (M1b := M1 (mk3 3 0 1) (or_intror (or_introl eq_refl))).
    assert (M2a := M2 (mk3 0 0 1) (or_introl eq_refl)).
    assert (M2b := M2 (mk3 3 0 1) (or_intror (or_introl eq_refl))).
    clear M1 M2.
    apply nth3 in Ea. apply nth3 in E1. apply nth3 in E2.
    destruct Ea as [[-> ->]|[[-> ->]|[-> ->]]]; [exfalso; apply Hni; simpl; auto| |];
      destruct E1 as [[-> ->]|[[-> ->]|[-> ->]]]; destruct E2 as [[-> ->]|[[-> ->]|[-> ->]]];
      try reflexivity; exfalso; runfold; lra.
  - eval_chi2. field.
Qed.
