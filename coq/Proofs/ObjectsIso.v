(* Where the handles returned by an operation live, the well-formedness invariant of a family of
   handles, and the isolation theorems of C18 (any Scalar instance). *)
From Coq Require Import List ZArith Bool Arith Lia.
From GM Require Import Base.Res Base.Scalar Base.Vec Model.Objects Proofs.ObjectsFrame.
Import ListNotations.

Section Iso.
Context {T : Type} `{Scalar T}.

Notation heap := (heap T).
Notation handle := (handle T).
Notation M := (M T).
Notation family := (family T).
Notation op := (op T).

Definition allp : loc -> Prop := fun _ => True.

(* lengths never shrink *)
Definition le3 (h h' : heap) : Prop :=
  length (hgro h) <= length (hgro h') /\ length (htop h) <= length (htop h') /\ length (hmt h) <= length (hmt h').

Lemma framed_le3 {A} (m : M A) G Tp Mt (h h' : heap) r : framed G Tp Mt m -> m h = (h', r) -> le3 h h'.
Proof. intros F E. specialize (F h). rewrite E in F. destruct F as (a & b & c & _). split; auto. Qed.

(* ------------------------------------------------------------------ read-only computations *)
Definition ro {A} (m : M A) : Prop := forall h, fst (m h) = h.

Lemma ro_eq {A} (m : M A) (h h' : heap) r : ro m -> m h = (h', r) -> h' = h.
Proof. intros R E. specialize (R h). rewrite E in R. auto. Qed.

Lemma ro_ret {A} (a : A) : ro (@ret T A a). Proof. intros h; reflexivity. Qed.
Lemma ro_fail {A} e : ro (@fail T A e). Proof. intros h; reflexivity. Qed.
Lemma ro_lift {A} (r : res A) : ro (@lift T A r). Proof. intros h; reflexivity. Qed.
Lemma ro_gro_get l : ro (@gro_get T l). Proof. intros h; reflexivity. Qed.
Lemma ro_top_get l : ro (@top_get T l). Proof. intros h; reflexivity. Qed.
Lemma ro_mt_get l : ro (@mt_get T l). Proof. intros h; reflexivity. Qed.
Lemma ro_bind {A B} (m : M A) (f : A -> M B) : ro m -> (forall a, ro (f a)) -> ro (mbind m f).
Proof.
  intros Rm Rf h. unfold mbind. specialize (Rm h). destruct (m h) as [h1 [a|e]]; simpl in *; subst; auto.
  apply Rf.
Qed.
Lemma ro_iterM {A} (f : A -> M unit) l : (forall x, ro (f x)) -> ro (iterM f l).
Proof. intros Rf; induction l; simpl; [apply ro_ret | apply ro_bind; auto]. Qed.
Lemma ro_mapMM {A B} (f : A -> M B) l : (forall x, ro (f x)) -> ro (mapMM f l).
Proof.
  intros Rf; induction l; simpl; [apply ro_ret|].
  apply ro_bind; auto. intros; apply ro_bind; auto. intros; apply ro_ret.
Qed.
Lemma ro_view_check t g : ro (@view_check T t g).
Proof.
  unfold view_check. apply ro_bind; [apply ro_top_get|]. intros. apply ro_bind; [apply ro_gro_get|]. intros.
  destruct (_ && _); [apply ro_ret | apply ro_fail].
Qed.
Lemma ro_visit tg : ro (@visit T tg).
Proof. unfold visit; destruct (fst tg); [apply ro_view_check | apply ro_ret]. Qed.
Lemma ro_residname_check cs : ro (@residname_check T cs).
Proof. unfold residname_check; destruct cs; [apply ro_fail|]. destruct (forallb _ _); [apply ro_ret | apply ro_fail]. Qed.
Lemma ro_match_check ts gs : ro (@match_check T ts gs).
Proof. unfold match_check. destruct (negb _); [apply ro_fail|]. apply ro_iterM; intros; apply ro_view_check. Qed.

Lemma mapMM_length {A B} (f : A -> M B) l (h h' : heap) ys : mapMM f l h = (h', Ok ys) -> length ys = length l.
Proof.
  revert h ys; induction l as [|x xs IH]; simpl; intros h ys E.
  - inversion E; reflexivity.
  - apply mbind_ok in E. destruct E as (h1 & y & _ & E).
    apply mbind_ok in E. destruct E as (h2 & ys' & E2 & E). inversion E; subst. simpl. f_equal. eapply IH; eauto.
Qed.

(* ------------------------------------------------------------------ freshly allocated locations *)
Definition fresh_in (n n' : nat) (ls : list loc) : Prop := forall l, In l ls -> n <= l < n'.

Lemma fresh_in_weaken n n' m m' ls : m <= n -> n' <= m' -> fresh_in n n' ls -> fresh_in m m' ls.
Proof. intros a b F l Hl. specialize (F l Hl). lia. Qed.

Lemma in_seq_bounds a n l : In l (seq a n) -> a <= l < a + n.
Proof. intros I; apply in_seq in I; lia. Qed.

Lemma residue_copy_fresh gs (h h' : heap) gs' :
  residue_copy gs h = (h', Ok gs') -> fresh_in (length (hgro h)) (length (hgro h')) gs'.
Proof.
  unfold residue_copy. intros E.
  apply mbind_ok in E. destruct E as (h1 & cs & E1 & E).
  assert (h1 = h) by (eapply ro_eq; [|exact E1]; apply ro_mapMM; intros; apply ro_gro_get). subst h1.
  apply mbind_ok in E. destruct E as (h2 & l & E2 & E).
  unfold gro_alloc_list in E2. inversion E2; subst; clear E2.
  apply mbind_ok in E. destruct E as (h3 & u & E3 & E).
  apply ro_eq in E3; [|apply ro_residname_check]. subst h3.
  inversion E; subst; clear E. simpl. rewrite app_length.
  intros l Hl. apply in_seq_bounds in Hl. lia.
Qed.

Lemma alloc_checked_fresh (cs : list (grocell T)) (h h' : heap) gs :
  mbind (gro_alloc_list cs) (fun gs => mbind (residname_check cs) (fun _ => ret gs)) h = (h', Ok gs) ->
  fresh_in (length (hgro h)) (length (hgro h')) gs.
Proof.
  intros E. apply mbind_ok in E. destruct E as (h2 & l & E2 & E).
  unfold gro_alloc_list in E2. inversion E2; subst; clear E2.
  apply mbind_ok in E. destruct E as (h3 & u & E3 & E).
  apply ro_eq in E3; [|apply ro_residname_check]. subst h3.
  inversion E; subst; clear E. simpl. rewrite app_length.
  intros l Hl. apply in_seq_bounds in Hl. lia.
Qed.

Lemma mapMM_fresh {A} (f : A -> M (list loc)) l :
  (forall x, framed allp allp allp (f x)) ->
  (forall x (h h' : heap) y, f x h = (h', Ok y) -> fresh_in (length (hgro h)) (length (hgro h')) y) ->
  forall (h h' : heap) ys, mapMM f l h = (h', Ok ys) -> fresh_in (length (hgro h)) (length (hgro h')) (concat ys).
Proof.
  intros Ff Hf. induction l as [|x xs IH]; simpl; intros h h' ys E.
  - inversion E; subst. intros l [].
  - apply mbind_ok in E. destruct E as (h1 & y & E1 & E).
    apply mbind_ok in E. destruct E as (h2 & ys' & E2 & E). inversion E; subst; clear E.
    pose proof (framed_le3 _ _ _ _ _ _ _ (Ff x) E1) as (L1 & _).
    assert (F2 : framed allp allp allp (mapMM f xs)) by (apply framed_mapMM; intros; apply Ff).
    pose proof (framed_le3 _ _ _ _ _ _ _ F2 E2) as (L2 & _).
    simpl. intros l Hl. apply in_app_or in Hl. destruct Hl as [Hl|Hl].
    + apply (Hf _ _ _ _ E1) in Hl. lia.
    + apply (IH _ _ _ E2) in Hl. lia.
Qed.

Lemma mol_init_spec mt ts rs (h h' : heap) Y :
  mol_init mt ts rs h = (h', Ok Y) ->
  exists rs', Y = HM mt ts rs' /\ fresh_in (length (hgro h)) (length (hgro h')) (concat rs').
Proof.
  unfold mol_init. intros E.
  apply mbind_ok in E. destruct E as (h1 & u & E1 & E).
  apply ro_eq in E1; [|apply ro_match_check]. subst h1.
  apply mbind_ok in E. destruct E as (h2 & rs' & E2 & E). inversion E; subst; clear E.
  exists rs'. split; auto.
  eapply mapMM_fresh; [| |exact E2].
  - intros; apply framed_residue_copy.
  - intros; eapply residue_copy_fresh; eauto.
Qed.

Lemma mtop_copy_spec mt ts (h h' : heap) mt' ts' :
  mtop_copy mt ts h = (h', Ok (mt', ts')) ->
  hgro h' = hgro h /\
  fresh_in (length (htop h)) (length (htop h')) ts' /\ length (hmt h) <= mt' < length (hmt h').
Proof.
  unfold mtop_copy. intros E.
  apply mbind_ok in E. destruct E as (h1 & nm & E1 & E).
  apply ro_eq in E1; [|apply ro_mt_get]. subst h1.
  apply mbind_ok in E. destruct E as (h2 & m' & E2 & E).
  unfold mt_alloc in E2. inversion E2; subst; clear E2.
  apply mbind_ok in E. destruct E as (h3 & tcs & E3 & E).
  pose proof E3 as E3'. apply ro_eq in E3'; [|apply ro_mapMM; intros; apply ro_top_get]. subst h3.
  apply mbind_ok in E. destruct E as (h4 & l & E4 & E).
  unfold top_alloc_list in E4. inversion E4; subst; clear E4.
  inversion E; subst; clear E. simpl. rewrite !app_length. simpl. repeat split; try lia.
  - apply in_seq_bounds in H0. lia.
  - apply in_seq_bounds in H0. lia.
Qed.

(* ------------------------------------------------------------------ handles returned by operations *)
Definition op_kind (o : op) : outkind :=
  match o with
  | OCopy | OAlign | OAtoms _ | OHandout _ => NewCopy
  | ODeepCopy => NewDeep
  | _ => NewView
  end.

Definition result_spec (h h' : heap) (X : handle) (k : outkind) (Y : handle) : Prop :=
  match k with
  | NewView => incl (gro_locs Y) (gro_locs X) /\ incl (top_locs Y) (top_locs X) /\ incl (mt_locs Y) (mt_locs X)
  | NewCopy => fresh_in (length (hgro h)) (length (hgro h')) (gro_locs Y) /\
               incl (top_locs Y) (top_locs X) /\ incl (mt_locs Y) (mt_locs X)
  | NewDeep => fresh_in (length (hgro h)) (length (hgro h')) (gro_locs Y) /\
               fresh_in (length (htop h)) (length (htop h')) (top_locs Y) /\
               fresh_in (length (hmt h)) (length (hmt h')) (mt_locs Y)
  end.

Lemma nth_res_in {A} (l : list A) n a : nth_res l n = Ok a -> In a l.
Proof. unfold nth_res. destruct (nth_error l n) eqn:E; intros E'; inversion E'; subst. eapply nth_error_In; eauto. Qed.

Lemma lift_ok {A} (r : res A) (h h' : heap) a : @lift T A r h = (h', Ok a) -> h' = h /\ r = Ok a.
Proof. unfold lift; intros E; inversion E; subst; auto. Qed.

Lemma incl_single {A} (a : A) l : In a l -> incl [a] l.
Proof. intros I x [<-|[]]; auto. Qed.

Ltac inv_bind :=
  repeat match goal with
  | H : mbind _ _ _ = (_, Ok _) |- _ =>
      let h1 := fresh "h" in let a := fresh "a" in let E := fresh "E" in
      apply mbind_ok in H; destruct H as (h1 & a & E & H)
  | H : lift _ _ = (_, Ok _) |- _ => apply lift_ok in H; destruct H as [? H]; subst
  | H : ret _ _ = (_, Ok _) |- _ => unfold ret in H; inversion H; subst; clear H
  | H : fail _ _ = (_, Ok _) |- _ => unfold fail in H; discriminate H
  end.

Ltac ro_solve :=
  repeat first [ apply ro_ret | apply ro_fail | apply ro_lift | apply ro_gro_get | apply ro_top_get
               | apply ro_mt_get | apply ro_view_check | apply ro_visit | apply ro_residname_check
               | apply ro_match_check | (apply ro_iterM; intros) | (apply ro_mapMM; intros)
               | (apply ro_bind; [|intros]) ].

Ltac ro_clean :=
  repeat match goal with
  | H : ?m ?h = (?h1, Ok _) |- _ =>
      is_var h1; tryif constr_eq h h1 then fail else
      (let R := fresh "R" in assert (R : ro m) by (ro_solve; fail);
       apply (ro_eq _ _ _ _ R) in H as ?; subst h1; clear R)
  end.

Ltac alloc_inv :=
  repeat match goal with
  | H : gro_alloc_list _ _ = (_, Ok _) |- _ => unfold gro_alloc_list in H; inversion H; subst; clear H
  end.

Ltac nth_in :=
  repeat match goal with
  | H : nth_res _ _ = Ok _ |- _ => apply nth_res_in in H
  end.

Ltac one_fresh :=
  intros ? ?; simpl in *;
  repeat match goal with
  | I : In _ (seq _ _) |- _ => apply in_seq_bounds in I
  | I : In _ [_] |- _ => destruct I as [<-|[]]
  end; lia.
Ltac nil_incl := solve [intros ? []].

Lemma exec_result (X : handle) (o : op) (h h' : heap) k Y :
  exec X o h = (h', Ok (Some (k, Y))) -> k = op_kind o /\ result_spec h h' X k Y.
Proof.
  destruct X as [g|gs|t g|mt ts rs|insts|al]; destruct o; simpl; intros E; try discriminate E; inv_bind;
    try (unfold fail in E; discriminate E).
  - (* HG copy *)
    ro_clean. alloc_inv. simpl in E. inv_bind.
    split; [reflexivity|]. simpl. rewrite app_length; simpl. split; [|split]; try nil_incl. one_fresh.
  - (* HR copy *)
    split; [reflexivity|]. simpl. split; [|split]; try nil_incl. eapply residue_copy_fresh; eauto.
  - (* HR atoms *)
    ro_clean. alloc_inv. nth_in.
    split; [reflexivity|]. simpl. rewrite app_length. split; [|split]; try nil_incl. one_fresh.
  - (* HR index *)
    nth_in. split; [reflexivity|]. simpl. split; [|split]; try nil_incl. apply incl_single. auto.
  - (* HA copy *)
    ro_clean. alloc_inv. simpl in E. inv_bind. ro_clean.
    split; [reflexivity|]. simpl. rewrite app_length; simpl. split; [|split]; try nil_incl; try apply incl_refl.
    one_fresh.
  - (* HM copy *)
    match goal with I : mol_init _ _ _ _ = _ |- _ => apply mol_init_spec in I; destruct I as (rs' & -> & F) end.
    split; [reflexivity|]. simpl. split; [|split]; auto; apply incl_refl.
  - (* HM deep copy *)
    match goal with a : (loc * list loc)%type |- _ => destruct a as [mt' ts'] end. simpl in *.
    match goal with I : mtop_copy _ _ _ = _ |- _ => apply mtop_copy_spec in I; destruct I as (Eg & Ft & Fm) end.
    match goal with I : mol_init _ _ _ _ = _ |- _ =>
      pose proof (framed_le3 _ _ _ _ _ _ _ (framed_mol_init allp allp allp mt' ts' rs) I) as (L1 & L2 & L3);
      apply mol_init_spec in I; destruct I as (rs' & -> & F) end.
    split; [reflexivity|]. simpl. rewrite Eg in F. split; [|split]; auto.
    + eapply fresh_in_weaken; [| |exact Ft]; lia.
    + one_fresh.
  - (* HM align *)
    match goal with I : mol_init _ _ _ _ = _ |- _ => apply mol_init_spec in I; destruct I as (rs' & -> & F) end.
    split; [reflexivity|]. simpl. split; [|split]; auto; apply incl_refl.
  - (* HM atoms *)
    ro_clean. alloc_inv. nth_in.
    split; [reflexivity|]. simpl. rewrite app_length. split; [|split]; try nil_incl.
    + one_fresh.
    + apply incl_single. auto.
  - (* HM index *)
    ro_clean. nth_in.
    split; [reflexivity|]. simpl. split; [|split]; try nil_incl; apply incl_single; auto.
  - (* HM iter *)
    ro_clean. nth_in.
    split; [reflexivity|]. simpl. split; [|split]; try nil_incl; apply incl_single; auto.
  - (* HM residue view *)
    nth_in. split; [reflexivity|]. simpl. split; [|split]; try nil_incl.
    intros ? Hl. apply in_concat. eexists. split; eauto.
  - (* HM set resids: no handle returned *)
    destruct zs; [unfold fail in E; discriminate E|].
    destruct (negb _); [unfold fail in E; discriminate E|]. inv_bind.
  - destruct ss; [unfold fail in E; discriminate E|].
    destruct (negb _); [unfold fail in E; discriminate E|]. inv_bind.
  - (* HS hand-out *)
    match goal with a : (loc * list loc * list (list (grocell T)))%type |- _ => destruct a as [[mt ts] recs] end.
    simpl in *. nth_in.
    match goal with I : mapMM _ recs _ = _ |- _ =>
      assert (F0 : framed allp allp allp
               (mapMM (fun cs => mbind (gro_alloc_list cs) (fun gs => mbind (residname_check cs) (fun _ => ret gs))) recs))
        by (apply framed_mapMM; intros; apply framed_bind; [apply framed_gro_alloc_list|]; intros;
            apply framed_bind; [apply framed_residname_check | intros; apply framed_ret]);
      pose proof (framed_le3 _ _ _ _ _ _ _ F0 I) as (L1 & _) end.
    match goal with I : mol_init _ _ _ _ = _ |- _ => apply mol_init_spec in I; destruct I as (rs' & -> & F) end.
    split; [reflexivity|]. simpl. split; [|split].
    + eapply fresh_in_weaken; [| |exact F]; lia.
    + intros ? Hl. apply in_concat. exists ts. split; auto.
      apply in_map_iff. exists (mt, ts, recs). split; auto.
    + apply incl_single. apply in_map_iff. exists (mt, ts, recs). split; auto.
Qed.

Ltac splits := repeat match goal with |- _ /\ _ => split end.

(* copy-like operations that succeed do hand back a handle *)
Lemma exec_copylike_some (X : handle) (o : op) (h h' : heap) r :
  op_kind o <> NewView -> exec X o h = (h', Ok r) -> exists Y, r = Some (op_kind o, Y).
Proof.
  intros Hk E. destruct r as [[k Y]|].
  - apply exec_result in E. destruct E as [-> _]. eauto.
  - exfalso. destruct X as [g|gs|t g|mt ts rs|insts|al]; destruct o; simpl in *; try congruence;
      try (unfold fail in E; discriminate E); inv_bind; try (unfold fail in E; discriminate E).
    + alloc_inv. simpl in E. inv_bind.
    + alloc_inv. simpl in E. inv_bind.
Qed.

(* ------------------------------------------------------------------ families *)
Definition valid (h : heap) (X : handle) : Prop :=
  (forall l, In l (gro_locs X) -> l < length (hgro h)) /\
  (forall l, In l (top_locs X) -> l < length (htop h)) /\
  (forall l, In l (mt_locs X) -> l < length (hmt h)).

Definition disj (a b : list loc) : Prop := forall l, In l a -> In l b -> False.

Lemma disj_sym a b : disj a b -> disj b a.
Proof. intros D l Ha Hb; eapply D; eauto. Qed.
Lemma disj_incl a a' b : incl a' a -> disj a b -> disj a' b.
Proof. intros I D l Ha Hb; eapply D; eauto. Qed.
Lemma disj_fresh n n' a b : fresh_in n n' a -> (forall l, In l b -> l < n) -> disj a b.
Proof. intros F V l Ha Hb. specialize (F l Ha). specialize (V l Hb). lia. Qed.

Definition wf (h : heap) (fam : family) : Prop :=
  (forall i g tg X, nth_error fam i = Some (g, tg, X) -> valid h X /\ g < length fam /\ tg < length fam) /\
  (forall i j gi ti Xi gj tj Xj,
     nth_error fam i = Some (gi, ti, Xi) -> nth_error fam j = Some (gj, tj, Xj) ->
     (gi <> gj -> disj (gro_locs Xi) (gro_locs Xj)) /\
     (ti <> tj -> disj (top_locs Xi) (top_locs Xj) /\ disj (mt_locs Xi) (mt_locs Xj))).

Lemma valid_le3 h h' X : le3 h h' -> valid h X -> valid h' X.
Proof.
  intros (a & b & c) (v1 & v2 & v3). unfold valid; splits; intros l Hl;
    [specialize (v1 l Hl) | specialize (v2 l Hl) | specialize (v3 l Hl)]; lia.
Qed.

Lemma result_valid h h' X k Y : le3 h h' -> valid h X -> result_spec h h' X k Y -> valid h' Y.
Proof.
  intros L V R. pose proof (valid_le3 _ _ _ L V) as (v1 & v2 & v3).
  destruct k; simpl in R; destruct R as (r1 & r2 & r3); unfold valid; splits; intros l Hl; auto;
    try (apply r1 in Hl; lia); try (apply r2 in Hl; lia); try (apply r3 in Hl; lia).
Qed.

Lemma nth_error_snoc {A} (l : list A) a i x :
  nth_error (l ++ [a]) i = Some x -> nth_error l i = Some x \/ (i = length l /\ x = a).
Proof.
  intros E. destruct (Nat.lt_ge_cases i (length l)) as [L|L].
  - rewrite nth_error_app1 in E by auto. auto.
  - rewrite nth_error_app2 in E by auto. destruct (i - length l) as [|d] eqn:D; simpl in E.
    + inversion E; subst. right; split; auto; lia.
    + destruct d; discriminate.
Qed.

Lemma exec_le3 (X : handle) o h h' r : exec X o h = (h', r) -> le3 h h'.
Proof. intros E. eapply framed_le3; [apply (exec_framed X o) | exact E]. Qed.

Lemma step_plain_wf h fam ko h' fam' r : wf h fam -> step_plain (h, fam) ko = ((h', fam'), r) -> wf h' fam'.
Proof.
  intros [W1 W2]. unfold step_plain.
  destruct (nth_error fam (fst ko)) as [[[g tg] X]|] eqn:EN.
  2:{ intros E; inversion E; subst; split; auto. }
  destruct (exec X (snd ko) h) as [h1 [[[kind Y]|]|e]] eqn:EX; intros E; inversion E; subst; clear E;
    pose proof (exec_le3 _ _ _ _ _ EX) as L.
  2,3: split; [intros i g' tg' X' EN'; destruct (W1 _ _ _ _ EN') as (V & a & b); splits; auto;
                eapply valid_le3; eauto | exact W2].
  destruct (W1 _ _ _ _ EN) as (VX & gl & tgl).
  apply exec_result in EX. destruct EX as [-> RS].
  pose proof (result_valid _ _ _ _ _ L VX RS) as VY.
  set (n := length fam) in *.
  set (e := match op_kind (snd ko) with NewView => (g, tg, Y) | NewCopy => (n, tg, Y) | NewDeep => (n, n, Y) end).
  assert (Ee : exists ge te, e = (ge, te, Y) /\ ge <= n /\ te <= n /\
                 (ge <> g -> ge = n /\ fresh_in (length (hgro h)) (length (hgro h')) (gro_locs Y)) /\
                 (ge = g -> incl (gro_locs Y) (gro_locs X)) /\
                 (te <> tg -> te = n /\ fresh_in (length (htop h)) (length (htop h')) (top_locs Y) /\
                                      fresh_in (length (hmt h)) (length (hmt h')) (mt_locs Y)) /\
                 (te = tg -> incl (top_locs Y) (top_locs X) /\ incl (mt_locs Y) (mt_locs X))).
  { unfold e. destruct (op_kind (snd ko)); simpl in RS; destruct RS as (r1 & r2 & r3).
    - exists g, tg. splits; auto; try lia; try congruence.
    - exists n, tg. splits; auto; try lia; try congruence; try (intros ->; lia).
    - exists n, n. splits; auto; try lia; try congruence; try (intros ->; lia). }
  destruct Ee as (ge & te & -> & gle & tle & Gne & Geq & Tne & Teq). subst n.
  split.
  - intros i g' tg' X' EN'. apply nth_error_snoc in EN'. rewrite app_length; simpl. destruct EN' as [EN'|[-> EN']].
    + destruct (W1 _ _ _ _ EN') as (V & a & b). splits; try lia. eapply valid_le3; eauto.
    + inversion EN'; subst. splits; auto; lia.
  - assert (NewOld : forall j gj tj Xj, nth_error fam j = Some (gj, tj, Xj) ->
              (ge <> gj -> disj (gro_locs Y) (gro_locs Xj)) /\
              (te <> tj -> disj (top_locs Y) (top_locs Xj) /\ disj (mt_locs Y) (mt_locs Xj))).
    { intros j gj tj Xj ENj. destruct (W1 _ _ _ _ ENj) as ((v1 & v2 & v3) & a & b).
      destruct (W2 _ _ _ _ _ _ _ _ EN ENj) as (D1 & D2). split.
      - intros Hne. destruct (Nat.eq_dec ge g) as [->|Hg].
        + eapply disj_incl; [apply Geq; auto | apply D1; auto].
        + destruct (Gne Hg) as (_ & F). eapply disj_fresh; eauto.
      - intros Hne. destruct (Nat.eq_dec te tg) as [->|Ht].
        + destruct (Teq eq_refl) as (I1 & I2). destruct (D2 Hne) as (D21 & D22).
          split; eapply disj_incl; eauto.
        + destruct (Tne Ht) as (_ & F1 & F2). split; eapply disj_fresh; eauto. }
    intros i j gi ti Xi gj tj Xj ENi ENj.
    apply nth_error_snoc in ENi. apply nth_error_snoc in ENj.
    destruct ENi as [ENi|[-> ENi]]; destruct ENj as [ENj|[-> ENj]].
    + eapply W2; eauto.
    + inversion ENj; subst. destruct (NewOld _ _ _ _ ENi) as (D1 & D2). split.
      * intros Hne. apply disj_sym. apply D1. congruence.
      * intros Hne. destruct D2 as (D21 & D22); [congruence|]. split; apply disj_sym; auto.
    + inversion ENi; subst. eapply NewOld; eauto.
    + inversion ENi; inversion ENj; subst. split; intros; congruence.
Qed.

(* ------------------------------------------------------------------ one step leaves other groups alone *)
Definition same_on {A} (s s' : list A) (ls : list loc) : Prop :=
  forall l, In l ls -> nth_error s' l = nth_error s l.

Lemma step_plain_keeps_entry h fam ko h' fam' r i e :
  step_plain (h, fam) ko = ((h', fam'), r) -> nth_error fam i = Some e -> nth_error fam' i = Some e.
Proof.
  unfold step_plain. destruct (nth_error fam (fst ko)) as [[[g tg] X]|].
  2:{ intros E; inversion E; subst; auto. }
  destruct (exec X (snd ko) h) as [h1 [[[kind Y]|]|err]]; intros E; inversion E; subst; auto.
  intros EN. rewrite nth_error_app1; auto. eapply nth_error_lt; eauto.
Qed.

Lemma step_plain_frame h fam k o h' fam' r i g tg X :
  wf h fam -> nth_error fam i = Some (g, tg, X) -> step_plain (h, fam) (k, o) = ((h', fam'), r) ->
  (forall gk tk Xk, nth_error fam k = Some (gk, tk, Xk) -> gk <> g) ->
  same_on (hgro h) (hgro h') (gro_locs X).
Proof.
  intros [W1 W2] EN ES Hav. unfold step_plain in ES. simpl in ES.
  destruct (nth_error fam k) as [[[gk tk] Xk]|] eqn:ENk.
  2:{ inversion ES; subst. intros l _; reflexivity. }
  specialize (Hav _ _ _ eq_refl).
  destruct (W1 _ _ _ _ EN) as ((v1 & _) & _).
  destruct (W2 _ _ _ _ _ _ _ _ ENk EN) as (D & _). specialize (D Hav).
  pose proof (exec_framed Xk o h) as (_ & _ & _ & F & _).
  destruct (exec Xk o h) as [h1 [[[kind Y]|]|err]] eqn:EX; inversion ES; subst; simpl in F;
    intros l Hl; apply F; auto; intros Hin; eapply D; eauto.
Qed.

Lemma step_plain_frame_top h fam k o h' fam' r i g tg X :
  wf h fam -> nth_error fam i = Some (g, tg, X) -> step_plain (h, fam) (k, o) = ((h', fam'), r) ->
  (forall gk tk Xk, nth_error fam k = Some (gk, tk, Xk) -> tk <> tg) ->
  same_on (htop h) (htop h') (top_locs X) /\ same_on (hmt h) (hmt h') (mt_locs X).
Proof.
  intros [W1 W2] EN ES Hav. unfold step_plain in ES. simpl in ES.
  destruct (nth_error fam k) as [[[gk tk] Xk]|] eqn:ENk.
  2:{ inversion ES; subst. split; intros l _; reflexivity. }
  specialize (Hav _ _ _ eq_refl).
  destruct (W1 _ _ _ _ EN) as ((_ & v2 & v3) & _).
  destruct (W2 _ _ _ _ _ _ _ _ ENk EN) as (_ & D). destruct (D Hav) as (D1 & D2).
  pose proof (exec_framed Xk o h) as (_ & _ & _ & _ & F1 & F2).
  destruct (exec Xk o h) as [h1 [[[kind Y]|]|err]] eqn:EX; inversion ES; subst; simpl in F1, F2;
    split; intros l Hl; first [apply F1 | apply F2]; auto; intros Hin;
    first [eapply D1; solve [eauto] | eapply D2; solve [eauto]].
Qed.

(* ------------------------------------------------------------------ Alignment setters *)
Lemma ro_ali_get l : ro (@ali_get T l). Proof. intros h; reflexivity. Qed.
Lemma ro_eq_loop la : forall lb, ro (@eq_loop T la lb).
Proof.
  induction la as [|[ta ga] ra IH]; intros lb; simpl; [apply ro_ret|].
  destruct lb as [|[tb gb] rb]; [apply ro_ret|].
  apply ro_bind; [apply ro_view_check|]; intros _. apply ro_bind; [apply ro_view_check|]; intros _.
  apply ro_bind; [apply ro_gro_get|]; intros. apply ro_bind; [apply ro_gro_get|]; intros.
  apply ro_bind; [apply ro_top_get|]; intros. apply ro_bind; [apply ro_top_get|]; intros.
  destruct (atom_eqb _ _ _ _); [apply IH | apply ro_ret].
Qed.
Lemma ro_mol_eq A B : ro (@mol_eq T A B).
Proof.
  unfold mol_eq. apply ro_bind; [apply ro_mt_get|]; intros. apply ro_bind; [apply ro_mt_get|]; intros.
  destruct (negb _); [apply ro_ret|]. destruct (negb _); [apply ro_ret|]. apply ro_eq_loop.
Qed.

Lemma ali_set_ok a c (h h' : heap) u : ali_set a c h = (h', Ok u) ->
  hgro h' = hgro h /\ htop h' = htop h /\ hmt h' = hmt h.
Proof.
  unfold ali_set. destruct (nth_error (hali h) a); intros E; inversion E; subst; simpl; auto.
Qed.

(* what `ali.start = m` stores and hands back: a molecule on m's topology with freshly allocated
   coordinate atoms - in every branch that does not raise *)
Lemma ali_assign_spec a side (m : mol) (h h' : heap) Y :
  ali_assign a side m h = (h', Ok Y) ->
  exists rs', Y = HM (fst (fst m)) (snd (fst m)) rs' /\
              fresh_in (length (hgro h)) (length (hgro h')) (concat rs').
Proof.
  unfold ali_assign. intros E.
  apply mbind_ok in E. destruct E as (h1 & c & E1 & E). apply ro_eq in E1; [|apply ro_ali_get]. subst h1.
  apply mbind_ok in E. destruct E as (h1 & ok & E1 & E).
  assert (h1 = h).
  { destruct (side_get side c); [destruct (side_get (negb side) c)|];
      (eapply ro_eq; [|exact E1]); first [apply ro_mol_eq | apply ro_ret]. }
  subst h1. destruct ok; [|unfold fail in E; discriminate E].
  apply mbind_ok in E. destruct E as (h2 & Y' & E2 & E).
  apply mol_init_spec in E2. destruct E2 as (rs' & -> & F).
  apply mbind_ok in E. destruct E as (h3 & u & E3 & E). inversion E; subst; clear E.
  apply ali_set_ok in E3. destruct E3 as (Eg & _). rewrite Eg. eauto.
Qed.

Lemma wf_le3 h h' fam : wf h fam -> le3 h h' -> wf h' fam.
Proof.
  intros [W1 W2] L. split; auto.
  intros i g tg X EN. destruct (W1 _ _ _ _ EN) as (V & a & b). splits; auto. eapply valid_le3; eauto.
Qed.

(* appending a handle with fresh coordinate atoms that shares the topology of an existing entry *)
Lemma wf_push_copy h h' fam j gj tj Xj (Y : handle) :
  wf h fam -> le3 h h' -> nth_error fam j = Some (gj, tj, Xj) -> valid h' Y ->
  fresh_in (length (hgro h)) (length (hgro h')) (gro_locs Y) ->
  incl (top_locs Y) (top_locs Xj) -> incl (mt_locs Y) (mt_locs Xj) ->
  wf h' (fam ++ [(length fam, tj, Y)]).
Proof.
  intros [W1 W2] L ENj VY F I1 I2.
  destruct (W1 _ _ _ _ ENj) as (_ & _ & tjl).
  assert (NewOld : forall i gi ti Xi, nth_error fam i = Some (gi, ti, Xi) ->
            disj (gro_locs Y) (gro_locs Xi) /\
            (tj <> ti -> disj (top_locs Y) (top_locs Xi) /\ disj (mt_locs Y) (mt_locs Xi))).
  { intros i gi ti Xi ENi. destruct (W1 _ _ _ _ ENi) as ((v1 & _) & _). split.
    - eapply disj_fresh; eauto.
    - intros Hne. destruct (W2 _ _ _ _ _ _ _ _ ENj ENi) as (_ & D). destruct (D Hne) as (D1 & D2).
      split; eapply disj_incl; eauto. }
  split.
  - intros i g' tg' X' EN'. apply nth_error_snoc in EN'. rewrite app_length; simpl. destruct EN' as [EN'|[-> EN']].
    + destruct (W1 _ _ _ _ EN') as (V & a & b). splits; try lia. eapply valid_le3; eauto.
    + inversion EN'; subst. splits; auto; lia.
  - intros i i' gi ti Xi gi' ti' Xi' ENi ENi'.
    apply nth_error_snoc in ENi. apply nth_error_snoc in ENi'.
    destruct ENi as [ENi|[-> ENi]]; destruct ENi' as [ENi'|[-> ENi']].
    + eapply W2; eauto.
    + inversion ENi'; subst. destruct (NewOld _ _ _ _ ENi) as (D1 & D2). split.
      * intros _. apply disj_sym. auto.
      * intros Hne. destruct D2 as (D21 & D22); [congruence|]. split; apply disj_sym; auto.
    + inversion ENi; subst. destruct (NewOld _ _ _ _ ENi') as (D1 & D2). split; auto.
    + inversion ENi; inversion ENi'; subst. split; intros; congruence.
Qed.

Lemma step_ali_wf (h : heap) (fam : family) k side oj h' fam' r :
  wf h fam -> step_ali (h, fam) k side oj = ((h', fam'), r) -> wf h' fam'.
Proof.
  intros W. unfold step_ali.
  destruct (nth_error fam k) as [[[g tg] X]|] eqn:EN; [|intros E; inversion E; subst; auto].
  destruct X; try (intros E; inversion E; subst; auto; fail).
  destruct oj as [j|].
  - destruct (nth_error fam j) as [[[gj tj] Xj]|] eqn:ENj; [|intros E; inversion E; subst; auto].
    destruct Xj as [| | |mt ts rs| |]; try (intros E; inversion E; subst; auto; fail).
    destruct (ali_assign a side (mt, ts, rs) h) as [h1 [Y|e]] eqn:EA; intros E; inversion E; subst; clear E;
      pose proof (framed_le3 _ _ _ _ _ _ _ (framed_ali_assign allp allp allp a side (mt, ts, rs)) EA) as L.
    + apply ali_assign_spec in EA. destruct EA as (rs' & -> & F). simpl in *.
      destruct W as [W1 W2]. destruct (W1 _ _ _ _ ENj) as ((_ & v2 & v3) & _).
      eapply wf_push_copy; eauto; try apply incl_refl; [split; auto|].
      unfold valid; simpl. destruct L as (l1 & l2 & l3). splits.
      * intros l Hl. apply F in Hl. lia.
      * intros l Hl. apply v2 in Hl. lia.
      * intros l Hl. apply v3 in Hl. lia.
    + eapply wf_le3; eauto.
  - destruct (ali_clear a side h) as [h1 r1] eqn:EC. intros E; inversion E; subst; clear E.
    eapply wf_le3; eauto. eapply framed_le3; [apply (framed_ali_clear allp allp allp a side) | exact EC].
Qed.

Lemma step_ali_keeps_entry (h : heap) (fam : family) k side oj h' fam' r i e :
  step_ali (h, fam) k side oj = ((h', fam'), r) -> nth_error fam i = Some e -> nth_error fam' i = Some e.
Proof.
  unfold step_ali.
  destruct (nth_error fam k) as [[[g tg] X]|]; [|intros E; inversion E; subst; auto].
  destruct X; try (intros E; inversion E; subst; auto; fail).
  destruct oj as [j|].
  - destruct (nth_error fam j) as [[[gj tj] Xj]|]; [|intros E; inversion E; subst; auto].
    destruct Xj as [| | |mt ts rs| |]; try (intros E; inversion E; subst; auto; fail).
    destruct (ali_assign a side (mt, ts, rs) h) as [h1 [Y|err]]; intros E; inversion E; subst; auto.
    intros EN. rewrite nth_error_app1; auto. eapply nth_error_lt; eauto.
  - destruct (ali_clear a side h) as [h1 r1]. intros E; inversion E; subst; auto.
Qed.

Definition nonep : loc -> Prop := fun _ => False.

(* an assignment to an Alignment end changes no coordinate atom, topology atom or name cell that existed *)
Lemma step_ali_ext (h : heap) (fam : family) k side oj h' fam' r :
  step_ali (h, fam) k side oj = ((h', fam'), r) -> ext nonep nonep nonep h h'.
Proof.
  unfold step_ali.
  destruct (nth_error fam k) as [[[g tg] X]|]; [|intros E; inversion E; subst; apply ext_refl].
  destruct X; try (intros E; inversion E; subst; apply ext_refl; fail).
  destruct oj as [j|].
  - destruct (nth_error fam j) as [[[gj tj] Xj]|]; [|intros E; inversion E; subst; apply ext_refl].
    destruct Xj as [| | |mt ts rs| |]; try (intros E; inversion E; subst; apply ext_refl; fail).
    pose proof (framed_ali_assign nonep nonep nonep a side (mt, ts, rs) h) as F.
    destruct (ali_assign a side (mt, ts, rs) h) as [h1 [Y|err]]; intros E; inversion E; subst; exact F.
  - pose proof (framed_ali_clear nonep nonep nonep a side h) as F.
    destruct (ali_clear a side h) as [h1 r1]. intros E; inversion E; subst; exact F.
Qed.

(* ------------------------------------------------------------------ copy(new_residues) / deep_copy(new_residues) *)
Lemma graft_spec deep mt ts (src : handle) mode i (h h' : heap) Y :
  graft deep mt ts src mode i h = (h', Ok Y) ->
  exists mt' ts' rs', Y = HM mt' ts' rs' /\
    fresh_in (length (hgro h)) (length (hgro h')) (concat rs') /\
    (if deep then fresh_in (length (htop h)) (length (htop h')) ts' /\ length (hmt h) <= mt' < length (hmt h')
     else mt' = mt /\ ts' = ts).
Proof.
  unfold graft. intros E.
  apply mbind_ok in E. destruct E as (h1 & rs & E1 & E).
  pose proof (framed_le3 _ _ _ _ _ _ _ (framed_graft_residues allp allp allp src mode i) E1) as (L1 & L2 & L3).
  destruct deep.
  - apply mbind_ok in E. destruct E as (h2 & [mt' ts'] & E2 & E). simpl in E.
    apply mtop_copy_spec in E2. destruct E2 as (Eg & Ft & Fm).
    pose proof (framed_le3 _ _ _ _ _ _ _ (framed_mol_init allp allp allp mt' ts' rs) E) as (M1 & M2 & M3).
    apply mol_init_spec in E. destruct E as (rs' & -> & F).
    exists mt', ts', rs'. splits; auto.
    + eapply fresh_in_weaken; [| |exact F]; try lia. rewrite Eg. lia.
    + eapply fresh_in_weaken; [| |exact Ft]; lia.
    + lia.
    + lia.
  - apply mol_init_spec in E. destruct E as (rs' & -> & F).
    exists mt, ts, rs'. splits; auto. eapply fresh_in_weaken; [| |exact F]; lia.
Qed.

(* appending a handle all of whose cells are freshly allocated (a deep copy) *)
Lemma wf_push_fresh h h' fam (Y : handle) :
  wf h fam -> le3 h h' -> valid h' Y ->
  fresh_in (length (hgro h)) (length (hgro h')) (gro_locs Y) ->
  fresh_in (length (htop h)) (length (htop h')) (top_locs Y) ->
  fresh_in (length (hmt h)) (length (hmt h')) (mt_locs Y) ->
  wf h' (fam ++ [(length fam, length fam, Y)]).
Proof.
  intros [W1 W2] L VY F1 F2 F3.
  assert (NewOld : forall i gi ti Xi, nth_error fam i = Some (gi, ti, Xi) ->
            disj (gro_locs Y) (gro_locs Xi) /\ disj (top_locs Y) (top_locs Xi) /\ disj (mt_locs Y) (mt_locs Xi)).
  { intros i gi ti Xi ENi. destruct (W1 _ _ _ _ ENi) as ((v1 & v2 & v3) & _).
    splits; eapply disj_fresh; eauto. }
  split.
  - intros i g' tg' X' EN'. apply nth_error_snoc in EN'. rewrite app_length; simpl. destruct EN' as [EN'|[-> EN']].
    + destruct (W1 _ _ _ _ EN') as (V & a & b). splits; try lia. eapply valid_le3; eauto.
    + inversion EN'; subst. splits; auto; lia.
  - intros i i' gi ti Xi gi' ti' Xi' ENi ENi'.
    apply nth_error_snoc in ENi. apply nth_error_snoc in ENi'.
    destruct ENi as [ENi|[-> ENi]]; destruct ENi' as [ENi'|[-> ENi']].
    + eapply W2; eauto.
    + inversion ENi'; subst. destruct (NewOld _ _ _ _ ENi) as (D1 & D2 & D3).
      split; [intros _; apply disj_sym; auto | intros _; split; apply disj_sym; auto].
    + inversion ENi; subst. destruct (NewOld _ _ _ _ ENi') as (D1 & D2 & D3). split; auto.
    + inversion ENi; inversion ENi'; subst. split; intros; congruence.
Qed.

Lemma step_graft_wf (h : heap) (fam : family) k deep mode j i h' fam' r :
  wf h fam -> step_graft (h, fam) k deep mode j i = ((h', fam'), r) -> wf h' fam'.
Proof.
  intros W. unfold step_graft.
  destruct (nth_error fam k) as [[[g tg] X]|] eqn:EN; [|intros E; inversion E; subst; auto].
  destruct X as [| | |mt ts rs| |]; try (intros E; inversion E; subst; auto; fail).
  destruct (nth_error fam j) as [[[gj tj] src]|] eqn:ENj; [|intros E; inversion E; subst; auto].
  destruct (graft deep mt ts src mode i h) as [h1 [Y|e]] eqn:EG; intros E; inversion E; subst; clear E;
    pose proof (framed_le3 _ _ _ _ _ _ _ (framed_graft allp allp allp deep mt ts src mode i) EG) as L.
  2: eapply wf_le3; eauto.
  apply graft_spec in EG. destruct EG as (mt' & ts' & rs' & -> & F & D).
  pose proof W as [W1 _]. destruct (W1 _ _ _ _ EN) as ((_ & v2 & v3) & _). simpl in v2, v3.
  destruct L as (l1 & l2 & l3).
  destruct deep.
  - destruct D as (Ft & Fm). eapply wf_push_fresh; eauto; simpl; auto.
    + split; auto.
    + unfold valid; simpl. splits.
      * intros l Hl. apply F in Hl. lia.
      * intros l Hl. apply Ft in Hl. lia.
      * intros l [<-|[]]. lia.
    + intros l [<-|[]]. lia.
  - destruct D as (-> & ->). eapply wf_push_copy; eauto; simpl; try apply incl_refl.
    + split; auto.
    + unfold valid; simpl. splits.
      * intros l Hl. apply F in Hl. lia.
      * intros l Hl. apply v2 in Hl. lia.
      * intros l Hl. apply v3 in Hl. lia.
Qed.

Lemma step_graft_keeps_entry (h : heap) (fam : family) k deep mode j i h' fam' r n e :
  step_graft (h, fam) k deep mode j i = ((h', fam'), r) -> nth_error fam n = Some e -> nth_error fam' n = Some e.
Proof.
  unfold step_graft.
  destruct (nth_error fam k) as [[[g tg] X]|]; [|intros E; inversion E; subst; auto].
  destruct X as [| | |mt ts rs| |]; try (intros E; inversion E; subst; auto; fail).
  destruct (nth_error fam j) as [[[gj tj] src]|]; [|intros E; inversion E; subst; auto].
  destruct (graft deep mt ts src mode i h) as [h1 [Y|err]]; intros E; inversion E; subst; auto.
  intros EN. rewrite nth_error_app1; auto. eapply nth_error_lt; eauto.
Qed.

(* grafting writes no coordinate atom, topology atom or name cell that existed: the supplier's residues are only read *)
Lemma step_graft_ext (h : heap) (fam : family) k deep mode j i h' fam' r :
  step_graft (h, fam) k deep mode j i = ((h', fam'), r) -> ext nonep nonep nonep h h'.
Proof.
  unfold step_graft.
  destruct (nth_error fam k) as [[[g tg] X]|]; [|intros E; inversion E; subst; apply ext_refl].
  destruct X as [| | |mt ts rs| |]; try (intros E; inversion E; subst; apply ext_refl; fail).
  destruct (nth_error fam j) as [[[gj tj] src]|]; [|intros E; inversion E; subst; apply ext_refl].
  pose proof (framed_graft nonep nonep nonep deep mt ts src mode i h) as F.
  destruct (graft deep mt ts src mode i h) as [h1 [Y|err]]; intros E; inversion E; subst; exact F.
Qed.

(* ------------------------------------------------------------------ the two kinds of step together *)
Lemma step_cases (st : heap * family) ko :
  (exists side oj, snd ko = OAliSet side oj /\ step st ko = step_ali st (fst ko) side oj) \/
  (exists deep mode j i, snd ko = OCopyWith deep mode j i /\ step st ko = step_graft st (fst ko) deep mode j i) \/
  step st ko = step_plain st ko.
Proof. unfold step. destruct (snd ko); auto. left; eauto. right; left; eauto 8. Qed.

Lemma step_wf h fam ko h' fam' r : wf h fam -> step (h, fam) ko = ((h', fam'), r) -> wf h' fam'.
Proof.
  intros W E. destruct (step_cases (h, fam) ko) as [(side & oj & _ & Es)|[(dp & md & jj & ii & _ & Es)|Es]]; rewrite Es in E.
  - eapply step_ali_wf; eauto.
  - eapply step_graft_wf; eauto.
  - eapply step_plain_wf; eauto.
Qed.

Lemma step_keeps_entry h fam ko h' fam' r i e :
  step (h, fam) ko = ((h', fam'), r) -> nth_error fam i = Some e -> nth_error fam' i = Some e.
Proof.
  intros E. destruct (step_cases (h, fam) ko) as [(side & oj & _ & Es)|[(dp & md & jj & ii & _ & Es)|Es]]; rewrite Es in E.
  - eapply step_ali_keeps_entry; eauto.
  - eapply step_graft_keeps_entry; eauto.
  - eapply step_plain_keeps_entry; eauto.
Qed.

Lemma step_frame h fam k o h' fam' r i g tg X :
  wf h fam -> nth_error fam i = Some (g, tg, X) -> step (h, fam) (k, o) = ((h', fam'), r) ->
  (forall gk tk Xk, nth_error fam k = Some (gk, tk, Xk) -> gk <> g) ->
  same_on (hgro h) (hgro h') (gro_locs X).
Proof.
  intros W EN E Hav. destruct (step_cases (h, fam) (k, o)) as [(side & oj & _ & Es)|[(dp & md & jj & ii & _ & Es)|Es]]; rewrite Es in E.
  - apply step_ali_ext in E. destruct E as (_ & _ & _ & F & _).
    destruct W as [W1 _]. destruct (W1 _ _ _ _ EN) as ((v1 & _) & _).
    intros l Hl. apply F; auto.
  - apply step_graft_ext in E. destruct E as (_ & _ & _ & F & _).
    destruct W as [W1 _]. destruct (W1 _ _ _ _ EN) as ((v1 & _) & _).
    intros l Hl. apply F; auto.
  - eapply step_plain_frame; eauto.
Qed.

Lemma step_frame_top h fam k o h' fam' r i g tg X :
  wf h fam -> nth_error fam i = Some (g, tg, X) -> step (h, fam) (k, o) = ((h', fam'), r) ->
  (forall gk tk Xk, nth_error fam k = Some (gk, tk, Xk) -> tk <> tg) ->
  same_on (htop h) (htop h') (top_locs X) /\ same_on (hmt h) (hmt h') (mt_locs X).
Proof.
  intros W EN E Hav. destruct (step_cases (h, fam) (k, o)) as [(side & oj & _ & Es)|[(dp & md & jj & ii & _ & Es)|Es]]; rewrite Es in E.
  - apply step_ali_ext in E. destruct E as (_ & _ & _ & _ & F1 & F2).
    destruct W as [W1 _]. destruct (W1 _ _ _ _ EN) as ((_ & v2 & v3) & _).
    split; intros l Hl; [apply F1 | apply F2]; auto.
  - apply step_graft_ext in E. destruct E as (_ & _ & _ & _ & F1 & F2).
    destruct W as [W1 _]. destruct (W1 _ _ _ _ EN) as ((_ & v2 & v3) & _).
    split; intros l Hl; [apply F1 | apply F2]; auto.
  - eapply step_plain_frame_top; eauto.
Qed.

(* `ali.start = fam[j]` / `ali.end = fam[j]` that does not raise - first assignment, or re-assignment of
   an equal molecule when both ends are set - appends the stored molecule as a handle of a NEW coordinate
   group on fam[j]'s topology: the stored molecule and the molecule passed in are isolated from each
   other in both directions by `isolation` *)
Theorem ali_assign_new_group : forall (h : heap) (fam : family) k side j h1 fam1,
  wf h fam -> step (h, fam) (k, OAliSet side (Some j)) = ((h1, fam1), Ok tt) ->
  exists gj tj mt ts rs rs',
    nth_error fam j = Some (gj, tj, HM mt ts rs) /\
    fam1 = fam ++ [(length fam, tj, HM mt ts rs')] /\ wf h1 fam1 /\ length fam <> gj /\
    fresh_in (length (hgro h)) (length (hgro h1)) (concat rs').
Proof.
  intros h fam k side j h1 fam1 W ES.
  pose proof (step_wf _ _ _ _ _ _ W ES) as W1.
  unfold step in ES. simpl in ES. unfold step_ali in ES.
  destruct (nth_error fam k) as [[[g tg] X]|]; [|inversion ES].
  destruct X; try (inversion ES; fail).
  destruct (nth_error fam j) as [[[gj tj] Xj]|] eqn:ENj; [|inversion ES].
  destruct Xj as [| | |mt ts rs| |]; try (inversion ES; fail).
  destruct (ali_assign a side (mt, ts, rs) h) as [h' [Y|e]] eqn:EA; inversion ES; subst; clear ES.
  apply ali_assign_spec in EA. destruct EA as (rs' & -> & F). simpl in *.
  destruct W as [Wa _]. destruct (Wa _ _ _ _ ENj) as (_ & gl & _).
  exists gj, tj, mt, ts, rs, rs'. splits; auto. lia.
Qed.

(* `fam[k].copy(residues of fam[j])` / `.deep_copy(...)` that does not raise appends a molecule whose
   coordinate atoms are ALL freshly allocated, in a new coordinate group (a deep copy: new topology
   group too): supplier and new molecule are isolated from each other in both directions by `isolation` *)
Theorem graft_new_group : forall (h : heap) (fam : family) k deep mode j i h1 fam1,
  wf h fam -> step (h, fam) (k, OCopyWith deep mode j i) = ((h1, fam1), Ok tt) ->
  exists g tg mt ts rs mt' ts' rs' gj tj src,
    nth_error fam k = Some (g, tg, HM mt ts rs) /\ nth_error fam j = Some (gj, tj, src) /\
    fam1 = fam ++ [(length fam, (if deep then length fam else tg), HM mt' ts' rs')] /\ wf h1 fam1 /\
    length fam <> gj /\ length fam <> g /\
    fresh_in (length (hgro h)) (length (hgro h1)) (concat rs').
Proof.
  intros h fam k deep mode j i h1 fam1 W ES.
  pose proof (step_wf _ _ _ _ _ _ W ES) as W1.
  unfold step in ES. simpl in ES. unfold step_graft in ES.
  destruct (nth_error fam k) as [[[g tg] X]|] eqn:EN; [|inversion ES].
  destruct X as [| | |mt ts rs| |]; try (inversion ES; fail).
  destruct (nth_error fam j) as [[[gj tj] src]|] eqn:ENj; [|inversion ES].
  destruct (graft deep mt ts src mode i h) as [h' [Y|e]] eqn:EG; inversion ES; subst; clear ES.
  apply graft_spec in EG. destruct EG as (mt' & ts' & rs' & -> & F & _).
  destruct W as [Wa _]. destruct (Wa _ _ _ _ EN) as (_ & gl & _). destruct (Wa _ _ _ _ ENj) as (_ & gjl & _).
  exists g, tg, mt, ts, rs, mt', ts', rs', gj, tj, src. splits; auto; lia.
Qed.

(* ------------------------------------------------------------------ whole runs *)
Local Arguments step : simpl never.
Fixpoint avoids (P : nat * nat * handle -> Prop) (st : heap * family) (ops : list (nat * op)) : Prop :=
  match ops with
  | [] => True
  | ko :: rest => (forall e, nth_error (snd st) (fst ko) = Some e -> P e) /\ avoids P (fst (step st ko)) rest
  end.

Lemma run_wf ops : forall h fam, wf h fam -> wf (fst (run (h, fam) ops)) (snd (run (h, fam) ops)).
Proof.
  induction ops as [|ko rest IH]; intros h fam W; simpl; auto.
  destruct (step (h, fam) ko) as [[h1 fam1] r] eqn:ES. simpl. apply IH. eapply step_wf; eauto.
Qed.

Lemma run_isolated_gro ops : forall h fam i g tg X,
  wf h fam -> nth_error fam i = Some (g, tg, X) ->
  avoids (fun e => fst (fst e) <> g) (h, fam) ops ->
  same_on (hgro h) (hgro (fst (run (h, fam) ops))) (gro_locs X) /\
  nth_error (snd (run (h, fam) ops)) i = Some (g, tg, X).
Proof.
  induction ops as [|[k o] rest IH]; intros h fam i g tg X W EN AV; simpl.
  - split; auto. intros l _; reflexivity.
  - simpl in AV. destruct AV as (AV1 & AV2).
    destruct (step (h, fam) (k, o)) as [[h1 fam1] r] eqn:ES. simpl in *.
    pose proof (step_wf _ _ _ _ _ _ W ES) as W1.
    pose proof (step_keeps_entry _ _ _ _ _ _ _ _ ES EN) as EN1.
    assert (S1 : same_on (hgro h) (hgro h1) (gro_locs X)).
    { eapply step_frame; eauto. intros gk tk Xk ENk. apply (AV1 _ ENk). }
    destruct (IH _ _ _ _ _ _ W1 EN1 AV2) as (S2 & EN2). split; auto.
    intros l Hl. rewrite S2 by auto. apply S1; auto.
Qed.

Lemma run_isolated_top ops : forall h fam i g tg X,
  wf h fam -> nth_error fam i = Some (g, tg, X) ->
  avoids (fun e => snd (fst e) <> tg) (h, fam) ops ->
  same_on (htop h) (htop (fst (run (h, fam) ops))) (top_locs X) /\
  same_on (hmt h) (hmt (fst (run (h, fam) ops))) (mt_locs X).
Proof.
  induction ops as [|[k o] rest IH]; intros h fam i g tg X W EN AV; simpl.
  - split; intros l _; reflexivity.
  - simpl in AV. destruct AV as (AV1 & AV2).
    destruct (step (h, fam) (k, o)) as [[h1 fam1] r] eqn:ES. simpl in *.
    pose proof (step_wf _ _ _ _ _ _ W ES) as W1.
    pose proof (step_keeps_entry _ _ _ _ _ _ _ _ ES EN) as EN1.
    assert (S1 : same_on (htop h) (htop h1) (top_locs X) /\ same_on (hmt h) (hmt h1) (mt_locs X)).
    { eapply step_frame_top; eauto. intros gk tk Xk ENk. apply (AV1 _ ENk). }
    destruct S1 as (S1a & S1b).
    destruct (IH _ _ _ _ _ _ W1 EN1 AV2) as (S2a & S2b). split.
    + intros l Hl. rewrite S2a by auto. apply S1a; auto.
    + intros l Hl. rewrite S2b by auto. apply S1b; auto.
Qed.

(* ------------------------------------------------------------------ what the API reads depends on the footprint only *)
Lemma mapM_ext {A B} (f g : A -> res B) l : (forall x, In x l -> f x = g x) -> mapM f l = mapM g l.
Proof.
  induction l as [|x xs IH]; intros E; simpl; auto.
  rewrite (E x) by (left; auto). rewrite IH; auto. intros; apply E; right; auto.
Qed.

Lemma cells_same {A} (s s' : list A) ls : same_on s s' ls -> cells s' ls = cells s ls.
Proof. intros S. unfold cells. apply mapM_ext. intros l Hl. unfold nth_res. rewrite (S l Hl). reflexivity. Qed.

Lemma residues_of_in (X : handle) r l : In r (residues_of X) -> In l r -> In l (gro_locs X).
Proof.
  destruct X; simpl; intros Hr Hl.
  - destruct Hr as [<-|[]]; auto.
  - destruct Hr as [<-|[]]; auto.
  - destruct Hr as [<-|[]]; auto.
  - apply in_concat; eauto.
  - destruct Hr.
  - destruct Hr.
Qed.

Lemma first_cells_same (h h' : heap) (X : handle) :
  same_on (hgro h) (hgro h') (gro_locs X) ->
  mapM (first_cell h') (residues_of X) = mapM (first_cell h) (residues_of X).
Proof.
  intros S. apply mapM_ext. intros r Hr. unfold first_cell. destruct r as [|g r']; auto.
  unfold nth_res. rewrite (S g); auto. eapply residues_of_in; eauto. left; auto.
Qed.

Definition gro_reads_equal (h h' : heap) (X : handle) : Prop :=
  read_positions h' X = read_positions h X /\ read_velocities h' X = read_velocities h X /\
  read_ids h' X = read_ids h X /\ read_resids h' X = read_resids h X /\
  read_resnames h' X = read_resnames h X /\ read_gro_labels h' X = read_gro_labels h X.

Lemma same_gro_reads (h h' : heap) (X : handle) : same_on (hgro h) (hgro h') (gro_locs X) -> gro_reads_equal h h' X.
Proof.
  intros S. unfold gro_reads_equal, read_positions, read_velocities, read_ids, read_resids, read_resnames, read_gro_labels.
  rewrite (cells_same _ _ _ S), (first_cells_same _ _ _ S). splits; reflexivity.
Qed.

Definition top_reads_equal (h h' : heap) (X : handle) : Prop :=
  read_top h' X = read_top h X /\ read_molname h' X = read_molname h X.

Lemma same_top_reads (h h' : heap) (X : handle) :
  same_on (htop h) (htop h') (top_locs X) -> same_on (hmt h) (hmt h') (mt_locs X) -> top_reads_equal h h' X.
Proof.
  intros S1 S2. unfold top_reads_equal, read_top, read_molname.
  rewrite (cells_same _ _ _ S1), (cells_same _ _ _ S2). split; reflexivity.
Qed.

(* ------------------------------------------------------------------ the isolation theorems *)
Theorem isolation : forall (h : heap) (fam : family) i g tg (X : handle) ops,
  wf h fam -> nth_error fam i = Some (g, tg, X) ->
  avoids (fun e => fst (fst e) <> g) (h, fam) ops ->
  gro_reads_equal h (fst (run (h, fam) ops)) X /\
  nth_error (snd (run (h, fam) ops)) i = Some (g, tg, X).
Proof.
  intros h fam i g tg X ops W EN AV.
  destruct (run_isolated_gro ops _ _ _ _ _ _ W EN AV) as (S & EN'). split; auto. apply same_gro_reads; auto.
Qed.

Lemma avoids_weaken (P Q : nat * nat * handle -> Prop) ops : (forall e, P e -> Q e) ->
  forall st, avoids P st ops -> avoids Q st ops.
Proof.
  intros PQ. induction ops as [|ko rest IH]; intros st; simpl; auto.
  intros (a & b). split; auto.
Qed.

Theorem deep_isolation : forall (h : heap) (fam : family) i g tg (X : handle) ops,
  wf h fam -> nth_error fam i = Some (g, tg, X) ->
  avoids (fun e => fst (fst e) <> g /\ snd (fst e) <> tg) (h, fam) ops ->
  gro_reads_equal h (fst (run (h, fam) ops)) X /\ top_reads_equal h (fst (run (h, fam) ops)) X.
Proof.
  intros h fam i g tg X ops W EN AV. split.
  - apply (isolation h fam i g tg X ops W EN). eapply avoids_weaken; [|exact AV]. intros e (a & _); auto.
  - destruct (run_isolated_top ops _ _ _ _ _ _ W EN) as (S1 & S2).
    + eapply avoids_weaken; [|exact AV]. intros e (_ & b); auto.
    + apply same_top_reads; auto.
Qed.

(* the copy scenario spelled out: a copy-like operation that succeeds appends a handle in a new
   coordinate group; a deep copy in a new topology group too *)
Theorem copy_starts_new_group : forall (h : heap) (fam : family) i g tg (X : handle) o h1 fam1,
  wf h fam -> nth_error fam i = Some (g, tg, X) -> op_kind o <> NewView ->
  step (h, fam) (i, o) = ((h1, fam1), Ok tt) ->
  exists Y, fam1 = fam ++ [(length fam, (if match op_kind o with NewDeep => true | _ => false end then length fam else tg), Y)] /\
            wf h1 fam1 /\ length fam <> g /\
            (op_kind o = NewDeep -> length fam <> tg) /\
            fresh_in (length (hgro h)) (length (hgro h1)) (gro_locs Y).
Proof.
  intros h fam i g tg X o h1 fam1 W EN Hk ES.
  pose proof (step_wf _ _ _ _ _ _ W ES) as W1.
  destruct W as [Wa Wb]. destruct (Wa _ _ _ _ EN) as (_ & gl & tgl).
  assert (ES' : step_plain (h, fam) (i, o) = ((h1, fam1), Ok tt)).
  { destruct (step_cases (h, fam) (i, o)) as [(side & oj & Eo & _)|[(dp & md & jj & ii & Eo & _)|<-]]; auto;
      simpl in Eo; subst o; simpl in Hk; congruence. }
  clear ES. rename ES' into ES.
  unfold step_plain in ES. simpl in ES. rewrite EN in ES.
  destruct (exec X o h) as [h' [r|e]] eqn:EX; [|inversion ES].
  destruct (exec_copylike_some _ _ _ _ _ Hk EX) as (Y & ->).
  pose proof (exec_result _ _ _ _ _ _ EX) as (_ & RS).
  inversion ES; subst; clear ES. exists Y.
  destruct (op_kind o) eqn:K; try congruence; simpl in RS; destruct RS as (r1 & _);
    splits; auto; try lia; try congruence.
Qed.

End Iso.
