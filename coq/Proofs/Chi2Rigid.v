(* Invariance of the chi2 model under a common isometry of both coordinate sets (T := R). *)
From Coq Require Import Nsatz.
From GM Require Import Proofs.RTac Model.Chi2 Proofs.Chi2Lists.
Import ListNotations.
Local Open Scope R_scope.

Definition rigid (Q : M3 R) (t : V3 R) (p : V3 R) : V3 R := vadd (mvec Q p) t.
Definition orthogonal (Q : M3 R) : Prop := mmul (mtrans Q) Q = mid.

Lemma rigid_vdist2 Q t a b : orthogonal Q -> vdist2 (rigid Q t a) (rigid Q t b) = vdist2 a b.
Proof.
  unfold orthogonal, rigid.
  destruct Q as [[q11 q12 q13] [q21 q22 q23] [q31 q32 q33]], t as [t1 t2 t3], a as [a1 a2 a3], b as [b1 b2 b3].
  intros H. runfold. inversion H as [[H1 H2 H3 H4 H5 H6 H7 H8 H9]]. clear H.
  nsatz.
Qed.

Section Iso.
Variable g : V3 R -> V3 R.
Hypothesis g_iso : forall a b, vdist2 (g a) (g b) = vdist2 a b.

Definition map_calc (c : chi2_calc R) : chi2_calc R :=
  mkCalc (c_path c) (map g (c_mol1 c)) (c_restr2 c) (c_set2 c) (c_len2 c)
         (map g (c_notr c)) (map g (c_mol1_r c)) (c_kfar c) (c_fact c).

Lemma chi2_make_map fixed mobile0 restr :
  chi2_make (map g fixed) (map g mobile0) restr = rmap map_calc (chi2_make fixed mobile0 restr).
Proof.
  unfold chi2_make. rewrite !map_length.
  destruct (not_restr_mask (length fixed) (map fst restr)) as [mask|]; simpl; [|reflexivity].
  rewrite gather_map, select_map.
  destruct (gather fixed (map fst restr)) as [m1r|]; simpl; [|reflexivity].
  destruct restr as [|p rs]; [reflexivity|].
  destruct (existsb (fun b : bool => b) mask); reflexivity.
Qed.

Lemma dist_rows_map A B : dist_rows (map g A) (map g B) = dist_rows A B.
Proof.
  unfold dist_rows. rewrite map_map. apply map_ext. intros a.
  rewrite map_map. apply map_ext. intros b. apply g_iso.
Qed.

Lemma restr_contrib_map c mobile : restr_contrib (map_calc c) (map g mobile) = restr_contrib c mobile.
Proof.
  unfold restr_contrib. simpl. rewrite gather_map.
  destruct (gather mobile (c_restr2 c)) as [m2r|]; simpl; [|reflexivity].
  rewrite map2_map. rewrite (map2_ext _ vdist2) by apply g_iso. reflexivity.
Qed.

Lemma chi2_call_k_map c mobile : chi2_call_k (map_calc c) (map g mobile) = chi2_call_k c mobile.
Proof.
  unfold chi2_call_k. change (c_path (map_calc c)) with (c_path c). destruct (c_path c).
  - unfold chi2_none_k. simpl. rewrite dist_rows_map, map_length. reflexivity.
  - unfold chi2_only_k. rewrite restr_contrib_map. reflexivity.
  - unfold chi2_with_k. rewrite restr_contrib_map. simpl. rewrite dist_rows_map, map_length. reflexivity.
Qed.

Lemma chi2_eval_map fixed mobile0 restr mobile :
  chi2_eval (map g fixed) (map g mobile0) restr (map g mobile) = chi2_eval fixed mobile0 restr mobile.
Proof.
  unfold chi2_eval. rewrite chi2_make_map.
  destruct (chi2_make fixed mobile0 restr) as [c|]; simpl; [|reflexivity].
  unfold chi2_call. rewrite chi2_call_k_map. reflexivity.
Qed.
End Iso.

Lemma chi2_rigid_invariant (Q : M3 R) (t : V3 R) fixed mobile0 restr mobile : orthogonal Q ->
  chi2_eval (map (rigid Q t) fixed) (map (rigid Q t) mobile0) restr (map (rigid Q t) mobile)
  = chi2_eval fixed mobile0 restr mobile.
Proof. intros HQ. apply chi2_eval_map. intros a b. apply rigid_vdist2. assumption. Qed.
