(* The second tie (DESIGN.md section 10): the definitions GENERATED from the current source text of /repo
   (Gen/KernelsGen.v, harness/pytrans.py) equal the hand-written model definitions the property theorems
   are about, for every Scalar instance.  Re-checked at every run against what the code says now. *)
From Coq Require Import ZArith List.
From GM Require Import Base.Res Base.Scalar Base.Vec Model.Aux Model.MC Model.Pbc Model.ExchangeMap Model.Transform Gen.KernelsGen Gen.SrcConsts.
Import ListNotations.
Local Open Scope scalar_scope.

Section Eq.
Context {T : Type} `{Scalar T}.

Lemma rotation_matrix_gen_eq (axis : V3 T) (theta c s : T) :
  rotation_matrix_gen axis theta c s = rotation_matrix_cs axis c s.
Proof.
  unfold rotation_matrix_gen, rotation_matrix_cs, vnormalize, vdiv_chk.
  destruct (vnorm axis =? s0); reflexivity.
Qed.

Definition frame_tuple (F : frame T) : V3 T * V3 T * V3 T * V3 T := (f1 F, f2 F, f3 F, forig F).

Lemma calcule_base_gen_eq (p0 p1 p2 : V3 T) :
  calcule_base_gen p0 p1 p2 = rmap frame_tuple (calcule_base p0 p1 p2).
Proof.
  unfold calcule_base_gen, calcule_base, calcule_base_br, vnormalize, vdiv_chk, collinear_eps, one_half.
  destruct (vnorm (vsub p2 p0) =? s0); [reflexivity|]. cbn [bind].
  set (v1 := vdivs (vsub p2 p0) (vnorm (vsub p2 p0))).
  destruct (vnorm (vcross v1 (vsub p1 p0)) <=? sofQ 1 1000000 * vnorm (vsub p1 p0)).
  - destruct (sofQ 1 2 <=? vx v1 * vx v1 + vy v1 * vy v1).
    + destruct (ssqrt (vx v1 * vx v1 + vy v1 * vy v1) =? s0); reflexivity.
    + destruct (ssqrt (vy v1 * vy v1 + vz v1 * vz v1) =? s0); reflexivity.
  - destruct (vnorm (vcross v1 (vsub p1 p0)) =? s0); reflexivity.
Qed.

(* accept_metropolis: decision on the uniform draw u (the model takes it from the recorded stream) *)
Lemma accept_metropolis_gen_eq (P : Type) (e0 e1 u : T) (st : stream T P) :
  accept_metropolis_gen e0 e1 acceptance u
  = rmap (fun r => fst (fst r)) (@accept_metropolis T _ P e0 e1 (DRand u :: st)).
Proof.
  unfold accept_metropolis_gen, accept_metropolis, sdiv_chk.
  destruct (e1 <=? e0); [reflexivity|].
  destruct (e1 =? s0); reflexivity.
Qed.

(* the default of the keyword argument in the source text is the constant the model uses *)
Lemma accept_default_eq : accept_metropolis_gen_default_acceptance = acceptance (T := T).
Proof. reflexivity. Qed.

(* a draw is consumed exactly when the first test fails (and the division is defined) *)
Lemma accept_metropolis_draw (P : Type) (e0 e1 u : T) (st : stream T P) b ou st' :
  @accept_metropolis T _ P e0 e1 (DRand u :: st) = Ok (b, ou, st') ->
  (e1 <=? e0 = true /\ ou = None /\ st' = DRand u :: st /\ b = true) \/
  (e1 <=? e0 = false /\ ou = Some u /\ st' = st).
Proof.
  unfold accept_metropolis. destruct (e1 <=? e0).
  - intros E; inversion E; subst; left; repeat split.
  - destruct (e1 =? s0); [discriminate|]. intros E; inversion E; subst; right; repeat split.
Qed.

(* Residue.distance_to after the two centres have been taken: the model's pbc_dist *)
Lemma distance_to_gen_eq (residue c : V3 T) (box : option (M3 T)) (inv : bool) :
  distance_to_gen residue box inv c = pbc_dist (vsub residue c) box inv.
Proof.
  unfold distance_to_gen, pbc_dist, pbc_matrices, pbc_wrap, pbc_frac.
  destruct box as [bv|]; [|reflexivity].
  destruct inv; destruct (minv bv); reflexivity.
Qed.

(* ExchangeMap._proyect_point / _restore_point on the frame stored for the anchor *)
Lemma proyect_point_gen_eq (F : frame T) (p : V3 T) (s : T) :
  proyect_point_gen (forig F) (fmat F) p s = Ok (project F p s).
Proof. reflexivity. Qed.

Lemma restore_point_gen_eq (F : frame T) (c : V3 T) :
  restore_point_gen c (forig F) (fmat F) = Ok (restore F c).
Proof. reflexivity. Qed.

(* the arithmetic of the bond-restoring loop of move_mol_atom (one repositioning) *)
Lemma pull_gen_eq (p1 p2 : V3 T) (bond : T) : pull_gen p1 p2 bond = pull p1 p2 bond.
Proof.
  unfold pull_gen, pull, vdiv_chk.
  destruct (vnorm (vsub p1 p2) =? s0); reflexivity.
Qed.

End Eq.
