(* The concrete geometric core of Model/EMState.v (frames by calcule_base, nearest anchor, projection)
   satisfies the two key laws the state-machine theorems assume - for every Scalar instance. *)
From Coq Require Import String.
From Coq Require Import List ZArith Arith Bool Lia.
Import ListNotations.
From GM Require Import Base.Res Base.Scalar Base.Vec Model.Aux Model.EMState Proofs.EMStateBase.
Local Open Scope list_scope.

Lemma mapM_in {A B} (f : A -> res B) l r y :
  mapM f l = Ok r -> In y r -> exists x, In x l /\ f x = Ok y.
Proof.
  revert r; induction l as [|x l IH]; simpl; intros r H Hin.
  - inversion H; subst. contradiction.
  - destruct (f x) as [b|] eqn:E; simpl in H; [|discriminate].
    destruct (mapM f l) as [bs|] eqn:E2; simpl in H; [|discriminate]. inversion H; subst.
    destruct Hin as [<-|Hin]; [exists x; auto|].
    destruct (IH _ eq_refl Hin) as [x' [H1 H2]]. exists x'; auto.
Qed.

Lemma dict_get_in {A} (d : list (nat * A)) k v : dict_get d k = Ok v -> In k (map fst d).
Proof.
  induction d as [|[k' v'] d IH]; simpl; intros H; [discriminate|].
  destruct (Nat.eqb k' k) eqn:E; [left; apply Nat.eqb_eq; exact E|right; auto].
Qed.

Section CoreLaws.
Context {T : Type} `{Scalar T}.

Lemma c_frame_at_key g (ps : list (V3 T)) a kf : c_frame_at g ps a = Ok kf -> fst kf = a.
Proof.
  unfold c_frame_at. destruct (nth_res g a) as [l|]; simpl; [|discriminate].
  destruct (lowest2 l) as [[n1 n2]|]; [|discriminate].
  destruct (nth_res ps a); simpl; [|discriminate].
  destruct (nth_res ps n1); simpl; [|discriminate].
  destruct (nth_res ps n2); simpl; [|discriminate].
  destruct (calcule_base v v0 v1); simpl; [|discriminate].
  intros E; inversion E; reflexivity.
Qed.

Lemma c_frames_keys g (ps : list (V3 T)) frs : c_frames_of g ps = Ok frs -> map fst frs = anchors g.
Proof.
  unfold c_frames_of. destruct (Nat.ltb (length ps) 3); [discriminate|].
  generalize (anchors g) as l. intros l; revert frs; induction l as [|a l IH]; simpl; intros frs E.
  - inversion E; reflexivity.
  - destruct (c_frame_at g ps a) as [kf|] eqn:E1; simpl in E; [|discriminate].
    destruct (mapM (c_frame_at g ps) l) as [r|] eqn:E2; simpl in E; [|discriminate].
    inversion E; subst; simpl. rewrite (c_frame_at_key _ _ _ _ E1), (IH _ eq_refl). reflexivity.
Qed.

Lemma c_project_keys (s : T) rs (ps tps : list (V3 T)) ec :
  c_project_all s rs ps tps = Ok ec -> forall ac, In ac ec -> In (fst ac) (map fst rs).
Proof.
  unfold c_project_all. intros E ac Hin.
  destruct (mapM_in _ _ _ _ E Hin) as [p [_ Hp]].
  destruct (c_closest ps (map fst rs) p) as [a|]; simpl in Hp; [|discriminate].
  destruct (dict_get rs a) as [F|] eqn:Eg; simpl in Hp; [|discriminate].
  inversion Hp; subst; simpl. eapply dict_get_in; eauto.
Qed.
End CoreLaws.
