(* The writer state machine in closed form: the bytes on disk after each operation of a run
   inside the domain of C13. *)
From Coq Require Import List Ascii NArith ZArith Bool Arith Lia.
From GM Require Import Base.Res Base.StrGro Gen.SrcConsts Model.GroCodec Model.GroFile
  Proofs.GroStr Proofs.GroCodecP Proofs.GroReadP.
Import ListNotations.
Local Open Scope nat_scope.

Definition title_of (c : wconf) : bytes :=
  match c_title c with None => bs DEFAULT_COMMENT | Some t => t end.
Definition wd_of (c : wconf) : nat * nat :=
  match c_fmt c with None => (DEFAULT_POS_FIGURES, DEFAULT_POS_DECIMALS) | Some f => f end.
(* the count line while records are being written, and after close filled it in *)
Definition count0 (c : wconf) : bytes :=
  match c_natoms c with None => repeat SP NUMBER_FIGURES | Some n => fmt_Z n end.
Definition count1 (c : wconf) (k : nat) : bytes :=
  match c_natoms c with None => lpad NUMBER_FIGURES (fmt_Z (Z.of_nat k)) | Some n => fmt_Z n end.

Definition title_ok (c : wconf) : Prop :=
  match c_title c with None => True | Some t => no_nl t end.

Lemma default_title_ok : no_nl (bs DEFAULT_COMMENT).
Proof. reflexivity. Qed.

Lemma title_of_ok c : title_ok c -> no_nl (title_of c).
Proof. unfold title_ok, title_of. destruct (c_title c); [tauto|]. intros _. apply default_title_ok. Qed.

Lemma last_opt_no_nl t : t <> [] -> no_nl t -> exists ch, last_opt t = Some ch /\ Ascii.eqb ch NL = false.
Proof.
  intros Hne Hnl. unfold last_opt. destruct (rev t) as [|ch r] eqn:E.
  - apply (f_equal (@rev _)) in E. rewrite rev_involutive in E. contradiction.
  - exists ch. split; [reflexivity|].
    assert (Hin : In ch t) by (apply in_rev; rewrite E; left; reflexivity).
    unfold no_nl in Hnl. rewrite forallb_forall in Hnl. specialize (Hnl _ Hin).
    apply negb_true_iff in Hnl. exact Hnl.
Qed.
Lemma ends_nl_no_nl t : no_nl t -> ends_nl t = false.
Proof.
  intros Hnl. unfold ends_nl. destruct t as [|x t']; [reflexivity|].
  destruct (last_opt_no_nl (x :: t') ltac:(discriminate) Hnl) as (ch & Hl & Hc). rewrite Hl. exact Hc.
Qed.
Lemma drop_final_nl_no_nl t : no_nl t -> drop_final_nl t = t.
Proof.
  intros Hnl. destruct t as [|x t']; [reflexivity|].
  destruct (last_opt_no_nl (x :: t') ltac:(discriminate) Hnl) as (ch & Hl & Hc).
  unfold drop_final_nl, last_opt in *. destruct (rev (x :: t')); [discriminate|].
  inversion Hl; subst. rewrite Hc. reflexivity.
Qed.

Definition box_of (b : boxin) : list bentry :=
  match b with
  | BoxDefault => repeat bzero 9
  | BoxVec a b c => [a; bzero; bzero; bzero; b; bzero; bzero; bzero; c]
  | BoxMat m => m
  end.
Definition box_ok (b : boxin) : Prop := match b with BoxMat m => length m = 9 | _ => True end.
Lemma set_box_ok b : box_ok b -> set_box b = Ok (box_of b) /\ length (box_of b) = 9.
Proof. destruct b; simpl; intros H; [auto|auto|]. rewrite H. auto. Qed.

Lemma w_start_ok c : title_ok c -> box_ok (c_box c) ->
  w_start c = Ok (mkwstate [] 0 (title_of c) (c_natoms c) (c_fmt c) None None (box_of (c_box c)) 0 false).
Proof.
  intros Ht Hb. unfold w_start, title_of. destruct (set_box_ok _ Hb) as [E _]. rewrite E.
  unfold title_ok in Ht. destruct (c_title c) as [t|].
  - unfold set_comment. rewrite drop_final_nl_no_nl by assumption. reflexivity.
  - reflexivity.
Qed.

(* ------------------------------------------------------------------ file-object steps *)
Definition with_file (st : wstate) (f : bytes) : wstate :=
  mkwstate f (length f) (wtitle st) (wnat st) (wfmt st) (wset st) (wbsz st) (wbox st) (wcur st)
           (wclosed st).
Definition at_end (st : wstate) : Prop := wpos st = length (wf st).

Lemma fwrite_end st data : at_end st -> fwrite st data = with_file st (wf st ++ data).
Proof. unfold at_end. intros H. unfold fwrite, with_file. rewrite H, write_at_end, app_length. reflexivity. Qed.
Lemma at_end_with_file st f : at_end (with_file st f).
Proof. reflexivity. Qed.

Lemma w_header_ok st title : at_end st -> wf st = [] -> wtitle st = title -> no_nl title ->
  w_header st = Ok (with_file st (title ++ [NL] ++
                      match wnat st with None => repeat SP NUMBER_FIGURES | Some n => fmt_Z n end ++ [NL])).
Proof.
  intros He Hf Ht Hnl. unfold w_header. rewrite Ht. rewrite (ends_nl_no_nl title Hnl).
  rewrite (fwrite_end st) by assumption. rewrite Hf. cbn [app].
  rewrite (fwrite_end (with_file st title)) by apply at_end_with_file.
  cbn [with_file wf wtitle wnat wfmt wset wbsz wbox wcur wclosed].
  destruct (wnat st); rewrite fwrite_end by reflexivity;
    cbn [with_file wf wtitle wnat wfmt wset wbsz wbox wcur wclosed]; rewrite <- !app_assoc; reflexivity.
Qed.

Lemma w_record_ok st s r : at_end st -> has_vel r = s_vel s -> count_reached st = false ->
  w_record st s r = Ok (set_cur (with_file st (wf st ++ line_of (s_w s) (s_d s) r ++ [NL])) (S (wcur st))).
Proof.
  intros He Hv Hg. unfold w_record. rewrite Hg. rewrite parse_atomlist_line by assumption. cbn [bind].
  rewrite (fwrite_end st) by assumption.
  rewrite (fwrite_end (with_file st _)) by apply at_end_with_file.
  cbn [with_file wf wtitle wnat wfmt wset wbsz wbox wcur wclosed]. rewrite <- app_assoc. reflexivity.
Qed.

(* ------------------------------------------------------------------ states while writing *)
Section Run.
  Variable c : wconf.
  Variables (w d : nat) (vel : bool) (L : nat).
  Hypothesis Hwd : wd_of c = (w, d).
  Hypothesis Htitle : title_ok c.

  Let title := title_of c.
  Let box := box_of (c_box c).
  Definition header0 : bytes := title ++ [NL] ++ count0 c ++ [NL].
  Definition lines_of (recs : list grec) : list bytes := map (line_of w d) recs.
  Definition file_w (written : list grec) : bytes := header0 ++ body_of (lines_of written).

  Definition st_w (written : list grec) : wstate :=
    mkwstate (file_w written) (length (file_w written)) title (c_natoms c) (Some (w, d))
             (Some (mkwsetup (length header0) w d vel)) (Some (L + 1)) box (length written) false.

  (* room for k more records: the announced count, if any, is above the records written *)
  Definition room (k : nat) : Prop :=
    match c_natoms c with Some n => (Z.of_nat k <= n)%Z | None => True end.
  Lemma room_guard st k : wnat st = c_natoms c -> wcur st < k -> room k -> count_reached st = false.
  Proof.
    intros Hn Hk Hr. unfold count_reached, room in *. rewrite Hn. destruct (c_natoms c); [|reflexivity].
    apply Z.leb_gt. lia.
  Qed.

  Lemma w_setup_ok r : room 1 -> has_vel r = vel -> length (line_of w d r) = L ->
    w_writeline (mkwstate [] 0 title (c_natoms c) (c_fmt c) None None box 0 false) r = Ok (st_w [r]).
  Proof.
    intros Hroom Hv HL. unfold w_writeline. cbn [wset]. unfold w_setup. cbn [wfmt].
    assert (Hwd' : match c_fmt c with None => (DEFAULT_POS_FIGURES, DEFAULT_POS_DECIMALS) | Some f => f end = (w, d))
      by exact Hwd.
    rewrite Hwd'.
    pose proof (title_of_ok c Htitle) as Hnl. fold title in Hnl.
    rewrite (w_header_ok _ title) by (reflexivity || assumption).
    cbn [bind with_file wf wpos wtitle wnat wfmt wset wbsz wbox wcur wclosed].
    rewrite w_record_ok by (reflexivity || (cbn [s_vel]; assumption) || (apply (room_guard _ 1); [reflexivity|cbn; lia|assumption])).
    cbn [bind]. unfold set_bsz, set_cur, with_file, set_setup.
    cbn [wf wpos wtitle wnat wfmt wset wbsz wbox wcur wclosed s_w s_d].
    change (title ++ [NL] ++ match c_natoms c with Some n => fmt_Z n | None => repeat SP NUMBER_FIGURES end ++ [NL])
      with header0.
    rewrite Hv.
    unfold st_w, file_w, lines_of. cbn [map length]. rewrite body_of_cons.
    change (body_of []) with (@nil ascii). rewrite app_nil_r.
    replace (length (header0 ++ line_of w d r ++ [NL]) - length header0) with (L + 1)
      by (rewrite !app_length, HL; cbn [length]; lia).
    reflexivity.
  Qed.

  Lemma at_end_st_w written : at_end (st_w written).
  Proof. reflexivity. Qed.

  Lemma w_more_ok written r : room (S (length written)) -> has_vel r = vel ->
    w_writeline (st_w written) r = Ok (st_w (written ++ [r])).
  Proof.
    intros Hroom Hv. unfold w_writeline. cbn [wset st_w].
    rewrite w_record_ok by (try apply at_end_st_w; (cbn [s_vel]; assumption) ||
                            (apply (room_guard _ (S (length written))); [reflexivity|cbn; lia|assumption])).
    unfold set_cur, with_file. cbn [wf wpos wtitle wnat wfmt wset wbsz wbox wcur wclosed s_w s_d st_w].
    unfold st_w. f_equal.
    assert (E : file_w written ++ line_of w d r ++ [NL] = file_w (written ++ [r])).
    { unfold file_w, lines_of. rewrite map_app, body_of_app. cbn [map]. rewrite body_of_cons.
      change (body_of []) with (@nil ascii). rewrite app_nil_r, <- !app_assoc. reflexivity. }
    rewrite E. rewrite app_length. cbn [length]. replace (length written + 1) with (S (length written)) by lia.
    reflexivity.
  Qed.

  Lemma room_le k k' : k' <= k -> room k -> room k'.
  Proof. unfold room. destruct (c_natoms c); [|auto]. intros; lia. Qed.

  Lemma w_run_recs more : forall written, room (length written + length more) ->
    Forall (fun r => has_vel r = vel) more ->
    w_run (st_w written) (map OpRec more) = Ok (st_w (written ++ more)).
  Proof.
    induction more as [|r m IH]; intros written Hroom H.
    - rewrite app_nil_r. reflexivity.
    - inversion H; subst. cbn [map w_run w_step].
      assert (Hr1 : room (S (length written))) by (apply (room_le (length written + length (r :: m))); [simpl; lia|assumption]).
      rewrite (w_more_ok written r Hr1) by assumption.
      cbn [bind]. rewrite IH.
      + rewrite <- app_assoc. reflexivity.
      + rewrite app_length. simpl in *. replace (length written + 1 + length m) with (length written + S (length m)) by lia. assumption.
      + assumption.
  Qed.

  (* ---------------------------------------------------------------- close *)
  Variable recs : list grec.
  Let n := length recs.
  Hypothesis Hn : 1 <= n.
  Hypothesis Hcount : match c_natoms c with
                      | None => (Z.of_nat n < 1000000000)%Z
                      | Some k => k = Z.of_nat n end.
  Hypothesis HL : Forall (fun r => length (line_of w d r) = L) recs.

  Definition header1 : bytes := title ++ [NL] ++ count1 c n ++ [NL].
  Definition file_c : bytes := header1 ++ body_of (lines_of recs).

  Lemma header_len_eq : length header1 = length header0.
  Proof.
    unfold header1, header0, count1, count0. rewrite !app_length.
    destruct (c_natoms c); [reflexivity|]. f_equal. f_equal.
    rewrite repeat_length. rewrite lpad_length; [reflexivity|].
    apply fmt_Z_length; [unfold NUMBER_FIGURES; lia|]. split; [lia|]. exact Hcount.
  Qed.

  Lemma lines_len : Forall (fun l => length l = L) (lines_of recs).
  Proof. unfold lines_of. apply Forall_map. exact HL. Qed.

  Lemma file_c_length : length file_c = length header0 + n * (L + 1).
  Proof.
    unfold file_c. rewrite app_length, header_len_eq, (body_of_length _ L lines_len).
    unfold lines_of. rewrite map_length. reflexivity.
  Qed.

  Definition st_c (p : nat) : wstate :=
    mkwstate file_c p title (Some (Z.of_nat n)) (Some (w, d))
             (Some (mkwsetup (length header0) w d vel)) (Some (L + 1)) box n false.

  Lemma w_count_ok : exists p, w_count (st_w recs) = Ok (st_c p).
  Proof.
    unfold w_count. cbn [wnat wcur wset st_w]. fold n.
    destruct (c_natoms c) as [k|] eqn:Ek.
    - exists (length (file_w recs)). rewrite Hcount, Z.eqb_refl. unfold st_w, st_c, file_c, file_w, header1, header0, count1, count0.
      rewrite Ek, Hcount. reflexivity.
    - exists (length header0).
      assert (Hn0 : (n =? 0) = false) by (apply Nat.eqb_neq; lia). rewrite Hn0.
      cbn [s_init].
      assert (Hh : length header0 = length title + 1 + (NUMBER_FIGURES + 1)).
      { unfold header0, count0. rewrite Ek, !app_length, repeat_length. cbn [length]. lia. }
      assert (Hlt : (length header0 <? 1 + NUMBER_FIGURES) = false) by (apply Nat.ltb_ge; lia).
      rewrite Hlt. unfold fwrite, fseek, set_nat. cbn [wf wpos wtitle wnat wfmt wset wbsz wbox wcur wclosed st_w].
      assert (Hcl : length (lpad NUMBER_FIGURES (fmt_Z (Z.of_nat n)) ++ [NL]) = NUMBER_FIGURES + 1).
      { rewrite app_length. cbn [length].
        rewrite lpad_length by (apply fmt_Z_length; [unfold NUMBER_FIGURES; lia|]; split; [lia|exact Hcount]).
        reflexivity. }
      assert (Efile : write_at (length header0 - 1 - NUMBER_FIGURES)
                        (lpad NUMBER_FIGURES (fmt_Z (Z.of_nat n)) ++ [NL]) (file_w recs) = file_c).
      { unfold file_w, file_c, header1, count1. rewrite Ek.
        replace (length header0 - 1 - NUMBER_FIGURES) with (length (title ++ [NL]))
          by (rewrite Hh, app_length; cbn [length]; lia).
        unfold header0, count0. rewrite Ek.
        replace ((title ++ [NL] ++ repeat SP NUMBER_FIGURES ++ [NL]) ++ body_of (lines_of recs))
          with ((title ++ [NL]) ++ (repeat SP NUMBER_FIGURES ++ [NL]) ++ body_of (lines_of recs))
          by (rewrite <- !app_assoc; reflexivity).
        rewrite write_at_mid.
        - rewrite <- !app_assoc. reflexivity.
        - rewrite Hcl, app_length, repeat_length. reflexivity. }
      rewrite Efile, Hcl.
      replace (length header0 - 1 - NUMBER_FIGURES + (NUMBER_FIGURES + 1)) with (length header0) by lia.
      reflexivity.
  Qed.

  Lemma w_seek_ok p : w_seek (st_c p) = Ok (st_c (length file_c)).
  Proof.
    unfold w_seek. cbn [wnat wset wbsz st_c s_init].
    assert (E : (Z.of_nat (length header0) + Z.of_nat n * Z.of_nat (L + 1))%Z = Z.of_nat (length file_c)).
    { rewrite file_c_length, (Nat2Z.inj_add (length header0)), Nat2Z.inj_mul. reflexivity. }
    rewrite E. assert (H0 : (Z.of_nat (length file_c) <? 0)%Z = false) by (apply Z.ltb_ge; lia).
    rewrite H0, Nat2Z.id. reflexivity.
  Qed.

  Lemma w_box_ok boxline : dump_lattice_gro box = Ok boxline ->
    w_box (st_c (length file_c)) = Ok (with_file (st_c (length file_c)) (file_c ++ boxline ++ [NL])).
  Proof. intros H. unfold w_box. cbn [wbox st_c]. rewrite H. cbn [bind]. rewrite fwrite_end by reflexivity. reflexivity. Qed.

  (* the bytes after each prefix of the close operations *)
  Lemma close_prefixes boxline : dump_lattice_gro box = Ok boxline ->
    (exists st, w_run (st_w recs) [OpCount] = Ok st /\ wf st = file_c) /\
    (exists st, w_run (st_w recs) [OpCount; OpSeek] = Ok st /\ wf st = file_c) /\
    (exists st, w_run (st_w recs) close_ops = Ok st /\ wf st = file_c ++ boxline ++ [NL]).
  Proof.
    intros Hb. destruct w_count_ok as [p Hc].
    assert (Hcl : wclosed (st_w recs) = false) by reflexivity.
    repeat split.
    - exists (st_c p). cbn [w_run w_step]. rewrite Hcl, Hc. auto.
    - exists (st_c (length file_c)). cbn [w_run w_step]. rewrite Hcl, Hc. cbn [bind st_c wclosed].
      rewrite w_seek_ok. auto.
    - eexists. unfold close_ops. cbn [w_run w_step]. rewrite Hcl, Hc. cbn [bind st_c wclosed].
      rewrite w_seek_ok. cbn [bind st_c wclosed]. rewrite (w_box_ok _ Hb). cbn [bind]. split; reflexivity.
  Qed.
End Run.
