(* Lemmas about Model/Transform.v at T := R : the geometry of one repositioning, the bond-length
   theorems for the traversal tree and for tree-shaped tables, the random displacement. *)
From GM Require Import Proofs.RTac Model.Aux Model.Transform Proofs.TransformComb.
Import ListNotations.
Local Open Scope R_scope.

Notation posR := (list (V3 R)).
Notation tableR := (bond_table R).
Notation edgeR := (edge R).

(* |out[i] - out[j]| = b *)
Definition bond_len (out : posR) (i j : nat) (b : R) : Prop :=
  exists a a', nth_error out i = Some a /\ nth_error out j = Some a' /\ vnorm (vsub a a') = b.

Lemma vnorm_vsub_sym (a b : V3 R) : vnorm (vsub a b) = vnorm (vsub b a).
Proof. destruct a, b; unfold vnorm; f_equal; runfold; ring. Qed.

Lemma bond_len_sym out i j b : bond_len out i j b -> bond_len out j i b.
Proof.
  intros (a & a' & A & B & C). exists a', a. repeat split; auto.
  rewrite vnorm_vsub_sym; assumption.
Qed.

(* ------------------------------------------------------------------ one repositioning *)
Lemma pull_ok (p1 p2 : V3 R) (b : R) : p1 <> p2 -> exists p2', pull p1 p2 b = Ok p2'.
Proof.
  intros Hne. unfold pull.
  assert (Hz : vsub p1 p2 <> vzero).
  { intros E. apply Hne. destruct p1, p2. unfold vsub, vzero in E; simpl in E.
    inversion E as [[E1 E2 E3]]. runfold. f_equal; lra. }
  pose proof (vnorm_pos _ Hz) as Hp.
  assert (Hq : (@seqb R RScalar (vnorm (vsub p1 p2)) s0) = false)
    by (apply seqb_R_false; cbn [s0 RScalar]; lra).
  rewrite Hq. eauto.
Qed.

Lemma pull_coincident (p : V3 R) (b : R) : pull p p b = Err EDiv0.
Proof.
  unfold pull.
  assert (E : vnorm (vsub p p) = 0).
  { destruct p as [x y z]. unfold vnorm. runfold.
    replace ((x - x) * (x - x) + (y - y) * (y - y) + (z - z) * (z - z)) with 0 by ring. apply sqrt_0. }
  rewrite E.
  assert (Hq : (@seqb R RScalar 0 s0) = true) by (apply seqb_R; reflexivity).
  rewrite Hq. reflexivity.
Qed.

(* p1 - p2' = (b / |p1 - p2|) (p1 - p2), hence |p1 - p2'| = |b| *)
Lemma pull_dist (p1 p2 p2' : V3 R) (b : R) :
  pull p1 p2 b = Ok p2' -> vnorm (vsub p1 p2') = Rabs b.
Proof.
  unfold pull. pose proof (vnorm_sq (vsub p1 p2)) as Hs.
  set (m := vnorm (vsub p1 p2)) in *.
  destruct (@seqb R RScalar m s0) eqn:Hq; [discriminate|].
  apply seqb_R_false in Hq. cbn [s0 RScalar] in Hq.
  intros E; injection E as E; subst p2'.
  clearbody m.
  destruct p1 as [x1 y1 z1], p2 as [x2 y2 z2].
  unfold vnorm. revert Hs. runfold. intros Hs.
  match goal with |- sqrt ?e = _ => replace e with (Rsqr b) end; [apply sqrt_Rsqr_abs|].
  unfold Rsqr. symmetry.
  transitivity ((b / m) * (b / m) * (m * m)); [rewrite Hs; field; assumption|field; assumption].
Qed.

(* ------------------------------------------------------------------ (1) the moved atom *)
Lemma run_exists {T} `{Scalar T} (pos : list (V3 T)) tb k d out :
  move_mol_atom pos tb k d = Ok out ->
  exists wf tr, move_mol_atom_tr pos tb k d (length pos) = Ok (out, wf, tr).
Proof.
  unfold move_mol_atom, move_mol_atom_fuel.
  destruct (move_mol_atom_tr pos tb k d (length pos)) as [[[o w] t]|]; simpl; intros E; inversion E; subst.
  eauto.
Qed.

Lemma traversal_exists {T} `{Scalar T} (pos : list (V3 T)) tb k d out :
  move_mol_atom pos tb k d = Ok out -> exists tr, move_traversal pos tb k d = Ok tr.
Proof.
  intros E. destruct (run_exists _ _ _ _ _ E) as (wf & tr & Hr). exists tr.
  unfold move_traversal. rewrite Hr. reflexivity.
Qed.

Lemma run_of_traversal {T} `{Scalar T} (pos : list (V3 T)) tb k d out tr :
  move_mol_atom pos tb k d = Ok out -> move_traversal pos tb k d = Ok tr ->
  exists wf, move_mol_atom_tr pos tb k d (length pos) = Ok (out, wf, tr).
Proof.
  intros E Et. destruct (run_exists _ _ _ _ _ E) as (wf & tr' & Hr). exists wf.
  unfold move_traversal in Et. rewrite Hr in Et. simpl in Et. inversion Et; subst. assumption.
Qed.

Lemma moved_atom (pos : posR) (tb : tableR) k d out :
  move_mol_atom pos tb k d = Ok out ->
  length out = length pos /\
  exists pk, nth_error pos k = Some pk /\ nth_error out k = Some (vadd pk d).
Proof.
  intros E. destruct (run_exists _ _ _ _ _ E) as (wf & tr & Hr).
  destruct (move_tr_result _ _ _ _ _ _ _ _ Hr). auto.
Qed.

Lemma fuel_suffices (pos : posR) (tb : tableR) k d : move_mol_atom pos tb k d <> Err EFuel.
Proof.
  unfold move_mol_atom, move_mol_atom_fuel.
  pose proof (move_tr_fuel pos tb k d) as Hf.
  destruct (move_mol_atom_tr pos tb k d (length pos)) as [r|e]; simpl; [discriminate|].
  intros E; inversion E; subst; apply Hf; reflexivity.
Qed.

(* ------------------------------------------------------------------ (2) the traversal tree, any graph *)
(* the traversal tree of a run: its bonds come from the table (entry of the parent), it is a tree
   rooted at the moved atom (each parent is the root or the child of an EARLIER bond, no atom is the
   child of two bonds, the root is nobody's child) *)
Definition traversal_tree (tb : tableR) (k : nat) (tr : list edgeR) : Prop :=
  (forall e, In e tr -> from_table tb e) /\ rooted_tree k tr.

Lemma traversal_bonds (pos : posR) (tb : tableR) k d out tr :
  move_mol_atom pos tb k d = Ok out -> move_traversal pos tb k d = Ok tr ->
  traversal_tree tb k tr /\
  (forall p c b, In (p, c, b) tr -> bond_len out p c (Rabs b)) /\
  (forall p c b, In (p, c, b) tr -> 0 <= b -> bond_len out p c b).
Proof.
  intros E Et. destruct (run_of_traversal _ _ _ _ _ _ E Et) as (wf & Hr).
  destruct (move_tr_result _ _ _ _ _ _ _ _ Hr).
  assert (Habs : forall p c b, In (p, c, b) tr -> bond_len out p c (Rabs b)).
  { intros p c b Hi. destruct (mr_edges _ Hi) as (_ & p1 & p2 & p2' & A & B & C & D).
    unfold e_parent, e_child, e_len in *; simpl in *.
    exists p1, p2'. repeat split; auto. eapply pull_dist; eauto. }
  split; [split; [intros e He; apply (mr_edges e He)|assumption]|]. split; auto.
  intros p c b Hi Hb. rewrite <- (Rabs_pos_eq b Hb). auto.
Qed.

(* every atom: moved by d, or untouched (not connected to k), or repositioned exactly once from its
   input position against the final position of its parent *)
Lemma visits_once (pos : posR) (tb : tableR) k d out :
  move_mol_atom pos tb k d = Ok out ->
  exists wf tr, move_traversal pos tb k d = Ok tr /\
  forall i, (i < length pos)%nat ->
    (i = k /\ exists pk, nth_error pos k = Some pk /\ nth_error out k = Some (vadd pk d)) \/
    (In i wf /\ nth_error out i = nth_error pos i) \/
    (exists p b p1 p2 p2', In (p, i, b) tr /\ p <> i /\ nth_error out p = Some p1 /\ nth_error pos i = Some p2 /\
       pull p1 p2 b = Ok p2' /\ nth_error out i = Some p2').
Proof.
  intros E. destruct (run_exists _ _ _ _ _ E) as (wf & tr & Hr).
  exists wf, tr. split; [unfold move_traversal; rewrite Hr; reflexivity|].
  destruct (move_tr_result _ _ _ _ _ _ _ _ Hr).
  intros i Hi. destruct (mr_cover i Hi) as [->|[Hw|Hc]].
  - left. auto.
  - right; left. split; auto. apply mr_unreached; assumption.
  - right; right. apply in_map_iff in Hc. destruct Hc as [[[p c] b] [Ec He]].
    unfold e_child in Ec; simpl in Ec; subst c.
    destruct (mr_edges _ He) as (_ & p1 & p2 & p2' & A & B & C & D).
    unfold e_parent, e_child, e_len in *; simpl in *.
    exists p, b, p1, p2, p2'. repeat split; auto.
    apply (tr_ok_irrefl _ _ mr_tree _ He).
Qed.

(* ------------------------------------------------------------------ (3) tree-shaped tables *)
Definition bonded (tb : tableR) (i j : nat) (b : R) : Prop :=
  exists l, tbl_get tb i = Ok l /\ In (j, b) l.

Inductive reach (tb : tableR) (k : nat) : nat -> Prop :=
| reach_refl : reach tb k k
| reach_step j m b : reach tb k j -> bonded tb j m b -> reach tb k m.

(* all directed entries (i, j, b) of the table, in table order *)
Fixpoint entries_from (i : nat) (tb : tableR) : list edgeR :=
  match tb with
  | [] => []
  | o :: rest =>
      (match o with Some l => map (fun jb => (i, fst jb, snd jb)) l | None => [] end)
      ++ entries_from (S i) rest
  end.
Definition entries (tb : tableR) : list edgeR := entries_from 0 tb.

Lemma entries_from_In tb : forall i a j b,
  In (a, j, b) (entries_from i tb) <->
  (i <= a)%nat /\ exists l, nth_error tb (a - i) = Some (Some l) /\ In (j, b) l.
Proof.
  induction tb as [|o rest IH]; intros i a j b; simpl.
  - split; [contradiction|]. intros (_ & l & Hn & _). destruct (a - i)%nat; discriminate.
  - rewrite in_app_iff, IH. split.
    + intros [Hh|(Hle & l & Hn & Hi)].
      * destruct o as [l|]; [|contradiction]. apply in_map_iff in Hh.
        destruct Hh as [[j' b'] [E Hi]]. simpl in E. inversion E; subst.
        split; [lia|]. exists l. rewrite Nat.sub_diag. simpl. auto.
      * split; [lia|]. exists l. replace (a - i)%nat with (S (a - S i)) by lia. simpl. auto.
    + intros (Hle & l & Hn & Hi). destruct (Nat.eq_dec a i) as [->|Hne].
      * left. rewrite Nat.sub_diag in Hn. simpl in Hn. inversion Hn; subst o.
        apply in_map_iff. exists (j, b). auto.
      * right. split; [lia|]. exists l. replace (a - i)%nat with (S (a - S i)) in Hn by lia. simpl in Hn. auto.
Qed.

Lemma entries_In tb i j b : In (i, j, b) (entries tb) <-> bonded tb i j b.
Proof.
  unfold entries, bonded. rewrite entries_from_In. rewrite Nat.sub_0_r. split.
  - intros (_ & l & Hn & Hi). exists l. split; auto. unfold tbl_get. rewrite Hn. reflexivity.
  - intros (l & Hg & Hi). split; [lia|]. exists l. split; auto. apply tbl_get_ok; assumption.
Qed.

Definition swap_edge (e : edgeR) : edgeR := (e_child e, e_parent e, e_len e).

Lemma tree_bonds (pos : posR) (tb : tableR) k d out :
  length tb = length pos ->
  (forall i j b, bonded tb i j b -> bonded tb j i b) ->
  (forall i, (i < length pos)%nat -> reach tb k i) ->
  length (entries tb) = (2 * (length pos - 1))%nat ->
  move_mol_atom pos tb k d = Ok out ->
  (forall i j b, bonded tb i j b -> bond_len out i j (Rabs b)) /\
  (forall i j b, bonded tb i j b -> 0 <= b -> bond_len out i j b).
Proof.
  intros Hlen Hsym Hconn Hcount E.
  assert (Hgoal : forall i j b, bonded tb i j b -> bond_len out i j (Rabs b)).
  2:{ split; auto. intros i j b Hb Hpos. rewrite <- (Rabs_pos_eq b Hpos). auto. }
  destruct (run_exists _ _ _ _ _ E) as (wf & tr & Hr).
  assert (Et : move_traversal pos tb k d = Ok tr) by (unfold move_traversal; rewrite Hr; reflexivity).
  destruct (traversal_bonds _ _ _ _ _ _ E Et) as ((Hfrom & Hroot) & Habs & _).
  destruct (move_tr_result _ _ _ _ _ _ _ _ Hr).
  (* every atom is reached *)
  assert (Hreach : forall i, reach tb k i -> (i < length pos)%nat -> ~ In i wf).
  { induction 1 as [|j m b Hr' IH Hb]; intros Hi Hw.
    - destruct (mr_unreached k Hw) as (_ & A & _). apply A; reflexivity.
    - destruct Hb as (l & Hg & Hin).
      assert (Hj : (j < length pos)%nat) by (rewrite <- Hlen; eapply tbl_get_lt; eauto).
      apply (mr_closed j l Hj (IH Hj) Hg m b Hin Hw). }
  assert (Hwf : wf = []).
  { destruct wf as [|x w]; auto. exfalso.
    destruct (mr_unreached x (or_introl eq_refl)) as (A & _).
    apply (Hreach x (Hconn x A) A). left; reflexivity. }
  subst wf. simpl in mr_count. rewrite Nat.add_0_r in mr_count.
  (* the 2(n-1) directed copies of the traversal bonds are distinct entries of the table *)
  set (bw := map swap_edge tr).
  assert (Hnd_tr : NoDup tr).
  { apply (NoDup_map_inv e_child). apply (tr_ok_nodup _ _ Hroot). }
  assert (Hnd_bw : NoDup bw).
  { apply (NoDup_map_inv (fun e => fst (fst e))). unfold bw. rewrite map_map. simpl.
    apply (tr_ok_nodup _ _ Hroot). }
  assert (Hnd : NoDup (tr ++ bw)).
  { apply NoDup_app_intro; auto. intros [[p c] b] H1 H2.
    unfold bw in H2. apply in_map_iff in H2. destruct H2 as [[[p' c'] b'] [Es H2]].
    unfold swap_edge, e_child, e_parent, e_len in Es; simpl in Es. inversion Es; subst.
    eapply (tr_ok_antisym _ _ Hroot); eauto. }
  assert (Hincl : incl (tr ++ bw) (entries tb)).
  { intros [[p c] b] Hi. apply entries_In. apply in_app_or in Hi. destruct Hi as [Hi|Hi].
    - apply (Hfrom _ Hi).
    - unfold bw in Hi. apply in_map_iff in Hi. destruct Hi as [[[p' c'] b'] [Es Hi]].
      unfold swap_edge, e_child, e_parent, e_len in Es; simpl in Es. inversion Es; subst.
      apply Hsym. apply (Hfrom _ Hi). }
  assert (Hall : incl (entries tb) (tr ++ bw)).
  { apply NoDup_length_incl; auto. rewrite app_length. unfold bw. rewrite map_length. lia. }
  intros i j b Hb. apply entries_In in Hb. apply Hall in Hb. apply in_app_or in Hb.
  destruct Hb as [Hi|Hi].
  - apply Habs; assumption.
  - unfold bw in Hi. apply in_map_iff in Hi. destruct Hi as [[[p' c'] b'] [Es Hi]].
    unfold swap_edge, e_child, e_parent, e_len in Es; simpl in Es. inversion Es; subst.
    apply bond_len_sym. apply Habs; assumption.
Qed.

(* ------------------------------------------------------------------ (4) the random displacement *)
Lemma find_unfold (pos : posR) (tb : tableR) k ss u neg g v :
  find_atom_random_displ pos tb k ss u neg g = Ok v ->
  exists sigma dir, displ_sigma tb k ss = Ok sigma /\ displ_direction pos tb k u neg = Ok dir /\
    0 <= sigma /\ vnorm dir <> 0 /\ v = vscaler (vdivs dir (vnorm dir)) g.
Proof.
  unfold find_atom_random_displ.
  destruct (displ_sigma tb k ss) as [sigma|]; cbn [bind]; [|discriminate].
  destruct (displ_direction pos tb k u neg) as [dir|]; cbn [bind]; [|discriminate].
  destruct (@sltb R RScalar sigma s0) eqn:Hs; [discriminate|].
  destruct (@seqb R RScalar (vnorm dir) s0) eqn:Hn; [discriminate|].
  apply sltb_R_false in Hs. apply seqb_R_false in Hn. cbn [s0 RScalar] in *.
  intros E; injection E as E. exists sigma, dir. repeat split; auto.
Qed.

Lemma find_ok_iff (pos : posR) (tb : tableR) k ss u neg g sigma dir :
  displ_sigma tb k ss = Ok sigma -> displ_direction pos tb k u neg = Ok dir -> 0 <= sigma ->
  (dir <> vzero -> exists v, find_atom_random_displ pos tb k ss u neg g = Ok v) /\
  (dir = vzero -> find_atom_random_displ pos tb k ss u neg g = Err EDiv0).
Proof.
  intros Hs Hd Hpos. unfold find_atom_random_displ. rewrite Hs, Hd. cbn [bind].
  assert (Hlt : (@sltb R RScalar sigma s0) = false) by (apply sltb_R_false; cbn [s0 RScalar]; assumption).
  rewrite Hlt. split.
  - intros Hne. pose proof (vnorm_pos dir Hne) as Hp.
    assert (Hq : (@seqb R RScalar (vnorm dir) s0) = false) by (apply seqb_R_false; cbn [s0 RScalar]; lra).
    rewrite Hq. eauto.
  - intros ->. assert (E : vnorm (@vzero R _) = 0).
    { unfold vnorm. runfold. replace (0*0+0*0+0*0) with 0 by ring. apply sqrt_0. }
    rewrite E. assert (Hq : (@seqb R RScalar 0 s0) = true) by (apply seqb_R; reflexivity).
    rewrite Hq. reflexivity.
Qed.

Lemma scaled_dot (a w : V3 R) (n g : R) :
  vdot (vscaler (vdivs a n) g) w = vdot a w * / n * g.
Proof. destruct a, w. runfold. unfold Rdiv. ring. Qed.

Lemma scaled_norm (a : V3 R) (g : R) :
  vnorm a <> 0 -> vnorm (vscaler (vdivs a (vnorm a)) g) = Rabs g.
Proof.
  intros Hn. pose proof (vnorm_sq a) as Hs. set (n := vnorm a) in *. clearbody n.
  destruct a as [x y z]. unfold vnorm. revert Hs. runfold. intros Hs.
  match goal with |- sqrt ?e = _ => replace e with (Rsqr g) end; [apply sqrt_Rsqr_abs|].
  unfold Rsqr. symmetry.
  transitivity ((g / n) * (g / n) * (n * n)); [rewrite Hs; field; assumption|field; assumption].
Qed.

Lemma cross_dot_r (a b : V3 R) : vdot (vcross a b) b = 0.
Proof. destruct a, b. runfold. ring. Qed.
Lemma cross_dot_l (a b : V3 R) : vdot (vcross a b) a = 0.
Proof. destruct a, b. runfold. ring. Qed.

(* what "perpendicular" means in each branch *)
Definition displ_perp_spec (pos : posR) (k : nat) (nb : list (nat * R)) (v : V3 R) : Prop :=
  match nb with
  | [] => False
  | [(j0, _)] => exists p0 pk, nth_error pos j0 = Some p0 /\ nth_error pos k = Some pk /\
                   vdot v (vsub p0 pk) = 0
  | [(j0, _); (j1, _)] => exists p0 p1, nth_error pos j0 = Some p0 /\ nth_error pos j1 = Some p1 /\
                   vdot v (vsub p0 p1) = 0
  | (j0, _) :: (j1, _) :: (j2, _) :: _ =>
      exists p0 p1 p2, nth_error pos j0 = Some p0 /\ nth_error pos j1 = Some p1 /\ nth_error pos j2 = Some p2 /\
        vdot v (vsub p1 p0) = 0 /\ vdot v (vsub p2 p0) = 0 /\ vdot v (vsub p2 p1) = 0 /\
        vcross v (vcross (vsub p0 p2) (vsub p0 p1)) = vzero
  end.

Lemma displ_perp (pos : posR) (tb : tableR) k ss u neg g v :
  find_atom_random_displ pos tb k ss u neg g = Ok v ->
  vnorm v = Rabs g /\
  exists nb, tbl_get tb k = Ok nb /\ displ_perp_spec pos k nb v.
Proof.
  intros E. apply find_unfold in E.
  destruct E as (sigma & dir & Hs & Hd & Hpos & Hn & ->).
  split; [apply scaled_norm; assumption|].
  unfold displ_direction in Hd.
  destruct (tbl_get tb k) as [nb|] eqn:Ht; cbn [bind] in Hd; [|discriminate].
  exists nb. split; auto. unfold nth_res in Hd.
  destruct nb as [|[j0 b0] [|[j1 b1] [|[j2 b2] rest]]]; cbn [bind displ_perp_spec] in *; try discriminate.
  - destruct (nth_error pos j0) as [p0|]; cbn [bind] in Hd; [|discriminate].
    destruct (nth_error pos k) as [pk|]; cbn [bind] in Hd; [|discriminate].
    injection Hd as <-. exists p0, pk. repeat split; auto.
    rewrite scaled_dot, cross_dot_r. ring.
  - destruct (nth_error pos j0) as [p0|]; cbn [bind] in Hd; [|discriminate].
    destruct (nth_error pos j1) as [p1|]; cbn [bind] in Hd; [|discriminate].
    injection Hd as <-. exists p0, p1. repeat split; auto.
    rewrite scaled_dot, cross_dot_r. ring.
  - destruct (nth_error pos j0) as [p0|]; cbn [bind] in Hd; [|discriminate].
    destruct (nth_error pos j2) as [p2|]; cbn [bind] in Hd; [|discriminate].
    destruct (nth_error pos j1) as [p1|]; cbn [bind] in Hd; [|discriminate].
    injection Hd as <-. exists p0, p1, p2.
    set (n := vnorm _) in *. clearbody n.
    repeat split; auto.
    + rewrite scaled_dot. destruct p0, p1, p2, neg; runfold; ring.
    + rewrite scaled_dot. destruct p0, p1, p2, neg; runfold; ring.
    + rewrite scaled_dot. destruct p0, p1, p2, neg; runfold; ring.
    + destruct p0, p1, p2, neg; runfold; apply V3_eq; simpl; unfold Rdiv; ring.
Qed.

(* Ok exactly when the cross product of the branch is non-zero (indices valid, sigma >= 0) *)
Lemma displ_direction_zero (pos : posR) (tb : tableR) k u neg dir :
  displ_direction pos tb k u neg = Ok dir ->
  exists nb, tbl_get tb k = Ok nb /\
  match nb with
  | [] => False
  | [(j0, _)] => exists p0 pk, nth_error pos j0 = Some p0 /\ nth_error pos k = Some pk /\
                   (dir = vzero <-> vcross u (vsub p0 pk) = vzero)
  | [(j0, _); (j1, _)] => exists p0 p1, nth_error pos j0 = Some p0 /\ nth_error pos j1 = Some p1 /\
                   (dir = vzero <-> vcross u (vsub p0 p1) = vzero)
  | (j0, _) :: (j1, _) :: (j2, _) :: _ =>
      exists p0 p1 p2, nth_error pos j0 = Some p0 /\ nth_error pos j1 = Some p1 /\ nth_error pos j2 = Some p2 /\
                   (dir = vzero <-> vcross (vsub p0 p2) (vsub p0 p1) = vzero)
  end.
Proof.
  unfold displ_direction. intros Hd.
  destruct (tbl_get tb k) as [nb|] eqn:Ht; cbn [bind] in Hd; [|discriminate].
  exists nb. split; auto. unfold nth_res in Hd.
  destruct nb as [|[j0 b0] [|[j1 b1] [|[j2 b2] rest]]]; cbn [bind displ_perp_spec] in *; try discriminate.
  - destruct (nth_error pos j0) as [p0|]; cbn [bind] in Hd; [|discriminate].
    destruct (nth_error pos k) as [pk|]; cbn [bind] in Hd; [|discriminate].
    injection Hd as <-. exists p0, pk. repeat split; auto.
  - destruct (nth_error pos j0) as [p0|]; cbn [bind] in Hd; [|discriminate].
    destruct (nth_error pos j1) as [p1|]; cbn [bind] in Hd; [|discriminate].
    injection Hd as <-. exists p0, p1. repeat split; auto.
  - destruct (nth_error pos j0) as [p0|]; cbn [bind] in Hd; [|discriminate].
    destruct (nth_error pos j2) as [p2|]; cbn [bind] in Hd; [|discriminate].
    destruct (nth_error pos j1) as [p1|]; cbn [bind] in Hd; [|discriminate].
    injection Hd as <-. exists p0, p1, p2. repeat split; auto.
    + intros E. destruct (vcross (vsub p0 p2) (vsub p0 p1)) as [x y z].
      unfold vscaler, vzero in *. simpl in *. injection E as E1 E2 E3.
      destruct neg; revert E1 E2 E3; runfold; intros; f_equal; lra.
    + intros ->. destruct neg; unfold vscaler, vzero; runfold; f_equal; ring.
Qed.

(* ------------------------------------------------------------------ errors on well-formed tables *)
Lemma move_total (pos : posR) (tb : tableR) k d : table_ok (length pos) tb k ->
  (exists out, move_mol_atom pos tb k d = Ok out) \/ move_mol_atom pos tb k d = Err EDiv0.
Proof.
  intros Hok. unfold move_mol_atom, move_mol_atom_fuel.
  destruct (move_tr_total pos tb k d Hok) as [[r Hr]|Hr]; rewrite Hr; simpl; eauto.
Qed.

Lemma pull_defined (p1 p2 : V3 R) (b : R) :
  (p1 <> p2 -> exists p2', pull p1 p2 b = Ok p2') /\ pull p1 p1 b = Err EDiv0.
Proof. split; [apply pull_ok|apply pull_coincident]. Qed.

Lemma traversal_tree_shape (tb : tableR) k (tr : list edgeR) :
  traversal_tree tb k tr ->
  NoDup (children tr) /\ ~ In k (children tr) /\
  (forall p c b1 b2, In (p, c, b1) tr -> In (c, p, b2) tr -> False) /\
  (forall p c b, In (p, c, b) tr -> p <> c).
Proof.
  intros [_ Hroot]. unfold rooted_tree in Hroot. repeat split.
  - eapply tr_ok_nodup; eauto.
  - intros Hi. apply in_map_iff in Hi. destruct Hi as [e [Ee He]].
    apply (tr_ok_child _ _ Hroot e He). assumption.
  - intros p c b1 b2. apply (tr_ok_antisym _ _ Hroot).
  - intros p c b Hi. apply (tr_ok_irrefl _ _ Hroot _ Hi).
Qed.

(* ------------------------------------------------------------------ a concrete instance (non-vacuity) *)
Definition ex_pos : posR := [mk3 0 0 0; mk3 2 0 0; mk3 1 1 0; mk3 1 (-1) 1].
Definition ex_tb : tableR :=
  [Some [(1%nat, 1)]; Some [(0%nat, 1); (2%nat, 3); (3%nat, 2)]; Some [(1%nat, 3)]; Some [(1%nat, 2)]].
Definition ex_d : V3 R := mk3 0 0 1.

Lemma ex_bonded i j b : bonded ex_tb i j b <->
  (i, j, b) = (0%nat, 1%nat, 1) \/ (i, j, b) = (1%nat, 0%nat, 1) \/ (i, j, b) = (1%nat, 2%nat, 3) \/
  (i, j, b) = (1%nat, 3%nat, 2) \/ (i, j, b) = (2%nat, 1%nat, 3) \/ (i, j, b) = (3%nat, 1%nat, 2) .
Proof.
  rewrite <- entries_In. unfold entries, ex_tb. simpl. intuition congruence.
Qed.

Lemma ex_tree_hyps :
  length ex_tb = length ex_pos /\
  (forall i j b, bonded ex_tb i j b -> bonded ex_tb j i b) /\
  (forall i, (i < length ex_pos)%nat -> reach ex_tb 0 i) /\
  length (entries ex_tb) = (2 * (length ex_pos - 1))%nat /\
  table_ok (length ex_pos) ex_tb 0.
Proof.
  split; [reflexivity|]. split; [|split; [|split; [reflexivity|]]].
  - intros i j b Hb. apply ex_bonded in Hb. apply ex_bonded.
    destruct Hb as [E|[E|[E|[E|[E|E]]]]]; inversion E; subst; auto 10.
  - assert (R1 : reach ex_tb 0 1) by (eapply reach_step; [apply reach_refl|apply ex_bonded; auto]).
    intros i Hi. simpl in Hi.
    destruct i as [|[|[|[|i]]]]; try lia.
    + apply reach_refl.
    + exact R1.
    + eapply reach_step; [exact R1|apply ex_bonded; auto 10].
    + eapply reach_step; [exact R1|apply ex_bonded; auto 10].
  - split; [simpl; lia|]. split.
    + intros i Hi. simpl in Hi. destruct i as [|[|[|[|i]]]]; try lia; (eexists; reflexivity).
    + intros l Hl. simpl in Hl. inversion Hl; subst l. simpl. split.
      * constructor; [intros []|constructor].
      * intros j b [E|[]]. inversion E; subst. lia.
Qed.

Lemma pull_keeps_y (p1 p2 q : V3 R) b : pull p1 p2 b = Ok q -> vy p1 = vy p2 -> vy q = vy p2.
Proof.
  unfold pull. destruct (seqb _ _); [discriminate|]. intros E; injection E as <-.
  destruct p1, p2. runfold. simpl. intros ->. unfold Rdiv. ring.
Qed.

Lemma ne_by_y (p q : V3 R) : vy p <> vy q -> p <> q.
Proof. intros Hne E; subst; apply Hne; reflexivity. Qed.
Lemma ne_by_x (p q : V3 R) : vx p <> vx q -> p <> q.
Proof. intros Hne E; subst; apply Hne; reflexivity. Qed.

Lemma ex_run_ok : exists out, move_mol_atom ex_pos ex_tb 0 ex_d = Ok out.
Proof.
  unfold move_mol_atom, move_mol_atom_fuel, move_mol_atom_tr, ex_pos, ex_tb, ex_d.
  Local Opaque pull.
  simpl.
  set (P0 := vadd (mk3 0 0 0) (mk3 0 0 1)).
  destruct (pull_ok P0 (mk3 2 0 0) 1) as [q1 Hq1].
  { apply ne_by_x. unfold P0. runfold. simpl. lra. }
  assert (Hy1 : vy q1 = 0).
  { rewrite (pull_keeps_y _ _ _ _ Hq1); [reflexivity|]. unfold P0. runfold. simpl. lra. }
  rewrite Hq1. simpl.
  destruct (pull_ok q1 (mk3 1 (-1) 1) 2) as [q3 Hq3].
  { apply ne_by_y. rewrite Hy1. simpl. lra. }
  rewrite Hq3. simpl.
  destruct (pull_ok q1 (mk3 1 1 0) 3) as [q2 Hq2].
  { apply ne_by_y. rewrite Hy1. simpl. lra. }
  rewrite Hq2. simpl. eauto.
  Local Transparent pull.
Qed.

Lemma ex_displ_ok :
  exists v, find_atom_random_displ ex_pos ex_tb 0 (1/2) (mk3 0 1 0) false 1 = Ok v.
Proof.
  eapply (find_ok_iff ex_pos ex_tb 0%nat (1/2) (mk3 0 1 0) false 1).
  - reflexivity.
  - reflexivity.
  - runfold. simpl. lra.
  - intros E. unfold vzero in E. injection E as E1 E2 E3. revert E3. runfold. simpl. lra.
Qed.

(* ------------------------------------------------------------------ displ=None *)
Lemma default_displ (pos : posR) (tb : tableR) k ss u neg g out :
  move_mol_atom_default pos tb k ss u neg g = Ok out ->
  exists d, find_atom_random_displ pos tb k ss u neg g = Ok d /\ move_mol_atom pos tb k d = Ok out /\
    vnorm d = Rabs g /\
    (exists nb, tbl_get tb k = Ok nb /\ displ_perp_spec pos k nb d) /\
    exists pk, nth_error pos k = Some pk /\ nth_error out k = Some (vadd pk d).
Proof.
  unfold move_mol_atom_default. intros E. apply bind_ok in E. destruct E as (d & Hd & Hm).
  exists d. split; auto. split; auto.
  destruct (displ_perp _ _ _ _ _ _ _ _ Hd) as [Hn Hp].
  destruct (moved_atom _ _ _ _ _ Hm) as [_ Hk]. auto.
Qed.
