(* Non-vacuity of the hypotheses of the C06 theorems, T := R: a concrete pair of molecules (tie: the end
   molecule is the mobile one; its bond graph is the chain 0 - 1 - 2, a tree), two restraints, translations
   only: `align_with` returns Ok. *)
From GM Require Import Model.Restraints.
From GM Require Import Proofs.RTac Model.Aux Model.Transform Model.Chi2 Model.MC Proofs.MCR
  Proofs.TransformR Model.Align Proofs.AlignBase Proofs.AlignR Proofs.AlignMain.
From Coq Require Import String.
Import ListNotations.
Local Open Scope R_scope.
Local Open Scope string_scope.

Definition ex_start : amol R :=
  mkAMol [mkRes "FIX" [mkAtom "C0" (mk3 (-1) 0 0); mkAtom "H1" (mk3 1 0 0); mkAtom "O2" (mk3 1 2 0)]]
         [[1%nat]; [0%nat; 2%nat]; [1%nat]].
Definition ex_end : amol R :=
  mkAMol [mkRes "MOB" [mkAtom "C0" (mk3 0 1 0); mkAtom "C1" (mk3 0 (-1) 0); mkAtom "N2" (mk3 0 (-1) 3)]]
         [[1%nat]; [0%nat; 2%nat]; [1%nat]].
Definition ex_restr : list (Z * Z) := [(0, 0); (2, 1)]%Z.

(* the chain 0 - 1 - 2 is a tree *)
Lemma ex_tree : tree_graph (am_adj ex_end) (am_len ex_end).
Proof.
  constructor.
  - reflexivity.
  - intros i j nb Hnb Hin.
    destruct i as [|[|[|i]]]; simpl in Hnb; [| | |destruct i; discriminate];
      injection Hnb as <-; simpl in Hin;
      repeat (destruct Hin as [<-|Hin]; [eexists; split; [reflexivity|simpl; auto]|]); contradiction.
  - intros i Hi. change (i < 3)%nat in Hi.
    assert (H1 : areach (am_adj ex_end) 0 1).
    { eapply areach_step; [apply areach_refl|reflexivity|simpl; auto]. }
    destruct i as [|[|[|i]]]; [apply areach_refl|exact H1| |lia].
    eapply areach_step; [exact H1|reflexivity|simpl; auto].
  - reflexivity.
Qed.

(* hydrogens filtered, translations only, STEPS_FACTOR 0 (the loop exits at once): Ok *)
Lemma ex_run_ok : exists r,
  align_with cos sin 0 ex_start ex_end (Some ex_restr) (Some [0%Z]) true true [] 0 = Ok r.
Proof. eexists. vm_compute. reflexivity. Qed.

(* the default deformation types of this pair enable single-atom moves; [0; 1] disables them *)
Lemma ex_deform : eff_deform ex_start ex_end None = [0; 1; 2]%Z /\ ~ In 2%Z (eff_deform ex_start ex_end (Some [0; 1]%Z)).
Proof. split; [reflexivity|]. simpl. intros [H|[H|[]]]; discriminate. Qed.

(* ------------------------------------------------------------------ a run with passes (STEPS_FACTOR 1: budget 3) *)
Lemma translate_zero (ps : posR) : translate ps (mk3 0 0 0) = ps.
Proof.
  unfold translate. induction ps as [|[x y z] ps IH]; simpl; [reflexivity|]. rewrite IH. f_equal.
  unfold vadd; cbn. f_equal; lra.
Qed.

(* one pass of the loop with the null translation: proposal = configuration held, equal measure, accepted
   without a draw, not a new minimum, counter + 1 *)
Lemma null_pass (calc : chi2_calc R) (tb : tableR) (ss : R) (sim : list nat) (n f : nat)
    (st : state R posR) (s : stream R (pdraw R (adraw R))) (i : nat) :
  (counter st < n)%nat -> nth_error sim i = Some 0%nat ->
  (exists v, chi2_call calc (held st) = Ok v) ->
  e_held st = chi2_tot calc (held st) -> e_min st <= e_held st ->
  mc_loop posR (pdraw R (adraw R)) (chi2_tot calc) (propose cos sin calc tb ss) sim n (S f) st
          (DChoice i :: DProp (PTrans (mk3 0 0 0)) :: s) =
  (let st' := mkState (held st) (e_held st) (e_min st) (S (counter st)) in
   let (tr, out) := mc_loop posR (pdraw R (adraw R)) (chi2_tot calc) (propose cos sin calc tb ss) sim n f st' s in
   (mkStep st 0%nat (held st) (e_held st) None true false st' :: tr, out)).
Proof.
  intros Hc Hi [v Hv] He Hm.
  cbn [mc_loop]. replace (Nat.leb n (counter st)) with false by (symmetry; apply Nat.leb_gt; exact Hc).
  unfold mc_step. unfold nth_res. rewrite Hi. cbn [bind].
  assert (Hp : propose cos sin calc tb ss 0 (PTrans (mk3 0 0 0)) (held st) = Ok (held st)).
  { unfold propose. cbn [propose_geo bind]. rewrite translate_zero. rewrite Hv. reflexivity. }
  rewrite Hp. cbn [bind].
  rewrite <- He.
  unfold accept_metropolis.
  replace (@sleb R RScalar (e_held st) (e_held st)) with true by (symmetry; apply sleb_R; lra).
  cbn [bind].
  replace (@sltb R RScalar (e_held st) (e_min st)) with false by (symmetry; apply sltb_R_false; exact Hm).
  cbn [andb]. reflexivity.
Qed.

Definition ex_stream3 : stream R (pdraw R (adraw R)) :=
  [DChoice 0; DProp (PTrans (mk3 0 0 0)); DChoice 0; DProp (PTrans (mk3 0 0 0)); DChoice 0; DProp (PTrans (mk3 0 0 0))].

Lemma ex_run3_ok : exists r,
  align_with cos sin 1 ex_start ex_end (Some ex_restr) (Some [0%Z]) true true ex_stream3 3 = Ok r /\
  map sr_acc (ar_trace r) = [true; true; true] /\ map sr_kind (ar_trace r) = [0; 0; 0]%nat.
Proof.
  unfold align_with.
  destruct (align_prep 1 ex_start ex_end (Some ex_restr) (Some [0%Z]) true true) as [[s1 o]|e] eqn:E;
    vm_compute in E; [|discriminate].
  injection E as <- <-. cbn [bind fst snd].
  unfold run_opt, mc_run, init_state, ex_stream3. cbn [oc_args oc_calc oc_sim ma_table ma_sigma ma_steps ma_mobile].
  match goal with |- context [mc_loop _ _ (chi2_tot ?c) _ _ _ _ (mkState ?init _ _ _) _] =>
    assert (Hv : exists v, chi2_call c init = Ok v) by (vm_compute; eexists; reflexivity) end.
  rewrite null_pass; [|cbn; lia|reflexivity|exact Hv|reflexivity|cbn [e_min e_held]; apply Rle_refl].
  cbn [held e_held e_min counter].
  rewrite null_pass; [|cbn; lia|reflexivity|exact Hv|reflexivity|cbn [e_min e_held]; apply Rle_refl].
  cbn [held e_held e_min counter].
  rewrite null_pass; [|cbn; lia|reflexivity|exact Hv|reflexivity|cbn [e_min e_held]; apply Rle_refl].
  cbn [held e_held e_min counter mc_loop Nat.leb bind].
  eexists. split; [vm_compute; reflexivity|]. split; reflexivity.
Qed.
