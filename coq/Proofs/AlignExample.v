(* Non-vacuity of the hypotheses of the C06 theorems, T := R: a concrete pair of molecules (tie: the end
   molecule is the mobile one; its bond graph is the chain 0 - 1 - 2, a tree), two restraints, translations
   only: `align_with` returns Ok. *)
From GM Require Import Model.Restraints.
From GM Require Import Proofs.RTac Model.Aux Model.Transform Model.Chi2 Model.MC Proofs.MCR
  Proofs.TransformR Model.Align Proofs.AlignBase Proofs.AlignR Proofs.AlignMain.
From Coq Require Import String.
Import ListNotations.
Local Open Scope R_scope.
Local Open Scope string_scope.

Definition ex_start : amol R :=
  mkAMol [mkRes "FIX" [mkAtom "C0" (mk3 (-1) 0 0); mkAtom "H1" (mk3 1 0 0); mkAtom "O2" (mk3 1 2 0)]]
         [[1%nat]; [0%nat; 2%nat]; [1%nat]].
Definition ex_end : amol R :=
  mkAMol [mkRes "MOB" [mkAtom "C0" (mk3 0 1 0); mkAtom "C1" (mk3 0 (-1) 0); mkAtom "N2" (mk3 0 (-1) 3)]]
         [[1%nat]; [0%nat; 2%nat]; [1%nat]].
Definition ex_restr : list (Z * Z) := [(0, 0); (2, 1)]%Z.

(* the chain 0 - 1 - 2 is a tree *)
Lemma ex_tree : tree_graph (am_adj ex_end) (am_len ex_end).
Proof.
  constructor.
  - reflexivity.
  - intros i j nb Hnb Hin.
    destruct i as [|[|[|i]]]; simpl in Hnb; [| | |destruct i; discriminate];
      injection Hnb as <-; simpl in Hin;
      repeat (destruct Hin as [<-|Hin]; [eexists; split; [reflexivity|simpl; auto]|]); contradiction.
  - intros i Hi. change (i < 3)%nat in Hi.
    assert (H1 : areach (am_adj ex_end) 0 1).
    { eapply areach_step; [apply areach_refl|reflexivity|simpl; auto]. }
    destruct i as [|[|[|i]]]; [apply areach_refl|exact H1| |lia].
    eapply areach_step; [exact H1|reflexivity|simpl; auto].
  - reflexivity.
Qed.

(* hydrogens filtered, translations only, STEPS_FACTOR 0 (the loop exits at once): Ok *)
Lemma ex_run_ok : exists r,
  align_with cos sin 0 ex_start ex_end (Some ex_restr) (Some [0%Z]) true true [] 0 = Ok r.
Proof. eexists. vm_compute. reflexivity. Qed.

(* the default deformation types of this pair enable single-atom moves; [0; 1] disables them *)
Lemma ex_deform : eff_deform ex_start ex_end None = [0; 1; 2]%Z /\ ~ In 2%Z (eff_deform ex_start ex_end (Some [0; 1]%Z)).
Proof. split; [reflexivity|]. simpl. intros [H|[H|[]]]; discriminate. Qed.
