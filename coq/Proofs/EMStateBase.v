(* List / dict / cell-update lemmas used by the proofs about Model/EMState.v *)
From Coq Require Import String.
From Coq Require Import List ZArith Arith Bool Lia.
Import ListNotations.
From GM Require Import Base.Res Model.EMState.
Local Open Scope list_scope.

(* ---------------- res / mapM ---------------- *)
Lemma mapM_ext {A B} (f g : A -> res B) l :
  (forall x, In x l -> f x = g x) -> mapM f l = mapM g l.
Proof.
  induction l as [|x xs IH]; simpl; intros Hfg; [reflexivity|].
  rewrite (Hfg x) by (left; reflexivity). destruct (g x); simpl; [|reflexivity].
  rewrite IH by (intros; apply Hfg; right; assumption). reflexivity.
Qed.

Lemma mapM_app {A B} (f : A -> res B) l1 l2 r1 r2 :
  mapM f l1 = Ok r1 -> mapM f l2 = Ok r2 -> mapM f (l1 ++ l2) = Ok (r1 ++ r2).
Proof.
  revert r1; induction l1 as [|x xs IH]; simpl; intros r1 H1 H2.
  - inversion H1; subst; assumption.
  - destruct (f x); simpl in *; [|discriminate].
    destruct (mapM f xs) eqn:E; simpl in *; [|discriminate].
    inversion H1; subst. rewrite (IH _ eq_refl H2). reflexivity.
Qed.

Lemma mapM_map_ok {A B} (f : A -> res B) (g : A -> B) l :
  (forall x, In x l -> f x = Ok (g x)) -> mapM f l = Ok (map g l).
Proof.
  induction l as [|x xs IH]; simpl; intros Hf; [reflexivity|].
  rewrite (Hf x) by (left; reflexivity). simpl.
  rewrite IH by (intros; apply Hf; right; assumption). reflexivity.
Qed.

Lemma nth_res_ok {A} (l : list A) n a : nth_res l n = Ok a <-> nth_error l n = Some a.
Proof. unfold nth_res; destruct (nth_error l n); split; intros E; inversion E; reflexivity. Qed.

(* ---------------- zip_res ---------------- *)
Lemma zip_res_ok {A B} (a : list A) (b : list B) l :
  zip_res a b = Ok l -> l = combine a b /\ length a = length b.
Proof.
  revert b l; induction a as [|x a IH]; intros [|y b] l; simpl; intros E; try discriminate.
  - inversion E; auto.
  - destruct (zip_res a b) eqn:Z; simpl in E; [|discriminate]. inversion E; subst.
    destruct (IH _ _ Z) as [-> ->]; auto.
Qed.

Lemma zip_res_len {A B} (a : list A) (b : list B) :
  length a = length b -> zip_res a b = Ok (combine a b).
Proof.
  revert b; induction a as [|x a IH]; intros [|y b]; simpl; intros E; try discriminate; [reflexivity|].
  rewrite IH by lia. reflexivity.
Qed.

Lemma zip_res_err {A B} (a : list A) (b : list B) e : zip_res a b = Err e -> e = EIndex /\ length a <> length b.
Proof.
  revert b; induction a as [|x a IH]; intros [|y b]; simpl; intros E; try discriminate.
  - inversion E; split; [reflexivity|discriminate].
  - inversion E; split; [reflexivity|discriminate].
  - destruct (zip_res a b) eqn:Z; simpl in E; [discriminate|]. inversion E; subst.
    destruct (IH _ Z) as [-> Hn]; split; [reflexivity|]. intros L; apply Hn; lia.
Qed.

(* ---------------- upd ---------------- *)
Lemma upd_length {A} (l : list A) i f : length (upd l i f) = length l.
Proof. revert i; induction l as [|x l IH]; intros [|i]; simpl; auto. Qed.

Lemma upd_map {A B} (p : A -> B) (l : list A) i f :
  (forall x, p (f x) = p x) -> map p (upd l i f) = map p l.
Proof.
  intros Hp; revert i; induction l as [|x l IH]; intros [|i]; simpl; auto.
  - rewrite Hp; reflexivity.
  - rewrite IH; reflexivity.
Qed.

Lemma upd_nth_other {A} (l : list A) i j f : i <> j -> nth_error (upd l i f) j = nth_error l j.
Proof.
  revert i j; induction l as [|x l IH]; intros [|i] [|j] Hn; simpl; auto; try congruence.
Qed.

Lemma upd_app_r {A} (a b : list A) i f : length a <= i -> upd (a ++ b) i f = a ++ upd b (i - length a) f.
Proof.
  revert i; induction a as [|x a IH]; simpl; intros i Hi.
  - rewrite Nat.sub_0_r; reflexivity.
  - destruct i as [|i]; [lia|]. simpl. rewrite IH by lia. reflexivity.
Qed.

Lemma upd_app_here {A} (a : list A) c b f : upd (a ++ c :: b) (length a) f = a ++ f c :: b.
Proof. rewrite upd_app_r by lia. rewrite Nat.sub_diag. reflexivity. Qed.

(* ---------------- writes (folds of upd) ---------------- *)
Section Writes.
Context {C : Type}.
Definition writes (g : list C) (lws : list (nat * (C -> C))) : list C :=
  fold_left (fun g lw => upd g (fst lw) (snd lw)) lws g.

Lemma writes_length g lws : length (writes g lws) = length g.
Proof. revert g; induction lws as [|lw lws IH]; simpl; intros g; auto. unfold writes in *; simpl. rewrite IH, upd_length; reflexivity. Qed.

Lemma writes_map {B} (p : C -> B) g lws :
  (forall lw x, In lw lws -> p (snd lw x) = p x) -> map p (writes g lws) = map p g.
Proof.
  revert g; induction lws as [|lw lws IH]; simpl; intros g Hp; auto.
  unfold writes in *; simpl. rewrite IH by (intros; apply Hp; right; assumption).
  apply upd_map. intros; apply Hp; left; reflexivity.
Qed.

Lemma writes_nth_other g lws j :
  ~ In j (map fst lws) -> nth_error (writes g lws) j = nth_error g j.
Proof.
  revert g; induction lws as [|lw lws IH]; simpl; intros g Hn; auto.
  unfold writes in *; simpl. rewrite IH by tauto. apply upd_nth_other. tauto.
Qed.

Lemma writes_app_r a b lws :
  (forall lw, In lw lws -> length a <= fst lw) -> exists b', writes (a ++ b) lws = a ++ b' /\ length b' = length b.
Proof.
  revert b; induction lws as [|lw lws IH]; simpl; intros b Hl.
  - exists b; auto.
  - unfold writes in *; simpl. rewrite upd_app_r by (apply Hl; left; reflexivity).
    destruct (IH (upd b (fst lw - length a) (snd lw))) as [b' [E L]]; [intros; apply Hl; right; assumption|].
    exists b'; split; [exact E|]. rewrite L, upd_length; reflexivity.
Qed.

(* a whole fresh segment rewritten, atom by atom *)
Lemma writes_segment {V} (F : V -> C -> C) (a b : list C) (vs : list V) :
  length vs = length b ->
  writes (a ++ b) (map (fun lv => (fst lv, F (snd lv))) (combine (seq (length a) (length b)) vs))
  = a ++ map (fun cv => F (snd cv) (fst cv)) (combine b vs).
Proof.
  revert a vs; induction b as [|c b IH]; intros a vs L; simpl.
  - reflexivity.
  - destruct vs as [|v vs]; [discriminate|]. simpl. unfold writes in *; simpl.
    rewrite upd_app_here.
    replace (a ++ F v c :: b) with ((a ++ [F v c]) ++ b) by (rewrite <- app_assoc; reflexivity).
    replace (S (length a)) with (length (a ++ [F v c])) by (rewrite app_length; simpl; lia).
    rewrite IH by (simpl in L; lia). rewrite <- app_assoc. reflexivity.
Qed.
End Writes.

(* ---------------- dict ---------------- *)
Section Dict.
Context {A : Type}.
Implicit Types d : list (nat * A).

Lemma dict_get_set_same d k v : dict_get (dict_set d k v) k = Ok v.
Proof.
  induction d as [|[k' v'] d IH]; simpl.
  - rewrite Nat.eqb_refl; reflexivity.
  - destruct (Nat.eqb k' k) eqn:E; simpl; rewrite E; auto.
Qed.

Lemma dict_get_set_other d k k2 v : k <> k2 -> dict_get (dict_set d k v) k2 = dict_get d k2.
Proof.
  intros Hn; induction d as [|[k' v'] d IH]; simpl.
  - destruct (Nat.eqb k k2) eqn:E; [apply Nat.eqb_eq in E; contradiction|reflexivity].
  - destruct (Nat.eqb k' k) eqn:E; simpl.
    + apply Nat.eqb_eq in E; subst k'. destruct (Nat.eqb k k2) eqn:E2; [apply Nat.eqb_eq in E2; contradiction|reflexivity].
    + destruct (Nat.eqb k' k2); auto.
Qed.

Lemma dict_update_get_notin d kvs k :
  ~ In k (map fst kvs) -> dict_get (dict_update d kvs) k = dict_get d k.
Proof.
  revert d; induction kvs as [|[k1 v1] kvs IH]; simpl; intros d Hn; auto.
  unfold dict_update in *; simpl. rewrite IH by tauto. apply dict_get_set_other. tauto.
Qed.

(* the value read after an update does not depend on the dict updated, for a key that is written *)
Lemma dict_update_get_in d d' kvs k :
  In k (map fst kvs) -> dict_get (dict_update d kvs) k = dict_get (dict_update d' kvs) k.
Proof.
  revert d d'; induction kvs as [|[k1 v1] kvs IH]; simpl; intros d d' Hin; [contradiction|].
  unfold dict_update in *; simpl.
  destruct (in_dec Nat.eq_dec k (map fst kvs)) as [Hi|Hni].
  - apply IH; assumption.
  - destruct Hin as [->|Hi]; [|contradiction].
    fold (dict_update (dict_set d k v1) kvs). fold (dict_update (dict_set d' k v1) kvs).
    rewrite !dict_update_get_notin by assumption. rewrite !dict_get_set_same. reflexivity.
Qed.

Lemma dict_set_keys_in d k v : In k (map fst d) -> map fst (dict_set d k v) = map fst d.
Proof.
  induction d as [|[k' v'] d IH]; simpl; intros Hin; [contradiction|].
  destruct (Nat.eqb k' k) eqn:E; simpl; [reflexivity|].
  destruct Hin as [->|Hin]; [rewrite Nat.eqb_refl in E; discriminate|]. rewrite IH; auto.
Qed.

Lemma dict_update_keys_in d kvs :
  (forall k, In k (map fst kvs) -> In k (map fst d)) -> map fst (dict_update d kvs) = map fst d.
Proof.
  revert d; induction kvs as [|[k1 v1] kvs IH]; simpl; intros d Hin; auto.
  unfold dict_update in *; simpl.
  assert (E : map fst (dict_set d k1 v1) = map fst d) by (apply dict_set_keys_in; apply Hin; left; reflexivity).
  rewrite IH; [exact E|]. intros k Hk; rewrite E; apply Hin; right; assumption.
Qed.

Lemma dict_set_keys_incl d k v k' : In k' (map fst d) -> In k' (map fst (dict_set d k v)).
Proof.
  induction d as [|[k1 v1] d IH]; simpl; intros Hin; [contradiction|].
  destruct (Nat.eqb k1 k); simpl; (destruct Hin as [Hin|Hin]; [left; exact Hin|right; auto]).
Qed.

Lemma dict_set_key_in d k v : In k (map fst (dict_set d k v)).
Proof.
  induction d as [|[k1 v1] d IH]; simpl; [left; reflexivity|].
  destruct (Nat.eqb k1 k) eqn:E; simpl; [left; apply Nat.eqb_eq; assumption|right; assumption].
Qed.

(* building a dict from scratch with distinct keys gives the list itself *)
Lemma dict_set_fresh d k v : ~ In k (map fst d) -> dict_set d k v = d ++ [(k, v)].
Proof.
  induction d as [|[k1 v1] d IH]; simpl; intros Hn; [reflexivity|].
  destruct (Nat.eqb k1 k) eqn:E; [apply Nat.eqb_eq in E; subst; tauto|]. rewrite IH by tauto. reflexivity.
Qed.

Lemma dict_update_fresh d kvs :
  NoDup (map fst d ++ map fst kvs) -> dict_update d kvs = d ++ kvs.
Proof.
  revert d; induction kvs as [|[k1 v1] kvs IH]; simpl; intros d Hnd.
  - rewrite app_nil_r; reflexivity.
  - unfold dict_update in *; simpl.
    assert (Hn : ~ In k1 (map fst d)).
    { intros Hi. apply NoDup_remove_2 in Hnd. apply Hnd. apply in_or_app; left; assumption. }
    rewrite dict_set_fresh by assumption.
    rewrite IH.
    + rewrite <- app_assoc; reflexivity.
    + rewrite map_app; simpl. rewrite <- app_assoc. simpl. exact Hnd.
Qed.
End Dict.

(* ---------------- anchors ---------------- *)
Lemma anchors_from_ge i g k : In k (anchors_from i g) -> i <= k.
Proof.
  revert i; induction g as [|l g IH]; intros i; cbn [anchors_from]; intros Hin; [contradiction|].
  destruct (Nat.leb 2 (length l)); [destruct Hin as [->|Hin]; [lia|]|]; apply IH in Hin; lia.
Qed.

Lemma anchors_from_nodup i g : NoDup (anchors_from i g).
Proof.
  revert i; induction g as [|l g IH]; intros i; cbn [anchors_from]; [constructor|].
  destruct (Nat.leb 2 (length l)); [|apply IH].
  constructor; [|apply IH]. intros Hin; apply anchors_from_ge in Hin; lia.
Qed.

Lemma anchors_nodup g : NoDup (anchors g).
Proof. apply anchors_from_nodup. Qed.

(* ---------------- combine / firstn / skipn ---------------- *)
Lemma combine_app_split {A B} (r rest : list A) (ps : list B) :
  combine (r ++ rest) ps = combine r (firstn (length r) ps) ++ combine rest (skipn (length r) ps).
Proof.
  revert ps; induction r as [|x r IH]; simpl; intros ps; [reflexivity|].
  destruct ps as [|p ps]; simpl.
  - destruct rest; reflexivity.
  - rewrite IH; reflexivity.
Qed.
