(* Rigid motions and the exchange map (C02), at T := R. *)
From Coq Require Import Nsatz FinFun.
From GM Require Import Proofs.RTac Model.Aux Proofs.AuxR Model.ExchangeMap Proofs.ExchangeMapL Proofs.ExchangeMapR.
Import ListNotations.
Local Open Scope R_scope.

Definition SO3 (Q : M3 R) : Prop := mmul Q (mtrans Q) = mid /\ mdet Q = 1.
Definition rigid (Q : M3 R) (t p : V3 R) : V3 R := vadd (mvec Q p) t.

Lemma so3_eqs Q : SO3 Q ->
  let '(mkM (mk3 a b c) (mk3 d e f) (mk3 g h i)) := Q in
  a*a+b*b+c*c = 1 /\ d*d+e*e+f*f = 1 /\ g*g+h*h+i*i = 1 /\
  a*d+b*e+c*f = 0 /\ a*g+b*h+c*i = 0 /\ d*g+e*h+f*i = 0 /\
  a*(e*i-f*h) + b*(f*g-d*i) + c*(d*h-e*g) = 1.
Proof.
  destruct Q as [[a b c] [d e f] [g h i]]. intros [Ho Hd]. revert Ho Hd. runfold. intros Ho Hd.
  inversion Ho. repeat split; lra.
Qed.

Lemma so3_left Q : SO3 Q -> mmul (mtrans Q) Q = mid.
Proof.
  intros H. pose proof (so3_eqs Q H) as E. destruct Q as [[a b c] [d e f] [g h i]].
  destruct E as (E1 & E2 & E3 & E4 & E5 & E6 & E7). runfold.
  apply M3_eq; apply V3_eq; simpl; nsatz.
Qed.

Lemma so3_trans Q : SO3 Q -> SO3 (mtrans Q).
Proof.
  intros H. split.
  - replace (mtrans (mtrans Q)) with Q by (destruct Q as [[a b c] [d e f] [g h i]]; reflexivity).
    apply so3_left; exact H.
  - destruct H as [_ Hd]. rewrite <- Hd. destruct Q as [[a b c] [d e f] [g h i]]. runfold. ring.
Qed.

(* Q (a x b) = Qa x Qb *)
Lemma cross_equivariant Q a b : SO3 Q -> mvec Q (vcross a b) = vcross (mvec Q a) (mvec Q b).
Proof.
  intros H. pose proof (so3_eqs Q H) as E. destruct Q as [[q1 q2 q3] [q4 q5 q6] [q7 q8 q9]].
  destruct E as (E1 & E2 & E3 & E4 & E5 & E6 & E7). destruct a as [a1 a2 a3], b as [b1 b2 b3]. runfold.
  apply V3_eq; simpl; nsatz.
Qed.

Lemma mvec_dot Q a b : SO3 Q -> vdot (mvec Q a) (mvec Q b) = vdot a b.
Proof.
  intros H. pose proof (so3_left Q H) as E. destruct Q as [[q1 q2 q3] [q4 q5 q6] [q7 q8 q9]].
  revert E. runfold. intros E. inversion E. destruct a as [a1 a2 a3], b as [b1 b2 b3]. simpl. nsatz.
Qed.

Lemma vnorm_mvec Q v : SO3 Q -> vnorm (mvec Q v) = vnorm v.
Proof. intros H. unfold vnorm, vnorm2. rewrite mvec_dot by exact H. reflexivity. Qed.

Lemma rigid_sub Q t a b : vsub (rigid Q t a) (rigid Q t b) = mvec Q (vsub a b).
Proof.
  destruct Q as [[q1 q2 q3] [q4 q5 q6] [q7 q8 q9]], t, a, b. unfold rigid. runfold. apply V3_eq; simpl; ring.
Qed.

Lemma mvec_divs Q v n : mvec Q (vdivs v n) = vdivs (mvec Q v) n.
Proof.
  destruct Q as [[q1 q2 q3] [q4 q5 q6] [q7 q8 q9]], v. runfold. unfold Rdiv. apply V3_eq; simpl; ring.
Qed.

Lemma rigid_inv Q t p : SO3 Q ->
  rigid (mtrans Q) (vneg (mvec (mtrans Q) t)) (rigid Q t p) = p.
Proof.
  intros H. pose proof (so3_left Q H) as E. destruct Q as [[q1 q2 q3] [q4 q5 q6] [q7 q8 q9]].
  revert E. unfold rigid. runfold. intros E. inversion E. destruct t as [t1 t2 t3], p as [p1 p2 p3].
  apply V3_eq; simpl; nsatz.
Qed.

Lemma rigid_inj Q t a b : SO3 Q -> rigid Q t a = rigid Q t b -> a = b.
Proof.
  intros H E. rewrite <- (rigid_inv Q t a H), <- (rigid_inv Q t b H). rewrite E. reflexivity.
Qed.

(* calcule_base in the regular branch is equivariant *)
Lemma calcule_base_br_rigid Q t p0 p1 p2 F : SO3 Q ->
  calcule_base_br p0 p1 p2 = Ok (F, CbRegular) ->
  calcule_base_br (rigid Q t p0) (rigid Q t p1) (rigid Q t p2) =
    Ok (mkFrame (mvec Q (f1 F)) (mvec Q (f2 F)) (mvec Q (f3 F)) (rigid Q t p0), CbRegular).
Proof.
  intros HQ. unfold calcule_base_br. rewrite !rigid_sub.
  unfold vnormalize. rewrite (vnorm_mvec Q _ HQ).
  destruct (@seqb R RScalar (vnorm (vsub p2 p0)) s0); [discriminate|]. cbn [bind].
  rewrite <- mvec_divs. rewrite <- (cross_equivariant Q _ _ HQ). rewrite !(vnorm_mvec Q _ HQ).
  set (v1 := vdivs (vsub p2 p0) (vnorm (vsub p2 p0))).
  set (c3 := vcross v1 (vsub p1 p0)).
  destruct (@sleb R RScalar (vnorm c3) (smul collinear_eps (vnorm (vsub p1 p0)))).
  - (* the hypothesis excludes the fallback *)
    intros E. exfalso.
    destruct (@sleb R RScalar one_half _) in E.
    + destruct (@seqb R RScalar _ s0) in E; cbn [bind] in E; [discriminate|inversion E].
    + destruct (@seqb R RScalar _ s0) in E; cbn [bind] in E; [discriminate|inversion E].
  - destruct (@seqb R RScalar (vnorm c3) s0); [discriminate|]. cbn [bind].
    intros E. inversion E; subst F. cbn [f1 f2 f3].
    rewrite <- mvec_divs. rewrite (cross_equivariant Q _ _ HQ). reflexivity.
Qed.

Definition regular_triple (p0 p1 p2 : V3 R) : Prop :=
  exists F, calcule_base_br p0 p1 p2 = Ok (F, CbRegular).

(* the regular-branch condition is invariant under rigid motions (over R) *)
Lemma regular_triple_rigid Q t p0 p1 p2 : SO3 Q ->
  (regular_triple (rigid Q t p0) (rigid Q t p1) (rigid Q t p2) <-> regular_triple p0 p1 p2).
Proof.
  intros HQ. split.
  - intros [F HF]. pose proof (so3_trans Q HQ) as HQ'.
    pose proof (calcule_base_br_rigid (mtrans Q) (vneg (mvec (mtrans Q) t)) _ _ _ F HQ' HF) as H.
    rewrite !(rigid_inv Q t _ HQ) in H. eexists; exact H.
  - intros [F HF]. eexists. apply calcule_base_br_rigid; eassumption.
Qed.

Lemma restore_rigid Q t (F : frame R) c :
  restore (mkFrame (mvec Q (f1 F)) (mvec Q (f2 F)) (mvec Q (f3 F)) (rigid Q t (forig F))) c
  = rigid Q t (restore F c).
Proof.
  unfold restore, fmat, rigid. cbn [f1 f2 f3 forig].
  destruct F as [[a1 a2 a3] [b1 b2 b3] [c1 c2 c3] [o1 o2 o3]], Q as [[q1 q2 q3] [q4 q5 q6] [q7 q8 q9]], t, c.
  cbn [f1 f2 f3 forig]. runfold. apply V3_eq; simpl; ring.
Qed.

(* anchor a of conformation ps is in the regular branch (not collinear with its two frame atoms) *)
Definition regular_at (g : graph) (ps : list (V3 R)) (a : nat) : Prop :=
  exists p0 p1 p2, points_at g ps a = Ok (p0, p1, p2) /\ regular_triple p0 p1 p2.

Lemma conf_ok_rigid g ps Q t : SO3 Q -> conf_ok g ps -> conf_ok g (map (rigid Q t) ps).
Proof.
  intros HQ (Hl & H3 & Hnd). unfold conf_ok. rewrite map_length. split; [exact Hl|]. split; [exact H3|].
  apply FinFun.Injective_map_NoDup; [|exact Hnd]. intros a b E. eapply rigid_inj; eassumption.
Qed.

Lemma points_at_rigid g (ps : list (V3 R)) Q t a p0 p1 p2 :
  points_at g ps a = Ok (p0, p1, p2) ->
  points_at g (map (rigid Q t) ps) a = Ok (rigid Q t p0, rigid Q t p1, rigid Q t p2).
Proof.
  unfold points_at. destruct (nth_res g a) as [l|]; cbn [bind]; [|discriminate].
  destruct (lowest2 l) as [[n1 n2]|]; [|discriminate].
  unfold nth_res. rewrite !nth_error_map.
  destruct (nth_error ps a); cbn [bind option_map]; [|discriminate].
  destruct (nth_error ps n1); cbn [bind option_map]; [|discriminate].
  destruct (nth_error ps n2); cbn [bind option_map]; [|discriminate].
  intros E; inversion E; reflexivity.
Qed.

Lemma em_equivariant g (ref tgt ref' : list (V3 R)) s db da da' m out Q t :
  graph_wf g -> conf_ok g ref -> anchors g <> [] -> conf_ok g ref' -> SO3 Q ->
  build g ref tgt s db = Ok m -> apply m g ref' da = Ok out ->
  (forall a, In a (em_equiv m) -> regular_at g ref' a) ->
  apply m g (map (rigid Q t) ref') da' = Ok (map (rigid Q t) out).
Proof.
  intros Hwf Hc Ha Hc' HQ Em Eo Hreg.
  destruct (general_char g ref tgt s db Hwf Hc Ha) as (m' & Em' & _ & Hle & Hlc & _ & _ & Happ).
  rewrite Em in Em'. inversion Em'; subst m'.
  destruct (Happ ref' da Hc') as (out' & Eo' & Hlo & Hko). rewrite Eo in Eo'. inversion Eo'; subst out'.
  destruct (Happ (map (rigid Q t) ref') da' (conf_ok_rigid g ref' Q t HQ Hc')) as (out2 & Eo2 & Hlo2 & Hko2).
  rewrite Eo2. f_equal. apply nth_error_ext.
  - rewrite map_length, Hlo, Hlo2. reflexivity.
  - intros k x Hx. rewrite nth_error_map in Hx.
    destruct (nth_error out k) as [y|] eqn:Hy; [|discriminate]. cbn [option_map] in Hx. inversion Hx; subst x.
    assert (Hkt : (k < length tgt)%nat) by (rewrite <- Hlo; apply nth_error_Some; rewrite Hy; discriminate).
    destruct (nth_error_lt (em_equiv m) k) as [a Ea]; [rewrite Hle; exact Hkt|].
    destruct (nth_error_lt (em_coords m) k) as [c Ec]; [rewrite Hlc; exact Hkt|].
    destruct (Hko k a c Ea Ec) as (n1 & n2 & p0 & p1 & p2 & F' & HF' & Ho).
    destruct (Hko2 k a c Ea Ec) as (n1' & n2' & q0 & q1 & q2 & F2 & HF2 & Ho2).
    rewrite Hy in Ho. inversion Ho; subst y. rewrite Ho2. f_equal.
    destruct (Hreg a (nth_error_In _ _ Ea)) as (r0 & r1 & r2 & Hpts & [Fr HFr]).
    destruct HF' as (_ & _ & _ & _ & Hp & HB & _ & HG).
    rewrite Hp in Hpts. inversion Hpts; subst r0 r1 r2.
    assert (Fr = F').
    { rewrite Hp in HB. cbn [base_of bind] in HB. unfold calcule_base in HB. rewrite HFr in HB.
      cbn [rmap fst] in HB. inversion HB; reflexivity. }
    subst Fr.
    destruct HF2 as (_ & _ & _ & _ & _ & HB2 & _).
    rewrite (points_at_rigid g ref' Q t a p0 p1 p2 Hp) in HB2. cbn [base_of bind] in HB2.
    unfold calcule_base in HB2. rewrite (calcule_base_br_rigid Q t p0 p1 p2 F' HQ HFr) in HB2.
    cbn [rmap fst] in HB2. inversion HB2; subst F2.
    destruct HG as (Ho' & _). rewrite <- Ho'. apply restore_rigid.
Qed.

(* ---------- the axis invariants ---------- *)
Definition unitv (v : V3 R) : V3 R := vdivs v (vnorm v).
(* distance of the point a + d from the line through a with unit direction u *)
Definition axis_dist (d u : V3 R) : R := sqrt (vnorm2 d - vdot d u * vdot d u).

Lemma lagrange_unit (d u : V3 R) : vnorm2 u = 1 -> 0 <= vnorm2 d - vdot d u * vdot d u.
Proof.
  intros Hu.
  assert (E : vnorm2 d - vdot d u * vdot d u = vnorm2 (vcross d u)).
  { destruct d as [a b c], u as [x y z]. revert Hu. runfold. intros Hu. nsatz. }
  rewrite E. apply vnorm2_nonneg.
Qed.

Lemma axial_restore (F' : frame R) q0 q1 q2 c : frame_good F' q0 q1 q2 ->
  vdot (vsub (restore F' c) q0) (f1 F') = vx c.
Proof.
  intros (Ho & (H11 & _ & _ & H12 & H13 & _) & _).
  unfold restore. rewrite Ho, vsub_vadd_l. unfold fmat.
  assert (E : vdot (vecm c (mkM (f1 F') (f2 F') (f3 F'))) (f1 F') =
              vx c * vdot (f1 F') (f1 F') + vy c * vdot (f1 F') (f2 F') + vz c * vdot (f1 F') (f3 F')).
  { destruct (f1 F'), (f2 F'), (f3 F'), c. runfold. ring. }
  rewrite E, H11, H12, H13. ring.
Qed.

Lemma project_vx (F : frame R) p0 p1 p2 p s : frame_good F p0 p1 p2 ->
  vx (project F p s) = s * vdot (vsub p p0) (f1 F).
Proof.
  intros (Ho & _). unfold project, fmat. rewrite Ho. destruct (f1 F), (vsub p p0). runfold. ring.
Qed.

(* the three invariants, for any two orthonormal frames with first vector along p0->p2, q0->q2 *)
Lemma axis_invariants F F' (p0 p1 p2 q0 q1 q2 p : V3 R) s :
  frame_good F p0 p1 p2 -> frame_good F' q0 q1 q2 -> p0 <> p2 -> q0 <> q2 ->
  let x := restore F' (project F p s) in
  let u := unitv (vsub p2 p0) in let u' := unitv (vsub q2 q0) in
  vdist x q0 = Rabs s * vdist p p0 /\
  vdot (vsub x q0) u' = s * vdot (vsub p p0) u /\
  axis_dist (vsub x q0) u' = Rabs s * axis_dist (vsub p p0) u.
Proof.
  intros HG HG' Hne Hne'. cbv zeta.
  pose proof (restore_project_radius F F' p0 p1 p2 q0 q1 q2 p s HG HG') as Hr.
  assert (Hu : f1 F = unitv (vsub p2 p0)) by apply HG.
  assert (Hu' : f1 F' = unitv (vsub q2 q0)) by apply HG'.
  assert (Hax : vdot (vsub (restore F' (project F p s)) q0) (unitv (vsub q2 q0)) =
                s * vdot (vsub p p0) (unitv (vsub p2 p0))).
  { rewrite <- Hu, <- Hu'. rewrite (axial_restore F' q0 q1 q2 _ HG'). apply (project_vx F p0 p1 p2); exact HG. }
  split; [exact Hr|]. split; [exact Hax|].
  unfold axis_dist. rewrite Hax.
  assert (Hn2 : vnorm2 (vsub (restore F' (project F p s)) q0) = s * s * vnorm2 (vsub p p0)).
  { destruct (fg_facts F p0 p1 p2 (vsub p p0) HG) as (Ho & I1 & _ & _).
    destruct (fg_facts F' q0 q1 q2 (project F p s) HG') as (Ho' & _ & I2 & _).
    unfold restore. rewrite Ho', vsub_vadd_l, I2. unfold project. rewrite Ho, vscaler_scale, vnorm2_scale, I1.
    reflexivity. }
  rewrite Hn2.
  replace (s * s * vnorm2 (vsub p p0) - s * vdot (vsub p p0) (unitv (vsub p2 p0)) * (s * vdot (vsub p p0) (unitv (vsub p2 p0))))
    with (s * s * (vnorm2 (vsub p p0) - vdot (vsub p p0) (unitv (vsub p2 p0)) * vdot (vsub p p0) (unitv (vsub p2 p0)))) by ring.
  apply sqrt_scale2. apply lagrange_unit.
  destruct (vnormalize_ok _ (sub_ne _ _ Hne)) as [_ U]. exact U.
Qed.

(* >= 3 atoms, any new conformation, any anchor (regular or collinear: the fallback branch included) *)
Lemma em_axis g (ref tgt ref' : list (V3 R)) s db da m out k p :
  graph_wf g -> conf_ok g ref -> anchors g <> [] -> conf_ok g ref' ->
  build g ref tgt s db = Ok m -> apply m g ref' da = Ok out -> nth_error tgt k = Some p ->
  exists a l n1 n2 ra rb ra' rb' x,
    nth_error (em_equiv m) k = Some a /\ nth_error g a = Some l /\ lowest2 l = Some (n1, n2) /\
    nth_error ref a = Some ra /\ nth_error ref n2 = Some rb /\
    nth_error ref' a = Some ra' /\ nth_error ref' n2 = Some rb' /\ nth_error out k = Some x /\
    vdist x ra' = Rabs s * vdist p ra /\
    vdot (vsub x ra') (unitv (vsub rb' ra')) = s * vdot (vsub p ra) (unitv (vsub rb ra)) /\
    axis_dist (vsub x ra') (unitv (vsub rb' ra')) = Rabs s * axis_dist (vsub p ra) (unitv (vsub rb ra)).
Proof.
  intros Hwf Hc Ha Hc' Em Eo Hp.
  destruct (general_char g ref tgt s db Hwf Hc Ha) as (m' & Em' & _ & _ & _ & Hk & _ & Happ).
  rewrite Em in Em'. inversion Em'; subst m'.
  destruct (Hk k p Hp) as (a & n1 & n2 & p0 & p1 & p2 & F & Ea & _ & HF & Ec).
  destruct (Happ ref' da Hc') as (out' & Eo' & _ & Hko). rewrite Eo in Eo'. inversion Eo'; subst out'.
  destruct (Hko k a _ Ea Ec) as (n1' & n2' & q0 & q1 & q2 & F' & HF' & Ho).
  destruct HF as ((l & Hl & El) & H0 & H1 & H2 & _ & _ & Hne & HG).
  destruct HF' as ((l' & Hl' & El') & H0' & H1' & H2' & _ & _ & Hne' & HG').
  rewrite Hl in Hl'. inversion Hl'; subst l'. rewrite El in El'. inversion El'; subst n1' n2'.
  exists a, l, n1, n2, p0, p2, q0, q2, (restore F' (project F p s)).
  repeat (split; [assumption|]).
  apply (axis_invariants F F' p0 p1 p2 q0 q1 q2 p s HG HG' Hne Hne').
Qed.

(* ---------- references of two atoms and of one atom ---------- *)
Lemma closest_single (ref : list (V3 R)) p a : closest_to ref [0%nat] p a -> a = 0%nat.
Proof. intros [[<-|[]] _]. reflexivity. Qed.

Lemma small_char g (ref tgt : list (V3 R)) s db (p0 p1 p2 : V3 R) F :
  refsystems g ref db = Ok [(0%nat, calcule_base p0 p1 p2)] -> nth_error ref 0 = Some p0 ->
  calcule_base p0 p1 p2 = Ok F ->
  exists m, build g ref tgt s db = Ok m /\ length (em_equiv m) = length tgt /\
    length (em_coords m) = length tgt /\
    (forall a, In a (em_equiv m) -> a = 0%nat) /\
    forall k p, nth_error tgt k = Some p ->
      nth_error (em_equiv m) k = Some 0%nat /\ nth_error (em_coords m) k = Some (project F p s).
Proof.
  intros Hfr H0 HF.
  destruct (build_char g ref tgt s db _ Hfr) as (m & Em & _ & _ & Hle & Hlc & Hk).
  - cbn. discriminate.
  - intros a [<-|[]]. split; [eauto|]. exists F. cbn. rewrite HF. reflexivity.
  - assert (Hk' : forall k p, nth_error tgt k = Some p ->
       nth_error (em_equiv m) k = Some 0%nat /\ nth_error (em_coords m) k = Some (project F p s)).
    { intros k p Hp. destruct (Hk k p Hp) as (a & F0 & Ea & Hc & HF0 & Ec).
      apply closest_single in Hc. subst a. cbn in HF0. rewrite HF in HF0. inversion HF0; subst F0.
      split; assumption. }
    exists m. split; [exact Em|]. split; [exact Hle|]. split; [exact Hlc|]. split; [|exact Hk'].
    intros a Ha. apply In_nth_error in Ha. destruct Ha as [k Hka].
    assert (Hkt : (k < length tgt)%nat) by (rewrite <- Hle; apply nth_error_Some; rewrite Hka; discriminate).
    destruct (nth_error_lt tgt k Hkt) as [p Hp]. destruct (Hk' k p Hp) as [E _]. congruence.
Qed.

Lemma small_apply (m : emap R) g (ref' : list (V3 R)) da (q0 q1 q2 : V3 R) F' :
  refsystems g ref' da = Ok [(0%nat, calcule_base q0 q1 q2)] -> calcule_base q0 q1 q2 = Ok F' ->
  length (em_equiv m) = length (em_coords m) -> (forall a, In a (em_equiv m) -> a = 0%nat) ->
  exists out, apply m g ref' da = Ok out /\ length out = length (em_equiv m) /\
    forall k c, nth_error (em_coords m) k = Some c -> nth_error out k = Some (restore F' c).
Proof.
  intros Hupd HF' Hlen H0.
  destruct (apply_char m g ref' da _ Hupd Hlen) as (out & Eo & Hlo & Hko).
  - intros a Ha. rewrite (H0 a Ha). exists F'. cbn. rewrite HF'. reflexivity.
  - exists out. split; [exact Eo|]. split; [exact Hlo|]. intros k c Hc.
    destruct (nth_error_lt (em_equiv m) k) as [a Ea].
    { rewrite Hlen. apply nth_error_Some. rewrite Hc; discriminate. }
    destruct (Hko k a c Ea Hc) as (F2 & HF2 & Ho).
    rewrite (H0 a (nth_error_In _ _ Ea)) in HF2. cbn in HF2. rewrite HF' in HF2. inversion HF2; subst F2. exact Ho.
Qed.

(* two atoms: for every value d1 (construction) and e1 (call) of the random completion point *)
Lemma em_two_atoms g (p0 p1 q0 q1 d1 e1 : V3 R) (dr er tgt : list (V3 R)) s :
  p0 <> p1 -> q0 <> q1 ->
  exists m, build g [p0; p1] tgt s (d1 :: dr) = Ok m /\
  exists out, apply m g [q0; q1] (e1 :: er) = Ok out /\ length out = length tgt /\
    forall k p, nth_error tgt k = Some p ->
      exists x, nth_error out k = Some x /\
        vdist x q0 = Rabs s * vdist p p0 /\
        vdot (vsub x q0) (unitv (vsub q1 q0)) = s * vdot (vsub p p0) (unitv (vsub p1 p0)) /\
        axis_dist (vsub x q0) (unitv (vsub q1 q0)) = Rabs s * axis_dist (vsub p p0) (unitv (vsub p1 p0)).
Proof.
  intros Hne Hne'.
  destruct (calcule_base_frame p0 (vadd d1 p0) p1 Hne) as (F & EF & HG & _).
  destruct (calcule_base_frame q0 (vadd e1 q0) q1 Hne') as (F' & EF' & HG' & _).
  destruct (small_char g [p0; p1] tgt s (d1 :: dr) p0 (vadd d1 p0) p1 F eq_refl eq_refl EF)
    as (m & Em & Hle & Hlc & H0 & Hk).
  exists m. split; [exact Em|].
  destruct (small_apply m g [q0; q1] (e1 :: er) q0 (vadd e1 q0) q1 F' eq_refl EF') as (out & Eo & Hlo & Hko).
  { rewrite Hle, Hlc; reflexivity. } { exact H0. }
  exists out. split; [exact Eo|]. split; [rewrite Hlo; exact Hle|].
  intros k p Hp. destruct (Hk k p Hp) as [_ Ec].
  exists (restore F' (project F p s)). split; [apply Hko; exact Ec|].
  apply (axis_invariants F F' p0 (vadd d1 p0) p1 q0 (vadd e1 q0) q1 p s HG HG' Hne Hne').
Qed.

Lemma vadd_ne (d p : V3 R) : d <> vzero -> p <> vadd d p.
Proof.
  intros Hd E. apply Hd. destruct d as [a b c], p as [x y z]. revert E. runfold. intros E. inversion E.
  apply V3_eq; simpl; lra.
Qed.

(* one atom: only the distance to the atom is determined; for all draws with a non-zero second draw *)
Lemma em_one_atom g (p0 q0 d1 d2 e1 e2 : V3 R) (dr er tgt : list (V3 R)) s :
  d2 <> vzero -> e2 <> vzero ->
  exists m, build g [p0] tgt s (d1 :: d2 :: dr) = Ok m /\
  exists out, apply m g [q0] (e1 :: e2 :: er) = Ok out /\ length out = length tgt /\
    forall k p, nth_error tgt k = Some p ->
      exists x, nth_error out k = Some x /\ vdist x q0 = Rabs s * vdist p p0.
Proof.
  intros Hd He.
  pose proof (vadd_ne d2 p0 Hd) as Hne. pose proof (vadd_ne e2 q0 He) as Hne'.
  destruct (calcule_base_frame p0 (vadd d1 p0) (vadd d2 p0) Hne) as (F & EF & HG & _).
  destruct (calcule_base_frame q0 (vadd e1 q0) (vadd e2 q0) Hne') as (F' & EF' & HG' & _).
  destruct (small_char g [p0] tgt s (d1 :: d2 :: dr) p0 (vadd d1 p0) (vadd d2 p0) F eq_refl eq_refl EF)
    as (m & Em & Hle & Hlc & H0 & Hk).
  exists m. split; [exact Em|].
  destruct (small_apply m g [q0] (e1 :: e2 :: er) q0 (vadd e1 q0) (vadd e2 q0) F' eq_refl EF') as (out & Eo & Hlo & Hko).
  { rewrite Hle, Hlc; reflexivity. } { exact H0. }
  exists out. split; [exact Eo|]. split; [rewrite Hlo; exact Hle|].
  intros k p Hp. destruct (Hk k p Hp) as [_ Ec].
  exists (restore F' (project F p s)). split; [apply Hko; exact Ec|].
  apply (restore_project_radius F F' p0 (vadd d1 p0) (vadd d2 p0) q0 (vadd e1 q0) (vadd e2 q0) p s HG HG').
Qed.
