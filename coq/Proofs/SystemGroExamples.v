(* C12: concrete files for the non-vacuity examples of Props/C12.v *)
From Coq Require Import ZArith String List.
From GM Require Import Base.Res Model.SystemGro.
Import ListNotations.
Local Open Scope string_scope.
Local Open Scope Z_scope.

(* the witness of the repaired defect D9: residue (1,"2AB") followed by residue (12,"AB");
   str(1)+"2AB" = str(12)+"AB" = "12AB" *)
Definition d9_a1 := mkAtom 1 "2AB" "A1" 1 0.
Definition d9_a2 := mkAtom 1 "2AB" "A2" 2 1.
Definition d9_b1 := mkAtom 12 "AB" "B1" 3 2.
Definition d9_b2 := mkAtom 12 "AB" "B2" 4 3.
Definition d9_b3 := mkAtom 12 "AB" "B3" 5 4.
Definition d9_file : grofile := mkGro "D9" [d9_a1; d9_a2; d9_b1; d9_b2; d9_b3] [1000000; 0; 0; 0; 1000000; 0; 0; 0; 1000000].

(* two kinds with the same name and size but other atom names; the first comes back after the second *)
Definition lig_a1 := mkAtom 1 "LIG" "A" 1 0.
Definition lig_a2 := mkAtom 1 "LIG" "B" 2 1.
Definition lig_b1 := mkAtom 2 "LIG" "C" 3 2.
Definition lig_b2 := mkAtom 2 "LIG" "D" 4 3.
Definition lig_c1 := mkAtom 3 "LIG" "A" 5 4.
Definition lig_c2 := mkAtom 3 "LIG" "B" 6 5.
Definition lig_s := mkAtom 4 "SOL" "O" 7 6.
Definition lig_file : grofile :=
  mkGro "LIG" [lig_a1; lig_a2; lig_b1; lig_b2; lig_c1; lig_c2; lig_s] [1000000; 0; 0; 0; 1000000; 0; 0; 0; 1000000].

(* a history that starts from a reader left in the middle of nowhere *)
Definition lig_history : list op :=
  [IterNew; IterStep 0; Index (-1); IterStep 0; Index 0; Slice (Some (-2)) None None; IterStep 0;
   Slice None None (Some (-2)); IterPrefix 2; Index 7; IterStep 0; IterStep 0].
Definition odd_state : hstate := mkH (mkReader 99 3) [].
