(* Structure lemmas about Model/Align.v that hold for EVERY Scalar instance: the positions setter, what
   align_prep / align_with are made of, an invariant principle for the Monte-Carlo loop. *)
From Coq Require Import ZArith String Bool Arith Lia List.
Import ListNotations.
From GM Require Import Base.Res Base.Scalar Base.Vec Model.Aux Model.Transform Model.Chi2 Model.MC Model.Restraints
  Model.Align Proofs.RestraintsFilter.
From GM Require Proofs.MC.

(* ------------------------------------------------------------------ lists *)
Lemma combine_map_snd {A B} (l : list A) (l' : list B) : length l = length l' -> map snd (combine l l') = l'.
Proof.
  revert l'; induction l as [|x xs IH]; destruct l' as [|y ys]; simpl; intros E; try discriminate; auto.
  f_equal; apply IH; lia.
Qed.
Lemma combine_map_fst {A B} (l : list A) (l' : list B) : length l = length l' -> map fst (combine l l') = l.
Proof.
  revert l'; induction l as [|x xs IH]; destruct l' as [|y ys]; simpl; intros E; try discriminate; auto.
  f_equal; apply IH; lia.
Qed.

(* mapM: membership in the result *)
Lemma mapM_In {A B} (f : A -> res B) : forall l l', mapM f l = Ok l' ->
  forall y, In y l' <-> exists x, In x l /\ f x = Ok y.
Proof.
  induction l as [|x xs IH]; simpl; intros l' E y.
  - inversion E; subst. simpl. split; [contradiction|intros [x [[] _]]].
  - destruct (f x) as [b|] eqn:Ef; simpl in E; [|discriminate].
    destruct (mapM f xs) as [bs|] eqn:Em; simpl in E; [|discriminate].
    inversion E; subst; clear E. simpl. rewrite (IH bs eq_refl y). split.
    + intros [Hy|[x' [Hx Hf]]]; [subst; exists x; auto|exists x'; auto].
    + intros [x' [[Hx|Hx] Hf]]; [subst; left; congruence|right; exists x'; auto].
Qed.

Lemma Forall2_nth {A B} (R : A -> B -> Prop) : forall (l1 : list A) (l2 : list B),
  length l1 = length l2 ->
  (forall i a b, nth_error l1 i = Some a -> nth_error l2 i = Some b -> R a b) -> Forall2 R l1 l2.
Proof.
  induction l1 as [|x xs IH]; destruct l2 as [|y ys]; simpl; intros E Hn; try discriminate; constructor.
  - apply (Hn 0); reflexivity.
  - apply IH; [lia|]. intros i a b Ha Hb. apply (Hn (S i)); assumption.
Qed.

Lemma nth_error_seq0 n i : i < n -> nth_error (seq 0 n) i = Some i.
Proof.
  intros Hi. rewrite (nth_error_nth' (seq 0 n) 0) by (rewrite seq_length; exact Hi).
  rewrite seq_nth by exact Hi. reflexivity.
Qed.

Section Base.
Context {T : Type} `{Scalar T}.
Variables scos ssin : T -> T.
Notation pos := (list (V3 T)).

(* ------------------------------------------------------------------ the positions setter *)
Lemma set_res_pos_spec : forall (rs : list (residue (V3 T))) (ps : pos),
  length ps = length (flat_map r_atoms rs) ->
  map a_pos (flat_map r_atoms (set_res_pos rs ps)) = ps /\
  map a_name (flat_map r_atoms (set_res_pos rs ps)) = map a_name (flat_map r_atoms rs) /\
  map r_name (set_res_pos rs ps) = map r_name rs /\
  map (fun r : residue (V3 T) => length (r_atoms r)) (set_res_pos rs ps) =
  map (fun r : residue (V3 T) => length (r_atoms r)) rs.
Proof.
  induction rs as [|r rs IH]; intros ps E.
  - simpl in *. destruct ps; [auto|discriminate].
  - simpl in E. rewrite app_length in E.
    assert (E1 : length (firstn (length (r_atoms r)) ps) = length (r_atoms r)) by (rewrite firstn_length; lia).
    assert (E2 : length (skipn (length (r_atoms r)) ps) = length (flat_map r_atoms rs)) by (rewrite skipn_length; lia).
    destruct (IH _ E2) as (I1 & I2 & I3 & I4).
    cbn [set_res_pos flat_map r_atoms r_name map]. rewrite !map_app, I1, I2, I3, I4.
    rewrite !map_map. cbn [a_pos a_name].
    change (map (fun x : atom (V3 T) * V3 T => snd x) (combine (r_atoms r) (firstn (length (r_atoms r)) ps)))
      with (map snd (combine (r_atoms r) (firstn (length (r_atoms r)) ps))).
    rewrite combine_map_snd by (symmetry; exact E1).
    rewrite <- (map_map fst a_name), combine_map_fst by (symmetry; exact E1).
    rewrite firstn_skipn. rewrite map_length, combine_length, E1, Nat.min_id.
    repeat split; reflexivity.
Qed.

Lemma set_positions_spec (m m' : amol T) (ps : pos) : set_positions m ps = Ok m' ->
  length ps = am_len m /\ am_pos m' = ps /\ am_names m' = am_names m /\ am_adj m' = am_adj m /\
  am_resnames m' = am_resnames m /\ am_sizes m' = am_sizes m /\ am_len m' = am_len m.
Proof.
  unfold set_positions. destruct (Nat.eqb (length ps) (am_len m)) eqn:E; [|discriminate].
  apply Nat.eqb_eq in E. intros Hm; inversion Hm; subst; clear Hm.
  destruct (set_res_pos_spec (am_res m) ps E) as (I1 & I2 & I3 & I4).
  unfold am_pos, am_names, am_resnames, am_sizes, am_len, am_atoms; cbn [am_res am_adj].
  repeat split; auto.
  rewrite <- (map_length a_pos), I1. exact E.
Qed.

Lemma set_positions_ok (m : amol T) (ps : pos) : length ps = am_len m -> exists m', set_positions m ps = Ok m'.
Proof. intros E. unfold set_positions. apply Nat.eqb_eq in E. rewrite E. eauto. Qed.

Lemma translate_length (ps : pos) d : length (translate ps d) = length ps.
Proof. apply map_length. Qed.

Lemma centroid_ok (ps : pos) c : centroid ps = Ok c -> c = vmean ps /\ ps <> [].
Proof. destruct ps; simpl; intros E; inversion E; split; [reflexivity|discriminate]. Qed.

(* ------------------------------------------------------------------ what a prepared call is made of *)
Definition eff_deform (start end_ : amol T) (deform : option (list Z)) : list Z :=
  match deform with
  | Some d => d
  | None => if (am_len start =? 1) || (am_len end_ =? 1) then [0%Z] else [0%Z; 1%Z; 2%Z]
  end.

Record prep_facts (sf : nat) (start end_ : amol T) (deform : option (list Z)) (start1 : amol T)
    (o : option (opt_call T)) : Prop := {
  pf_start1 : set_positions start (translate (am_pos start) (vsub (vmean (am_pos end_)) (vmean (am_pos start)))) = Ok start1;
  pf_nonempty : am_pos start <> [] /\ am_pos end_ <> [];
  pf_call : forall oc, o = Some oc ->
    let mobile := if am_len start1 <? am_len end_ then start1 else end_ in
    ma_mobile (oc_args oc) = am_pos mobile /\
    bonds_distance (ma_mobile (oc_args oc)) (am_adj mobile) = Ok (ma_table (oc_args oc)) /\
    ma_steps (oc_args oc) = sf * length (ma_mobile (oc_args oc)) /\
    mapM kind_of (eff_deform start end_ deform) = Ok (oc_sim oc) /\
    ma_deform (oc_args oc) = eff_deform start end_ deform }.

Lemma align_prep_facts sf start end_ restr deform ign autog start1 o :
  align_prep sf start end_ restr deform ign autog = Ok (start1, o) ->
  prep_facts sf start end_ deform start1 o.
Proof.
  unfold align_prep. intros E.
  apply bind_ok in E. destruct E as (ce & Ece & E).
  apply bind_ok in E. destruct E as (cs & Ecs & E).
  apply centroid_ok in Ece. destruct Ece as [-> Hne].
  apply centroid_ok in Ecs. destruct Ecs as [-> Hns].
  apply bind_ok in E. destruct E as (s1 & Es1 & E).
  apply bind_ok in E. destruct E as (conn & Econn & E).
  apply bind_ok in E. destruct E as (oc & Eoc & E).
  destruct (set_positions_spec _ _ _ Es1) as (_ & _ & _ & _ & _ & _ & Hlen1).
  destruct oc as [|c].
  - inversion E; subst. constructor; auto. intros oc Hoc; discriminate.
  - apply bind_ok in E. destruct E as (tb & Etb & E).
    apply bind_ok in E. destruct E as (com & Ecom & E).
    apply bind_ok in E. destruct E as (tbf & Etbf & E).
    apply bind_ok in E. destruct E as (sh & Esh & E).
    apply bind_ok in E. destruct E as (rn & Ern & E).
    apply bind_ok in E. destruct E as (sim & Esim & E).
    apply bind_ok in E. destruct E as (calc & Ecalc & E).
    apply bind_ok in E. destruct E as (e0 & Ee0 & E).
    inversion E; subst; clear E.
    pose proof Eoc as Eoc'. unfold align_args in Eoc'. apply bind_ok in Eoc'. destruct Eoc' as (r1 & Er1 & _).
    destruct (align_args_call _ _ _ _ _ _ _ _ Er1 Eoc) as (_ & _ & Cm & Cd & _).
    change (m_len (as_mol start1 conn)) with (am_len start1) in *.
    change (m_len (as_mol end_ conn)) with (am_len end_) in *.
    assert (Hd : default_deformations (as_mol start1 conn) (as_mol end_ conn) deform = eff_deform start end_ deform).
    { unfold default_deformations, eff_deform.
      change (m_len (as_mol start1 conn)) with (am_len start1).
      change (m_len (as_mol end_ conn)) with (am_len end_). rewrite Hlen1. reflexivity. }
    constructor; auto. intros oc Hoc. inversion Hoc; subst oc; clear Hoc. cbn [oc_args oc_sim ma_mobile ma_table ma_steps ma_deform].
    assert (Hm : c_mobile_pos c = am_pos (if am_len start1 <? am_len end_ then start1 else end_)).
    { rewrite Cm. destruct (am_len start1 <? am_len end_); reflexivity. }
    repeat split.
    + exact Hm.
    + exact Etb.
    + rewrite <- Hd, <- Cd. exact Esim.
    + rewrite <- Hd. exact Cd.
Qed.

(* ------------------------------------------------------------------ what a complete run is made of *)
Lemma align_with_inv sf start end_ restr deform ign autog s fuel r :
  align_with scos ssin sf start end_ restr deform ign autog s fuel = Ok r ->
  exists start1 o, align_prep sf start end_ restr deform ign autog = Ok (start1, o) /\
    match o with
    | None => r = mkAR start1 end_ None []
    | Some oc => exists tr final, run_opt scos ssin oc s fuel = (tr, Ok final) /\
        if am_len start1 <? am_len end_
        then exists s2, set_positions start1 final = Ok s2 /\ r = mkAR s2 end_ (Some (oc_args oc)) tr
        else exists e2, set_positions end_ final = Ok e2 /\ r = mkAR start1 e2 (Some (oc_args oc)) tr
    end.
Proof.
  unfold align_with. intros E. apply bind_ok in E. destruct E as ([start1 o] & Ep & E).
  exists start1, o. split; [exact Ep|]. cbn [fst snd] in E.
  destruct o as [oc|].
  - destruct (run_opt scos ssin oc s fuel) as [tr out] eqn:Er.
    apply bind_ok in E. destruct E as (final & Eout & E). subst out.
    exists tr, final. split; [reflexivity|].
    destruct (am_len start1 <? am_len end_).
    + apply bind_ok in E. destruct E as (s2 & Es2 & E). inversion E. eauto.
    + apply bind_ok in E. destruct E as (e2 & Ee2 & E). inversion E. eauto.
  - inversion E. reflexivity.
Qed.

(* ------------------------------------------------------------------ invariants of the loop *)
(* a property of configurations kept by every proposal of an enabled type holds of the configuration
   returned *)
Lemma held_invariant (conf P : Type) (chi2 : conf -> T) (propose : nat -> P -> conf -> res conf)
    (sim : list nat) (I : conf -> Prop) :
  (forall kind p c c', In kind sim -> propose kind p c = Ok c' -> I c -> I c') ->
  forall tr st, Proofs.MC.chained conf st tr -> Forall (Proofs.MC.step_ok conf P chi2 propose sim) tr ->
    I (held st) -> I (held (Proofs.MC.final_state conf st tr)).
Proof.
  intros Hstep. induction tr as [|r tr IH]; intros st Hc Hf Hi; [exact Hi|].
  destruct Hc as [Hb Hc]. inversion Hf as [|? ? Hr Hf']; subst.
  unfold Proofs.MC.final_state; simpl. apply IH; auto.
  destruct Hr as (Hk & [p Hp] & _ & _ & _ & Ha). rewrite Ha, Proofs.MC.next_held.
  destruct (sr_acc r); [|exact Hi]. eapply Hstep; eauto.
Qed.

Lemma run_invariant (conf P : Type) (chi2 : conf -> T) (propose : nat -> P -> conf -> res conf)
    (sim : list nat) (n fuel : nat) (init : conf) (s : stream T P) tr final (I : conf -> Prop) :
  mc_run conf P chi2 propose sim n fuel init s = (tr, Ok final) ->
  (forall kind p c c', In kind sim -> propose kind p c = Ok c' -> I c -> I c') ->
  I init -> I final.
Proof.
  intros Hrun Hstep Hi.
  destruct (Proofs.MC.run_trace _ _ _ _ _ _ _ _ _ _ _ Hrun) as (Hc & Hf & _ & Ho).
  destruct Ho as [-> _]. eapply held_invariant; eauto.
Qed.

(* the guard of `propose` *)
Lemma propose_geo_of c tb ss kind p (ps test : pos) :
  propose scos ssin c tb ss kind p ps = Ok test ->
  propose_geo (adraw T) scos ssin (atom_move tb ss) kind p ps = Ok test /\ exists v, chi2_call c test = Ok v.
Proof.
  unfold propose. intros E. apply bind_ok in E. destruct E as (t & Et & E).
  apply bind_ok in E. destruct E as (v & Ev & E). inversion E; subst. eauto.
Qed.

(* deformation types as naturals *)
Lemma kind_of_2 z : kind_of z = Ok 2 -> z = 2%Z.
Proof.
  unfold kind_of. destruct ((0 <=? z)%Z && (z <=? 2)%Z) eqn:E; [|discriminate].
  apply andb_prop in E. destruct E as [E1 E2]. apply Z.leb_le in E1, E2.
  intros Hz; inversion Hz. lia.
Qed.

End Base.
