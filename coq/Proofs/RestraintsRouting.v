(* Option routing of Manager.align_molecules: lemmas for C10_routing. *)
From Coq Require Import String Bool Arith ZArith Lia List.
From GM Require Import Base.Res Model.Restraints.
Import ListNotations.

(* ------------------------------------------------------------------ mapM *)
Lemma mapM_in {A B} (f : A -> res B) l out x :
  mapM f l = Ok out -> In x l -> exists y, f x = Ok y /\ In y out.
Proof.
  revert out; induction l as [|a t IH]; intros out H Hin; [contradiction|].
  simpl in H. destruct (f a) eqn:Fa; simpl in H; [|discriminate].
  destruct (mapM f t) eqn:Ft; simpl in H; [|discriminate]. inversion H; subst; clear H.
  destruct Hin as [->|Hin]; [exists b; simpl; auto|].
  destruct (IH _ eq_refl Hin) as [y [Hy Hi]]. exists y; simpl; auto.
Qed.

Lemma mapM_in_inv {A B} (f : A -> res B) l out y :
  mapM f l = Ok out -> In y out -> exists x, In x l /\ f x = Ok y.
Proof.
  revert out; induction l as [|a t IH]; intros out H Hin; simpl in H.
  - inversion H; subst; contradiction.
  - destruct (f a) eqn:Fa; simpl in H; [|discriminate].
    destruct (mapM f t) eqn:Ft; simpl in H; [|discriminate]. inversion H; subst; clear H.
    destruct Hin as [->|Hin]; [exists a; simpl; auto|].
    destruct (IH _ eq_refl Hin) as [x [Hx Hf]]. exists x; simpl; auto.
Qed.

Lemma mapM_err {A B} (f : A -> res B) l e :
  mapM f l = Err e -> exists x, In x l /\ f x = Err e.
Proof.
  induction l as [|a t IH]; simpl; [discriminate|].
  destruct (f a) eqn:Fa; simpl.
  - destruct (mapM f t); simpl; [discriminate|]. intros H; inversion H; subst.
    destruct (IH eq_refl) as [x [Hx Hf]]. exists x; auto.
  - intros H; inversion H; subst. exists a; auto.
Qed.

Lemma mapM_total {A B} (f : A -> res B) l :
  (forall x, In x l -> exists y, f x = Ok y) -> exists out, mapM f l = Ok out.
Proof.
  induction l as [|a t IH]; intros H; simpl; [eauto|].
  destruct (H a (or_introl eq_refl)) as [y Hy]. rewrite Hy; simpl.
  destruct IH as [out Ho]; [intros; apply H; simpl; auto|]. rewrite Ho; simpl; eauto.
Qed.

Lemma mapM_keys {A B C} (f : A -> res B) (ka : A -> C) (kb : B -> C) l out :
  mapM f l = Ok out -> (forall x y, f x = Ok y -> kb y = ka x) -> map kb out = map ka l.
Proof.
  revert out; induction l as [|a t IH]; intros out H Hk; simpl in H.
  - inversion H; reflexivity.
  - destruct (f a) eqn:Fa; simpl in H; [|discriminate].
    destruct (mapM f t) eqn:Ft; simpl in H; [|discriminate]. inversion H; subst; clear H.
    simpl. f_equal; [now apply Hk|]. now apply IH.
Qed.

(* ------------------------------------------------------------------ dictionaries *)
Lemma lookup_in {A} k (l : list (string * A)) v : lookup k l = Some v -> In (k, v) l.
Proof.
  unfold lookup. induction l as [|[k' v'] t IH]; simpl; [discriminate|].
  destruct (String.eqb_spec k k') as [->|]; [intros H; inversion H; auto|auto].
Qed.

Lemma lookup_none {A} k (l : list (string * A)) : lookup k l = None <-> ~ In k (map fst l).
Proof.
  unfold lookup. induction l as [|[k' v'] t IH]; simpl; [tauto|].
  destruct (String.eqb_spec k k') as [->|Hne]; [split; [discriminate|tauto]|].
  rewrite IH. split; [intros H [E|I]; [congruence|tauto]|tauto].
Qed.

Lemma has_key_in {A} k (l : list (string * A)) : has_key k l = true <-> In k (map fst l).
Proof.
  unfold has_key. destruct (lookup k l) eqn:E.
  - split; [|reflexivity]. intros _. apply lookup_in in E. apply in_map_iff. exists (k, a); auto.
  - split; [discriminate|]. intros H. apply lookup_none in E. contradiction.
Qed.

Lemma check_keys_ok {A B} (d : list (string * A)) (comp : list (string * B)) :
  check_keys d comp = Ok tt <-> (forall k, In k (map fst d) -> In k (map fst comp)).
Proof.
  unfold check_keys. destruct (forallb _ d) eqn:E.
  - split; [|reflexivity]. intros _ k Hk. rewrite forallb_forall in E.
    apply in_map_iff in Hk. destruct Hk as [[k' v] [<- Hin]]. apply has_key_in. apply (E _ Hin).
  - split; [discriminate|]. intros H. assert (forallb (fun kv => has_key (fst kv) comp) d = true); [|congruence].
    apply forallb_forall. intros [k v] Hin. apply has_key_in. apply H. apply in_map_iff. exists (k, v); auto.
Qed.

Lemma check_keys_err {A B} (d : list (string * A)) (comp : list (string * B)) e :
  check_keys d comp = Err e -> e = EKey /\ exists k, In k (map fst d) /\ ~ In k (map fst comp).
Proof.
  unfold check_keys. destruct (forallb _ d) eqn:E; [discriminate|]. intros H; inversion H; subst.
  split; [reflexivity|].
  assert (G : exists kv, In kv d /\ has_key (fst kv) comp = false).
  { clear H. induction d as [|kv t IH]; simpl in E; [discriminate|].
    destruct (has_key (fst kv) comp) eqn:K; simpl in E.
    - destruct (IH E) as [x [Hx Hk]]. exists x; simpl; auto.
    - exists kv; simpl; auto. }
  destruct G as [[k v] [Hin Hk]]. exists k. split; [apply in_map_iff; exists (k, v); auto|].
  intros Hc. apply has_key_in in Hc. simpl in Hk. congruence.
Qed.

Lemma check_keys_unknown {A B} (d : list (string * A)) (comp : list (string * B)) k :
  In k (map fst d) -> ~ In k (map fst comp) -> check_keys d comp = Err EKey.
Proof.
  intros H1 H2. destruct (check_keys d comp) as [[]|e] eqn:E.
  - exfalso. apply H2. now apply (proj1 (check_keys_ok d comp) E).
  - apply check_keys_err in E. destruct E as [-> _]. reflexivity.
Qed.

(* ------------------------------------------------------------------ value validators *)
Definition tuple_of (p : Z * Z) : rentry := RTuple [fst p; snd p].

Lemma validate_entry_ok ns ne e p :
  validate_entry ns ne e = Ok p <->
  e = tuple_of p /\ valid_index ns (fst p) = true /\ valid_index ne (snd p) = true.
Proof.
  unfold validate_entry, tuple_of. split.
  - destruct e as [|[|a [|b [|c t]]]]; try discriminate.
    destruct (valid_index ns a) eqn:Va; [|discriminate].
    destruct (valid_index ne b) eqn:Vb; [|discriminate].
    intros H; inversion H; subst; simpl; auto.
  - intros [-> [Va Vb]]. destruct p as [a b]; simpl in *. now rewrite Va, Vb.
Qed.

Lemma validate_entry_err ns ne e x : validate_entry ns ne e = Err x -> x = EValue.
Proof.
  unfold validate_entry. destruct e as [|[|a [|b [|c t]]]]; try (intros H; now inversion H).
  destruct (valid_index ns a); [|intros H; now inversion H].
  destruct (valid_index ne b); intros H; now inversion H.
Qed.

Lemma validate_index_ok ns ne l v :
  validate_index ns ne l = Ok v <->
  l = map tuple_of v /\
  Forall (fun p => valid_index ns (fst p) = true /\ valid_index ne (snd p) = true) v.
Proof.
  unfold validate_index. revert v; induction l as [|e t IH]; intros v; simpl.
  - split.
    + intros H; inversion H; subst. split; [reflexivity|constructor].
    + intros [H _]. destruct v; [reflexivity|discriminate].
  - split.
    + destruct (validate_entry ns ne e) as [p|] eqn:Ve; simpl; [|discriminate].
      destruct (mapM (validate_entry ns ne) t) as [v'|] eqn:Vt; simpl; [|discriminate].
      intros H; inversion H; subst; clear H. apply validate_entry_ok in Ve. destruct Ve as [-> Hv].
      destruct (proj1 (IH v') eq_refl) as [-> Hf]. split; [reflexivity|constructor; assumption].
    + intros [H Hf]. destruct v as [|p v']; [discriminate|]. simpl in H. inversion H; subst; clear H.
      inversion Hf; subst. rewrite (proj2 (validate_entry_ok ns ne (tuple_of p) p)) by auto. simpl.
      rewrite (proj2 (IH v')) by auto. reflexivity.
Qed.

Lemma parse_deformation_err v e : parse_deformation v = Err e -> e = EValue.
Proof.
  destruct v as [|z|[|a l]]; simpl; try discriminate.
  - destruct (z =? 0)%Z; [discriminate|]. intros H; now inversion H.
  - destruct (length l <=? 2); simpl; [discriminate|]. intros H; now inversion H.
Qed.

(* ------------------------------------------------------------------ specification vocabulary *)
(* what the alignment of species n (start/end lengths ns/ne) must receive, given the user's dictionaries *)
Definition restr_spec (r : option (list (string * rvalue))) (n : string) (ns ne : nat)
  (rv : option (list (Z * Z))) : Prop :=
  match r with
  | None => rv = None
  | Some dd =>
      match lookup n dd with
      | Some (Some (e :: es)) =>
          exists v, rv = Some v /\ e :: es = map tuple_of v /\
            Forall (fun p => valid_index ns (fst p) = true /\ valid_index ne (snd p) = true) v
      | _ => rv = None
      end
  end.

Definition deform_spec (d : option (list (string * dvalue))) (n : string) (dv : option (list Z)) : Prop :=
  match d with
  | None => dv = None
  | Some dd => match lookup n dd with
               | None => dv = None
               | Some v => parse_deformation v = Ok dv
               end
  end.

Definition ign_spec (i : option (list (string * ivalue))) (n : string) (iv : bool) : Prop :=
  match i with
  | None => iv = true
  | Some dd => match lookup n dd with
               | None => iv = true
               | Some v => v = IBool iv
               end
  end.

Definition call_name (c : mcall) : string := fst (fst (fst c)).

(* ------------------------------------------------------------------ the three parsers *)
Lemma parse_restrictions_ok comp r pr :
  parse_restrictions comp r = Ok pr ->
  map fst pr = map fst comp /\
  (forall n ns ne, In (n, (ns, ne)) comp -> exists rv, In (n, rv) pr /\ restr_spec r n ns ne rv) /\
  (forall dd, r = Some dd -> forall k, In k (map fst dd) -> In k (map fst comp)).
Proof.
  unfold parse_restrictions. destruct r as [dd|].
  - destruct (check_keys dd comp) as [[]|] eqn:Ck; simpl; [|discriminate]. intros H. repeat split.
    + eapply mapM_keys; [exact H|]. intros [n [ns ne]] y; simpl.
      destruct (lookup n dd) as [[[|e es]|]|]; try (intros E; inversion E; reflexivity).
      destruct (validate_index ns ne (e :: es)); simpl; intros E; inversion E; reflexivity.
    + intros n ns ne Hin. destruct (mapM_in _ _ _ _ H Hin) as [y [Hy Hi]]. simpl in Hy.
      unfold restr_spec. destruct (lookup n dd) as [[[|e es]|]|].
      * inversion Hy; subst. eauto.
      * destruct (validate_index ns ne (e :: es)) as [v|] eqn:Hv; simpl in Hy; [|discriminate].
        inversion Hy; subst. exists (Some v). split; [assumption|]. exists v.
        apply validate_index_ok in Hv. tauto.
      * inversion Hy; subst. eauto.
      * inversion Hy; subst. eauto.
    + intros dd' E; inversion E; subst. now apply check_keys_ok.
  - intros H; inversion H; subst; clear H. repeat split.
    + rewrite map_map. reflexivity.
    + intros n ns ne Hin. exists None. split; [|reflexivity].
      apply in_map_iff. exists (n, (ns, ne)); auto.
    + discriminate.
Qed.

Lemma parse_deformations_ok {B} (comp : list (string * B)) d pd :
  parse_deformations comp d = Ok pd ->
  map fst pd = map fst comp /\
  (forall n dv, In (n, dv) pd -> deform_spec d n dv) /\
  (forall dd, d = Some dd -> forall k, In k (map fst dd) -> In k (map fst comp)).
Proof.
  unfold parse_deformations. destruct d as [dd|].
  - destruct (check_keys dd comp) as [[]|] eqn:Ck; simpl; [|discriminate]. intros H. repeat split.
    + eapply mapM_keys; [exact H|]. intros [n b] y; simpl.
      destruct (lookup n dd) as [v|]; [|intros E; inversion E; reflexivity].
      destruct (parse_deformation v); simpl; intros E; inversion E; reflexivity.
    + intros n dv Hin. destruct (mapM_in_inv _ _ _ _ H Hin) as [[n' b] [Hx Hf]]. simpl in Hf.
      unfold deform_spec. destruct (lookup n' dd) as [v|] eqn:L.
      * destruct (parse_deformation v) eqn:Pv; simpl in Hf; [|discriminate].
        inversion Hf; subst. now rewrite L.
      * inversion Hf; subst. now rewrite L.
    + intros dd' E; inversion E; subst. now apply check_keys_ok.
  - intros H; inversion H; subst; clear H. repeat split.
    + rewrite map_map. reflexivity.
    + intros n dv Hin. apply in_map_iff in Hin. destruct Hin as [c [E _]]. now inversion E.
    + discriminate.
Qed.

Lemma parse_ignore_ok {B} (comp : list (string * B)) i pi :
  parse_ignore_hydrogens comp i = Ok pi ->
  map fst pi = map fst comp /\
  (forall n iv, In (n, iv) pi -> ign_spec i n iv) /\
  (forall dd, i = Some dd -> forall k, In k (map fst dd) -> In k (map fst comp)).
Proof.
  unfold parse_ignore_hydrogens. destruct i as [dd|].
  - destruct (check_keys dd comp) as [[]|] eqn:Ck; simpl; [|discriminate]. intros H. repeat split.
    + eapply mapM_keys; [exact H|]. intros [n b] y; simpl.
      destruct (lookup n dd) as [[bb|]|]; intros E; inversion E; reflexivity.
    + intros n iv Hin. destruct (mapM_in_inv _ _ _ _ H Hin) as [[n' b] [Hx Hf]]. simpl in Hf.
      unfold ign_spec. destruct (lookup n' dd) as [[bb|]|] eqn:L; inversion Hf; subst; now rewrite L.
    + intros dd' E; inversion E; subst. now apply check_keys_ok.
  - intros H; inversion H; subst; clear H. repeat split.
    + rewrite map_map. reflexivity.
    + intros n iv Hin. apply in_map_iff in Hin. destruct Hin as [c [E _]]. now inversion E.
    + discriminate.
Qed.

Lemma lookup_some_of_key {A} k (l : list (string * A)) : In k (map fst l) -> exists v, lookup k l = Some v.
Proof.
  intros H. destruct (lookup k l) eqn:E; [eauto|]. apply lookup_none in E. contradiction.
Qed.

(* ------------------------------------------------------------------ the loop *)
Lemma run_calls_all_ok calls result :
  (forall c, In c calls -> result c = Ok tt) -> run_calls calls result = (calls, Ok tt).
Proof.
  induction calls as [|c t IH]; intros H; simpl; [reflexivity|].
  rewrite (H c (or_introl eq_refl)). rewrite IH by (intros; apply H; simpl; auto). reflexivity.
Qed.

Lemma run_calls_prefix calls result :
  exists k, fst (run_calls calls result) = firstn k calls /\
    (snd (run_calls calls result) = Ok tt -> k = length calls) /\
    (forall e, snd (run_calls calls result) = Err e ->
       exists c, nth_error calls (k - 1) = Some c /\ 1 <= k /\ result c = Err e).
Proof.
  induction calls as [|c t IH]; simpl.
  - exists 0. repeat split; try discriminate.
  - destruct (result c) as [[]|e] eqn:Rc.
    + destruct IH as [k [H1 [H2 H3]]]. exists (S k). simpl. rewrite H1. repeat split.
      * intros H. f_equal. now apply H2.
      * intros e He. destruct (H3 e He) as [c' [Hn [Hk Hr]]]. exists c'.
        replace (k - 0) with (S (k - 1)) by lia. simpl. auto.
    + exists 1. simpl. repeat split; try discriminate.
      intros e' He. inversion He; subst. exists c. auto.
Qed.

(* ------------------------------------------------------------------ C10_routing *)
Lemma complete_names mc n : In n (map fst (complete mc)) -> In n (map sp_name mc).
Proof.
  unfold complete. induction mc as [|s t IH]; simpl; [tauto|].
  destruct (sp_nend s); simpl; [intros [H|H]; auto|auto].
Qed.

Lemma complete_nodup mc : NoDup (map sp_name mc) -> NoDup (map fst (complete mc)).
Proof.
  induction mc as [|s t IH]; simpl; intros H; [constructor|]. inversion H; subst.
  unfold complete; simpl. destruct (sp_nend s); simpl; [|now apply IH].
  constructor; [|now apply IH]. intros Hc. apply H2. now apply complete_names.
Qed.

Lemma complete_in mc n ns ne :
  In (n, (ns, ne)) (complete mc) <-> exists s, In s mc /\ sp_name s = n /\ sp_nstart s = ns /\ sp_nend s = Some ne.
Proof.
  unfold complete. induction mc as [|s t IH]; simpl.
  - split; [contradiction|intros [s [[] _]]].
  - destruct (sp_nend s) as [e|] eqn:E; simpl; rewrite IH; split.
    + intros [H|[s' [H1 H2]]]; [inversion H; subst; exists s; auto|exists s'; auto].
    + intros [s' [[->|H1] [H2 [H3 H4]]]]; [left; rewrite E in H4; inversion H4; subst; reflexivity|right; eauto].
    + intros [s' [H1 H2]]; eauto.
    + intros [s' [[->|H1] [H2 [H3 H4]]]]; [congruence|eauto].
Qed.

Lemma routing_ok mc r d i calls :
  parse_options mc r d i = Ok calls ->
  map call_name calls = map fst (complete mc) /\
  (forall n ns ne, In (n, (ns, ne)) (complete mc) ->
     exists rv dv iv, In (n, rv, dv, iv) calls /\
       restr_spec r n ns ne rv /\ deform_spec d n dv /\ ign_spec i n iv) /\
  (forall result, (forall c, In c calls -> result c = Ok tt) ->
     manager_align mc r d i result = (calls, Ok tt)) /\
  (forall result, exists k, fst (manager_align mc r d i result) = firstn k calls) /\
  (* all keys of all dictionaries name species that have both molecules *)
  (forall dd, r = Some dd -> forall k, In k (map fst dd) -> In k (map fst (complete mc))) /\
  (forall dd, d = Some dd -> forall k, In k (map fst dd) -> In k (map fst (complete mc))) /\
  (forall dd, i = Some dd -> forall k, In k (map fst dd) -> In k (map fst (complete mc))).
Proof.
  intros H. pose proof H as H0. unfold parse_options in H.
  destruct (parse_restrictions (complete mc) r) as [pr|] eqn:Pr; simpl in H; [|discriminate].
  destruct (parse_deformations (complete mc) d) as [pd|] eqn:Pd; simpl in H; [|discriminate].
  destruct (parse_ignore_hydrogens (complete mc) i) as [pi|] eqn:Pi; simpl in H; [|discriminate].
  destruct (parse_restrictions_ok _ _ _ Pr) as [R1 [R2 R3]].
  destruct (parse_deformations_ok _ _ _ Pd) as [D1 [D2 D3]].
  destruct (parse_ignore_ok _ _ _ Pi) as [I1 [I2 I3]].
  split; [|split; [|split; [|split; [|split; [|split]]]]]; try assumption.
  - rewrite <- R1. eapply mapM_keys; [exact H|]. intros [n rv] y; simpl.
    destruct (lookup n pd), (lookup n pi), (lookup n (complete mc)); intros E; inversion E; reflexivity.
  - intros n ns ne Hin. destruct (R2 _ _ _ Hin) as [rv [Hrv Hs]].
    destruct (mapM_in _ _ _ _ H Hrv) as [y [Hy Hi]]. simpl in Hy.
    destruct (lookup n pd) as [dv|] eqn:Ld; [|discriminate].
    destruct (lookup n pi) as [iv|] eqn:Li; [|discriminate].
    destruct (lookup n (complete mc)); [|discriminate]. inversion Hy; subst; clear Hy.
    exists rv, dv, iv. split; [assumption|]. split; [assumption|].
    split; [apply D2; now apply lookup_in|apply I2; now apply lookup_in].
  - intros result Hr. unfold manager_align. rewrite H0. now apply run_calls_all_ok.
  - intros result. unfold manager_align. rewrite H0.
    destruct (run_calls_prefix calls result) as [k [Hk _]]. eauto.
Qed.

Lemma routing_unique mc r d i calls :
  NoDup (map sp_name mc) -> parse_options mc r d i = Ok calls -> NoDup (map call_name calls).
Proof.
  intros Hn H. destruct (routing_ok _ _ _ _ _ H) as [E _]. rewrite E. now apply complete_nodup.
Qed.

(* rejection: nothing is aligned, and the error is a KeyError or a ValueError *)
Lemma routing_rejects mc r d i e :
  parse_options mc r d i = Err e ->
  (e = EKey \/ e = EValue) /\ forall result, manager_align mc r d i result = ([], Err e).
Proof.
  intros H. split; [|intros result; unfold manager_align; now rewrite H].
  unfold parse_options in H.
  destruct (parse_restrictions (complete mc) r) as [pr|e1] eqn:Pr; simpl in H.
  2:{ inversion H; subst; clear H. unfold parse_restrictions in Pr. destruct r as [dd|]; [|discriminate].
      destruct (check_keys dd (complete mc)) as [[]|e2] eqn:Ck; simpl in Pr.
      - apply mapM_err in Pr. destruct Pr as [[n [ns ne]] [_ Hf]]. simpl in Hf.
        destruct (lookup n dd) as [[[|a es]|]|]; try discriminate.
        destruct (validate_index ns ne (a :: es)) eqn:V; simpl in Hf; [discriminate|].
        inversion Hf; subst. unfold validate_index in V. apply mapM_err in V.
        destruct V as [x [_ Hx]]. apply validate_entry_err in Hx. auto.
      - inversion Pr; subst. apply check_keys_err in Ck. destruct Ck as [-> _]. auto. }
  destruct (parse_deformations (complete mc) d) as [pd|e1] eqn:Pd; simpl in H.
  2:{ inversion H; subst; clear H. unfold parse_deformations in Pd. destruct d as [dd|]; [|discriminate].
      destruct (check_keys dd (complete mc)) as [[]|e2] eqn:Ck; simpl in Pd.
      - apply mapM_err in Pd. destruct Pd as [[n b] [_ Hf]]. simpl in Hf.
        destruct (lookup n dd) as [v|]; [|discriminate].
        destruct (parse_deformation v) eqn:V; simpl in Hf; [discriminate|].
        inversion Hf; subst. apply parse_deformation_err in V. auto.
      - inversion Pd; subst. apply check_keys_err in Ck. destruct Ck as [-> _]. auto. }
  destruct (parse_ignore_hydrogens (complete mc) i) as [pi|e1] eqn:Pi; simpl in H.
  2:{ inversion H; subst; clear H. unfold parse_ignore_hydrogens in Pi. destruct i as [dd|]; [|discriminate].
      destruct (check_keys dd (complete mc)) as [[]|e2] eqn:Ck; simpl in Pi.
      - apply mapM_err in Pi. destruct Pi as [[n b] [_ Hf]]. simpl in Hf.
        destruct (lookup n dd) as [[bb|]|]; try discriminate. inversion Hf; auto.
      - inversion Pi; subst. apply check_keys_err in Ck. destruct Ck as [-> _]. auto. }
  apply mapM_err in H. destruct H as [[n rv] [_ Hf]]. simpl in Hf.
  destruct (lookup n pd), (lookup n pi), (lookup n (complete mc)); inversion Hf; auto.
Qed.

(* an unknown species name in any dictionary is always rejected; with a KeyError unless an earlier
   dictionary (restrictions, then deformation types) already failed with its own error *)
Lemma routing_unknown mc r d i :
  (exists dd k, r = Some dd /\ In k (map fst dd) /\ ~ In k (map fst (complete mc))) \/
  (exists dd k, d = Some dd /\ In k (map fst dd) /\ ~ In k (map fst (complete mc))) \/
  (exists dd k, i = Some dd /\ In k (map fst dd) /\ ~ In k (map fst (complete mc))) ->
  (exists e, parse_options mc r d i = Err e) /\
  ((exists dd k, r = Some dd /\ In k (map fst dd) /\ ~ In k (map fst (complete mc))) ->
     parse_options mc r d i = Err EKey) /\
  (forall pr, parse_restrictions (complete mc) r = Ok pr ->
     (exists dd k, d = Some dd /\ In k (map fst dd) /\ ~ In k (map fst (complete mc))) ->
     parse_options mc r d i = Err EKey) /\
  (forall pr pd, parse_restrictions (complete mc) r = Ok pr -> parse_deformations (complete mc) d = Ok pd ->
     (exists dd k, i = Some dd /\ In k (map fst dd) /\ ~ In k (map fst (complete mc))) ->
     parse_options mc r d i = Err EKey).
Proof.
  intros H.
  assert (A1 : (exists dd k, r = Some dd /\ In k (map fst dd) /\ ~ In k (map fst (complete mc))) ->
               parse_options mc r d i = Err EKey).
  { intros [dd [k [-> [H1 H2]]]]. unfold parse_options, parse_restrictions.
    now rewrite (check_keys_unknown dd (complete mc) k H1 H2). }
  assert (A2 : forall pr, parse_restrictions (complete mc) r = Ok pr ->
               (exists dd k, d = Some dd /\ In k (map fst dd) /\ ~ In k (map fst (complete mc))) ->
               parse_options mc r d i = Err EKey).
  { intros pr Pr [dd [k [-> [H1 H2]]]]. unfold parse_options. rewrite Pr; simpl.
    unfold parse_deformations. now rewrite (check_keys_unknown dd (complete mc) k H1 H2). }
  assert (A3 : forall pr pd, parse_restrictions (complete mc) r = Ok pr -> parse_deformations (complete mc) d = Ok pd ->
               (exists dd k, i = Some dd /\ In k (map fst dd) /\ ~ In k (map fst (complete mc))) ->
               parse_options mc r d i = Err EKey).
  { intros pr pd Pr Pd [dd [k [-> [H1 H2]]]]. unfold parse_options. rewrite Pr; simpl. rewrite Pd; simpl.
    unfold parse_ignore_hydrogens. now rewrite (check_keys_unknown dd (complete mc) k H1 H2). }
  split; [|auto].
  destruct (parse_options mc r d i) as [calls|e] eqn:E; [|eauto]. exfalso.
  destruct (routing_ok _ _ _ _ _ E) as [_ [_ [_ [_ [K1 [K2 K3]]]]]].
  destruct H as [[dd [k [-> [H1 H2]]]]|[[dd [k [-> [H1 H2]]]]|[dd [k [-> [H1 H2]]]]]].
  - apply H2. now apply (K1 dd eq_refl).
  - apply H2. now apply (K2 dd eq_refl).
  - apply H2. now apply (K3 dd eq_refl).
Qed.

(* a malformed value for a species that has both molecules is always rejected *)
Lemma routing_malformed mc r d i n ns ne :
  In (n, (ns, ne)) (complete mc) -> NoDup (map sp_name mc) ->
  (exists dd l, r = Some dd /\ lookup n dd = Some (Some l) /\ l <> [] /\
                forall v, validate_index ns ne l <> Ok v) \/
  (exists dd v, d = Some dd /\ lookup n dd = Some v /\ forall dv, parse_deformation v <> Ok dv) \/
  (exists dd, i = Some dd /\ lookup n dd = Some IOther) ->
  exists e, parse_options mc r d i = Err e.
Proof.
  intros Hin Hnd H. destruct (parse_options mc r d i) as [calls|e] eqn:E; [|eauto]. exfalso.
  destruct (routing_ok _ _ _ _ _ E) as [_ [Hc _]].
  destruct (Hc _ _ _ Hin) as [rv [dv [iv [_ [Sr [Sd Si]]]]]].
  destruct H as [[dd [l [-> [L [Hl Hv]]]]]|[[dd [v [-> [L Hv]]]]|[dd [-> L]]]].
  - unfold restr_spec in Sr. unfold rvalue in *. rewrite L in Sr. destruct l as [|e es]; [congruence|].
    destruct Sr as [v [_ [Hm Hf]]]. apply (Hv v). apply validate_index_ok. auto.
  - unfold deform_spec in Sd. rewrite L in Sd. now apply (Hv dv).
  - unfold ign_spec in Si. rewrite L in Si. discriminate.
Qed.

(* acceptance: known names and well-formed values are never rejected *)
Lemma routing_accepts mc r d i :
  (forall dd, r = Some dd ->
     (forall k, In k (map fst dd) -> In k (map fst (complete mc))) /\
     (forall n ns ne l, In (n, (ns, ne)) (complete mc) -> lookup n dd = Some (Some l) -> l <> [] ->
        exists v, validate_index ns ne l = Ok v)) ->
  (forall dd, d = Some dd ->
     (forall k, In k (map fst dd) -> In k (map fst (complete mc))) /\
     (forall n v, lookup n dd = Some v -> exists dv, parse_deformation v = Ok dv)) ->
  (forall dd, i = Some dd ->
     (forall k, In k (map fst dd) -> In k (map fst (complete mc))) /\
     (forall n, lookup n dd <> Some IOther)) ->
  exists calls, parse_options mc r d i = Ok calls.
Proof.
  intros Hr Hd Hi. unfold parse_options.
  assert (Pr : exists pr, parse_restrictions (complete mc) r = Ok pr).
  { unfold parse_restrictions. destruct r as [dd|]; [|eauto]. destruct (Hr dd eq_refl) as [K V]. unfold rvalue in *.
    rewrite (proj2 (check_keys_ok dd (complete mc)) K); simpl. apply mapM_total.
    intros [n [ns ne]] Hin; simpl. destruct (lookup n dd) as [[[|e es]|]|] eqn:L; eauto.
    destruct (V n ns ne (e :: es) Hin L ltac:(discriminate)) as [v Hv]. rewrite Hv; simpl; eauto. }
  destruct Pr as [pr Pr]. rewrite Pr; simpl.
  assert (Pd : exists pd, parse_deformations (complete mc) d = Ok pd).
  { unfold parse_deformations. destruct d as [dd|]; [|eauto]. destruct (Hd dd eq_refl) as [K V].
    rewrite (proj2 (check_keys_ok dd (complete mc)) K); simpl. apply mapM_total.
    intros [n b] Hin; simpl. destruct (lookup n dd) as [v|] eqn:L; eauto.
    destruct (V n v L) as [dv Hv]. rewrite Hv; simpl; eauto. }
  destruct Pd as [pd Pd]. rewrite Pd; simpl.
  assert (Pi : exists pi, parse_ignore_hydrogens (complete mc) i = Ok pi).
  { unfold parse_ignore_hydrogens. destruct i as [dd|]; [|eauto]. destruct (Hi dd eq_refl) as [K V].
    rewrite (proj2 (check_keys_ok dd (complete mc)) K); simpl. apply mapM_total.
    intros [n b] Hin; simpl. destruct (lookup n dd) as [[bb|]|] eqn:L; eauto.
    exfalso. now apply (V n). }
  destruct Pi as [pi Pi]. rewrite Pi; simpl.
  destruct (parse_restrictions_ok _ _ _ Pr) as [R1 _].
  destruct (parse_deformations_ok _ _ _ Pd) as [D1 _].
  destruct (parse_ignore_ok _ _ _ Pi) as [I1 _].
  apply mapM_total. intros [n rv] Hin; simpl.
  assert (Hk : In n (map fst (complete mc))).
  { rewrite <- R1. apply in_map_iff. exists (n, rv); auto. }
  destruct (lookup_some_of_key n pd) as [dv Ld]; [now rewrite D1|].
  destruct (lookup_some_of_key n pi) as [iv Li]; [now rewrite I1|].
  destruct (lookup_some_of_key n (complete mc) Hk) as [c Lc].
  rewrite Ld, Li, Lc. eauto.
Qed.

(* ------------------------------------------------------------------ parse_restrictions=False *)
Definition call_restr (c : mcall) : option (list (Z * Z)) := snd (fst (fst c)).
Definition call_deform (c : mcall) : option (list Z) := snd (fst c).
Definition call_ign (c : mcall) : bool := snd c.

Lemma run_named_ok comp pd pi pr result :
  (forall n, In n (map fst pr) -> In n (map fst comp)) ->
  map fst pd = map fst comp -> map fst pi = map fst comp ->
  (forall c, result c = Ok tt) ->
  exists calls, run_named comp pd pi pr result = (calls, Ok tt) /\
    map (fun c => (call_name c, call_restr c)) calls = pr /\
    forall c, In c calls -> lookup (call_name c) pd = Some (call_deform c) /\
                            lookup (call_name c) pi = Some (call_ign c).
Proof.
  intros Hk Hd Hi Hr. induction pr as [|[n rv] t IH]; simpl.
  - exists []. split; [reflexivity|]. split; [reflexivity|]. intros c [].
  - assert (Hn : In n (map fst comp)) by (apply Hk; simpl; auto).
    destruct (lookup_some_of_key n pd) as [dv Ld]; [now rewrite Hd|].
    destruct (lookup_some_of_key n pi) as [iv Li]; [now rewrite Hi|].
    destruct (lookup_some_of_key n comp Hn) as [cc Lc]. rewrite Ld, Li, Lc, Hr.
    destruct IH as [calls [E [M L]]]; [intros; apply Hk; simpl; auto|].
    exists ((n, rv, dv, iv) :: calls). rewrite E; simpl. split; [reflexivity|]. split.
    + change ((n, rv) :: map (fun c => (call_name c, call_restr c)) calls = (n, rv) :: t). now rewrite M.
    + intros c [<-|H]; [split; assumption|now apply L].
Qed.

(* by NAME, whatever the key order of the restrictions dictionary: the calls are made in the order of
   that dictionary, each with the restraints stored under its own name and with the deformation types
   and hydrogen flag given for that name *)
Lemma routing_noparse mc pr d i pd pi result :
  parse_deformations (complete mc) d = Ok pd -> parse_ignore_hydrogens (complete mc) i = Ok pi ->
  (forall n, In n (map fst pr) -> In n (map fst (complete mc))) ->
  (forall c, result c = Ok tt) ->
  exists calls, manager_align_noparse mc (Some pr) d i result = (calls, Ok tt) /\
    map (fun c => (call_name c, call_restr c)) calls = pr /\
    forall c, In c calls -> deform_spec d (call_name c) (call_deform c) /\ ign_spec i (call_name c) (call_ign c).
Proof.
  intros Pd Pi Hk Hr. unfold manager_align_noparse. rewrite Pd, Pi.
  destruct (parse_deformations_ok _ _ _ Pd) as [D1 [D2 _]].
  destruct (parse_ignore_ok _ _ _ Pi) as [I1 [I2 _]].
  destruct (run_named_ok (complete mc) pd pi pr result Hk D1 I1 Hr) as [calls [E [M L]]].
  exists calls. split; [assumption|]. split; [assumption|].
  intros c Hc. destruct (L c Hc) as [Ld Li]. split; [apply D2|apply I2]; now apply lookup_in.
Qed.

Lemma routing_noparse_rejects mc pr d i e result :
  parse_deformations (complete mc) d = Err e \/
  (exists pd, parse_deformations (complete mc) d = Ok pd /\ parse_ignore_hydrogens (complete mc) i = Err e) ->
  manager_align_noparse mc (Some pr) d i result = ([], Err e).
Proof.
  unfold manager_align_noparse. intros [H|[pd [H1 H2]]]; [now rewrite H|now rewrite H1, H2].
Qed.

(* a name that is not a species with both molecules is rejected with KeyError only when the loop reaches
   it: nothing is aligned if it comes first *)
Lemma routing_noparse_unknown_first mc n rv t d i pd pi result :
  parse_deformations (complete mc) d = Ok pd -> parse_ignore_hydrogens (complete mc) i = Ok pi ->
  ~ In n (map fst (complete mc)) ->
  manager_align_noparse mc (Some ((n, rv) :: t)) d i result = ([], Err EKey).
Proof.
  intros Pd Pi Hn. unfold manager_align_noparse. rewrite Pd, Pi. simpl.
  replace (lookup n (complete mc)) with (@None (nat * nat)) by (symmetry; now apply lookup_none).
  destruct (lookup n pd); [|reflexivity]. destruct (lookup n pi); reflexivity.
Qed.
