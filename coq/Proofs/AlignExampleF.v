(* A complete run of Model/Align.v on the binary64 instance (data recorded from the implementation by
   harness/c06.py: a 5-atom start molecule - three hydrogens, filtered - and a 3-atom end molecule on a tree,
   one restraint, deformation types (0, 2), STEPS_FACTOR 2): nine passes of the Monte-Carlo loop, single-atom
   moves and translations, accepted and rejected.  No Nsatz / Reals here (PrimFloat literals). *)
From Coq Require Import String ZArith List Bool PrimFloat.
From GM Require Import Base.Res Base.Scalar Base.Vec Inst.FInst Model.Aux Model.Transform Model.Chi2 Model.MC
  Model.Restraints Model.Align.
Import ListNotations.
Open Scope string_scope.
Open Scope float_scope.

Definition exf_start : amol float :=
  (mkAMol [mkRes "MOL" [mkAtom "HA0" (mk3 0x1.c0c29b07ee5fp-3 0x1.7b2778fc3ada4p+1 0x1.6ec4cc201ad52p+0); mkAtom "1H" (mk3 0x1.976a85dffa3d1p-3 0x1.861ac685f540ep+1 0x1.5843cf091e09ep+0); mkAtom "C2" (mk3 0x1.a54bf3363ccf3p-3 0x1.6663684173b7ep+1 0x1.6336301b30071p+0); mkAtom "O3" (mk3 0x1.3b5980e6bc8acp-3 0x1.709c93f424c6ap+1 0x1.60559396f8fbap+0); mkAtom "H4" (mk3 0x1.c75a352632176p-4 0x1.77e0603631809p+1 0x1.4d3e60e4fbfe5p+0)]] [[1%nat; 2%nat; 3%nat]; [0%nat]; [0%nat]; [0%nat; 4%nat]; [3%nat]]).
Definition exf_end : amol float :=
  (mkAMol [mkRes "MOL" [mkAtom "0H" (mk3 0x1.22648fcbbae63p+0 0x1.516a51cd4956fp-1 0x1.210797167d06cp-2); mkAtom "H1" (mk3 0x1.125d5311e64f3p+0 0x1.2755468f7d7f1p-1 0x1.a82eb1925643ap-3); mkAtom "C2" (mk3 0x1.2dc51e24bf12cp+0 0x1.75a24eb7ee974p-1 0x1.c39b3a1eeb0ecp-3)]] [[1%nat; 2%nat]; [0%nat]; [0%nat]]).
Definition exf_restr : list (Z * Z) := [((0)%Z, (1)%Z)].
Definition exf_stream : stream float (pdraw float (adraw float)) :=
  [DChoice 1%nat; DProp (PAtom (2%nat, (mk3 0x1.18fd63f099addp-1 0x1.5a481e1d84b11p-1 0x1.e2176ac91ef48p-1), false, (-0x1.ee030a3a5334p-7))); DChoice 1%nat; DProp (PAtom (1%nat, (mk3 0x1.e3d9b53cb7248p-3 0x1.0e1f433e1760ep-1 0x1.9e4a2f2e570fbp-1), false, 0x1.c68b9923231eep-6)); DRand 0x1.6124ed5ca111cp-3; DChoice 1%nat; DProp (PAtom (2%nat, (mk3 0x1.d2bd8ab49c5b9p-1 0x1.067d95103d587p-1 0x1.d6705e021ba9cp-1), false, 0x1.f6d7ca1c5b8fcp-5)); DChoice 1%nat; DProp (PAtom (1%nat, (mk3 0x1.07eb4c0bacb58p-1 0x1.9acf76ad30973p-1 0x1.c4baafb3948ecp-2), false, 0x1.9a896780c1f4ap-3)); DRand 0x1.d42f6e1bd3bdp-4; DChoice 0%nat; DProp (PTrans (mk3 0x1.f18f9ffe741e4p-4 (-0x1.957e077ae3a96p-3) (-0x1.ccc1aef839e71p-8))); DRand 0x1.92b544d06eb2ap-2; DChoice 0%nat; DProp (PTrans (mk3 0x1.6a819e2362b29p-3 0x1.bd84886c4440fp-5 (-0x1.9874b8e360028p-4))); DRand 0x1.f1c67aa5bdcp-10; DChoice 0%nat; DProp (PTrans (mk3 (-0x1.0d2bf6efbab33p-1) 0x1.588c9566c61eep-4 (-0x1.cd526808aefb5p-5))); DRand 0x1.98ef074ca27f8p-2; DChoice 0%nat; DProp (PTrans (mk3 0x1.c31cf24010e75p-6 (-0x1.1f6894f50ed34p-3) 0x1.cab2d6e61dd27p-3)); DChoice 0%nat; DProp (PTrans (mk3 (-0x1.02a9b977c6418p-3) (-0x1.2547c2cad6344p-2) 0x1.74cd94d45bbccp-2)); DRand 0x1.1ba2f33baa6ap-4].
(* passes: 9, kinds [2, 2, 2, 2, 0, 0, 0, 0, 0], decisions [1, 0, 1, 0, 0, 1, 0, 1, 0] *)

Definition exf_run : res (align_result float) :=
  align_with (fun x => x) (fun x => x) 2 exf_start exf_end (Some exf_restr) (Some [0%Z; 2%Z]) true true exf_stream 9.

(* |dist(out_i, out_j) - dist(in_i, in_j)| <= 2^-40 for the two bonds (0,1), (0,2) of the end molecule *)
Definition exf_bond_ok (out : list (V3 float)) (i j : nat) : bool :=
  match nth_error (am_pos exf_end) i, nth_error (am_pos exf_end) j, nth_error out i, nth_error out j with
  | Some a, Some b, Some a', Some b' => (abs (vdist a' b' - vdist a b) <=? 0x1p-40)
  | _, _, _, _ => false
  end.

Definition exf_summary : option (list nat * list bool * bool * bool * bool) :=
  match exf_run with
  | Ok r => Some (map sr_kind (ar_trace r), map sr_acc (ar_trace r),
                  exf_bond_ok (am_pos (ar_end r)) 0 1 && exf_bond_ok (am_pos (ar_end r)) 0 2,
                  (* the end molecule moved, the start molecule is the input translated *)
                  negb (list_eqb (fun a b : V3 float => (vx a =? vx b) && (vy a =? vy b) && (vz a =? vz b))
                                 (am_pos (ar_end r)) (am_pos exf_end)),
                  list_eqb String.eqb (am_names (ar_end r)) (am_names exf_end))
  | Err _ => None
  end.

Lemma exf_run_ok :
  exf_summary = Some ([2; 2; 2; 2; 0; 0; 0; 0; 0]%nat,
                      [true; false; true; false; false; true; false; true; false], true, true, true).
Proof. vm_compute. reflexivity. Qed.
