(* List-level lemmas about check_index / find_all of Model/SystemRec.v *)
From Coq Require Import List Arith Bool Lia.
Import ListNotations.
From GM Require Import Base.Res Model.SystemRec.

Lemma onat_eqb_refl x : onat_eqb x x = true.
Proof. destruct x; simpl; auto using Nat.eqb_refl. Qed.

Lemma onat_eqb_eq x y : onat_eqb x y = true <-> x = y.
Proof.
  destruct x, y; simpl; split; intros H; try discriminate; auto.
  - apply Nat.eqb_eq in H; subst; auto.
  - inversion H; apply Nat.eqb_refl.
Qed.

Lemma list_eqb_onat_eq a b : list_eqb onat_eqb a b = true <-> a = b.
Proof.
  revert b; induction a as [|x xs IH]; intros [|y ys]; simpl; split; intros H; try discriminate; auto.
  - apply andb_true_iff in H as [H1 H2]. apply onat_eqb_eq in H1. apply IH in H2. subst; auto.
  - inversion H; subst. rewrite onat_eqb_refl. simpl. apply IH; auto.
Qed.

Lemma list_eqb_onat_refl a : list_eqb onat_eqb a a = true.
Proof. apply list_eqb_onat_eq; auto. Qed.

Lemma firstn_length_app {A} (a b : list A) : firstn (length a) (a ++ b) = a.
Proof. induction a; simpl; congruence. Qed.

Lemma skipn_length_app {A} (a b : list A) : skipn (length a) (a ++ b) = b.
Proof. induction a; simpl; congruence. Qed.

(* x is not the first entry of the pattern *)
Definition foreign (p0 : nat) (x : option nat) : Prop := onat_eqb x (Some p0) = false.

Ltac dfa l :=
  match goal with
  | |- context [find_all l ?a ?b ?c ?d ?e ?f] =>
    destruct (find_all l a b c d e f) as [[? ?]|?]; cbn [bind]; try reflexivity
  end.

Section Scan.
Variables (p0 : nat) (ptl : list nat).
Let p := p0 :: ptl.
Let P := map Some p.
Let L := length p.
Variable idx : nat.

Lemma firstn_P_app rest : firstn L (P ++ rest) = P.
Proof.
  unfold L. rewrite <- (map_length Some p). apply firstn_length_app.
Qed.

Lemma window_foreign x t : foreign p0 x ->
  list_eqb onat_eqb (firstn L (x :: t)) P = false.
Proof. unfold foreign. intros H. simpl. rewrite H. reflexivity. Qed.

(* ---------------- find_all *)
Lemma find_all_skip q l pos nb acc :
  find_all (q ++ l) pos (length q) p idx nb acc =
  (let* (l', acc') := find_all l (pos + length q) 0 p idx nb acc in
   Ok (repeat None (length q) ++ l', acc')).
Proof.
  revert pos; induction q as [|x q IH]; intros pos.
  - simpl. rewrite Nat.add_0_r. destruct (find_all l pos 0 p idx nb acc) as [[l' acc']|e]; reflexivity.
  - simpl length. change ((x :: q) ++ l) with (x :: (q ++ l)).
    cbn [find_all]. rewrite IH. replace (S pos + length q) with (pos + S (length q)) by lia.
    destruct (find_all l (pos + S (length q)) 0 p idx nb acc) as [[l' acc']|e]; reflexivity.
Qed.

Lemma find_all_foreign_cons x l pos nb acc : foreign p0 x ->
  find_all (x :: l) pos 0 p idx nb acc =
  (let* (l', acc') := find_all l (S pos) 0 p idx true acc in Ok (x :: l', acc')).
Proof.
  intros H. cbn [find_all]. fold L. fold P. rewrite (window_foreign x l H), andb_false_r. reflexivity.
Qed.

Lemma find_all_foreign pre l pos nb acc : Forall (foreign p0) pre -> pre <> [] ->
  find_all (pre ++ l) pos 0 p idx nb acc =
  (let* (l', acc') := find_all l (pos + length pre) 0 p idx true acc in Ok (pre ++ l', acc')).
Proof.
  revert pos nb; induction pre as [|x pre IH]; intros pos nb HF Hne; [congruence|].
  inversion HF as [|? ? Hx HF']; subst.
  change ((x :: pre) ++ l) with (x :: (pre ++ l)). rewrite find_all_foreign_cons by assumption.
  destruct pre as [|y pre'].
  - simpl. replace (pos + 1) with (S pos) by lia.
    destruct (find_all l (S pos) 0 p idx true acc) as [[l' acc']|e]; reflexivity.
  - rewrite IH by (auto; discriminate). simpl length. replace (S pos + S (length pre')) with (pos + S (S (length pre'))) by lia.
    destruct (find_all l (pos + S (S (length pre'))) 0 p idx true acc) as [[l' acc']|e]; reflexivity.
Qed.

Lemma find_all_match l pos nb acc :
  find_all (P ++ l) pos 0 p idx nb acc =
  (let* acc1 := (if nb then Ok ((idx, pos, 1) :: acc) else bump acc) in
   let* (l', acc') := find_all l (pos + L) 0 p idx false acc1 in
   Ok (repeat None L ++ l', acc')).
Proof.
  unfold P at 1. unfold p at 1. cbn [map app]. cbn [find_all]. fold p. fold L.
  change (Some p0 :: map Some ptl ++ l) with (P ++ l).
  rewrite firstn_P_app. fold P. rewrite list_eqb_onat_refl.
  assert (HL : L <=? length (P ++ l) = true).
  { apply Nat.leb_le. rewrite app_length. unfold P. rewrite map_length. fold L. lia. }
  rewrite HL. cbn [andb].
  destruct (if nb then Ok ((idx, pos, 1) :: acc) else bump acc) as [acc1|e]; [|reflexivity].
  cbn [bind]. unfold P, p. cbn [map app].
  replace (L - 1) with (length (map Some ptl)) by (unfold L, p; simpl; rewrite map_length; lia).
  rewrite find_all_skip. rewrite map_length.
  replace (S pos + length ptl) with (pos + L) by (unfold L, p; simpl; lia).
  fold p. dfa l.
Qed.

(* k further consecutive matches extend the block on top of the accumulator *)
Lemma find_all_matches k l pos st c acc :
  find_all (concat (repeat P k) ++ l) pos 0 p idx false ((idx, st, c) :: acc) =
  (let* (l', acc') := find_all l (pos + k * L) 0 p idx false ((idx, st, c + k) :: acc) in
   Ok (repeat None (k * L) ++ l', acc')).
Proof.
  revert pos c; induction k as [|k IH]; intros pos c.
  - simpl. rewrite !Nat.add_0_r.
    destruct (find_all l pos 0 p idx false ((idx, st, c) :: acc)) as [[l' acc']|e]; reflexivity.
  - cbn [repeat concat]. rewrite <- app_assoc. rewrite find_all_match. cbn [bump bind].
    rewrite IH. replace (pos + L + k * L) with (pos + S k * L) by lia.
    replace (S c + k) with (c + S k) by lia.
    destruct (find_all l (pos + S k * L) 0 p idx false ((idx, st, c + S k) :: acc)) as [[l' acc']|e]; [|reflexivity].
    cbn [bind]. rewrite app_assoc, <- repeat_app. reflexivity.
Qed.

Lemma find_all_run m l pos acc :
  find_all (concat (repeat P (S m)) ++ l) pos 0 p idx true acc =
  (let* (l', acc') := find_all l (pos + S m * L) 0 p idx false ((idx, pos, S m) :: acc) in
   Ok (repeat None (S m * L) ++ l', acc')).
Proof.
  cbn [repeat concat]. rewrite <- app_assoc. rewrite find_all_match. cbn [bind].
  rewrite find_all_matches. replace (pos + L + m * L) with (pos + S m * L) by lia.
  replace (1 + m) with (S m) by lia.
  destruct (find_all l (pos + S m * L) 0 p idx false ((idx, pos, S m) :: acc)) as [[l' acc']|e]; [|reflexivity].
  cbn [bind]. rewrite app_assoc, <- repeat_app. reflexivity.
Qed.

(* ---------------- check_index *)
Lemma check_index_foreign pre l pos : Forall (foreign p0) pre ->
  check_index (pre ++ l) pos p = check_index l (pos + length pre) p.
Proof.
  revert pos; induction pre as [|x pre IH]; intros pos HF.
  - simpl. rewrite Nat.add_0_r. reflexivity.
  - inversion HF as [|? ? Hx HF']; subst. change ((x :: pre) ++ l) with (x :: (pre ++ l)).
    cbn [check_index]. unfold p at 1. unfold foreign in Hx. rewrite Hx. rewrite IH by assumption.
    simpl length. f_equal. lia.
Qed.

Lemma check_index_match l pos : check_index (P ++ l) pos p = Ok pos.
Proof.
  unfold P at 1. unfold p at 1. cbn [map app check_index]. unfold p at 1.
  rewrite onat_eqb_refl. fold p. fold L.
  change (Some p0 :: map Some ptl ++ l) with (P ++ l). rewrite firstn_P_app.
  unfold window_all. unfold P at 1. rewrite map_length, Nat.eqb_refl. fold P.
  rewrite list_eqb_onat_refl. reflexivity.
Qed.

End Scan.
