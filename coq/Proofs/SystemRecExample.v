(* A concrete file in the domain of C11 (non-vacuity of the hypotheses):
   species 0 = A (one residue), 1 = C (residues P,Q,P), 2 = D (two identical residues);
   file = C C D D D W A  (W: a solvent residue no topology describes) *)
From Coq Require Import List Arith Bool Lia.
Import ListNotations.
From GM Require Import Base.Res Model.SystemRec Proofs.SystemRecScan Proofs.SystemRecDomain
     Proofs.SystemRecSort Proofs.SystemRecLoad Proofs.SystemRecExact.

(* residue names: 10 RA, 11 CP, 12 CQ, 13 DD, 14 W ; atom names 20.. *)
Definition rA := mkRes 10 [20; 21].
Definition rP := mkRes 11 [22].
Definition rQ := mkRes 12 [23; 24].
Definition rD := mkRes 13 [25].
Definition rW := mkRes 14 [26].
Definition ex_file : list residue := [rP; rQ; rP; rP; rQ; rP; rD; rD; rD; rD; rD; rD; rW; rA].

Definition topA := mkTop 0 [(20, 10, 1); (21, 10, 1)].
Definition topC := mkTop 1 [(22, 11, 1); (23, 12, 2); (24, 12, 2); (22, 11, 3)].
Definition topD := mkTop 2 [(25, 13, 1); (25, 13, 2)].
Definition ex_tops := [topA; topC; topD].

Definition ex_view : groview :=
  match view_of ex_file with Ok v => v | Err _ => mkView [] [] [] end.

(* kinds as SystemGro numbers them in this file: P 0, Q 1, D 2, W 3, A 4 *)
Definition ex_pats : list (list nat) := [[4]; [0; 1; 0]; [2; 2]].
Definition ex_runs : list run := [RInst 1 1; RInst 2 2; ROther 3; RInst 0 0].

Lemma ex_domain : domain ex_view ex_tops ex_pats ex_runs.
Proof.
  constructor.
  - reflexivity.
  - split.
    + intros [|[|[|s]]] H; simpl in H; try lia; discriminate.
    + intros [|[|[|s]]] [|[|[|t]]] k Hne; unfold pat; simpl; intuition (try lia; try congruence);
      repeat match goal with H : In _ (match ?t with _ => _ end) |- _ => destruct t; simpl in H end; intuition (try lia; try congruence).
  - intros [|[|[|s]]] t H; simpl in H; try discriminate; inversion H; subst; try reflexivity.
    destruct s; discriminate.
  - repeat constructor; simpl; try lia.
    intros [|[|[|s]]]; unfold pat; simpl; intuition (try lia; try congruence);
      repeat match goal with H : In _ (match ?t with _ => _ end) |- _ => destruct t; simpl in H end; intuition (try lia; try congruence).
  - simpl. intuition congruence.
  - reflexivity.
  - reflexivity.
  - simpl. repeat split; intros t j Ht Hj; inversion Ht; subst.
    + destruct j as [|[|j]]; try lia; reflexivity.
    + destruct j as [|[|[|j]]]; try lia; reflexivity.
    + destruct j as [|j]; try lia; reflexivity.
Qed.

(* loading D, then A, then C: the seven... six molecules come out in file order *)
Example ex_expected :
  by_species [2; 0; 1] (expected ex_pats (index_of [2; 0; 1]) ex_runs 0) =
  [(1, 0, 3); (1, 3, 6); (2, 6, 8); (2, 8, 10); (2, 10, 12); (0, 13, 14)].
Proof. reflexivity. Qed.

Example ex_run : exists st, load_all ex_view (sys_init ex_view) [topD; topA; topC] = Ok st /\
  sys_iter ex_view st = Ok [(2, 0, 3); (2, 3, 6); (0, 6, 8); (0, 8, 10); (0, 10, 12); (1, 13, 14)].
Proof. eexists. split; reflexivity. Qed.

Lemma ex_present : Forall (fun s => present s ex_runs) [2; 0; 1].
Proof. repeat constructor. Qed.

Lemma ex_order : NoDup [2; 0; 1] /\ Forall (fun s => present s ex_runs) [2; 0; 1] /\
  Forall2 (fun s t => nth_error ex_tops s = Some t) [2; 0; 1] [topD; topA; topC].
Proof. split; [repeat constructor; simpl; intuition congruence|split; [exact ex_present|repeat constructor]]. Qed.

(* the same file described by the molecules it was assembled from *)
From GM Require Import Proofs.SystemRecFile Proofs.SystemRecFileExact.

Definition ex_frs : list frun := [FInst 1 1; FInst 2 2; FOther rW; FInst 0 0].

Lemma ex_file_of : file_of ex_tops ex_frs = ex_file.
Proof. reflexivity. Qed.

Lemma ex_file_domain : file_domain ex_tops ex_frs.
Proof.
  constructor.
  - intros [|[|[|s]]] t H; simpl in H; try (destruct s; discriminate); inversion H; subst; try discriminate.
  - intros [|[|[|s]]] H; simpl in H; try lia; eexists; simpl; eauto.
  - intros s m H. simpl in H. repeat (destruct H as [H|H]; [inversion H; subst; simpl; lia|]). contradiction.
  - intros [|[|[|s]]] [|[|[|t]]] k Hne; unfold tres; simpl; try (destruct s); try (destruct t); simpl;
      intuition (try lia; try (subst; discriminate); try congruence).
  - intros r H s Hin. simpl in H.
    assert (r = rW) by (repeat (destruct H as [H|H]; [try discriminate; inversion H; reflexivity|]); contradiction).
    subst r. destruct s as [|[|[|s]]]; unfold tres in Hin; simpl in Hin; try (destruct s; simpl in Hin);
      intuition discriminate.
  - apply key_inj_check. reflexivity.
  - simpl. intuition congruence.
Qed.

Example ex_fexpected :
  by_species [2; 0; 1] (fexpected ex_tops (index_of [2; 0; 1]) ex_frs 0) =
  [(1, 0, 3); (1, 3, 6); (2, 6, 8); (2, 8, 10); (2, 10, 12); (0, 13, 14)].
Proof. reflexivity. Qed.
