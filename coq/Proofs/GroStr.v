(* Characterising lemmas of Base/StrGro.v: decimal digits, padding, strip, split, int()/float()
   round trips, line reading and in-place writing. *)
From Coq Require Import List Ascii NArith ZArith Bool Arith Lia.
From GM Require Import Base.Res Base.StrGro.
Import ListNotations.
Local Open Scope nat_scope.

Ltac ascii_cases c := destruct c as [[|] [|] [|] [|] [|] [|] [|] [|]].

(* ------------------------------------------------------------------ characters *)
Definition nonsp (c : ascii) : bool := negb (is_space_py c).

Lemma digit_not_space_c c : is_digit c = true -> is_space_c c = false.
Proof. ascii_cases c; vm_compute; congruence. Qed.
Lemma digit_not_space_py c : is_digit c = true -> is_space_py c = false.
Proof. ascii_cases c; vm_compute; congruence. Qed.
Lemma space_c_py c : is_space_py c = false -> is_space_c c = false.
Proof. ascii_cases c; vm_compute; congruence. Qed.
Lemma digit_not_dot c : is_digit c = true -> Ascii.eqb c "."%char = false.
Proof. ascii_cases c; vm_compute; congruence. Qed.
Lemma digit_not_nl c : is_digit c = true -> Ascii.eqb c NL = false.
Proof. ascii_cases c; vm_compute; congruence. Qed.
Lemma digit_not_minus c : is_digit c = true -> Ascii.eqb c "-"%char = false.
Proof. ascii_cases c; vm_compute; congruence. Qed.
Lemma digit_not_plus c : is_digit c = true -> Ascii.eqb c "+"%char = false.
Proof. ascii_cases c; vm_compute; congruence. Qed.
Lemma space_py_not_nl c : is_space_py c = false -> Ascii.eqb c NL = false.
Proof. ascii_cases c; vm_compute; congruence. Qed.

Lemma digit_lt10 (d : N) : (d < 10)%N ->
  d = 0%N \/ d = 1%N \/ d = 2%N \/ d = 3%N \/ d = 4%N \/ d = 5%N \/ d = 6%N \/ d = 7%N \/ d = 8%N \/ d = 9%N.
Proof. lia. Qed.
Lemma digit_char_is_digit d : is_digit (digit_char d) = true.
Proof.
  destruct d as [|p]; [reflexivity|].
  do 5 (try (destruct p as [p|p|])); reflexivity.
Qed.
Lemma digit_val_char d : (d < 10)%N -> digit_val (digit_char d) = d.
Proof. intros H. destruct (digit_lt10 d H) as [E|[E|[E|[E|[E|[E|[E|[E|[E|E]]]]]]]]]; subst; reflexivity. Qed.

(* ------------------------------------------------------------------ lists *)
Lemma forallb_app' {A} (p : A -> bool) a b : forallb p (a ++ b) = forallb p a && forallb p b.
Proof. induction a; simpl; [reflexivity|]. rewrite IHa. apply andb_assoc. Qed.
Lemma forallb_repeat {A} (p : A -> bool) c n : p c = true -> forallb p (repeat c n) = true.
Proof. intros H; induction n; simpl; [reflexivity|]. rewrite H, IHn; reflexivity. Qed.
Lemma forallb_impl {A} (p q : A -> bool) l :
  (forall c, p c = true -> q c = true) -> forallb p l = true -> forallb q l = true.
Proof.
  intros H; induction l; simpl; [reflexivity|]. intros E. apply andb_true_iff in E as [E1 E2].
  rewrite (H _ E1), (IHl E2); reflexivity.
Qed.
Lemma repeat_snoc {A} (c : A) n : repeat c n ++ [c] = c :: repeat c n.
Proof. induction n; simpl; [reflexivity|]. rewrite IHn; reflexivity. Qed.
Lemma skipn_app_exact {A} (a b : list A) n : n = length a -> skipn n (a ++ b) = b.
Proof. intros ->. induction a; simpl; auto. Qed.
Lemma firstn_app_exact {A} (a b : list A) n : n = length a -> firstn n (a ++ b) = a.
Proof. intros ->. induction a; simpl; [reflexivity|]. rewrite IHa; reflexivity. Qed.
Lemma chop_app (a b : bytes) n : n = length a -> chop n (a ++ b) = (a, b).
Proof. intros H. unfold chop. rewrite firstn_app_exact, skipn_app_exact by assumption. reflexivity. Qed.

Lemma dropwhile_app_all {A} (p : A -> bool) a l : forallb p a = true -> dropwhile p (a ++ l) = dropwhile p l.
Proof.
  induction a; simpl; [reflexivity|]. intros E. apply andb_true_iff in E as [E1 E2].
  rewrite E1. apply IHa, E2.
Qed.
Lemma dropwhile_head {A} (p : A -> bool) c l : p c = false -> dropwhile p (c :: l) = c :: l.
Proof. intros H; simpl; rewrite H; reflexivity. Qed.
Lemma dropwhile_none {A} (p : A -> bool) l :
  forallb (fun c => negb (p c)) l = true -> dropwhile p l = l.
Proof. destruct l; simpl; [reflexivity|]. intros E. apply andb_true_iff in E as [E1 _].
  apply negb_true_iff in E1. rewrite E1. reflexivity. Qed.
Lemma forallb_rev {A} (p : A -> bool) l : forallb p (rev l) = forallb p l.
Proof.
  induction l; simpl; [reflexivity|]. rewrite forallb_app'; simpl. rewrite IHl, andb_true_r.
  apply andb_comm.
Qed.

(* strip: a run of p, a body without p at either end, a run of p *)
Lemma strip_with_mid p a m b :
  forallb p a = true -> forallb p b = true -> forallb (fun c => negb (p c)) m = true ->
  strip_with p (a ++ m ++ b) = m.
Proof.
  intros Ha Hb Hm. unfold strip_with.
  rewrite dropwhile_app_all by assumption.
  destruct m as [|c m'].
  - simpl. assert (E : dropwhile p b = []).
    { rewrite <- (app_nil_r b). rewrite dropwhile_app_all by assumption. reflexivity. }
    rewrite E. reflexivity.
  - assert (E1 : dropwhile p ((c :: m') ++ b) = (c :: m') ++ b).
    { simpl in Hm |- *. apply andb_true_iff in Hm as [H1 _]. apply negb_true_iff in H1.
      rewrite H1. reflexivity. }
    rewrite E1. rewrite rev_app_distr.
    rewrite dropwhile_app_all by (rewrite forallb_rev; assumption).
    rewrite dropwhile_none by (rewrite forallb_rev; assumption).
    apply rev_involutive.
Qed.

(* ------------------------------------------------------------------ digits *)
Lemma digs_k_length k n : length (digs_k k n) = k.
Proof. revert n; induction k; intros n; simpl; [reflexivity|]. rewrite app_length, IHk; simpl; lia. Qed.
Lemma digs_k_digits k n : forallb is_digit (digs_k k n) = true.
Proof.
  revert n; induction k; intros n; simpl; [reflexivity|].
  rewrite forallb_app', IHk; simpl. rewrite digit_char_is_digit; reflexivity.
Qed.

Definition dstep (a : N) (c : ascii) : N := (10 * a + digit_val c)%N.
Lemma of_digits_fold l : of_digits l = fold_left dstep l 0%N.
Proof. reflexivity. Qed.
Lemma fold_dstep_app a b acc : fold_left dstep (a ++ b) acc = fold_left dstep b (fold_left dstep a acc).
Proof. apply fold_left_app. Qed.
Lemma of_digits_snoc l c : of_digits (l ++ [c]) = (10 * of_digits l + digit_val c)%N.
Proof. unfold of_digits. rewrite fold_left_app. reflexivity. Qed.

Lemma pow10_S d : pow10 (S d) = (10 * pow10 d)%N.
Proof. unfold pow10. rewrite Nat2N.inj_succ, N.pow_succ_r'. reflexivity. Qed.
Lemma pow10_0 : pow10 0 = 1%N.
Proof. reflexivity. Qed.
Lemma pow10_pos d : (0 < pow10 d)%N.
Proof. unfold pow10. apply N.neq_0_lt_0, N.pow_nonzero. discriminate. Qed.
Lemma pow10_add a b : pow10 (a + b) = (pow10 a * pow10 b)%N.
Proof. unfold pow10. rewrite Nat2N.inj_add, N.pow_add_r. reflexivity. Qed.
Lemma pow10_le a b : a <= b -> (pow10 a <= pow10 b)%N.
Proof. intros H. unfold pow10. apply N.pow_le_mono_r; [discriminate|lia]. Qed.

Lemma of_digits_digs_k k n : of_digits (digs_k k n) = (n mod pow10 k)%N.
Proof.
  revert n; induction k; intros n.
  - simpl. rewrite pow10_0, N.mod_1_r. reflexivity.
  - simpl digs_k. rewrite of_digits_snoc, IHk, pow10_S.
    rewrite digit_val_char by (apply N.mod_lt; discriminate).
    rewrite (N.mod_mul_r n 10 (pow10 k)) by (try discriminate; apply N.neq_0_lt_0, pow10_pos).
    lia.
Qed.

Lemma digs_k_zero m : digs_k m 0 = repeat "0"%char m.
Proof. induction m; simpl; [reflexivity|]. change (0 / 10)%N with 0%N. rewrite IHm.
  change (digit_char (0 mod 10)) with "0"%char. apply repeat_snoc. Qed.

Lemma digs_k_small m k n : (n < pow10 k)%N -> digs_k (m + k) n = repeat "0"%char m ++ digs_k k n.
Proof.
  revert n; induction k; intros n H.
  - rewrite pow10_0 in H. assert (n = 0%N) by lia. subst. rewrite Nat.add_0_r. simpl.
    rewrite app_nil_r. apply digs_k_zero.
  - rewrite Nat.add_succ_r. simpl. rewrite IHk.
    + rewrite app_assoc. reflexivity.
    + rewrite pow10_S in H. apply N.div_lt_upper_bound; [discriminate|assumption].
Qed.

Lemma lstrip0_zeros m l : l <> [] -> lstrip0 (repeat "0"%char m ++ l) = lstrip0 l.
Proof.
  intros Hl. induction m; simpl; [reflexivity|].
  destruct (repeat "0"%char m ++ l) eqn:E.
  - destruct m; simpl in E; [contradiction|discriminate].
  - exact IHm.
Qed.
Lemma lstrip0_length l : length (lstrip0 l) <= length l.
Proof.
  induction l as [|c r IH]; simpl; [lia|]. destruct r as [|c' r']; [simpl; lia|].
  destruct (Ascii.eqb c "0"); [|simpl; lia]. simpl in IH |- *. lia.
Qed.
Lemma lstrip0_nonempty l : l <> [] -> lstrip0 l <> [].
Proof.
  induction l as [|c r IH]; [contradiction|]. intros _. simpl. destruct r as [|c' r']; [discriminate|].
  destruct (Ascii.eqb c "0"); [|discriminate]. apply IH. discriminate.
Qed.
Lemma lstrip0_digits l : forallb is_digit l = true -> forallb is_digit (lstrip0 l) = true.
Proof.
  induction l as [|c r IH]; [reflexivity|]. intros H. simpl. destruct r as [|c' r']; [exact H|].
  destruct (Ascii.eqb c "0"); [|exact H]. apply IH. simpl in H. apply andb_true_iff in H as [_ H]. exact H.
Qed.
Lemma lstrip0_value l : of_digits (lstrip0 l) = of_digits l.
Proof.
  induction l as [|c r IH]; [reflexivity|]. simpl. destruct r as [|c' r']; [reflexivity|].
  destruct (Ascii.eqb c "0") eqn:E; [|reflexivity].
  apply Ascii.eqb_eq in E. subst c. rewrite IH. reflexivity.
Qed.

Lemma size_bound n : (n < pow10 (S (N.to_nat (N.size n))))%N.
Proof.
  rewrite pow10_S. unfold pow10. rewrite N2Nat.id.
  assert (H1 : (n < 2 ^ N.size n)%N) by apply N.size_gt.
  assert (H2 : (2 ^ N.size n <= 10 ^ N.size n)%N) by (apply N.pow_le_mono_l; lia).
  assert (H3 : (0 < 10 ^ N.size n)%N) by (apply N.neq_0_lt_0, N.pow_nonzero; discriminate).
  lia.
Qed.

Lemma to_digits_value n : of_digits (to_digits n) = n.
Proof.
  unfold to_digits. rewrite lstrip0_value, of_digits_digs_k.
  apply N.mod_small, size_bound.
Qed.
Lemma to_digits_digits n : forallb is_digit (to_digits n) = true.
Proof. unfold to_digits. apply lstrip0_digits, digs_k_digits. Qed.
Lemma to_digits_nonempty n : to_digits n <> [].
Proof.
  unfold to_digits. apply lstrip0_nonempty. intros E.
  apply (f_equal (@length _)) in E. rewrite digs_k_length in E. discriminate.
Qed.
Lemma to_digits_length n k : 1 <= k -> (n < pow10 k)%N -> length (to_digits n) <= k.
Proof.
  intros Hk Hn. unfold to_digits. set (K := S (N.to_nat (N.size n))).
  destruct (le_lt_dec k K) as [Hle|Hlt].
  - replace K with ((K - k) + k) by lia. rewrite digs_k_small by assumption.
    rewrite lstrip0_zeros.
    + etransitivity; [apply lstrip0_length|]. rewrite digs_k_length. lia.
    + intros E. apply (f_equal (@length _)) in E. rewrite digs_k_length in E. simpl in E. lia.
  - etransitivity; [apply lstrip0_length|]. rewrite digs_k_length. lia.
Qed.

Global Opaque digs_k to_digits.

(* ------------------------------------------------------------------ padding *)
Lemma lpad_length w l : length l <= w -> length (lpad w l) = w.
Proof. intros H. unfold lpad. rewrite app_length, repeat_length. lia. Qed.
Lemma rpad_length w l : length l <= w -> length (rpad w l) = w.
Proof. intros H. unfold rpad. rewrite app_length, repeat_length. lia. Qed.
Lemma lpad_long w l : w <= length l -> lpad w l = l.
Proof. intros H. unfold lpad. replace (w - length l) with 0 by lia. reflexivity. Qed.

Lemma sp_space_c : is_space_c SP = true. Proof. reflexivity. Qed.
Lemma sp_space_py : is_space_py SP = true. Proof. reflexivity. Qed.
Lemma nl_space_c : is_space_c NL = true. Proof. reflexivity. Qed.
Lemma nl_space_py : is_space_py NL = true. Proof. reflexivity. Qed.

(* ------------------------------------------------------------------ int() *)
Lemma int_body_digits ds acc prev :
  forallb is_digit ds = true -> (ds <> [] \/ prev = true) ->
  int_body ds acc prev = Some (fold_left dstep ds acc).
Proof.
  revert acc prev; induction ds as [|c r IH]; intros acc prev Hd Hne.
  - destruct Hne as [H|H]; [contradiction|]. subst. reflexivity.
  - simpl in Hd |- *. apply andb_true_iff in Hd as [Hc Hr]. rewrite Hc.
    rewrite IH by (auto). reflexivity.
Qed.

Lemma split_sign_digit c t : is_digit c = true -> split_sign (c :: t) = (false, c :: t).
Proof. intros H. unfold split_sign. rewrite digit_not_minus, digit_not_plus by assumption. reflexivity. Qed.

Lemma digits_nonspace_c ds : forallb is_digit ds = true -> forallb (fun c => negb (is_space_c c)) ds = true.
Proof. apply forallb_impl. intros c H. rewrite digit_not_space_c by assumption. reflexivity. Qed.

(* int() of a digit string between blanks / a newline *)
Lemma py_int_digits a ds b :
  forallb is_space_c a = true -> forallb is_space_c b = true ->
  forallb is_digit ds = true -> ds <> [] ->
  py_int (a ++ ds ++ b) = Ok (Z.of_N (of_digits ds)).
Proof.
  intros Ha Hb Hd Hne. unfold py_int, strip_c.
  rewrite strip_with_mid by (auto using digits_nonspace_c).
  destruct ds as [|c t]; [contradiction|].
  rewrite split_sign_digit by (simpl in Hd; apply andb_true_iff in Hd; tauto).
  rewrite int_body_digits by auto. reflexivity.
Qed.

Lemma fmt_Z_nonneg z : (0 <= z)%Z -> fmt_Z z = to_digits (Z.to_N z).
Proof. intros H. destruct z; try reflexivity. lia. Qed.

Lemma py_int_lpad w z b : (0 <= z)%Z -> forallb is_space_c b = true ->
  py_int (lpad w (fmt_Z z) ++ b) = Ok z.
Proof.
  intros Hz Hb. rewrite fmt_Z_nonneg by assumption. unfold lpad. rewrite <- app_assoc.
  rewrite py_int_digits; auto using to_digits_digits, to_digits_nonempty.
  - rewrite to_digits_value. rewrite Z2N.id by assumption. reflexivity.
  - apply forallb_repeat. reflexivity.
Qed.

Lemma fmt_Z_length z k : 1 <= k -> (0 <= z < Z.of_N (pow10 k))%Z -> length (fmt_Z z) <= k.
Proof.
  intros Hk [H0 H1]. rewrite fmt_Z_nonneg by assumption. apply to_digits_length; [assumption|lia].
Qed.

(* ------------------------------------------------------------------ '{:w.df}' and float() *)
Lemma span_digits ip c r :
  forallb is_digit ip = true -> is_digit c = false -> span is_digit (ip ++ c :: r) = (ip, c :: r).
Proof.
  intros Hd Hc. induction ip as [|x t IH]; simpl.
  - rewrite Hc. reflexivity.
  - simpl in Hd. apply andb_true_iff in Hd as [Hx Ht]. rewrite Hx, (IH Ht). reflexivity.
Qed.

Definition body_ok (c : ascii) : bool := negb (is_space_c c).

Lemma fmt_f_body_nonspace d v : forallb (fun c => negb (is_space_c c)) (fmt_f_body d v) = true.
Proof.
  unfold fmt_f_body. rewrite !forallb_app'.
  assert (H1 : forallb (fun c => negb (is_space_c c)) (if dneg v then ["-"%char] else []) = true)
    by (destruct (dneg v); reflexivity).
  rewrite H1, (digits_nonspace_c _ (to_digits_digits _)). simpl.
  destruct d; [reflexivity|]. simpl. apply digits_nonspace_c, digs_k_digits.
Qed.

Lemma div_mod_pow10 m d : (m / pow10 d * pow10 d + m mod pow10 d = m)%N.
Proof. rewrite N.mul_comm. symmetry. apply N.div_mod. apply N.neq_0_lt_0, pow10_pos. Qed.

(* float() of a formatted fixed-point number, whatever blanks surround it *)
Lemma parse_float_body a b d v : 1 <= d ->
  forallb is_space_c a = true -> forallb is_space_c b = true ->
  parse_float (a ++ fmt_f_body d v ++ b) = Ok (mkpdec (dneg v) (dmant v) d).
Proof.
  intros Hd Ha Hb. unfold parse_float, strip_c.
  rewrite strip_with_mid by (auto using fmt_f_body_nonspace).
  unfold fmt_f_body. destruct d as [|d']; [lia|].
  set (ip := to_digits (dmant v / pow10 (S d'))).
  set (fp := digs_k (S d') (dmant v mod pow10 (S d'))).
  assert (Hip : forallb is_digit ip = true) by apply to_digits_digits.
  assert (Hfp : forallb is_digit fp = true) by apply digs_k_digits.
  assert (Hne : ip <> []) by apply to_digits_nonempty.
  assert (Hsplit : split_sign ((if dneg v then ["-"%char] else []) ++ ip ++ "."%char :: fp)
                   = (dneg v, ip ++ "."%char :: fp)).
  { destruct (dneg v); simpl.
    - reflexivity.
    - destruct ip as [|c t]; [contradiction|]. simpl in Hip. apply andb_true_iff in Hip as [Hc _].
      simpl. apply (split_sign_digit c _ Hc). }
  rewrite Hsplit. rewrite span_digits by (auto; reflexivity).
  assert (Hnil : isnil ip = false) by (destruct ip; [contradiction|reflexivity]).
  assert (Hlen : length fp = S d') by apply digs_k_length.
  assert (Hval : (of_digits ip * pow10 (S d') + of_digits fp)%N = dmant v).
  { unfold ip, fp. rewrite to_digits_value, of_digits_digs_k.
    rewrite N.mod_mod by (apply N.neq_0_lt_0, pow10_pos). apply div_mod_pow10. }
  change (Ascii.eqb "." ".") with true. rewrite Hfp, Hnil, Hlen, Hval. reflexivity.
Qed.

(* value fits the field: the digits before the point leave room for the point, d decimals
   and the sign *)
Definition fits (w : nat) (v : dec) : Prop :=
  (dmant v < pow10 (w - 1 - (if dneg v then 1 else 0)))%N.

Lemma fmt_f_body_length w d v : 1 <= d -> d + 3 <= w -> fits w v -> length (fmt_f_body d v) <= w.
Proof.
  intros Hd Hw Hf. unfold fmt_f_body. rewrite !app_length.
  destruct d as [|d']; [lia|]. simpl length at 3. rewrite digs_k_length.
  set (s := if dneg v then 1 else 0) in *.
  assert (Hs : length (if dneg v then ["-"%char] else []) = s) by (unfold s; destruct (dneg v); reflexivity).
  rewrite Hs.
  assert (Hs1 : s <= 1) by (unfold s; destruct (dneg v); lia).
  assert (Hlen : length (to_digits (dmant v / pow10 (S d'))) <= w - 1 - S d' - s).
  { apply to_digits_length; [lia|].
    apply N.div_lt_upper_bound; [apply N.neq_0_lt_0, pow10_pos|].
    rewrite <- pow10_add. unfold fits in Hf. fold s in Hf.
    replace (S d' + (w - 1 - S d' - s)) with (w - 1 - s) by lia. exact Hf. }
  lia.
Qed.

Lemma fmt_f_length w d v : 1 <= d -> d + 3 <= w -> fits w v -> length (fmt_f w d v) = w.
Proof. intros. unfold fmt_f. apply lpad_length, fmt_f_body_length; assumption. Qed.

Lemma parse_float_fmt_f w d v : 1 <= d ->
  parse_float (fmt_f w d v) = Ok (mkpdec (dneg v) (dmant v) d).
Proof.
  intros Hd. unfold fmt_f, lpad.
  rewrite <- (app_nil_r (fmt_f_body d v)). apply parse_float_body; auto.
  apply forallb_repeat; reflexivity.
Qed.

Lemma count_char_app c a b : count_char c (a ++ b) = count_char c a + count_char c b.
Proof. induction a; simpl; [reflexivity|]. rewrite IHa. lia. Qed.
Lemma count_char_none c l : forallb (fun x => negb (Ascii.eqb x c)) l = true -> count_char c l = 0.
Proof.
  induction l; simpl; [reflexivity|]. intros H. apply andb_true_iff in H as [H1 H2].
  apply negb_true_iff in H1. rewrite H1, (IHl H2). reflexivity.
Qed.
Lemma digits_no_dot ds : forallb is_digit ds = true -> count_char "."%char ds = 0.
Proof. intros H. apply count_char_none. revert H. apply forallb_impl. intros c Hc.
  rewrite digit_not_dot by assumption. reflexivity. Qed.
Lemma digits_no_nl ds : forallb is_digit ds = true -> count_char NL ds = 0.
Proof. intros H. apply count_char_none. revert H. apply forallb_impl. intros c Hc.
  rewrite digit_not_nl by assumption. reflexivity. Qed.
Lemma repeat_sp_no c n : Ascii.eqb SP c = false -> count_char c (repeat SP n) = 0.
Proof. intros H. induction n; [reflexivity|]. cbn [repeat count_char]. rewrite H, IHn. reflexivity. Qed.

Lemma fmt_f_dots w d v : 1 <= d -> count_char "."%char (fmt_f w d v) = 1.
Proof.
  intros Hd. unfold fmt_f, lpad, fmt_f_body. destruct d as [|d']; [lia|].
  rewrite !count_char_app. rewrite repeat_sp_no by reflexivity.
  rewrite (digits_no_dot (to_digits _)) by apply to_digits_digits.
  cbn [count_char]. rewrite (digits_no_dot (digs_k _ _)) by apply digs_k_digits.
  destruct (dneg v); reflexivity.
Qed.
Lemma fmt_f_no_nl w d v : count_char NL (fmt_f w d v) = 0.
Proof.
  unfold fmt_f, lpad, fmt_f_body. rewrite !count_char_app. rewrite repeat_sp_no by reflexivity.
  rewrite (digits_no_nl (to_digits _)) by apply to_digits_digits.
  destruct d.
  - destruct (dneg v); reflexivity.
  - cbn [count_char]. rewrite (digits_no_nl (digs_k _ _)) by apply digs_k_digits. destruct (dneg v); reflexivity.
Qed.

(* ------------------------------------------------------------------ split() *)
Lemma split_ws_space c r : is_space_py c = true -> split_ws (c :: r) = split_ws r.
Proof. intros H. unfold split_ws. simpl. destruct (toks r) as [cur rest]. rewrite H. reflexivity. Qed.
Lemma split_ws_spaces a r : forallb is_space_py a = true -> split_ws (a ++ r) = split_ws r.
Proof.
  induction a; simpl; [reflexivity|]. intros H. apply andb_true_iff in H as [H1 H2].
  rewrite split_ws_space by assumption. auto.
Qed.
Lemma toks_token t r : forallb (fun c => negb (is_space_py c)) t = true ->
  toks (t ++ r) = (t ++ fst (toks r), snd (toks r)).
Proof.
  induction t as [|c t IH]; simpl; intros H.
  - destruct (toks r); reflexivity.
  - apply andb_true_iff in H as [H1 H2]. apply negb_true_iff in H1.
    rewrite (IH H2). rewrite H1. reflexivity.
Qed.
Lemma split_ws_token t c r : t <> [] -> forallb (fun c => negb (is_space_py c)) t = true ->
  is_space_py c = true -> split_ws (t ++ c :: r) = t :: split_ws r.
Proof.
  intros Hne Ht Hc. unfold split_ws. rewrite toks_token by assumption.
  simpl. destruct (toks r) as [cur rest]. rewrite Hc. simpl. rewrite app_nil_r.
  destruct t; [contradiction|]. reflexivity.
Qed.
Lemma split_ws_nil : split_ws [] = [].
Proof. reflexivity. Qed.

(* ------------------------------------------------------------------ lines and files *)
Definition no_nl (l : bytes) : Prop := forallb (fun c => negb (Ascii.eqb c NL)) l = true.

Lemma take_line_app l r : no_nl l -> take_line (l ++ NL :: r) = l ++ [NL].
Proof.
  unfold no_nl. induction l; simpl; intros H.
  - reflexivity.
  - apply andb_true_iff in H as [H1 H2]. apply negb_true_iff in H1. rewrite H1, (IHl H2). reflexivity.
Qed.
Lemma take_line_all l : no_nl l -> take_line l = l.
Proof.
  unfold no_nl. induction l; simpl; intros H; [reflexivity|].
  apply andb_true_iff in H as [H1 H2]. apply negb_true_iff in H1. rewrite H1, (IHl H2). reflexivity.
Qed.
Lemma no_nl_app a b : no_nl (a ++ b) <-> no_nl a /\ no_nl b.
Proof. unfold no_nl. rewrite forallb_app'. apply andb_true_iff. Qed.
Lemma no_nl_count l : no_nl l -> count_char NL l = 0.
Proof. apply count_char_none. Qed.
Lemma count_no_nl l : count_char NL l = 0 -> no_nl l.
Proof.
  unfold no_nl. induction l; simpl; [reflexivity|]. destruct (Ascii.eqb a NL); simpl; [discriminate|]. auto.
Qed.

Lemma readline_at_app a l r : no_nl l ->
  readline_at (a ++ l ++ NL :: r) (length a) = (l ++ [NL], length a + length l + 1).
Proof.
  intros H. unfold readline_at. rewrite skipn_app_exact by reflexivity.
  rewrite take_line_app by assumption. rewrite app_length. simpl. f_equal. lia.
Qed.

Lemma drop_final_nl_snoc l : drop_final_nl (l ++ [NL]) = l.
Proof. unfold drop_final_nl. rewrite rev_app_distr. simpl. apply rev_involutive. Qed.

Lemma write_at_end f data : write_at (length f) data f = f ++ data.
Proof.
  unfold write_at. rewrite firstn_all, Nat.sub_diag. simpl.
  rewrite skipn_all2 by lia. rewrite app_nil_r. reflexivity.
Qed.
Lemma write_at_mid a old b data : length old = length data ->
  write_at (length a) data (a ++ old ++ b) = a ++ data ++ b.
Proof.
  intros H. unfold write_at. rewrite firstn_app_exact by reflexivity.
  replace (length a - length (a ++ old ++ b)) with 0 by (rewrite app_length; lia). simpl.
  f_equal. f_equal. rewrite app_assoc. apply skipn_app_exact. rewrite app_length. lia.
Qed.
