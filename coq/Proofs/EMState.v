(* Proofs about the ExchangeMap state machine (Model/EMState.v), for EVERY geometric core that satisfies the
   two key laws below.  Statements are collected in Props/C04.v. *)
From Coq Require Import String.
From Coq Require Import List ZArith Arith Bool Lia.
Import ListNotations.
From GM Require Import Base.Res Model.EMState Proofs.EMStateBase.
Local Open Scope list_scope.

Section P.
Variables (vec fr : Type).
Variable frames_of : graph -> list vec -> res (list (nat * fr)).
Variable project_all : list (nat * fr) -> list vec -> list vec -> res (list (nat * vec)).
Variable restore : fr -> vec -> vec.
(* the keys written by _calculate_refsystems are the anchors of the bond graph, whatever the coordinates *)
Hypothesis frames_keys : forall g ps frs, frames_of g ps = Ok frs -> map fst frs = anchors g.
(* every target atom is assigned to a key of the construction frames *)
Hypothesis project_keys : forall rs ps tps ec, project_all rs ps tps = Ok ec ->
  forall ac, In ac ec -> In (fst ac) (map fst rs).

Notation heapV := (heap vec).
Notation stateV := (state vec fr).
Notation callV := (call vec fr frames_of restore).
Notation stepV := (step vec fr frames_of restore).
Notation runV := (run vec fr frames_of restore).
Notation buildV := (build vec fr frames_of project_all).
Notation result_ofV := (result_of vec fr frames_of restore).

(* labels of a cell: everything but the position and the residue number (the two things operations can write) /
   everything but the topology residue number *)
Definition glab (c : gcell vec) := (g_resname c, g_name c, g_atomid c, g_vel c).
Definition tlab (c : tcell) := (t_name c, t_resname c, t_index c, t_bonds c).

Lemma glab_set_pos v c : glab (set_pos vec v c) = glab c.
Proof. reflexivity. Qed.
Lemma tlab_set_tresid z c : tlab (set_tresid z c) = tlab c.
Proof. reflexivity. Qed.
Lemma glab_set_gresid z c : glab (set_gresid vec z c) = glab c.
Proof. reflexivity. Qed.
Lemma set_both_glab v z c c' :
  glab c = glab c' -> set_gresid vec z (set_pos vec v c) = set_gresid vec z (set_pos vec v c').
Proof. destruct c, c'; unfold glab, set_pos, set_gresid; simpl; intros E; inversion E; reflexivity. Qed.

(* ---------------- reading cells ---------------- *)
Lemma nth_res_app_l {A} (a e : list A) l c : nth_res a l = Ok c -> nth_res (a ++ e) l = Ok c.
Proof.
  unfold nth_res; destruct (nth_error a l) eqn:E; intros H; inversion H; subst.
  rewrite nth_error_app1 by (apply nth_error_Some; congruence). rewrite E; reflexivity.
Qed.

Lemma read_g_ext (h h' : heapV) e ls cs :
  gro h' = gro h ++ e -> read_g vec h ls = Ok cs -> read_g vec h' ls = Ok cs.
Proof.
  intros Hg; unfold read_g; rewrite Hg. revert cs; induction ls as [|l ls IH]; simpl; intros cs H; [exact H|].
  destruct (nth_res (gro h) l) eqn:E; simpl in H; [|discriminate].
  rewrite (nth_res_app_l _ _ _ _ E); simpl.
  destruct (mapM (nth_res (gro h)) ls) eqn:E2; simpl in H; [|discriminate].
  rewrite (IH _ eq_refl); exact H.
Qed.

Lemma read_groups_ext (h h' : heapV) e rs cs :
  gro h' = gro h ++ e -> mapM (read_g vec h) rs = Ok cs -> mapM (read_g vec h') rs = Ok cs.
Proof.
  intros Hg; revert cs; induction rs as [|r rs IH]; simpl; intros cs H; [exact H|].
  destruct (read_g vec h r) eqn:E; simpl in H; [|discriminate].
  rewrite (read_g_ext _ _ _ _ _ Hg E); simpl.
  destruct (mapM (read_g vec h) rs) eqn:E2; simpl in H; [|discriminate].
  rewrite (IH _ eq_refl); exact H.
Qed.

Lemma mol_resids_ext (h h' : heapV) e m rids :
  gro h' = gro h ++ e -> mol_resids vec h m = Ok rids -> mol_resids vec h' m = Ok rids.
Proof.
  intros Hg; unfold mol_resids; rewrite Hg. generalize (m_res m) as rs.
  intros rs; revert rids; induction rs as [|r rs IH]; simpl; intros rids H; [exact H|].
  destruct r as [|l r]; simpl in *; [discriminate|].
  destruct (nth_res (gro h) l) eqn:E; simpl in H; [|discriminate].
  rewrite (nth_res_app_l _ _ _ _ E); simpl.
  match type of H with context [mapM ?f rs] => destruct (mapM f rs) eqn:E2 end; simpl in H; [|discriminate].
  rewrite (IH _ eq_refl); exact H.
Qed.

Lemma read_g_shape (h : heapV) ls cs : read_g vec h ls = Ok cs -> length cs = length ls.
Proof. apply mapM_length. Qed.

Lemma read_groups_shape (h : heapV) rs cs :
  mapM (read_g vec h) rs = Ok cs -> map (@length _) cs = map (@length _) rs.
Proof.
  revert cs; induction rs as [|r rs IH]; simpl; intros cs H.
  - inversion H; reflexivity.
  - destruct (read_g vec h r) eqn:E; simpl in H; [|discriminate].
    destruct (mapM (read_g vec h) rs) eqn:E2; simpl in H; [|discriminate].
    inversion H; subst; simpl. rewrite (read_g_shape _ _ _ E), (IH _ eq_refl); reflexivity.
Qed.

Lemma shape_concat_length {A B} (a : list (list A)) (b : list (list B)) :
  map (@length _) a = map (@length _) b -> length (concat a) = length (concat b).
Proof.
  revert b; induction a as [|x a IH]; intros [|y b]; simpl; intros E; try discriminate; [reflexivity|].
  inversion E. rewrite !app_length. rewrite (IH b) by assumption. lia.
Qed.

(* ---------------- allocation ---------------- *)
Lemma alloc_res_spec (g : list (gcell vec)) cells g' rs :
  alloc_res vec g cells = (g', rs) ->
  g' = g ++ concat cells /\ concat rs = seq (length g) (length (concat cells)) /\
  map (@length _) rs = map (@length _) cells.
Proof.
  revert g g' rs; induction cells as [|r cells IH]; simpl; intros g g' rs H.
  - inversion H; subst; simpl. rewrite app_nil_r; auto.
  - destruct (alloc_res vec (g ++ r) cells) as [g1 ls] eqn:E. inversion H; subst.
    destruct (IH _ _ _ E) as [-> [Hc Hl]]. simpl. repeat split.
    + rewrite <- app_assoc; reflexivity.
    + rewrite Hc. rewrite (app_length r). rewrite seq_app. rewrite app_length. reflexivity.
    + rewrite seq_length, Hl; reflexivity.
Qed.

Lemma read_seq (a r rest : list (gcell vec)) t :
  read_g vec (mkHeap (a ++ r ++ rest) t) (seq (length a) (length r)) = Ok r.
Proof.
  unfold read_g; simpl. revert a; induction r as [|c r IH]; intros a; simpl; [reflexivity|].
  unfold nth_res at 1. rewrite nth_error_app2 by lia. rewrite Nat.sub_diag; simpl.
  replace (a ++ c :: r ++ rest) with ((a ++ [c]) ++ r ++ rest) by (rewrite <- app_assoc; reflexivity).
  replace (S (length a)) with (length (a ++ [c])) by (rewrite app_length; simpl; lia).
  rewrite IH. reflexivity.
Qed.

Lemma alloc_res_len cells : forall (a a' : list (gcell vec)),
  length a = length a' -> snd (alloc_res vec a cells) = snd (alloc_res vec a' cells).
Proof.
  induction cells as [|c cells IH]; simpl; intros a a' L; [reflexivity|].
  specialize (IH (a ++ c) (a' ++ c)). rewrite !app_length in IH. specialize (IH ltac:(lia)).
  destruct (alloc_res vec (a ++ c) cells), (alloc_res vec (a' ++ c) cells); simpl in *.
  rewrite L, IH; reflexivity.
Qed.

Lemma read_alloc cells : forall (a : list (gcell vec)) g' rs R t,
  alloc_res vec a cells = (g', rs) -> map (@length _) R = map (@length _) cells ->
  mapM (read_g vec (mkHeap (a ++ concat R) t)) rs = Ok R.
Proof.
  induction cells as [|r cells IH]; simpl; intros a g' rs R t H HR.
  - inversion H; subst. destruct R; [reflexivity|discriminate].
  - destruct (alloc_res vec (a ++ r) cells) as [g1 ls] eqn:E. inversion H; subst.
    destruct R as [|r' R]; [discriminate|]. simpl in HR. inversion HR as [[Hl HR']].
    simpl. rewrite read_seq. simpl.
    destruct (alloc_res vec (a ++ r') cells) as [g2 ls2] eqn:E'.
    assert (ls2 = ls).
    { pose proof (alloc_res_len cells (a ++ r') (a ++ r)) as L. rewrite !app_length in L.
      specialize (L ltac:(lia)). rewrite E, E' in L. exact L. }
    subst ls2. rewrite app_assoc. rewrite (IH _ _ _ R t E' HR'). reflexivity.
Qed.

(* ---------------- residue-wise and atom-wise forms of the two write loops ---------------- *)
Lemma set_positions_concat (tc : list (list (gcell vec))) ps :
  concat (set_positions vec tc ps) = map (fun cp => set_pos vec (snd cp) (fst cp)) (combine (concat tc) ps).
Proof.
  revert ps; induction tc as [|r tc IH]; simpl; intros ps; [reflexivity|].
  rewrite IH, combine_app_split, map_app. reflexivity.
Qed.

Lemma set_positions_shape (tc : list (list (gcell vec))) ps :
  length (concat tc) <= length ps -> map (@length _) (set_positions vec tc ps) = map (@length _) tc.
Proof.
  revert ps; induction tc as [|r tc IH]; simpl; intros ps L; [reflexivity|].
  rewrite app_length in L.
  rewrite map_length, combine_length, firstn_length. rewrite IH by (rewrite skipn_length; lia).
  f_equal. lia.
Qed.

Lemma combine_app_eq {A B} (a b : list A) (c d : list B) :
  length a = length c -> combine (a ++ b) (c ++ d) = combine a c ++ combine b d.
Proof.
  revert c; induction a as [|x a IH]; intros [|y c]; simpl; intros L; try discriminate; [reflexivity|].
  rewrite IH by lia; reflexivity.
Qed.

Lemma per_atom_shape {A B} (G : list (list A)) (G' : list (list B)) rids :
  map (@length _) G' = map (@length _) G -> per_atom G' rids = per_atom G rids.
Proof.
  unfold per_atom. revert G' rids; induction G as [|r G IH]; intros [|r' G'] rids E; try discriminate; [reflexivity|].
  destruct rids as [|z rids]; [reflexivity|]. simpl in *. inversion E as [[Hl E']].
  rewrite (IH G' rids E'). f_equal.
  clear - Hl. revert r Hl; induction r' as [|x r' IHr]; intros [|y r] Hl; simpl in *; try discriminate; [reflexivity|].
  f_equal. apply IHr. lia.
Qed.

Lemma per_atom_length {A} (G : list (list A)) rids :
  length rids = length G -> length (per_atom G rids) = length (concat G).
Proof.
  unfold per_atom. revert rids; induction G as [|r G IH]; intros [|z rids] L; simpl in *; try discriminate; [reflexivity|].
  rewrite !app_length, map_length, IH by lia. reflexivity.
Qed.

Lemma set_resids_concat (G : list (list (gcell vec))) rids :
  length rids = length G ->
  map (fun cz => set_gresid vec (snd cz) (fst cz)) (combine (concat G) (per_atom G rids))
  = concat (map (fun rc => map (set_gresid vec (snd rc)) (fst rc)) (combine G rids)).
Proof.
  unfold per_atom. revert rids; induction G as [|r G IH]; intros [|z rids] L; simpl in *; try discriminate; [reflexivity|].
  rewrite combine_app_eq by (rewrite map_length; reflexivity).
  rewrite map_app, IH by lia. f_equal.
  clear. induction r as [|c r IHr]; simpl; [reflexivity|]. rewrite IHr; reflexivity.
Qed.

Lemma set_resids_shape (G : list (list (gcell vec))) rids :
  length rids = length G ->
  map (@length _) (map (fun rc => map (set_gresid vec (snd rc)) (fst rc)) (combine G rids)) = map (@length _) G.
Proof.
  revert rids; induction G as [|r G IH]; intros [|z rids] L; simpl in *; try discriminate; [reflexivity|].
  rewrite map_length, IH by lia. reflexivity.
Qed.

(* ---------------- Molecule.copy() ---------------- *)
Lemma copy_mol_spec (h h1 : heapV) m nm cells :
  mapM (read_g vec h) (m_res m) = Ok cells -> copy_mol vec h m = Ok (h1, nm) ->
  gro h1 = gro h ++ concat cells /\ top h1 = top h /\ m_top nm = m_top m /\ m_name nm = m_name m /\
  m_atoms nm = seq (length (gro h)) (length (concat cells)) /\
  map (@length _) (m_res nm) = map (@length _) cells /\
  alloc_res vec (gro h) cells = (gro h1, m_res nm).
Proof.
  unfold copy_mol; intros Hc; rewrite Hc; simpl.
  destruct (alloc_res vec (gro h) cells) as [g' rs] eqn:E. intros H; inversion H; subst; simpl.
  destruct (alloc_res_spec _ _ _ _ E) as [-> [Hs Hl]]. unfold m_atoms; simpl. auto 10.
Qed.

(* ---------------- the core: one call computes the history-free specification ---------------- *)
Lemma restore_all_update (old frs : list (nat * fr)) ec :
  NoDup (map fst frs) -> (forall ac, In ac ec -> In (fst ac) (map fst frs)) ->
  restore_all vec fr restore (dict_update old frs) ec = restore_all vec fr restore frs ec.
Proof.
  intros Hnd Hin. unfold restore_all. apply mapM_ext. intros ac Hac.
  rewrite (dict_update_get_in old [] frs) by (apply Hin; assumption).
  rewrite dict_update_fresh by (simpl; assumption). reflexivity.
Qed.

Lemma shape_length {A B} (a : list (list A)) (b : list (list B)) :
  map (@length _) a = map (@length _) b -> length a = length b.
Proof. intros E. apply (f_equal (@length _)) in E. rewrite !map_length in E. exact E. Qed.

Lemma call_spec (st : stateV) h arg ps g rids tcells :
  nth_error (s_objs st) h = Some arg ->
  mol_eq vec (s_heap st) (e_ref (s_map st)) arg = Ok true ->
  mol_positions vec (s_heap st) arg = Ok ps ->
  mol_graph vec (s_heap st) arg = Ok g ->
  mol_resids vec (s_heap st) arg = Ok rids ->
  mapM (read_g vec (s_heap st)) (m_res (e_tgt (s_map st))) = Ok tcells ->
  length (m_top (e_tgt (s_map st))) = length (m_atoms (e_tgt (s_map st))) ->
  (forall ac, In ac (e_ec (s_map st)) -> In (fst ac) (anchors g)) ->
  snd (callV st h) = result_ofV (e_ec (s_map st)) g tcells ps rids.
Proof.
  intros Hh Heq Hps Hg Hr Ht Hwf Hec.
  unfold call, result_of. rewrite Hh, Heq, Hps, Hg. simpl.
  destruct (frames_of g ps) as [frs|e] eqn:Hf; simpl; [|reflexivity].
  pose proof (frames_keys _ _ _ Hf) as Hk.
  assert (Hnd : NoDup (map fst frs)) by (rewrite Hk; apply anchors_nodup).
  destruct (copy_mol vec (s_heap st) (e_tgt (s_map st))) as [[h1 nm]|e] eqn:Hc.
  2:{ unfold copy_mol in Hc. rewrite Ht in Hc. simpl in Hc.
      destruct (alloc_res vec (gro (s_heap st)) tcells); discriminate. }
  destruct (copy_mol_spec _ _ _ _ _ Ht Hc) as (Hg1 & Ht1 & Htop & Hname & Hat & Hshape & Hal).
  rewrite restore_all_update by (try assumption; rewrite Hk; assumption).
  destruct (restore_all vec fr restore frs (e_ec (s_map st))) as [ps'|e] eqn:Hra; simpl; [|reflexivity].
  destruct (zip_res (m_atoms nm) ps') as [lps|e] eqn:Hz; simpl.
  2:{ destruct (zip_res_err _ _ _ Hz) as [-> Hn]. rewrite Hat, seq_length in Hn.
      destruct (Nat.eqb (length ps') (length (concat tcells))) eqn:E; simpl;
        [apply Nat.eqb_eq in E; congruence|reflexivity]. }
  destruct (zip_res_ok _ _ _ Hz) as [-> Hlen]. rewrite Hat, seq_length in Hlen.
  rewrite <- Hlen, Nat.eqb_refl. simpl.
  set (a := gro (s_heap st)) in *.
  set (b1 := map (fun cp => set_pos vec (snd cp) (fst cp)) (combine (concat tcells) ps')).
  assert (Hw1 : write_g vec (gro h1) (map (fun lp => (fst lp, set_pos vec (snd lp))) (combine (m_atoms nm) ps'))
                = a ++ b1).
  { rewrite Hg1, Hat. apply (writes_segment (set_pos vec)). lia. }
  rewrite Hw1.
  rewrite (mol_resids_ext (s_heap st) (mkHeap (a ++ b1) (top h1)) b1 arg rids eq_refl Hr).
  assert (Hlr : length (m_res nm) = length tcells) by (apply shape_length; assumption).
  rewrite Hlr.
  destruct (Nat.eqb (length rids) (length tcells)) eqn:El; simpl; [|reflexivity].
  apply Nat.eqb_eq in El.
  assert (Hb1 : length b1 = length (concat tcells)).
  { unfold b1. rewrite map_length, combine_length. lia. }
  assert (Hper : length (per_atom (m_res nm) rids) = length (concat tcells)).
  { rewrite per_atom_length by lia. apply shape_concat_length; assumption. }
  rewrite (zip_res_len (m_atoms nm)) by (rewrite Hat, seq_length; lia).
  rewrite (zip_res_len (m_top nm)).
  2:{ rewrite Htop, Hwf, Hper. unfold m_atoms. symmetry. apply shape_concat_length.
      apply (read_groups_shape _ _ _ Ht). }
  simpl.
  set (G := set_positions vec tcells ps').
  assert (HG : map (@length _) G = map (@length _) tcells) by (apply set_positions_shape; lia).
  assert (Hw2 : write_g vec (a ++ b1)
                  (map (fun lz => (fst lz, set_gresid vec (snd lz))) (combine (m_atoms nm) (per_atom (m_res nm) rids)))
                = a ++ concat (map (fun rc => map (set_gresid vec (snd rc)) (fst rc)) (combine G rids))).
  { rewrite Hat, <- Hb1. etransitivity; [apply (writes_segment (set_gresid vec)); lia|]. f_equal.
    rewrite (per_atom_shape G (m_res nm)) by congruence.
    unfold b1. rewrite <- set_positions_concat. fold G.
    apply set_resids_concat. rewrite El. symmetry; apply shape_length; assumption. }
  rewrite Hw2. unfold dump_mol.
  apply (read_alloc tcells a (gro h1) (m_res nm)); [exact Hal|].
  rewrite set_resids_shape; [exact HG|]. rewrite El. symmetry; apply shape_length; assumption.
Qed.

(* ---------------- purity of a call: what it may write ---------------- *)
Definition framed (st st' : stateV) : Prop :=
  (exists e, gro (s_heap st') = gro (s_heap st) ++ e) /\
  map tlab (top (s_heap st')) = map tlab (top (s_heap st)) /\
  (forall l, ~ In l (m_top (e_tgt (s_map st))) ->
     nth_error (top (s_heap st')) l = nth_error (top (s_heap st)) l) /\
  e_ref (s_map st') = e_ref (s_map st) /\ e_tgt (s_map st') = e_tgt (s_map st) /\
  e_ec (s_map st') = e_ec (s_map st) /\
  (s_objs st' = s_objs st \/
   exists nm, s_objs st' = s_objs st ++ [nm] /\ m_top nm = m_top (e_tgt (s_map st)) /\
     m_name nm = m_name (e_tgt (s_map st)) /\
     forall l, In l (m_atoms nm) -> length (gro (s_heap st)) <= l).

Lemma framed_same_top (st : stateV) g' rs' e :
  g' = gro (s_heap st) ++ e ->
  framed st (mkSt (mkHeap g' (top (s_heap st))) (s_objs st)
                  (mkEM (e_ref (s_map st)) (e_tgt (s_map st)) rs' (e_ec (s_map st)))).
Proof. intros ->. unfold framed; simpl. repeat split; eauto. Qed.

Lemma framed_refl (st : stateV) : framed st st.
Proof. unfold framed. repeat split; auto. exists []. rewrite app_nil_r; reflexivity. Qed.

Lemma write_g_fresh {V} (a b : list (gcell vec)) locs (F : V -> gcell vec -> gcell vec) (vs : list V) :
  (forall l, In l locs -> length a <= l) ->
  exists b', write_g vec (a ++ b) (map (fun lp => (fst lp, F (snd lp))) (combine locs vs)) = a ++ b'.
Proof.
  intros Hl.
  destruct (writes_app_r a b (map (fun lp => (fst lp, F (snd lp))) (combine locs vs))) as [b' [E _]].
  - intros lw Hin. apply in_map_iff in Hin. destruct Hin as [[l v] [<- Hin]]. simpl.
    apply Hl. eapply in_combine_l; eauto.
  - exists b'. exact E.
Qed.

Lemma call_framed (st : stateV) h : framed st (fst (callV st h)).
Proof.
  unfold call.
  destruct (nth_error (s_objs st) h) as [arg|]; [|apply framed_refl].
  destruct (mol_eq vec (s_heap st) (e_ref (s_map st)) arg) as [[|]|e]; try apply framed_refl.
  match goal with |- context [match ?x with Ok frs => _ | Err e => _ end] =>
    destruct x as [frs|e]; [|apply framed_refl] end.
  destruct (s_heap st) as [g0 t0] eqn:Hh0.
  assert (Hg0 : g0 = gro (s_heap st)) by (rewrite Hh0; reflexivity).
  assert (Ht0 : t0 = top (s_heap st)) by (rewrite Hh0; reflexivity).
  destruct (copy_mol vec (mkHeap g0 t0) (e_tgt (s_map st))) as [[h1 nm]|e] eqn:Hc; simpl fst.
  2:{ rewrite Hg0, Ht0. apply framed_same_top with (e := @nil (gcell vec)). rewrite app_nil_r; reflexivity. }
  assert (Hc' := Hc). unfold copy_mol in Hc'.
  destruct (mapM (read_g vec (mkHeap g0 t0)) (m_res (e_tgt (s_map st)))) as [cells|] eqn:Hcells;
    simpl in Hc'; [|discriminate]. clear Hc'.
  destruct (copy_mol_spec _ _ _ _ _ Hcells Hc) as (Hg1 & Ht1 & Htop & Hname & Hat & Hshape & Hal).
  simpl in Hg1, Ht1, Hat.
  assert (Hfresh : forall l, In l (m_atoms nm) -> length g0 <= l).
  { intros l Hin. rewrite Hat in Hin. apply in_seq in Hin. lia. }
  match goal with |- context [match ?x with Ok lps => _ | Err e => _ end] =>
    destruct x as [lps|e] eqn:Hz end; simpl fst.
  2:{ destruct h1 as [g1 t1]; simpl in *. subst t1. rewrite Ht0. subst g1. rewrite Hg0.
      eapply framed_same_top. reflexivity. }
  assert (Hlps : exists ps', lps = combine (m_atoms nm) ps').
  { destruct (restore_all vec fr restore _ (e_ec (s_map st))) as [ps'|]; simpl in Hz; [|discriminate].
    exists ps'. apply (zip_res_ok _ _ _ Hz). }
  destruct Hlps as [ps' ->].
  destruct (write_g_fresh g0 (concat cells) (m_atoms nm) (set_pos vec) ps' Hfresh) as [b1 Hw1].
  rewrite Hg1, Ht1.
  match goal with |- context [write_g vec ?g ?l] =>
    replace (write_g vec g l) with (g0 ++ b1) by (symmetry; exact Hw1) end.
  destruct (mol_resids vec _ arg) as [rids|e]; simpl fst.
  2:{ rewrite Hg0, Ht0. eapply framed_same_top. reflexivity. }
  destruct (negb (Nat.eqb (length rids) (length (m_res nm)))); simpl fst.
  { rewrite Hg0, Ht0. eapply framed_same_top. reflexivity. }
  match goal with |- context [match ?x with Ok gt => _ | Err e => _ end] =>
    destruct x as [[gw tw]|e] eqn:Hz2 end; simpl fst.
  2:{ rewrite Hg0, Ht0. eapply framed_same_top. reflexivity. }
  simpl in Hz2.
  destruct (zip_res (m_atoms nm) (per_atom (m_res nm) rids)) as [gw'|] eqn:Z1; simpl in Hz2; [|discriminate].
  destruct (zip_res (m_top nm) (per_atom (m_res nm) rids)) as [tw'|] eqn:Z2; simpl in Hz2; [|discriminate].
  inversion Hz2; subst gw' tw'; clear Hz2.
  destruct (zip_res_ok _ _ _ Z1) as [-> _]. destruct (zip_res_ok _ _ _ Z2) as [-> _].
  destruct (write_g_fresh g0 b1 (m_atoms nm) (set_gresid vec) (per_atom (m_res nm) rids) Hfresh) as [b2 Hw2].
  match goal with |- context [write_g vec ?g ?l] =>
    replace (write_g vec g l) with (g0 ++ b2) by (symmetry; exact Hw2) end.
  unfold framed; simpl. rewrite Hh0; simpl.
  split; [exists b2; reflexivity|].
  split.
  { apply (writes_map tlab). intros lw x Hin. apply in_map_iff in Hin. destruct Hin as [[l z] [<- _]]. reflexivity. }
  split.
  { intros l Hnl. apply writes_nth_other. intros Hin. apply Hnl.
    rewrite map_map in Hin. simpl in Hin. apply in_map_iff in Hin. destruct Hin as [[l' z] [<- Hin]]. simpl.
    rewrite <- Htop. eapply in_combine_l; eauto. }
  repeat split; auto.
  right. exists nm. repeat split; auto.
Qed.

(* ---------------- what every operation preserves: labels of existing cells, the map's constants -------- *)
Definition lab_ext (h h' : heapV) : Prop :=
  (exists e, map glab (gro h') = map glab (gro h) ++ e) /\ map tlab (top h') = map tlab (top h).
Definition same_map (st st' : stateV) : Prop :=
  e_ref (s_map st') = e_ref (s_map st) /\ e_tgt (s_map st') = e_tgt (s_map st) /\
  e_ec (s_map st') = e_ec (s_map st).

Lemma lab_ext_refl h : lab_ext h h.
Proof. split; [exists []; rewrite app_nil_r|]; reflexivity. Qed.
Lemma lab_ext_trans h1 h2 h3 : lab_ext h1 h2 -> lab_ext h2 h3 -> lab_ext h1 h3.
Proof.
  intros [[e1 E1] T1] [[e2 E2] T2]. split; [|congruence].
  exists (e1 ++ e2). rewrite E2, E1, app_assoc. reflexivity.
Qed.
Lemma same_map_refl st : same_map st st.
Proof. repeat split. Qed.
Lemma same_map_trans s1 s2 s3 : same_map s1 s2 -> same_map s2 s3 -> same_map s1 s3.
Proof. unfold same_map; intuition congruence. Qed.

Lemma call_lab st h : lab_ext (s_heap st) (s_heap (fst (callV st h))) /\ same_map st (fst (callV st h)).
Proof.
  destruct (call_framed st h) as ([e He] & Ht & _ & H1 & H2 & H3 & _).
  split; [split|repeat split]; auto. exists (map glab e). rewrite He, map_app. reflexivity.
Qed.

Lemma poke_lab h m i v h' : poke vec h m i v = Ok h' -> lab_ext h h'.
Proof.
  unfold poke. destruct (nth_res (m_atoms m) i) as [l|]; simpl; [|discriminate].
  destruct (nth_res (gro h) l); simpl; [|discriminate]. intros E; inversion E; subst; clear E.
  split; simpl; [|reflexivity]. exists []. rewrite app_nil_r. apply upd_map. intros; reflexivity.
Qed.

Lemma renumber_spec h m rids h' : renumber vec h m rids = Ok h' ->
  lab_ext h h' /\ length (gro h') = length (gro h) /\
  (forall l, ~ In l (m_top m) -> nth_error (top h') l = nth_error (top h) l).
Proof.
  unfold renumber. destruct rids as [|z0 rids0]; [discriminate|]. set (rids := z0 :: rids0).
  destruct (mol_resids vec h m) as [cur|]; cbn [bind]; [|discriminate].
  match goal with |- context [if ?c then _ else _] => destruct c end; [discriminate|].
  destruct (zip_res (m_atoms m) (per_atom (m_res m) rids)) as [a|] eqn:Za; simpl; [|discriminate].
  destruct (zip_res (m_top m) (per_atom (m_res m) rids)) as [b|] eqn:Zb; simpl; [|discriminate].
  intros E; inversion E; subst; clear E. simpl.
  destruct (zip_res_ok _ _ _ Zb) as [-> _].
  split; [split|split].
  - exists []. rewrite app_nil_r. simpl. apply (writes_map glab).
    intros lw x Hin. apply in_map_iff in Hin. destruct Hin as [[l z] [<- _]]. reflexivity.
  - simpl. apply (writes_map tlab).
    intros lw x Hin. apply in_map_iff in Hin. destruct Hin as [[l z] [<- _]]. reflexivity.
  - apply writes_length.
  - intros l Hnl. apply writes_nth_other. intros Hin. apply Hnl.
    rewrite map_map in Hin. simpl in Hin. apply in_map_iff in Hin. destruct Hin as [[l' z] [<- Hin]]. simpl.
    eapply in_combine_l; eauto.
Qed.

Lemma with_heap_lab (st : stateV) r :
  (forall h', r = Ok h' -> lab_ext (s_heap st) h') ->
  lab_ext (s_heap st) (s_heap (fst (with_heap vec fr st r))) /\ same_map st (fst (with_heap vec fr st r)).
Proof.
  intros H. destruct r as [h'|e]; simpl.
  - split; [apply H; reflexivity|repeat split].
  - split; [apply lab_ext_refl|apply same_map_refl].
Qed.

Lemma step_lab st o : lab_ext (s_heap st) (s_heap (fst (stepV st o))) /\ same_map st (fst (stepV st o)).
Proof.
  destruct o as [h| |i v|i v|h i v|rids|rids|h rids]; simpl.
  - pose proof (call_lab st h) as H. destruct (callV st h) as [st' r]; exact H.
  - split; [apply lab_ext_refl|apply same_map_refl].
  - apply with_heap_lab. intros h' E. eapply poke_lab; eauto.
  - apply with_heap_lab. intros h' E. eapply poke_lab; eauto.
  - destruct (nth_error (s_objs st) h) as [m|]; simpl.
    + apply with_heap_lab. intros h' E. eapply poke_lab; eauto.
    + split; [apply lab_ext_refl|apply same_map_refl].
  - apply with_heap_lab. intros h' E. apply (renumber_spec _ _ _ _ E).
  - apply with_heap_lab. intros h' E. apply (renumber_spec _ _ _ _ E).
  - destruct (nth_error (s_objs st) h) as [m|]; simpl.
    + apply with_heap_lab. intros h' E. apply (renumber_spec _ _ _ _ E).
    + split; [apply lab_ext_refl|apply same_map_refl].
Qed.

Lemma run_lab ops : forall st, lab_ext (s_heap st) (s_heap (runV st ops)) /\ same_map st (runV st ops).
Proof.
  induction ops as [|o ops IH]; intros st; simpl.
  - split; [apply lab_ext_refl|apply same_map_refl].
  - destruct (step_lab st o) as [L1 M1]. destruct (IH (fst (stepV st o))) as [L2 M2].
    split; [eapply lab_ext_trans; eauto|eapply same_map_trans; eauto].
Qed.

(* reading through a label-preserving extension *)
Lemma lab_nth_g h h' l c : lab_ext h h' -> nth_error (gro h) l = Some c ->
  exists c', nth_error (gro h') l = Some c' /\ glab c' = glab c.
Proof.
  intros [[e He] _] Hn.
  assert (H : nth_error (map glab (gro h')) l = Some (glab c)).
  { rewrite He, nth_error_app1.
    - rewrite nth_error_map, Hn; reflexivity.
    - rewrite map_length. apply nth_error_Some; congruence. }
  rewrite nth_error_map in H. destruct (nth_error (gro h') l) as [c'|]; simpl in H; [|discriminate].
  exists c'. split; [reflexivity|congruence].
Qed.

Lemma read_g_lab h h' ls cs : lab_ext h h' -> read_g vec h ls = Ok cs ->
  exists cs', read_g vec h' ls = Ok cs' /\ map glab cs' = map glab cs.
Proof.
  intros L; unfold read_g. revert cs; induction ls as [|l ls IH]; simpl; intros cs H.
  - inversion H; subst. exists []; auto.
  - destruct (nth_res (gro h) l) as [c|] eqn:E; simpl in H; [|discriminate].
    destruct (mapM (nth_res (gro h)) ls) as [cs0|] eqn:E2; simpl in H; [|discriminate]. inversion H; subst.
    apply nth_res_ok in E. destruct (lab_nth_g _ _ _ _ L E) as [c' [E' Hc]].
    destruct (IH _ eq_refl) as [cs' [E3 Hcs]].
    apply nth_res_ok in E'. rewrite E', E3. simpl. exists (c' :: cs'). simpl. rewrite Hc, Hcs. auto.
Qed.

Lemma read_groups_lab h h' rs cs : lab_ext h h' -> mapM (read_g vec h) rs = Ok cs ->
  exists cs', mapM (read_g vec h') rs = Ok cs' /\ map (map glab) cs' = map (map glab) cs.
Proof.
  intros L. revert cs; induction rs as [|r rs IH]; simpl; intros cs H.
  - inversion H; subst. exists []; auto.
  - destruct (read_g vec h r) as [c|] eqn:E; simpl in H; [|discriminate].
    destruct (mapM (read_g vec h) rs) as [cs0|] eqn:E2; simpl in H; [|discriminate]. inversion H; subst.
    destruct (read_g_lab _ _ _ _ L E) as [c' [E' Hc]]. destruct (IH _ eq_refl) as [cs' [E3 Hcs]].
    rewrite E', E3. simpl. exists (c' :: cs'). simpl. rewrite Hc, Hcs. auto.
Qed.

Lemma mol_graph_lab h h' m : lab_ext h h' -> mol_graph vec h' m = mol_graph vec h m.
Proof.
  intros [_ Ht]. unfold mol_graph, read_t. generalize (m_top m) as ls.
  assert (Hn : forall l, option_map tlab (nth_error (top h') l) = option_map tlab (nth_error (top h) l)).
  { intros l. rewrite <- !nth_error_map, Ht. reflexivity. }
  induction ls as [|l ls IH]; simpl; [reflexivity|].
  specialize (Hn l). unfold nth_res at 1 3.
  destruct (nth_error (top h') l) as [c'|], (nth_error (top h) l) as [c|]; simpl in Hn; try discriminate; simpl; [|reflexivity].
  inversion Hn as [Hc].
  destruct (mapM (nth_res (top h')) ls) as [a|ea], (mapM (nth_res (top h)) ls) as [b|eb];
    simpl in *; try discriminate; try assumption.
  inversion IH as [Hab]. unfold tlab in Hc. inversion Hc. rewrite Hab. congruence.
Qed.

(* the specification only looks at the labels of the target's cells *)
Lemma labs_shape (a b : list (list (gcell vec))) :
  map (map glab) a = map (map glab) b -> map (@length _) a = map (@length _) b.
Proof.
  revert b; induction a as [|x a IH]; intros [|y b] E; simpl in *; try discriminate; [reflexivity|].
  inversion E as [[Hx Hr]]. rewrite (IH b Hr). f_equal.
  apply (f_equal (@length _)) in Hx. rewrite !map_length in Hx. exact Hx.
Qed.

Lemma final_lab (tc tc' : list (list (gcell vec))) ps rids :
  map (map glab) tc = map (map glab) tc' ->
  map (fun rc => map (set_gresid vec (snd rc)) (fst rc)) (combine (set_positions vec tc ps) rids) =
  map (fun rc => map (set_gresid vec (snd rc)) (fst rc)) (combine (set_positions vec tc' ps) rids).
Proof.
  revert tc' ps rids; induction tc as [|r tc IH]; intros [|r' tc'] ps rids E; simpl in *; try discriminate; [reflexivity|].
  destruct rids as [|z rids]; [reflexivity|].
  assert (Hr : map glab r = map glab r') by (exact (f_equal (hd (map glab r)) E)).
  assert (Ht : map (map glab) tc = map (map glab) tc') by (exact (f_equal (@tl _) E)).
  assert (Hl : length r = length r').
  { apply (f_equal (@length _)) in Hr. rewrite !map_length in Hr. exact Hr. }
  simpl. rewrite <- Hl, (IH tc' _ rids Ht). f_equal.
  generalize (firstn (length r) ps) as qs. clear - Hr.
  revert r' Hr; induction r as [|c r IHr]; intros [|c' r'] Hr qs; simpl in *; try discriminate; [reflexivity|].
  destruct qs as [|q qs]; [reflexivity|]. simpl.
  assert (Hc : glab c = glab c') by (exact (f_equal (hd (glab c)) Hr)).
  assert (Hr' : map glab r = map glab r') by (exact (f_equal (@tl _) Hr)).
  rewrite (set_both_glab q z c c' Hc), (IHr r' Hr' qs). reflexivity.
Qed.

Lemma result_of_lab ec g (tc tc' : list (list (gcell vec))) ps rids :
  map (map glab) tc = map (map glab) tc' -> result_ofV ec g tc ps rids = result_ofV ec g tc' ps rids.
Proof.
  intros E. unfold result_of.
  destruct (frames_of g ps) as [frs|]; simpl; [|reflexivity].
  destruct (restore_all vec fr restore frs ec) as [ps'|]; simpl; [|reflexivity].
  pose proof (labs_shape _ _ E) as Hs.
  rewrite (shape_concat_length _ _ Hs), (shape_length _ _ Hs), (final_lab _ _ _ _ E). reflexivity.
Qed.

(* ---------------- construction ---------------- *)
Lemma build_facts hp objs ref tgt st0 g0 :
  buildV hp objs ref tgt = Ok st0 -> mol_graph vec hp ref = Ok g0 ->
  s_heap st0 = hp /\ s_objs st0 = objs /\ e_ref (s_map st0) = ref /\ e_tgt (s_map st0) = tgt /\
  map fst (e_refsys (s_map st0)) = anchors g0 /\
  (forall ac, In ac (e_ec (s_map st0)) -> In (fst ac) (anchors g0)).
Proof.
  unfold build. intros H Hg.
  destruct (mol_positions vec hp ref) as [ps|]; simpl in H; [|discriminate].
  rewrite Hg in H; simpl in H.
  destruct (frames_of g0 ps) as [frs|] eqn:Hf; simpl in H; [|discriminate].
  destruct (mol_positions vec hp tgt) as [tps|]; simpl in H; [|discriminate].
  destruct (project_all (dict_update [] frs) ps tps) as [ec|] eqn:Hp; simpl in H; [|discriminate].
  inversion H; subst; simpl. repeat split; auto.
  - rewrite dict_update_fresh by (simpl; rewrite (frames_keys _ _ _ Hf); apply anchors_nodup).
    simpl. apply (frames_keys _ _ _ Hf).
  - intros ac Hin. pose proof (project_keys _ _ _ _ Hp ac Hin) as Hk.
    rewrite dict_update_fresh in Hk by (simpl; rewrite (frames_keys _ _ _ Hf); apply anchors_nodup).
    simpl in Hk. rewrite (frames_keys _ _ _ Hf) in Hk. exact Hk.
Qed.

Lemma snd_step_call (st : stateV) h : snd (stepV st (Call h)) = OCall (snd (callV st h)).
Proof. simpl. destruct (callV st h); reflexivity. Qed.
Lemma fst_step_call (st : stateV) h : fst (stepV st (Call h)) = fst (callV st h).
Proof. simpl. destruct (callV st h); reflexivity. Qed.

(* ---------------- C04_history ---------------- *)
(* Whatever happened before (ops: calls with any handles, rejected calls, coordinate changes of the
   construction molecules, of arguments, of returned molecules), a call whose argument passes the species
   test and has the species' bond graph returns result_of: a function of the construction-time
   projections (e_ec st0), the species graph g0, the LABELS of the target's cells at construction, and the
   argument's coordinates and residue numbers now.  Nothing else of the history enters. *)
Theorem history hp objs ref tgt st0 tcells0 g0 :
  buildV hp objs ref tgt = Ok st0 ->
  mapM (read_g vec hp) (m_res tgt) = Ok tcells0 ->
  length (m_top tgt) = length (m_atoms tgt) ->
  mol_graph vec hp ref = Ok g0 ->
  forall ops h arg ps rids,
  let st := runV st0 ops in
  nth_error (s_objs st) h = Some arg ->
  mol_eq vec (s_heap st) ref arg = Ok true ->
  mol_graph vec (s_heap st) arg = Ok g0 ->
  mol_positions vec (s_heap st) arg = Ok ps ->
  mol_resids vec (s_heap st) arg = Ok rids ->
  snd (stepV st (Call h)) = OCall (result_ofV (e_ec (s_map st0)) g0 tcells0 ps rids).
Proof.
  intros Hb Ht Hwf Hg ops h arg ps rids st Hh Heq Hga Hps Hr.
  destruct (build_facts _ _ _ _ _ _ Hb Hg) as (Hh0 & _ & Href & Htgt & _ & Hec).
  destruct (run_lab ops st0) as [L (M1 & M2 & M3)]. fold st in L, M1, M2, M3.
  rewrite Hh0 in L.
  destruct (read_groups_lab _ _ _ _ L Ht) as [tc [Htc Hlab]].
  rewrite snd_step_call. f_equal.
  rewrite <- (result_of_lab _ _ _ _ _ _ Hlab), <- M3.
  apply call_spec with (arg := arg); auto.
  - rewrite M1, Href. exact Heq.
  - rewrite M2, Htgt. exact Htc.
  - rewrite M2, Htgt. exact Hwf.
  - rewrite M3. exact Hec.
Qed.

(* two histories, same argument content now: same outcome *)
Corollary history_indep hp objs ref tgt st0 tcells0 g0 :
  buildV hp objs ref tgt = Ok st0 ->
  mapM (read_g vec hp) (m_res tgt) = Ok tcells0 ->
  length (m_top tgt) = length (m_atoms tgt) ->
  mol_graph vec hp ref = Ok g0 ->
  forall ops1 ops2 h1 h2 arg1 arg2 ps rids,
  let s1 := runV st0 ops1 in let s2 := runV st0 ops2 in
  nth_error (s_objs s1) h1 = Some arg1 -> nth_error (s_objs s2) h2 = Some arg2 ->
  mol_eq vec (s_heap s1) ref arg1 = Ok true -> mol_eq vec (s_heap s2) ref arg2 = Ok true ->
  mol_graph vec (s_heap s1) arg1 = Ok g0 -> mol_graph vec (s_heap s2) arg2 = Ok g0 ->
  mol_positions vec (s_heap s1) arg1 = Ok ps -> mol_positions vec (s_heap s2) arg2 = Ok ps ->
  mol_resids vec (s_heap s1) arg1 = Ok rids -> mol_resids vec (s_heap s2) arg2 = Ok rids ->
  snd (stepV s1 (Call h1)) = snd (stepV s2 (Call h2)).
Proof.
  intros Hb Ht Hwf Hg ops1 ops2 h1 h2 arg1 arg2 ps rids s1 s2 A1 A2 B1 B2 C1 C2 D1 D2 E1 E2.
  unfold s1, s2.
  rewrite (history _ _ _ _ _ _ _ Hb Ht Hwf Hg ops1 h1 arg1 ps rids A1 B1 C1 D1 E1).
  rewrite (history _ _ _ _ _ _ _ Hb Ht Hwf Hg ops2 h2 arg2 ps rids A2 B2 C2 D2 E2).
  reflexivity.
Qed.

(* ---------------- C04_fresh_equal ---------------- *)
(* a second world: a map freshly built from SNAPSHOTS of the construction molecules (same reference
   coordinates and bond graph, same target coordinates and labels), called at once on a molecule with the
   argument's content: same outcome as the used map after any history *)
Lemma build_ec_det hp objs ref tgt st0 hp' objs' ref' tgt' st0' :
  buildV hp objs ref tgt = Ok st0 -> buildV hp' objs' ref' tgt' = Ok st0' ->
  mol_positions vec hp' ref' = mol_positions vec hp ref ->
  mol_graph vec hp' ref' = mol_graph vec hp ref ->
  mol_positions vec hp' tgt' = mol_positions vec hp tgt ->
  e_ec (s_map st0') = e_ec (s_map st0).
Proof.
  unfold build. intros H H' E1 E2 E3. rewrite E1, E2, E3 in H'.
  destruct (mol_positions vec hp ref) as [ps|]; simpl in *; [|discriminate].
  destruct (mol_graph vec hp ref) as [g|]; simpl in *; [|discriminate].
  destruct (frames_of g ps) as [frs|]; simpl in *; [|discriminate].
  destruct (mol_positions vec hp tgt) as [tps|]; simpl in *; [|discriminate].
  destruct (project_all (dict_update [] frs) ps tps) as [ec|]; simpl in *; [|discriminate].
  inversion H; inversion H'; subst; reflexivity.
Qed.

Theorem fresh_equal hp objs ref tgt st0 tcells0 g0 hp' objs' ref' tgt' st0' tcells0' :
  buildV hp objs ref tgt = Ok st0 ->
  mapM (read_g vec hp) (m_res tgt) = Ok tcells0 ->
  length (m_top tgt) = length (m_atoms tgt) ->
  mol_graph vec hp ref = Ok g0 ->
  (* the fresh map and its snapshot inputs *)
  buildV hp' objs' ref' tgt' = Ok st0' ->
  mapM (read_g vec hp') (m_res tgt') = Ok tcells0' ->
  length (m_top tgt') = length (m_atoms tgt') ->
  mol_positions vec hp' ref' = mol_positions vec hp ref ->
  mol_graph vec hp' ref' = Ok g0 ->
  mol_positions vec hp' tgt' = mol_positions vec hp tgt ->
  map (map glab) tcells0' = map (map glab) tcells0 ->
  forall ops h arg h' arg' ps rids,
  let st := runV st0 ops in
  nth_error (s_objs st) h = Some arg -> nth_error objs' h' = Some arg' ->
  mol_eq vec (s_heap st) ref arg = Ok true -> mol_eq vec hp' ref' arg' = Ok true ->
  mol_graph vec (s_heap st) arg = Ok g0 -> mol_graph vec hp' arg' = Ok g0 ->
  mol_positions vec (s_heap st) arg = Ok ps -> mol_positions vec hp' arg' = Ok ps ->
  mol_resids vec (s_heap st) arg = Ok rids -> mol_resids vec hp' arg' = Ok rids ->
  snd (stepV st (Call h)) = snd (stepV st0' (Call h')).
Proof.
  intros Hb Ht Hwf Hg Hb' Ht' Hwf' P1 G1 P2 Hlab ops h arg h' arg' ps rids st A A' B B' C C' D D' E E'.
  unfold st. rewrite (history _ _ _ _ _ _ _ Hb Ht Hwf Hg ops h arg ps rids A B C D E).
  destruct (build_facts _ _ _ _ _ _ Hb' G1) as (Hh0 & Ho & _).
  pose proof (history _ _ _ _ _ _ _ Hb' Ht' Hwf' G1 [] h' arg' ps rids) as H0. cbv zeta in H0. unfold run in H0. cbn [fold_left] in H0.
  rewrite Hh0, Ho in H0. rewrite (H0 A' B' C' D' E').
  rewrite (build_ec_det _ _ _ _ _ _ _ _ _ _ Hb Hb' P1 (eq_trans G1 (eq_sym Hg)) P2).
  rewrite (result_of_lab _ _ _ _ _ _ Hlab). reflexivity.
Qed.

(* ---------------- C04_pure ---------------- *)
Theorem pure (st : stateV) h :
  let st' := fst (stepV st (Call h)) in
  (exists e, gro (s_heap st') = gro (s_heap st) ++ e) /\
  length (top (s_heap st')) = length (top (s_heap st)) /\
  map tlab (top (s_heap st')) = map tlab (top (s_heap st)) /\
  (forall l, ~ In l (m_top (e_tgt (s_map st))) ->
     nth_error (top (s_heap st')) l = nth_error (top (s_heap st)) l) /\
  (s_objs st' = s_objs st \/
   exists nm, s_objs st' = s_objs st ++ [nm] /\ m_top nm = m_top (e_tgt (s_map st)) /\
     forall l, In l (m_atoms nm) -> length (gro (s_heap st)) <= l).
Proof.
  intros st'. unfold st'. rewrite fst_step_call.
  destruct (call_framed st h) as (He & Ht & Hn & _ & _ & _ & Ho).
  repeat split; auto.
  - apply (f_equal (@length _)) in Ht. rewrite !map_length in Ht. exact Ht.
  - destruct Ho as [Ho|[nm (H1 & H2 & _ & H4)]]; [left; exact Ho|right; exists nm; auto].
Qed.

(* every gro cell that existed before the call (hence every cell reachable from the argument, from the
   construction molecules, from any molecule returned earlier) has the same content after it *)
Corollary pure_cells (st : stateV) h l c :
  nth_error (gro (s_heap st)) l = Some c ->
  nth_error (gro (s_heap (fst (stepV st (Call h))))) l = Some c.
Proof.
  intros Hn. destruct (pure st h) as [[e He] _]. rewrite He.
  rewrite nth_error_app1; [exact Hn|apply nth_error_Some; congruence].
Qed.

(* ---------------- C04_reject ---------------- *)
Theorem reject_nonmolecule (st : stateV) : stepV st CallNonMolecule = (st, OCall (Err EType)).
Proof. reflexivity. Qed.

Theorem reject_other_species (st : stateV) h arg :
  nth_error (s_objs st) h = Some arg ->
  mol_eq vec (s_heap st) (e_ref (s_map st)) arg = Ok false ->
  stepV st (Call h) = (st, OCall (Err EType)).
Proof. intros Hh He. simpl. unfold call. rewrite Hh, He. reflexivity. Qed.

(* another name or another number of atoms: the species test fails, whatever the heap *)
Lemma mol_eq_other_name (h : heapV) a b : m_name b <> m_name a -> mol_eq vec h a b = Ok false.
Proof.
  intros Hn. unfold mol_eq. destruct (String.eqb (m_name b) (m_name a)) eqn:E; [|reflexivity].
  apply String.eqb_eq in E. contradiction.
Qed.
Lemma mol_eq_other_length (h : heapV) a b :
  length (m_atoms b) <> length (m_atoms a) -> mol_eq vec h a b = Ok false.
Proof.
  intros Hn. unfold mol_eq. destruct (String.eqb (m_name b) (m_name a)); [|reflexivity]. simpl.
  destruct (Nat.eqb (length (m_atoms b)) (length (m_atoms a))) eqn:E; [|reflexivity].
  apply Nat.eqb_eq in E. contradiction.
Qed.

(* the verdict consults nothing the map has stored: a map built NOW, in the current world, from the same
   reference molecule (and any target) takes the same accept / reject decision on every handle *)
Theorem verdict_fresh_now hp objs ref tgt st0 g0 tgt2 stf :
  buildV hp objs ref tgt = Ok st0 -> mol_graph vec hp ref = Ok g0 ->
  forall ops, let st := runV st0 ops in
  buildV (s_heap st) (s_objs st) ref tgt2 = Ok stf ->
  forall h arg, nth_error (s_objs st) h = Some arg ->
  nth_error (s_objs stf) h = Some arg /\
  mol_eq vec (s_heap stf) (e_ref (s_map stf)) arg = mol_eq vec (s_heap st) (e_ref (s_map st)) arg /\
  (mol_eq vec (s_heap st) (e_ref (s_map st)) arg = Ok false ->
     snd (stepV st (Call h)) = OCall (Err EType) /\ snd (stepV stf (Call h)) = OCall (Err EType)).
Proof.
  intros Hb Hg ops st Hf h arg Hh.
  destruct (build_facts _ _ _ _ _ _ Hb Hg) as (_ & _ & Href & _).
  destruct (run_lab ops st0) as [L (M1 & _)]. fold st in L, M1.
  assert (Hgf : mol_graph vec (s_heap st) ref = Ok g0).
  { rewrite (mol_graph_lab (s_heap st0) (s_heap st) ref L).
    destruct (build_facts _ _ _ _ _ _ Hb Hg) as (-> & _). exact Hg. }
  destruct (build_facts _ _ _ _ _ _ Hf Hgf) as (Hh1 & Ho1 & Href1 & _).
  rewrite Hh1, Ho1, Href1, M1, Href. split; [exact Hh|]. split; [reflexivity|]. intros He. split.
  - rewrite (reject_other_species st h arg Hh); [reflexivity|]. rewrite M1, Href; exact He.
  - rewrite (reject_other_species stf h arg); [reflexivity| |].
    + rewrite Ho1; exact Hh.
    + rewrite Hh1, Href1. exact He.
Qed.

(* ---------------- C04_labels ---------------- *)
Definition glab_nr (c : gcell vec) := (g_resname c, g_name c, g_atomid c, g_vel c).

Theorem labels ec g (tcells : list (list (gcell vec))) ps rids d :
  result_ofV ec g tcells ps rids = Ok d ->
  length rids = length tcells /\
  map (map glab_nr) d = map (map glab_nr) tcells /\
  map (map (@g_resid vec)) d = map (fun rc => map (fun _ => snd rc) (fst rc)) (combine tcells rids).
Proof.
  unfold result_of.
  destruct (frames_of g ps) as [frs|]; simpl; [|discriminate].
  destruct (restore_all vec fr restore frs ec) as [ps'|]; simpl; [|discriminate].
  destruct (Nat.eqb (length ps') (length (concat tcells))) eqn:E1; simpl; [|discriminate].
  destruct (Nat.eqb (length rids) (length tcells)) eqn:E2; simpl; [|discriminate].
  apply Nat.eqb_eq in E1. apply Nat.eqb_eq in E2. intros H; inversion H; subst; clear H.
  split; [exact E2|].
  revert ps' rids E1 E2. induction tcells as [|r tc IH]; intros ps' rids E1 E2; simpl.
  - split; reflexivity.
  - destruct rids as [|z rids]; [discriminate|]. simpl in *. rewrite app_length in E1.
    destruct (IH (skipn (length r) ps') rids) as [I1 I2]; [rewrite skipn_length; lia|lia|].
    rewrite I1, I2. split; f_equal.
    + rewrite map_map. assert (L : length (firstn (length r) ps') = length r) by (rewrite firstn_length; lia).
      revert L. generalize (firstn (length r) ps') as qs. clear.
      induction r as [|c r IHr]; intros [|q qs] L; simpl in *; try discriminate; [reflexivity|].
      rewrite IHr by lia. reflexivity.
    + rewrite map_map. assert (L : length (firstn (length r) ps') = length r) by (rewrite firstn_length; lia).
      revert L. generalize (firstn (length r) ps') as qs. clear.
      induction r as [|c r IHr]; intros [|q qs] L; simpl in *; try discriminate; [reflexivity|].
      rewrite IHr by lia. reflexivity.
Qed.

(* another number of residues than the target: ValueError (when the geometry itself succeeds) *)
Theorem labels_residue_mismatch ec g (tcells : list (list (gcell vec))) ps rids frs ps' :
  frames_of g ps = Ok frs -> restore_all vec fr restore frs ec = Ok ps' ->
  length ps' = length (concat tcells) -> length rids <> length tcells ->
  result_ofV ec g tcells ps rids = Err EValue.
Proof.
  intros Hf Hr Hl Hn. unfold result_of. rewrite Hf; simpl. rewrite Hr; simpl.
  rewrite Hl, Nat.eqb_refl. simpl.
  destruct (Nat.eqb (length rids) (length tcells)) eqn:E; [apply Nat.eqb_eq in E; contradiction|reflexivity].
Qed.

(* ---------------- the keys of _refsystems ---------------- *)
Lemma call_refsys (st : stateV) h :
  e_refsys (s_map (fst (callV st h))) = e_refsys (s_map st) \/
  exists arg ps g frs, nth_error (s_objs st) h = Some arg /\
    mol_eq vec (s_heap st) (e_ref (s_map st)) arg = Ok true /\
    mol_graph vec (s_heap st) arg = Ok g /\ frames_of g ps = Ok frs /\
    e_refsys (s_map (fst (callV st h))) = dict_update (e_refsys (s_map st)) frs.
Proof.
  unfold call.
  destruct (nth_error (s_objs st) h) as [arg|] eqn:Hh; [|left; reflexivity].
  destruct (mol_eq vec (s_heap st) (e_ref (s_map st)) arg) as [[|]|e] eqn:He; try (left; reflexivity).
  destruct (mol_positions vec (s_heap st) arg) as [ps|] eqn:Hp; simpl; [|left; reflexivity].
  destruct (mol_graph vec (s_heap st) arg) as [g|] eqn:Hg; simpl; [|left; reflexivity].
  destruct (frames_of g ps) as [frs|] eqn:Hf; [|left; reflexivity].
  right. exists arg, ps, g, frs. repeat split; auto.
  repeat (match goal with |- context [match ?x with _ => _ end] => destruct x end; simpl); reflexivity.
Qed.

Definition accepted_have_graph (g0 : graph) (st : stateV) (o : op vec) : Prop :=
  match o with
  | Call h => forall arg, nth_error (s_objs st) h = Some arg ->
                mol_eq vec (s_heap st) (e_ref (s_map st)) arg = Ok true ->
                mol_graph vec (s_heap st) arg = Ok g0
  | _ => True
  end.
Fixpoint good_ops (g0 : graph) (st : stateV) (ops : list (op vec)) : Prop :=
  match ops with
  | [] => True
  | o :: ops' => accepted_have_graph g0 st o /\ good_ops g0 (fst (stepV st o)) ops'
  end.

Lemma step_keys g0 (st : stateV) o :
  map fst (e_refsys (s_map st)) = anchors g0 -> accepted_have_graph g0 st o ->
  map fst (e_refsys (s_map (fst (stepV st o)))) = anchors g0.
Proof.
  intros Hk Hacc. destruct o as [h| |i v|i v|h i v|rids|rids|h rids]; simpl.
  - change (map fst (e_refsys (s_map (fst (stepV st (Call h))))) = anchors g0). rewrite fst_step_call.
    destruct (call_refsys st h) as [E|(arg & ps & g & frs & Hh & He & Hg & Hf & E)]; rewrite E; [exact Hk|].
    simpl in Hacc. rewrite (Hacc arg Hh He) in Hg. inversion Hg; subst g.
    rewrite dict_update_keys_in; [exact Hk|]. intros k Hin. rewrite Hk, <- (frames_keys _ _ _ Hf). exact Hin.
  - exact Hk.
  - destruct (poke vec (s_heap st) (e_ref (s_map st)) i v); exact Hk.
  - destruct (poke vec (s_heap st) (e_tgt (s_map st)) i v); exact Hk.
  - destruct (nth_error (s_objs st) h) as [m|]; [|exact Hk].
    destruct (poke vec (s_heap st) m i v); exact Hk.
  - destruct (renumber vec (s_heap st) (e_ref (s_map st)) rids); exact Hk.
  - destruct (renumber vec (s_heap st) (e_tgt (s_map st)) rids); exact Hk.
  - destruct (nth_error (s_objs st) h) as [m|]; [|exact Hk].
    destruct (renumber vec (s_heap st) m rids); exact Hk.
Qed.

Theorem keys_invariant hp objs ref tgt st0 g0 :
  buildV hp objs ref tgt = Ok st0 -> mol_graph vec hp ref = Ok g0 ->
  forall ops, good_ops g0 st0 ops -> map fst (e_refsys (s_map (runV st0 ops))) = anchors g0.
Proof.
  intros Hb Hg. destruct (build_facts _ _ _ _ _ _ Hb Hg) as (_ & _ & _ & _ & Hk & _).
  clear Hb. intros ops. revert st0 Hk. induction ops as [|o ops IH]; intros st0 Hk Hgood; simpl in *; [exact Hk|].
  destruct Hgood as [Ha Hr]. apply IH; [|exact Hr]. apply step_keys; assumption.
Qed.

(* ---------------- a valid argument stays valid ---------------- *)
Definition top_other (tl : list loc) (h h' : heapV) : Prop :=
  forall l, ~ In l tl -> nth_error (top h') l = nth_error (top h) l.

(* operations that may rewrite topology residue numbers OUTSIDE the target's topology *)
Definition no_foreign_renum (o : op vec) : Prop :=
  match o with RenumRef _ | RenumObj _ _ => False | _ => True end.

Lemma step_top_other (st : stateV) o : no_foreign_renum o ->
  top_other (m_top (e_tgt (s_map st))) (s_heap st) (s_heap (fst (stepV st o))).
Proof.
  intros Hno l Hl. destruct o as [h| |i v|i v|h i v|rids|rids|h rids]; try contradiction.
  - rewrite fst_step_call. destruct (call_framed st h) as (_ & _ & Hn & _). apply Hn; exact Hl.
  - reflexivity.
  - simpl. unfold poke. destruct (nth_res _ i); simpl; [|reflexivity]. destruct (nth_res _ l0); reflexivity.
  - simpl. unfold poke. destruct (nth_res _ i); simpl; [|reflexivity]. destruct (nth_res _ l0); reflexivity.
  - simpl. destruct (nth_error (s_objs st) h) as [m|]; [|reflexivity].
    unfold poke. destruct (nth_res _ i); simpl; [|reflexivity]. destruct (nth_res _ l0); reflexivity.
  - simpl. destruct (renumber vec (s_heap st) (e_tgt (s_map st)) rids) as [h'|] eqn:E; simpl; [|reflexivity].
    destruct (renumber_spec _ _ _ _ E) as (_ & _ & Hn). apply Hn; exact Hl.
Qed.

Lemma run_top_other ops : forall st : stateV, Forall no_foreign_renum ops ->
  top_other (m_top (e_tgt (s_map st))) (s_heap st) (s_heap (runV st ops)).
Proof.
  induction ops as [|o ops IH]; intros st Hf l Hl; simpl; [reflexivity|].
  inversion Hf as [|? ? Ho Hr]; subst.
  destruct (step_lab st o) as [_ (_ & M2 & _)].
  rewrite IH by (try assumption; rewrite M2; exact Hl). apply step_top_other; assumption.
Qed.

Definition vproj (tg : tcell * gcell vec) := (fst tg, glab (snd tg)).

Lemma zip_res_proj (ts : list tcell) (gs gs' : list (gcell vec)) v :
  map glab gs' = map glab gs -> zip_res ts gs = Ok v ->
  exists v', zip_res ts gs' = Ok v' /\ map vproj v' = map vproj v.
Proof.
  revert gs gs' v; induction ts as [|t ts IH]; intros [|g gs] [|g' gs'] v E H; simpl in *; try discriminate.
  - inversion H; subst. exists []; auto.
  - destruct (zip_res ts gs) as [w|] eqn:Z; simpl in H; [|discriminate]. inversion H; subst.
    assert (Hc : glab g' = glab g) by (exact (f_equal (hd (glab g')) E)).
    assert (Hr : map glab gs' = map glab gs) by (exact (f_equal (@tl _) E)).
    destruct (IH _ _ _ Hr Z) as [w' [Z' Hw]]. rewrite Z'. simpl. exists ((t, g') :: w'). split; [reflexivity|].
    simpl. unfold vproj at 1 3. simpl. rewrite Hc, Hw. reflexivity.
Qed.

Lemma mol_views_stable (h h' : heapV) m v :
  lab_ext h h' -> (forall l, In l (m_top m) -> nth_error (top h') l = nth_error (top h) l) ->
  mol_views vec h m = Ok v -> exists v', mol_views vec h' m = Ok v' /\ map vproj v' = map vproj v.
Proof.
  intros L Ht. unfold mol_views.
  assert (Hrt : read_t vec h' (m_top m) = read_t vec h (m_top m)).
  { unfold read_t. apply mapM_ext. intros l Hl. unfold nth_res. rewrite (Ht l Hl). reflexivity. }
  rewrite Hrt. destruct (read_t vec h (m_top m)) as [ts|]; simpl; [|discriminate].
  destruct (read_g vec h (m_atoms m)) as [gs|] eqn:Eg; simpl; [|discriminate].
  destruct (read_g_lab _ _ _ _ L Eg) as [gs' [Eg' Hl]]. rewrite Eg'. simpl.
  intros Z. eapply zip_res_proj; eauto.
Qed.

Lemma all2_proj (va vb va' vb' : list (tcell * gcell vec)) :
  map vproj va' = map vproj va -> map vproj vb' = map vproj vb ->
  all2 (atom_eq vec) va' vb' = all2 (atom_eq vec) va vb.
Proof.
  revert vb va' vb'; induction va as [|a va IH]; intros vb [|a' va'] vb' Ea Eb; simpl in *; try discriminate; [reflexivity|].
  destruct vb as [|b vb], vb' as [|b' vb']; simpl in *; try discriminate; [reflexivity|].
  assert (Ha : vproj a' = vproj a) by (exact (f_equal (hd (vproj a')) Ea)).
  assert (Hb : vproj b' = vproj b) by (exact (f_equal (hd (vproj b')) Eb)).
  rewrite (IH vb va' vb' (f_equal (@tl _) Ea) (f_equal (@tl _) Eb)). f_equal.
  unfold vproj, glab in Ha, Hb. destruct a as [ta ga], a' as [ta' ga'], b as [tb gb], b' as [tb' gb'].
  simpl in *. inversion Ha; inversion Hb; subst. unfold atom_eq; simpl. congruence.
Qed.

Lemma mol_eq_stable (h h' : heapV) a b v :
  lab_ext h h' ->
  (forall l, In l (m_top a) \/ In l (m_top b) -> nth_error (top h') l = nth_error (top h) l) ->
  mol_eq vec h a b = Ok v -> mol_eq vec h' a b = Ok v.
Proof.
  intros L Ht. unfold mol_eq.
  destruct (negb (String.eqb (m_name b) (m_name a))); [auto|].
  destruct (negb (Nat.eqb (length (m_atoms b)) (length (m_atoms a)))); [auto|].
  destruct (mol_views vec h a) as [va|] eqn:Ea; simpl; [|discriminate].
  destruct (mol_views vec h b) as [vb|] eqn:Eb; simpl; [|discriminate].
  destruct (mol_views_stable h h' a va L (fun l Hl => Ht l (or_introl Hl)) Ea) as [va' [Ea' Ha]].
  destruct (mol_views_stable h h' b vb L (fun l Hl => Ht l (or_intror Hl)) Eb) as [vb' [Eb' Hb]].
  rewrite Ea', Eb'. simpl. intros E; inversion E. rewrite (all2_proj va vb va' vb' Ha Hb). reflexivity.
Qed.

(* the species verdict on (reference, argument) cannot be changed by any history, provided the target's
   topology is a different object from the reference's and the argument's (see the design note for what the
   real code does otherwise) *)
Theorem valid_stable hp objs ref tgt st0 g0 arg v :
  buildV hp objs ref tgt = Ok st0 -> mol_graph vec hp ref = Ok g0 ->
  (forall l, In l (m_top tgt) -> ~ In l (m_top ref) /\ ~ In l (m_top arg)) ->
  mol_eq vec hp ref arg = Ok v ->
  forall ops, Forall no_foreign_renum ops -> mol_eq vec (s_heap (runV st0 ops)) ref arg = Ok v.
Proof.
  intros Hb Hg Hsep He ops Hops.
  destruct (build_facts _ _ _ _ _ _ Hb Hg) as (Hh0 & _ & _ & Htgt & _).
  destruct (run_lab ops st0) as [L _]. pose proof (run_top_other ops st0 Hops) as Ht.
  rewrite Hh0 in L, Ht. rewrite Htgt in Ht.
  apply (mol_eq_stable hp _ ref arg v L); [|exact He].
  intros l Hl. apply Ht. intros Hin. destruct (Hsep l Hin) as [H1 H2]. tauto.
Qed.
End P.
