(* C11_no_match: a topology whose pattern occurs nowhere in the available array is refused *)
From Coq Require Import List Arith Bool Lia.
Import ListNotations.
From GM Require Import Base.Res Model.SystemRec Proofs.SystemRecScan.

Lemma list_eqb_length {A} (eqb : A -> A -> bool) a b : list_eqb eqb a b = true -> length a = length b.
Proof.
  revert b. induction a as [|x xs IH]; intros [|y ys]; simpl; intros H; try discriminate; auto.
  apply andb_true_iff in H as [_ H]. f_equal. auto.
Qed.

Lemma rll_go_nonempty atoms cur cnt : rll_go atoms cur cnt <> [].
Proof.
  revert cur cnt. induction atoms as [|[[an rn] rid] t IH]; intros cur cnt; simpl; [discriminate|].
  destruct (pair_eqb (rn, rid) cur); [apply IH|discriminate].
Qed.

Lemma lookup_pattern_nonempty v t pat : lookup_pattern v t = Ok pat -> pat <> [].
Proof.
  unfold lookup_pattern, resname_len_list. destruct (top_atoms t) as [|[[an rn] rid] rest]; simpl; [discriminate|].
  intros H. apply mapM_length in H. pose proof (rll_go_nonempty rest (rn, rid) 1).
  destruct pat; [|discriminate]. destruct (rll_go rest (rn, rid) 1); simpl in *; congruence.
Qed.

Lemma check_index_cons x t pos p0 ptl :
  check_index (x :: t) pos (p0 :: ptl) =
  if onat_eqb x (Some p0) then
    (let* m := window_all (firstn (length (p0 :: ptl)) (x :: t)) (p0 :: ptl) in
     if m then Ok pos else check_index t (S pos) (p0 :: ptl))
  else check_index t (S pos) (p0 :: ptl).
Proof. reflexivity. Qed.

(* outcome of the search when no full window equals the pattern *)
Lemma check_index_no_match pat : pat <> [] -> forall l pos,
  (forall a, firstn (length pat) (skipn a l) <> map Some pat) ->
  check_index l pos pat = Err EIO \/ check_index l pos pat = Err EValue \/
  exists k, check_index l pos pat = Ok (pos + k) /\ 2 <= length pat /\ length (skipn k l) = 1.
Proof.
  intros Hne. destruct pat as [|p0 ptl]; [congruence|]. clear Hne. set (pat := p0 :: ptl) in *.
  induction l as [|x t IH]; intros pos Hno; [left; reflexivity|].
  assert (Hno' : forall a, firstn (length pat) (skipn a t) <> map Some pat) by (intros a; apply (Hno (S a))).
  assert (Hrec : check_index t (S pos) pat = Err EIO \/ check_index t (S pos) pat = Err EValue \/
                 exists k, check_index t (S pos) pat = Ok (pos + S k) /\ 2 <= length pat /\ length (skipn (S k) (x :: t)) = 1).
  { destruct (IH (S pos) Hno') as [H|[H|(k & H1 & H2 & H3)]]; auto.
    right; right. exists k. replace (pos + S k) with (S pos + k) by lia. auto. }
  change (check_index (x :: t) pos pat) with (check_index (x :: t) pos (p0 :: ptl)). rewrite check_index_cons. fold pat. destruct (onat_eqb x (Some p0)); [|destruct Hrec as [H|[H|(k & H)]]; eauto].
  unfold window_all.
  destruct (length (firstn (length pat) (x :: t)) =? length pat) eqn:El.
  - destruct (list_eqb onat_eqb (firstn (length pat) (x :: t)) (map Some pat)) eqn:Ew.
    + apply list_eqb_onat_eq in Ew. exfalso. apply (Hno 0). exact Ew.
    + cbn [bind]. destruct Hrec as [H|[H|(k & H)]]; eauto.
  - apply Nat.eqb_neq in El. rewrite firstn_length in El.
    destruct (firstn (length pat) (x :: t)) as [|w [|w2 ws]] eqn:Ef; cbn [bind]; auto.
    destruct (forallb (fun q => onat_eqb w (Some q)) pat); [|destruct Hrec as [H|[H|(k & H)]]; eauto].
    right; right. exists 0. rewrite Nat.add_0_r. split; [reflexivity|].
    assert (Hl : length (firstn (length pat) (x :: t)) = 1) by (rewrite Ef; reflexivity).
    rewrite firstn_length in Hl. simpl skipn. unfold pat in *. simpl in *. lia.
Qed.

Theorem no_match v st t pat :
  lookup_pattern v t = Ok pat ->
  length (gv_res v) = length (s_avail st) ->
  (forall a, firstn (length pat) (skipn a (s_avail st)) <> map Some pat) ->
  (2 <= length pat -> forall r, In r (gv_res v) -> length (res_atoms r) < length (top_atoms t)) ->
  exists e, add_top v st t = Err e /\ (e = EIO \/ e = EValue).
Proof.
  intros Hlk Hlen Hno Hbig. unfold add_top. rewrite Hlk. cbn [bind].
  pose proof (lookup_pattern_nonempty v t pat Hlk) as Hne.
  destruct (check_index_no_match pat Hne (s_avail st) 0 Hno) as [H|[H|(k & H1 & H2 & H3)]]; rewrite ?H; simpl; eauto.
  rewrite H1. cbn [bind]. simpl (0 + k).
  assert (Hr : exists r, firstn (length pat) (skipn k (gv_res v)) = [r] /\ In r (gv_res v)).
  { rewrite skipn_length in H3.
    assert (Hs : length (skipn k (gv_res v)) = 1) by (rewrite skipn_length; lia).
    destruct (skipn k (gv_res v)) as [|r [|r2 rs]] eqn:Es; simpl in Hs; try lia.
    exists r. split.
    - destruct (length pat) as [|[|n]]; try lia. reflexivity.
    - rewrite <- (firstn_skipn k (gv_res v)). apply in_or_app. right. rewrite Es. left. reflexivity. }
  destruct Hr as (r & -> & Hin).
  destruct (mol_match t [r]) eqn:Em; eauto.
  exfalso. unfold mol_match in Em. apply list_eqb_length in Em.
  simpl in Em. rewrite app_nil_r in Em. unfold top_atom_keys, res_atom_keys in Em. rewrite !map_length in Em.
  specialize (Hbig H2 r Hin). lia.
Qed.

Theorem no_pattern v st t e : lookup_pattern v t = Err e -> add_top v st t = Err e.
Proof. intros H. unfold add_top. rewrite H. reflexivity. Qed.
