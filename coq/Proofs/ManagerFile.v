(* Model/Manager.v composed with the .gro writer (Model/GroFile.v, lemmas of C13): what the output file shows.
   The coordinate payload of a written atom is here the decimals Python's formatting produces for it
   (dec3, optional velocities), as in C13. *)
From Coq Require Import List Ascii NArith ZArith Bool Arith Lia.
Import ListNotations.
From GM Require Import Base.Res Base.StrGro Gen.SrcConsts Model.GroCodec Model.GroFile Model.Manager
  Proofs.GroStr Proofs.GroCodecP Proofs.GroReadP Proofs.GroWriteP Proofs.GroMain Proofs.ManagerP.

Definition dpay : Type := (dec3 * option dec3)%type.

(* the list handed to writeline, as the writer's record *)
Definition to_grec (l : line dpay) : grec :=
  mkgrec (l_resid l) (l_resname l) (l_name l) (l_anum l) (fst (l_coords l)) (snd (l_coords l)).

(* the writer run a trace amounts to: GroFile(path, 'w'); .comment = c; .box_matrix = b (3x3); writeline*; close() *)
Definition trace_file {F} (t : list (effect F (list bentry) dpay)) : res bytes :=
  match t with
  | Open _ :: SetComment c :: SetBox b :: rest =>
      write_gro (mkwconf (Some c) None None (BoxMat b)) (map to_grec (written rest))
  | _ => Err EType
  end.

(* the comment setter strips the newline the reader left on the title line (an empty title included) *)
Lemma start_title_nl t n fm b : no_nl t ->
  w_start (mkwconf (Some (t ++ [NL])) n fm b) = w_start (mkwconf (Some t) n fm b).
Proof.
  intros Hnl. unfold w_start. cbn [c_title c_box c_natoms c_fmt]. f_equal.
  unfold set_comment. rewrite (drop_final_nl_no_nl t Hnl).
  unfold drop_final_nl. rewrite rev_app_distr. cbn [rev app]. rewrite Ascii.eqb_refl, rev_involutive. reflexivity.
Qed.

Lemma write_title_nl t n fm b recs : no_nl t ->
  write_gro (mkwconf (Some (t ++ [NL])) n fm b) recs = write_gro (mkwconf (Some t) n fm b) recs.
Proof. intros Hnl. unfold write_gro, file_after. rewrite (start_title_nl t n fm b Hnl). reflexivity. Qed.

Section File.
  Context {E M I F : Type}.
  Variable mapmol : M -> I -> res (mapped dpay).

  (* the two number fields of the k-th written line, for ANY outcome of the call and any format in force:
     columns 15-20 show (k + 1) mod 100000, columns 0-5 the residue number mod 100000 *)
  Theorem wrap_thm (f : F) title (box : list bentry) (sps : list (spstate E M)) (mols : list (minst I)) k l w d fv text :
    nth_error (written (fst (extrapolate mapmol f title box sps mols))) k = Some l ->
    parse_atomlist w d fv (to_grec l) = Ok text ->
    py_int (firstn 5 (skipn 15 text)) = Ok ((Z.of_nat k + 1) mod 100000)%Z /\
    py_int (firstn 5 text) = Ok (l_resid l mod 100000)%Z.
  Proof.
    intros Hk Hp. pose proof (numbering_thm mapmol f title box sps mols k l Hk) as Hn.
    destruct (wrap_fields w d fv (to_grec l) text Hp) as (_ & _ & Hr & Ha & _).
    cbn [to_grec g_anum g_resnum] in *. rewrite Hn in Ha. split; assumption.
  Qed.

  (* The whole file.  Input title line t ++ "\n" (t possibly empty), 3x3 box, every molecule of a complete species
     maps, at least one line, all lines within the writer's domain of C13 (names of 1-5 characters, values
     that fit '{:8.3f}' / '{:8.4f}', all with or all without velocities), fewer than 10^9 atoms:
     the writer succeeds on the trace, and reading the file back gives the title line, the number of lines as
     count, for the k-th atom the labels and decimals of the k-th mapped atom with numbers
     (resid mod 10^5, (k+1) mod 10^5), and the box (3 numbers when all off-diagonal entries are zero, else 9). *)
  Theorem file_thm (f : F) t (box : list bentry) (sps : list (spstate E M)) (mols : list (minst I)) blocks vel :
    preflight sps = Ok tt ->
    Forall2 (maps_to mapmol sps) (selected sps mols) blocks ->
    no_nl t -> length box = 9 ->
    let ls := numbered (concat blocks) 1%Z in
    ls <> [] -> Forall (rec_ok 8 vel) (map to_grec ls) -> (Z.of_nat (length ls) < 1000000000)%Z ->
    exists file, trace_file (fst (extrapolate mapmol f (t ++ [NL]) box sps mols)) = Ok file /\
      ((Z.of_nat (length file) < SEEK_LIMIT)%Z ->
       read_gro file = Ok (mkrresult (t ++ [NL]) (Z.of_nat (length ls))
                                     (map (expected_atom 3) (map to_grec ls)) (expected_box box))).
  Proof.
    intros Hp Hb Hnl Hbox ls Hls Hrec Hcnt.
    rewrite (trace_thm mapmol f (t ++ [NL]) box sps mols blocks Hp Hb). cbn [fst]. fold ls.
    unfold frame, trace_file. rewrite written_app, written_map. cbn [written]. rewrite app_nil_r.
    rewrite (write_title_nl t None None (BoxMat box) _ Hnl).
    assert (Hrun : run_ok (mkwconf (Some t) None None (BoxMat box)) 8 3 vel (map to_grec ls)).
    { constructor; cbn [c_title c_natoms c_fmt c_box].
      - reflexivity.
      - lia.
      - lia.
      - unfold title_ok. cbn [c_title]. exact Hnl.
      - exact Hbox.
      - unfold count_ok. cbn [c_natoms]. rewrite map_length. exact Hcnt.
      - exact Hrec.
      - destruct ls; [contradiction|discriminate]. }
    destruct (roundtrip _ _ _ _ _ Hrun) as (file & Hw & Hr). exists file. split; [exact Hw|].
    intros Hlim. specialize (Hr Hlim). rewrite map_length in Hr. exact Hr.
  Qed.
End File.
