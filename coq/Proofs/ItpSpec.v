(* Specification vocabulary for the ItpFile theorems (C15, C16): a description of an .itp text that does
   not follow the parser's control flow.  Definitions only; lemmas are in ItpLine.v / ItpCore.v / ... *)
From Coq Require Import List Ascii String ZArith NArith Bool.
From GM Require Import Base.Res Base.StrItp Model.Itp.
Import ListNotations.
Local Open Scope char_scope.

(* what Python's file iterator yields: a non-empty string with a newline at most at its end *)
Definition line_ok (l : str) : Prop := l <> [] /\ ~ In ch_nl (removelast l).

(* section-header lines and their names *)
Definition is_hdr (l : str) : bool := re_header (strip l).
Definition hdr_name (l : str) : res str := rmap strip (re_group l).

(* domain clause: no section is literally named 'header' (it would collide with the header list) *)
Definition no_header_sec (ls : list str) : Prop :=
  forall l, In l ls -> is_hdr l = true -> hdr_name l <> Ok s_header.

(* the lines before the first section header *)
Fixpoint header_lines (ls : list str) : list str :=
  match ls with
  | [] => []
  | l :: r => if is_hdr l then [] else l :: header_lines r
  end.

(* every non-header line that lies inside a section, tagged with the name of that section, in file order *)
Fixpoint tag_lines (cur : option str) (ls : list str) : list (str * str) :=
  match ls with
  | [] => []
  | l :: r =>
      if is_hdr l then
        match hdr_name l with
        | Ok n => tag_lines (Some n) r
        | Err _ => []
        end
      else match cur with
           | None => tag_lines None r
           | Some n => (n, l) :: tag_lines cur r
           end
  end.

(* section names in order of first appearance *)
Fixpoint add_name (n : str) (ns : list str) : list str :=
  match ns with
  | [] => [n]
  | k :: r => if str_eqb k n then ns else k :: add_name n r
  end.
Fixpoint sec_names_from (ns : list str) (ls : list str) : list str :=
  match ls with
  | [] => ns
  | l :: r =>
      if is_hdr l then
        match hdr_name l with
        | Ok n => sec_names_from (add_name n ns) r
        | Err _ => ns
        end
      else sec_names_from ns r
  end.
Definition sec_names (ls : list str) : list str := sec_names_from [] ls.

(* the lines of all occurrences of section n, in file order *)
Definition lines_in (n : str) (ls : list str) : list str :=
  map snd (filter (fun p => str_eqb (fst p) n) (tag_lines None ls)).

(* what one line carries, read directly off its text: the white-space separated tokens before the first ';'
   and the stripped text after it; a line with '#' in column 0 is a preprocessor line and carries its text *)
Definition spec_entry (l : str) : entry :=
  if startswith "#" l then ([], strip l)
  else match cut_at ";" l with
       | Some (a, b) => (split_ws a, strip b)
       | None => (split_ws l, [])
       end.

Definition spec_sec (n : str) (ls : list str) : list entry :=
  filter entry_nonblank (map spec_entry (lines_in n ls)).

(* the abstraction of a text, without the parser *)
Definition spec_abs (ls : list str) : list str * list (str * list entry) :=
  (header_lines ls, map (fun n => (n, spec_sec n ls)) (sec_names ls)).

(* field parsing as a function of the content tokens *)
Definition fields_of (k : kind) (ts : list str) : res fields :=
  match ts with
  | [] => Ok FNone
  | _ :: _ =>
      match k with
      | KPlain => Ok FNone
      | KAtom => let* a := atom_fields ts in Ok (FAtom a)
      | KBond => bond_fields ts
      | KMol => mol_fields ts
      end
  end.
