(* Views are live; move / move_to / rotate of a Residue or Molecule act on the concatenated list of
   positions through the geometry functions (one body).  Any Scalar instance. *)
From Coq Require Import List ZArith Bool Arith Lia.
From GM Require Import Base.Res Base.Scalar Base.Vec Model.Objects Proofs.ObjectsFrame Proofs.ObjectsIso.
Import ListNotations.

Section Live.
Context {T : Type} `{Scalar T}.

Notation heap := (heap T).
Notation handle := (handle T).
Notation M := (M T).
Notation op := (op T).

(* reading one field of the coordinate atoms at a list of locations *)
Definition rd_at {A} (rd : grocell T -> A) (h : heap) (g : loc) : option A :=
  option_map rd (nth_error (hgro h) g).
Definition reads {A} (rd : grocell T -> A) (h : heap) (ls : list loc) (vals : list A) : Prop :=
  Forall2 (fun g a => rd_at rd h g = Some a) ls vals.

Lemma F2_cons_inv {A B} (R : A -> B -> Prop) x l ys :
  Forall2 R (x :: l) ys -> exists y ys', ys = y :: ys' /\ R x y /\ Forall2 R l ys'.
Proof. intros F; inversion F; subst; eauto. Qed.
Lemma F2_nil_inv {A B} (R : A -> B -> Prop) ys : Forall2 R [] ys -> ys = [].
Proof. intros F; inversion F; auto. Qed.

Lemma cells_reads {A} (rd : grocell T -> A) (h : heap) ls vals :
  rmap (map rd) (cells (hgro h) ls) = Ok vals <-> reads rd h ls vals.
Proof.
  unfold reads, cells, rd_at. revert vals; induction ls as [|g gs IH]; intros vals; simpl.
  - split; intros E.
    + inversion E; constructor.
    + apply F2_nil_inv in E; subst; reflexivity.
  - unfold nth_res at 1. destruct (nth_error (hgro h) g) as [c|] eqn:Eg; simpl.
    + destruct (mapM (nth_res (hgro h)) gs) as [cs|e] eqn:Em; simpl in *.
      * split; intros E.
        -- inversion E; subst. constructor; [rewrite Eg; reflexivity|]. apply IH. reflexivity.
        -- apply F2_cons_inv in E. destruct E as (y & ys' & -> & Ey & E). rewrite Eg in Ey. inversion Ey; subst.
           apply IH in E. inversion E; subst. reflexivity.
      * split; intros E; [discriminate|].
        apply F2_cons_inv in E. destruct E as (y & ys' & -> & Ey & E). apply IH in E. discriminate.
    + split; intros E; [discriminate|].
      apply F2_cons_inv in E. destruct E as (y & ys' & -> & Ey & E). rewrite Eg in Ey. discriminate.
Qed.

Lemma gro_mod_ok g f (h h' : heap) :
  gro_mod g f h = (h', Ok tt) ->
  exists c, nth_error (hgro h) g = Some c /\ hgro h' = upd (hgro h) g (f c) /\ htop h' = htop h /\ hmt h' = hmt h.
Proof.
  unfold gro_mod, mbind, gro_get, gro_set. destruct (nth_error (hgro h) g) as [c|] eqn:E; simpl.
  - intros E'; inversion E'; subst; simpl. eauto.
  - intros E'; discriminate.
Qed.

Lemma reads_frame {A} (rd : grocell T -> A) (h h' : heap) ls vals :
  (forall l, In l ls -> nth_error (hgro h') l = nth_error (hgro h) l) ->
  reads rd h ls vals -> reads rd h' ls vals.
Proof.
  unfold reads, rd_at. intros S R. induction R as [|l a ls vals Hla R IH]; constructor.
  - rewrite S; [auto | left; auto].
  - apply IH. intros; apply S; right; auto.
Qed.

(* writing one cell changes the reading at its index only *)
Lemma reads_upd {A} (rd : grocell T -> A) (h h' : heap) g c' ls : forall vals i,
  NoDup ls -> nth_error ls i = Some g -> g < length (hgro h) ->
  hgro h' = upd (hgro h) g c' -> reads rd h ls vals -> reads rd h' ls (upd vals i (rd c')).
Proof.
  induction ls as [|l ls IH]; intros vals i ND Ei Hg Eh R.
  - destruct i; discriminate.
  - apply F2_cons_inv in R. destruct R as (a & vals' & -> & Ha & R). inversion ND as [|? ? Hn ND']; subst.
    destruct i as [|i]; simpl in *.
    + inversion Ei; subst. constructor.
      * unfold rd_at. rewrite Eh, nth_error_upd_same; auto.
      * eapply reads_frame; [|exact R]. intros l' Hl'. rewrite Eh. apply nth_error_upd_other.
        intros ->; auto.
    + constructor.
      * unfold rd_at in *. rewrite Eh, nth_error_upd_other; auto. intros ->. apply Hn. eapply nth_error_In; eauto.
      * apply IH; auto.
Qed.

(* ------------------------------------------------------------------ views are live *)
Lemma index_view mt ts rs i (h h1 : heap) k Y :
  exec (HM mt ts rs) (OIndex i) h = (h1, Ok (Some (k, Y))) ->
  h1 = h /\ k = NewView /\ exists t g, nth_error ts i = Some t /\ nth_error (concat rs) i = Some g /\ Y = HA t g.
Proof.
  simpl. intros E.
  apply mbind_ok in E. destruct E as (h2 & t & E1 & E). apply lift_ok in E1. destruct E1 as [-> E1].
  apply mbind_ok in E. destruct E as (h3 & g & E2 & E). apply lift_ok in E2. destruct E2 as [-> E2].
  apply mbind_ok in E. destruct E as (h4 & u & E3 & E). apply ro_eq in E3; [|apply ro_view_check]. subst h4.
  inversion E; subst. repeat split; auto. exists t, g. unfold nth_res in *.
  destruct (nth_error ts i); [|discriminate]. destruct (nth_error (concat rs) i); [|discriminate].
  inversion E1; inversion E2; subst; auto.
Qed.

Lemma iter_view mt ts rs i (h h1 : heap) k Y :
  exec (HM mt ts rs) (OIter i) h = (h1, Ok (Some (k, Y))) ->
  h1 = h /\ k = NewView /\ exists t g, nth_error ts i = Some t /\ nth_error (concat rs) i = Some g /\ Y = HA t g.
Proof.
  simpl. intros E.
  apply mbind_ok in E. destruct E as (h2 & u & E0 & E).
  apply ro_eq in E0; [|apply ro_iterM; intros; apply ro_visit]. subst h2.
  apply mbind_ok in E. destruct E as (h2 & t & E1 & E). apply lift_ok in E1. destruct E1 as [-> E1].
  apply mbind_ok in E. destruct E as (h3 & g & E2 & E). apply lift_ok in E2. destruct E2 as [-> E2].
  inversion E; subst. repeat split; auto. exists t, g. unfold nth_res in *.
  destruct (nth_error ts i); [|discriminate]. destruct (nth_error (concat rs) i); [|discriminate].
  inversion E1; inversion E2; subst; auto.
Qed.

Lemma view_set_field {A} (rd : grocell T -> A) (f : grocell T -> grocell T) (v : A) g (h h' : heap) ls vals i :
  (forall c, rd (f c) = v) ->
  mbind (gro_mod g f) (fun _ => ret (@None (outkind * handle))) h = (h', Ok None) ->
  NoDup ls -> nth_error ls i = Some g -> reads rd h ls vals -> reads rd h' ls (upd vals i v).
Proof.
  intros Hrd E ND Ei R. apply mbind_ok in E. destruct E as (h1 & u & E1 & E). inversion E; subst; clear E.
  destruct u. apply gro_mod_ok in E1. destruct E1 as (c & Ec & Eh & _).
  rewrite <- (Hrd c). eapply reads_upd; eauto. eapply nth_error_lt; eauto.
Qed.

(* mol[i] (or the i-th atom of an iteration) is the molecule's own pair of locations; a position or
   an atom id assigned through it is what the molecule then reads at index i *)
Theorem views_live : forall mt ts rs i (h h1 : heap) k Y (viaiter : bool),
  exec (HM mt ts rs) (if viaiter then OIter i else OIndex i) h = (h1, Ok (Some (k, Y))) ->
  NoDup (concat rs) ->
  h1 = h /\ k = NewView /\
  (forall p h2 ps, exec Y (OSetPos p) h = (h2, Ok None) -> read_positions h (HM mt ts rs) = Ok ps ->
                   read_positions h2 (HM mt ts rs) = Ok (upd ps i p)) /\
  (forall z h2 ids, exec Y (OSetAtomId z) h = (h2, Ok None) -> read_ids h (HM mt ts rs) = Ok ids ->
                    read_ids h2 (HM mt ts rs) = Ok (upd ids i z)) /\
  (forall v h2 vs, exec Y (OSetVel v) h = (h2, Ok None) ->
                   rmap (map g_vel) (cells (hgro h) (concat rs)) = Ok vs ->
                   rmap (map g_vel) (cells (hgro h2) (concat rs)) = Ok (upd vs i v)).
Proof.
  intros mt ts rs i h h1 k Y viaiter E ND.
  assert (V : h1 = h /\ k = NewView /\ exists t g, nth_error ts i = Some t /\ nth_error (concat rs) i = Some g /\ Y = HA t g).
  { destruct viaiter; [eapply iter_view | eapply index_view]; eauto. }
  destruct V as (-> & -> & t & g & Et & Eg & ->). repeat split; auto.
  - intros p h2 ps E2 R. unfold read_positions in *. simpl gro_locs in *. simpl in E2.
    apply cells_reads. apply cells_reads in R.
    eapply (view_set_field g_pos (gset_pos p) p g); eauto.
  - intros z h2 ids E2 R. unfold read_ids in *. simpl gro_locs in *. simpl in E2.
    apply cells_reads. apply cells_reads in R.
    eapply (view_set_field g_atomid (gset_atomid z) z g); eauto.
  - intros v h2 vs E2 R. simpl in E2. apply cells_reads. apply cells_reads in R.
    eapply (view_set_field g_vel (gset_vel v) v g); eauto.
Qed.

(* ------------------------------------------------------------------ geometry acts on the whole body *)
Definition tlocs (X : handle) : list loc := map snd (targets X).
(* a Residue always; a Molecule whose topology has as many atoms as its residues (Molecule.__init__ tests it) *)
Definition shaped (X : handle) : Prop := tlocs X = gro_locs X.

Lemma shaped_HR gs : shaped (HR gs).
Proof. unfold shaped, tlocs; simpl. rewrite map_map. simpl. apply map_id. Qed.

Lemma shaped_HM mt ts rs : length ts = length (concat rs) -> shaped (HM mt ts rs).
Proof.
  unfold shaped, tlocs; simpl. generalize (concat rs) as gs. intros gs. revert ts.
  induction gs as [|g gs IH]; intros [|t ts] L; simpl in *; try discriminate; auto. f_equal. apply IH. lia.
Qed.

Lemma get_positions_spec (X : handle) (h h1 : heap) ps :
  get_positions X h = (h1, Ok ps) -> h1 = h /\ reads g_pos h (tlocs X) ps.
Proof.
  unfold get_positions, tlocs, reads. generalize (targets X) as tgs. intros tgs.
  revert h1 ps. induction tgs as [|tg tgs IH]; intros h1 ps E; simpl in *.
  - inversion E; subst. split; [reflexivity | constructor].
  - apply mbind_ok in E. destruct E as (h2 & p & E1 & E).
    apply mbind_ok in E1. destruct E1 as (h3 & c & E0 & E1).
    unfold gro_get in E0. unfold ret in E1.
    destruct (nth_error (hgro h) (snd tg)) as [c0|] eqn:Eg; inversion E0; subst; clear E0.
    inversion E1; subst; clear E1.
    apply mbind_ok in E. destruct E as (h3 & ps' & E2 & E). inversion E; subst; clear E.
    destruct (IH _ _ E2) as (-> & R). split; auto. constructor; auto.
    unfold rd_at. rewrite Eg. reflexivity.
Qed.

Lemma set_loop_spec {A} (k : A -> grocell T -> grocell T) (rd : grocell T -> A) :
  (forall a c, rd (k a c) = a) ->
  forall (tgs : list (option loc * loc)) (vals : list A) (h h' : heap),
  length vals = length tgs -> NoDup (map snd tgs) ->
  iterM (fun tp => mbind (visit (fst tp)) (fun _ => gro_mod (snd (fst tp)) (k (snd tp)))) (combine tgs vals) h = (h', Ok tt) ->
  reads rd h' (map snd tgs) vals.
Proof.
  intros Hrd. unfold reads. induction tgs as [|tg tgs IH]; intros vals h h' L ND E.
  - destruct vals; [constructor | discriminate].
  - destruct vals as [|a vals]; [discriminate|]. simpl in *. inversion ND; subst.
    apply mbind_ok in E. destruct E as (h1 & u & E1 & E).
    apply mbind_ok in E1. destruct E1 as (h0 & u0 & E0 & E1).
    apply ro_eq in E0; [|apply ro_visit]. subst h0. destruct u.
    apply gro_mod_ok in E1. destruct E1 as (c & Ec & Eh & _).
    constructor.
    + (* the rest of the loop does not write this cell *)
      assert (F : framed (fun l => In l (map snd tgs)) (fun _ => True) (fun _ => True)
                    (iterM (fun tp : (option loc * loc) * A =>
                              mbind (visit (fst tp)) (fun _ => gro_mod (snd (fst tp)) (k (snd tp)))) (combine tgs vals))).
      { apply framed_iterM. intros tp Htp. apply framed_bind; [apply framed_visit|]. intros _.
        apply framed_gro_mod. apply in_map. eapply combine_fst_in; eauto. }
      specialize (F h1). rewrite E in F. simpl in F. destruct F as (_ & _ & _ & F & _).
      unfold rd_at. rewrite F; auto.
      * rewrite Eh, nth_error_upd_same; [simpl; rewrite Hrd; reflexivity | eapply nth_error_lt; eauto].
      * rewrite Eh, upd_length. eapply nth_error_lt; eauto.
    + eapply IH; eauto.
Qed.

Lemma set_positions_spec (X : handle) ps' (h h' : heap) :
  NoDup (tlocs X) -> set_positions X ps' h = (h', Ok tt) -> reads g_pos h' (tlocs X) ps'.
Proof.
  unfold set_positions, tlocs. intros ND E.
  destruct (Nat.eqb (length ps') (length (targets X))) eqn:L; simpl in E; [|unfold fail in E; discriminate].
  apply Nat.eqb_eq in L.
  eapply (set_loop_spec (fun p => gset_pos p) g_pos); eauto.
Qed.

Lemma reads_length {A} (rd : grocell T -> A) h ls vals : reads rd h ls vals -> length vals = length ls.
Proof. unfold reads. intros R. induction R; simpl; auto. Qed.

Definition geo_of (o : op) (ps : list (V3 T)) : res (list (V3 T)) :=
  match o with
  | OMove d => Ok (geo_move d ps)
  | OMoveTo p => geo_move_to p ps
  | ORotate R => geo_rotate R ps
  | _ => Err EType
  end.

(* move / move_to / rotate on a Residue or a Molecule: the new coordinates are the geometry
   function applied to the list of ALL its atoms' coordinates, residue after residue *)
Theorem rigid_op_spec : forall (X : handle) (o : op) (h h' : heap),
  (match o with OMove _ | OMoveTo _ | ORotate _ => True | _ => False end) ->
  exec X o h = (h', Ok None) -> shaped X -> NoDup (gro_locs X) ->
  exists ps ps', read_positions h X = Ok ps /\ geo_of o ps = Ok ps' /\ read_positions h' X = Ok ps'.
Proof.
  intros X o h h' Ho E SH ND.
  assert (E' : exists ps ps', get_positions X h = (h, Ok ps) /\ geo_of o ps = Ok ps' /\ set_positions X ps' h = (h', Ok tt)).
  { destruct X; destruct o; try contradiction; simpl in E; try (unfold fail in E; discriminate E);
      apply mbind_ok in E; destruct E as (h1 & u & E1 & E); inversion E; subst; clear E; destruct u;
      unfold do_move, do_move_to, do_rotate in E1;
      apply mbind_ok in E1; destruct E1 as (h2 & ps & E2 & E1);
      pose proof (get_positions_spec _ _ _ _ E2) as (-> & _).
    all: try (exists ps, (geo_move d ps); repeat split; auto; fail).
    all: apply mbind_ok in E1; destruct E1 as (h3 & ps' & E3 & E1); apply lift_ok in E3; destruct E3 as (-> & E3);
      exists ps, ps'; repeat split; auto. }
  destruct E' as (ps & ps' & E1 & E2 & E3).
  apply get_positions_spec in E1. destruct E1 as (_ & R1).
  apply set_positions_spec in E3; [|rewrite SH; auto].
  rewrite SH in *. exists ps, ps'. repeat split; auto; unfold read_positions; apply cells_reads; auto.
Qed.

End Live.
