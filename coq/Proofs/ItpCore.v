(* The ItpFile reading loop characterised without its control flow: header lines, section names in
   order of first appearance, and per section name the parsed lines of ALL its occurrences. *)
From Coq Require Import List Ascii Bool Arith Lia.
From GM Require Import Base.Res Base.StrItp Model.Itp Proofs.ItpSpec.
Import ListNotations.

Definition sec_lines (n : str) (secs : list (str * list pline)) : list pline :=
  match get_sec n secs with Some l => l | None => [] end.

Definition tagged (n : str) (cur : option str) (ls : list str) : list str :=
  map snd (filter (fun p => str_eqb (fst p) n) (tag_lines cur ls)).

Definition hdr_part (cur : option str) (ls : list str) : list str :=
  match cur with None => header_lines ls | Some _ => [] end.

(* ---------------------------------------------------------------- association lists *)
Lemma has_key_In n secs : has_key n secs = true <-> In n (map fst secs).
Proof.
  induction secs as [|[k v] r IH]; simpl; [split; [discriminate | tauto]|].
  rewrite orb_true_iff, IH, str_eqb_eq. tauto.
Qed.

Lemma has_key_false n secs : has_key n secs = false <-> ~ In n (map fst secs).
Proof.
  rewrite <- has_key_In. destruct (has_key n secs); split; intros H.
  - discriminate.
  - exfalso. apply H. reflexivity.
  - intros E. discriminate.
  - reflexivity.
Qed.

Lemma add_name_has n secs : has_key n secs = true -> add_name n (map fst secs) = map fst secs.
Proof.
  induction secs as [|[k v] r IH]; simpl; [discriminate|].
  destruct (str_eqb k n) eqn:E; simpl; [reflexivity|]. intros H. rewrite IH; [reflexivity | exact H].
Qed.

Lemma add_name_new n secs (v : list pline) :
  has_key n secs = false -> add_name n (map fst secs) = map fst (secs ++ [(n, v)]).
Proof.
  induction secs as [|[k w] r IH]; simpl; [reflexivity|].
  destruct (str_eqb k n) eqn:E; simpl; [discriminate|]. intros H. rewrite IH; [reflexivity | exact H].
Qed.

Lemma add_name_In n ns x : In x (add_name n ns) <-> x = n \/ In x ns.
Proof.
  induction ns as [|k r IH]; simpl; [intuition|].
  destruct (str_eqb k n) eqn:E; simpl.
  - apply str_eqb_eq in E. subst. intuition.
  - rewrite IH. intuition.
Qed.

Lemma add_name_NoDup n ns : NoDup ns -> NoDup (add_name n ns).
Proof.
  induction ns as [|k r IH]; simpl; intros H.
  - constructor; [intros [] | constructor].
  - destruct (str_eqb k n) eqn:E; [exact H|].
    inversion H as [|? ? Hk Hr]; subst. constructor; [|apply IH; exact Hr].
    rewrite add_name_In. intros [F|F]; [|contradiction].
    subst. rewrite str_eqb_refl in E. discriminate.
Qed.

Lemma sec_names_from_NoDup ls : forall ns, NoDup ns -> NoDup (sec_names_from ns ls).
Proof.
  induction ls as [|l r IH]; simpl; intros ns H; [exact H|].
  destruct (is_hdr l); [|apply IH; exact H].
  destruct (hdr_name l); [|exact H]. apply IH. apply add_name_NoDup. exact H.
Qed.

Lemma sec_names_NoDup ls : NoDup (sec_names ls).
Proof. apply sec_names_from_NoDup. constructor. Qed.

Lemma sec_lines_app_new n k secs :
  has_key k secs = false -> sec_lines n (secs ++ [(k, [])]) = sec_lines n secs.
Proof.
  unfold sec_lines. induction secs as [|[k' v] r IH]; simpl; intros H.
  - destruct (str_eqb k n); reflexivity.
  - apply orb_false_iff in H as [H1 H2]. destruct (str_eqb k' n); [reflexivity | apply IH; exact H2].
Qed.

Lemma push_line_keys n p secs secs' : push_line n p secs = Ok secs' -> map fst secs' = map fst secs.
Proof.
  revert secs'; induction secs as [|[k v] r IH]; simpl; intros secs' H; [discriminate|].
  destruct (str_eqb k n).
  - inversion H; subst. reflexivity.
  - destruct (push_line n p r) as [r'|] eqn:E; simpl in H; [|discriminate].
    inversion H; subst. simpl. f_equal. apply IH. reflexivity.
Qed.

Lemma push_line_total n p secs : has_key n secs = true -> exists secs', push_line n p secs = Ok secs'.
Proof.
  induction secs as [|[k v] r IH]; simpl; [discriminate|].
  destruct (str_eqb k n) eqn:E; simpl; intros H; [eexists; reflexivity|].
  destruct (IH H) as [r' Hr]. rewrite Hr. simpl. eexists; reflexivity.
Qed.

Lemma push_line_same n p secs secs' :
  push_line n p secs = Ok secs' -> sec_lines n secs' = p :: sec_lines n secs.
Proof.
  unfold sec_lines. revert secs'; induction secs as [|[k v] r IH]; simpl; intros secs' H; [discriminate|].
  destruct (str_eqb k n) eqn:E.
  - inversion H; subst. simpl. rewrite E. reflexivity.
  - destruct (push_line n p r) as [r'|] eqn:E'; simpl in H; [|discriminate].
    inversion H; subst. simpl. rewrite E. apply IH. reflexivity.
Qed.

Lemma push_line_other n m p secs secs' :
  push_line n p secs = Ok secs' -> n <> m -> sec_lines m secs' = sec_lines m secs.
Proof.
  unfold sec_lines. revert secs'; induction secs as [|[k v] r IH]; simpl; intros secs' H Hne; [discriminate|].
  destruct (str_eqb k n) eqn:E.
  - inversion H; subst. simpl. apply str_eqb_eq in E. subst k.
    destruct (str_eqb n m) eqn:E2; [apply str_eqb_eq in E2; contradiction | reflexivity].
  - destruct (push_line n p r) as [r'|] eqn:E'; simpl in H; [|discriminate].
    inversion H; subst. simpl. destruct (str_eqb k m); [reflexivity|]. apply IH; [reflexivity | exact Hne].
Qed.

Lemma get_sec_In n secs : In n (map fst secs) -> exists v, get_sec n secs = Some v.
Proof.
  induction secs as [|[k v] r IH]; simpl; [tauto|].
  intros [H|H].
  - subst. rewrite str_eqb_refl. eauto.
  - destruct (str_eqb k n); [eauto | apply IH; exact H].
Qed.

Lemma assoc_self (secs : list (str * list pline)) :
  NoDup (map fst secs) -> secs = map (fun n => (n, sec_lines n secs)) (map fst secs).
Proof.
  induction secs as [|[k v] r IH]; simpl; intros H; [reflexivity|].
  inversion H as [|? ? Hk Hr]; subst. unfold sec_lines at 1. simpl. rewrite str_eqb_refl. f_equal.
  rewrite IH at 1 by exact Hr. apply map_ext_in. intros n Hn. unfold sec_lines. simpl.
  destruct (str_eqb k n) eqn:E; [|reflexivity]. apply str_eqb_eq in E. subst. contradiction.
Qed.

Lemma sec_lines_finalize n secs :
  sec_lines n (map (fun kv : str * list pline => (fst kv, rev (snd kv))) secs) = rev (sec_lines n secs).
Proof.
  unfold sec_lines. induction secs as [|[k v] r IH]; simpl; [reflexivity|].
  destruct (str_eqb k n); [reflexivity | exact IH].
Qed.

Lemma map_fst_finalize (secs : list (str * list pline)) :
  map fst (map (fun kv : str * list pline => (fst kv, rev (snd kv))) secs) = map fst secs.
Proof. rewrite map_map. reflexivity. Qed.

(* ---------------------------------------------------------------- the loop *)
Lemma no_header_sec_tail l r : no_header_sec (l :: r) -> no_header_sec r.
Proof. intros H x Hx. apply H. right. exact Hx. Qed.

Lemma hdr_name_step l n : hdr_name l = Ok n -> exists g, re_group l = Ok g /\ strip g = n.
Proof.
  unfold hdr_name. destruct (re_group l) as [g|e]; simpl; intros H; [|discriminate].
  inversion H. eauto.
Qed.

Lemma run_spec : forall ls st st',
  run st ls = Ok st' ->
  no_header_sec ls ->
  st_cur st <> Some s_header ->
  (forall n, st_cur st = Some n -> has_key n (st_secs st) = true) ->
  st_header st' = rev (hdr_part (st_cur st) ls) ++ st_header st /\
  map fst (st_secs st') = sec_names_from (map fst (st_secs st)) ls /\
  forall n, exists ps,
      Forall2 (fun l p => parse_line (kind_of n) l = Ok p) (tagged n (st_cur st) ls) ps /\
      sec_lines n (st_secs st') = rev ps ++ sec_lines n (st_secs st).
Proof.
  induction ls as [|l r IH]; intros st st' Hrun Hdom Hcur Hkey.
  - simpl in Hrun. inversion Hrun; subst. repeat split.
    + destruct (st_cur st'); reflexivity.
    + intros n. exists []. split; [constructor | reflexivity].
  - simpl in Hrun. destruct (step st l) as [st1|e] eqn:Hstep; simpl in Hrun; [|discriminate].
    pose proof (no_header_sec_tail _ _ Hdom) as Hdom'.
    unfold step in Hstep. destruct (re_header (strip l)) eqn:Hh.
    + (* a section header line *)
      destruct (re_group l) as [g|e] eqn:Hg; simpl in Hstep; [|discriminate].
      assert (Hn : hdr_name l = Ok (strip g)) by (unfold hdr_name; rewrite Hg; reflexivity).
      assert (Hnh : str_eqb (strip g) s_header = false).
      { apply str_eqb_neq. intros E. apply (Hdom l); [left; reflexivity | exact Hh | rewrite Hn, E; reflexivity]. }
      rewrite Hnh in Hstep. simpl in Hstep.
      destruct (has_key (strip g) (st_secs st)) eqn:Hk; inversion Hstep; subst st1; clear Hstep.
      * specialize (IH _ _ Hrun Hdom'). simpl in IH.
        destruct IH as [I1 [I2 I3]].
        { intros E. inversion E as [E']. rewrite E' in Hnh. rewrite str_eqb_refl in Hnh. discriminate. }
        { intros n E. inversion E; subst. exact Hk. }
        repeat split.
        -- rewrite I1. unfold hdr_part. simpl. unfold is_hdr. rewrite Hh. destruct (st_cur st); reflexivity.
        -- rewrite I2. simpl. unfold is_hdr. rewrite Hh, Hn. rewrite add_name_has by exact Hk. reflexivity.
        -- intros n. destruct (I3 n) as [ps [P1 P2]]. exists ps. split; [|exact P2].
           unfold tagged in *. simpl. unfold is_hdr. rewrite Hh, Hn. exact P1.
      * specialize (IH _ _ Hrun Hdom'). simpl in IH.
        destruct IH as [I1 [I2 I3]].
        { intros E. inversion E as [E']. rewrite E' in Hnh. rewrite str_eqb_refl in Hnh. discriminate. }
        { intros n E. inversion E; subst. apply has_key_In. rewrite map_app. apply in_or_app. right. left. reflexivity. }
        repeat split.
        -- rewrite I1. unfold hdr_part. simpl. unfold is_hdr. rewrite Hh. destruct (st_cur st); reflexivity.
        -- rewrite I2. simpl. unfold is_hdr. rewrite Hh, Hn. rewrite (add_name_new _ _ []) by exact Hk. reflexivity.
        -- intros n. destruct (I3 n) as [ps [P1 P2]]. exists ps. split.
           ++ unfold tagged in *. simpl. unfold is_hdr. rewrite Hh, Hn. exact P1.
           ++ rewrite P2. rewrite sec_lines_app_new by exact Hk. reflexivity.
    + (* an ordinary line *)
      destruct (st_cur st) as [sec|] eqn:Hc.
      * assert (Hsh : str_eqb sec s_header = false).
        { apply str_eqb_neq. intros E. apply Hcur. rewrite E. reflexivity. }
        rewrite Hsh in Hstep.
        destruct (parse_line (kind_of sec) l) as [p|e] eqn:Hp; simpl in Hstep; [|discriminate].
        destruct (push_line sec p (st_secs st)) as [secs1|e] eqn:Hpush; simpl in Hstep; [|discriminate].
        inversion Hstep; subst st1; clear Hstep.
        specialize (IH _ _ Hrun Hdom'). simpl in IH. try rewrite Hc in IH.
        destruct IH as [I1 [I2 I3]].
        { exact Hcur. }
        { intros n E. inversion E; subst. apply has_key_In. rewrite (push_line_keys _ _ _ _ Hpush).
          apply has_key_In. apply Hkey. reflexivity. }
        repeat split.
        -- rewrite I1. reflexivity.
        -- rewrite I2. rewrite (push_line_keys _ _ _ _ Hpush). simpl. unfold is_hdr. rewrite Hh. reflexivity.
        -- intros n. destruct (I3 n) as [ps [P1 P2]].
           unfold tagged in *. simpl. unfold is_hdr. rewrite Hh. simpl.
           destruct (str_eqb sec n) eqn:En.
           ++ apply str_eqb_eq in En. subst n. exists (p :: ps). split.
              ** simpl. constructor; [exact Hp | exact P1].
              ** rewrite P2. rewrite (push_line_same _ _ _ _ Hpush). simpl. rewrite <- app_assoc. reflexivity.
           ++ exists ps. split; [exact P1|]. rewrite P2.
              rewrite (push_line_other _ n _ _ _ Hpush); [reflexivity|].
              intros E. subst. rewrite str_eqb_refl in En. discriminate.
      * inversion Hstep; subst st1; clear Hstep.
        specialize (IH _ _ Hrun Hdom'). simpl in IH. try rewrite Hc in IH.
        destruct IH as [I1 [I2 I3]]; [discriminate | intros n E; discriminate |].
        repeat split.
        -- rewrite I1. unfold hdr_part. simpl. unfold is_hdr. rewrite Hh. simpl. rewrite <- app_assoc. reflexivity.
        -- rewrite I2. simpl. unfold is_hdr. rewrite Hh. reflexivity.
        -- intros n. destruct (I3 n) as [ps [P1 P2]]. exists ps. split; [|exact P2].
           unfold tagged in *. simpl. unfold is_hdr. rewrite Hh. exact P1.
Qed.

(* every file that parses: header, names and the parsed lines of every section, for repeated names too *)
Theorem itp_parse_spec : forall ls f,
  itp_parse ls = Ok f -> no_header_sec ls ->
  f_header f = header_lines ls /\
  map fst (f_secs f) = sec_names ls /\
  f_secs f = map (fun n => (n, sec_lines n (f_secs f))) (sec_names ls) /\
  forall n, Forall2 (fun l p => parse_line (kind_of n) l = Ok p) (lines_in n ls) (sec_lines n (f_secs f)).
Proof.
  intros ls f H Hdom. unfold itp_parse in H. destruct (run st0 ls) as [st'|e] eqn:Hrun; simpl in H; [|discriminate].
  inversion H; subst f; clear H.
  destruct (run_spec _ _ _ Hrun Hdom) as [I1 [I2 I3]]; [discriminate | intros n E; discriminate |].
  simpl in *. unfold finalize. simpl.
  assert (Hk : map fst (map (fun kv : str * list pline => (fst kv, rev (snd kv))) (st_secs st')) = sec_names ls).
  { rewrite map_fst_finalize. exact I2. }
  repeat split.
  - rewrite I1. rewrite app_nil_r. apply rev_involutive.
  - exact Hk.
  - rewrite <- Hk. apply assoc_self. rewrite Hk. apply sec_names_NoDup.
  - intros n. destruct (I3 n) as [ps [P1 P2]]. rewrite sec_lines_finalize, P2.
    unfold sec_lines at 1. simpl. rewrite app_nil_r, rev_involutive. exact P1.
Qed.

(* conversely: a file whose lines all parse is read without error *)
Lemma run_total : forall ls st,
  no_header_sec ls ->
  (forall l, In l ls -> is_hdr l = true -> exists n, hdr_name l = Ok n) ->
  (forall n l, In (n, l) (tag_lines (st_cur st) ls) -> exists p, parse_line (kind_of n) l = Ok p) ->
  st_cur st <> Some s_header ->
  (forall n, st_cur st = Some n -> has_key n (st_secs st) = true) ->
  exists st', run st ls = Ok st'.
Proof.
  induction ls as [|l r IH]; intros st Hdom Hhdr Hall Hcur Hkey; simpl; [eauto|].
  pose proof (no_header_sec_tail _ _ Hdom) as Hdom'.
  assert (Hhdr' : forall x, In x r -> is_hdr x = true -> exists n, hdr_name x = Ok n)
    by (intros x Hx; apply Hhdr; right; exact Hx).
  unfold step. destruct (re_header (strip l)) eqn:Hh.
  - destruct (Hhdr l (or_introl eq_refl) Hh) as [n Hn].
    destruct (hdr_name_step _ _ Hn) as [g [Hg Hs]]. rewrite Hg. simpl. rewrite Hs.
    assert (Hnh : str_eqb n s_header = false).
    { apply str_eqb_neq. intros E. apply (Hdom l); [left; reflexivity | exact Hh | rewrite Hn, E; reflexivity]. }
    rewrite Hnh. simpl.
    simpl in Hall. unfold is_hdr in Hall. rewrite Hh, Hn in Hall.
    destruct (has_key n (st_secs st)) eqn:Hk; simpl; apply IH; simpl; auto.
    + intros E. inversion E as [E']. rewrite E' in Hnh. rewrite str_eqb_refl in Hnh. discriminate.
    + intros m E. inversion E; subst. exact Hk.
    + intros E. inversion E as [E']. rewrite E' in Hnh. rewrite str_eqb_refl in Hnh. discriminate.
    + intros m E. inversion E; subst. apply has_key_In. rewrite map_app. apply in_or_app. right. left. reflexivity.
  - simpl in Hall. unfold is_hdr in Hall. rewrite Hh in Hall.
    destruct (st_cur st) as [sec|] eqn:Hc.
    + assert (Hsh : str_eqb sec s_header = false).
      { apply str_eqb_neq. intros E. apply Hcur. rewrite E. reflexivity. }
      rewrite Hsh. destruct (Hall sec l (or_introl eq_refl)) as [p Hp]. rewrite Hp. simpl.
      destruct (push_line_total sec p (st_secs st) (Hkey _ eq_refl)) as [secs1 Hpush]. rewrite Hpush. simpl.
      apply IH; [exact Hdom' | exact Hhdr' | | | ]; simpl; try rewrite Hc in *.
      * intros n x Hx. apply Hall. right. exact Hx.
      * exact Hcur.
      * intros n E. inversion E; subst. apply has_key_In. rewrite (push_line_keys _ _ _ _ Hpush).
        apply has_key_In. apply Hkey. reflexivity.
    + apply IH; [exact Hdom' | exact Hhdr' | | | ]; simpl; try rewrite Hc in *.
      * exact Hall.
      * discriminate.
      * intros n E. discriminate.
Qed.

Theorem itp_parse_total : forall ls,
  no_header_sec ls ->
  (forall l, In l ls -> is_hdr l = true -> exists n, hdr_name l = Ok n) ->
  (forall n l, In (n, l) (tag_lines None ls) -> exists p, parse_line (kind_of n) l = Ok p) ->
  exists f, itp_parse ls = Ok f.
Proof.
  intros ls Hdom Hhdr Hall. unfold itp_parse.
  destruct (run_total ls st0 Hdom Hhdr Hall) as [st' H]; [discriminate | intros n E; discriminate |].
  rewrite H. simpl. eauto.
Qed.
