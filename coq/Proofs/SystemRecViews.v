(* C11_views_agree: len, composition, integer indexing, slicing and iteration are all functions of the
   one list [instances st]; for every state (no domain hypothesis) *)
From Coq Require Import List Arith ZArith Bool Lia.
Import ListNotations.
From GM Require Import Base.Res Model.SystemRec.

Fixpoint counter_get (c : list (nat * nat)) (name : nat) : nat :=
  match c with
  | [] => 0
  | (n, a) :: t => if n =? name then a else counter_get t name
  end.

(* number of instances in l whose molecule is called nm *)
Definition has_name (mols : list molinfo) (nm : nat) (x : inst) : bool :=
  match x with (k, _, _) =>
    match nth_error mols k with Some mi => top_name (mi_top mi) =? nm | None => false end
  end.
Definition count_name (mols : list molinfo) (nm : nat) (l : list inst) : nat :=
  length (filter (has_name mols nm) l).

(* what System[i] must be, given the list of instances *)
Definition getitem_spec (l : list inst) (i : Z) : res inst :=
  let n := Z.of_nat (length l) in
  if ((0 <=? i) && (i <? n))%Z then nth_res l (Z.to_nat i)
  else if ((- n <=? i) && (i <? 0))%Z then nth_res l (Z.to_nat (n + i))
  else Err (if (i =? -1)%Z then EValue else EIndex).

Lemma counter_get_add c n a nm :
  counter_get (counter_add c n a) nm = counter_get c nm + (if n =? nm then a else 0).
Proof.
  induction c as [|[n' a'] t IH]; simpl.
  - destruct (n =? nm); lia.
  - destruct (n' =? n) eqn:E; simpl.
    + apply Nat.eqb_eq in E. subst n'. destruct (n =? nm); lia.
    + destruct (n' =? nm) eqn:E2; auto.
      apply Nat.eqb_eq in E2. subst n'. rewrite Nat.eqb_sym in E. rewrite E. lia.
Qed.

Lemma expand_block_props mols i start cnt l : expand_block mols (i, start, cnt) = Ok l ->
  length l = cnt /\ exists mi, nth_error mols i = Some mi /\
  forall nm, count_name mols nm l = if top_name (mi_top mi) =? nm then cnt else 0.
Proof.
  unfold expand_block, nth_res. destruct (nth_error mols i) as [mi|] eqn:E; simpl; [|discriminate].
  intros H. inversion H; subst. split; [rewrite map_length, seq_length; reflexivity|].
  exists mi. split; auto. intros nm. unfold count_name.
  rewrite <- (seq_length cnt 0) at 2. generalize (seq 0 cnt) as js.
  induction js as [|j js IH]; simpl.
  - destruct (_ =? _); reflexivity.
  - rewrite E. destruct (top_name (mi_top mi) =? nm) eqn:En; simpl; rewrite IH; reflexivity.
Qed.

Lemma len_spec mols bs ls : mapM (expand_block mols) bs = Ok ls ->
  fold_right (fun b n => snd b + n) 0 bs = length (concat ls).
Proof.
  revert ls. induction bs as [|[[i s] c] t IH]; intros ls H.
  - inversion H; reflexivity.
  - cbn [mapM] in H. destruct (expand_block mols (i, s, c)) as [l|] eqn:E; simpl in H; [|discriminate].
    destruct (mapM (expand_block mols) t) as [ls'|] eqn:E2; simpl in H; [|discriminate].
    inversion H; subst. simpl. rewrite app_length, (IH ls' eq_refl).
    apply expand_block_props in E as [-> _]. reflexivity.
Qed.

Lemma count_name_app mols nm a b : count_name mols nm (a ++ b) = count_name mols nm a + count_name mols nm b.
Proof. unfold count_name. rewrite filter_app, app_length. reflexivity. Qed.

Lemma composition_spec mols bs : forall ls c, mapM (expand_block mols) bs = Ok ls ->
  exists c', composition_go mols bs c = Ok c' /\
             forall nm, counter_get c' nm = counter_get c nm + count_name mols nm (concat ls).
Proof.
  induction bs as [|[[i s] cnt] t IH]; intros ls c H.
  - inversion H; subst. exists c. split; [reflexivity|]. intros nm. unfold count_name; simpl. lia.
  - cbn [mapM] in H. destruct (expand_block mols (i, s, cnt)) as [l|] eqn:E; simpl in H; [|discriminate].
    destruct (mapM (expand_block mols) t) as [ls'|] eqn:E2; simpl in H; [|discriminate].
    inversion H; subst. apply expand_block_props in E as [_ (mi & Hn & Hc)].
    cbn [composition_go]. unfold nth_res. rewrite Hn. cbn [bind].
    destruct (IH ls' (counter_add c (top_name (mi_top mi)) cnt) eq_refl) as (c' & H1 & H2).
    exists c'. split; auto. intros nm. rewrite H2, counter_get_add. simpl concat.
    rewrite count_name_app, Hc. lia.
Qed.

(* ---------------- integer indexing *)
Open Scope Z_scope.

Lemma slice_one {A} (l : list A) (k : nat) a : nth_error l k = Some a ->
  slice_walk (S (length l)) l (Z.of_nat k) (Z.of_nat k + 1) 1 = Ok [a].
Proof.
  intros H. assert (Hl : (k < length l)%nat) by (apply nth_error_Some; congruence).
  cbn [slice_walk]. change (0 <? 1) with true. cbv iota.
  assert (E : Z.of_nat k <? Z.of_nat k + 1 = true) by (apply Z.ltb_lt; lia).
  rewrite E, Nat2Z.id, H. destruct (length l) as [|f]; [lia|].
  cbn [slice_walk]. change (0 <? 1) with true. cbv iota.
  rewrite Z.ltb_irrefl. reflexivity.
Qed.

Lemma slice_empty {A} (l : list A) (a b : Z) : b <= a ->
  slice_walk (S (length l)) l a b 1 = Ok [].
Proof.
  intros H. cbn [slice_walk]. change (0 <? 1) with true. cbv iota.
  assert (E : a <? b = false) by (apply Z.ltb_ge; lia). rewrite E. reflexivity.
Qed.

Lemma rev_head {A} (l : list A) :
  match rev l with x :: _ => nth_error l (length l - 1) = Some x | [] => l = [] end.
Proof.
  induction l as [|a t IH]; simpl; auto.
  destruct (rev t) as [|x r] eqn:E; simpl.
  - subst t. reflexivity.
  - rewrite Nat.sub_0_r. destruct t as [|b t']; [discriminate|]. simpl in *. rewrite Nat.sub_0_r in IH. exact IH.
Qed.

Lemma getitem_info_spec st l i : instances st = Ok l -> getitem_info st i = getitem_spec l i.
Proof.
  intros Hi. unfold getitem_info, getitem_spec. rewrite Hi. cbn [bind].
  set (n := Z.of_nat (length l)).
  destruct (i =? -1) eqn:Em1.
  - apply Z.eqb_eq in Em1. subst i. change (0 <=? -1) with false. cbn [andb].
    pose proof (rev_head l) as Hr. destruct (rev l) as [|x r].
    + subst l. reflexivity.
    + assert (Hl : (length l - 1 < length l)%nat) by (apply nth_error_Some; congruence).
      assert (E : (- n <=? -1) && (-1 <? 0) = true).
      { apply andb_true_iff. split; [apply Z.leb_le; unfold n; lia|reflexivity]. }
      rewrite E. unfold nth_res. replace (Z.to_nat (n + -1)) with (length l - 1)%nat by (unfold n; lia).
      rewrite Hr. reflexivity.
  - apply Z.eqb_neq in Em1. unfold py_slice. change (1 =? 0) with false. change (0 <? 1) with true. cbv iota.
    fold n. unfold adj_pos.
    destruct (0 <=? i) eqn:E0.
    + apply Z.leb_le in E0.
      assert (Ei : i <? 0 = false) by (apply Z.ltb_ge; lia).
      assert (Ei1 : i + 1 <? 0 = false) by (apply Z.ltb_ge; lia). rewrite Ei, Ei1.
      destruct (i <? n) eqn:En; cbn [andb].
      * apply Z.ltb_lt in En. rewrite !Z.min_l by lia.
        unfold nth_res. destruct (nth_error l (Z.to_nat i)) as [a|] eqn:Ea.
        -- rewrite <- (Z2Nat.id i) at 1 2 by lia. rewrite (slice_one l _ a Ea). reflexivity.
        -- apply nth_error_None in Ea. unfold n in En. lia.
      * apply Z.ltb_ge in En. rewrite !Z.min_r by lia. rewrite slice_empty by lia. cbn [bind].
        assert (E2 : (- n <=? i) && false = false) by apply andb_false_r.
        replace (i <? 0) with false in *. rewrite andb_false_r. reflexivity.
    + apply Z.leb_gt in E0. cbn [andb].
      assert (Ei : i <? 0 = true) by (apply Z.ltb_lt; lia).
      assert (Ei1 : i + 1 <? 0 = true) by (apply Z.ltb_lt; lia). rewrite Ei, Ei1.
      destruct (- n <=? i) eqn:En; cbn [andb].
      * apply Z.leb_le in En. rewrite !Z.max_r by lia.
        unfold nth_res. destruct (nth_error l (Z.to_nat (n + i))) as [a|] eqn:Ea.
        -- replace (i + n) with (Z.of_nat (Z.to_nat (n + i))) by lia.
           replace (i + 1 + n) with (Z.of_nat (Z.to_nat (n + i)) + 1) by lia.
           rewrite (slice_one l _ a Ea). reflexivity.
        -- apply nth_error_None in Ea. unfold n in *. lia.
      * apply Z.leb_gt in En. rewrite !Z.max_l by lia. rewrite slice_empty by lia. reflexivity.
Qed.
Close Scope Z_scope.

Theorem views_agree v st l : instances st = Ok l ->
  sys_len st = length l /\
  (exists c, composition st = Ok c /\ forall nm, counter_get c nm = count_name (s_mols st) nm l) /\
  (forall i, getitem_info st i = getitem_spec l i) /\
  (forall i, sys_getitem v st i = (let* x := getitem_spec l i in mol_of v st x)) /\
  (forall a b c, sys_getslice v st a b c = (let* s := py_slice l a b c in mapM (mol_of v st) s)) /\
  sys_iter v st = mapM (mol_of v st) l.
Proof.
  intros Hi. unfold instances in Hi.
  destruct (mapM (expand_block (s_mols st)) (s_blocks st)) as [ls|] eqn:E; simpl in Hi; [|discriminate].
  inversion Hi; subst l. clear Hi.
  assert (Hinst : instances st = Ok (concat ls)) by (unfold instances; rewrite E; reflexivity).
  split; [|split; [|split; [|split; [|split]]]].
  - unfold sys_len. apply (len_spec _ _ _ E).
  - destruct (composition_spec _ _ ls [] E) as (c & H1 & H2). exists c. split; auto.
  - intros i. apply getitem_info_spec; auto.
  - intros i. unfold sys_getitem. rewrite (getitem_info_spec st _ i Hinst). reflexivity.
  - intros a b c. unfold sys_getslice. rewrite Hinst. reflexivity.
  - unfold sys_iter. rewrite Hinst. reflexivity.
Qed.
