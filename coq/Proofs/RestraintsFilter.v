(* remove_hydrogens and the argument preparation of Alignment.align_molecules: lemmas for C10. *)
From Coq Require Import String Bool Arith ZArith Lia List.
From GM Require Import Base.Res Model.Restraints.
Import ListNotations.

(* ------------------------------------------------------------------ filter_map *)
Lemma filter_map_ext {A B} (f g : A -> option B) l :
  (forall x, f x = g x) -> filter_map f l = filter_map g l.
Proof. intros H; induction l as [|x t IH]; simpl; [reflexivity|]. now rewrite H, IH. Qed.

Lemma filter_map_map {A B C} (f : B -> option C) (h : A -> B) l :
  filter_map f (map h l) = filter_map (fun x => f (h x)) l.
Proof. induction l as [|x t IH]; simpl; [reflexivity|]. now rewrite IH. Qed.

Lemma filter_map_Some {A} (l : list A) : filter_map (@Some A) l = l.
Proof. induction l; simpl; congruence. Qed.

Lemma in_filter_map {A B} (f : A -> option B) l y :
  In y (filter_map f l) <-> exists x, In x l /\ f x = Some y.
Proof.
  induction l as [|a t IH]; simpl.
  - split; [contradiction|intros [x [[] _]]].
  - destruct (f a) eqn:E; simpl; rewrite IH; split.
    + intros [H|[x [H1 H2]]]; [subst; eauto|eauto].
    + intros [x [[H|H] H2]]; [subst; left; congruence|eauto].
    + intros [x [H1 H2]]; eauto.
    + intros [x [[H|H] H2]]; [subst; congruence|eauto].
Qed.

Section Filter.
Context {P : Type}.

(* ------------------------------------------------------------------ specification vocabulary *)
(* the atom is a filtered hydrogen: its element (first run of letters of its name) is exactly "H" *)
Definition hyd (a : atom P) : bool :=
  match element (a_name a) with Ok e => String.eqb e "H" | Err _ => false end.
Definition keptb (a : atom P) : bool := negb (hyd a).

(* number of kept atoms before position i = the index of atom i after filtering *)
Definition rank (atoms : list (atom P)) (i : nat) : nat := length (filter keptb (firstn i atoms)).

(* new index of the atom designated by the Python int i (None: out of range, negative, or hydrogen) *)
Definition kept_at (atoms : list (atom P)) (i : Z) : option nat :=
  if (i <? 0)%Z then None
  else match nth_error atoms (Z.to_nat i) with
       | Some a => if keptb a then Some (rank atoms (Z.to_nat i)) else None
       | None => None
       end.

Lemma not_hydrogen_keptb (a : atom P) b : not_hydrogen (a_name a) = Ok b -> keptb a = b.
Proof.
  unfold not_hydrogen, keptb, hyd. destruct (element (a_name a)); simpl; [|discriminate].
  intros H; now inversion H.
Qed.

Lemma rank_cons_S a t m : rank (a :: t) (S m) = (if keptb a then S (rank t m) else rank t m).
Proof. unfold rank; simpl. now destruct (keptb a). Qed.

Lemma rh_scan_spec atoms : forall index npos ps mp,
  rh_scan atoms index npos = Ok (ps, mp) ->
  ps = map a_pos (filter keptb atoms) /\
  forall i, lookup_by Nat.eqb i mp =
    if index <=? i then
      match nth_error atoms (i - index) with
      | Some a => if keptb a then Some (npos + rank atoms (i - index)) else None
      | None => None
      end
    else None.
Proof.
  induction atoms as [|a t IH]; intros index npos ps mp H; simpl in H.
  - inversion H; subst. split; [reflexivity|]. intros i; simpl.
    destruct (index <=? i); [|reflexivity]. now destruct (i - index).
  - destruct (not_hydrogen (a_name a)) as [keep|] eqn:Hk; simpl in H; [|discriminate].
    apply not_hydrogen_keptb in Hk. destruct keep.
    + destruct (rh_scan t (S index) (S npos)) as [[ps' mp']|] eqn:Hr; simpl in H; [|discriminate].
      inversion H; subst; clear H. destruct (IH _ _ _ _ Hr) as [E1 E2].
      split; [simpl; rewrite Hk; simpl; now f_equal|].
      intros i; simpl. destruct (Nat.eqb_spec i index) as [->|Hne].
      * rewrite Nat.leb_refl, Nat.sub_diag; simpl. rewrite Hk. unfold rank; simpl. f_equal; lia.
      * rewrite E2. destruct (Nat.leb_spec (S index) i) as [L|L].
        -- replace (index <=? i) with true by (symmetry; apply Nat.leb_le; lia).
           replace (i - index) with (S (i - S index)) by lia. simpl.
           destruct (nth_error t (i - S index)) as [b|]; [|reflexivity].
           destruct (keptb b); [|reflexivity]. rewrite rank_cons_S, Hk. f_equal; lia.
        -- replace (index <=? i) with false by (symmetry; apply Nat.leb_gt; lia). reflexivity.
    + destruct (IH _ _ _ _ H) as [E1 E2].
      split; [simpl; rewrite Hk; assumption|].
      intros i. rewrite E2. destruct (Nat.eqb_spec i index) as [->|Hne].
      * replace (S index <=? index) with false by (symmetry; apply Nat.leb_gt; lia).
        rewrite Nat.leb_refl, Nat.sub_diag; simpl. now rewrite Hk.
      * destruct (Nat.leb_spec (S index) i) as [L|L].
        -- replace (index <=? i) with true by (symmetry; apply Nat.leb_le; lia).
           replace (i - index) with (S (i - S index)) by lia. simpl.
           destruct (nth_error t (i - S index)) as [b|]; [|reflexivity].
           destruct (keptb b); [|reflexivity]. now rewrite rank_cons_S, Hk.
        -- replace (index <=? i) with false by (symmetry; apply Nat.leb_gt; lia). reflexivity.
Qed.

(* C10_filter: what remove_hydrogens returns, in terms of the specification vocabulary only *)
Lemma remove_hydrogens_spec atoms restr ps rs :
  remove_hydrogens atoms restr = Ok (ps, rs) ->
  ps = map a_pos (filter keptb atoms) /\
  rs = filter_map (fun p : Z * Z =>
                     match kept_at atoms (fst p) with
                     | Some k => Some (Z.of_nat k, snd p)
                     | None => None
                     end) restr.
Proof.
  unfold remove_hydrogens. destruct (@rh_scan P atoms 0 0) as [[ps' mp]|] eqn:Hr; simpl; [|discriminate].
  intros H; inversion H; subst; clear H. destruct (rh_scan_spec _ _ _ _ _ Hr) as [E1 E2].
  split; [assumption|]. apply filter_map_ext. intros [i j]; simpl.
  unfold lookup_index, kept_at. destruct (i <? 0)%Z; [reflexivity|].
  rewrite E2; simpl. rewrite Nat.sub_0_r. reflexivity.
Qed.

(* remove_hydrogens fails only when a name has no letter *)
Lemma rh_scan_total (atoms : list (atom P)) : Forall (fun a => exists e, element (a_name a) = Ok e) atoms ->
  forall index npos, exists r, rh_scan atoms index npos = Ok r.
Proof.
  induction 1 as [|a t [e He] Ht IH]; intros index npos; simpl; [eauto|].
  unfold not_hydrogen; rewrite He; simpl. destruct (negb (String.eqb e "H")).
  - destruct (IH (S index) (S npos)) as [r Hr]. rewrite Hr; simpl; eauto.
  - apply IH.
Qed.

Lemma remove_hydrogens_total (atoms : list (atom P)) restr :
  Forall (fun a => exists e, element (a_name a) = Ok e) atoms ->
  exists r, remove_hydrogens atoms restr = Ok r.
Proof.
  intros H. unfold remove_hydrogens. destruct (rh_scan_total atoms H 0 0) as [r Hr].
  rewrite Hr; simpl; eauto.
Qed.

(* the renumbered index designates the same atom in the filtered position array *)
Lemma nth_filter_rank (l : list (atom P)) : forall m a,
  nth_error l m = Some a -> keptb a = true -> nth_error (filter keptb l) (rank l m) = Some a.
Proof.
  induction l as [|x t IH]; intros m a Hn Hk; [destruct m; discriminate|].
  destruct m as [|m]; simpl in Hn.
  - inversion Hn; subst. unfold rank; simpl. now rewrite Hk.
  - rewrite rank_cons_S. simpl. destruct (keptb x); simpl; apply IH; assumption.
Qed.

Lemma kept_at_designates atoms i k :
  kept_at atoms i = Some k ->
  (0 <= i)%Z /\ exists a, nth_error atoms (Z.to_nat i) = Some a /\ hyd a = false /\
                          nth_error (map a_pos (filter keptb atoms)) k = Some (a_pos a).
Proof.
  unfold kept_at. destruct (Z.ltb_spec i 0); [discriminate|].
  destruct (nth_error atoms (Z.to_nat i)) as [a|] eqn:Hn; [|discriminate].
  destruct (keptb a) eqn:Hk; [|discriminate]. intros H0; inversion H0; subst; clear H0.
  split; [assumption|]. exists a. split; [reflexivity|]. split.
  - unfold keptb in Hk. now destruct (hyd a).
  - apply map_nth_error. apply nth_filter_rank; assumption.
Qed.

Lemma kept_at_none atoms i a :
  (0 <= i)%Z -> nth_error atoms (Z.to_nat i) = Some a -> (kept_at atoms i = None <-> hyd a = true).
Proof.
  intros H0 Hn. unfold kept_at. destruct (Z.ltb_spec i 0); [lia|]. rewrite Hn.
  unfold keptb. destruct (hyd a); simpl; split; congruence.
Qed.

(* ------------------------------------------------------------------ align_args *)
(* what one user/guesser pair becomes on its way to the optimiser *)
Definition route (start end_ : molecule P) (ign : bool) (p : Z * Z) : option (Z * Z) :=
  let swap := m_len start <? m_len end_ in
  let fixed := if swap then end_ else start in
  let p' := if swap then swap_pair p else p in
  if ign then
    match kept_at (m_atoms fixed) (fst p') with
    | Some k => Some (Z.of_nat k, snd p')
    | None => None
    end
  else Some p'.

Lemma align_args_call (start end_ : molecule P) restr deform ign autog r1 c :
  effective_restrictions start end_ restr autog = Ok r1 ->
  align_args start end_ restr deform ign autog = Ok (Call c) ->
  let swap := m_len start <? m_len end_ in
  let fixed := if swap then end_ else start in
  let mobile := if swap then start else end_ in
  c_fixed_is_start c = negb swap /\
  c_fixed_pos c = (if ign then map a_pos (filter keptb (m_atoms fixed)) else map a_pos (m_atoms fixed)) /\
  c_mobile_pos c = map a_pos (m_atoms mobile) /\
  c_deform c = default_deformations start end_ deform /\
  c_restr c = filter_map (route start end_ ign) r1.
Proof.
  intros He. unfold align_args. rewrite He; simpl.
  destruct (m_len end_ =? 1); [discriminate|].
  set (swap := m_len start <? m_len end_).
  destruct (m_conn (if swap then start else end_)); simpl; [|discriminate].
  destruct ign.
  - destruct (remove_hydrogens (m_atoms (if swap then end_ else start))
                (if swap then map swap_pair r1 else r1)) as [[ps rs]|] eqn:Hr; simpl; [|discriminate].
    intros H; inversion H; subst; clear H; simpl.
    destruct (remove_hydrogens_spec _ _ _ _ Hr) as [E1 E2].
    repeat split; try assumption. rewrite E2. unfold route. fold swap.
    clearbody swap. destruct swap; cbv iota; [apply filter_map_map|reflexivity].
  - simpl. intros H; inversion H; subst; clear H; simpl.
    repeat split. unfold route. fold swap.
    clearbody swap. destruct swap; cbv iota.
    + change (map swap_pair r1 = filter_map (fun x => Some (swap_pair x)) r1).
      rewrite <- (filter_map_map (@Some (Z * Z)) swap_pair r1). symmetry; apply filter_map_Some.
    + symmetry; apply filter_map_Some.
Qed.

(* C10_designates *)
Lemma designates (start end_ : molecule P) restr deform ign autog r1 c :
  effective_restrictions start end_ restr autog = Ok r1 ->
  align_args start end_ restr deform ign autog = Ok (Call c) ->
  let swap := m_len start <? m_len end_ in
  c_fixed_is_start c = negb swap /\
  c_mobile_pos c = map a_pos (m_atoms (if swap then start else end_)) /\
  c_restr c = filter_map (route start end_ ign) r1 /\
  forall (i j : Z) (a_s a_e : atom P),
    (0 <= i)%Z -> (0 <= j)%Z ->
    nth_error (m_atoms start) (Z.to_nat i) = Some a_s ->
    nth_error (m_atoms end_) (Z.to_nat j) = Some a_e ->
    let a_fixed := if swap then a_e else a_s in
    let a_mobile := if swap then a_s else a_e in
    (route start end_ ign (i, j) = None <-> ign = true /\ hyd a_fixed = true) /\
    forall i' j', route start end_ ign (i, j) = Some (i', j') ->
      (0 <= i')%Z /\ (0 <= j')%Z /\
      nth_error (c_fixed_pos c) (Z.to_nat i') = Some (a_pos a_fixed) /\
      nth_error (c_mobile_pos c) (Z.to_nat j') = Some (a_pos a_mobile).
Proof.
  intros He Ha. destruct (align_args_call _ _ _ _ _ _ _ _ He Ha) as [C1 [C2 [C3 [C4 C5]]]].
  cbv zeta in *. set (swap := m_len start <? m_len end_) in *.
  split; [assumption|]. split; [assumption|]. split; [assumption|].
  intros i j a_s a_e Hi Hj Hs Hend. rewrite C2, C3. unfold route. fold swap.
  clearbody swap. destruct swap; simpl.
  - (* start smaller: fixed = end, pair reversed *)
    destruct ign.
    + split.
      * destruct (kept_at (m_atoms end_) j) eqn:K.
        -- split; [discriminate|]. intros [_ Hh]. apply (kept_at_none _ _ _ Hj Hend) in Hh. congruence.
        -- split; [|reflexivity]. intros _. split; [reflexivity|]. now apply (kept_at_none _ _ _ Hj Hend).
      * intros i' j' H. destruct (kept_at (m_atoms end_) j) eqn:K; [|discriminate].
        inversion H; subst; clear H. destruct (kept_at_designates _ _ _ K) as [_ [a [Hn [_ Hp]]]].
        rewrite Hend in Hn; inversion Hn; subst. rewrite Nat2Z.id.
        repeat split; try lia; [assumption|]. now apply map_nth_error.
    + split; [split; [discriminate|intros [? _]; discriminate]|].
      intros i' j' H; inversion H; subst; clear H.
      repeat split; try assumption; now apply map_nth_error.
  - destruct ign.
    + split.
      * destruct (kept_at (m_atoms start) i) eqn:K.
        -- split; [discriminate|]. intros [_ Hh]. apply (kept_at_none _ _ _ Hi Hs) in Hh. congruence.
        -- split; [|reflexivity]. intros _. split; [reflexivity|]. now apply (kept_at_none _ _ _ Hi Hs).
      * intros i' j' H. destruct (kept_at (m_atoms start) i) eqn:K; [|discriminate].
        inversion H; subst; clear H. destruct (kept_at_designates _ _ _ K) as [_ [a [Hn [_ Hp]]]].
        rewrite Hs in Hn; inversion Hn; subst. rewrite Nat2Z.id.
        repeat split; try lia; [assumption|]. now apply map_nth_error.
    + split; [split; [discriminate|intros [? _]; discriminate]|].
      intros i' j' H; inversion H; subst; clear H.
      repeat split; try assumption; now apply map_nth_error.
Qed.

(* every pair that reaches the optimiser comes from a given pair, in the same order (no pair is invented) *)
Lemma route_preimage (start end_ : molecule P) ign r1 q :
  In q (filter_map (route start end_ ign) r1) <-> exists p, In p r1 /\ route start end_ ign p = Some q.
Proof. apply in_filter_map. Qed.


(* histories: every call made with one list object sees the list the caller built, and leaves it as it was *)
Lemma history_spec (start end_ : molecule P) restr calls k o l' :
  nth_error (align_history start end_ restr calls) k = Some (o, l') ->
  l' = restr /\
  exists d i a, nth_error calls k = Some (d, i, a) /\ o = align_args start end_ (Some restr) d i a.
Proof.
  unfold align_history. rewrite nth_error_map. destruct (nth_error calls k) as [[[d i] a]|]; simpl; [|discriminate].
  intros H; inversion H; subst. split; [reflexivity|]. exists d, i, a. auto.
Qed.

Lemma history_designates (start end_ : molecule P) restr calls k c l' :
  nth_error (align_history start end_ restr calls) k = Some (Ok (Call c), l') ->
  l' = restr /\
  exists d ign a, nth_error calls k = Some (d, ign, a) /\
  let swap := m_len start <? m_len end_ in
  c_fixed_is_start c = negb swap /\
  c_mobile_pos c = map a_pos (m_atoms (if swap then start else end_)) /\
  c_restr c = filter_map (route start end_ ign) restr /\
  forall (i j : Z) (a_s a_e : atom P),
    (0 <= i)%Z -> (0 <= j)%Z ->
    nth_error (m_atoms start) (Z.to_nat i) = Some a_s ->
    nth_error (m_atoms end_) (Z.to_nat j) = Some a_e ->
    let a_fixed := if swap then a_e else a_s in
    let a_mobile := if swap then a_s else a_e in
    (route start end_ ign (i, j) = None <-> ign = true /\ hyd a_fixed = true) /\
    forall i' j', route start end_ ign (i, j) = Some (i', j') ->
      (0 <= i')%Z /\ (0 <= j')%Z /\
      nth_error (c_fixed_pos c) (Z.to_nat i') = Some (a_pos a_fixed) /\
      nth_error (c_mobile_pos c) (Z.to_nat j') = Some (a_pos a_mobile).
Proof.
  intros H. destruct (history_spec _ _ _ _ _ _ _ H) as [E [d [ign [a [Hn Ho]]]]].
  split; [assumption|]. exists d, ign, a. split; [assumption|].
  apply (designates start end_ (Some restr) d ign a restr c); [reflexivity|now symmetry].
Qed.

End Filter.
