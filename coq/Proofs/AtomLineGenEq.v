(* Second tie (DESIGN.md 4.6) for GroFile.parse_atomline, the reader's line parser: the definition that
   harness/pytrans_atomline.py regenerates from the CURRENT source text at every run (Gen/AtomLineGen.v) is proved
   equal to the hand-written model of Model/GroCodec.v, for every line and every format with non-negative width. *)
From Coq Require Import List Ascii NArith ZArith Bool Arith Lia.
From GM Require Import Base.Res Base.StrGro Gen.SrcConsts Gen.GroKernelsGen Gen.AtomLineGen Model.GroCodec
  Proofs.GroKernelsGenEq.
Import ListNotations.

Definition atom_view (a : ratom) : Z * bytes * bytes * Z * list pdec :=
  (a_resnum a, a_resname a, a_aname a, a_anum a, a_vals a).

Lemma atomline_tail (l : bytes) (w : nat) (vel : bool) :
  (let atomline := l in
   let length := List.length atomline in
   let space := w in
   let expected_length := 20 + space * 3 * (1 + (if vel then 1 else 0)) in
   if negb (length =? expected_length) then Err EIO else
   let* p__2 := validate_res_atom_numbers_gen atomline in
   let res_num := fst p__2 in
   let atom_num := snd p__2 in
   let* f__3 := parse_float (firstn ((20 + space) - 20) (skipn 20 atomline)) in
   let* f__4 := parse_float (firstn ((20 + (2 * space)) - (20 + space)) (skipn (20 + space) atomline)) in
   let* f__5 := parse_float (firstn ((20 + (3 * space)) - (20 + (2 * space))) (skipn (20 + (2 * space)) atomline)) in
   let* extra__9 := (if vel then let* f__6 := parse_float (firstn ((20 + (4 * space)) - (20 + (3 * space))) (skipn (20 + (3 * space)) atomline)) in let* f__7 := parse_float (firstn ((20 + (5 * space)) - (20 + (4 * space))) (skipn (20 + (4 * space)) atomline)) in let* f__8 := parse_float (firstn ((20 + (6 * space)) - (20 + (5 * space))) (skipn (20 + (5 * space)) atomline)) in Ok [f__6; f__7; f__8] else Ok []) in
   Ok (res_num, (strip_py (firstn (10 - 5) (skipn 5 atomline))), (strip_py (firstn (15 - 10) (skipn 10 atomline))), atom_num, ([f__3; f__4; f__5] ++ extra__9))) =
  rmap atom_view
   (if negb (length l =? 20 + w * 3 * (1 + (if vel then 1 else 0))) then Err EIO else
    let* nums := validate_res_atom_numbers_gen l in
    let* vals := mapM parse_float (chop_fields (if vel then 6 else 3) w (skipn 20 l)) in
    Ok (mkratom (fst nums) (strip_py (firstn 5 (skipn 5 l))) (strip_py (firstn 5 (skipn 10 l))) (snd nums) vals)).
Proof.
  cbv zeta.
  destruct (negb (length l =? 20 + w * 3 * (1 + (if vel then 1 else 0)))); [reflexivity|].
  destruct (validate_res_atom_numbers_gen l) as [[rn an]|e]; [|reflexivity]. cbn [bind fst snd].
  change (10 - 5) with 5. change (15 - 10) with 5.
  replace (20 + w - 20) with w by lia.
  replace (20 + 2 * w - (20 + w)) with w by lia.
  replace (20 + 3 * w - (20 + 2 * w)) with w by lia.
  replace (20 + 4 * w - (20 + 3 * w)) with w by lia.
  replace (20 + 5 * w - (20 + 4 * w)) with w by lia.
  replace (20 + 6 * w - (20 + 5 * w)) with w by lia.
  destruct vel; cbn [chop_fields chop mapM]; rewrite !skipn_skipn';
    replace (20 + w + w) with (20 + 2 * w) by lia;
    try (replace (20 + 2 * w + w) with (20 + 3 * w) by lia);
    try (replace (20 + 3 * w + w) with (20 + 4 * w) by lia);
    try (replace (20 + 4 * w + w) with (20 + 5 * w) by lia);
    repeat (match goal with |- context [parse_float ?x] =>
              destruct (parse_float x); cbn [bind]; [|reflexivity] end);
    reflexivity.
Qed.

Lemma parse_atomline_gen_eq (line : bytes) (w d : nat) (vel : bool) :
  parse_atomline_gen line (w, d, vel) = rmap atom_view (parse_atomline (w, vel) line).
Proof.
  unfold parse_atomline_gen, parse_atomline.
  destruct line as [|c0 l0]; [reflexivity|].
  rewrite parse_atomline_body_uses_gen. unfold py_last, drop_final_nl.
  destruct (rev (c0 :: l0)) as [|c r] eqn:Hrev.
  { apply (f_equal (@length _)) in Hrev. rewrite rev_length in Hrev. discriminate. }
  destruct (last_removelast_rev _ _ _ Hrev) as [Hlast Hrem]. rewrite Hlast, Hrem. cbn [bind fst snd].
  exact (atomline_tail (if Ascii.eqb c NL then rev r else c0 :: l0) w vel).
Qed.
