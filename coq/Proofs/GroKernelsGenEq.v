(* Second tie (DESIGN.md 4.6) for the text kernels of gaddlemaps/parsers/__init__.py:
   the definitions that harness/pytrans_str.py regenerates from the CURRENT source text at every run
   (Gen/GroKernelsGen.v) are proved equal to the hand-written model of Model/GroCodec.v. *)
From Coq Require Import List Ascii NArith ZArith Bool Arith Lia.
From GM Require Import Base.Res Base.StrGro Gen.SrcConsts Gen.GroKernelsGen Model.GroCodec.
Import ListNotations.

(* ---------------------------------------------------------------- validate_string *)
Lemma validate_string_gen_eq (s : bytes) : validate_string_gen s = Ok (validate_string s).
Proof.
  unfold validate_string_gen, validate_string, zlen.
  rewrite Z.gtb_ltb.
  destruct (Nat.ltb_spec 5 (length s)) as [H|H];
    destruct (Z.ltb_spec 5 (Z.of_nat (length s))) as [H'|H']; try lia; reflexivity.
Qed.

(* ---------------------------------------------------------------- _validate_res_atom_numbers *)
Definition res_atom_numbers (l : bytes) : res (Z * Z) :=
  let* a := io_of_value (py_int (firstn 5 l)) in
  let* b := io_of_value (py_int (firstn 5 (skipn 15 l))) in
  Ok (a, b).

Lemma validate_res_atom_numbers_gen_eq (l : bytes) :
  validate_res_atom_numbers_gen l = res_atom_numbers l.
Proof.
  unfold validate_res_atom_numbers_gen, res_atom_numbers, on_value_error, io_of_value.
  change (20 - 15) with 5.
  destruct (py_int (firstn 5 l)) as [a|[]]; try reflexivity.
Qed.

Lemma skipn_skipn' {A} (a b : nat) (l : list A) : skipn a (skipn b l) = skipn (b + a) l.
Proof.
  revert l; induction b as [|b IH]; intros l; [reflexivity|].
  destruct l as [|x r]; [destruct a; reflexivity|]. simpl. apply IH.
Qed.

(* the reader's line parser calls exactly that function on the line without its final newline,
   and takes the names from columns 5-10 and 10-15 and the numbers from column 20 on *)
Lemma parse_atomline_body_uses_gen (fmt : nat * bool) (line : bytes) :
  parse_atomline_body fmt line =
  (let (w, vel) := fmt in
   let l := drop_final_nl line in
   if negb (length l =? 20 + w * 3 * (1 + (if vel then 1 else 0))) then Err EIO else
   let* nums := validate_res_atom_numbers_gen l in
   let* vals := mapM parse_float (chop_fields (if vel then 6 else 3) w (skipn 20 l)) in
   Ok (mkratom (fst nums) (strip_py (firstn 5 (skipn 5 l))) (strip_py (firstn 5 (skipn 10 l))) (snd nums) vals)).
Proof.
  destruct fmt as [w vel]. cbv zeta. rewrite validate_res_atom_numbers_gen_eq.
  unfold parse_atomline_body, res_atom_numbers, chop. cbv zeta.
  destruct (negb _); [reflexivity|].
  rewrite !skipn_skipn'. cbn [Nat.add].
  destruct (io_of_value (py_int (firstn 5 (drop_final_nl line)))) as [a|e]; [|reflexivity].
  cbn [bind].
  destruct (io_of_value (py_int (firstn 5 (skipn 15 (drop_final_nl line))))) as [b|e]; reflexivity.
Qed.

(* ---------------------------------------------------------------- determine_format *)
Lemma count_char_le c l : count_char c l <= length l.
Proof. induction l as [|x r IH]; simpl; [lia|]. destruct (Ascii.eqb x c); lia. Qed.

Lemma last_removelast_rev (l : bytes) c r : rev l = c :: r -> last_opt l = Some c /\ removelast l = rev r.
Proof.
  intros H. split.
  - unfold last_opt. rewrite H. reflexivity.
  - assert (Hl : l = rev r ++ [c]) by (rewrite <- (rev_involutive l), H; reflexivity).
    rewrite Hl. apply removelast_last.
Qed.

Lemma zdiv_nat a b k : k <> 0 -> b <= a ->
  zdiv (Z.of_nat a - Z.of_nat b) (Z.of_nat k) = Ok (Z.of_nat ((a - b) / k)).
Proof.
  intros Hk Hab. unfold zdiv. destruct (Z.eqb_spec (Z.of_nat k) 0) as [E|E]; [lia|].
  f_equal. rewrite <- Nat2Z.inj_sub by lia. symmetry. apply Nat2Z.inj_div.
Qed.

Definition fmt_view (p : nat * bool) : Z * Z * bool := (Z.of_nat (fst p), (Z.of_nat (fst p) - 5)%Z, snd p).

Lemma determine_format_tail (l : bytes) :
  (let size := zlen l in
   if negb (zcount NL l =? 0)%Z then Err EValue else
   let ndots := zcount "."%char (skipn COORD_START l) in
   let* velocities := (if (ndots =? 3)%Z then Ok false else if (ndots =? 6)%Z then Ok true else Err EIO) in
   let* q := zdiv (size - Z.of_nat COORD_START)%Z ndots in
   let nfigures := q in
   if negb (size =? Z.of_nat COORD_START + ndots * nfigures)%Z then Err EIO else
   let ndecimals := (nfigures - 5)%Z in
   Ok (nfigures, ndecimals, velocities)) =
  rmap fmt_view
   (let size := length l in
    if negb (count_char NL l =? 0) then Err EValue else
    let ndots := count_char "."%char (skipn COORD_START l) in
    let* vel := (if ndots =? 3 then Ok false else if ndots =? 6 then Ok true else Err EIO) in
    let nfig := (size - COORD_START) / ndots in
    if negb (size =? COORD_START + ndots * nfig) then Err EIO else
    Ok (nfig, vel)).
Proof.
  cbv zeta. unfold zlen, zcount.
  destruct (Nat.eqb_spec (count_char NL l) 0) as [H0|H0];
    destruct (Z.eqb_spec (Z.of_nat (count_char NL l)) 0) as [H0'|H0']; try lia; [|reflexivity].
  cbn [negb].
  assert (Hle : count_char "."%char (skipn COORD_START l) <= length l - COORD_START)
    by (rewrite <- skipn_length; apply count_char_le).
  set (n := count_char "."%char (skipn COORD_START l)) in *.
  destruct (Nat.eqb_spec n 3) as [H3|H3]; destruct (Z.eqb_spec (Z.of_nat n) 3) as [H3'|H3']; try lia.
  - rewrite H3 in *. cbn [bind]. rewrite zdiv_nat by lia. cbn [bind].
    set (q := (length l - COORD_START) / 3).
    destruct (Nat.eqb_spec (length l) (COORD_START + 3 * q)) as [Hq|Hq];
      destruct (Z.eqb_spec (Z.of_nat (length l)) (Z.of_nat COORD_START + Z.of_nat 3 * Z.of_nat q)) as [Hq'|Hq'];
      try lia; reflexivity.
  - destruct (Nat.eqb_spec n 6) as [H6|H6]; destruct (Z.eqb_spec (Z.of_nat n) 6) as [H6'|H6']; try lia;
      [|reflexivity].
    rewrite H6 in *. cbn [bind]. rewrite zdiv_nat by lia. cbn [bind].
    set (q := (length l - COORD_START) / 6).
    destruct (Nat.eqb_spec (length l) (COORD_START + 6 * q)) as [Hq|Hq];
      destruct (Z.eqb_spec (Z.of_nat (length l)) (Z.of_nat COORD_START + Z.of_nat 6 * Z.of_nat q)) as [Hq'|Hq'];
      try lia; reflexivity.
Qed.

Lemma determine_format_gen_eq (line : bytes) :
  determine_format_gen line = rmap fmt_view (determine_format line).
Proof.
  unfold determine_format_gen, determine_format.
  destruct line as [|c0 l0]; [reflexivity|].
  unfold determine_format_body, py_last, drop_final_nl.
  destruct (rev (c0 :: l0)) as [|c r] eqn:Hrev.
  - apply (f_equal (@length _)) in Hrev. rewrite rev_length in Hrev. discriminate.
  - destruct (last_removelast_rev _ _ _ Hrev) as [Hlast Hrem]. rewrite Hlast. cbn [bind].
    rewrite Hrem. destruct (Ascii.eqb c NL); apply determine_format_tail.
Qed.

(* ---------------------------------------------------------------- literal constants *)
Lemma wrap_is_source : WRAP = WRAP_RESNUM_GEN /\ WRAP = WRAP_ATOMNUM_GEN.
Proof. split; reflexivity. Qed.

(* the box line: dump_lattice_gro reorders the nine row-major entries by the index tuple of the source
   (new_vector[i] = vectors[index[i]]) and prints 3 or 9 of them; extract_lattice_gro scatters the numbers of
   the line by the index tuple of the source (vectors[index[i]] = num_i, zip stopping at the shorter) *)
Lemma dump_lattice_uses_index (box : list bentry) : length box = 9 ->
  dump_lattice_gro box =
  (let nv := map (fun i => nth i box bzero) LATTICE_INDEX_DUMP_GEN in
   let lim := if existsb b_nz (skipn 3 nv) then 9 else 3 in
   Ok (join_sp (map (fun e => fmt_f BOX_W BOX_D (b_dec e)) (firstn lim nv)))).
Proof.
  intros H. do 9 (destruct box as [|? box]; [discriminate H|]). destruct box; [|discriminate H].
  unfold dump_lattice_gro, LATTICE_INDEX_DUMP_GEN. cbv zeta. cbn [map nth skipn].
  destruct (existsb _ _); reflexivity.
Qed.

Fixpoint upd {A} (l : list A) (i : nat) (x : A) : list A :=
  match l, i with
  | [], _ => []
  | _ :: r, O => x :: r
  | y :: r, S i' => y :: upd r i' x
  end.
Definition scatter {A} (z : A) (idx : list nat) (vals : list A) : list A :=
  fold_left (fun acc p => upd acc (fst p) (snd p)) (combine idx vals) (repeat z 9).

Lemma extract_lattice_uses_index (line : bytes) :
  extract_lattice_gro line =
  (let* vals := mapM parse_float (firstn 9 (split_ws line)) in
   Ok (scatter pzero LATTICE_INDEX_EXTRACT_GEN vals)).
Proof.
  unfold extract_lattice_gro.
  destruct (mapM parse_float (firstn 9 (split_ws line))) as [vals|e] eqn:E; [|reflexivity].
  apply mapM_length in E. pose proof (firstn_le_length 9 (split_ws line)) as Hle.
  set (m := length (firstn 9 (split_ws line))) in *. clearbody m.
  cbn [bind].
  do 10 (destruct vals as [|? vals]; [reflexivity|]).
  cbn [length] in E. lia.
Qed.

(* concrete lines for the non-vacuity examples of Props/C13.v *)
Module GenExamples.
  Import Coq.Strings.String.
  Local Open Scope string_scope.
  Definition ex_line_novel : bytes := bs "    1SOL     OW    1   0.126   1.624   1.679".
  Definition ex_line_nums : bytes := bs "   12SOL     OW   34   0.126".
  Definition ex_line_badnum : bytes := bs "   1xSOL     OW   34   0.126".
End GenExamples.
