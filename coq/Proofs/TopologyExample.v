(* A concrete decorated text that satisfies the hypotheses of C15_parse_render (non-vacuity):
   gapped numbering 7, 12, 40; bonds over three sections, [ pairs ] BEFORE the atoms; comment, blank and
   preprocessor lines; integer spellings +12 and 4_0; a comment glued to the moleculetype fields. *)
From Coq Require Import List Ascii String Bool Arith Lia ZArith.
From GM Require Import Base.Res Base.StrItp Model.Itp Model.Topology Proofs.ItpSpec Proofs.ItpCore Proofs.TopologyParse.
Import ListNotations.
Local Open Scope string_scope.

Definition nl : string := String (ascii_of_nat 10) EmptyString.

Definition ex_text : str := la (
  "; generated" ++ nl ++ "[ pairs ]" ++ nl ++ "40 7 1" ++ nl ++
  "[moleculetype]  ; stable" ++ nl ++ "; name nrexcl" ++ nl ++ "M-1 3;c" ++ nl ++
  "[ atoms ]" ++ nl ++ "  7 C 1 RES C1 7 0.0 12.0" ++ nl ++ " 12 C 1 RES C2 +12 ; q" ++ nl ++ nl ++
  "#ifdef X" ++ nl ++ " 40 H 2 RES H1 4_0 -0.5" ++ nl ++ "#endif" ++ nl ++
  "[ constraints ]" ++ nl ++ "12   40" ++ nl ++ "[ angles ]" ++ nl ++ "7 12 40 2" ++ nl ++
  "[ bonds ]" ++ nl ++ "7 12 1;c" ++ nl ++ "[ atoms ]" ++ nl ++ "; second occurrence, nothing new")%string.

Definition ex_topo : topo_spec :=
  {| ts_name := la "M-1";
     ts_atoms := [ {| as_nr := 7; as_name := la "C1"; as_resname := la "RES"; as_resid := 1 |};
                   {| as_nr := 12; as_name := la "C2"; as_resname := la "RES"; as_resid := 1 |};
                   {| as_nr := 40; as_name := la "H1"; as_resname := la "RES"; as_resid := 2 |} ];
     ts_cons := [(12, 40)%Z]; ts_bonds := [(7, 12)%Z]; ts_pairs := [(40, 7)%Z] |}.

Ltac float_goal := unfold float_at; intros x E; simpl in E; (discriminate E || (inversion E; subst; reflexivity)).
Ltac atom_goal := unfold atom_line_ok; do 6 eexists; split; [reflexivity|];
  split; [vm_compute; reflexivity|]; split; [vm_compute; reflexivity|]; split; [vm_compute; reflexivity|];
  split; float_goal.
Ltac bond_goal := unfold bond_line_ok; do 3 eexists; split; [reflexivity|];
  split; [vm_compute; reflexivity|]; split; [vm_compute; reflexivity|];
  intros x E; simpl in E; (discriminate E || (inversion E; subst; eexists; vm_compute; reflexivity)).

Lemma ex_denotes : file_denotes (lines ex_text) ex_topo.
Proof.
  unfold file_denotes. split; [apply no_header_secb_ok; vm_compute; reflexivity|].
  split.
  { intros n H. vm_compute in H.
    repeat (destruct H as [H|H]; [subst n; vm_compute; tauto|]). contradiction. }
  split; [vm_compute; tauto|]. split; [vm_compute; tauto|].
  split.
  { let v := eval vm_compute in (content_toks s_moleculetype (lines ex_text)) in
      change (content_toks s_moleculetype (lines ex_text)) with v.
    do 2 eexists. split; [reflexivity|]. split; [|constructor].
    unfold mol_line_ok. do 3 eexists. split; [reflexivity|]. split; [vm_compute; reflexivity | lia]. }
  split.
  { let v := eval vm_compute in (content_toks s_atoms (lines ex_text)) in
      change (content_toks s_atoms (lines ex_text)) with v.
    simpl. repeat (constructor; [atom_goal|]). constructor. }
  split.
  { let v := eval vm_compute in (content_toks s_constraints (lines ex_text)) in
      change (content_toks s_constraints (lines ex_text)) with v.
    simpl. repeat (constructor; [bond_goal|]). constructor. }
  split.
  { let v := eval vm_compute in (content_toks s_bonds (lines ex_text)) in
      change (content_toks s_bonds (lines ex_text)) with v.
    simpl. repeat (constructor; [bond_goal|]). constructor. }
  { let v := eval vm_compute in (content_toks s_pairs (lines ex_text)) in
      change (content_toks s_pairs (lines ex_text)) with v.
    simpl. repeat (constructor; [bond_goal|]). constructor. }
Qed.

Lemma ex_side : ts_atoms ex_topo <> [] /\ NoDup (map as_nr (ts_atoms ex_topo)) /\
  (forall b, In b (ts_cons ex_topo ++ ts_bonds ex_topo ++ ts_pairs ex_topo) ->
     In (fst b) (map as_nr (ts_atoms ex_topo)) /\ In (snd b) (map as_nr (ts_atoms ex_topo))).
Proof.
  split; [discriminate|]. split.
  - simpl. repeat constructor; simpl; intuition discriminate.
  - simpl. intros b [H|[H|[H|[]]]]; subst b; simpl; intuition.
Qed.

(* and what the model computes on it: constraints first, then bonds, then pairs, as 0-based positions *)
Lemma ex_value : read_topology ex_text =
  Ok (la "M-1", [(la "C1", la "RES", 1%Z); (la "C2", la "RES", 1%Z); (la "H1", la "RES", 2%Z)], [(1, 2); (0, 1); (2, 0)]).
Proof. vm_compute. reflexivity. Qed.
