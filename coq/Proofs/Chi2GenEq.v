(* Second tie for the evaluating methods of Chi2Calculator: the definitions generated from the current
   source text (Gen/Chi2Gen.v, harness/pytrans_arr.py) equal the model definitions of Model/Chi2.v,
   for every Scalar instance and every calculator state. *)
From Coq Require Import ZArith List.
From GM Require Import Base.Res Base.Scalar Base.Vec Model.Chi2 Gen.Chi2Gen.
Import ListNotations.
Local Open Scope scalar_scope.

Section Eq.
Context {T : Type} `{Scalar T}.

Lemma chi2_molecules_gen_eq (c : chi2_calc T) (mobile : list (V3 T)) :
  chi2_molecules_gen (c_mol1 c) mobile = chi2_none c mobile.
Proof.
  unfold chi2_molecules_gen, chi2_none, chi2_none_k, penal, eleven_tenths.
  destruct (row_mins (dist_rows (c_mol1 c) mobile) (length mobile)); reflexivity.
Qed.

Lemma restrains_contrib_gen_eq (c : chi2_calc T) (mobile : list (V3 T)) :
  restrains_contrib_gen (c_mol1_r c) (c_restr2 c) mobile = restr_contrib c mobile.
Proof.
  unfold restrains_contrib_gen, restr_contrib.
  destruct (gather mobile (c_restr2 c)); reflexivity.
Qed.

Lemma only_restrains_gen_eq (c : chi2_calc T) (mobile : list (V3 T)) :
  only_restrains_gen (c_mol1_r c) (c_restr2 c) (c_fact c) mobile = chi2_only c mobile.
Proof.
  unfold only_restrains_gen, chi2_only, chi2_only_k. rewrite restrains_contrib_gen_eq.
  destruct (restr_contrib c mobile); reflexivity.
Qed.

Lemma with_restrains_gen_eq (c : chi2_calc T) (mobile : list (V3 T)) :
  with_restrains_gen (c_mol1_r c) (c_restr2 c) (c_notr c) (c_set2 c) (Z.of_nat (c_len2 c)) mobile
  = chi2_with c mobile.
Proof.
  unfold with_restrains_gen, chi2_with, chi2_with_k, penal, eleven_tenths. rewrite restrains_contrib_gen_eq.
  destruct (restr_contrib c mobile); [|reflexivity]. cbn [bind].
  destruct (row_mins (dist_rows (c_notr c) mobile) (length mobile)); reflexivity.
Qed.

End Eq.
