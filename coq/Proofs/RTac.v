(* Tactics to turn Scalar-polymorphic terms at R into plain real arithmetic *)
From Coq Require Export Reals Lra Lia ZArith List.
From GM Require Export Base.Res Base.Scalar Base.Vec Inst.RInst.

Ltac runfold :=
  cbv [sadd ssub smul sdiv sopp ssqrt s0 s1 sofZ sofQ RScalar
       vzero vadd vsub vscale vscaler vdivs vneg vdot vnorm2 vnorm vcross vdist2 vdist
       mcol0 mcol1 mcol2 mtrans mvec vecm mmul mid madd msub mscale mdet mtrace mouter
       vx vy vz r0 r1 r2] in *.

Lemma V3_eq (a b : V3 R) : vx a = vx b -> vy a = vy b -> vz a = vz b -> a = b.
Proof. destruct a, b; simpl; intros; subst; reflexivity. Qed.

Lemma M3_eq (a b : M3 R) : r0 a = r0 b -> r1 a = r1 b -> r2 a = r2 b -> a = b.
Proof. destruct a, b; simpl; intros; subst; reflexivity. Qed.

Lemma seqb_R x y : (@seqb R RScalar x y) = true <-> x = y.
Proof. apply Reqb'_true. Qed.
Lemma seqb_R_false x y : (@seqb R RScalar x y) = false <-> x <> y.
Proof. apply Reqb'_false. Qed.
Lemma sleb_R x y : (@sleb R RScalar x y) = true <-> (x <= y)%R.
Proof. apply Rleb_true. Qed.
Lemma sleb_R_false x y : (@sleb R RScalar x y) = false <-> (y < x)%R.
Proof. apply Rleb_false. Qed.
Lemma sltb_R x y : (@sltb R RScalar x y) = true <-> (x < y)%R.
Proof. apply Rltb_true. Qed.
Lemma sltb_R_false x y : (@sltb R RScalar x y) = false <-> (y <= x)%R.
Proof. apply Rltb_false. Qed.

Lemma sumsq3_pos (a b c : R) : (a, b, c) <> (0, 0, 0)%R -> (0 < a*a + b*b + c*c)%R.
Proof.
  intros Hne.
  destruct (Req_dec a 0) as [Ha|Ha]; [destruct (Req_dec b 0) as [Hb|Hb]; [destruct (Req_dec c 0) as [Hc|Hc]|]|].
  - subst; contradiction Hne; reflexivity.
  - nra.
  - nra.
  - nra.
Qed.

Lemma vnorm2_pos (v : V3 R) : v <> vzero -> (0 < vnorm2 v)%R.
Proof.
  destruct v as [a b c]; intros Hne; runfold.
  apply sumsq3_pos; intros E; inversion E; subst; apply Hne; reflexivity.
Qed.

Lemma vnorm_pos (v : V3 R) : v <> vzero -> (0 < vnorm v)%R.
Proof. intros Hne; unfold vnorm; apply sqrt_lt_R0; apply vnorm2_pos; assumption. Qed.

Lemma vnorm_sq (v : V3 R) : (vnorm v * vnorm v = vnorm2 v)%R.
Proof. unfold vnorm. apply sqrt_sqrt. destruct v as [a b c]; runfold; nra. Qed.
