(* Round-half-even on the reals (sround at T := R is IZR (ZnearestE x), Flocq.Core):
   the facts about np.round that the periodic distance relies on. *)
From Coq Require Import Reals Lra Lia ZArith.
From Flocq Require Import Core.Raux Core.Generic_fmt Core.Round_NE.
From GM Require Import Base.Scalar Inst.RInst.
Local Open Scope R_scope.

Definition rnd (x : R) : R := IZR (ZnearestE x).

Lemma sround_R x : @sround R RScalar x = rnd x.
Proof. reflexivity. Qed.

(* x is not exactly half-way between two integers *)
Definition not_half (x : R) : Prop := forall k : Z, x <> IZR k + /2.

Lemma rnd_half x : Rabs (x - rnd x) <= /2.
Proof. apply Znearest_half. Qed.

Lemma rnd_IZR (n : Z) : rnd (IZR n) = IZR n.
Proof.
  unfold rnd. f_equal. apply Znearest_imp.
  replace (IZR n - IZR n) with 0 by ring. rewrite Rabs_R0. lra.
Qed.

(* the rounded value is a nearest integer: no integer is closer *)
Lemma rnd_nearest x (m : Z) : Rabs (x - rnd x) <= Rabs (x - IZR m).
Proof.
  unfold rnd. set (n := ZnearestE x).
  pose proof (Znearest_half (fun t => negb (Z.even t)) x) as Hh. fold n in Hh.
  destruct (Z.eq_dec m n) as [E|NE]; [subst; lra|].
  apply Rabs_le_inv in Hh.
  assert (Hc : (m <= n - 1)%Z \/ (n + 1 <= m)%Z) by lia.
  destruct Hc as [Hc|Hc]; apply IZR_le in Hc;
    [rewrite minus_IZR in Hc | rewrite plus_IZR in Hc];
    unfold Rabs; destruct (Rcase_abs (x - IZR n)); destruct (Rcase_abs (x - IZR m)); lra.
Qed.

Lemma ZnearestE_opp x : ZnearestE (- x) = (- ZnearestE x)%Z.
Proof.
  rewrite Znearest_opp. f_equal.
  unfold Znearest. destruct (Rcompare (x - IZR (Zfloor x)) (/ 2)); try reflexivity.
  rewrite Bool.negb_involutive, Z.even_opp, Z.add_1_r, Z.even_succ, <- Z.negb_even.
  reflexivity.
Qed.

(* np.round(-x) = -np.round(x), ties included *)
Lemma rnd_opp x : rnd (- x) = - rnd x.
Proof. unfold rnd. rewrite ZnearestE_opp, opp_IZR. reflexivity. Qed.

Lemma not_half_floor x : not_half x -> x - IZR (Zfloor x) <> /2.
Proof. intros H E. apply (H (Zfloor x)). lra. Qed.

(* shifting by an integer commutes with rounding, away from the ties *)
Lemma rnd_plus_Z x (n : Z) : not_half x -> rnd (x + IZR n) = rnd x + IZR n.
Proof.
  intros Hx. unfold rnd. rewrite <- plus_IZR. f_equal.
  apply Znearest_imp. rewrite plus_IZR.
  replace (x + IZR n - (IZR (ZnearestE x) + IZR n)) with (x - IZR (ZnearestE x)) by ring.
  apply Znearest_N_strict. apply not_half_floor; assumption.
Qed.

(* ... and it does NOT at a tie when the shift is odd: round(1/2) = 0 but round(3/2) = 2 *)
Lemma rnd_tie_example : rnd (/2) = 0 /\ rnd (/2 + 1) = 2.
Proof.
  assert (F0 : Zfloor (/2) = 0%Z) by (apply Zfloor_imp; simpl; lra).
  assert (F1 : Zfloor (/2 + 1) = 1%Z) by (apply Zfloor_imp; simpl; lra).
  split; unfold rnd, Znearest.
  - rewrite F0. rewrite Rcompare_Eq by (simpl; lra). simpl. reflexivity.
  - rewrite F1. rewrite Rcompare_Eq by (simpl; lra). simpl.
    unfold Zceil. replace (- (/2 + 1)) with (- (3/2)) by lra.
    assert (F2 : Zfloor (- (3/2)) = (-2)%Z) by (apply Zfloor_imp; simpl; lra).
    rewrite F2. reflexivity.
Qed.

Lemma rnd_small x : Rabs x < /2 -> rnd x = 0.
Proof.
  intros H. unfold rnd. replace 0 with (IZR 0) by reflexivity. f_equal.
  apply Znearest_imp. simpl. rewrite Rminus_0_r. assumption.
Qed.

Lemma rnd_near x (n : Z) : Rabs (x - IZR n) < /2 -> rnd x = IZR n.
Proof. intros H. unfold rnd. f_equal. apply Znearest_imp. assumption. Qed.
