(* Second tie (DESIGN.md 4.6) for the offset generator SystemGro._molecules_ordered_all_gen of
   gaddlemaps/components/_system.py: the accumulator loops that harness/pytrans_gen.py regenerates from the CURRENT
   source text at every run (Gen/SysGen.v) yield exactly the list of the hand-written model (Model/SystemGro.v,
   entries_from), for every template list, every run-length list and every starting offset. *)
From Coq Require Import List Arith Lia.
From GM Require Import Base.Res Gen.SysGen Model.SystemGro.
Import ListNotations.

Lemma inner_is_emit_run k idx len start out :
  all_gen_inner k idx len start out = (start + k * len, out ++ emit_run idx len k start).
Proof.
  revert start out; induction k as [|k IH]; intros start out; cbn [all_gen_inner emit_run].
  - rewrite app_nil_r. f_equal. lia.
  - rewrite IH. rewrite <- app_assoc. cbn [app]. f_equal. lia.
Qed.

Lemma nth_res_map_length (tpl : list residue) idx :
  nth_res (map (@length _) tpl) idx = rmap (@length _) (nth_res tpl idx).
Proof.
  unfold nth_res. revert idx; induction tpl as [|t tpl IH]; intros [|idx]; cbn [map nth_error]; try reflexivity. apply IH.
Qed.

Lemma outer_is_entries_from (tpl : list residue) pairs : forall start out,
  all_gen_outer (map (@length _) tpl) pairs start out = rmap (app out) (entries_from tpl pairs start).
Proof.
  induction pairs as [|[idx c] t IH]; intros start out; cbn [all_gen_outer entries_from].
  - cbn [rmap]. rewrite app_nil_r. reflexivity.
  - rewrite nth_res_map_length. destruct (nth_res tpl idx) as [tp|e]; [|reflexivity]. cbn [rmap bind].
    rewrite inner_is_emit_run. cbn [fst snd]. rewrite IH.
    destruct (entries_from tpl t (start + c * length tp)) as [rest|e]; [|reflexivity].
    cbn [rmap bind]. rewrite app_assoc. reflexivity.
Qed.

Theorem molecules_ordered_all_gen_eq (s : sysgro) :
  molecules_ordered_all_gen (map (@length _) (s_templates s)) (s_ordered s) = entries s.
Proof.
  unfold molecules_ordered_all_gen, entries. rewrite outer_is_entries_from.
  destruct (entries_from (s_templates s) (s_ordered s) 0); reflexivity.
Qed.
