(* C14, byte level: every prefix of a complete file that ends at or before the start of the box
   line is rejected by the reader. *)
From Coq Require Import List Ascii NArith ZArith Bool Arith Lia.
From GM Require Import Base.Res Base.StrGro Gen.SrcConsts Model.GroCodec Model.GroFile
  Proofs.GroStr Proofs.GroCodecP Proofs.GroReadP Proofs.GroWriteP Proofs.GroMain.
Import ListNotations.
Local Open Scope nat_scope.

Lemma firstn_app_le {A} (a b : list A) k : k <= length a -> firstn k (a ++ b) = firstn k a.
Proof. intros H. rewrite firstn_app. replace (k - length a) with 0 by lia. simpl. apply app_nil_r. Qed.
Lemma firstn_app_ge {A} (a b : list A) k : length a <= k -> firstn k (a ++ b) = a ++ firstn (k - length a) b.
Proof. intros H. rewrite firstn_app. rewrite firstn_all2 by assumption. reflexivity. Qed.

Lemma no_nl_firstn l m : no_nl l -> no_nl (firstn m l).
Proof.
  unfold no_nl. revert m; induction l; intros m H; destruct m; simpl in *; try reflexivity.
  apply andb_true_iff in H as [H1 H2]. rewrite H1. simpl. auto.
Qed.

Lemma readline_at_partial a l : no_nl l -> readline_at (a ++ l) (length a) = (l, length a + length l).
Proof. intros H. unfold readline_at. rewrite skipn_app_exact by reflexivity. rewrite take_line_all by assumption. reflexivity. Qed.
Lemma readline_at_end f : readline_at f (length f) = ([], length f).
Proof. apply readline_at_eof. lia. Qed.

(* determine_format never answers "outside the model" *)
Lemma determine_format_err line e : determine_format line = Err e -> e <> EType.
Proof.
  unfold determine_format. destruct line as [|c l]; [intros H; inversion H; discriminate|].
  unfold determine_format_body.
  destruct (negb _); [intros H; inversion H; discriminate|].
  destruct (_ =? 3); cbn [bind].
  - destruct (negb _); intros H; inversion H; discriminate.
  - destruct (_ =? 6); cbn [bind].
    + destruct (negb _); intros H; inversion H; discriminate.
    + intros H; inversion H; discriminate.
Qed.

Definition rejected (r : res rresult) : Prop := exists e, r = Err e /\ e <> EType.

(* the ways load fails, in terms of the three header lines it reads *)
Section LoadErr.
  Variable f : bytes.
  Variables (comment cl first : bytes) (p1 p2 p3 : nat).
  Hypothesis R1 : readline_at f 0 = (comment, p1).
  Hypothesis R2 : readline_at f p1 = (cl, p2).
  Hypothesis R3 : readline_at f p2 = (first, p3).

  Lemma rej_comment : comment = [] -> rejected (read_gro f).
  Proof. intros E. unfold read_gro, load. rewrite R1, E. exists EIO. split; [reflexivity|discriminate]. Qed.

  Lemma rej_count : comment <> [] -> (forall n, py_int cl <> Ok n) -> rejected (read_gro f).
  Proof.
    intros Hc Hn. unfold read_gro, load. rewrite R1.
    destruct comment; [contradiction|]. cbn [isnil]. rewrite R2.
    destruct (py_int cl) as [n|e]; [exfalso; apply (Hn n); reflexivity|].
    exists EIO. split; [reflexivity|discriminate].
  Qed.

  Lemma rej_first n : comment <> [] -> py_int cl = Ok n -> first = [] -> rejected (read_gro f).
  Proof.
    intros Hc Hn Hf. unfold read_gro, load. rewrite R1.
    destruct comment; [contradiction|]. cbn [isnil]. rewrite R2, Hn, R3, Hf.
    exists EIndex. split; [reflexivity|discriminate].
  Qed.

  Lemma rej_seek n : comment <> [] -> py_int cl = Ok n ->
    (0 <= Z.of_nat p2 + n * Z.of_nat (p3 - p2) < SEEK_LIMIT)%Z ->
    (Z.of_nat (length f) <= Z.of_nat p2 + n * Z.of_nat (p3 - p2))%Z ->
    rejected (read_gro f).
  Proof.
    intros Hc Hn [Hlo Hhi] Hlen. unfold read_gro, load. rewrite R1.
    destruct comment; [contradiction|]. cbn [isnil]. rewrite R2, Hn, R3.
    destruct (determine_format first) as [fmt|e] eqn:Ef; cbn [bind].
    - assert (H0 : (Z.of_nat p2 + n * Z.of_nat (p3 - p2) <? 0)%Z = false) by (apply Z.ltb_ge; lia).
      assert (H1 : (SEEK_LIMIT <=? Z.of_nat p2 + n * Z.of_nat (p3 - p2))%Z = false) by (apply Z.leb_gt; lia).
      assert (H2 : (Z.of_nat (length f) <=? Z.of_nat p2 + n * Z.of_nat (p3 - p2))%Z = true) by (apply Z.leb_le; lia).
      rewrite H0, H1, H2. exists EIO. split; [reflexivity|discriminate].
    - exists e. split; [reflexivity|]. eapply determine_format_err; eassumption.
  Qed.
End LoadErr.

Lemma py_int_nil_err : forall n, py_int [] <> Ok n.
Proof. intros n. vm_compute. discriminate. Qed.

Section Prefix.
  Variables (title count l0 : bytes) (rest : list bytes) (L : nat).
  Hypothesis Htnl : no_nl title.
  Hypothesis Hcnl : no_nl count.
  Let lines := l0 :: rest.
  Let N := length lines.
  Hypothesis Hcount : py_int (count ++ [NL]) = Ok (Z.of_nat N).
  Hypothesis Hlines : Forall (fun l => length l = L /\ no_nl l) lines.

  Let hdr := title ++ [NL] ++ count ++ [NL].
  Let pre := hdr ++ body_of lines.
  Let t := length title.
  Let init := length hdr.
  Hypothesis Hlim : (Z.of_nat (length pre) < SEEK_LIMIT)%Z.

  Lemma init_eq : init = t + 1 + (length count + 1).
  Proof. unfold init, hdr, t. rewrite !app_length. simpl. lia. Qed.
  Lemma pre_len : length pre = init + N * (L + 1).
  Proof.
    unfold pre. rewrite app_length. fold init. f_equal.
    apply body_of_length. eapply Forall_impl; [|exact Hlines]. simpl; tauto.
  Qed.
  Lemma l0_props : length l0 = L /\ no_nl l0.
  Proof. inversion Hlines; assumption. Qed.

  Lemma tnl_nonnil : title ++ [NL] <> [].
  Proof. destruct title; discriminate. Qed.

  Lemma prefix_rejected k : k <= length pre -> rejected (read_gro (firstn k pre)).
  Proof.
    intros Hk. pose proof init_eq as Hinit. pose proof pre_len as Hpre. destruct l0_props as [HL0 Hl0nl].
    assert (HN : 1 <= N) by (unfold N, lines; simpl; lia).
    destruct (le_lt_dec k t) as [H1|H1].
    - (* inside the title *)
      set (tk := firstn k title).
      assert (Ep : firstn k pre = tk).
      { unfold pre, hdr. rewrite <- !app_assoc. apply firstn_app_le. exact H1. }
      rewrite Ep.
      assert (Htk : no_nl tk) by (apply no_nl_firstn; assumption).
      assert (R1 : readline_at tk 0 = (tk, length tk)).
      { change tk with ([] ++ tk) at 1. change 0 with (length (@nil ascii)).
        rewrite readline_at_partial by assumption. reflexivity. }
      destruct tk as [|x tk'] eqn:Etk.
      + eapply rej_comment; [exact R1|reflexivity].
      + eapply rej_count; [exact R1|apply readline_at_end|discriminate|apply py_int_nil_err].
    - destruct (le_lt_dec init k) as [H2|H2].
      + (* title and count lines complete *)
        set (m := k - init).
        set (bk := firstn m (body_of lines)).
        assert (Ep : firstn k pre = hdr ++ bk).
        { unfold pre. rewrite firstn_app_ge by (fold init; lia). reflexivity. }
        rewrite Ep.
        assert (R1 : readline_at (hdr ++ bk) 0 = (title ++ [NL], t + 1)).
        { unfold hdr. change 0 with (length (@nil ascii)).
          replace ((title ++ [NL] ++ count ++ [NL]) ++ bk) with ([] ++ title ++ NL :: (count ++ [NL] ++ bk))
            by (rewrite <- !app_assoc; reflexivity).
          rewrite readline_at_app by assumption. reflexivity. }
        assert (R2 : readline_at (hdr ++ bk) (t + 1) = (count ++ [NL], init)).
        { unfold hdr.
          replace ((title ++ [NL] ++ count ++ [NL]) ++ bk) with ((title ++ [NL]) ++ count ++ NL :: bk)
            by (rewrite <- !app_assoc; reflexivity).
          rewrite readline_at_app' by (try assumption; rewrite app_length; reflexivity).
          f_equal. lia. }
        destruct (Nat.eq_dec m 0) as [Hm0|Hm0].
        * (* nothing after the count line *)
          assert (Ebk : bk = []) by (unfold bk; rewrite Hm0; reflexivity).
          rewrite Ebk, app_nil_r in *.
          eapply rej_first; [exact R1|exact R2|apply readline_at_end|apply tnl_nonnil|exact Hcount|reflexivity].
        * destruct (le_lt_dec m L) as [HmL|HmL].
          -- (* inside the first atom line *)
             assert (Ebk : bk = firstn m l0).
             { unfold bk, lines. rewrite body_of_cons. apply firstn_app_le. lia. }
             assert (Hbnl : no_nl bk) by (rewrite Ebk; apply no_nl_firstn; assumption).
             assert (Hblen : length bk = m) by (rewrite Ebk; apply firstn_length_le; lia).
             assert (R3 : readline_at (hdr ++ bk) init = (bk, init + m)).
             { unfold init. rewrite readline_at_partial by assumption. rewrite Hblen. reflexivity. }
             eapply rej_seek; [exact R1|exact R2|exact R3|apply tnl_nonnil|exact Hcount| |].
             ++ replace (init + m - init) with m by lia. split; [lia|].
                rewrite Hpre in Hlim. nia.
             ++ replace (init + m - init) with m by lia. rewrite app_length, Hblen. fold init. nia.
          -- (* the first atom line is complete *)
             assert (Ebk : bk = l0 ++ NL :: firstn (m - (L + 1)) (body_of rest)).
             { unfold bk, lines. rewrite body_of_cons.
               replace (l0 ++ [NL] ++ body_of rest) with ((l0 ++ [NL]) ++ body_of rest)
                 by (rewrite <- app_assoc; reflexivity).
               rewrite firstn_app_ge by (rewrite app_length; simpl; lia).
               rewrite app_length. simpl length. rewrite HL0, <- app_assoc. reflexivity. }
             assert (R3 : readline_at (hdr ++ bk) init = (l0 ++ [NL], init + L + 1)).
             { rewrite Ebk. unfold init. rewrite readline_at_app' by (reflexivity || assumption).
               rewrite HL0. reflexivity. }
             assert (Hplen : length (hdr ++ bk) = k).
             { rewrite <- Ep. apply firstn_length_le. exact Hk. }
             eapply rej_seek; [exact R1|exact R2|exact R3|apply tnl_nonnil|exact Hcount| |].
             ++ replace (init + L + 1 - init) with (L + 1) by lia. split; [lia|].
                rewrite Hpre in Hlim. rewrite <- Nat2Z.inj_mul, <- Nat2Z.inj_add. lia.
             ++ replace (init + L + 1 - init) with (L + 1) by lia. rewrite Hplen.
                rewrite <- Nat2Z.inj_mul, <- Nat2Z.inj_add. lia.
      + (* inside the count line (its newline not yet there) *)
        set (ck := firstn (k - (t + 1)) count).
        assert (Ep : firstn k pre = (title ++ [NL]) ++ ck).
        { unfold pre, hdr.
          replace ((title ++ [NL] ++ count ++ [NL]) ++ body_of lines)
            with ((title ++ [NL]) ++ count ++ ([NL] ++ body_of lines)) by (rewrite <- !app_assoc; reflexivity).
          rewrite firstn_app_ge by (rewrite app_length; simpl; fold t; lia).
          rewrite app_length. simpl length. fold t. f_equal.
          apply firstn_app_le. lia. }
        rewrite Ep.
        assert (Hck : no_nl ck) by (apply no_nl_firstn; assumption).
        assert (R1 : readline_at ((title ++ [NL]) ++ ck) 0 = (title ++ [NL], t + 1)).
        { change 0 with (length (@nil ascii)).
          replace ((title ++ [NL]) ++ ck) with ([] ++ title ++ NL :: ck) by (rewrite <- app_assoc; reflexivity).
          rewrite readline_at_app by assumption. reflexivity. }
        assert (R2 : readline_at ((title ++ [NL]) ++ ck) (t + 1) = (ck, t + 1 + length ck)).
        { replace (t + 1) with (length (title ++ [NL])) by (rewrite app_length; reflexivity).
          apply readline_at_partial. assumption. }
        assert (R3 : readline_at ((title ++ [NL]) ++ ck) (t + 1 + length ck) = ([], t + 1 + length ck)).
        { apply readline_at_eof. rewrite !app_length. simpl. fold t. lia. }
        destruct (py_int ck) as [n'|e] eqn:Ei.
        * eapply rej_first; [exact R1|exact R2|exact R3|apply tnl_nonnil|exact Ei|reflexivity].
        * eapply rej_count; [exact R1|exact R2|apply tnl_nonnil|]. intros n'. rewrite Ei. discriminate.
  Qed.
End Prefix.

(* ------------------------------------------------------------------ for the files the writer produces *)
Lemma byte_prefix_core c w d vel recs : run_ok c w d vel recs ->
  (Z.of_nat (length (file_c c w d recs)) < SEEK_LIMIT)%Z ->
  forall k, k <= length (file_c c w d recs) -> rejected (read_gro (firstn k (file_c c w d recs))).
Proof.
  intros H Hlim k Hk.
  pose proof (title_of_ok c (ro_title _ _ _ _ _ H)) as Hnl.
  destruct (count1_parses c w d vel recs H) as [Hc Hcnl].
  pose proof (lines_good c w d vel recs H recs (ro_recs _ _ _ _ _ H)) as Hl.
  assert (Hex2 : exists r0 rest, recs = r0 :: rest).
  { pose proof (ro_nonempty _ _ _ _ _ H) as Hne2. destruct recs as [|r0 rest]; [contradiction|eauto]. }
  destruct Hex2 as (r0 & rest & E).
  assert (El : lines_of w d recs = line_of w d r0 :: lines_of w d rest) by (rewrite E; reflexivity).
  assert (Hshape : file_c c w d recs =
            (title_of c ++ [NL] ++ count1 c (length recs) ++ [NL]) ++ body_of (line_of w d r0 :: lines_of w d rest)).
  { unfold file_c, header1. rewrite El. reflexivity. }
  rewrite Hshape in Hk, Hlim |- *. rewrite El in Hl.
  assert (HN : length (line_of w d r0 :: lines_of w d rest) = length recs).
  { rewrite <- El. unfold lines_of. apply map_length. }
  apply (prefix_rejected (title_of c) (count1 c (length recs)) (line_of w d r0) (lines_of w d rest)
           (line_len w vel) Hnl Hcnl).
  - rewrite HN. exact Hc.
  - exact Hl.
  - exact Hlim.
  - exact Hk.
Qed.

Lemma byte_prefix c w d vel recs : run_ok c w d vel recs ->
  exists pre boxline,
    write_gro c recs = Ok (pre ++ boxline ++ [NL]) /\
    dump_lattice_gro (box_of (c_box c)) = Ok boxline /\
    ((Z.of_nat (length (pre ++ boxline ++ [NL])) < SEEK_LIMIT)%Z ->
     forall k, k <= length pre -> rejected (read_gro (firstn k (pre ++ boxline ++ [NL])))).
Proof.
  intros H. destruct (written_file c w d vel recs H) as (boxline & Hb & Hw).
  exists (file_c c w d recs), boxline. split; [exact Hw|]. split; [exact Hb|].
  intros Hlim k Hk. rewrite firstn_app_le by exact Hk.
  apply (byte_prefix_core c w d vel recs H); [|exact Hk].
  rewrite !app_length in Hlim. lia.
Qed.

Lemma load_tail_fields title count l0 rest tail n fmt L target st :
  load_tail title count l0 rest tail n fmt L target = Ok st ->
  l_fmt st = fmt /\ l_init st = length title + 1 + (length count + 1) /\ l_natoms st = n.
Proof.
  unfold load_tail. intros Hl.
  destruct (target <? 0)%Z; [discriminate|].
  destruct (SEEK_LIMIT <=? target)%Z; [discriminate|].
  destruct (Z.of_nat _ <=? target)%Z; [discriminate|].
  destruct (readline_at _ _) as [bl q]. destruct (isnil bl); [discriminate|].
  destruct (io_of_value (extract_lattice_gro bl)) as [box|e]; cbn [bind] in Hl; [|discriminate].
  destruct (n <? 0)%Z; [discriminate|]. inversion Hl. auto.
Qed.

(* an accepted prefix returns exactly the records of the complete file *)
Lemma accepted_same c w d vel recs : run_ok c w d vel recs ->
  exists f, write_gro c recs = Ok f /\
    ((Z.of_nat (length f) < SEEK_LIMIT)%Z ->
     forall k r, read_gro (firstn k f) = Ok r ->
       r_atoms r = map (expected_atom d) recs /\
       exists rf, read_gro f = Ok rf /\ r_atoms r = r_atoms rf).
Proof.
  intros H. destruct (written_file c w d vel recs H) as (boxline & Hb & Hw).
  exists (complete_file c w d recs boxline). split; [exact Hw|].
  intros Hlim k r Hr.
  assert (Hat : r_atoms r = map (expected_atom d) recs).
  { unfold complete_file in Hr, Hlim.
    destruct (le_lt_dec k (length (file_c c w d recs))) as [Hk|Hk].
    - exfalso. rewrite firstn_app_le in Hr by exact Hk.
      destruct (byte_prefix_core c w d vel recs H) with (k := k) as (e & He & _); [|exact Hk|].
      + rewrite !app_length in Hlim. lia.
      + rewrite He in Hr. discriminate.
    - rewrite firstn_app_ge in Hr by lia.
      set (tl := firstn (k - length (file_c c w d recs)) (boxline ++ [NL])) in *.
      pose proof (title_of_ok c (ro_title _ _ _ _ _ H)) as Hnl.
      destruct (count1_parses c w d vel recs H) as [Hc Hcnl].
      pose proof (lines_good c w d vel recs H recs (ro_recs _ _ _ _ _ H)) as Hl.
      pose proof (atoms_good c w d vel recs H recs (ro_recs _ _ _ _ _ H)) as Ha.
      assert (Hex2 : exists r0 rest, recs = r0 :: rest).
      { pose proof (ro_nonempty _ _ _ _ _ H) as Hne2. destruct recs as [|r0 rest]; [contradiction|eauto]. }
      destruct Hex2 as (r0 & rest & E).
      assert (El : lines_of w d recs = line_of w d r0 :: lines_of w d rest) by (rewrite E; reflexivity).
      assert (Hshape : file_c c w d recs ++ tl =
                gro_text (title_of c) (count1 c (length recs)) (line_of w d r0 :: lines_of w d rest) tl).
      { unfold file_c, header1, gro_text. rewrite El, <- !app_assoc. reflexivity. }
      rewrite Hshape in Hr. rewrite El in Hl, Ha.
      unfold read_gro in Hr.
      rewrite (load_head (title_of c) (count1 c (length recs)) (line_of w d r0) (lines_of w d rest) tl
                 (Z.of_nat (length recs)) (w, vel) (line_len w vel) Hnl Hcnl Hc Hl
                 (first_line_fmt c w d vel recs H r0 rest E)) in Hr.
      destruct (load_tail _ _ _ _ _ _ _ _ _) as [st|e] eqn:Elt; cbn [bind] in Hr; [|discriminate].
      apply load_tail_fields in Elt as (Hf1 & Hf2 & Hf3).
      rewrite Hf1, Hf2, Hf3, Nat2Z.id in Hr.
      assert (Hra : read_atoms
                (gro_text (title_of c) (count1 c (length recs)) (line_of w d r0 :: lines_of w d rest) tl)
                (w, vel) (length (title_of c) + 1 + (length (count1 c (length recs)) + 1)) (length recs)
              = Ok (map (expected_atom d) recs)).
      { assert (HN : length (line_of w d r0 :: lines_of w d rest) = length recs)
          by (rewrite <- El; unfold lines_of; apply map_length).
        assert (HlNL : Forall no_nl (line_of w d r0 :: lines_of w d rest))
          by (eapply Forall_impl; [|exact Hl]; simpl; tauto).
        pose proof (read_atoms_body (w, vel) (line_of w d r0 :: lines_of w d rest) (map (expected_atom d) recs)
                      (title_of c ++ [NL] ++ count1 c (length recs) ++ [NL]) tl HlNL Ha) as X.
        rewrite HN in X.
        replace (length (title_of c ++ [NL] ++ count1 c (length recs) ++ [NL]))
          with (length (title_of c) + 1 + (length (count1 c (length recs)) + 1)) in X
          by (rewrite !app_length; simpl; lia).
        unfold gro_text. rewrite <- !app_assoc in X. exact X. }
      rewrite Hra in Hr. cbn [bind] in Hr. inversion Hr. reflexivity. }
  split; [exact Hat|].
  destruct (roundtrip c w d vel recs H) as (f' & Hw' & Hrt).
  rewrite Hw in Hw'. inversion Hw'; subst f'.
  eexists. split; [apply Hrt; exact Hlim|]. rewrite Hat. reflexivity.
Qed.
