(* C12, part 3: the statements Props/C12.v exports. *)
From Coq Require Import ZArith String Bool Arith Lia List.
From GM Require Import Base.Res Model.SystemGro Proofs.SystemGroInit Proofs.SystemGroAccess.
Import ListNotations.
Local Open Scope nat_scope.

(* the iterated residues are the tiling, whatever state the iteration starts from *)
Lemma iterated_is_split f st s st0 st1 rs :
  init f = (st, Ok s) -> iter_all f s st0 = (st1, Ok rs) -> rs = split_res (g_records f).
Proof.
  intros H I. destruct (init_view f st s H) as [es [E [F _]]].
  destruct (iter_all_ok f s es _ E F st0) as [st' I']. rewrite I in I'. inversion I'. reflexivity.
Qed.

(* ------------------------------------------------------------------ tiling *)
Theorem tiling f : g_records f <> [] ->
  exists st s rs, init f = (st, Ok s) /\
    (forall st0, exists st1, iter_all f s st0 = (st1, Ok rs)) /\
    concat rs = g_records f /\ sys_len s = length rs /\ n_atoms f = length (concat rs).
Proof.
  intros N. destruct (init_ok f N) as [st [s [H [W F]]]].
  destruct (init_view f st s H) as [es [E [R _]]].
  exists st, s, (split_res (g_records f)). split; [exact H|]. split; [|split; [|split]].
  - apply (iter_all_ok f s es _ E R).
  - apply split_res_concat.
  - rewrite sys_len_info. apply (Forall2_length F).
  - rewrite split_res_concat. reflexivity.
Qed.

(* ------------------------------------------------------------------ boundaries *)
Fixpoint starts_from (n : nat) (rs : list residue) : list nat :=
  match rs with
  | [] => []
  | r :: t => n :: starts_from (n + length r) t
  end.
(* atom positions at which the iterated residues start *)
Definition starts (rs : list residue) : list nat := starts_from 0 rs.
(* the (number, name) pair of record p differs from that of record p-1 *)
Definition changes (recs : list atom) (p : nat) : Prop :=
  exists a b, nth_error recs (p - 1) = Some a /\ nth_error recs p = Some b /\ akey a <> akey b.

Lemma starts_ge rs : forall n p, In p (starts_from n rs) -> n <= p.
Proof.
  induction rs as [|r t IH]; intros n p H; simpl in H; [contradiction|].
  destruct H as [<-|H]; [lia|]. apply IH in H. lia.
Qed.

Lemma nth_in_middle {A} (pre g rest : list A) q : length pre <= q < length pre + length g ->
  exists a, nth_error (pre ++ g ++ rest) q = Some a /\ In a g.
Proof.
  intros H. rewrite nth_error_app2 by lia. rewrite nth_error_app1 by lia.
  destruct (nth_error g (q - length pre)) as [a|] eqn:E.
  - exists a. split; [reflexivity | eapply nth_error_In; exact E].
  - apply nth_error_None in E. lia.
Qed.

Lemma chain_head k gs : chain k gs -> exists g t, gs = g :: t /\ all_key k g.
Proof. destruct 1; eauto. Qed.

Lemma no_change_inside k g pre rest p : all_key k g -> length pre < p < length pre + length g ->
  ~ changes (pre ++ g ++ rest) p.
Proof.
  intros [_ K] H [a [b [Ha [Hb N]]]].
  destruct (nth_in_middle pre g rest (p - 1)) as [a' [Ha' Ia]]; [lia|].
  destruct (nth_in_middle pre g rest p) as [b' [Hb' Ib]]; [lia|].
  rewrite Ha in Ha'. rewrite Hb in Hb'. inversion Ha'; inversion Hb'; subst.
  apply N. rewrite (K _ Ia), (K _ Ib). reflexivity.
Qed.

Lemma chain_starts k gs : chain k gs -> forall pre post p,
  length pre < p < length pre + length (concat gs) ->
  (In p (starts_from (length pre) gs) <-> changes (pre ++ concat gs ++ post) p).
Proof.
  induction 1 as [k g Hg | k k' g t Hg Hne Hc IH]; intros pre post p Hp.
  - simpl in *. rewrite app_nil_r in *. split.
    + intros [Q|[]]. lia.
    + intros C. exfalso. eapply (no_change_inside k g pre post p Hg); [lia | exact C].
  - simpl concat in *. rewrite app_length in Hp. cbn [starts_from].
    destruct (Nat.lt_ge_cases p (length pre + length g)) as [Lt|Ge].
    + (* strictly inside the first group *)
      split.
      * intros [Q|Q]; [lia|]. apply starts_ge in Q. lia.
      * intros C. exfalso. rewrite <- app_assoc in C.
        eapply (no_change_inside k g pre (concat t ++ post) p Hg); [lia | exact C].
    + destruct (Nat.eq_dec p (length pre + length g)) as [Eq|Ne].
      * (* the first atom of the next group *)
        destruct (chain_head k' t Hc) as [h [t' [-> Hh]]].
        split; [intros _ | intros _; right; simpl; left; lia].
        destruct Hg as [Ng Kg]. destruct Hh as [Nh Kh].
        destruct (nth_in_middle pre g ((concat (h :: t')) ++ post) (p - 1)) as [a [Ha Ia]];
          [destruct g; [contradiction|]; simpl in *; lia|].
        destruct (nth_in_middle (pre ++ g) h (concat t' ++ post) p) as [b [Hb Ib]];
          [rewrite app_length; destruct h; [contradiction|]; simpl in *; lia|].
        exists a, b. split; [|split].
        -- rewrite <- app_assoc. exact Ha.
        -- simpl concat. rewrite <- !app_assoc in *. exact Hb.
        -- rewrite (Kg _ Ia), (Kh _ Ib). exact Hne.
      * (* beyond: the induction hypothesis with the first group moved into the prefix *)
        specialize (IH (pre ++ g) post p). rewrite app_length in IH.
        assert (Hp' : length pre + length g < p < length pre + length g + length (concat t)) by lia.
        specialize (IH Hp'). rewrite <- !app_assoc in IH.
        split.
        -- intros [Q|Q]; [lia|]. rewrite <- app_assoc. apply IH. exact Q.
        -- intros C. right. apply IH. rewrite <- app_assoc in C. exact C.
Qed.

Theorem boundaries f st s st0 st1 rs :
  init f = (st, Ok s) -> iter_all f s st0 = (st1, Ok rs) ->
  (* every residue is non-empty and carries one (number, name) pair *)
  (forall r, In r rs -> r <> [] /\ forall a b, In a r -> In b r -> akey a = akey b) /\
  (* consecutive residues carry different pairs *)
  (forall k r r', nth_error rs k = Some r -> nth_error rs (S k) = Some r' ->
     forall a b, In a r -> In b r' -> akey a <> akey b) /\
  (* in terms of atom positions: a residue starts at p iff p = 0 or the pair changes between p-1 and p *)
  (forall p, p < length (g_records f) -> (In p (starts rs) <-> p = 0 \/ changes (g_records f) p)).
Proof.
  intros H I. pose proof (iterated_is_split f st s st0 st1 rs H I) as ->.
  destruct (init_inv f st s H) as [N _].
  destruct (g_records f) as [|a0 t0] eqn:E; [contradiction|].
  pose proof (split_res_chain a0 t0) as C. split; [|split].
  - intros r Hr. pose proof (chain_all_key _ _ C) as U. rewrite Forall_forall in U.
    destruct (U r Hr) as [k [Nr K]]. split; [exact Nr|]. intros a b Ha Hb. rewrite (K a Ha), (K b Hb). reflexivity.
  - intros k r r' H1 H2. eapply chain_adjacent; eauto.
  - intros p Hp. destruct p as [|p].
    + split; [auto|]. intros _. destruct (chain_head _ _ C) as [g [t [-> _]]]. left. reflexivity.
    + pose proof (chain_starts _ _ C [] [] (S p)) as Q.
      rewrite split_res_concat in Q. rewrite app_nil_r in Q.
      change ([] ++ a0 :: t0) with (a0 :: t0) in Q. change (length (@nil atom)) with 0 in Q.
      assert (HQ : 0 < S p < 0 + length (a0 :: t0)) by lia. apply Q in HQ. unfold starts. rewrite HQ.
      split; [auto | intros [D|D]; [discriminate | exact D]].
Qed.

(* ------------------------------------------------------------------ templates *)
Lemma layout_nth idxs : forall lens start k idx st len,
  nth_error (layout idxs lens start) k = Some (idx, st, len) ->
  nth_error idxs k = Some idx /\ nth_error lens k = Some len /\ st = start + list_sum (firstn k lens).
Proof.
  induction idxs as [|i it IH]; intros lens start k idx st len H; destruct lens as [|n nt]; simpl in H;
    try (destruct k; discriminate).
  destruct k as [|k]; simpl in H.
  - inversion H; subst. simpl. auto.
  - apply IH in H. destruct H as [H1 [H2 H3]]. simpl. repeat split; auto. lia.
Qed.

Lemma list_sum_firstn_lengths (rs : list residue) k :
  list_sum (firstn k (map (@length atom) rs)) = length (concat (firstn k rs)).
Proof.
  revert k. induction rs as [|r t IH]; intros k; destruct k; simpl; try reflexivity.
  rewrite app_length, IH. reflexivity.
Qed.

Lemma residue_key_of_tkey t r : tkey t = tkey r -> residue_key t = residue_key r.
Proof. destruct t, r; simpl; intros H; inversion H; reflexivity. Qed.

(* invariant of _add_residue_init, as one step *)
Theorem add_residue_step s r : wf s -> r <> [] ->
  exists s' idx t, add_residue_init s r = Ok s' /\ wf s' /\
    info_all s' = info_all s ++ [idx] /\
    nth_error (s_templates s') idx = Some t /\ length t = length r /\ residue_key t = residue_key r.
Proof.
  intros W N. destruct (add_residue_init_inv s r W N) as [s' [idx [E [W' [I [[t [H1 H2]] _]]]]]].
  exists s', idx, t. split; [exact E|]. split; [exact W'|]. split; [exact I|]. split; [exact H1|].
  split; [exact (tkey_len t r H2 N) | exact (residue_key_of_tkey t r H2)].
Qed.

Theorem template_len f st s st0 st1 rs :
  init f = (st, Ok s) -> iter_all f s st0 = (st1, Ok rs) ->
  exists es, entries s = Ok es /\ length es = length rs /\
    forall k idx start len r, nth_error es k = Some (idx, start, len) -> nth_error rs k = Some r ->
      exists t, nth_error (s_templates s) idx = Some t /\
                length t = len /\ len = length r /\ residue_key t = residue_key r /\
                start = length (concat (firstn k rs)).
Proof.
  intros H I. pose proof (iterated_is_split f st s st0 st1 rs H I) as ->.
  destruct (init_view f st s H) as [es [E [R L]]]. destruct (init_inv f st s H) as [N [W F]].
  exists es. split; [exact E|]. split; [apply (Forall2_length R)|].
  intros k idx start len r Hk Hr. rewrite L in Hk. apply layout_nth in Hk. destruct Hk as [H1 [H2 H3]].
  destruct (Forall2_nth_some _ _ _ F k idx H1) as [r' [Hr' [t [T1 T2]]]]. rewrite Hr in Hr'. inversion Hr'; subst r'.
  assert (len = length r) as ->.
  { rewrite nth_error_map in H2. unfold residue in *. rewrite Hr in H2. simpl in H2. inversion H2; reflexivity. }
  assert (Nr : r <> []).
  { destruct (g_records f) as [|a0 t0] eqn:Eg; [contradiction|].
    pose proof (chain_all_key _ _ (split_res_chain a0 t0)) as U. rewrite Forall_forall in U.
    destruct (U r (nth_error_In _ _ Hr)) as [k' [Nr _]]. exact Nr. }
  exists t. split; [exact T1|]. split; [exact (tkey_len t r T2 Nr)|]. split; [reflexivity|].
  split; [exact (residue_key_of_tkey t r T2)|]. rewrite H3, list_sum_firstn_lengths. reflexivity.
Qed.

(* ------------------------------------------------------------------ random access *)
Theorem random_access f st s st0 st1 rs :
  init f = (st, Ok s) -> iter_all f s st0 = (st1, Ok rs) ->
  forall ops h, map fst (run_history f s ops h) = spec_history rs ops (h_iters h).
Proof.
  intros H I. pose proof (iterated_is_split f st s st0 st1 rs H I) as ->.
  destruct (init_view f st s H) as [es [E [R _]]]. intros ops h.
  apply (run_history_spec f s es _ E R).
Qed.

(* the two most used instances, spelled out: system[k] and system[k - len] from any reader state *)
Theorem index_access f st s st0 st1 rs :
  init f = (st, Ok s) -> iter_all f s st0 = (st1, Ok rs) ->
  forall k r, nth_error rs k = Some r -> forall stx,
    (exists sty, getitem_int f s (Z.of_nat k) stx = (sty, Ok r)) /\
    (exists sty, getitem_int f s (Z.of_nat k - Z.of_nat (length rs)) stx = (sty, Ok r)).
Proof.
  intros H I. pose proof (iterated_is_split f st s st0 st1 rs H I) as ->.
  destruct (init_view f st s H) as [es [E [R _]]]. intros k r Hr stx. unfold residue in *.
  assert (Lk : k < length (split_res (g_records f))) by (apply nth_error_Some; rewrite Hr; discriminate).
  split.
  - pose proof (getitem_int_spec f s es _ E R (Z.of_nat k) stx) as G. unfold norm_index in G. unfold residue in *.
    replace (0 <=? Z.of_nat k)%Z with true in G by (symmetry; apply Z.leb_le; lia).
    replace (Z.of_nat k <? Z.of_nat (length (split_res (g_records f))))%Z with true in G by (symmetry; apply Z.ltb_lt; lia).
    rewrite Nat2Z.id in G. destruct G as [r' [sty [Hr' G]]]. rewrite Hr in Hr'. inversion Hr'; subst. eauto.
  - pose proof (getitem_int_spec f s es _ E R (Z.of_nat k - Z.of_nat (length (split_res (g_records f)))) stx) as G.
    unfold norm_index in G. unfold residue in *.
    replace (0 <=? Z.of_nat k - Z.of_nat (length (split_res (g_records f))))%Z with false in G by (symmetry; apply Z.leb_gt; lia).
    replace (0 <=? Z.of_nat (length (split_res (g_records f))) + (Z.of_nat k - Z.of_nat (length (split_res (g_records f)))))%Z
      with true in G by (symmetry; apply Z.leb_le; lia).
    replace (Z.to_nat (Z.of_nat (length (split_res (g_records f))) + (Z.of_nat k - Z.of_nat (length (split_res (g_records f))))))
      with k in G by lia.
    destruct G as [r' [sty [Hr' G]]]. rewrite Hr in Hr'. inversion Hr'; subst. eauto.
Qed.

(* out of range: IndexError, and the reader is not touched *)
Theorem index_out_of_range f st s st0 st1 rs :
  init f = (st, Ok s) -> iter_all f s st0 = (st1, Ok rs) ->
  forall i stx, (Z.of_nat (length rs) <= i \/ i < - Z.of_nat (length rs))%Z ->
    getitem_int f s i stx = (stx, Err EIndex).
Proof.
  intros H I. pose proof (iterated_is_split f st s st0 st1 rs H I) as ->.
  destruct (init_view f st s H) as [es [E [R _]]]. destruct (init_inv f st s H) as [N _].
  intros i stx Hi.
  assert (Pos : 1 <= length (split_res (g_records f))).
  { destruct (g_records f) as [|a0 t0]; [contradiction|].
    destruct (chain_head _ _ (split_res_chain a0 t0)) as [g [t [-> _]]]. simpl. lia. }
  pose proof (getitem_int_spec f s es _ E R i stx) as G. unfold norm_index in G. unfold residue in *.
  destruct (0 <=? i)%Z eqn:P.
  - apply Z.leb_le in P. replace (i <? Z.of_nat (length (split_res (g_records f))))%Z with false in G
      by (symmetry; apply Z.ltb_ge; lia).
    replace (i =? -1)%Z with false in G by (symmetry; apply Z.eqb_neq; lia). exact G.
  - apply Z.leb_gt in P. replace (0 <=? Z.of_nat (length (split_res (g_records f))) + i)%Z with false in G
      by (symmetry; apply Z.leb_gt; lia).
    replace (i =? -1)%Z with false in G by (symmetry; apply Z.eqb_neq; lia). exact G.
Qed.

(* ------------------------------------------------------------------ counts *)
Theorem counts f st s st0 st1 rs :
  init f = (st, Ok s) -> iter_all f s st0 = (st1, Ok rs) ->
  sys_len s = length rs /\ n_atoms f = length (g_records f) /\ n_atoms f = list_sum (map (@length atom) rs) /\
  info_all s = map (fun e => fst (fst e)) (match entries s with Ok es => es | Err _ => [] end) /\
  box_matrix f = g_box f /\ comment_line f = g_title f.
Proof.
  intros H I. pose proof (iterated_is_split f st s st0 st1 rs H I) as ->.
  destruct (init_inv f st s H) as [N [W F]]. destruct (init_view f st s H) as [es [E [R L]]].
  split; [rewrite sys_len_info; apply (Forall2_length F)|]. split; [reflexivity|]. split; [|split; [|split; reflexivity]].
  - unfold n_atoms, natoms. rewrite <- (split_res_concat (g_records f)) at 1.
    generalize (split_res (g_records f)). intros l. induction l as [|g t IH]; simpl; [reflexivity|].
    rewrite app_length, IH. reflexivity.
  - rewrite E, L. pose proof (Forall2_length F) as LL. revert LL.
    generalize (split_res (g_records f)) (info_all s) 0. intros gs idxs. revert gs.
    induction idxs as [|i it IH]; intros gs start LL; destruct gs as [|g gt]; simpl in *; try discriminate; try reflexivity.
    f_equal. apply IH. lia.
Qed.
