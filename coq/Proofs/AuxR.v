(* Lemmas about Model/Aux.v at T := R *)
From Coq Require Import Nsatz.
From GM Require Import Proofs.RTac Model.Aux.
Import ListNotations.
Local Open Scope R_scope.

(* ---------- normalisation ---------- *)
Definition unit3 (v : V3 R) : Prop := vnorm2 v = 1.

Lemma vnormalize_ok (v : V3 R) :
  v <> vzero -> vnormalize v = Ok (vdivs v (vnorm v)) /\ unit3 (vdivs v (vnorm v)).
Proof.
  intros Hne. pose proof (vnorm_pos v Hne) as Hp. pose proof (vnorm_sq v) as Hs.
  unfold vnormalize.
  assert (Hq : (@seqb R RScalar (vnorm v) s0) = false) by (apply seqb_R_false; cbn [s0 RScalar]; lra).
  rewrite Hq. split; [reflexivity|].
  unfold unit3. destruct v as [a b c]. set (n := vnorm (mk3 a b c)) in *.
  clearbody n. runfold. field_simplify_eq; [|lra]. nra.
Qed.

Lemma vnormalize_zero : vnormalize (@vzero R _) = Err EDiv0.
Proof.
  unfold vnormalize. assert (E : vnorm (@vzero R _) = 0).
  { runfold. replace (0*0+0*0+0*0) with 0 by ring. apply sqrt_0. }
  rewrite E. assert (Hq : (@seqb R RScalar 0 s0) = true) by (apply seqb_R; reflexivity).
  rewrite Hq; reflexivity.
Qed.

(* ---------- rotation matrices ---------- *)
Definition rot_unit (n : V3 R) (c s : R) : M3 R :=
  let ddt := mouter n n in
  let skew := mkM (mk3 0 (vz n) (- vy n)) (mk3 (- vz n) 0 (vx n)) (mk3 (vy n) (- vx n) 0) in
  madd (madd ddt (mscale c (msub mid ddt))) (mscale s skew).

Lemma rotation_matrix_cs_ok axis c s :
  axis <> vzero ->
  rotation_matrix_cs axis c s = Ok (rot_unit (vdivs axis (vnorm axis)) c s).
Proof.
  intros Hne. unfold rotation_matrix_cs.
  destruct (vnormalize_ok axis Hne) as [E _]. rewrite E. reflexivity.
Qed.

Ltac m3 := apply M3_eq; apply V3_eq; simpl.

Lemma rot_unit_orth n c s : unit3 n -> c*c + s*s = 1 ->
  mmul (rot_unit n c s) (mtrans (rot_unit n c s)) = mid.
Proof.
  unfold unit3; destruct n as [a b d]; intros Hn Hcs; unfold rot_unit; runfold.
  m3; nsatz.
Qed.

Lemma rot_unit_orth' n c s : unit3 n -> c*c + s*s = 1 ->
  mmul (mtrans (rot_unit n c s)) (rot_unit n c s) = mid.
Proof.
  unfold unit3; destruct n as [a b d]; intros Hn Hcs; unfold rot_unit; runfold.
  m3; nsatz.
Qed.

Lemma rot_unit_det n c s : unit3 n -> c*c + s*s = 1 -> mdet (rot_unit n c s) = 1.
Proof.
  unfold unit3; destruct n as [a b d]; intros Hn Hcs; unfold rot_unit; runfold. nsatz.
Qed.

Lemma rot_unit_axis n c s : unit3 n -> mvec (rot_unit n c s) n = n.
Proof.
  unfold unit3; destruct n as [a b d]; intros Hn; unfold rot_unit; runfold.
  apply V3_eq; simpl; nsatz.
Qed.

Lemma rot_unit_axis_left n c s : unit3 n -> vecm n (rot_unit n c s) = n.
Proof.
  unfold unit3; destruct n as [a b d]; intros Hn; unfold rot_unit; runfold.
  apply V3_eq; simpl; nsatz.
Qed.

Lemma rot_unit_trace n c s : unit3 n -> mtrace (rot_unit n c s) = 1 + 2 * c.
Proof.
  unfold unit3; destruct n as [a b d]; intros Hn; unfold rot_unit; runfold. nsatz.
Qed.

Lemma rot_unit_neg n c s : rot_unit n c (- s) = mtrans (rot_unit n c s).
Proof.
  destruct n as [a b d]; unfold rot_unit; runfold. m3; ring.
Qed.

Lemma rot_unit_compose n c1 s1 c2 s2 : unit3 n ->
  mmul (rot_unit n c1 s1) (rot_unit n c2 s2) = rot_unit n (c1*c2 - s1*s2) (s1*c2 + c1*s2).
Proof.
  unfold unit3; destruct n as [a b d]; intros Hn; unfold rot_unit; runfold.
  m3; nsatz.
Qed.

Lemma vnorm_scale k (v : V3 R) : 0 < k -> vnorm (vscale k v) = k * vnorm v.
Proof.
  intros Hk. unfold vnorm. destruct v as [a b c]. runfold.
  replace (k*a*(k*a) + k*b*(k*b) + k*c*(k*c)) with ((k*k)*(a*a+b*b+c*c)) by ring.
  rewrite sqrt_mult; try nra. rewrite sqrt_square; lra.
Qed.

Lemma normalize_scale k (v : V3 R) : 0 < k -> v <> vzero ->
  vdivs (vscale k v) (vnorm (vscale k v)) = vdivs v (vnorm v).
Proof.
  intros Hk Hne. rewrite vnorm_scale by assumption.
  pose proof (vnorm_pos v Hne) as Hp. destruct v as [a b c].
  set (n := vnorm (mk3 a b c)) in *. clearbody n. runfold.
  apply V3_eq; simpl; field; lra.
Qed.

Lemma vscale_ne k (v : V3 R) : 0 < k -> v <> vzero -> vscale k v <> vzero.
Proof.
  intros Hk Hne E. apply Hne. destruct v as [a b c]. unfold vscale, vzero in *. simpl in *.
  inversion E as [[E1 E2 E3]]. runfold.
  f_equal; nra.
Qed.

(* ---------- local frames ---------- *)
Definition orthonormal (v1 v2 v3 : V3 R) : Prop :=
  vdot v1 v1 = 1 /\ vdot v2 v2 = 1 /\ vdot v3 v3 = 1 /\
  vdot v1 v2 = 0 /\ vdot v1 v3 = 0 /\ vdot v2 v3 = 0.

Lemma frame_core (v1 v3 : V3 R) :
  vdot v1 v1 = 1 -> vdot v3 v3 = 1 -> vdot v1 v3 = 0 ->
  let v2 := vcross v3 v1 in
  orthonormal v1 v2 v3 /\ vcross v1 v2 = v3 /\ mdet (mkM v1 v2 v3) = 1.
Proof.
  destruct v1 as [a b c], v3 as [d e f]; runfold; intros H1 H3 H13.
  unfold orthonormal; runfold.
  repeat split; try nsatz.
  apply V3_eq; simpl; nsatz.
Qed.

(* completeness: for an orthonormal right-handed frame, sum_k (c.v_k) v_k = c  *)
Lemma frame_complete (v1 v3 x : V3 R) :
  vdot v1 v1 = 1 -> vdot v3 v3 = 1 -> vdot v1 v3 = 0 ->
  let v2 := vcross v3 v1 in
  vecm (mvec (mkM v1 v2 v3) x) (mkM v1 v2 v3) = x.
Proof.
  destruct v1 as [a b c], v3 as [d e f], x as [x y z]; runfold; intros H1 H3 H13.
  apply V3_eq; simpl; nsatz.
Qed.

(* the coefficient map of an orthonormal frame is an isometry *)
Lemma frame_isometry (v1 v3 x : V3 R) :
  vdot v1 v1 = 1 -> vdot v3 v3 = 1 -> vdot v1 v3 = 0 ->
  let v2 := vcross v3 v1 in
  vnorm2 (mvec (mkM v1 v2 v3) x) = vnorm2 x /\
  vnorm2 (vecm x (mkM v1 v2 v3)) = vnorm2 x.
Proof.
  destruct v1 as [a b c], v3 as [d e f], x as [x y z]; runfold; intros H1 H3 H13.
  split; nsatz.
Qed.

(* for orthonormal v1, v3:  |v3.d| <= |v1 x d| *)
Lemma perp_le_cross (v1 v3 d : V3 R) :
  vdot v1 v1 = 1 -> vdot v3 v3 = 1 -> vdot v1 v3 = 0 ->
  Rabs (vdot v3 d) <= vnorm (vcross v1 d).
Proof.
  intros U1 H3 H13.
  assert (Hc : (vdot v3 d) * (vdot v3 d) <= vnorm2 (vcross v1 d)).
  { destruct v1 as [a b c], v3 as [e f g], d as [x y z]. runfold.
    assert (Hlag : (b*z-c*y)*(b*z-c*y) + (c*x-a*z)*(c*x-a*z) + (a*y-b*x)*(a*y-b*x)
                  = (x*x+y*y+z*z) - (a*x+b*y+c*z)*(a*x+b*y+c*z)) by nsatz.
    rewrite Hlag.
    assert (Hb2 : x*x+y*y+z*z = (a*x+b*y+c*z)*(a*x+b*y+c*z) + (e*x+f*y+g*z)*(e*x+f*y+g*z)
             + ((f*c-g*b)*x+(g*a-e*c)*y+(e*b-f*a)*z)*((f*c-g*b)*x+(g*a-e*c)*y+(e*b-f*a)*z)) by nsatz.
    pose proof (Rle_0_sqr ((f*c-g*b)*x+(g*a-e*c)*y+(e*b-f*a)*z)) as Hsq. unfold Rsqr in Hsq.
    lra. }
  pose proof (vnorm_sq (vcross v1 d)) as Hn3.
  assert (Hn3p : 0 <= vnorm (vcross v1 d)) by (unfold vnorm; apply sqrt_pos).
  rewrite <- (Rabs_pos_eq (vnorm (vcross v1 d))) by exact Hn3p.
  apply Rsqr_le_abs_0. unfold Rsqr. rewrite Hn3. exact Hc.
Qed.

Definition frame_good (F : frame R) (p0 p1 p2 : V3 R) : Prop :=
  forig F = p0 /\
  orthonormal (f1 F) (f2 F) (f3 F) /\
  vcross (f1 F) (f2 F) = f3 F /\
  mdet (mkM (f1 F) (f2 F) (f3 F)) = 1 /\
  f1 F = vdivs (vsub p2 p0) (vnorm (vsub p2 p0)) /\
  f2 F = vcross (f3 F) (f1 F) /\
  vdot (f3 F) (vsub p2 p0) = 0.

Lemma sub_ne (a b : V3 R) : a <> b -> vsub b a <> vzero.
Proof.
  intros Hne E; apply Hne. destruct a as [a1 a2 a3], b as [b1 b2 b3].
  unfold vsub, vzero in E; simpl in E. inversion E as [[E1 E2 E3]]. runfold.
  f_equal; lra.
Qed.

Lemma frame_good_intro (p0 p1 p2 v3 : V3 R) :
  p0 <> p2 ->
  let w := vsub p2 p0 in let v1 := vdivs w (vnorm w) in
  vdot v3 v3 = 1 -> vdot v1 v3 = 0 ->
  frame_good (mkFrame v1 (vcross v3 v1) v3 p0) p0 p1 p2.
Proof.
  intros Hne w v1 H3 H13.
  pose proof (sub_ne _ _ Hne) as Hd. fold w in Hd.
  destruct (vnormalize_ok _ Hd) as [_ U1]. fold v1 in U1.
  pose proof (vnorm_pos w Hd) as HL.
  destruct (frame_core v1 v3 U1 H3 H13) as (Ho & Hx & Hdet).
  unfold frame_good; cbn [f1 f2 f3 forig].
  split; [reflexivity|]. split; [exact Ho|]. split; [exact Hx|]. split; [exact Hdet|].
  split; [reflexivity|]. split; [reflexivity|].
  assert (Hw : w = vscale (vnorm w) v1).
  { unfold v1. set (L := vnorm w) in *. clearbody L. destruct w as [a b c]. runfold.
    apply V3_eq; simpl; field; lra. }
  change (vsub p2 p0) with w. rewrite Hw. set (L := vnorm w) in *. clearbody L v1.
  destruct v3 as [d e f], v1 as [a b c]. revert H13. runfold. intros H13.
  replace (d*(L*a)+e*(L*b)+f*(L*c)) with (L*(a*d+b*e+c*f)) by ring.
  rewrite H13. ring.
Qed.

Lemma calcule_base_total (p0 p1 p2 : V3 R) :
  p0 <> p2 ->
  exists F br, calcule_base_br p0 p1 p2 = Ok (F, br) /\ frame_good F p0 p1 p2 /\
    match br with
    | CbRegular => vdot (f3 F) (vsub p1 p0) = 0
    | _ => Rabs (vdot (f3 F) (vsub p1 p0)) <= (1/1000000) * vnorm (vsub p1 p0)
    end.
Proof.
  intros Hne. unfold calcule_base_br.
  pose proof (sub_ne _ _ Hne) as Hd.
  destruct (vnormalize_ok _ Hd) as [E U]. rewrite E. cbn [bind].
  pose proof (frame_good_intro p0 p1 p2) as Hintro. specialize (fun v3 => Hintro v3 Hne). cbv zeta in Hintro.
  set (w := vsub p2 p0) in *. set (L := vnorm w) in *.
  set (v1 := vdivs w L) in *.
  set (d1 := vsub p1 p0). set (c3 := vcross v1 d1). set (n3 := vnorm c3).
  assert (U1 : vdot v1 v1 = 1) by exact U.
  destruct (@sleb R RScalar n3 (smul collinear_eps (vnorm d1))) eqn:Hb.
  - (* fallback *)
    apply sleb_R in Hb.
    assert (Hbound : forall v3 : V3 R, vdot v3 v3 = 1 -> vdot v1 v3 = 0 ->
               Rabs (vdot v3 d1) <= 1 / 1000000 * vnorm d1).
    { intros v3 H3 H13.
      pose proof (perp_le_cross v1 v3 d1 U1 H3 H13) as Habs. fold c3 in Habs. fold n3 in Habs.
      eapply Rle_trans; [exact Habs|].
      unfold collinear_eps in Hb. cbn [sofQ smul RScalar] in Hb. exact Hb. }
    clearbody v1. clear E U. destruct v1 as [a b c]. cbn [vx vy vz].
    assert (Ha : a*a+b*b+c*c = 1) by (revert U1; runfold; intros; lra).
    destruct (@sleb R RScalar one_half (sadd (smul a a) (smul b b))) eqn:Hh.
    + apply sleb_R in Hh. unfold one_half in Hh. cbn [sofQ sadd smul RScalar] in Hh.
      set (q := a*a+b*b) in *.
      assert (Hq : 0 < sqrt q) by (apply sqrt_lt_R0; lra).
      assert (Hqq : sqrt q * sqrt q = q) by (apply sqrt_sqrt; lra).
      assert (Hz : (@seqb R RScalar (ssqrt (sadd (smul a a) (smul b b))) s0) = false).
      { apply seqb_R_false. cbn [ssqrt sadd smul s0 RScalar]. fold q. lra. }
      rewrite Hz. cbn [bind].
      set (v3 := vdivs (mk3 b (sopp a) s0) (ssqrt (sadd (smul a a) (smul b b)))).
      assert (H3 : vdot v3 v3 = 1).
      { unfold v3. cbn [ssqrt sadd smul sopp s0 RScalar]. fold q. set (r := sqrt q) in *.
        clearbody r. runfold. field_simplify_eq; [|lra]. unfold q in Hqq. nra. }
      assert (H13 : vdot (mk3 a b c) v3 = 0).
      { unfold v3. cbn [ssqrt sadd smul sopp s0 RScalar]. fold q. set (r := sqrt q) in *.
        clearbody r. runfold. field. lra. }
      eexists; eexists; split; [reflexivity|]. split.
      * apply Hintro; assumption.
      * cbn [f3]. apply Hbound; assumption.
    + apply sleb_R_false in Hh. unfold one_half in Hh. cbn [sofQ sadd smul RScalar] in Hh.
      set (q := b*b+c*c) in *.
      assert (Hqpos : 0 < q) by (unfold q; nra).
      assert (Hq : 0 < sqrt q) by (apply sqrt_lt_R0; lra).
      assert (Hqq : sqrt q * sqrt q = q) by (apply sqrt_sqrt; lra).
      assert (Hz : (@seqb R RScalar (ssqrt (sadd (smul b b) (smul c c))) s0) = false).
      { apply seqb_R_false. cbn [ssqrt sadd smul s0 RScalar]. fold q. lra. }
      rewrite Hz. cbn [bind].
      set (v3 := vdivs (mk3 s0 c (sopp b)) (ssqrt (sadd (smul b b) (smul c c)))).
      assert (H3 : vdot v3 v3 = 1).
      { unfold v3. cbn [ssqrt sadd smul sopp s0 RScalar]. fold q. set (r := sqrt q) in *.
        clearbody r. runfold. field_simplify_eq; [|lra]. unfold q in Hqq. nra. }
      assert (H13 : vdot (mk3 a b c) v3 = 0).
      { unfold v3. cbn [ssqrt sadd smul sopp s0 RScalar]. fold q. set (r := sqrt q) in *.
        clearbody r. runfold. field. lra. }
      eexists; eexists; split; [reflexivity|]. split.
      * apply Hintro; assumption.
      * cbn [f3]. apply Hbound; assumption.
  - (* regular branch *)
    apply sleb_R_false in Hb.
    assert (Hn3 : 0 < n3).
    { eapply Rle_lt_trans; [|exact Hb]. unfold collinear_eps. cbn [sofQ smul RScalar].
      apply Rmult_le_pos; [lra|]. unfold vnorm; apply sqrt_pos. }
    assert (Hz : (@seqb R RScalar n3 s0) = false) by (apply seqb_R_false; cbn [s0 RScalar]; lra).
    rewrite Hz. cbn [bind].
    set (v3 := vdivs c3 n3).
    assert (Hn3s : n3 * n3 = vnorm2 c3) by apply vnorm_sq.
    assert (H3 : vdot v3 v3 = 1).
    { unfold v3. destruct c3 as [x y z]. clearbody n3. runfold. field_simplify_eq; [|lra]. nra. }
    assert (H13 : vdot v1 v3 = 0).
    { unfold v3, c3. clearbody v1 n3. destruct v1 as [a b c], d1 as [x y z]. runfold. field. lra. }
    assert (H3d : vdot v3 d1 = 0).
    { unfold v3, c3. clearbody v1 n3. destruct v1 as [a b c], d1 as [x y z]. runfold. field. lra. }
    eexists; eexists; split; [reflexivity|]. split.
    + apply Hintro; assumption.
    + cbn [f3]. exact H3d.
Qed.

(* ---------- final statements for C17 ---------- *)
Definition rotation_matrix (axis : V3 R) (theta : R) : res (M3 R) :=
  rotation_matrix_cs axis (cos theta) (sin theta).

Lemma cs1 t : cos t * cos t + sin t * sin t = 1.
Proof. pose proof (sin2_cos2 t) as H. unfold Rsqr in H. lra. Qed.

Lemma mvec_scale (M : M3 R) k v : mvec M (vscale k v) = vscale k (mvec M v).
Proof. destruct M as [[a b c] [d e f] [g h i]], v as [x y z]. runfold. apply V3_eq; simpl; ring. Qed.
Lemma vecm_scale (M : M3 R) k v : vecm (vscale k v) M = vscale k (vecm v M).
Proof. destruct M as [[a b c] [d e f] [g h i]], v as [x y z]. runfold. apply V3_eq; simpl; ring. Qed.

Lemma rotation_proper axis theta : axis <> vzero ->
  exists M, rotation_matrix axis theta = Ok M /\
    mmul M (mtrans M) = mid /\ mmul (mtrans M) M = mid /\ mdet M = 1 /\
    mvec M axis = axis /\ vecm axis M = axis /\ mtrace M = 1 + 2 * cos theta.
Proof.
  intros Hne. unfold rotation_matrix. rewrite rotation_matrix_cs_ok by assumption.
  destruct (vnormalize_ok axis Hne) as [_ U]. pose proof (cs1 theta) as Hcs.
  pose proof (vnorm_pos axis Hne) as HL.
  set (n := vdivs axis (vnorm axis)) in *.
  assert (Hax : axis = vscale (vnorm axis) n).
  { unfold n. set (L := vnorm axis) in *. clearbody L. destruct axis as [a b c]. runfold.
    apply V3_eq; simpl; field; lra. }
  eexists; split; [reflexivity|].
  split; [apply rot_unit_orth; assumption|].
  split; [apply rot_unit_orth'; assumption|].
  split; [apply rot_unit_det; assumption|].
  split; [|split; [|apply rot_unit_trace; assumption]].
  - rewrite Hax at 1. rewrite mvec_scale. rewrite rot_unit_axis by assumption. symmetry; exact Hax.
  - rewrite Hax at 1. rewrite vecm_scale. rewrite rot_unit_axis_left by assumption. symmetry; exact Hax.
Qed.

Lemma rotation_inverse axis theta M : axis <> vzero ->
  rotation_matrix axis theta = Ok M -> rotation_matrix axis (- theta) = Ok (mtrans M).
Proof.
  intros Hne. unfold rotation_matrix. rewrite !rotation_matrix_cs_ok by assumption.
  intros E; inversion E; subst. rewrite cos_neg, sin_neg. rewrite rot_unit_neg. reflexivity.
Qed.

Lemma rotation_compose axis a b Ma Mb : axis <> vzero ->
  rotation_matrix axis a = Ok Ma -> rotation_matrix axis b = Ok Mb ->
  rotation_matrix axis (a + b) = Ok (mmul Ma Mb).
Proof.
  intros Hne. unfold rotation_matrix. rewrite !rotation_matrix_cs_ok by assumption.
  intros Ea Eb; inversion Ea; inversion Eb; subst.
  destruct (vnormalize_ok axis Hne) as [_ U].
  rewrite rot_unit_compose by assumption. rewrite cos_plus, sin_plus. reflexivity.
Qed.

Lemma rotation_axis_length axis theta k : axis <> vzero -> 0 < k ->
  rotation_matrix (vscale k axis) theta = rotation_matrix axis theta.
Proof.
  intros Hne Hk. unfold rotation_matrix.
  rewrite !rotation_matrix_cs_ok by (try apply vscale_ne; assumption).
  rewrite normalize_scale by assumption. reflexivity.
Qed.

Lemma rotation_zero_axis theta : rotation_matrix vzero theta = Err EDiv0.
Proof. unfold rotation_matrix, rotation_matrix_cs. rewrite vnormalize_zero. reflexivity. Qed.

Lemma calcule_base_frame (p0 p1 p2 : V3 R) : p0 <> p2 ->
  exists F, calcule_base p0 p1 p2 = Ok F /\ frame_good F p0 p1 p2 /\
    Rabs (vdot (f3 F) (vsub p1 p0)) <= (1/1000000) * vnorm (vsub p1 p0).
Proof.
  intros Hne. destruct (calcule_base_total p0 p1 p2 Hne) as (F & br & E & G & B).
  exists F. unfold calcule_base. rewrite E. split; [reflexivity|]. split; [exact G|].
  destruct br; try exact B. rewrite B. rewrite Rabs_R0.
  apply Rmult_le_pos; [lra|unfold vnorm; apply sqrt_pos].
Qed.

(* generic (non-collinear) triple: v3 exactly normal to the plane *)
Lemma calcule_base_regular (p0 p1 p2 : V3 R) F :
  calcule_base_br p0 p1 p2 = Ok (F, CbRegular) -> p0 <> p2 ->
  vdot (f3 F) (vsub p1 p0) = 0 /\ vdot (f3 F) (vsub p2 p0) = 0.
Proof.
  intros E Hne. destruct (calcule_base_total p0 p1 p2 Hne) as (F' & br & E' & G & B).
  rewrite E in E'. inversion E'; subst. split; [exact B| apply G].
Qed.

Lemma calcule_base_coincident (p0 p1 : V3 R) : calcule_base p0 p1 p0 = Err EDiv0.
Proof.
  unfold calcule_base, calcule_base_br.
  assert (E : vsub p0 p0 = @vzero R _).
  { destruct p0 as [a b c]. runfold. apply V3_eq; simpl; ring. }
  rewrite E, vnormalize_zero. reflexivity.
Qed.
