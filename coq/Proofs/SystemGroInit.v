(* C12, part 1: what SystemGro.__init__ builds.
   - the residue tiling as a pure function of the records (split_res) and its characterisation;
   - _parse_gro computes the fold of _add_residue_init over that tiling (the fuel suffices);
   - the invariant of _add_residue_init (templates / key map / run-length list). *)
From Coq Require Import ZArith String Bool Arith Lia List.
From GM Require Import Base.Res Model.SystemGro.
Import ListNotations.
Local Open Scope nat_scope.

(* ------------------------------------------------------------------ small list facts *)
Lemma nth_error_app_len {A} (l1 l2 : list A) a : nth_error (l1 ++ a :: l2) (length l1) = Some a.
Proof. rewrite nth_error_app2 by lia. rewrite Nat.sub_diag. reflexivity. Qed.

Lemma nth_error_app_old {A} (l : list A) x j t : nth_error l j = Some t -> nth_error (l ++ [x]) j = Some t.
Proof.
  intros H. rewrite nth_error_app1; [exact H|]. apply nth_error_Some. rewrite H; discriminate.
Qed.

(* ------------------------------------------------------------------ keys *)
Definition akey (a : atom) : Z * string := (a_resid a, a_resname a).

Lemma same_res_true a prev : same_res a prev = true <-> akey a = prev.
Proof.
  unfold same_res, akey. destruct prev as [z n]; simpl. rewrite andb_true_iff, Z.eqb_eq, String.eqb_eq.
  split; [intros [-> ->]; reflexivity | intros H; inversion H; auto].
Qed.
Lemma same_res_false a prev : same_res a prev = false <-> akey a <> prev.
Proof.
  split.
  - intros H E. apply same_res_true in E. congruence.
  - intros H. destruct (same_res a prev) eqn:E; [apply same_res_true in E; contradiction | reflexivity].
Qed.

Lemma key_eqb_eq (k1 k2 : key) : key_eqb k1 k2 = true <-> k1 = k2.
Proof.
  unfold key_eqb. destruct k1, k2; simpl. rewrite andb_true_iff, String.eqb_eq, Nat.eqb_eq.
  split; [intros [-> ->]; reflexivity | intros H; inversion H; auto].
Qed.
Lemma key_eqb_refl k : key_eqb k k = true.
Proof. apply key_eqb_eq; reflexivity. Qed.
Lemma key_eqb_neq k1 k2 : k1 <> k2 -> key_eqb k1 k2 = false.
Proof. intros H. destruct (key_eqb k1 k2) eqn:E; [apply key_eqb_eq in E; contradiction | reflexivity]. Qed.

Lemma pk_get_set_same k v d : pk_get k (pk_set k v d) = Some v.
Proof.
  induction d as [|[k' v'] t IH]; simpl.
  - rewrite key_eqb_refl; reflexivity.
  - destruct (key_eqb k k') eqn:E; simpl; rewrite E; auto.
Qed.
Lemma pk_get_set_other k k' v d : k <> k' -> pk_get k' (pk_set k v d) = pk_get k' d.
Proof.
  intros N. induction d as [|[k2 v2] t IH]; simpl.
  - rewrite key_eqb_neq; auto.
  - destruct (key_eqb k k2) eqn:E; simpl.
    + apply key_eqb_eq in E; subst k2. rewrite key_eqb_neq; auto.
    + rewrite IH; reflexivity.
Qed.

(* ------------------------------------------------------------------ the tiling as a pure function *)
Fixpoint split_acc (cur : list atom) (prev : Z * string) (l : list atom) : list (list atom) :=
  match l with
  | [] => [cur]
  | a :: t => if same_res a prev then split_acc (cur ++ [a]) prev t
              else cur :: split_acc [a] (akey a) t
  end.
Definition split_res (l : list atom) : list (list atom) :=
  match l with
  | [] => []
  | a :: t => split_acc [a] (akey a) t
  end.

Definition all_key (k : Z * string) (g : list atom) : Prop := g <> [] /\ forall a, In a g -> akey a = k.

(* non-empty list of groups, the first with key k, consecutive keys different *)
Inductive chain : Z * string -> list (list atom) -> Prop :=
| chain_one k g : all_key k g -> chain k [g]
| chain_cons k k' g t : all_key k g -> k <> k' -> chain k' t -> chain k (g :: t).

Lemma split_acc_concat l : forall cur prev, concat (split_acc cur prev l) = cur ++ l.
Proof.
  induction l as [|a t IH]; intros cur prev; simpl.
  - rewrite app_nil_r; reflexivity.
  - destruct (same_res a prev); simpl; rewrite IH; [rewrite <- app_assoc|]; reflexivity.
Qed.

Lemma split_acc_chain l : forall cur prev, all_key prev cur -> chain prev (split_acc cur prev l).
Proof.
  induction l as [|a t IH]; intros cur prev H; simpl.
  - constructor; exact H.
  - destruct (same_res a prev) eqn:E.
    + apply IH. apply same_res_true in E. destruct H as [Hn Hk]. split.
      * destruct cur; discriminate.
      * intros b Hb. apply in_app_or in Hb. destruct Hb as [Hb|[<-|[]]]; auto.
    + apply same_res_false in E. econstructor; [exact H| |apply IH].
      * intros Q; apply E; symmetry; exact Q.
      * split; [discriminate|]. intros b [<-|[]]; reflexivity.
Qed.

Lemma split_res_concat l : concat (split_res l) = l.
Proof. destruct l; simpl; [reflexivity|]. rewrite split_acc_concat; reflexivity. Qed.

Lemma split_res_chain a t : chain (akey a) (split_res (a :: t)).
Proof. simpl. apply split_acc_chain. split; [discriminate|]. intros b [<-|[]]; reflexivity. Qed.

Lemma chain_all_key k gs : chain k gs -> Forall (fun g => exists k', all_key k' g) gs.
Proof. induction 1; constructor; eauto. Qed.

Lemma chain_nonempty k gs : chain k gs -> gs <> [].
Proof. destruct 1; discriminate. Qed.

(* consecutive groups carry different keys *)
Lemma chain_adjacent k gs : chain k gs -> forall i g h, nth_error gs i = Some g -> nth_error gs (S i) = Some h ->
  forall a b, In a g -> In b h -> akey a <> akey b.
Proof.
  induction 1 as [k g Hg | k k' g t Hg Hne Hc IH]; intros i g0 h Hi Hs a b Ha Hb.
  - destruct i; simpl in Hs; [discriminate | destruct i; discriminate].
  - destruct i as [|i]; simpl in Hi, Hs.
    + inversion Hi; subst g0. destruct Hg as [_ Hg]. rewrite (Hg a Ha).
      inversion Hc as [k1 g1 Hg1 | k1 k2 g1 t1 Hg1 _ _]; subst; simpl in Hs; inversion Hs; subst h;
        destruct Hg1 as [_ Hg1]; rewrite (Hg1 b Hb); exact Hne.
    + eapply IH; eauto.
Qed.

(* ------------------------------------------------------------------ the reader during construction *)
Lemma next_rec_at f pre a post :
  g_records f = pre ++ a :: post ->
  next_rec f (mkReader (length pre) (length pre)) = (mkReader (S (length pre)) (S (length pre)), Ok a).
Proof.
  intros E. unfold next_rec, natoms; simpl. rewrite E.
  replace (length (pre ++ a :: post) <=? length pre) with false.
  - rewrite nth_error_app_len. reflexivity.
  - symmetry. apply Nat.leb_gt. rewrite app_length; simpl; lia.
Qed.

Lemma next_rec_end f p : natoms f <= p ->
  next_rec f (mkReader p (natoms f)) = (mkReader (S p) (natoms f), Err EStop).
Proof. intros H. unfold next_rec; simpl. rewrite Nat.leb_refl. reflexivity. Qed.

(* the fold _parse_gro performs over the tiling *)
Fixpoint fold_close (gs : list (list atom)) (s : sysgro) : res sysgro :=
  match gs with
  | [] => Ok s
  | g :: t => match close_residue s g with
              | Ok s' => fold_close t s'
              | Err e => Err e
              end
  end.

Lemma parse_loop_spec f l : forall pre cur prev s fuel,
  g_records f = pre ++ l -> length l < fuel ->
  snd (parse_loop f fuel cur prev s (mkReader (length pre) (length pre))) = fold_close (split_acc cur prev l) s.
Proof.
  induction l as [|a t IH]; intros pre cur prev s fuel E Hf.
  - destruct fuel as [|fuel]; [simpl in Hf; lia|]. simpl.
    assert (N : natoms f = length pre) by (unfold natoms; rewrite E, app_nil_r; reflexivity).
    rewrite <- N at 2. rewrite next_rec_end by lia. simpl.
    destruct (close_residue s cur); reflexivity.
  - destruct fuel as [|fuel]; [simpl in Hf; lia|]. simpl in Hf.
    cbn [parse_loop]. rewrite (next_rec_at f pre a t E).
    assert (E' : g_records f = (pre ++ [a]) ++ t) by (rewrite <- app_assoc; exact E).
    assert (L : length (pre ++ [a]) = S (length pre)) by (rewrite app_length; simpl; lia).
    cbn [split_acc]. destruct (same_res a prev).
    + rewrite <- L. apply IH; [exact E' | lia].
    + cbn [fold_close]. destruct (close_residue s cur) as [s'|e]; [|reflexivity].
      rewrite <- L. apply IH; [exact E' | lia].
Qed.

Lemma init_spec f a t : g_records f = a :: t -> snd (init f) = fold_close (split_res (a :: t)) empty_sys.
Proof.
  intros E. unfold init, parse_gro, bindM, open_reader.
  pose proof (next_rec_at f [] a t E) as Hn. simpl in Hn. rewrite Hn.
  change 1 with (length [a]). unfold natoms. rewrite E.
  apply (parse_loop_spec f t [a]); [exact E | simpl; lia].
Qed.

Lemma init_empty f : g_records f = [] -> snd (init f) = Err EStop.
Proof. intros E. unfold init, parse_gro, bindM, open_reader, next_rec, natoms. rewrite E. reflexivity. Qed.

(* ------------------------------------------------------------------ Residue / AtomGro facts *)
Lemma all_key_residname k g a b : all_key k g -> In a g -> In b g -> residname a = residname b.
Proof.
  intros [_ H] Ha Hb. unfold residname. pose proof (H a Ha) as Ea. pose proof (H b Hb) as Eb.
  unfold akey in *. rewrite <- Eb in Ea. inversion Ea. reflexivity.
Qed.

Lemma mk_residue_ok k g : all_key k g -> mk_residue g = Ok g.
Proof.
  intros H. destruct g as [|a rest]; [destruct H as [N _]; contradiction|]. simpl.
  replace (forallb _ rest) with true; [reflexivity|]. symmetry. apply forallb_forall.
  intros b Hb. apply String.eqb_eq. eapply all_key_residname; eauto; simpl; auto.
Qed.

Definition tkey (t : residue) : option key :=
  match t with [] => None | a :: _ => Some (a_resname a, length t) end.

Lemma residue_key_tkey r k : residue_key r = Ok k <-> tkey r = Some k.
Proof. destruct r; simpl; split; intros H; inversion H; reflexivity. Qed.

Lemma residue_eqb_key t r : r <> [] -> residue_eqb t r = true -> tkey t = tkey r.
Proof.
  intros N H. unfold residue_eqb in H. apply andb_true_iff in H. destruct H as [L A].
  apply Nat.eqb_eq in L. destruct r as [|a r']; [contradiction|]. destruct t as [|b t']; [discriminate|].
  simpl in A. apply andb_true_iff in A. destruct A as [A _]. unfold atom_eqb in A.
  apply andb_true_iff in A. destruct A as [A _]. apply String.eqb_eq in A.
  unfold tkey. rewrite L, A. reflexivity.
Qed.

(* ------------------------------------------------------------------ the run-length list *)
Lemma info_all_bump idx l :
  flat_map (fun p => repeat (fst p) (snd p)) (bump idx l) = flat_map (fun p => repeat (fst p) (snd p)) l ++ [idx].
Proof.
  induction l as [|[i c] t IH]; [reflexivity|].
  destruct t as [|q t'].
  - simpl. destruct (Nat.eqb_spec i idx) as [->|N]; simpl.
    + rewrite !app_nil_r. rewrite <- repeat_cons. reflexivity.
    + rewrite !app_nil_r. reflexivity.
  - change (bump idx ((i, c) :: q :: t')) with ((i, c) :: bump idx (q :: t')).
    cbn [flat_map]. rewrite IH. rewrite app_assoc. reflexivity.
Qed.

Lemma bump_counts idx l : Forall (fun p => 1 <= snd p) l -> Forall (fun p => 1 <= snd p) (bump idx l).
Proof.
  induction l as [|[i c] t IH]; intros H.
  - repeat constructor.
  - destruct t as [|q t'].
    + simpl. inversion H; subst. destruct (Nat.eqb i idx); repeat constructor; simpl in *; lia.
    + change (bump idx ((i, c) :: q :: t')) with ((i, c) :: bump idx (q :: t')).
      inversion H; subst. constructor; auto.
Qed.

Lemma sys_len_info s : sys_len s = length (info_all s).
Proof.
  unfold sys_len, info_all. induction (s_ordered s) as [|[i c] t IH]; simpl; [reflexivity|].
  rewrite app_length, repeat_length, IH. reflexivity.
Qed.

(* ------------------------------------------------------------------ invariant of _add_residue_init *)
(* a template index stands for residue g: the template has g's (name, size) key - hence its length *)
Definition stands_for (tpl : list residue) (idx : nat) (g : residue) : Prop :=
  exists t, nth_error tpl idx = Some t /\ tkey t = tkey g.

Record wf (s : sysgro) : Prop := mkWf {
  wf_sound : forall k j, pk_get k (s_pk s) = Some j ->
             exists t, nth_error (s_templates s) j = Some t /\ tkey t = Some k;
  wf_complete : forall t, In t (s_templates s) ->
                exists k j, tkey t = Some k /\ pk_get k (s_pk s) = Some j;
  wf_counts : Forall (fun p => 1 <= snd p) (s_ordered s)
}.

Lemma wf_empty : wf empty_sys.
Proof. constructor; simpl; [discriminate | contradiction | constructor]. Qed.

Lemma stands_for_grow tpl x idx g : stands_for tpl idx g -> stands_for (tpl ++ [x]) idx g.
Proof. intros [t [H K]]. exists t. split; [apply nth_error_app_old; exact H | exact K]. Qed.

Lemma add_residue_init_inv s g : wf s -> g <> [] ->
  exists s' idx, add_residue_init s g = Ok s' /\ wf s' /\
    info_all s' = info_all s ++ [idx] /\ stands_for (s_templates s') idx g /\
    (exists ext, s_templates s' = s_templates s ++ ext).
Proof.
  intros W N. destruct g as [|a0 g']; [contradiction|].
  set (g := a0 :: g') in *. set (k := (a_resname a0, length g)).
  assert (Kg : tkey g = Some k) by reflexivity.
  unfold add_residue_init. change (residue_key g) with (Ok k : res key). cbn [bind].
  destruct (existsb (fun t => residue_eqb t g) (s_templates s)) eqn:Ex.
  - (* an equal template exists: the key is in the map *)
    apply existsb_exists in Ex. destruct Ex as [t [Ht Eq]].
    apply residue_eqb_key in Eq; [|discriminate]. rewrite Kg in Eq.
    destruct (wf_complete s W t Ht) as [k1 [j [K1 G]]]. rewrite Eq in K1. inversion K1; subst k1.
    rewrite G. exists (mkSys (s_templates s) (s_pk s) (bump j (s_ordered s))), j.
    split; [reflexivity|]. split; [|split; [|split]].
    + constructor; simpl; [apply (wf_sound s W) | apply (wf_complete s W) | apply bump_counts, (wf_counts s W)].
    + unfold info_all; simpl. apply info_all_bump.
    + simpl. destruct (wf_sound s W k j G) as [t' [Ht' Kt']]. exists t'. split; [exact Ht'|]. rewrite Kt', Kg; reflexivity.
    + exists []. simpl. rewrite app_nil_r. reflexivity.
  - (* new template, the key is set (possibly overwritten) *)
    cbn [s_pk s_templates s_ordered]. rewrite pk_get_set_same.
    set (j := length (s_templates s)).
    exists (mkSys (s_templates s ++ [g]) (pk_set k j (s_pk s)) (bump j (s_ordered s))), j.
    split; [reflexivity|]. split; [|split; [|split]].
    + constructor; cbn [s_pk s_templates s_ordered].
      * intros k1 j1 G. destruct (key_eqb k k1) eqn:E.
        -- apply key_eqb_eq in E; subst k1. rewrite pk_get_set_same in G. inversion G; subst j1.
           exists g. split; [apply (nth_error_app_len (s_templates s) [] g) | exact Kg].
        -- assert (NE : k <> k1) by (intros Q; subst; rewrite key_eqb_refl in E; discriminate).
           rewrite pk_get_set_other in G by exact NE.
           destruct (wf_sound s W k1 j1 G) as [t [Ht Kt]]. exists t. split; [apply nth_error_app_old; exact Ht | exact Kt].
      * intros t Ht. apply in_app_or in Ht. destruct Ht as [Ht|[<-|[]]].
        -- destruct (wf_complete s W t Ht) as [k1 [j1 [K1 G]]]. exists k1.
           destruct (key_eqb k k1) eqn:E.
           ++ apply key_eqb_eq in E; subst k1. exists j. split; [exact K1 | apply pk_get_set_same].
           ++ assert (NE : k <> k1) by (intros Q; subst; rewrite key_eqb_refl in E; discriminate).
              exists j1. split; [exact K1 | rewrite pk_get_set_other by exact NE; exact G].
        -- exists k, j. split; [exact Kg | apply pk_get_set_same].
      * apply bump_counts, (wf_counts s W).
    + unfold info_all; simpl. apply info_all_bump.
    + simpl. exists g. split; [apply (nth_error_app_len (s_templates s) [] g) | reflexivity].
    + exists [g]. reflexivity.
Qed.

(* the whole construction: every residue of the tiling is recorded under an index that stands for it *)
Lemma fold_close_inv gs : forall s done, wf s -> Forall (fun g => exists k, all_key k g) gs ->
  Forall2 (stands_for (s_templates s)) (info_all s) done ->
  exists s', fold_close gs s = Ok s' /\ wf s' /\ Forall2 (stands_for (s_templates s')) (info_all s') (done ++ gs).
Proof.
  induction gs as [|g t IH]; intros s done W U F.
  - exists s. rewrite app_nil_r. auto.
  - inversion U as [|g0 t0 [k Hk] Ut]; subst.
    cbn [fold_close]. unfold close_residue. rewrite (mk_residue_ok k g Hk). cbn [bind].
    destruct (add_residue_init_inv s g W (proj1 Hk)) as [s1 [idx [E [W1 [I [St [ext Ex]]]]]]].
    rewrite E.
    destruct (IH s1 (done ++ [g]) W1 Ut) as [s' [E' [W' F']]].
    + rewrite I. apply Forall2_app; [|constructor; [exact St | constructor]].
      rewrite Ex. clear -F. induction F; constructor; auto.
      destruct H as [t0 [H1 H2]]. exists t0. split; [|exact H2].
      rewrite nth_error_app1; [exact H1|]. apply nth_error_Some. rewrite H1; discriminate.
    + exists s'. rewrite <- app_assoc in F'. auto.
Qed.

Theorem init_ok f : g_records f <> [] ->
  exists st s, init f = (st, Ok s) /\ wf s /\
    Forall2 (stands_for (s_templates s)) (info_all s) (split_res (g_records f)).
Proof.
  intros N. destruct (g_records f) as [|a t] eqn:E; [contradiction|].
  pose proof (init_spec f a t E) as S.
  destruct (fold_close_inv (split_res (a :: t)) empty_sys [] wf_empty) as [s [F [W Fa]]].
  - eapply chain_all_key, split_res_chain.
  - constructor.
  - rewrite F in S. destruct (init f) as [st r]. simpl in S. subst r. exists st, s. auto.
Qed.

Lemma init_inv f st s : init f = (st, Ok s) ->
  g_records f <> [] /\ wf s /\ Forall2 (stands_for (s_templates s)) (info_all s) (split_res (g_records f)).
Proof.
  intros H. destruct (g_records f) as [|a t] eqn:E.
  - pose proof (init_empty f E) as Q. rewrite H in Q. discriminate.
  - assert (N : g_records f <> []) by (rewrite E; discriminate).
    destruct (init_ok f N) as [st' [s' [H' [W F]]]]. rewrite H in H'. inversion H'; subst.
    rewrite <- E. auto.
Qed.
