(* A concrete text inside the domain of the C16 theorems (non-vacuity): a repeated [ dihedrals ] (D6),
   a content line with an empty trailing comment `1 2 3 ;` (D7), a trailing comment starting with '#' (D12),
   several trailing comments, a preprocessor line and a last line without newline. *)
From Coq Require Import List Ascii String Bool Arith ZArith.
From GM Require Import Base.Res Base.StrItp Model.Itp Proofs.ItpSpec Proofs.TopologyParse.
Import ListNotations.
Local Open Scope string_scope.

Definition nl : string := String (ascii_of_nat 10) EmptyString.

Definition ex16_text : str := la (
  "; title" ++ nl ++ "[ moleculetype ]" ++ nl ++ "M 1" ++ nl ++
  "[ atoms ]" ++ nl ++ "1 X 1 R A 1 ; #1 atom" ++ nl ++
  "[ dihedrals ]" ++ nl ++ "1 2 1 2 9" ++ nl ++
  "[ bonds ]" ++ nl ++ "1 2 3 ;" ++ nl ++
  "[ dihedrals ]" ++ nl ++ "2 1 2 1 4 ; improper ; x" ++ nl ++ "#ifdef A" ++ nl ++ "1 1 1 1 2;")%string.

Definition ex16_dihedrals : list entry :=
  [ ([la "1"; la "2"; la "1"; la "2"; la "9"], []);
    ([la "2"; la "1"; la "2"; la "1"; la "4"], la "improper ; x");
    ([], la "#ifdef A");
    ([la "1"; la "1"; la "1"; la "1"; la "2"], []) ].

Fixpoint assoc_entries (n : str) (l : list (str * list entry)) : list entry :=
  match l with [] => [] | (k, v) :: r => if str_eqb k n then v else assoc_entries n r end.

Lemma ex16_domain : no_header_sec (lines ex16_text).
Proof. apply no_header_secb_ok. vm_compute. reflexivity. Qed.

Definition ex16_claim : Prop := exists f, itp_read ex16_text = Ok f /\
  map fst (snd (abs f)) = [la "moleculetype"; la "atoms"; la "dihedrals"; la "bonds"] /\
  assoc_entries (la "dihedrals") (snd (abs f)) = ex16_dihedrals /\
  assoc_entries (la "bonds") (snd (abs f)) = [([la "1"; la "2"; la "3"], [])] /\
  assoc_entries (la "atoms") (snd (abs f)) = [([la "1"; la "X"; la "1"; la "R"; la "A"; la "1"], la "#1 atom")].
Lemma ex16_parses : ex16_claim.
Proof. unfold ex16_claim. eexists. split; [vm_compute; reflexivity|]. vm_compute. repeat split. Qed.

(* the round trip computed on this text: the written file, re-read, has the same abstraction *)
Lemma ex16_roundtrip_value : forall f, itp_read ex16_text = Ok f ->
  exists f', itp_read (itp_write f) = Ok f' /\ abs f' = abs f.
Proof.
  intros f H. vm_compute in H. inversion H; subst f; clear H.
  eexists. split; [vm_compute; reflexivity|]. vm_compute. reflexivity.
Qed.
