(* Exactness of the discovery: when, during the (sorted) scan, the start system accepts exactly the species'
   start topologies, every species gets exactly its own (start topology, end coordinates, end topology). *)
From Coq Require Import String Ascii List Bool Arith Permutation.
From GM Require Import Base.Res Gen.SrcConsts Model.Cli Proofs.CliSort Proofs.CliInv.
Import ListNotations.
Open Scope string_scope.

(* ------------------------------------------------------------------ dictionaries: get after set *)
Lemma dget_dset n k v d : dget n (dset k v d) = if String.eqb n k then Some v else dget n d.
Proof.
  induction d as [|[k0 v0] r IH]; simpl.
  - reflexivity.
  - destruct (String.eqb_spec k k0) as [->|Hk]; simpl.
    + destruct (String.eqb n k0); reflexivity.
    + rewrite IH. destruct (String.eqb_spec n k0) as [->|Hn]; [|reflexivity].
      destruct (String.eqb_spec k0 k); [congruence | reflexivity].
Qed.

Lemma ikey_eqb_spec a b : reflect (a = b) (ikey_eqb a b).
Proof. destruct a, b; simpl; constructor; congruence. Qed.

Lemma iget_iset k' k v i : iget k' (iset k v i) = if ikey_eqb k' k then Some v else iget k' i.
Proof.
  induction i as [|[k0 v0] r IH]; simpl.
  - reflexivity.
  - destruct (ikey_eqb_spec k k0) as [->|Hk]; simpl.
    + destruct (ikey_eqb k' k0); reflexivity.
    + rewrite IH. destruct (ikey_eqb_spec k' k0) as [->|Hn]; [|reflexivity].
      destruct (ikey_eqb_spec k0 k); [congruence | reflexivity].
Qed.

Lemma ihas_iset k' k v i : ihas k' (iset k v i) = ikey_eqb k' k || ihas k' i.
Proof. unfold ihas. rewrite iget_iset. destruct (ikey_eqb k' k); reflexivity. Qed.

Lemma find_app {A} (P : A -> bool) a b :
  find P (a ++ b) = match find P a with Some x => Some x | None => find P b end.
Proof. induction a as [|x a IH]; simpl; [reflexivity|]. destruct (P x); [reflexivity | exact IH]. Qed.

(* ------------------------------------------------------------------ ground truth *)
Record species := { sname : string; s_cg : file; s_aa : option file; s_coor : option file }.

Definition is_cg (sp : list species) (f : file) : bool := existsb (fun x => String.eqb (s_cg x) f) sp.

(* what the discovery must report for a species *)
Definition entry_is (x : species) (i : idict) : Prop :=
  iget TopCG i = Some (s_cg x) /\ iget TopAA i = s_aa x /\
  iget CoorAA i = match s_aa x with Some _ => s_coor x | None => None end.

Section Exact.
  Variable sys : Type.
  Variable try_add : sys -> file -> option sys.
  Variable name_of : file -> option string.
  Variable pairs_with : file -> file -> bool.

  (* the scan of the first loop, every candidate annotated with the system's answer *)
  Fixpoint annot (s : sys) (tm : list (file * string)) : list (file * string * bool) :=
    match tm with
    | [] => []
    | (f, n) :: r =>
        match try_add s f with
        | Some s' => (f, n, true) :: annot s' r
        | None => (f, n, false) :: annot s r
        end
    end.

  (* the domain of the property: species with distinct names, each with its start topology among the
     candidates; during the scan the system accepts exactly the start topologies; the only other candidate
     topology named like a species is its end topology; the only coordinate file that pairs with that
     topology is its end coordinate file *)
  Definition ground_truth (s0 : sys) (tops coords : list file) (sp : list species) : Prop :=
    let tm := parse_tops name_of tops in
    NoDup (map sname sp) /\
    (forall f n b, In (f, n, b) (annot s0 tm) -> b = is_cg sp f) /\
    (forall x, In x sp -> In (s_cg x, sname x) tm) /\
    (forall f n, In (f, n) tm -> is_cg sp f = false -> forall x, In x sp -> n = sname x -> s_aa x = Some f) /\
    (forall x t, In x sp -> s_aa x = Some t -> In (t, sname x) tm /\ is_cg sp t = false) /\
    (forall x t c, In x sp -> s_aa x = Some t -> In c coords -> pairs_with c t = true -> s_coor x = Some c) /\
    (forall x t c, In x sp -> s_aa x = Some t -> s_coor x = Some c -> In c coords /\ pairs_with c t = true).

  (* ---------------------------------------------------------------- pure versions of the loops *)
  Variable acc : file -> bool.

  Fixpoint loop1p (tm : list (file * string)) (d : added) : added :=
    match tm with
    | [] => d
    | (f, n) :: r => if acc f then loop1p r (dset n [(TopCG, f)] d) else loop1p r d
    end.

  Fixpoint loop2p (tm : list (file * string)) (d : added) : added :=
    match tm with
    | [] => d
    | (f, n) :: r =>
        if negb (acc f) then
          match dget n d with
          | Some i => if ihas TopAA i then loop2p r d else loop2p r (dset n (iset TopAA f i) d)
          | None => loop2p r d
          end
        else loop2p r d
    end.

  Definition upd3 (c : file) (i : idict) : idict :=
    if negb (ihas CoorAA i) && ihas TopAA i then
      match iget TopAA i with
      | Some t => if pairs_with c t then iset CoorAA c i else i
      | None => i
      end
    else i.
  Definition step3p (c : file) (e : string * idict) : string * idict := (fst e, upd3 c (snd e)).
  Fixpoint loop3p (coords : list file) (d : added) : added :=
    match coords with
    | [] => d
    | c :: r => loop3p r (map (step3p c) d)
    end.

  (* ---------------------------------------------------------------- bridges *)
  Lemma bridge1 tm : forall s used d,
    (forall f n b, In (f, n, b) (annot s tm) -> b = acc f) ->
    exists s' used', loop1 sys try_add s tm used d = (s', used', loop1p tm d) /\
                     forall g, mem g used' = mem g used || (mem g (map fst tm) && acc g).
  Proof.
    induction tm as [|[f n] r IH]; intros s used d H; simpl.
    - exists s, used. split; [reflexivity|]. intros g. rewrite orb_false_r. reflexivity.
    - simpl in H. destruct (try_add s f) as [s1|] eqn:E.
      + assert (A : acc f = true) by (symmetry; apply (H f n true); left; reflexivity).
        rewrite A.
        destruct (IH s1 (f :: used) (dset n [(TopCG, f)] d)) as [s' [used' [H1 H2]]].
        { intros f0 n0 b0 Hin. apply (H f0 n0 b0). right; exact Hin. }
        exists s', used'. split; [exact H1|]. intros g. rewrite H2. simpl.
        destruct (String.eqb_spec g f) as [->|Hg]; simpl; try rewrite A;
          repeat match goal with |- context [mem ?a ?b] => destruct (mem a b) end; try destruct (acc g); reflexivity.
      + assert (A : acc f = false) by (symmetry; apply (H f n false); left; reflexivity).
        rewrite A.
        destruct (IH s used d) as [s' [used' [H1 H2]]].
        { intros f0 n0 b0 Hin. apply (H f0 n0 b0). right; exact Hin. }
        exists s', used'. split; [exact H1|]. intros g. rewrite H2. simpl.
        destruct (String.eqb_spec g f) as [->|Hg]; simpl; try rewrite A;
          repeat match goal with |- context [mem ?a ?b] => destruct (mem a b) end; try destruct (acc g); reflexivity.
  Qed.

  Lemma bridge2 used tm : (forall f n, In (f, n) tm -> mem f used = acc f) ->
    forall d w, fst (loop2 tm used d w) = loop2p tm d.
  Proof.
    induction tm as [|[f n] r IH]; intros H d w; simpl; [reflexivity|].
    assert (Hr : forall f0 n0, In (f0, n0) r -> mem f0 used = acc f0) by (intros; eapply H; right; eauto).
    rewrite (H f n (or_introl eq_refl)).
    destruct (negb (acc f)); [|apply IH; exact Hr].
    destruct (dget n d) as [i|]; [|apply IH; exact Hr].
    destruct (ihas TopAA i); apply IH; exact Hr.
  Qed.

  Lemma step3_entry_pure c e : step3_entry pairs_with c e = Ok (step3p c e).
  Proof.
    destruct e as [n i]. unfold step3_entry, step3p, upd3. simpl.
    destruct (negb (ihas CoorAA i) && ihas TopAA i) eqn:G; [|reflexivity].
    apply andb_true_iff in G. destruct G as [_ G]. unfold ihas in G.
    destruct (iget TopAA i) as [t|]; [|discriminate].
    destruct (pairs_with c t); reflexivity.
  Qed.

  Lemma mapM_step3 c d : mapM (step3_entry pairs_with c) d = Ok (map (step3p c) d).
  Proof.
    induction d as [|e r IH]; simpl; [reflexivity|].
    rewrite step3_entry_pure, IH. reflexivity.
  Qed.

  Lemma bridge3 coords : forall d, loop3 pairs_with coords d = Ok (loop3p coords d).
  Proof.
    induction coords as [|c r IH]; intros d; simpl; [reflexivity|].
    rewrite mapM_step3. simpl. apply IH.
  Qed.

  (* ---------------------------------------------------------------- what each pure loop leaves under a name *)
  Lemma loop1p_get n tm : forall d,
    dget n (loop1p tm d) =
    match find (fun p => acc (fst p) && String.eqb (snd p) n) (rev tm) with
    | Some p => Some [(TopCG, fst p)]
    | None => dget n d
    end.
  Proof.
    induction tm as [|[f n0] r IH]; intros d; simpl; [reflexivity|].
    rewrite find_app. simpl.
    destruct (acc f) eqn:A; rewrite IH; simpl.
    - destruct (find _ (rev r)); [reflexivity|].
      rewrite dget_dset, (String.eqb_sym n n0). destruct (String.eqb n0 n); reflexivity.
    - destruct (find _ (rev r)); reflexivity.
  Qed.

  Lemma loop2p_get n tm : forall d,
    dget n (loop2p tm d) =
    match dget n d with
    | None => None
    | Some i =>
        Some (if ihas TopAA i then i
              else match find (fun p => negb (acc (fst p)) && String.eqb (snd p) n) tm with
                   | Some p => iset TopAA (fst p) i
                   | None => i
                   end)
    end.
  Proof.
    induction tm as [|[f n0] r IH]; intros d; simpl.
    - destruct (dget n d) as [i|]; [|reflexivity]. destruct (ihas TopAA i); reflexivity.
    - destruct (negb (acc f)) eqn:A; simpl.
      + destruct (dget n0 d) as [i0|] eqn:G0.
        * destruct (ihas TopAA i0) eqn:T0.
          -- rewrite IH. destruct (String.eqb_spec n0 n) as [->|Hn]; [|reflexivity].
             rewrite G0, T0. reflexivity.
          -- rewrite IH, dget_dset, (String.eqb_sym n n0).
             destruct (String.eqb_spec n0 n) as [->|Hn].
             ++ rewrite G0, T0, ihas_iset. reflexivity.
             ++ reflexivity.
        * rewrite IH. destruct (String.eqb_spec n0 n) as [->|Hn]; [|reflexivity].
          rewrite G0. reflexivity.
      + apply IH.
  Qed.

  Lemma step3p_get n c d : dget n (map (step3p c) d) = option_map (upd3 c) (dget n d).
  Proof.
    induction d as [|[n0 i0] r IH]; simpl; [reflexivity|].
    destruct (String.eqb n n0); [reflexivity | exact IH].
  Qed.

  Definition upd3s (coords : list file) (i : idict) : idict := fold_left (fun i c => upd3 c i) coords i.

  Lemma loop3p_get n coords : forall d, dget n (loop3p coords d) = option_map (upd3s coords) (dget n d).
  Proof.
    induction coords as [|c r IH]; intros d; simpl.
    - destruct (dget n d); reflexivity.
    - rewrite IH, step3p_get. destruct (dget n d); reflexivity.
  Qed.

  Lemma upd3s_cons c r i : upd3s (c :: r) i = upd3s r (upd3 c i).
  Proof. reflexivity. Qed.

  Lemma upd3_noaa c i : ihas TopAA i = false -> upd3 c i = i.
  Proof. intros H. unfold upd3. rewrite H, andb_false_r. reflexivity. Qed.

  Lemma upd3_done c i : ihas CoorAA i = true -> upd3 c i = i.
  Proof. intros H. unfold upd3. rewrite H. reflexivity. Qed.

  Lemma upd3s_noaa coords : forall i, ihas TopAA i = false -> upd3s coords i = i.
  Proof.
    induction coords as [|c r IH]; intros i H; [reflexivity|].
    rewrite upd3s_cons, (upd3_noaa c i H). apply IH; exact H.
  Qed.

  Lemma upd3s_done coords : forall i, ihas CoorAA i = true -> upd3s coords i = i.
  Proof.
    induction coords as [|c r IH]; intros i H; [reflexivity|].
    rewrite upd3s_cons, (upd3_done c i H). apply IH; exact H.
  Qed.

  Lemma upd3s_find coords : forall i t, ihas CoorAA i = false -> iget TopAA i = Some t ->
    upd3s coords i = match find (fun c => pairs_with c t) coords with
                     | Some c => iset CoorAA c i
                     | None => i
                     end.
  Proof.
    induction coords as [|c r IH]; intros i t Hc Ht; [reflexivity|].
    rewrite upd3s_cons. simpl find.
    assert (U : upd3 c i = if pairs_with c t then iset CoorAA c i else i).
    { unfold upd3. unfold ihas at 2. rewrite Hc, Ht. reflexivity. }
    rewrite U. destruct (pairs_with c t).
    - apply upd3s_done. rewrite ihas_iset. reflexivity.
    - apply IH; assumption.
  Qed.
End Exact.

Section ExactThm.
  Variable sys : Type.
  Variable try_add : sys -> file -> option sys.
  Variable name_of : file -> option string.
  Variable pairs_with : file -> file -> bool.

  Lemma sname_inj sp x y : NoDup (map sname sp) -> In x sp -> In y sp -> sname x = sname y -> x = y.
  Proof.
    induction sp as [|z r IH]; simpl; intros N Hx Hy E; [contradiction|].
    inversion N as [|? ? Hz Nr]; subst.
    destruct Hx as [->|Hx], Hy as [->|Hy].
    - reflexivity.
    - exfalso. apply Hz. rewrite E. apply in_map; exact Hy.
    - exfalso. apply Hz. rewrite <- E. apply in_map; exact Hx.
    - apply IH; assumption.
  Qed.

  Lemma is_cg_true sp f : is_cg sp f = true -> exists x, In x sp /\ s_cg x = f.
  Proof.
    unfold is_cg. rewrite existsb_exists. intros [x [Hx E]]. apply String.eqb_eq in E. eauto.
  Qed.

  Lemma is_cg_intro sp x : In x sp -> is_cg sp (s_cg x) = true.
  Proof.
    intros Hx. unfold is_cg. rewrite existsb_exists. exists x. split; [exact Hx | apply String.eqb_refl].
  Qed.

  Lemma parse_tops_fun tops f n n' :
    In (f, n) (parse_tops name_of tops) -> In (f, n') (parse_tops name_of tops) -> n = n'.
  Proof.
    intros H H'. apply parse_tops_In in H. apply parse_tops_In in H'. destruct H as [_ H], H' as [_ H']. congruence.
  Qed.

  Lemma mem_In x l : mem x l = true <-> In x l.
  Proof.
    unfold mem. rewrite existsb_exists. split.
    - intros [y [Hy E]]. apply String.eqb_eq in E. subst. exact Hy.
    - intros H. exists x. split; [exact H | apply String.eqb_refl].
  Qed.

  Theorem discovery_exact s0 tops coords sp :
    ground_truth sys try_add name_of pairs_with s0 tops coords sp ->
    exists d, discover sys try_add name_of pairs_with s0 tops coords = Ok d /\
              (forall x, In x sp -> exists i, dget (sname x) d = Some i /\ entry_is x i) /\
              (forall n, dget n d <> None -> exists x, In x sp /\ sname x = n).
  Proof.
    unfold ground_truth. set (tm := parse_tops name_of tops).
    intros [Hnd [Hacc [Hcg [Haa [Haa' [Hco Hco']]]]]].
    set (acc := is_cg sp).
    (* the three loops are the pure ones *)
    destruct (bridge1 sys try_add acc tm s0 [] [] Hacc) as [s1 [used [E1 Hused]]].
    assert (Hmem : forall f n, In (f, n) tm -> mem f used = acc f).
    { intros f n Hin. rewrite Hused. simpl.
      assert (M : mem f (map fst tm) = true) by (apply mem_In; apply (in_map fst) in Hin; exact Hin).
      rewrite M. reflexivity. }
    exists (loop3p pairs_with coords (loop2p acc tm (loop1p acc tm []))).
    split.
    { unfold discover. fold tm. rewrite E1. rewrite (bridge2 acc used tm Hmem). apply bridge3. }
    (* what is stored under a name *)
    assert (G1 : forall n, dget n (loop1p acc tm []) =
                           match find (fun p => acc (fst p) && String.eqb (snd p) n) (rev tm) with
                           | Some p => Some [(TopCG, fst p)] | None => None end).
    { intros n. rewrite loop1p_get. reflexivity. }
    split.
    - intros x Hx.
      rewrite loop3p_get, loop2p_get, G1.
      (* the start topology *)
      destruct (find (fun p => acc (fst p) && String.eqb (snd p) (sname x)) (rev tm)) as [[f n]|] eqn:F1.
      2:{ exfalso.
          assert (Hin : In (s_cg x, sname x) (rev tm)) by (apply in_rev; rewrite rev_involutive; apply Hcg; exact Hx).
          assert (Q := find_none _ _ F1 (s_cg x, sname x) Hin). simpl in Q.
          unfold acc in Q. rewrite (is_cg_intro sp x Hx), String.eqb_refl in Q. discriminate. }
      apply find_some in F1. destruct F1 as [Hin F1]. apply in_rev in Hin. simpl in F1.
      apply andb_true_iff in F1. destruct F1 as [A N]. apply String.eqb_eq in N. subst n.
      destruct (is_cg_true sp f A) as [y [Hy Ey]].
      assert (y = x).
      { apply (sname_inj sp); try assumption.
        apply (parse_tops_fun tops f); [rewrite <- Ey; apply Hcg; exact Hy | exact Hin]. }
      subst y. simpl fst.
      change (ihas TopAA [(TopCG, f)]) with false. cbn iota.
      (* the end topology *)
      destruct (find (fun p => negb (acc (fst p)) && String.eqb (snd p) (sname x)) tm) as [[t n]|] eqn:F2.
      + apply find_some in F2. destruct F2 as [Hin2 F2]. simpl in F2.
        apply andb_true_iff in F2. destruct F2 as [A2 N2]. apply String.eqb_eq in N2. subst n.
        apply negb_true_iff in A2.
        assert (Saa : s_aa x = Some t) by (eapply Haa; eauto).
        simpl fst. simpl option_map.
        assert (Ht : iget TopAA [(TopCG, f); (TopAA, t)] = Some t) by reflexivity.
        assert (Hc : ihas CoorAA [(TopCG, f); (TopAA, t)] = false) by reflexivity.
        rewrite (upd3s_find pairs_with coords _ t Hc Ht).
        eexists. split; [reflexivity|]. unfold entry_is. rewrite Saa.
        destruct (find (fun c => pairs_with c t) coords) as [c|] eqn:F3.
        * apply find_some in F3. destruct F3 as [Hc3 P3].
          rewrite (Hco x t c Hx Saa Hc3 P3). simpl. rewrite Ey. repeat split; reflexivity.
        * simpl. rewrite Ey. repeat split; try reflexivity.
          destruct (s_coor x) as [c|] eqn:Sc; [|reflexivity].
          exfalso. destruct (Hco' x t c Hx Saa Sc) as [Hc3 P3].
          rewrite (find_none _ _ F3 c Hc3) in P3. discriminate.
      + simpl option_map. rewrite upd3s_noaa by reflexivity.
        eexists. split; [reflexivity|]. unfold entry_is. simpl. rewrite Ey.
        destruct (s_aa x) as [t|] eqn:Saa; [|repeat split; reflexivity].
        exfalso. destruct (Haa' x t Hx Saa) as [Hin2 A2].
        assert (Q := find_none _ _ F2 (t, sname x) Hin2). simpl in Q.
        unfold acc in Q. rewrite A2, String.eqb_refl in Q. discriminate.
    - intros n Hn.
      rewrite loop3p_get, loop2p_get, G1 in Hn.
      destruct (find (fun p => acc (fst p) && String.eqb (snd p) n) (rev tm)) as [[f n']|] eqn:F1.
      2:{ exfalso. apply Hn. reflexivity. }
      apply find_some in F1. destruct F1 as [Hin F1]. apply in_rev in Hin. simpl in F1.
      apply andb_true_iff in F1. destruct F1 as [A N]. apply String.eqb_eq in N. subst n'.
      destruct (is_cg_true sp f A) as [y [Hy Ey]].
      exists y. split; [exact Hy|].
      apply (parse_tops_fun tops f); [rewrite <- Ey; apply Hcg; exact Hy | exact Hin].
  Qed.

  (* the same for sort_molecules, for every listing order of the candidate files *)
  Theorem sort_molecules_exact (init_system : list file -> res sys) files files' known s0 sp :
    Permutation files files' ->
    init_system (map (fun k : triple => fst (fst k)) known) = Ok s0 ->
    ground_truth sys try_add name_of pairs_with s0
                 (fst (candidates files known)) (snd (candidates files known)) sp ->
    exists d, sort_molecules sys init_system try_add name_of pairs_with files' known = Ok d /\
              (forall x, In x sp -> exists i, dget (sname x) d = Some i /\ entry_is x i) /\
              (forall n, dget n d <> None -> exists x, In x sp /\ sname x = n).
  Proof.
    intros P Hs G.
    rewrite <- (sort_molecules_perm sys init_system try_add name_of pairs_with files files' known P).
    unfold sort_molecules. rewrite Hs. cbn [bind]. apply discovery_exact. exact G.
  Qed.
End ExactThm.
