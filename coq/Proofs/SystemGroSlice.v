(* C12, part 5: the index arithmetic of slices stays inside the list, so a slice with a non-zero step
   never fails, and the common case [a:b] is the contiguous block. *)
From Coq Require Import ZArith String Bool Arith Lia List.
From GM Require Import Base.Res Model.SystemGro Proofs.SystemGroInit Proofs.SystemGroAccess Proofs.SystemGroMain.
Import ListNotations.
Local Open Scope Z_scope.

Definition clampZ (L lower upper x : Z) : Z := if x <? 0 then Z.max (x + L) lower else Z.min x upper.
Definition bound (o : option Z) (dflt L lower upper : Z) : Z :=
  match o with None => dflt | Some x => clampZ L lower upper x end.

Lemma py_slice_unfold len a b c : py_slice_indices len a b c =
  let step := match c with None => 1 | Some z => z end in
  if step =? 0 then Err EValue else
  let L := Z.of_nat len in
  if step <? 0 then
    let start := bound a (L - 1) L (-1) (L - 1) in
    let stop := bound b (-1) L (-1) (L - 1) in
    let n := if stop <? start then (start - stop - 1) / (- step) + 1 else 0 in
    Ok (map (fun i => Z.to_nat (start + Z.of_nat i * step)) (seq 0 (Z.to_nat n)))
  else
    let start := bound a 0 L 0 L in
    let stop := bound b L L 0 L in
    let n := if start <? stop then (stop - start - 1) / step + 1 else 0 in
    Ok (map (fun i => Z.to_nat (start + Z.of_nat i * step)) (seq 0 (Z.to_nat n))).
Proof.
  unfold py_slice_indices. cbv zeta.
  destruct (match c with Some z => z | None => 1 end =? 0); [reflexivity|].
  destruct (match c with Some z => z | None => 1 end <? 0); destruct a, b; reflexivity.
Qed.

Lemma bound_range o dflt L lower upper : lower <= upper -> lower <= dflt <= upper -> L - 1 <= upper -> lower <= 0 ->
  lower <= bound o dflt L lower upper <= upper.
Proof.
  intros H1 H2 H3 H4. unfold bound, clampZ. destruct o as [x|]; [|lia].
  destruct (x <? 0) eqn:Q; [apply Z.ltb_lt in Q | apply Z.ltb_ge in Q]; lia.
Qed.

Lemma slice_range len a b c idxs : py_slice_indices len a b c = Ok idxs -> Forall (fun k => (k < len)%nat) idxs.
Proof.
  rewrite py_slice_unfold. cbv zeta. set (step := match c with Some z => z | None => 1 end).
  destruct (step =? 0) eqn:Z0; [discriminate|]. apply Z.eqb_neq in Z0.
  set (L := Z.of_nat len). assert (HL : 0 <= L) by (unfold L; lia). destruct (step <? 0) eqn:Neg.
  - apply Z.ltb_lt in Neg.
    set (start := bound a (L - 1) L (-1) (L - 1)). set (stop := bound b (-1) L (-1) (L - 1)).
    assert (Hs : -1 <= start <= L - 1) by (apply bound_range; lia).
    assert (Ht : -1 <= stop <= L - 1) by (apply bound_range; lia).
    intros H. inversion H; subst idxs. clear H. apply Forall_forall. intros k Hk.
    apply in_map_iff in Hk. destruct Hk as [i [<- Hi]]. apply in_seq in Hi.
    destruct (stop <? start) eqn:Q; [apply Z.ltb_lt in Q | simpl in Hi; lia].
    set (q := (start - stop - 1) / - step) in *.
    assert (Q0 : 0 <= q) by (apply Z.div_pos; lia).
    assert (Q1 : - step * q <= start - stop - 1) by (apply Z.mul_div_le; lia).
    assert (Hi' : Z.of_nat i <= q) by lia.
    assert (Q2 : Z.of_nat i * - step <= q * - step) by (apply Z.mul_le_mono_nonneg_r; lia).
    apply Nat2Z.inj_lt. rewrite Z2Nat.id by nia. fold L. nia.
  - apply Z.ltb_ge in Neg.
    set (start := bound a 0 L 0 L). set (stop := bound b L L 0 L).
    assert (Hs : 0 <= start <= L) by (apply bound_range; lia).
    assert (Ht : 0 <= stop <= L) by (apply bound_range; lia).
    intros H. inversion H; subst idxs. clear H. apply Forall_forall. intros k Hk.
    apply in_map_iff in Hk. destruct Hk as [i [<- Hi]]. apply in_seq in Hi.
    destruct (start <? stop) eqn:Q; [apply Z.ltb_lt in Q | simpl in Hi; lia].
    set (q := (stop - start - 1) / step) in *.
    assert (Q0 : 0 <= q) by (apply Z.div_pos; lia).
    assert (Q1 : step * q <= stop - start - 1) by (apply Z.mul_div_le; lia).
    assert (Hi' : Z.of_nat i <= q) by lia.
    assert (Q2 : Z.of_nat i * step <= q * step) by (apply Z.mul_le_mono_nonneg_r; lia).
    apply Nat2Z.inj_lt. rewrite Z2Nat.id by nia. fold L. nia.
Qed.

Lemma mapM_nth_in_range {A} (l : list A) idxs : Forall (fun k => (k < length l)%nat) idxs ->
  exists sel, mapM (nth_res l) idxs = Ok sel /\ length sel = length idxs /\
    forall j k, nth_error idxs j = Some k -> nth_error sel j = nth_error l k.
Proof.
  induction 1 as [|k t Hk F IH]; simpl.
  - exists []. split; [reflexivity|]. split; [reflexivity|]. intros j k H; destruct j; discriminate.
  - destruct (nth_error l k) as [x|] eqn:E; [|apply nth_error_None in E; lia].
    assert (R : nth_res l k = Ok x) by (unfold nth_res; rewrite E; reflexivity). rewrite R. cbn [bind].
    destruct IH as [sel [-> [Ls Hs]]]. cbn [bind]. exists (x :: sel). split; [reflexivity|]. split; [simpl; lia|].
    intros j k' H. destruct j as [|j]; simpl in *; [inversion H; subst; symmetry; exact E | apply Hs; exact H].
Qed.

(* a slice with a non-zero step never fails: it returns the iterated residues at the positions
   Python's slice arithmetic designates, all of them inside the list - from any reader state *)
Theorem slice_total f st s st0 st1 rs :
  init f = (st, Ok s) -> iter_all f s st0 = (st1, Ok rs) ->
  forall a b c stx, c <> Some 0 ->
  exists idxs l sty, py_slice_indices (length rs) a b c = Ok idxs /\
    getitem_slice f s a b c stx = (sty, Ok l) /\ length l = length idxs /\
    forall j k, nth_error idxs j = Some k -> (k < length rs)%nat /\ nth_error l j = nth_error rs k.
Proof.
  intros H I. pose proof (iterated_is_split f st s st0 st1 rs H I) as ->.
  destruct (init_view f st s H) as [es [E [R _]]]. intros a b c stx Hc.
  pose proof (getitem_slice_spec f s es _ E R a b c stx) as G. unfold residue in *.
  destruct (py_slice_indices (length (split_res (g_records f))) a b c) as [idxs|e] eqn:P.
  - pose proof (slice_range _ _ _ _ _ P) as Rg.
    destruct (mapM_nth_in_range (split_res (g_records f)) idxs Rg) as [sel [M [Ls Hs]]].
    rewrite M in G. destruct G as [sty G].
    exists idxs, sel, sty. split; [reflexivity|]. split; [exact G|]. split; [exact Ls|].
    intros j k Hj. split; [|apply Hs; exact Hj].
    rewrite Forall_forall in Rg. apply Rg. eapply nth_error_In; exact Hj.
  - exfalso. unfold py_slice_indices in P.
    destruct (match c with Some z => z | None => 1 end =? 0) eqn:Z0; [|discriminate].
    apply Z.eqb_eq in Z0. destruct c as [z|]; [subst z; apply Hc; reflexivity | discriminate].
Qed.

Lemma map_seq_shift n : forall a,
  map (fun i => Z.to_nat (Z.of_nat a + Z.of_nat i * 1)) (seq 0 n) = seq a n.
Proof.
  induction n as [|n IH]; intros a; [reflexivity|].
  simpl seq. rewrite <- seq_shift. simpl map. rewrite map_map. f_equal; [lia|].
  rewrite <- (IH (S a)). apply map_ext. intros i. lia.
Qed.

(* system[a:b] with 0 <= a <= b <= len designates the positions a, a+1, .., b-1 *)
Lemma slice_contiguous len a b : (a <= b)%nat -> (b <= len)%nat ->
  py_slice_indices len (Some (Z.of_nat a)) (Some (Z.of_nat b)) None = Ok (seq a (b - a)).
Proof.
  intros Hab Hbl. rewrite py_slice_unfold. cbv beta iota zeta.
  change (1 =? 0) with false. change (1 <? 0) with false. cbv iota.
  unfold bound, clampZ.
  replace (Z.of_nat a <? 0) with false by (symmetry; apply Z.ltb_ge; lia).
  replace (Z.of_nat b <? 0) with false by (symmetry; apply Z.ltb_ge; lia).
  rewrite (Z.min_l (Z.of_nat a)) by lia. rewrite (Z.min_l (Z.of_nat b)) by lia. f_equal.
  destruct (Z.of_nat a <? Z.of_nat b) eqn:Q; [apply Z.ltb_lt in Q | apply Z.ltb_ge in Q].
  - rewrite Z.div_1_r. replace (Z.to_nat (Z.of_nat b - Z.of_nat a - 1 + 1)) with (b - a)%nat by lia.
    apply map_seq_shift.
  - replace (b - a)%nat with 0%nat by lia. reflexivity.
Qed.

Lemma skipn_nth {A} (l : list A) : forall a x, nth_error l a = Some x -> skipn a l = x :: skipn (S a) l.
Proof.
  induction l as [|y t IH]; intros a x H; destruct a; simpl in *; try discriminate.
  - inversion H; reflexivity.
  - apply IH. exact H.
Qed.

Lemma mapM_seq {A} (l : list A) n : forall a, (a + n <= length l)%nat ->
  mapM (nth_res l) (seq a n) = Ok (firstn n (skipn a l)).
Proof.
  induction n as [|n IH]; intros a H; [reflexivity|].
  simpl seq. simpl mapM. destruct (nth_error l a) as [x|] eqn:E; [|apply nth_error_None in E; lia].
  assert (R : nth_res l a = Ok x) by (unfold nth_res; rewrite E; reflexivity). rewrite R. cbn [bind].
  rewrite IH by lia. cbn [bind]. rewrite (skipn_nth l a x E). reflexivity.
Qed.

(* system[a:b], 0 <= a <= b <= len, is the block of iterated residues a .. b-1, from any reader state *)
Theorem slice_block f st s st0 st1 rs :
  init f = (st, Ok s) -> iter_all f s st0 = (st1, Ok rs) ->
  forall a b stx, (a <= b)%nat -> (b <= length rs)%nat ->
  exists sty, getitem_slice f s (Some (Z.of_nat a)) (Some (Z.of_nat b)) None stx =
              (sty, Ok (firstn (b - a) (skipn a rs))).
Proof.
  intros H I. pose proof (iterated_is_split f st s st0 st1 rs H I) as ->.
  destruct (init_view f st s H) as [es [E [R _]]]. intros a b stx Hab Hbl.
  pose proof (getitem_slice_spec f s es _ E R (Some (Z.of_nat a)) (Some (Z.of_nat b)) None stx) as G.
  unfold residue in *. rewrite (slice_contiguous _ a b Hab Hbl) in G.
  rewrite mapM_seq in G by lia. exact G.
Qed.
