(* Concrete instances (reference instance of the oracles): the hypotheses of the C20 theorems are satisfiable,
   and the witnesses of the repaired defects D11 / F1 / F3 evaluate as expected in the model. *)
From Coq Require Import String Ascii List Bool Arith Permutation.
From GM Require Import Base.Res Gen.SrcConsts Model.Cli Proofs.CliSort Proofs.CliInv Proofs.CliExact.
Import ListNotations.
Open Scope string_scope.

(* start system: two MOLA (kind 0) and two NA (kind 1) residues *)
Definition ex_stream : cstream := [Some 0; Some 0; Some 1; Some 1]%nat.

(* D11 + F3 witness: MOLA complete, NA with a start topology only, a force-field include *)
Definition ex_tbl : list (file * topdata) :=
  [("MOLA_CG.itp", Build_topdata (Some "MOLA") (Some [0%nat]) true);
   ("MOLA_AA.itp", Build_topdata (Some "MOLA") None false);
   ("NA_CG.itp", Build_topdata (Some "NA") (Some [1%nat]) true);
   ("martini.itp", Build_topdata None None false)].
Definition ex_pairs : list (file * file) := [("MOLA_AA.gro", "MOLA_AA.itp")].
Definition ex_files : list file :=
  ["martini.itp"; "NA_CG.itp"; "system_cg.gro"; "MOLA_AA.gro"; "notes.txt"; "MOLA_CG.itp"; "MOLA_AA.itp"; "NA_AA.gro"].
Definition ex_species : list species :=
  [{| sname := "MOLA"; s_cg := "MOLA_CG.itp"; s_aa := Some "MOLA_AA.itp"; s_coor := Some "MOLA_AA.gro" |};
   {| sname := "NA"; s_cg := "NA_CG.itp"; s_aa := None; s_coor := None |}].

Lemma ex_candidates :
  candidates ex_files [] =
  (["MOLA_AA.itp"; "MOLA_CG.itp"; "NA_CG.itp"; "martini.itp"], ["MOLA_AA.gro"; "NA_AA.gro"; "system_cg.gro"]).
Proof. vm_compute. reflexivity. Qed.

Lemma ex_result :
  ref_sort_molecules ex_stream ex_tbl ex_pairs ex_files [] =
  Ok [("MOLA", [(TopCG, "MOLA_CG.itp"); (TopAA, "MOLA_AA.itp"); (CoorAA, "MOLA_AA.gro")]);
      ("NA", [(TopCG, "NA_CG.itp")])].
Proof. vm_compute. reflexivity. Qed.

Lemma ex_main :
  ref_main_molecules ex_stream ex_tbl ex_pairs None (Some ex_files) (Some ["NA"]) =
  Ok [("MOLA_CG.itp", "MOLA_AA.gro", "MOLA_AA.itp")].
Proof. vm_compute. reflexivity. Qed.

Ltac in_cases H := simpl in H; repeat (destruct H as [H|H]; [try (inversion H; subst; clear H)|]); try contradiction.

Lemma ex_ground_truth :
  ground_truth cstream (ref_try_add ex_tbl) (ref_name_of ex_tbl) (ref_pairs ex_pairs) ex_stream
               (fst (candidates ex_files [])) (snd (candidates ex_files [])) ex_species.
Proof.
  rewrite ex_candidates. unfold ground_truth.
  change (parse_tops (ref_name_of ex_tbl) (fst (["MOLA_AA.itp"; "MOLA_CG.itp"; "NA_CG.itp"; "martini.itp"],
                                               ["MOLA_AA.gro"; "NA_AA.gro"; "system_cg.gro"])))
    with [("MOLA_AA.itp", "MOLA"); ("MOLA_CG.itp", "MOLA"); ("NA_CG.itp", "NA")].
  repeat split.
  - repeat constructor; simpl; intuition discriminate.
  - intros f n b H. in_cases H; reflexivity.
  - intros x H. in_cases H; simpl; auto.
  - intros f n H C x Hx E. in_cases H; in_cases Hx; simpl in *; try discriminate; reflexivity.
  - in_cases H; simpl in *; inversion H0; subst; auto.
  - in_cases H; simpl in *; inversion H0; subst; reflexivity.
  - intros x t c Hx Ha Hc Pc. in_cases Hx; simpl in *; try discriminate.
    inversion Ha; subst. in_cases Hc; try discriminate; reflexivity.
  - in_cases H; simpl in *; try discriminate. inversion H0; inversion H1; subst. auto.
  - in_cases H; simpl in *; try discriminate. inversion H0; inversion H1; subst. reflexivity.
Qed.

(* F1 witness: NA has the same signature at both resolutions, so both of its topologies load; the repaired code
   scans in name order, so the listing order is irrelevant and "NA_AA.itp" < "NA_CG.itp" is tried first *)
Definition f1_tbl : list (file * topdata) :=
  [("NA_CG.itp", Build_topdata (Some "NA") (Some [1%nat]) true);
   ("NA_AA.itp", Build_topdata (Some "NA") (Some [1%nat]) true)].
Definition f1_pairs : list (file * file) := [("NA_AA.gro", "NA_AA.itp"); ("NA_AA.gro", "NA_CG.itp")].

Lemma f1_result_any_order :
  ref_sort_molecules ex_stream f1_tbl f1_pairs ["NA_CG.itp"; "NA_AA.itp"; "NA_AA.gro"] [] =
  Ok [("NA", [(TopCG, "NA_AA.itp"); (TopAA, "NA_CG.itp"); (CoorAA, "NA_AA.gro")])] /\
  ref_sort_molecules ex_stream f1_tbl f1_pairs ["NA_AA.gro"; "NA_AA.itp"; "NA_CG.itp"] [] =
  Ok [("NA", [(TopCG, "NA_AA.itp"); (TopAA, "NA_CG.itp"); (CoorAA, "NA_AA.gro")])].
Proof. split; vm_compute; reflexivity. Qed.

(* why the scan has to be sorted: the three loops on the candidates in the two possible orders disagree *)
Lemma f1_unsorted_scan_is_order_dependent :
  discover cstream (ref_try_add f1_tbl) (ref_name_of f1_tbl) (ref_pairs f1_pairs) ex_stream
           ["NA_CG.itp"; "NA_AA.itp"] ["NA_AA.gro"] <>
  discover cstream (ref_try_add f1_tbl) (ref_name_of f1_tbl) (ref_pairs f1_pairs) ex_stream
           ["NA_AA.itp"; "NA_CG.itp"] ["NA_AA.gro"].
Proof. vm_compute. discriminate. Qed.

(* explicit species: its files are removed, its residues are consumed by System(reference, start topology) *)
Lemma ex_known :
  ref_sort_molecules ex_stream ex_tbl ex_pairs ex_files [("MOLA_CG.itp", "MOLA_AA.gro", "MOLA_AA.itp")] =
  Ok [("NA", [(TopCG, "NA_CG.itp")])].
Proof. vm_compute. reflexivity. Qed.

Lemma ex_perm : Permutation ex_files (rev ex_files).
Proof. apply Permutation_rev. Qed.

Lemma ex_out_hyp : has_char slash "system_cg.gro" = false /\ "/data/run1" <> "" /\ ends_with slash "/data/run1" = false.
Proof. repeat split; try reflexivity. discriminate. Qed.
