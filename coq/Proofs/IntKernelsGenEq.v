(* Second tie for the integer kernels of _alignment.py: the definitions generated from the current source
   text (Gen/IntKernelsGen.v, harness/pytrans_int.py) equal the model definitions of Model/Restraints.v. *)
From Coq Require Import Arith List.
From GM Require Import Model.Restraints Gen.IntKernelsGen.
Import ListNotations.

Lemma slice_gen_eq (l : list nat) a b : slice_gen l a b = slice l a b.
Proof. reflexivity. Qed.

Lemma split_list_gen_eq (l : list nat) (parts : nat) : split_list_gen l parts = split_list l parts.
Proof. destruct parts; reflexivity. Qed.

Lemma guess_residue_restrains_gen_eq (n1 n2 o1 o2 : nat) :
  guess_residue_restrains_gen n1 n2 o1 o2 = guess_residue_restrains n1 n2 o1 o2.
Proof.
  unfold guess_residue_restrains_gen, guess_residue_restrains.
  rewrite !split_list_gen_eq. reflexivity.
Qed.

(* the keyword defaults offset1 = offset2 = 0 *)
Lemma guess_residue_restrains_defaults : guess_residue_restrains_gen_defaults = [0; 0].
Proof. reflexivity. Qed.
