(* Default output path of auto_map: mapped_<basename> in the directory of the input (posixpath.split / join). *)
From Coq Require Import String Ascii List Bool Arith.
From GM Require Import Model.Cli.
Open Scope string_scope.

Lemma append_assoc (a b c : string) : (a ++ b) ++ c = a ++ (b ++ c).
Proof. induction a; simpl; congruence. Qed.

Lemma has_char_app c a b : has_char c (a ++ b) = has_char c a || has_char c b.
Proof. induction a; simpl; [reflexivity|]. rewrite IHa. apply orb_assoc. Qed.

Lemma split_last_none c t : has_char c t = false -> split_last c t = ("", t).
Proof. destruct t; simpl; intros H; [reflexivity|]. rewrite H. reflexivity. Qed.

(* the split is at the last separator *)
Lemma split_last_app c h t : has_char c t = false ->
  split_last c (h ++ String c t) = (h ++ String c "", t).
Proof.
  intros Ht. induction h as [|a h IH]; simpl.
  - rewrite Ascii.eqb_refl. simpl. rewrite (split_last_none c t Ht). reflexivity.
  - rewrite has_char_app. simpl. rewrite Ascii.eqb_refl. simpl. rewrite orb_true_r, orb_true_r.
    rewrite IH. reflexivity.
Qed.

Lemma all_char_app c a b : all_char c (a ++ b) = all_char c a && all_char c b.
Proof. induction a; simpl; [reflexivity|]. rewrite IHa. apply andb_assoc. Qed.

Lemma ends_with_snoc c a : ends_with c (a ++ String c "") = true.
Proof.
  induction a as [|x a IH]; simpl; [apply Ascii.eqb_refl|].
  destruct (a ++ String c "") eqn:E; [destruct a; discriminate | exact IH].
Qed.

(* a non-empty string that does not end with c is not made of c only *)
Lemma not_ends_not_all c s : s <> "" -> ends_with c s = false -> all_char c s = false.
Proof.
  induction s as [|a s IH]; [congruence|]. intros _ H. simpl.
  destruct s as [|b s'].
  - simpl in H. rewrite H. reflexivity.
  - simpl in H. rewrite IH; [apply andb_false_r | discriminate | exact H].
Qed.

Lemma rstrip_snoc c s : s <> "" -> ends_with c s = false -> rstrip c (s ++ String c "") = s.
Proof.
  induction s as [|a s IH]; [congruence|]. intros _ H.
  assert (N : all_char c (String a s) = false) by (apply not_ends_not_all; [discriminate | exact H]).
  change (String a s ++ String c "") with (String a (s ++ String c "")).
  cbn [rstrip].
  assert (N' : all_char c (String a (s ++ String c "")) = false).
  { change (String a (s ++ String c "")) with (String a s ++ String c ""). rewrite all_char_app, N. reflexivity. }
  rewrite N'. f_equal.
  destruct s as [|b s'].
  - simpl. simpl in H. rewrite Ascii.eqb_refl. reflexivity.
  - apply IH; [discriminate | exact H].
Qed.

Lemma os_split_dir d b : has_char slash b = false -> d <> "" -> ends_with slash d = false ->
  os_split (d ++ "/" ++ b) = (d, b).
Proof.
  intros Hb Hd He. unfold os_split.
  change (d ++ "/" ++ b) with (d ++ String slash b).
  rewrite (split_last_app slash d b Hb).
  rewrite all_char_app, (not_ends_not_all slash d Hd He). simpl.
  rewrite (rstrip_snoc slash d Hd He). reflexivity.
Qed.

Lemma os_join_dir d x : d <> "" -> ends_with slash d = false -> os_join d x = d ++ "/" ++ x.
Proof.
  intros Hd He. unfold os_join. destruct (String.eqb_spec d ""); [contradiction|]. rewrite He. reflexivity.
Qed.

Lemma mapped_no_slash b : has_char slash b = false -> has_char slash ("mapped_" ++ b) = false.
Proof. intros H. rewrite has_char_app, H. reflexivity. Qed.

(* input in a directory: output beside it *)
Lemma out_path_dir d b : has_char slash b = false -> d <> "" -> ends_with slash d = false ->
  out_path None (d ++ "/" ++ b) = d ++ "/mapped_" ++ b.
Proof.
  intros Hb Hd He. unfold out_path. rewrite (os_split_dir d b Hb Hd He).
  rewrite (os_join_dir d _ Hd He). reflexivity.
Qed.

(* input given by a bare file name: output in the current directory *)
Lemma out_path_bare b : has_char slash b = false -> out_path None b = "mapped_" ++ b.
Proof.
  intros Hb. unfold out_path, os_split. rewrite (split_last_none slash b Hb). reflexivity.
Qed.

(* input in the root directory *)
Lemma out_path_root b : has_char slash b = false -> out_path None ("/" ++ b) = "/mapped_" ++ b.
Proof.
  intros Hb. unfold out_path, os_split.
  change ("/" ++ b) with ("" ++ String slash b). rewrite (split_last_app slash "" b Hb). reflexivity.
Qed.

Lemma out_path_given o p : out_path (Some o) p = o.
Proof. reflexivity. Qed.

(* in these three shapes the output is in the same directory as the input and is called mapped_<name> *)
Lemma out_path_beside d b : has_char slash b = false -> d <> "" -> ends_with slash d = false ->
  os_split (out_path None (d ++ "/" ++ b)) = (fst (os_split (d ++ "/" ++ b)), "mapped_" ++ snd (os_split (d ++ "/" ++ b))).
Proof.
  intros Hb Hd He. rewrite (out_path_dir d b Hb Hd He), (os_split_dir d b Hb Hd He). simpl fst; simpl snd.
  change (d ++ "/mapped_" ++ b) with (d ++ "/" ++ ("mapped_" ++ b)).
  apply os_split_dir; [apply mapped_no_slash; exact Hb | exact Hd | exact He].
Qed.
