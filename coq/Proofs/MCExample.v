(* Concrete data for the non-vacuity examples of Props/C09.v (binary64 instance; no proofs here). *)
From Coq Require Import List PrimFloat.
Import ListNotations.
From GM Require Import Base.Res Base.Scalar Inst.FInst Model.MC.

(* measures of four "configurations" 0..3 *)
Definition ex_chi2 (c : nat) : float :=
  match c with 0%nat => 4%float | 1%nat => 2%float | 2%nat => 8%float | _ => 3%float end.
Definition ex_propose (_ : nat) (p : nat) (_ : nat) : res nat := Ok p.
Definition ex_stream : stream float nat :=
  [DChoice 0; DProp 1%nat; DChoice 1; DProp 2%nat; DRand 0.5%float; DChoice 0; DProp 3%nat; DRand 0x1p-10%float].
Definition ex_run := mc_run nat nat ex_chi2 ex_propose [0%nat; 1%nat] 2 10 0%nat ex_stream.

(* D10 witness on the binary64 instance: accept_metropolis(0.0, 0.0) *)
Definition ex_accept_zero := accept_metropolis (T := float) unit 0%float 0%float [].
