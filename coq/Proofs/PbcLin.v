(* Linear algebra needed by C19 at T := R: linearity of v.M, the adjugate inverse. *)
From Coq Require Import Nsatz.
From GM Require Import Proofs.RTac Model.Pbc.
Import ListNotations.
Local Open Scope R_scope.

Ltac dv t := let x := fresh "x" in let y := fresh "y" in let z := fresh "z" in destruct t as [x y z].
Ltac punfold := cbv [madj minv vround pbc_frac pbc_wrap mdiag zvec lattice] in *.

Lemma vecm_vadd (a b : V3 R) M : vecm (vadd a b) M = vadd (vecm a M) (vecm b M).
Proof. destruct a, b, M as [[? ? ?] [? ? ?] [? ? ?]]. runfold. apply V3_eq; simpl; ring. Qed.
Lemma vecm_vsub (a b : V3 R) M : vecm (vsub a b) M = vsub (vecm a M) (vecm b M).
Proof. destruct a, b, M as [[? ? ?] [? ? ?] [? ? ?]]. runfold. apply V3_eq; simpl; ring. Qed.
Lemma vecm_vneg (a : V3 R) M : vecm (vneg a) M = vneg (vecm a M).
Proof. destruct a, M as [[? ? ?] [? ? ?] [? ? ?]]. runfold. apply V3_eq; simpl; ring. Qed.
Lemma vsub_swap (a b : V3 R) : vsub a b = vneg (vsub b a).
Proof. dv a; dv b. runfold. apply V3_eq; simpl; ring. Qed.
Lemma vnorm_vneg (a : V3 R) : vnorm (vneg a) = vnorm a.
Proof. dv a. runfold. f_equal. ring. Qed.

(* the inverse as a total function (meaningful when the determinant is not 0) *)
Definition minvR (m : M3 R) : M3 R :=
  mkM (vdivs (r0 (madj m)) (mdet m)) (vdivs (r1 (madj m)) (mdet m)) (vdivs (r2 (madj m)) (mdet m)).

Lemma minv_ok (B : M3 R) : mdet B <> 0 -> minv B = Ok (minvR B).
Proof.
  intros Hd. unfold minv.
  assert (Hq : (@seqb R RScalar (mdet B) s0) = false) by (apply seqb_R_false; exact Hd).
  rewrite Hq. reflexivity.
Qed.

Lemma minv_singular (B : M3 R) : mdet B = 0 -> minv B = Err EDiv0.
Proof.
  intros Hd. unfold minv.
  assert (Hq : (@seqb R RScalar (mdet B) s0) = true) by (apply seqb_R; exact Hd).
  rewrite Hq. reflexivity.
Qed.

Lemma minv_inv (B Bi : M3 R) : minv B = Ok Bi -> mdet B <> 0 /\ Bi = minvR B.
Proof.
  unfold minv. intros E.
  destruct (@seqb R RScalar (mdet B) s0) eqn:Hq; [discriminate|].
  apply seqb_R_false in Hq. split; [exact Hq|]. inversion E; reflexivity.
Qed.

(* (z.B).B^-1 = z  and  (z.B^-1).B = z *)
Lemma vecm_minv_r (B : M3 R) z : mdet B <> 0 -> vecm (vecm z B) (minvR B) = z.
Proof.
  intros Hd. destruct z as [x y w], B as [[a b c] [d e f] [g h i]].
  unfold minvR in *. punfold. runfold. apply V3_eq; simpl; field; exact Hd.
Qed.

Lemma vecm_minv_l (B : M3 R) z : mdet B <> 0 -> vecm (vecm z (minvR B)) B = z.
Proof.
  intros Hd. destruct z as [x y w], B as [[a b c] [d e f] [g h i]].
  unfold minvR in *. punfold. runfold. apply V3_eq; simpl; field; exact Hd.
Qed.

Lemma mdet_minvR (B : M3 R) : mdet B <> 0 -> mdet (minvR B) = / mdet B.
Proof.
  intros Hd. destruct B as [[a b c] [d e f] [g h i]].
  unfold minvR in *. punfold. runfold. field; exact Hd.
Qed.

(* the adjugate inverse is an involution on non-singular matrices: inv(inv(B)) = B *)
Lemma minvR_invol (B : M3 R) : mdet B <> 0 -> minvR (minvR B) = B.
Proof.
  intros Hd. pose proof (mdet_minvR B Hd) as Hdi.
  unfold minvR at 1. rewrite Hdi. clear Hdi.
  destruct B as [[a b c] [d e f] [g h i]].
  unfold minvR in *. punfold. runfold.
  apply M3_eq; apply V3_eq; simpl; field; exact Hd.
Qed.

Lemma minv_minv (B Bi : M3 R) : minv B = Ok Bi -> minv Bi = Ok B.
Proof.
  intros E. apply minv_inv in E. destruct E as [Hd ->].
  assert (Hdi : mdet (minvR B) <> 0).
  { rewrite mdet_minvR by exact Hd. apply Rinv_neq_0_compat; exact Hd. }
  rewrite (minv_ok _ Hdi). f_equal. apply minvR_invol; exact Hd.
Qed.
