(* Consistent relabelling of the FIXED atoms and reordering of the restraint list (T := R).
   No uniqueness hypothesis is needed here: the set of nearest mobile atoms does not depend on the
   order in which the fixed atoms are visited. *)
From GM Require Import Proofs.RTac Model.Chi2 Proofs.Chi2Lists Proofs.Chi2R Proofs.Chi2Relabel.
From Coq Require Import Bool Permutation.
Import ListNotations.
Local Open Scope R_scope.

Lemma mapM_Permutation {A B} (f : A -> res B) l l' ys :
  Permutation l l' -> mapM f l = Ok ys -> exists ys', mapM f l' = Ok ys' /\ Permutation ys ys'.
Proof.
  intros P; revert ys; induction P as [|x l l' P IH|x y l|l l' l'' P1 IH1 P2 IH2]; intros ys E.
  - simpl in E. inversion E. exists []. split; [reflexivity|constructor].
  - simpl in *. destruct (f x) as [b|]; simpl in *; [|discriminate].
    destruct (mapM f l) as [bs|] eqn:Em; simpl in E; [|discriminate]. inversion E; subst.
    destruct (IH _ eq_refl) as [ys' [E' P']]. rewrite E'. simpl.
    eexists. split; [reflexivity|]. constructor. assumption.
  - simpl in *. destruct (f y) as [b|]; simpl in *; [|discriminate].
    destruct (f x) as [b'|]; simpl in *; [|discriminate].
    destruct (mapM f l) as [bs|]; simpl in *; [|discriminate]. inversion E; subst.
    eexists. split; [reflexivity|]. apply perm_swap.
  - destruct (IH1 _ E) as [ys1 [E1 Q1]]. destruct (IH2 _ E1) as [ys2 [E2 Q2]].
    exists ys2. split; [assumption|]. eapply perm_trans; eauto.
Qed.

Lemma Rsum_Permutation l l' : Permutation l l' -> Rsum l = Rsum l'.
Proof. induction 1; simpl; lra. Qed.

Lemma mem_nat_ext j l l' : (forall x, In x l <-> In x l') -> mem_nat j l = mem_nat j l'.
Proof.
  intros E. destruct (mem_nat j l) eqn:M1, (mem_nat j l') eqn:M2; try reflexivity.
  - apply mem_nat_In, E, mem_nat_In in M1. congruence.
  - apply mem_nat_In, E, mem_nat_In in M2. congruence.
Qed.

Lemma Permutation_In_iff {A} (l l' : list A) : Permutation l l' -> forall x, In x l <-> In x l'.
Proof.
  intros P x. split; [apply Permutation_in; assumption|apply Permutation_in, Permutation_sym; assumption].
Qed.

Lemma chi2_spec_relabel_fixed (fixed fixed' mobile : list (V3 R)) restr restr' t :
  relabelling t fixed fixed' ->
  Permutation restr' (map (fun ij => (t (fst ij), snd ij)) restr) ->
  mobile <> [] ->
  (forall i j, In (i, j) restr -> (i < length fixed)%nat /\ (j < length mobile)%nat) ->
  exists v, chi2_spec fixed' mobile restr' = Ok v /\ chi2_spec fixed mobile restr = Ok v.
Proof.
  intros Hrel Hperm Hne Hr. pose proof Hrel as [Hlen [Ht Hinj]].
  set (hT := fun ij : nat * nat => (t (fst ij), snd ij)) in *.
  assert (Hr1 : forall i, In i (map fst restr) -> (i < length fixed)%nat).
  { intros i Hi. apply in_map_iff in Hi. destruct Hi as [[i' j] [<- Hp]]. apply (Hr _ _ Hp). }
  assert (Honto := inj_range_onto t (length fixed) (fun j H => proj1 (Ht j H)) Hinj).
  assert (Hnth : forall i, (i < length fixed)%nat -> nth_res fixed' (t i) = nth_res fixed i).
  { intros i Hi. unfold nth_res. destruct (Ht i Hi) as [_ ->]. reflexivity. }
  (* restrained pairs *)
  destruct (mapM_all_ok (pair_d2 fixed mobile) restr) as [pairs Ep].
  { intros [i j] Hin. destruct (Hr i j Hin) as [Hi Hj]. unfold pair_d2. simpl.
    destruct (nth_res_ok fixed i Hi) as [a ->]. destruct (nth_res_ok mobile j Hj) as [b ->]. simpl. eauto. }
  assert (EpT : mapM (pair_d2 fixed' mobile) (map hT restr) = Ok pairs).
  { rewrite mapM_map, <- Ep. apply mapM_ext_in. intros [i j] Hin. destruct (Hr i j Hin) as [Hi _].
    unfold pair_d2, hT. simpl. rewrite (Hnth i Hi). reflexivity. }
  destruct (mapM_Permutation _ _ _ _ (Permutation_sym Hperm) EpT) as [pairs' [Ep' Pp]].
  (* the restrained labels *)
  assert (Pfst : Permutation (map fst restr') (map t (map fst restr))).
  { replace (map t (map fst restr)) with (map fst (map hT restr)) by (rewrite !map_map; reflexivity).
    apply Permutation_map. assumption. }
  assert (Psnd : Permutation (map snd restr') (map snd restr)).
  { replace (map snd restr) with (map snd (map hT restr)) by (rewrite map_map; reflexivity).
    apply Permutation_map. assumption. }
  (* unrestrained fixed atoms *)
  set (U := filter (fun i => negb (mem_nat i (map fst restr))) (seq 0 (length fixed))).
  set (U' := filter (fun i => negb (mem_nat i (map fst restr'))) (seq 0 (length fixed'))).
  assert (HU : forall i, In i U <-> (i < length fixed)%nat /\ ~ In i (map fst restr)).
  { intros i. unfold U. rewrite filter_In, in_seq, negb_true_iff. split; intros [H1 H2]; (split; [lia|]).
    - intros Hin. apply mem_nat_In in Hin. congruence.
    - destruct (mem_nat i (map fst restr)) eqn:M; [apply mem_nat_In in M; contradiction|reflexivity]. }
  assert (HU' : forall i, In i U' <-> (i < length fixed)%nat /\ ~ In i (map fst restr')).
  { intros i. unfold U'. rewrite filter_In, in_seq, negb_true_iff, Hlen. split; intros [H1 H2]; (split; [lia|]).
    - intros Hin. apply mem_nat_In in Hin. congruence.
    - destruct (mem_nat i (map fst restr')) eqn:M; [apply mem_nat_In in M; contradiction|reflexivity]. }
  assert (PU : Permutation (map t U) U').
  { apply NoDup_Permutation.
    - apply NoDup_map_inj_in; [|apply NoDup_filter, seq_NoDup].
      intros x y Hx Hy E. apply HU in Hx. apply HU in Hy. apply Hinj; tauto.
    - apply NoDup_filter, seq_NoDup.
    - intros x. rewrite in_map_iff, HU'. split.
      + intros [i [<- Hi]]. apply HU in Hi. destruct Hi as [Hi Hn]. split; [apply Ht; assumption|].
        intros Hin. apply (Permutation_in _ Pfst) in Hin. apply in_map_iff in Hin.
        destruct Hin as [i0 [E Hi0]]. apply Hn. replace i with i0; [assumption|].
        apply Hinj; auto.
      + intros [Hx Hn]. destruct (Honto x Hx) as [i [Hi <-]]. exists i. split; [reflexivity|].
        apply HU. split; [assumption|]. intros Hin. apply Hn.
        apply (Permutation_in _ (Permutation_sym Pfst)). apply in_map. assumption. }
  (* nearest atoms *)
  set (G := fun i => let* a := nth_res fixed i in nearest a mobile).
  set (G' := fun i => let* a := nth_res fixed' i in nearest a mobile).
  destruct (mapM_all_ok G U) as [near En].
  { intros i Hi. apply HU in Hi. destruct Hi as [Hi _]. unfold G.
    destruct (nth_res_ok fixed i Hi) as [a ->]. simpl.
    destruct (row_min_nearest a mobile Hne) as [m [j [_ [N _]]]]. eauto. }
  assert (EnT : mapM G' (map t U) = Ok near).
  { rewrite mapM_map, <- En. apply mapM_ext_in. intros i Hi. apply HU in Hi. destruct Hi as [Hi _].
    unfold G, G'. rewrite (Hnth i Hi). reflexivity. }
  destruct (mapM_Permutation _ _ _ _ PU EnT) as [near' [En' Pn]].
  (* assemble *)
  exists ((Rsum pairs + Rsum (map fst near)) *
          spow_nat eleven_tenths (length (filter (fun j => negb (mem_nat j (map snd restr)) && negb (mem_nat j (map snd near)))
                                                 (seq 0 (length mobile))))).
  split.
  - unfold chi2_spec.
    change (fun ij : nat * nat => let* a := nth_res fixed' (fst ij) in
                                  let* b := nth_res mobile (snd ij) in Ok (vdist2 a b))
      with (pair_d2 fixed' mobile).
    rewrite Ep'. simpl. fold U'. fold G'. rewrite En'. simpl.
    rewrite !ssum_Rsum.
    rewrite (Rsum_Permutation pairs' pairs) by (apply Permutation_sym; assumption).
    rewrite (Rsum_Permutation (map fst near') (map fst near)) by (apply Permutation_map, Permutation_sym; assumption).
    rewrite (filter_ext (fun j => negb (mem_nat j (map snd restr')) && negb (mem_nat j (map snd near')))
                        (fun j => negb (mem_nat j (map snd restr)) && negb (mem_nat j (map snd near)))).
    2:{ intros j. rewrite (mem_nat_ext j (map snd restr') (map snd restr)) by (apply Permutation_In_iff; assumption).
        rewrite (mem_nat_ext j (map snd near') (map snd near)); [reflexivity|].
        apply Permutation_In_iff, Permutation_map, Permutation_sym. assumption. }
    reflexivity.
  - unfold chi2_spec.
    change (fun ij : nat * nat => let* a := nth_res fixed (fst ij) in
                                  let* b := nth_res mobile (snd ij) in Ok (vdist2 a b))
      with (pair_d2 fixed mobile).
    rewrite Ep. simpl. fold U. fold G. rewrite En. simpl. rewrite !ssum_Rsum. reflexivity.
Qed.

Lemma chi2_relabel_fixed (fixed fixed' mobile0 mobile : list (V3 R)) restr restr' (t : nat -> nat) :
  relabelling t fixed fixed' ->
  Permutation restr' (map (fun ij => (t (fst ij), snd ij)) restr) ->
  mobile <> [] -> length mobile = length mobile0 ->
  (forall i j, In (i, j) restr -> (i < length fixed)%nat /\ (j < length mobile)%nat) ->
  chi2_eval fixed' mobile0 restr' mobile = chi2_eval fixed mobile0 restr mobile.
Proof.
  intros Hrel Hperm Hne Hlen Hr. pose proof Hrel as [Hl [Ht _]].
  destruct (chi2_equals_spec fixed mobile0 mobile restr Hne Hlen Hr) as [v [E1 S1]].
  destruct (chi2_equals_spec fixed' mobile0 mobile restr' Hne Hlen) as [v' [E2 S2]].
  - intros i j Hin. apply (Permutation_in _ Hperm) in Hin. apply in_map_iff in Hin.
    destruct Hin as [[i0 j0] [E Hin]]. simpl in E. inversion E; subst.
    destruct (Hr _ _ Hin) as [Hi Hj]. split; [|assumption]. rewrite Hl. apply Ht. assumption.
  - destruct (chi2_spec_relabel_fixed fixed fixed' mobile restr restr' t Hrel Hperm Hne Hr) as [w [W1 W2]].
    rewrite E1, E2. congruence.
Qed.

(* the order of the restraint list alone (identity relabelling) *)
Lemma relabelling_id (l : list (V3 R)) : relabelling (fun j => j) l l.
Proof. split; [reflexivity|]. split; [intros j Hj; split; [assumption|reflexivity]|intros; assumption]. Qed.

Lemma chi2_restr_order (fixed mobile0 mobile : list (V3 R)) restr restr' :
  Permutation restr' restr ->
  mobile <> [] -> length mobile = length mobile0 ->
  (forall i j, In (i, j) restr -> (i < length fixed)%nat /\ (j < length mobile)%nat) ->
  chi2_eval fixed mobile0 restr' mobile = chi2_eval fixed mobile0 restr mobile.
Proof.
  intros P. apply (chi2_relabel_fixed fixed fixed mobile0 mobile restr restr' (fun j => j)).
  - apply relabelling_id.
  - rewrite (map_ext (fun ij : nat * nat => (fst ij, snd ij)) (fun ij => ij)) by (intros [i j]; reflexivity).
    rewrite map_id. assumption.
Qed.
