(* Structural lemmas about Model/ExchangeMap.v: closest_atoms, anchors, dict reads, mapM,
   the nearest-anchor search (at T := R).  No geometry here. *)
From GM Require Import Proofs.RTac Model.Aux Model.ExchangeMap.
Import ListNotations.

(* ---------- mapM ---------- *)
Lemma mapM_total {A B} (f : A -> res B) l :
  (forall x, In x l -> exists y, f x = Ok y) -> exists l', mapM f l = Ok l'.
Proof.
  induction l as [|x xs IH]; simpl; intros Hf.
  - eexists; reflexivity.
  - destruct (Hf x (or_introl eq_refl)) as [y Ey]. rewrite Ey. cbn [bind].
    destruct IH as [l' El']; [intros z Hz; apply Hf; right; exact Hz|].
    rewrite El'. cbn [bind]. eexists; reflexivity.
Qed.

Lemma mapM_nth_inv {A B} (f : A -> res B) l l' n b :
  mapM f l = Ok l' -> nth_error l' n = Some b -> exists a, nth_error l n = Some a /\ f a = Ok b.
Proof.
  revert l' n; induction l as [|x xs IH]; simpl; intros l' n Hm Hn.
  - inversion Hm; subst. destruct n; discriminate.
  - destruct (f x) eqn:Hf; simpl in Hm; [|discriminate].
    destruct (mapM f xs) eqn:Hx; simpl in Hm; [|discriminate].
    inversion Hm; subst. destruct n as [|n]; simpl in *.
    + inversion Hn; subst; eauto.
    + eapply IH; eauto.
Qed.

Lemma mapM_In {A B} (f : A -> res B) l l' b :
  mapM f l = Ok l' -> In b l' -> exists a, In a l /\ f a = Ok b.
Proof.
  intros Hm Hb. apply In_nth_error in Hb. destruct Hb as [n Hn].
  destruct (mapM_nth_inv _ _ _ _ _ Hm Hn) as (a & Ha & Hf).
  exists a; split; [eapply nth_error_In; eauto|exact Hf].
Qed.

Lemma mapM_In_fwd {A B} (f : A -> res B) l l' a :
  mapM f l = Ok l' -> In a l -> exists b, In b l' /\ f a = Ok b.
Proof.
  intros Hm Ha. apply In_nth_error in Ha. destruct Ha as [n Hn].
  destruct (mapM_nth _ _ _ _ _ Hm Hn) as (b & Hf & Hb).
  exists b; split; [eapply nth_error_In; eauto|exact Hf].
Qed.

Lemma mapM_ext {A B} (f f' : A -> res B) l :
  (forall x, In x l -> f x = f' x) -> mapM f l = mapM f' l.
Proof.
  induction l as [|x xs IH]; simpl; intros Hf; [reflexivity|].
  rewrite (Hf x (or_introl eq_refl)). rewrite IH; [reflexivity|]. intros; apply Hf; right; assumption.
Qed.

Lemma nth_res_ok {A} (l : list A) n a : nth_error l n = Some a -> nth_res l n = Ok a.
Proof. unfold nth_res; intros ->; reflexivity. Qed.
Lemma nth_res_inv {A} (l : list A) n a : nth_res l n = Ok a -> nth_error l n = Some a.
Proof. unfold nth_res; destruct (nth_error l n); intros E; inversion E; reflexivity. Qed.

(* ---------- closest_atoms ---------- *)
Lemma list_min_spec x l : In (list_min x l) (x :: l) /\ forall y, In y (x :: l) -> list_min x l <= y.
Proof.
  revert x; induction l as [|z t IH]; intros x; simpl.
  - split; [left; reflexivity|]. intros y [->|[]]; lia.
  - destruct (IH (Nat.min x z)) as [Hin Hle]. split.
    + destruct Hin as [E|Hin]; [|right; right; exact Hin].
      rewrite <- E. destruct (Nat.min_dec x z) as [-> | ->]; [left|right; left]; reflexivity.
    + intros y [->|[->|Hy]].
      * specialize (Hle (Nat.min y z) (or_introl eq_refl)). lia.
      * specialize (Hle (Nat.min x y) (or_introl eq_refl)). lia.
      * apply Hle; right; exact Hy.
Qed.

(* the two lowest bonded indices: n1 < n2, both bonded, every other bonded index above n2 *)
Lemma lowest2_spec l : NoDup l -> 2 <= length l ->
  exists n1 n2, lowest2 l = Some (n1, n2) /\ In n1 l /\ In n2 l /\ n1 < n2 /\
    forall y, In y l -> y = n1 \/ n2 <= y.
Proof.
  intros Hnd Hlen. destruct l as [|x t]; [simpl in Hlen; lia|].
  unfold lowest2. destruct (list_min_spec x t) as [Hin Hle].
  set (m1 := list_min x t) in *.
  set (fl := filter (fun y => negb (Nat.eqb y m1)) (x :: t)).
  assert (Hfl : forall y, In y fl <-> In y (x :: t) /\ y <> m1).
  { intros y. unfold fl. rewrite filter_In. rewrite Bool.negb_true_iff, Nat.eqb_neq. tauto. }
  destruct fl as [|y t'] eqn:Efl.
  - exfalso. destruct t as [|z t2]; [simpl in Hlen; lia|].
    assert (Hx : ~ In x []) by (intros []). 
    inversion Hnd as [|? ? Hnx Hnd']; subst.
    destruct (Nat.eq_dec x m1) as [E|E].
    + assert (Hz : In z []) by (apply Hfl; split; [right; left; reflexivity|]; intros E2; apply Hnx; left; congruence).
      destruct Hz.
    + assert (Hz : In x []) by (apply Hfl; split; [left; reflexivity|exact E]). destruct Hz.
  - destruct (list_min_spec y t') as [Hin2 Hle2]. set (m2 := list_min y t') in *.
    assert (Hm2 : In m2 (x :: t) /\ m2 <> m1) by (apply Hfl; exact Hin2).
    exists m1, m2. split; [reflexivity|]. split; [exact Hin|]. split; [apply Hm2|].
    split.
    + destruct Hm2 as [Hm2 Hne]. specialize (Hle m2 Hm2). lia.
    + intros z Hz. destruct (Nat.eq_dec z m1) as [->|Hne]; [left; reflexivity|right].
      apply Hle2. apply Hfl. split; assumption.
Qed.

(* ---------- anchors ---------- *)
Lemma anchors_from_In i g a :
  In a (anchors_from i g) <-> exists l, i <= a /\ nth_error g (a - i) = Some l /\ 2 <= length l.
Proof.
  revert i; induction g as [|l0 g IH]; intros i; cbn [anchors_from].
  - split; [intros []|]. intros (l & _ & Hn & _). destruct (a - i); discriminate.
  - assert (Hrec : In a (anchors_from (S i) g) <-> exists l, S i <= a /\ nth_error g (a - S i) = Some l /\ 2 <= length l)
      by apply IH.
    destruct (Nat.leb 2 (length l0)) eqn:Hb.
    + apply Nat.leb_le in Hb. cbn [In]. rewrite Hrec. split.
      * intros [<-|(l & Hi & Hn & Hl)].
        -- exists l0. rewrite Nat.sub_diag. simpl. auto.
        -- exists l. split; [lia|]. replace (a - i) with (S (a - S i)) by lia. simpl. auto.
      * intros (l & Hi & Hn & Hl). destruct (Nat.eq_dec i a) as [->|Hne]; [left; reflexivity|right].
        exists l. split; [lia|]. replace (a - i) with (S (a - S i)) in Hn by lia. simpl in Hn. auto.
    + apply Nat.leb_gt in Hb. rewrite Hrec. split.
      * intros (l & Hi & Hn & Hl). exists l. split; [lia|]. replace (a - i) with (S (a - S i)) by lia. simpl. auto.
      * intros (l & Hi & Hn & Hl). destruct (Nat.eq_dec i a) as [->|Hne].
        -- rewrite Nat.sub_diag in Hn. simpl in Hn. inversion Hn; subst. lia.
        -- exists l. split; [lia|]. replace (a - i) with (S (a - S i)) in Hn by lia. simpl in Hn. auto.
Qed.

Lemma anchors_In g a : In a (anchors g) <-> exists l, nth_error g a = Some l /\ 2 <= length l.
Proof.
  unfold anchors. rewrite anchors_from_In. rewrite Nat.sub_0_r. split.
  - intros (l & _ & H); eauto.
  - intros (l & H); exists l; split; [lia|exact H].
Qed.

(* ---------- dict reads ---------- *)
Lemma dict_get_map {A} (f : nat -> A) keys a :
  In a keys -> dict_get (map (fun k => (k, f k)) keys) a = Ok (f a).
Proof.
  induction keys as [|k ks IH]; simpl; [intros []|].
  intros Hin. destruct (Nat.eqb k a) eqn:E.
  - apply Nat.eqb_eq in E; subst; reflexivity.
  - apply Nat.eqb_neq in E. destruct Hin as [->|Hin]; [contradiction E; reflexivity|]. apply IH; exact Hin.
Qed.

Lemma dict_get_In {A} (d : list (nat * A)) k v : dict_get d k = Ok v -> In k (map fst d).
Proof.
  induction d as [|[k' v'] d IH]; simpl; [discriminate|].
  destruct (Nat.eqb k' k) eqn:E; intros H.
  - apply Nat.eqb_eq in E; left; exact E.
  - right; apply IH; exact H.
Qed.

(* ---------- the nearest-anchor search over R ---------- *)
Local Open Scope R_scope.

Definition lex_le (r c : R * nat) : Prop := fst r < fst c \/ (fst r = fst c /\ (snd r <= snd c)%nat).

Lemma pair_lt_true (c b : R * nat) :
  pair_lt c b = true <-> (fst c < fst b \/ (fst c = fst b /\ (snd c < snd b)%nat)).
Proof.
  unfold pair_lt. destruct (@seqb R RScalar (fst c) (fst b)) eqn:E.
  - apply seqb_R in E. rewrite Nat.ltb_lt. split; [intros; right; auto|]. intros [Hlt|[_ H]]; [lra|exact H].
  - apply seqb_R_false in E. split.
    + intros Hlt. apply sltb_R in Hlt. left; exact Hlt.
    + intros [Hlt|[He _]]; [apply sltb_R; exact Hlt|contradiction].
Qed.

Lemma pair_lt_false (c b : R * nat) : pair_lt c b = false -> lex_le b c.
Proof.
  intros Hf. unfold lex_le.
  destruct (Rtotal_order (fst b) (fst c)) as [Hlt|[Heq|Hgt]].
  - left; exact Hlt.
  - right. split; [exact Heq|]. destruct (le_lt_dec (snd b) (snd c)) as [Hle|Hlt]; [exact Hle|].
    assert (Ht : pair_lt c b = true) by (apply pair_lt_true; right; split; [symmetry; exact Heq|exact Hlt]).
    rewrite Ht in Hf; discriminate.
  - assert (Ht : pair_lt c b = true) by (apply pair_lt_true; left; exact Hgt).
    rewrite Ht in Hf; discriminate.
Qed.

Lemma lex_le_refl r : lex_le r r.
Proof. right; split; [reflexivity|apply le_n]. Qed.

Lemma lex_le_trans a b c : lex_le a b -> lex_le b c -> lex_le a c.
Proof.
  unfold lex_le. intros [H1|[H1 H1']] [H2|[H2 H2']].
  - left; lra.
  - left; lra.
  - left; lra.
  - right; split; [lra|lia].
Qed.

Lemma min_pair_spec (d : R * nat) rest :
  In (min_pair d rest) (d :: rest) /\ forall c, In c (d :: rest) -> lex_le (min_pair d rest) c.
Proof.
  unfold min_pair. revert d; induction rest as [|x xs IH]; intros d; simpl.
  - split; [left; reflexivity|]. intros c [<-|[]]; apply lex_le_refl.
  - destruct (pair_lt x d) eqn:E.
    + destruct (IH x) as [Hin Hle]. split.
      * destruct Hin as [Hin|Hin]; [right; left; exact Hin|right; right; exact Hin].
      * intros c [<-|[<-|Hc]].
        -- eapply lex_le_trans; [apply Hle; left; reflexivity|].
           apply pair_lt_true in E. destruct E as [E|[E1 E2]]; [left; exact E|right; split; [exact E1|lia]].
        -- apply Hle; left; reflexivity.
        -- apply Hle; right; exact Hc.
    + destruct (IH d) as [Hin Hle]. split.
      * destruct Hin as [Hin|Hin]; [left; exact Hin|right; right; exact Hin].
      * intros c [<-|[<-|Hc]].
        -- apply Hle; left; reflexivity.
        -- eapply lex_le_trans; [apply Hle; left; reflexivity|]. apply pair_lt_false; exact E.
        -- apply Hle; right; exact Hc.
Qed.

(* _find_closest_ref returns a key at minimal distance; among equidistant keys the lowest *)
Definition closest_to (ref : list (V3 R)) (keys : list nat) (p : V3 R) (a : nat) : Prop :=
  In a keys /\ exists ra, nth_error ref a = Some ra /\
    forall b rb, In b keys -> nth_error ref b = Some rb ->
      vdist p ra <= vdist p rb /\ (vdist p ra = vdist p rb -> (a <= b)%nat).

Lemma find_closest_spec (ref : list (V3 R)) keys p :
  keys <> [] -> (forall a, In a keys -> exists ra, nth_error ref a = Some ra) ->
  exists a, find_closest ref keys p = Ok a /\ closest_to ref keys p a.
Proof.
  intros Hne Hk. unfold find_closest.
  destruct (mapM_total (fun i => bind (nth_res ref i) (fun r => Ok (vdist p r, i))) keys) as [ds Eds].
  { intros a Ha. destruct (Hk a Ha) as [ra Hra]. rewrite (nth_res_ok _ _ _ Hra). cbn [bind]. eauto. }
  unfold tagged_distances. rewrite Eds. cbn [bind].
  destruct ds as [|d rest].
  - apply mapM_length in Eds. destruct keys; [contradiction Hne; reflexivity|discriminate].
  - destruct (min_pair_spec d rest) as [Hin Hle].
    eexists; split; [reflexivity|].
    destruct (mapM_In _ _ _ _ Eds Hin) as (a & Ha & Hfa).
    destruct (Hk a Ha) as [ra Hra]. rewrite (nth_res_ok _ _ _ Hra) in Hfa. cbn [bind] in Hfa.
    assert (Hmp : min_pair d rest = (vdist p ra, a)) by congruence.
    rewrite Hmp in *. cbn [snd fst] in *.
    split; [exact Ha|]. exists ra. split; [exact Hra|].
    intros b rb Hb Hrb.
    destruct (mapM_In_fwd _ _ _ _ Eds Hb) as (c & Hc & Hfb).
    rewrite (nth_res_ok _ _ _ Hrb) in Hfb. cbn [bind] in Hfb.
    assert (Ec : c = (vdist p rb, b)) by congruence.
    specialize (Hle _ Hc). rewrite Ec in Hle. unfold lex_le in Hle. cbn [fst snd] in Hle.
    destruct Hle as [Hlt|[He Hi]]; split; try lra; intros; try lra; try exact Hi.
Qed.
