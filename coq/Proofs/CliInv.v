(* Invariants of the three loops of sort_molecules that hold for ALL oracles:
   totality (no KeyError), provenance of every file in the result (never a removed = explicitly given file),
   distinct keys of the inner dictionaries (so that len == 3 means the three keys), and the exclusion filter of main. *)
From Coq Require Import String Ascii List Bool Arith OrdersEx Permutation.
From GM Require Import Base.Res Gen.SrcConsts Model.Cli Proofs.CliSort.
Import ListNotations.
Open Scope string_scope.

Lemma ikey_eqb_eq a b : ikey_eqb a b = true <-> a = b.
Proof. destruct a, b; simpl; split; intros H; try reflexivity; discriminate. Qed.

Lemma ikey_eqb_refl a : ikey_eqb a a = true.
Proof. destruct a; reflexivity. Qed.

(* ------------------------------------------------------------------ inner dictionaries *)
Lemma iset_keys k v i k' : In k' (map fst (iset k v i)) <-> k' = k \/ In k' (map fst i).
Proof.
  induction i as [|[k0 v0] r IH]; simpl.
  - intuition.
  - destruct (ikey_eqb k k0) eqn:E; simpl.
    + apply ikey_eqb_eq in E; subst. intuition.
    + rewrite IH. intuition.
Qed.

Lemma iset_NoDup k v i : NoDup (map fst i) -> NoDup (map fst (iset k v i)).
Proof.
  induction i as [|[k0 v0] r IH]; simpl; intros H.
  - constructor; [intros []|constructor].
  - inversion H as [|x l Hx Hr]; subst.
    destruct (ikey_eqb k k0) eqn:E; simpl.
    + apply ikey_eqb_eq in E; subst. constructor; assumption.
    + constructor; [|apply IH; exact Hr].
      rewrite iset_keys. intros [->|Hin]; [|exact (Hx Hin)].
      rewrite ikey_eqb_refl in E; discriminate.
Qed.

Lemma iset_Forall (R : ikey * file -> Prop) k v i : Forall R i -> R (k, v) -> Forall R (iset k v i).
Proof.
  induction 1 as [|[k0 v0] r H0 Hr IH]; simpl; intros H.
  - repeat constructor; exact H.
  - destruct (ikey_eqb k k0); constructor; auto.
Qed.

Lemma iget_In k i f : iget k i = Some f -> In (k, f) i.
Proof.
  induction i as [|[k0 v0] r IH]; simpl; [discriminate|].
  destruct (ikey_eqb k k0) eqn:E; intros H.
  - apply ikey_eqb_eq in E; inversion H; subst. left; reflexivity.
  - right; apply IH; exact H.
Qed.

Lemma In_iget k i : In k (map fst i) -> exists f, iget k i = Some f.
Proof.
  induction i as [|[k0 v0] r IH]; simpl; [intros []|].
  destruct (ikey_eqb k k0) eqn:E; intros H.
  - eexists; reflexivity.
  - destruct H as [H|H]; [subst; rewrite ikey_eqb_refl in E; discriminate | apply IH; exact H].
Qed.

Lemma ihas_iget k i : ihas k i = true -> exists f, iget k i = Some f.
Proof. unfold ihas. destruct (iget k i); [eauto | discriminate]. Qed.

(* three distinct keys out of three possible ones: all present *)
Lemma full_keys (i : idict) : NoDup (map fst i) -> length i = 3%nat ->
  In TopCG (map fst i) /\ In CoorAA (map fst i) /\ In TopAA (map fst i).
Proof.
  destruct i as [|[k1 v1] [|[k2 v2] [|[k3 v3] [|]]]]; simpl; intros H L; try discriminate.
  inversion H as [|? ? H1 H']; subst. inversion H' as [|? ? H2 H'']; subst. clear H' H''.
  simpl in *.
  destruct k1, k2, k3; intuition congruence.
Qed.

Lemma full_triple i : NoDup (map fst i) -> full i = true -> exists t, triple_of i = Ok t.
Proof.
  intros H L. unfold full in L. apply Nat.eqb_eq in L.
  destruct (full_keys i H L) as [A [B C]].
  destruct (In_iget _ _ A) as [a Ha], (In_iget _ _ B) as [b Hb], (In_iget _ _ C) as [c Hc].
  unfold triple_of. rewrite Ha, Hb, Hc. eauto.
Qed.

(* ------------------------------------------------------------------ outer dictionary *)
Lemma dset_Forall (R : string * idict -> Prop) n v d : Forall R d -> R (n, v) -> Forall R (dset n v d).
Proof.
  induction 1 as [|[n0 v0] r H0 Hr IH]; simpl; intros H.
  - repeat constructor; exact H.
  - destruct (String.eqb n n0); constructor; auto.
Qed.

Lemma dget_In n d i : dget n d = Some i -> In (n, i) d.
Proof.
  induction d as [|[n0 v0] r IH]; simpl; [discriminate|].
  destruct (String.eqb n n0) eqn:E; intros H.
  - apply String.eqb_eq in E; inversion H; subst. left; reflexivity.
  - right; apply IH; exact H.
Qed.

Lemma mapM_Forall {A B} (f : A -> res B) (P : A -> Prop) (Q : B -> Prop) l l' :
  (forall a b, P a -> f a = Ok b -> Q b) -> Forall P l -> mapM f l = Ok l' -> Forall Q l'.
Proof.
  intros Hf. revert l'. induction l as [|x xs IH]; simpl; intros l' HP H.
  - inversion H; constructor.
  - inversion HP; subst.
    destruct (f x) eqn:Ex; simpl in H; [|discriminate].
    destruct (mapM f xs) eqn:Em; simpl in H; [|discriminate].
    inversion H; subst. constructor; [eapply Hf; eauto | apply IH; auto].
Qed.

Lemma mapM_total {A B} (f : A -> res B) l : (forall a, exists b, f a = Ok b) -> exists l', mapM f l = Ok l'.
Proof.
  intros Hf. induction l as [|x xs [l' IH]]; simpl.
  - eauto.
  - destruct (Hf x) as [b Hb]. rewrite Hb, IH. simpl. eauto.
Qed.

Section ParseTops.
  Variable name_of : file -> option string.
  Lemma parse_tops_In tops f n : In (f, n) (parse_tops name_of tops) <-> In f tops /\ name_of f = Some n.
  Proof.
    induction tops as [|g r IH]; simpl.
    - tauto.
    - destruct (name_of g) eqn:E; simpl; rewrite IH; split.
      + intros [H|[H1 H2]]; [inversion H; subst; auto | auto].
      + intros [[->|H1] H2]; [left; congruence | right; auto].
      + intros [H1 H2]; auto.
      + intros [[->|H1] H2]; [congruence | auto].
  Qed.

End ParseTops.

Section Inv.
  Variable sys : Type.
  Variable init_system : list file -> res sys.
  Variable try_add : sys -> file -> option sys.
  Variable name_of : file -> option string.
  Variable pairs_with : file -> file -> bool.

  Notation sortm := (sort_molecules sys init_system try_add name_of pairs_with).
  Notation mainm := (main_molecules sys init_system try_add name_of pairs_with).
  Notation disc := (discover sys try_add name_of pairs_with).

  (* P: provenance of topology files, Q: provenance of coordinate files *)
  Variables P Q : file -> Prop.

  Definition slot_ok (kf : ikey * file) : Prop :=
    match fst kf with CoorAA => Q (snd kf) | _ => P (snd kf) end.
  Definition entry_ok (e : string * idict) : Prop :=
    NoDup (map fst (snd e)) /\ Forall slot_ok (snd e).
  Definition dict_ok (d : added) : Prop := Forall entry_ok d.

  Lemma dict_ok_get n d i : dict_ok d -> dget n d = Some i -> entry_ok (n, i).
  Proof.
    intros H G. apply dget_In in G. unfold dict_ok in H. rewrite Forall_forall in H. exact (H _ G).
  Qed.

  Lemma loop1_ok tops : (forall f n, In (f, n) tops -> P f) ->
    forall s used d, dict_ok d -> dict_ok (snd (loop1 sys try_add s tops used d)).
  Proof.
    induction tops as [|[f n] r IH]; simpl; intros HP s used d Hd; [exact Hd|].
    assert (HPr : forall f0 n0, In (f0, n0) r -> P f0) by (intros; eapply HP; right; eauto).
    destruct (try_add s f).
    - apply IH; [exact HPr|]. apply dset_Forall; [exact Hd|].
      split; simpl.
      + constructor; [intros []|constructor].
      + repeat constructor. unfold slot_ok; simpl. eapply HP; left; reflexivity.
    - apply IH; assumption.
  Qed.

  Lemma loop2_ok tops : (forall f n, In (f, n) tops -> P f) ->
    forall used d w, dict_ok d -> dict_ok (fst (loop2 tops used d w)).
  Proof.
    induction tops as [|[f n] r IH]; simpl; intros HP used d w Hd; [exact Hd|].
    assert (HPr : forall f0 n0, In (f0, n0) r -> P f0) by (intros; eapply HP; right; eauto).
    destruct (negb (mem f used)); [|apply IH; assumption].
    destruct (dget n d) as [i|] eqn:G; [|apply IH; assumption].
    destruct (ihas TopAA i); [apply IH; assumption|].
    apply IH; [exact HPr|]. apply dset_Forall; [exact Hd|].
    destruct (dict_ok_get _ _ _ Hd G) as [N F]. simpl in N, F.
    split; simpl.
    - apply iset_NoDup; exact N.
    - apply iset_Forall; [exact F|]. unfold slot_ok; simpl. eapply HP; left; reflexivity.
  Qed.

  Lemma step3_entry_total c e : exists e', step3_entry pairs_with c e = Ok e'.
  Proof.
    destruct e as [n i]. unfold step3_entry.
    destruct (negb (ihas CoorAA i) && ihas TopAA i) eqn:G; [|eauto].
    apply andb_true_iff in G. destruct G as [_ G]. destruct (ihas_iget _ _ G) as [t Ht]. rewrite Ht.
    destruct (pairs_with c t); eauto.
  Qed.

  Lemma step3_entry_ok c e e' : Q c -> entry_ok e -> step3_entry pairs_with c e = Ok e' -> entry_ok e'.
  Proof.
    destruct e as [n i]. unfold step3_entry. intros HQ [N F] H. simpl in N, F.
    destruct (negb (ihas CoorAA i) && ihas TopAA i); [|inversion H; subst; split; assumption].
    destruct (iget TopAA i) as [t|]; [|discriminate].
    destruct (pairs_with c t); inversion H; subst; [|split; assumption].
    split; simpl; [apply iset_NoDup; exact N | apply iset_Forall; [exact F | exact HQ]].
  Qed.

  Lemma loop3_ok coords : (forall c, In c coords -> Q c) ->
    forall d, dict_ok d -> exists d', loop3 pairs_with coords d = Ok d' /\ dict_ok d'.
  Proof.
    induction coords as [|c r IH]; simpl; intros HQ d Hd; [eauto|].
    destruct (mapM_total (step3_entry pairs_with c) d (step3_entry_total c)) as [d1 H1].
    rewrite H1; simpl. apply IH; [intros; apply HQ; right; assumption|].
    eapply mapM_Forall; [|exact Hd|exact H1].
    intros a b Ha Hb. eapply step3_entry_ok; [|exact Ha|exact Hb]. apply HQ; left; reflexivity.
  Qed.
End Inv.

Section InvMain.
  Variable sys : Type.
  Variable init_system : list file -> res sys.
  Variable try_add : sys -> file -> option sys.
  Variable name_of : file -> option string.
  Variable pairs_with : file -> file -> bool.

  Notation sortm := (sort_molecules sys init_system try_add name_of pairs_with).
  Notation mainm := (main_molecules sys init_system try_add name_of pairs_with).
  Notation disc := (discover sys try_add name_of pairs_with).

  (* the three loops never fail, whatever the oracles answer; every file of the result is a candidate *)
  Lemma discover_ok s0 tops coords :
    exists d, disc s0 tops coords = Ok d /\
              dict_ok (fun f => In f tops) (fun c => In c coords) d.
  Proof.
    unfold discover.
    set (P := fun f => In f tops). set (Q := fun c => In c coords).
    assert (HP : forall f n, In (f, n) (parse_tops name_of tops) -> P f).
    { intros f n H. apply parse_tops_In in H. exact (proj1 H). }
    destruct (loop1 sys try_add s0 (parse_tops name_of tops) [] []) as [[s1 used] d1] eqn:E1.
    assert (H1 : dict_ok P Q d1).
    { change d1 with (snd (s1, used, d1)). rewrite <- E1. apply loop1_ok; [exact HP | constructor]. }
    assert (H2 := loop2_ok P Q (parse_tops name_of tops) HP used d1 0 H1).
    apply loop3_ok; [intros c Hc; exact Hc | exact H2].
  Qed.

  Lemma discover_total s0 tops coords : exists d, disc s0 tops coords = Ok d.
  Proof. destruct (discover_ok s0 tops coords) as [d [H _]]; eauto. Qed.

  (* sort_molecules fails only when the start system refuses an explicitly given start topology *)
  Lemma sort_molecules_err files known e :
    sortm files known = Err e -> init_system (map (fun k : triple => fst (fst k)) known) = Err e.
  Proof.
    unfold sort_molecules. destruct (init_system _) as [s0|e0]; cbn [bind]; [|congruence].
    destruct (discover_total s0 (fst (candidates files known)) (snd (candidates files known))) as [d H].
    rewrite H. discriminate.
  Qed.

  Lemma fold_remove_known known : forall t c x,
    (In x (fst (remove_known known (t, c))) ->
       In x t /\ forall a b cc, In (a, b, cc) known -> x <> a /\ x <> cc) /\
    (In x (snd (remove_known known (t, c))) ->
       In x c /\ forall a b cc, In (a, b, cc) known -> x <> b).
  Proof.
    unfold remove_known. induction known as [|[[a0 b0] c0] r IH]; intros t c x; simpl.
    - split; intros H; (split; [exact H | intros ? ? ? []]).
    - destruct (IH (remove_file c0 (remove_file a0 t)) (remove_file b0 c) x) as [I1 I2]. split; intros H.
      + destruct (I1 H) as [Hin Hr]. rewrite !remove_file_In in Hin. destruct Hin as [[Hin Ha] Hc].
        split; [exact Hin|]. intros a b cc [E|E]; [inversion E; subst; split; congruence | eapply Hr; exact E].
      + destruct (I2 H) as [Hin Hr]. rewrite remove_file_In in Hin. destruct Hin as [Hin Hb].
        split; [exact Hin|]. intros a b cc [E|E]; [inversion E; subst; congruence | eapply Hr; exact E].
  Qed.

  (* no file of an explicitly given species comes back through the discovery, and every file of the result
     was listed and has the right kind *)
  Lemma sort_molecules_provenance files known d n i k f :
    sortm files known = Ok d -> dget n d = Some i -> iget k i = Some f ->
    In f files /\
    match k with
    | CoorAA => is_coord f = true /\ forall a b c, In (a, b, c) known -> f <> b
    | _ => is_top f = true /\ forall a b c, In (a, b, c) known -> f <> a /\ f <> c
    end.
  Proof.
    unfold sort_molecules. destruct (init_system _) as [s0|e0]; cbn [bind]; [|discriminate].
    intros H G I.
    destruct (discover_ok s0 (fst (candidates files known)) (snd (candidates files known))) as [d' [H' Hok]].
    rewrite H' in H; inversion H; subst d'.
    destruct (dict_ok_get _ _ _ _ _ Hok G) as [_ F]. simpl in F.
    rewrite Forall_forall in F. specialize (F _ (iget_In _ _ _ I)). unfold slot_ok in F; simpl in F.
    unfold candidates in F; simpl in F.
    destruct (fold_remove_known known (filter is_top files) (filter is_coord files) f) as [I1 I2].
    destruct k; rewrite sorted_set_In in F.
    - destruct (I1 F) as [Hin Hr]. apply filter_In in Hin. tauto.
    - destruct (I1 F) as [Hin Hr]. apply filter_In in Hin. tauto.
    - destruct (I2 F) as [Hin Hr]. apply filter_In in Hin. tauto.
  Qed.

  Lemma sort_molecules_entries files known d n i :
    sortm files known = Ok d -> In (n, i) d -> NoDup (map fst i).
  Proof.
    unfold sort_molecules. destruct (init_system _) as [s0|e0]; cbn [bind]; [|discriminate].
    intros H G.
    destruct (discover_ok s0 (fst (candidates files known)) (snd (candidates files known))) as [d' [H' Hok]].
    rewrite H' in H; inversion H; subst d'.
    unfold dict_ok in Hok. rewrite Forall_forall in Hok. exact (proj1 (Hok _ G)).
  Qed.


  (* an entry that lacks the end topology or the end coordinates is not complete, hence never mapped (D11) *)
  Lemma incomplete_not_full files known d n i :
    sortm files known = Ok d -> In (n, i) d ->
    iget TopAA i = None \/ iget CoorAA i = None -> full i = false.
  Proof.
    intros H Hin Hm. assert (N := sort_molecules_entries files known d n i H Hin).
    destruct (full i) eqn:Fu; [|reflexivity]. exfalso.
    unfold full in Fu. apply Nat.eqb_eq in Fu.
    destruct (full_keys i N Fu) as [_ [B C]].
    destruct (In_iget _ _ B) as [b Hb], (In_iget _ _ C) as [c Hc].
    destruct Hm as [Hm|Hm]; congruence.
  Qed.

  (* ---------------------------------------------------------------- main: the exclusion filter *)
  Definition selected (exclude : option (list string)) (d : added) (t : triple) : Prop :=
    exists n i, In (n, i) d /\ full i = true /\ excluded exclude n = false /\ triple_of i = Ok t.

  Lemma auto_append_spec exclude d :
    (forall n i, In (n, i) d -> full i = true -> exists t, triple_of i = Ok t) ->
    forall mols, exists ds, auto_append exclude d mols = Ok (mols ++ ds)%list /\
                            forall t, In t ds <-> selected exclude d t.
  Proof.
    induction d as [|[n i] r IH]; intros Hf mols; simpl.
    - exists []. rewrite app_nil_r. split; [reflexivity|].
      intros t; split; [intros [] | intros [? [? [[] _]]]].
    - assert (Hr : forall n0 i0, In (n0, i0) r -> full i0 = true -> exists t, triple_of i0 = Ok t)
        by (intros; eapply Hf; [right|]; eauto).
      destruct (full i) eqn:Fu.
      + destruct (excluded exclude n) eqn:Ex.
        * destruct (IH Hr mols) as [ds [H1 H2]]. exists ds. split; [exact H1|].
          intros t. rewrite H2. unfold selected. split.
          -- intros [n0 [i0 [Hin R]]]. exists n0, i0. split; [right; exact Hin | exact R].
          -- intros [n0 [i0 [[E|Hin] [R1 [R2 R3]]]]].
             ++ inversion E; subst. congruence.
             ++ exists n0, i0. auto.
        * destruct (Hf n i (or_introl eq_refl) Fu) as [t0 Ht0]. rewrite Ht0. simpl.
          destruct (IH Hr (mols ++ [t0])%list) as [ds [H1 H2]]. exists (t0 :: ds).
          split; [rewrite H1, <- app_assoc; reflexivity|].
          intros t. simpl. rewrite H2. unfold selected. split.
          -- intros [<-|[n0 [i0 [Hin R]]]].
             ++ exists n, i. split; [left; reflexivity | auto].
             ++ exists n0, i0. split; [right; exact Hin | exact R].
          -- intros [n0 [i0 [[E|Hin] [R1 [R2 R3]]]]].
             ++ inversion E; subst. left. congruence.
             ++ right. exists n0, i0. auto.
      + destruct (IH Hr mols) as [ds [H1 H2]]. exists ds. split; [exact H1|].
        intros t. rewrite H2. unfold selected. split.
        * intros [n0 [i0 [Hin R]]]. exists n0, i0. split; [right; exact Hin | exact R].
        * intros [n0 [i0 [[E|Hin] [R1 [R2 R3]]]]].
          -- inversion E; subst. congruence.
          -- exists n0, i0. auto.
  Qed.

  Definition mol_list (mol : option (list triple)) : list triple := match mol with Some m => m | None => [] end.

  (* main with --auto: succeeds exactly when sort_molecules does; the molecules handed to auto_map are the explicit
     ones followed by the complete, non-excluded discovered entries *)
  Lemma main_molecules_spec mol files exclude :
    match sortm files (mol_list mol) with
    | Err e => mainm mol (Some files) exclude = Err e
    | Ok d => exists ds, mainm mol (Some files) exclude = Ok (mol_list mol ++ ds)%list /\
                         forall t, In t ds <-> selected exclude d t
    end.
  Proof.
    unfold main_molecules. fold (mol_list mol).
    destruct (sortm files (mol_list mol)) as [d|e] eqn:E; simpl; [|reflexivity].
    apply auto_append_spec. intros n i Hin Fu.
    apply full_triple; [|exact Fu]. eapply sort_molecules_entries; eauto.
  Qed.

  Lemma main_molecules_no_auto mol exclude : mainm mol None exclude = Ok (mol_list mol).
  Proof. reflexivity. Qed.
End InvMain.
