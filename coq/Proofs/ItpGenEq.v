(* Second tie (DESIGN.md 4.6) for ItpLine.parse_itp_line of gaddlemaps/parsers/_itp_parse.py: the definition that
   harness/pytrans_itp.py regenerates from the CURRENT source text at every run (Gen/ItpGen.v) is proved equal to
   the hand-written model of Model/Itp.v, for every line. *)
From Coq Require Import List Ascii Bool.
From GM Require Import Base.Res Base.StrItp Gen.ItpGen Model.Itp.
Import ListNotations.
Local Open Scope char_scope.

Lemma split_on_nonempty d s : exists x xs, split_on d s = x :: xs.
Proof.
  induction s as [|c r [x [xs IH]]]; simpl; [eauto|].
  destruct (Ascii.eqb c d); [eauto|]. rewrite IH. simpl. eauto.
Qed.

Lemma split_on_cut d s a b : cut_at d s = Some (a, b) -> split_on d s = a :: split_on d b.
Proof.
  revert a b; induction s as [|c r IH]; simpl; intros a b H; [discriminate|].
  destruct (Ascii.eqb c d).
  - inversion H; subst; reflexivity.
  - destruct (cut_at d r) as [[a' b']|] eqn:E; [|discriminate].
    inversion H; subst. rewrite (IH _ _ eq_refl). reflexivity.
Qed.

Lemma join_on_cons d x y ys : join_on d (x :: y :: ys) = x ++ d :: join_on d (y :: ys).
Proof. reflexivity. Qed.

Lemma join_split d s : join_on d (split_on d s) = s.
Proof.
  induction s as [|c r IH]; [reflexivity|]. simpl.
  destruct (split_on_nonempty d r) as [x [xs Hx]]. rewrite Hx in *.
  destruct (Ascii.eqb c d) eqn:E.
  - apply Ascii.eqb_eq in E. subst c. rewrite join_on_cons, IH. reflexivity.
  - cbn [cons_first]. destruct xs as [|y ys].
    + cbn [join_on] in *. rewrite IH. reflexivity.
    + rewrite join_on_cons in *. rewrite <- IH. reflexivity.
Qed.

Lemma mem_cut d s : mem d s = true -> exists a b, cut_at d s = Some (a, b).
Proof.
  unfold mem. induction s as [|c r IH]; simpl; [discriminate|]. intros H.
  destruct (Ascii.eqb c d) eqn:E; [eauto|].
  rewrite Ascii.eqb_sym, E in H. simpl in H. destruct (IH H) as [a [b Hc]]. rewrite Hc. eauto.
Qed.

Lemma mem_removelast d s : mem d (removelast s) = true -> mem d s = true.
Proof.
  unfold mem. induction s as [|c r IH]; [discriminate|].
  destruct r as [|c' r']; [discriminate|].
  change (removelast (c :: c' :: r')) with (c :: removelast (c' :: r')).
  cbn [existsb]. intros H. apply orb_true_iff in H. apply orb_true_iff. destruct H as [H|H]; [left; exact H|].
  right. apply IH. exact H.
Qed.

Theorem parse_itp_line_gen_eq (l : str) : parse_itp_line_gen l = parse_itp_line l.
Proof.
  unfold parse_itp_line_gen, parse_itp_line.
  destruct (is_blank l) eqn:Hb; [reflexivity|].
  destruct (re_header l); [reflexivity|].
  destruct (startswith "#" l); [reflexivity|].
  destruct (startswith ";" l); [destruct l; reflexivity|].
  destruct (mem ";" (removelast l)) eqn:Hm.
  - destruct (mem_cut _ _ (mem_removelast _ _ Hm)) as [a [b Hc]]. rewrite Hc. cbv zeta.
    rewrite (split_on_cut _ _ _ _ Hc). unfold nth_res. cbn [nth_error bind skipn].
    rewrite join_split. reflexivity.
  - unfold py_last, last_is. destruct (last_opt l) as [c|] eqn:Hl.
    + cbn [bind]. destruct (Ascii.eqb c ";"); reflexivity.
    + exfalso. unfold last_opt in Hl. destruct (rev l) as [|c r] eqn:Hr; [|discriminate].
      apply (f_equal (@rev _)) in Hr. rewrite rev_involutive in Hr. subst l. discriminate Hb.
Qed.
