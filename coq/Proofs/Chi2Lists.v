(* Lemmas about the index/list helpers of Model/Chi2.v (no scalars involved) and about mapM. *)
From Coq Require Import List Arith Lia Bool ZArith.
From GM Require Import Base.Res Model.Chi2.
Import ListNotations.

(* ---------- mapM ---------- *)
Lemma mapM_map {A B C} (g : A -> B) (f : B -> res C) l : mapM f (map g l) = mapM (fun x => f (g x)) l.
Proof. induction l as [|x xs IH]; simpl; [reflexivity|]. rewrite IH; reflexivity. Qed.

Lemma mapM_ext_in {A B} (f g : A -> res B) l : (forall x, In x l -> f x = g x) -> mapM f l = mapM g l.
Proof.
  induction l as [|x xs IH]; simpl; intros E; [reflexivity|].
  rewrite (E x) by auto. rewrite IH by auto. reflexivity.
Qed.

Lemma mapM_all_ok {A B} (f : A -> res B) l :
  (forall x, In x l -> exists y, f x = Ok y) -> exists ys, mapM f l = Ok ys.
Proof.
  induction l as [|x xs IH]; simpl; intros E; [eauto|].
  destruct (E x) as [y Ey]; auto. rewrite Ey. destruct IH as [ys Eys]; auto.
  rewrite Eys. simpl. eauto.
Qed.

Lemma mapM_In {A B} (f : A -> res B) l l' y :
  mapM f l = Ok l' -> In y l' -> exists x, In x l /\ f x = Ok y.
Proof.
  revert l'; induction l as [|x xs IH]; simpl; intros l' E Hy.
  - inversion E; subst; contradiction.
  - destruct (f x) eqn:Ef; simpl in E; [|discriminate].
    destruct (mapM f xs) eqn:Em; simpl in E; [|discriminate].
    inversion E; subst. destruct Hy as [<-|Hy]; [eauto|].
    destruct (IH _ eq_refl Hy) as [x' [? ?]]; eauto.
Qed.

Lemma mapM_cons {A B} (f : A -> res B) x xs :
  mapM f (x :: xs) = (let* y := f x in let* ys := mapM f xs in Ok (y :: ys)).
Proof. reflexivity. Qed.

(* ---------- nth_res / gather ---------- *)
Lemma nth_res_ok {A} (l : list A) i : i < length l -> exists a, nth_res l i = Ok a.
Proof.
  intros Hi. unfold nth_res. destruct (nth_error l i) eqn:E; [eauto|].
  apply nth_error_None in E; lia.
Qed.

Lemma nth_res_ok_inv {A} (l : list A) i a : nth_res l i = Ok a -> nth_error l i = Some a /\ i < length l.
Proof.
  unfold nth_res. destruct (nth_error l i) eqn:E; intros H; inversion H; subst.
  split; [reflexivity|]. apply nth_error_Some; congruence.
Qed.

Lemma nth_res_map {A B} (g : A -> B) (l : list A) i : nth_res (map g l) i = rmap g (nth_res l i).
Proof. unfold nth_res. rewrite nth_error_map. destruct (nth_error l i); reflexivity. Qed.

Lemma gather_ok {A} (l : list A) idx : (forall i, In i idx -> i < length l) -> exists r, gather l idx = Ok r.
Proof. intros Hr. apply mapM_all_ok. intros i Hi. apply nth_res_ok; auto. Qed.

Lemma gather_map {A B} (g : A -> B) (l : list A) idx : gather (map g l) idx = rmap (map g) (gather l idx).
Proof.
  unfold gather. induction idx as [|i is IH]; simpl; [reflexivity|].
  rewrite nth_res_map. destruct (nth_res l i); simpl; [|reflexivity].
  rewrite IH. destruct (mapM (nth_res l) is); reflexivity.
Qed.

(* ---------- select / mask ---------- *)
Lemma select_map {A B} (g : A -> B) mask (l : list A) : select mask (map g l) = map g (select mask l).
Proof.
  revert l; induction mask as [|b ms IH]; intros [|x xs]; simpl; try reflexivity.
  destruct b; simpl; rewrite IH; reflexivity.
Qed.

Lemma select_none {A} mask (l : list A) : existsb (fun b => b) mask = false -> select mask l = [].
Proof.
  revert l; induction mask as [|b ms IH]; intros [|x xs]; simpl; try reflexivity.
  destruct b; simpl; [discriminate|]. auto.
Qed.

Lemma select_all {A} (f : nat -> bool) (l : list A) s :
  (forall i, f i = true) -> select (map f (seq s (length l))) l = l.
Proof.
  intros Hf. revert s; induction l as [|x xs IH]; intros s; simpl; [reflexivity|].
  rewrite Hf, IH. reflexivity.
Qed.

(* mapM over the selected elements = mapM over the indices that pass the filter *)
Lemma mapM_select {A B} (f : A -> res B) (p : nat -> bool) (l pre : list A) :
  mapM (fun i => let* a := nth_res (pre ++ l) i in f a) (filter p (seq (length pre) (length l)))
  = mapM f (select (map p (seq (length pre) (length l))) l).
Proof.
  revert pre; induction l as [|x xs IH]; intros pre; simpl; [reflexivity|].
  assert (E : pre ++ x :: xs = (pre ++ [x]) ++ xs) by (rewrite <- app_assoc; reflexivity).
  assert (L : S (length pre) = length (pre ++ [x])) by (rewrite app_length; simpl; lia).
  specialize (IH (pre ++ [x])). rewrite <- E, <- L in IH.
  destruct (p (length pre)); simpl.
  - unfold nth_res at 1. rewrite nth_error_app2, Nat.sub_diag by lia. simpl.
    rewrite IH. reflexivity.
  - apply IH.
Qed.

Lemma mapM_select0 {A B} (f : A -> res B) (p : nat -> bool) (l : list A) :
  mapM (fun i => let* a := nth_res l i in f a) (filter p (seq 0 (length l)))
  = mapM f (select (map p (seq 0 (length l))) l).
Proof. exact (mapM_select f p l []). Qed.

Lemma not_restr_mask_ok n r1 mask : not_restr_mask n r1 = Ok mask ->
  mask = map (fun i => negb (mem_nat i r1)) (seq 0 n) /\ (forall i, In i r1 -> i < n).
Proof.
  unfold not_restr_mask. destruct (forallb _ r1) eqn:E; intros H; inversion H; subst.
  split; [reflexivity|]. intros i Hi. rewrite forallb_forall in E. apply Nat.ltb_lt. auto.
Qed.

Lemma not_restr_mask_in_range n r1 : (forall i, In i r1 -> i < n) ->
  not_restr_mask n r1 = Ok (map (fun i => negb (mem_nat i r1)) (seq 0 n)).
Proof.
  intros Hr. unfold not_restr_mask.
  assert (E : forallb (fun i => i <? n) r1 = true).
  { apply forallb_forall. intros i Hi. apply Nat.ltb_lt; auto. }
  rewrite E; reflexivity.
Qed.

(* ---------- mem_nat / distinct / counting ---------- *)
Lemma mem_nat_In x l : mem_nat x l = true <-> In x l.
Proof.
  unfold mem_nat. rewrite existsb_exists. split.
  - intros [y [Hy E]]. apply Nat.eqb_eq in E; subst; assumption.
  - intros Hx; exists x; split; [assumption|apply Nat.eqb_refl].
Qed.

Lemma mem_nat_app x l1 l2 : mem_nat x (l1 ++ l2) = mem_nat x l1 || mem_nat x l2.
Proof. unfold mem_nat. apply existsb_app. Qed.

Lemma distinct_In x l : In x (distinct l) <-> In x l.
Proof.
  induction l as [|y ys IH]; simpl; [tauto|].
  destruct (mem_nat y ys) eqn:E.
  - rewrite IH. apply mem_nat_In in E. split; [auto|]. intros [<-|?]; auto.
  - simpl. rewrite IH. tauto.
Qed.

Lemma distinct_NoDup l : NoDup (distinct l).
Proof.
  induction l as [|y ys IH]; simpl; [constructor|].
  destruct (mem_nat y ys) eqn:E; [assumption|].
  constructor; [|assumption]. rewrite distinct_In. intros Hy. apply mem_nat_In in Hy. congruence.
Qed.

Lemma distinct_of_NoDup l : NoDup l -> distinct l = l.
Proof.
  induction 1 as [|y ys Hy _ IH]; simpl; [reflexivity|].
  destruct (mem_nat y ys) eqn:E; [apply mem_nat_In in E; contradiction|]. rewrite IH; reflexivity.
Qed.

Lemma NoDup_same_length (l1 l2 : list nat) :
  NoDup l1 -> NoDup l2 -> (forall x, In x l1 <-> In x l2) -> length l1 = length l2.
Proof.
  intros N1 N2 E. apply Nat.le_antisymm; apply NoDup_incl_length; auto; intros x Hx; apply E; auto.
Qed.

Lemma distinct_length_ext l1 l2 : (forall x, In x l1 <-> In x l2) -> length (distinct l1) = length (distinct l2).
Proof.
  intros E. apply NoDup_same_length; try apply distinct_NoDup.
  intros x. rewrite !distinct_In. apply E.
Qed.

Lemma filter_split_length {A} (p : A -> bool) l :
  length (filter p l) + length (filter (fun x => negb (p x)) l) = length l.
Proof. induction l as [|x xs IH]; simpl; [reflexivity|]. destruct (p x); simpl; lia. Qed.

(* among the labels 0..n-1, those that do not occur in L are n - |set(L)| many *)
Lemma count_not_in (L : list nat) n : (forall x, In x L -> x < n) ->
  length (filter (fun j => negb (mem_nat j L)) (seq 0 n)) + length (distinct L) = n.
Proof.
  intros Hr.
  assert (E : length (filter (fun j => mem_nat j L) (seq 0 n)) = length (distinct L)).
  { apply NoDup_same_length.
    - apply NoDup_filter, seq_NoDup.
    - apply distinct_NoDup.
    - intros x. rewrite filter_In, in_seq, mem_nat_In, distinct_In. split; [tauto|].
      intros Hx. specialize (Hr x Hx). split; [lia|assumption]. }
  pose proof (filter_split_length (fun j => mem_nat j L) (seq 0 n)) as S.
  rewrite seq_length in S. lia.
Qed.

Lemma map2_In {A B C} (f : A -> B -> C) l1 l2 y : In y (map2 f l1 l2) -> exists a b, y = f a b.
Proof. unfold map2. rewrite in_map_iff. intros [[a b] [E _]]. simpl in E. eauto. Qed.

Lemma map2_map {A B C A' B'} (f : A -> B -> C) (g : A' -> A) (h : B' -> B) l1 l2 :
  map2 f (map g l1) (map h l2) = map2 (fun a b => f (g a) (h b)) l1 l2.
Proof.
  unfold map2. revert l2; induction l1 as [|a l1 IH]; intros [|b l2]; simpl; try reflexivity.
  f_equal. apply IH.
Qed.

Lemma map2_ext {A B C} (f g : A -> B -> C) l1 l2 : (forall a b, f a b = g a b) -> map2 f l1 l2 = map2 g l1 l2.
Proof. intros E. unfold map2. apply map_ext. intros [a b]; apply E. Qed.
