(* End to end: loading a text that carries a topology gives the atoms and exactly the listed bond graph. *)
From Coq Require Import List Ascii Bool Arith Lia ZArith Sorted.
From GM Require Import Base.Res Base.StrItp Model.Itp Model.Topology Proofs.ItpSpec Proofs.TopologyParse Proofs.TopologyGraph.
Import ListNotations.

Lemma Forall2_In_l {A B} (R : A -> B -> Prop) l1 l2 a : Forall2 R l1 l2 -> In a l1 -> exists b, In b l2 /\ R a b.
Proof.
  intros H. induction H as [|x y l1 l2 Hxy _ IH]; simpl; intros Ha; [contradiction|].
  destruct Ha as [Ha|Ha]; [subst; eauto | destruct (IH Ha) as [b [Hb Rb]]; eauto].
Qed.

Lemma nth_error_inj (l : list Z) i j z : NoDup l -> nth_error l i = Some z -> nth_error l j = Some z -> i = j.
Proof.
  intros Hnd Hi Hj. rewrite NoDup_nth_error in Hnd. apply Hnd; [|congruence].
  apply nth_error_Some. congruence.
Qed.

(* atom i and atom j are bonded by the listed (numbered) pair b, in either orientation *)
Definition listed (nrs : list Z) (raw : list (Z * Z)) (i j : nat) : Prop :=
  exists b, In b raw /\
    ((nth_error nrs i = Some (fst b) /\ nth_error nrs j = Some (snd b)) \/
     (nth_error nrs j = Some (fst b) /\ nth_error nrs i = Some (snd b))).

Theorem load_molecule_render : forall text t,
  file_denotes (lines text) t ->
  ts_atoms t <> [] -> NoDup (map as_nr (ts_atoms t)) ->
  (forall b, In b (ts_cons t ++ ts_bonds t ++ ts_pairs t) ->
     In (fst b) (map as_nr (ts_atoms t)) /\ In (snd b) (map as_nr (ts_atoms t))) ->
  exists atoms,
    load_molecule text = Ok (ts_name t, atoms) /\ List.length atoms = List.length (ts_atoms t) /\
    forall i a, nth_error (ts_atoms t) i = Some a ->
      exists at_, nth_error atoms i = Some at_ /\ at_name at_ = as_name a /\ at_resname at_ = as_resname a /\
        at_resid at_ = as_resid a /\ at_index at_ = i /\ StronglySorted lt (at_bonds at_) /\
        forall j, In j (at_bonds at_) <->
                  listed (map as_nr (ts_atoms t)) (ts_cons t ++ ts_bonds t ++ ts_pairs t) i j.
Proof.
  intros text t Hden Hne Hnd Hends.
  destruct (read_topology_render text t Hden Hne Hnd Hends) as (bonds & Hread & Hrel & Hrange).
  set (nrs := map as_nr (ts_atoms t)) in *. set (raw := ts_cons t ++ ts_bonds t ++ ts_pairs t) in *.
  assert (Hrange' : forall b, In b bonds ->
            fst b < List.length (map info_of (ts_atoms t)) /\ snd b < List.length (map info_of (ts_atoms t))).
  { intros b Hb. rewrite map_length. apply Hrange. exact Hb. }
  destruct (molecule_top_graph (ts_name t) (map info_of (ts_atoms t)) bonds Hrange') as (atoms & Hmol & Hlen & Hat).
  exists atoms. split; [|split].
  - unfold load_molecule. rewrite Hread. simpl. exact Hmol.
  - rewrite Hlen. apply map_length.
  - intros i a Hi.
    assert (Hinfo : nth_error (map info_of (ts_atoms t)) i = Some (info_of a)) by (rewrite nth_error_map, Hi; reflexivity).
    destruct (Hat i _ Hinfo) as (at_ & H1 & H2 & H3 & H4 & H5 & H6 & H7).
    exists at_. repeat split; try assumption.
    + intros Hj. apply H7 in Hj. destruct Hj as [Hj|Hj].
      * destruct (Forall2_In_r _ _ _ _ Hrel Hj) as [b [Hb [B1 B2]]]. exists b. split; [exact Hb|]. left. simpl in *. tauto.
      * destruct (Forall2_In_r _ _ _ _ Hrel Hj) as [b [Hb [B1 B2]]]. exists b. split; [exact Hb|]. right. simpl in *. tauto.
    + intros (b & Hb & Hor). apply H7. destruct (Forall2_In_l _ _ _ _ Hrel Hb) as [[i' j'] [Hij [B1 B2]]]. simpl in *.
      destruct Hor as [[P1 P2]|[P1 P2]].
      * left. rewrite (nth_error_inj nrs i i' _ Hnd P1 B1), (nth_error_inj nrs j j' _ Hnd P2 B2). exact Hij.
      * right. rewrite (nth_error_inj nrs j i' _ Hnd P1 B1), (nth_error_inj nrs i j' _ Hnd P2 B2). exact Hij.
Qed.
