(* Lemmas about the heap model Model/TopHeap.v of MoleculeTop.copy / AtomTop.copy:
   a copy is equal (deep value and __eq__) to the original and shares no mutable cell with it. *)
From Coq Require Import List Ascii String ZArith NArith Bool Lia PeanoNat.
From GM Require Import Base.Res Base.StrItp Model.Itp Model.Topology Model.TopHeap.
Import ListNotations.

(* ---------------------------------------------------------------- tactics *)
Ltac inv_bind H :=
  let x := fresh "x" in let H1 := fresh "E" in
  apply bind_ok in H; destruct H as (x & H1 & H).

Tactic Notation "invb" hyp(H) "as" ident(x) ident(E) :=
  apply bind_ok in H; destruct H as (x & E & H).

Ltac inv_ok H := inversion H; subst; clear H.

(* ---------------------------------------------------------------- load / alloc / store *)
Lemma load_nth h l c : load h l = Ok c <-> nth_error h l = Some c.
Proof.
  unfold load, nth_res. destruct (nth_error h l); split; intros H; inversion H; reflexivity.
Qed.

Lemma load_lt h l c : load h l = Ok c -> l < List.length h.
Proof. intros H. apply load_nth in H. apply nth_error_Some. congruence. Qed.

Lemma load_app_lt h k l : l < List.length h -> load (h ++ k) l = load h l.
Proof. intros H. unfold load, nth_res. rewrite nth_error_app1 by assumption. reflexivity. Qed.

Lemma load_app h k l c : load h l = Ok c -> load (h ++ k) l = Ok c.
Proof. intros H. rewrite load_app_lt; [assumption | eapply load_lt; eassumption]. Qed.

Lemma load_alloc h c k : load (h ++ c :: k) (List.length h) = Ok c.
Proof.
  unfold load, nth_res. rewrite nth_error_app2 by lia. rewrite Nat.sub_diag. reflexivity.
Qed.

Lemma nth_error_load h1 h2 l : nth_error h2 l = nth_error h1 l -> load h2 l = load h1 l.
Proof. unfold load, nth_res. intros ->. reflexivity. Qed.

Lemma store_length h l c : List.length (store h l c) = List.length h.
Proof.
  revert l; induction h as [|x r IH]; intros l; simpl; [reflexivity|].
  destruct l; simpl; [reflexivity | rewrite IH; reflexivity].
Qed.

Lemma store_other h l c x : x <> l -> nth_error (store h l c) x = nth_error h x.
Proof.
  revert l x; induction h as [|y r IH]; intros l x Hx; simpl; [reflexivity|].
  destruct l as [|l]; destruct x as [|x]; simpl; try reflexivity.
  - contradiction.
  - apply IH. congruence.
Qed.

Lemma store_same h l c : l < List.length h -> nth_error (store h l c) l = Some c.
Proof.
  revert l; induction h as [|y r IH]; intros l Hl; simpl in *; [lia|].
  destruct l as [|l]; simpl; [reflexivity | apply IH; lia].
Qed.

Lemma stores_length ws h : List.length (stores ws h) = List.length h.
Proof.
  revert h; induction ws as [|w ws IH]; intros h; simpl; [reflexivity|].
  unfold stores in *. simpl. rewrite IH. apply store_length.
Qed.

Lemma stores_other ws h x :
  (forall w, In w ws -> fst w <> x) -> nth_error (stores ws h) x = nth_error h x.
Proof.
  revert h; induction ws as [|w ws IH]; intros h Hw; [reflexivity|].
  unfold stores in *. simpl. rewrite IH.
  - apply store_other. intros E. apply (Hw w); [left; reflexivity | congruence].
  - intros w' Hin. apply Hw. right. assumption.
Qed.

(* ---------------------------------------------------------------- typed loads *)
Lemma load_atom_inv h l a : load_atom h l = Ok a -> load h l = Ok (CAtom a).
Proof.
  unfold load_atom. intros H. inv_bind H. destruct x; try discriminate. inv_ok H. assumption.
Qed.
Lemma load_set_inv h l s : load_set h l = Ok s -> load h l = Ok (CSet s).
Proof.
  unfold load_set. intros H. inv_bind H. destruct x; try discriminate. inv_ok H. assumption.
Qed.
Lemma load_list_inv h l ls : load_list h l = Ok ls -> load h l = Ok (CList ls).
Proof.
  unfold load_list. intros H. inv_bind H. destruct x; try discriminate. inv_ok H. assumption.
Qed.
Lemma load_mol_inv h l f n a : load_mol h l = Ok (f, n, a) -> load h l = Ok (CMol f n a).
Proof.
  unfold load_mol. intros H. inv_bind H. destruct x; try discriminate. inv_ok H. assumption.
Qed.

Lemma load_atom_of h l a : load h l = Ok (CAtom a) -> load_atom h l = Ok a.
Proof. unfold load_atom. intros ->. reflexivity. Qed.
Lemma load_set_of h l s : load h l = Ok (CSet s) -> load_set h l = Ok s.
Proof. unfold load_set. intros ->. reflexivity. Qed.
Lemma load_list_of h l ls : load h l = Ok (CList ls) -> load_list h l = Ok ls.
Proof. unfold load_list. intros ->. reflexivity. Qed.
Lemma load_mol_of h l f n a : load h l = Ok (CMol f n a) -> load_mol h l = Ok (f, n, a).
Proof. unfold load_mol. intros ->. reflexivity. Qed.

(* ---------------------------------------------------------------- footprints and frames *)
Lemma view_atom_fp h l a : view_atom h l = Ok a -> exists fpl, atom_fp h l = Ok fpl.
Proof.
  unfold view_atom, atom_fp. intros H. inv_bind H. inv_bind H.
  rewrite E. simpl. rewrite E0. simpl. eauto.
Qed.

Lemma views_fp h ls ats :
  mapM (view_atom h) ls = Ok ats -> exists fps, mapM (atom_fp h) ls = Ok fps.
Proof.
  revert ats; induction ls as [|l r IH]; intros ats H; simpl in *; [eauto|].
  inv_bind H. inv_bind H.
  destruct (view_atom_fp _ _ _ E) as (fpl & ->). destruct (IH _ E0) as (fps & ->).
  simpl. eauto.
Qed.

Lemma view_footprint h m v : view h m = Ok v -> exists fp, footprint h m = Ok fp.
Proof.
  unfold view, footprint. intros H. inv_bind H. inv_bind H. inv_bind H.
  rewrite E. simpl. rewrite E0. simpl. destruct (views_fp _ _ _ E1) as (fps & ->). simpl. eauto.
Qed.

Lemma atom_fp_bound h l fpl : atom_fp h l = Ok fpl -> forall x, In x fpl -> x < List.length h.
Proof.
  unfold atom_fp. intros H. inv_bind H. inv_bind H. inv_ok H.
  apply load_atom_inv in E. apply load_set_inv in E0.
  intros y [<- | [<- | []]]; eapply load_lt; eassumption.
Qed.

Lemma atoms_fp_bound h ls fps :
  mapM (atom_fp h) ls = Ok fps -> forall x, In x (List.concat fps) -> x < List.length h.
Proof.
  revert fps; induction ls as [|l r IH]; intros fps H; simpl in *.
  - inv_ok H. intros x [].
  - inv_bind H. inv_bind H. inv_ok H. simpl. intros y Hy. apply in_app_or in Hy.
    destruct Hy as [Hy | Hy]; [eapply atom_fp_bound; eassumption | eapply IH; eauto].
Qed.

(* every location of the footprint is allocated *)
Lemma footprint_bound h m fp : footprint h m = Ok fp -> forall x, In x fp -> x < List.length h.
Proof.
  unfold footprint. intros H. inv_bind H. inv_bind H. inv_bind H. inv_ok H.
  destruct x as ((f, n), a). simpl in *.
  apply load_mol_inv in E. apply load_list_inv in E0.
  intros y [<- | [<- | Hy]]; try (eapply load_lt; eassumption).
  eapply atoms_fp_bound; eassumption.
Qed.

Lemma atom_frame h1 h2 l fpl :
  atom_fp h1 l = Ok fpl -> (forall x, In x fpl -> load h2 x = load h1 x) ->
  view_atom h2 l = view_atom h1 l /\ atom_fp h2 l = Ok fpl.
Proof.
  unfold atom_fp, view_atom. intros H A. inv_bind H. inv_bind H. inv_ok H.
  assert (L1 : load_atom h2 l = load_atom h1 l).
  { unfold load_atom. rewrite A by (simpl; auto). reflexivity. }
  assert (L2 : load_set h2 (o_bonds x) = load_set h1 (o_bonds x)).
  { unfold load_set. rewrite A by (simpl; auto). reflexivity. }
  rewrite L1, E. simpl. rewrite L2, E0. simpl. split; reflexivity.
Qed.

Lemma atoms_frame h1 h2 ls fps :
  mapM (atom_fp h1) ls = Ok fps -> (forall x, In x (List.concat fps) -> load h2 x = load h1 x) ->
  mapM (view_atom h2) ls = mapM (view_atom h1) ls /\ mapM (atom_fp h2) ls = Ok fps.
Proof.
  revert fps; induction ls as [|l r IH]; intros fps H A; simpl in *.
  - inv_ok H. split; reflexivity.
  - inv_bind H. inv_bind H. inv_ok H. simpl in A.
    destruct (atom_frame h1 h2 l x E) as (V & F).
    { intros y Hy. apply A. apply in_or_app. left. assumption. }
    destruct (IH x0 E0) as (Vs & Fs).
    { intros y Hy. apply A. apply in_or_app. right. assumption. }
    rewrite V, Vs, F, Fs. split; reflexivity.
Qed.

(* the frame lemma: view and footprint of m depend only on the cells of the footprint *)
Lemma frame h1 h2 m fp :
  footprint h1 m = Ok fp -> (forall x, In x fp -> load h2 x = load h1 x) ->
  view h2 m = view h1 m /\ footprint h2 m = Ok fp.
Proof.
  unfold footprint, view. intros H A. inv_bind H. inv_bind H. inv_bind H. inv_ok H.
  assert (L1 : load_mol h2 m = load_mol h1 m).
  { unfold load_mol. rewrite A by (simpl; auto). reflexivity. }
  assert (L2 : load_list h2 (snd x) = load_list h1 (snd x)).
  { unfold load_list. rewrite A by (simpl; auto). reflexivity. }
  destruct (atoms_frame h1 h2 x0 x1 E1) as (Vs & Fs).
  { intros y Hy. apply A. simpl. auto. }
  rewrite L1, E. simpl. rewrite L2, E0. simpl. rewrite Vs, Fs. simpl. split; reflexivity.
Qed.

(* allocation never changes an existing object graph *)
Lemma view_app h k m v : view h m = Ok v -> view (h ++ k) m = Ok v.
Proof.
  intros H. destruct (view_footprint _ _ _ H) as (fp & F).
  destruct (frame h (h ++ k) m fp F) as (V & _); [|congruence].
  intros x Hx. apply load_app_lt. eapply footprint_bound; eassumption.
Qed.

Lemma footprint_app h k m fp : footprint h m = Ok fp -> footprint (h ++ k) m = Ok fp.
Proof.
  intros F. destruct (frame h (h ++ k) m fp F) as (_ & F'); [|assumption].
  intros x Hx. apply load_app_lt. eapply footprint_bound; eassumption.
Qed.

Lemma view_atom_app h k l a : view_atom h l = Ok a -> view_atom (h ++ k) l = Ok a.
Proof.
  intros H. destruct (view_atom_fp _ _ _ H) as (fpl & F).
  destruct (atom_frame h (h ++ k) l fpl F) as (V & _); [|congruence].
  intros x Hx. apply load_app_lt. eapply atom_fp_bound; eassumption.
Qed.

Lemma atom_fp_app h k l fpl : atom_fp h l = Ok fpl -> atom_fp (h ++ k) l = Ok fpl.
Proof.
  intros F. destruct (atom_frame h (h ++ k) l fpl F) as (_ & F'); [|assumption].
  intros x Hx. apply load_app_lt. eapply atom_fp_bound; eassumption.
Qed.

Lemma views_app h k ls ats :
  mapM (view_atom h) ls = Ok ats -> mapM (view_atom (h ++ k)) ls = Ok ats.
Proof.
  intros H. destruct (views_fp _ _ _ H) as (fps & F).
  destruct (atoms_frame h (h ++ k) ls fps F) as (V & _); [|congruence].
  intros x Hx. apply load_app_lt. eapply atoms_fp_bound; eassumption.
Qed.

Lemma atoms_fp_app h k ls fps :
  mapM (atom_fp h) ls = Ok fps -> mapM (atom_fp (h ++ k)) ls = Ok fps.
Proof.
  intros F. destruct (atoms_frame h (h ++ k) ls fps F) as (_ & F'); [|assumption].
  intros x Hx. apply load_app_lt. eapply atoms_fp_bound; eassumption.
Qed.

(* ---------------------------------------------------------------- __eq__ from equal views *)
Lemma incl_b_refl s : incl_b s s = true.
Proof.
  unfold incl_b. apply forallb_forall. intros x Hx. unfold memn. apply existsb_exists.
  exists x. split; [assumption | apply Nat.eqb_refl].
Qed.

Lemma set_eqb_refl s : set_eqb s s = true.
Proof. unfold set_eqb. rewrite incl_b_refl. reflexivity. Qed.

Lemma view_atom_eq h l1 l2 a :
  view_atom h l1 = Ok a -> view_atom h l2 = Ok a -> atom_eq h l1 l2 = Ok true.
Proof.
  unfold view_atom, atom_eq. intros H1 H2.
  invb H1 as o1 A1. invb H1 as s1 S1. invb H2 as o2 A2. invb H2 as s2 S2.
  inv_ok H1. inv_ok H2.
  rewrite A1. simpl. apply load_atom_inv in A2. rewrite A2. simpl.
  rewrite S1. simpl. rewrite S2. simpl.
  match goal with
  | Hn : o_name o2 = _, Hr : o_resname o2 = _, Hi : o_index o2 = _ |- _ => rewrite Hn, Hr, Hi
  end.
  rewrite Nat.eqb_refl, !str_eqb_refl, set_eqb_refl. reflexivity.
Qed.

Lemma views_eq h ls1 ls2 ats :
  mapM (view_atom h) ls1 = Ok ats -> mapM (view_atom h) ls2 = Ok ats ->
  atoms_eq h ls1 ls2 = Ok true.
Proof.
  revert ls2 ats; induction ls1 as [|l1 r1 IH]; intros ls2 ats H1 H2; [reflexivity|].
  destruct ls2 as [|l2 r2]; [reflexivity|]. simpl in *.
  invb H1 as a1 A1. invb H1 as t1 T1. inv_ok H1.
  invb H2 as a2 A2. invb H2 as t2 T2. inv_ok H2.
  erewrite view_atom_eq by eassumption. simpl. eapply IH; eassumption.
Qed.

(* two objects with the same deep value are == (in both directions, since the premises are symmetric) *)
Lemma view_eq_mol_eq h m1 m2 v : view h m1 = Ok v -> view h m2 = Ok v -> mol_eq h m1 m2 = Ok true.
Proof.
  unfold view, mol_eq. intros H1 H2.
  invb H1 as p1 M1. invb H1 as ls1 L1. invb H1 as ats1 V1. inv_ok H1.
  invb H2 as p2 M2. invb H2 as ls2 L2. invb H2 as ats2 V2. inv_ok H2.
  destruct p1 as ((f1, n1), a1). destruct p2 as ((f2, n2), a2). simpl in *. subst.
  rewrite M1. simpl. apply load_mol_inv in M2. rewrite M2. simpl.
  rewrite str_eqb_refl, L1, L2. simpl.
  rewrite <- (mapM_length _ _ _ V1) at 1. rewrite <- (mapM_length _ _ _ V2) at 1.
  rewrite Nat.eqb_refl. eapply views_eq; eassumption.
Qed.

(* ---------------------------------------------------------------- copy *)
Lemma atom_copy_spec h l a :
  view_atom h l = Ok a ->
  exists l' k fpl',
    atom_copy h l = Ok (l', h ++ k) /\ view_atom (h ++ k) l' = Ok a /\
    atom_fp (h ++ k) l' = Ok fpl' /\ (forall x, In x fpl' -> List.length h <= x).
Proof.
  unfold view_atom at 1. intros H. inv_bind H. inv_bind H. inv_ok H.
  set (o' := {| o_name := o_name x; o_resname := o_resname x; o_resid := o_resid x;
                o_index := o_index x; o_bonds := List.length h |}).
  exists (S (List.length h)), [CSet x0; CAtom o'], [S (List.length h); List.length h].
  assert (L1 : load (h ++ [CSet x0; CAtom o']) (List.length h) = Ok (CSet x0)) by apply load_alloc.
  assert (L2 : load (h ++ [CSet x0; CAtom o']) (S (List.length h)) = Ok (CAtom o')).
  { replace (h ++ [CSet x0; CAtom o']) with ((h ++ [CSet x0]) ++ [CAtom o'])
      by (rewrite <- app_assoc; reflexivity).
    replace (S (List.length h)) with (List.length (h ++ [CSet x0]))
      by (rewrite app_length; simpl; lia).
    apply load_alloc. }
  repeat split.
  - unfold atom_copy. rewrite E. simpl. rewrite E0. simpl. unfold alloc.
    rewrite app_length. simpl. rewrite <- app_assoc. simpl.
    replace (List.length h + 1) with (S (List.length h)) by lia. reflexivity.
  - unfold view_atom. rewrite (load_atom_of _ _ _ L2). simpl.
    rewrite (load_set_of _ _ _ L1). reflexivity.
  - unfold atom_fp. rewrite (load_atom_of _ _ _ L2). simpl.
    rewrite (load_set_of _ _ _ L1). reflexivity.
  - intros y [<- | [<- | []]]; lia.
Qed.

Lemma atoms_copy_spec ls : forall h ats,
  mapM (view_atom h) ls = Ok ats ->
  exists ls' k fps',
    atoms_copy h ls = Ok (ls', h ++ k) /\ mapM (view_atom (h ++ k)) ls' = Ok ats /\
    mapM (atom_fp (h ++ k)) ls' = Ok fps' /\
    (forall x, In x (List.concat fps') -> List.length h <= x).
Proof.
  induction ls as [|l r IH]; intros h ats H; simpl in *.
  - inv_ok H. exists [], [], []. rewrite app_nil_r. repeat split. intros x [].
  - inv_bind H. inv_bind H. inv_ok H.
    destruct (atom_copy_spec h l x E) as (l' & k1 & fpl' & C1 & V1 & F1 & B1).
    destruct (IH (h ++ k1) x0 (views_app _ _ _ _ E0)) as (ls' & k2 & fps' & C2 & V2 & F2 & B2).
    exists (l' :: ls'), (k1 ++ k2), (fpl' :: fps').
    rewrite app_assoc. repeat split.
    + rewrite C1. simpl. rewrite C2. reflexivity.
    + simpl. rewrite (view_atom_app _ k2 _ _ V1). simpl. rewrite V2. reflexivity.
    + simpl. rewrite (atom_fp_app _ k2 _ _ F1). simpl. rewrite F2. reflexivity.
    + simpl. intros y Hy. apply in_app_or in Hy. destruct Hy as [Hy | Hy]; [auto|].
      apply B2 in Hy. rewrite app_length in Hy. lia.
Qed.

Lemma mol_copy_spec h m v :
  view h m = Ok v ->
  exists m' k fp',
    mol_copy h m = Ok (m', h ++ k) /\ view (h ++ k) m' = Ok v /\
    footprint (h ++ k) m' = Ok fp' /\ (forall x, In x fp' -> List.length h <= x).
Proof.
  unfold view at 1. intros H. inv_bind H. inv_bind H. inv_bind H. inv_ok H.
  destruct x as ((f, n), a). simpl in *.
  destruct (atoms_copy_spec x0 h x1 E1) as (ls' & k & fps' & C & V & F & B).
  set (h1 := h ++ k).
  set (lst' := List.length h1). set (m' := S lst').
  exists m', (k ++ [CList ls'; CMol f n lst']), (m' :: lst' :: List.concat fps').
  assert (A : h ++ k ++ [CList ls'; CMol f n lst'] = h1 ++ [CList ls'; CMol f n lst']).
  { unfold h1. rewrite app_assoc. reflexivity. }
  rewrite A.
  assert (L1 : load (h1 ++ [CList ls'; CMol f n lst']) lst' = Ok (CList ls')) by apply load_alloc.
  assert (L2 : load (h1 ++ [CList ls'; CMol f n lst']) m' = Ok (CMol f n lst')).
  { replace (h1 ++ [CList ls'; CMol f n lst']) with ((h1 ++ [CList ls']) ++ [CMol f n lst'])
      by (rewrite <- app_assoc; reflexivity).
    replace m' with (List.length (h1 ++ [CList ls']))
      by (rewrite app_length; unfold m', lst'; simpl; lia).
    apply load_alloc. }
  repeat split.
  - unfold mol_copy. rewrite E. simpl. rewrite E0. simpl. rewrite C. simpl. unfold alloc.
    fold h1. rewrite app_length. simpl. rewrite <- app_assoc. simpl.
    replace (List.length h1 + 1) with (S (List.length h1)) by lia. reflexivity.
  - unfold view. rewrite (load_mol_of _ _ _ _ _ L2). simpl.
    rewrite (load_list_of _ _ _ L1). simpl.
    unfold h1. rewrite (views_app _ _ _ _ V). reflexivity.
  - unfold footprint. rewrite (load_mol_of _ _ _ _ _ L2). simpl.
    rewrite (load_list_of _ _ _ L1). simpl.
    unfold h1. rewrite (atoms_fp_app _ _ _ _ F). reflexivity.
  - assert (List.length h <= List.length h1) by (unfold h1; rewrite app_length; lia).
    intros y [<- | [<- | Hy]]; unfold m', lst'; try lia. apply B. assumption.
Qed.

(* ---------------------------------------------------------------- construction *)
Lemma build_atom_spec a h :
  exists k, build_atom a h = (S (List.length h), h ++ k) /\
            view_atom (h ++ k) (S (List.length h)) = Ok a.
Proof.
  set (o := {| o_name := at_name a; o_resname := at_resname a; o_resid := at_resid a;
               o_index := at_index a; o_bonds := List.length h |}).
  exists [CSet (at_bonds a); CAtom o].
  assert (L1 : load (h ++ [CSet (at_bonds a); CAtom o]) (List.length h) = Ok (CSet (at_bonds a)))
    by apply load_alloc.
  assert (L2 : load (h ++ [CSet (at_bonds a); CAtom o]) (S (List.length h)) = Ok (CAtom o)).
  { replace (h ++ [CSet (at_bonds a); CAtom o]) with ((h ++ [CSet (at_bonds a)]) ++ [CAtom o])
      by (rewrite <- app_assoc; reflexivity).
    replace (S (List.length h)) with (List.length (h ++ [CSet (at_bonds a)]))
      by (rewrite app_length; simpl; lia).
    apply load_alloc. }
  split.
  - unfold build_atom, alloc. rewrite app_length. simpl. rewrite <- app_assoc. simpl.
    replace (List.length h + 1) with (S (List.length h)) by lia. reflexivity.
  - unfold view_atom. rewrite (load_atom_of _ _ _ L2). simpl.
    rewrite (load_set_of _ _ _ L1). simpl. destruct a; reflexivity.
Qed.

Lemma build_atoms_spec atoms : forall h,
  exists ls k, build_atoms atoms h = (ls, h ++ k) /\ mapM (view_atom (h ++ k)) ls = Ok atoms.
Proof.
  induction atoms as [|a r IH]; intros h; cbn [build_atoms].
  - exists [], []. rewrite app_nil_r. split; reflexivity.
  - destruct (build_atom_spec a h) as (k1 & B1 & V1).
    destruct (IH (h ++ k1)) as (ls & k2 & B2 & V2).
    exists (S (List.length h) :: ls), (k1 ++ k2). rewrite B1, B2, app_assoc. split; [reflexivity|].
    simpl. rewrite (view_atom_app _ k2 _ _ V1). simpl. rewrite V2. reflexivity.
Qed.

Lemma build_mol_spec ftop name atoms h :
  exists m k, build_mol ftop name atoms h = (m, h ++ k) /\ view (h ++ k) m = Ok (ftop, name, atoms).
Proof.
  destruct (build_atoms_spec atoms h) as (ls & k & B & V).
  set (h1 := h ++ k). set (lst := List.length h1).
  exists (S lst), (k ++ [CList ls; CMol ftop name lst]).
  assert (A : h ++ k ++ [CList ls; CMol ftop name lst] = h1 ++ [CList ls; CMol ftop name lst]).
  { unfold h1. rewrite app_assoc. reflexivity. }
  rewrite A.
  assert (L1 : load (h1 ++ [CList ls; CMol ftop name lst]) lst = Ok (CList ls)) by apply load_alloc.
  assert (L2 : load (h1 ++ [CList ls; CMol ftop name lst]) (S lst) = Ok (CMol ftop name lst)).
  { replace (h1 ++ [CList ls; CMol ftop name lst]) with ((h1 ++ [CList ls]) ++ [CMol ftop name lst])
      by (rewrite <- app_assoc; reflexivity).
    replace (S lst) with (List.length (h1 ++ [CList ls]))
      by (rewrite app_length; unfold lst; simpl; lia).
    apply load_alloc. }
  split.
  - unfold build_mol. rewrite B. unfold alloc. fold h1. rewrite app_length. simpl.
    rewrite <- app_assoc. simpl.
    replace (List.length h1 + 1) with (S (List.length h1)) by lia. reflexivity.
  - unfold view. rewrite (load_mol_of _ _ _ _ _ L2). simpl.
    rewrite (load_list_of _ _ _ L1). simpl.
    unfold h1. rewrite (views_app _ _ _ _ V). reflexivity.
Qed.

(* 1. MoleculeTop.__init__ builds an object graph whose deep value is the given pure value,
      and leaves every existing cell untouched *)
Theorem build_view : forall ftop name atoms h,
  let (m, h') := build_mol ftop name atoms h in
  view h' m = Ok (ftop, name, atoms) /\
  (forall l, l < List.length h -> nth_error h' l = nth_error h l).
Proof.
  intros ftop name atoms h.
  destruct (build_mol_spec ftop name atoms h) as (m & k & B & V). rewrite B.
  split; [assumption|]. intros l Hl. apply nth_error_app1. assumption.
Qed.

(* ---------------------------------------------------------------- the theorems on copy *)
(* 2. the copy succeeds whenever the original is a well-formed object graph; the copy and the
      original have the same deep value afterwards and are == in both directions *)
Theorem copy_view_equal : forall h m v,
  view h m = Ok v ->
  exists m' h',
    mol_copy h m = Ok (m', h') /\ view h' m' = Ok v /\ view h' m = Ok v /\
    mol_eq h' m m' = Ok true /\ mol_eq h' m' m = Ok true.
Proof.
  intros h m v H.
  destruct (mol_copy_spec h m v H) as (m' & k & fp' & C & V' & _ & _).
  assert (V : view (h ++ k) m = Ok v) by (apply view_app; assumption).
  exists m', (h ++ k). repeat split; try assumption; eapply view_eq_mol_eq; eassumption.
Qed.

(* 3. every cell of the copy is newly allocated, every cell of the original is an old one:
      the two object graphs are disjoint (no shared mutable cell) *)
Theorem copy_fresh : forall h m v,
  view h m = Ok v ->
  exists m' h' fp fp',
    mol_copy h m = Ok (m', h') /\
    footprint h' m' = Ok fp' /\ (forall l, In l fp' -> List.length h <= l) /\
    footprint h m = Ok fp /\ footprint h' m = Ok fp /\ (forall l, In l fp -> l < List.length h) /\
    (forall l, In l fp -> ~ In l fp') /\ m' <> m.
Proof.
  intros h m v H.
  destruct (mol_copy_spec h m v H) as (m' & k & fp' & C & _ & F' & B').
  destruct (view_footprint h m v H) as (fp & F).
  assert (B : forall l, In l fp -> l < List.length h) by (eapply footprint_bound; eassumption).
  exists m', (h ++ k), fp, fp'. repeat split; try assumption.
  - apply footprint_app. assumption.
  - intros l Hl Hl'. apply B in Hl. apply B' in Hl'. lia.
  - intros ->.
    assert (I1 : In m fp).
    { unfold footprint in F. inv_bind F. inv_bind F. inv_bind F. inv_ok F. left. reflexivity. }
    assert (I2 : In m fp').
    { unfold footprint in F'. inv_bind F'. inv_bind F'. inv_bind F'. inv_ok F'. left. reflexivity. }
    apply B in I1. apply B' in I2. lia.
Qed.

(* mol_copy only appends *)
Lemma mol_copy_ext h m m' h' v :
  view h m = Ok v -> mol_copy h m = Ok (m', h') ->
  exists k fp', h' = h ++ k /\ view h' m' = Ok v /\ footprint h' m' = Ok fp' /\
                (forall x, In x fp' -> List.length h <= x).
Proof.
  intros H C. destruct (mol_copy_spec h m v H) as (m2 & k & fp' & C2 & V' & F' & B').
  rewrite C in C2. inv_ok C2. eauto 6.
Qed.

(* 4. whatever is written into cells of the copy (or into any later allocation), the deep value
      of the original is unchanged *)
Theorem copy_independent_orig : forall h m v m' h',
  view h m = Ok v -> mol_copy h m = Ok (m', h') ->
  forall ws, (forall w, In w ws -> List.length h <= fst w) -> view (stores ws h') m = Ok v.
Proof.
  intros h m v m' h' H C ws Hw.
  destruct (mol_copy_ext _ _ _ _ _ H C) as (k & fp' & -> & _).
  destruct (view_footprint h m v H) as (fp & F).
  assert (F1 : footprint (h ++ k) m = Ok fp) by (apply footprint_app; assumption).
  destruct (frame (h ++ k) (stores ws (h ++ k)) m fp F1) as (V & _).
  - intros x Hx. apply nth_error_load. apply stores_other.
    intros w Hin E. apply Hw in Hin. pose proof (footprint_bound _ _ _ F x Hx) as Hb.
    rewrite <- E in Hb. unfold loc in *. lia.
  - rewrite V. apply view_app. assumption.
Qed.

Theorem copy_independent_orig_fp : forall h m v m' h' fp',
  view h m = Ok v -> mol_copy h m = Ok (m', h') -> footprint h' m' = Ok fp' ->
  forall ws, (forall w, In w ws -> In (fst w) fp') -> view (stores ws h') m = Ok v.
Proof.
  intros h m v m' h' fp' H C F' ws Hw.
  eapply copy_independent_orig; try eassumption.
  intros w Hin. apply Hw in Hin.
  destruct (mol_copy_ext _ _ _ _ _ H C) as (k & fp2 & _ & _ & F2 & B).
  rewrite F' in F2. inv_ok F2. apply B. assumption.
Qed.

(* 5. writes into cells of the original (all cells that existed before the copy) leave the
      deep value of the copy unchanged *)
Theorem copy_independent_copy : forall h m v m' h',
  view h m = Ok v -> mol_copy h m = Ok (m', h') ->
  forall ws, (forall w, In w ws -> fst w < List.length h) -> view (stores ws h') m' = Ok v.
Proof.
  intros h m v m' h' H C ws Hw.
  destruct (mol_copy_ext _ _ _ _ _ H C) as (k & fp' & -> & V' & F' & B').
  destruct (frame (h ++ k) (stores ws (h ++ k)) m' fp' F') as (V & _).
  - intros x Hx. apply nth_error_load. apply stores_other.
    intros w Hin E. apply Hw in Hin. apply B' in Hx. rewrite <- E in Hx. unfold loc in *. lia.
  - rewrite V. assumption.
Qed.

Theorem copy_independent_copy_fp : forall h m v m' h' fp,
  view h m = Ok v -> mol_copy h m = Ok (m', h') -> footprint h m = Ok fp ->
  forall ws, (forall w, In w ws -> In (fst w) fp) -> view (stores ws h') m' = Ok v.
Proof.
  intros h m v m' h' fp H C F ws Hw.
  eapply copy_independent_copy; try eassumption.
  intros w Hin. apply Hw in Hin. eapply footprint_bound; eassumption.
Qed.

(* ---------------------------------------------------------------- 6. a concrete instance *)
(* A shallow variant of the copy (NOT what the package does): the new AtomTop instances reuse
   the bonds set objects of the original.  Kept here, outside the model, to show that
   independence is a real property of mol_copy and not an artefact of the heap model. *)
Definition atom_copy_shallow (h : heap) (l : loc) : res (loc * heap) :=
  let* a := load_atom h l in
  Ok (alloc h (CAtom a)).

Fixpoint atoms_copy_shallow (h : heap) (ls : list loc) : res (list loc * heap) :=
  match ls with
  | [] => Ok ([], h)
  | l :: r =>
      let* p := atom_copy_shallow h l in
      let* q := atoms_copy_shallow (snd p) r in
      Ok (fst p :: fst q, snd q)
  end.

Definition mol_copy_shallow (h : heap) (m : loc) : res (loc * heap) :=
  let* fna := load_mol h m in
  let* ls := load_list h (snd fna) in
  let* p := atoms_copy_shallow h ls in
  let (lst', h2) := alloc (snd p) (CList (fst p)) in
  Ok (alloc h2 (CMol (fst (fst fna)) (snd (fst fna)) lst')).

Module Ex.
  Definition mk (n : string) (i : nat) (b : list nat) : atomtop :=
    {| at_name := la n; at_resname := la "PRP"; at_resid := 1%Z; at_index := i; at_bonds := b |}.
  Definition atoms : list atomtop := [mk "C1" 0 [1]; mk "C2" 1 [0; 2]; mk "C3" 2 [1]].
  Definition v := (la "prp.itp", la "PRP", atoms).

  Definition h : heap := snd (build_mol (la "prp.itp") (la "PRP") atoms []).
  Definition m : loc := fst (build_mol (la "prp.itp") (la "PRP") atoms []).

  (* the premise `view h m = Ok v` of theorems 2-5 holds *)
  Example orig_view : m = 7 /\ List.length h = 8 /\ view h m = Ok v.
  Proof. vm_compute. repeat split; reflexivity. Qed.

  Definition h' : heap := match mol_copy h m with Ok p => snd p | Err _ => [] end.
  Definition m' : loc := match mol_copy h m with Ok p => fst p | Err _ => 0 end.

  Example copy_ok : mol_copy h m = Ok (m', h') /\ m' = 15 /\ List.length h' = 16.
  Proof. vm_compute. repeat split; reflexivity. Qed.

  Example copy_equal :
    view h' m' = Ok v /\ view h' m = Ok v /\ mol_eq h' m m' = Ok true /\ mol_eq h' m' m = Ok true.
  Proof. vm_compute. repeat split; reflexivity. Qed.

  (* the two object graphs: mol, list, then (atom, set) per atom *)
  Example footprints :
    footprint h' m = Ok [7; 6; 1; 0; 3; 2; 5; 4] /\
    footprint h' m' = Ok [15; 14; 9; 8; 11; 10; 13; 12].
  Proof. vm_compute. split; reflexivity. Qed.

  (* copy[1].bonds.add(1); copy[0].resname = "XXX"; copy.atoms.pop(): all inside the copy *)
  Definition ws_copy : list (loc * cell) :=
    [(10, CSet [0; 1; 2]);
     (9, CAtom {| o_name := la "C1"; o_resname := la "XXX"; o_resid := 1%Z; o_index := 0;
                  o_bonds := 8 |});
     (14, CList [9; 11])].

  Example ws_copy_hyp :
    forallb (fun w => Nat.leb (List.length h) (fst w)) ws_copy = true /\
    forallb (fun w => memn (fst w) [15; 14; 9; 8; 11; 10; 13; 12]) ws_copy = true.
  Proof. vm_compute. split; reflexivity. Qed.

  (* the writes are observable through the copy, and not through the original *)
  Example write_copy :
    view (stores ws_copy h') m' =
      Ok (la "prp.itp", la "PRP",
          [ {| at_name := la "C1"; at_resname := la "XXX"; at_resid := 1%Z; at_index := 0;
               at_bonds := [1] |}; mk "C2" 1 [0; 1; 2] ]) /\
    view (stores ws_copy h') m = Ok v /\
    mol_eq (stores ws_copy h') m m' = Ok false.
  Proof. vm_compute. repeat split; reflexivity. Qed.

  (* original[1].bonds.add(1), original.name = "QQQ": inside the original *)
  Definition ws_orig : list (loc * cell) :=
    [(2, CSet [0; 1; 2]); (7, CMol (la "prp.itp") (la "QQQ") 6)].

  Example ws_orig_hyp :
    forallb (fun w => Nat.ltb (fst w) (List.length h)) ws_orig = true /\
    forallb (fun w => memn (fst w) [7; 6; 1; 0; 3; 2; 5; 4]) ws_orig = true.
  Proof. vm_compute. split; reflexivity. Qed.

  Example write_orig :
    view (stores ws_orig h') m' = Ok v /\
    view (stores ws_orig h') m =
      Ok (la "prp.itp", la "QQQ", [mk "C1" 0 [1]; mk "C2" 1 [0; 1; 2]; mk "C3" 2 [1]]).
  Proof. vm_compute. split; reflexivity. Qed.

  (* the premises of theorems 4 and 5 in their exact (Prop) form, and the theorems applied *)
  Lemma ws_copy_prem : forall w, In w ws_copy -> List.length h <= fst w.
  Proof. intros w [<- | [<- | [<- | []]]]; vm_compute; repeat constructor. Qed.
  Lemma ws_orig_prem : forall w, In w ws_orig -> fst w < List.length h.
  Proof. intros w [<- | [<- | []]]; vm_compute; repeat constructor. Qed.

  Example thm4_applied : view (stores ws_copy h') m = Ok v.
  Proof.
    exact (copy_independent_orig h m v m' h' (proj2 (proj2 orig_view)) (proj1 copy_ok)
             ws_copy ws_copy_prem).
  Qed.
  Example thm5_applied : view (stores ws_orig h') m' = Ok v.
  Proof.
    exact (copy_independent_copy h m v m' h' (proj2 (proj2 orig_view)) (proj1 copy_ok)
             ws_orig ws_orig_prem).
  Qed.

  (* a shallow copy is also equal to the original ... *)
  Definition hs : heap := match mol_copy_shallow h m with Ok p => snd p | Err _ => [] end.
  Definition ms : loc := match mol_copy_shallow h m with Ok p => fst p | Err _ => 0 end.

  Example shallow_equal :
    mol_copy_shallow h m = Ok (ms, hs) /\ view hs ms = Ok v /\ view hs m = Ok v /\
    mol_eq hs m ms = Ok true /\
    footprint hs ms = Ok [12; 11; 8; 0; 9; 2; 10; 4].
  Proof. vm_compute. repeat split; reflexivity. Qed.

  (* ... but shares the set cells 0, 2, 4 with it: shallow_copy[1].bonds.add(1), a write
     inside the footprint of the shallow copy, changes the deep value of the ORIGINAL.
     So the conclusion of copy_independent_orig_fp fails for mol_copy_shallow. *)
  Example shallow_not_independent :
    view (stores [(2, CSet [0; 1; 2])] hs) m =
      Ok (la "prp.itp", la "PRP", [mk "C1" 0 [1]; mk "C2" 1 [0; 1; 2]; mk "C3" 2 [1]]) /\
    view (stores [(2, CSet [0; 1; 2])] hs) m <> Ok v.
  Proof. split; [vm_compute; reflexivity | vm_compute; discriminate]. Qed.
End Ex.

Lemma copy_independent_both : forall h m v m' h', view h m = Ok v -> mol_copy h m = Ok (m', h') ->
  (forall ws, (forall w, In w ws -> List.length h <= fst w) -> view (stores ws h') m = Ok v) /\
  (forall ws, (forall w, In w ws -> fst w < List.length h) -> view (stores ws h') m' = Ok v).
Proof.
  intros h m v m' h' H C. split.
  - exact (copy_independent_orig h m v m' h' H C).
  - exact (copy_independent_copy h m v m' h' H C).
Qed.
