(* Second tie (DESIGN.md 4.6) for the work-list loop of gaddlemaps/components/__init__.py: the definitions that
   harness/pytrans_walk.py regenerates from the CURRENT source text at every run (Gen/WalkGen.v: Python's own
   orientation, append and pop at the END of the lists) are proved to compute what the hand-written model of
   Model/Topology.v computes (stack top at the head, `connected` reversed), for every adjacency, fuel and state. *)
From Coq Require Import List Arith Bool Lia.
From GM Require Import Base.Res Gen.WalkGen Model.Topology.
Import ListNotations.

Lemma existsb_rev {A} (p : A -> bool) l : existsb p (rev l) = existsb p l.
Proof.
  induction l as [|a l IH]; [reflexivity|]. simpl. rewrite existsb_app, IH. simpl.
  rewrite orb_false_r. apply orb_comm.
Qed.

Lemma fold_append_filter (g : nat -> bool) bs st :
  fold_left (fun (s : list nat) (v : nat) => if g v then s ++ [v] else s) bs st = st ++ filter g bs.
Proof.
  revert st; induction bs as [|b bs IH]; intros st; simpl; [rewrite app_nil_r; reflexivity|].
  rewrite IH. destruct (g b); [rewrite <- app_assoc|]; reflexivity.
Qed.

Lemma loop_step f adj stack conn : stack <> [] ->
  find_connected_atoms_loop (S f) adj stack conn =
  (let* p__ := py_pop stack in
   let current := fst p__ in
   let stack := snd p__ in
   if WalkGen.memn current conn then find_connected_atoms_loop f adj stack conn else
   let conn := conn ++ [current] in
   let* bonds__ := nth_res adj current in
   let stack := fold_left (fun (stack : list nat) (new_index : nat) =>
                  if negb (WalkGen.memn new_index conn) then stack ++ [new_index] else stack) bonds__ stack in
   find_connected_atoms_loop f adj stack conn).
Proof. destruct stack; [congruence|reflexivity]. Qed.

Lemma loop_simulates f : forall adj ms mc,
  find_connected_atoms_loop f adj (rev ms) (rev mc) = rmap (@rev nat) (walk f adj ms mc).
Proof.
  induction f as [|f IH]; intros adj ms mc; [reflexivity|].
  destruct ms as [|cur r]; [reflexivity|].
  rewrite loop_step by (simpl; destruct (rev r); discriminate).
  assert (Hp : py_pop (rev (cur :: r)) = Ok (cur, rev r))
    by (unfold py_pop; rewrite rev_involutive; reflexivity).
  rewrite Hp. cbn [bind fst snd walk]. cbv zeta.
  unfold WalkGen.memn, Topology.memn. rewrite existsb_rev.
  destruct (existsb (Nat.eqb cur) mc); [apply IH|].
  change (rev mc ++ [cur]) with (rev (cur :: mc)).
  destruct (nth_res adj cur) as [bs|e]; [|reflexivity]. cbn [bind].
  rewrite fold_append_filter.
  assert (H : rev r ++ filter (fun v => negb (existsb (Nat.eqb v) (rev (cur :: mc)))) bs =
              rev (rev_append (filter (fun j => negb (existsb (Nat.eqb j) (cur :: mc))) bs) r)).
  { rewrite rev_append_rev, rev_app_distr, rev_involutive. f_equal.
    apply filter_ext. intros a. rewrite existsb_rev. reflexivity. }
  rewrite H. apply IH.
Qed.

Theorem are_connected_gen_eq (adj : list (list nat)) :
  are_connected_gen (walk_fuel adj) adj = are_connected adj.
Proof.
  unfold are_connected_gen, find_connected_atoms_gen, are_connected. cbv zeta.
  pose proof (loop_simulates (walk_fuel adj) adj [0] []) as H. cbn [rev app] in H. rewrite H.
  destruct (walk (walk_fuel adj) adj [0] []) as [c|e]; [|reflexivity].
  cbn [rmap bind]. rewrite rev_length. reflexivity.
Qed.

(* the walk itself, from any start atom and any list already collected *)
Theorem find_connected_atoms_gen_eq (fuel : nat) (adj : list (list nat)) (index : nat) (mc : list nat) :
  find_connected_atoms_gen fuel adj index (rev mc) = rmap (@rev nat) (walk fuel adj [index] mc).
Proof. unfold find_connected_atoms_gen. cbv zeta. exact (loop_simulates fuel adj [index] mc). Qed.
