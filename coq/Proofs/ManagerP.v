(* Lemmas about Model/Manager.v, part 1 (the abstract manager): they hold for EVERY map function. *)
From Coq Require Import List ZArith Bool Arith Lia.
Import ListNotations.
From GM Require Import Base.Res Base.StrGro Model.Manager.

(* ------------------------------------------------------------------ the closed form of the counter *)
Fixpoint numbered {C} (atoms : list (Z * matom C)) (idx : Z) : list (line C) :=
  match atoms with
  | [] => []
  | (rid, a) :: t => mkLine rid (ma_resname a) (ma_name a) idx (ma_coords a) :: numbered t (idx + 1)%Z
  end.

Lemma number_spec {C} (atoms : list (Z * matom C)) idx :
  number atoms idx = (numbered atoms idx, (idx + Z.of_nat (length atoms))%Z).
Proof.
  revert idx; induction atoms as [|[rid a] t IH]; intros idx; cbn [number numbered length].
  - f_equal. lia.
  - rewrite IH. f_equal. lia.
Qed.

Lemma numbered_length {C} (atoms : list (Z * matom C)) idx : length (numbered atoms idx) = length atoms.
Proof. revert idx; induction atoms as [|[rid a] t IH]; intros idx; simpl; [reflexivity|]. now rewrite IH. Qed.

Lemma numbered_app {C} (a b : list (Z * matom C)) idx :
  numbered (a ++ b) idx = numbered a idx ++ numbered b (idx + Z.of_nat (length a))%Z.
Proof.
  revert idx; induction a as [|[rid x] t IH]; intros idx; cbn [app numbered length].
  - now rewrite Z.add_0_r.
  - rewrite IH. replace (idx + Z.of_nat (S (length t)))%Z with (idx + 1 + Z.of_nat (length t))%Z by lia.
    reflexivity.
Qed.

(* the k-th numbered line: atom k with the counter idx + k *)
Lemma numbered_nth {C} (atoms : list (Z * matom C)) idx k l :
  nth_error (numbered atoms idx) k = Some l ->
  exists rid a, nth_error atoms k = Some (rid, a) /\
                l = mkLine rid (ma_resname a) (ma_name a) (idx + Z.of_nat k)%Z (ma_coords a).
Proof.
  revert idx k; induction atoms as [|[rid a] t IH]; intros idx k H; cbn [numbered] in H.
  - destruct k; discriminate.
  - destruct k as [|k]; cbn [nth_error] in *.
    + inversion H; subst. exists rid, a. split; [reflexivity|]. f_equal. lia.
    + destruct (IH _ _ H) as (rid' & a' & Hn & ->). exists rid', a'. split; [exact Hn|]. f_equal. lia.
Qed.

Lemma numbered_nth_fwd {C} (atoms : list (Z * matom C)) idx k rid a :
  nth_error atoms k = Some (rid, a) ->
  nth_error (numbered atoms idx) k = Some (mkLine rid (ma_resname a) (ma_name a) (idx + Z.of_nat k)%Z (ma_coords a)).
Proof.
  revert idx k; induction atoms as [|[rid' a'] t IH]; intros idx k H.
  - destruct k; discriminate.
  - destruct k as [|k]; cbn [nth_error numbered] in *.
    + inversion H; subst. do 2 f_equal. lia.
    + rewrite (IH _ _ H). do 2 f_equal. lia.
Qed.

(* labels of the numbered lines: everything but the counter *)
Definition unnum {C} (l : line C) : Z * matom C := (l_resid l, mkMatom (l_resname l) (l_name l) (l_coords l)).
Lemma unnum_numbered {C} (atoms : list (Z * matom C)) idx : map unnum (numbered atoms idx) = atoms.
Proof.
  revert idx; induction atoms as [|[rid [rn an c]] t IH]; intros idx; cbn [numbered map]; [reflexivity|].
  rewrite IH. reflexivity.
Qed.

(* the WriteLine payloads of a trace, in order *)
Fixpoint written {F B C} (t : list (effect F B C)) : list (line C) :=
  match t with
  | [] => []
  | WriteLine r :: rest => r :: written rest
  | _ :: rest => written rest
  end.

Lemma written_app {F B C} (a b : list (effect F B C)) : written (a ++ b) = written a ++ written b.
Proof. induction a as [|x t IH]; [reflexivity|]. destruct x; cbn [app written]; rewrite IH; reflexivity. Qed.
Lemma written_map {F B C} (ls : list (line C)) : written (map (@WriteLine F B C) ls) = ls.
Proof. induction ls as [|l t IH]; [reflexivity|]. cbn [map written]. now rewrite IH. Qed.

Definition frame {F B C} (f : F) (title : bytes) (box : B) (ls : list (line C)) : list (effect F B C) :=
  Open f :: SetComment title :: SetBox box :: map WriteLine ls ++ [Close].

Lemma written_frame {F B C} (f : F) title (box : B) (ls : list (line C)) : written (frame f title box ls) = ls.
Proof. unfold frame. cbn [written]. rewrite written_app, written_map. cbn [written]. apply app_nil_r. Qed.

Section MgrP.
  Context {E M I C F B : Type}.
  Variable mapmol : M -> I -> res (mapped C).
  Notation sp := (spstate E M).
  Implicit Types (sps : list (spstate E M)) (m : minst I) (mols : list (minst I)).

  (* the species of m has both resolutions attached *)
  Definition sel (sps : list sp) (m : minst I) : bool :=
    match nth_error sps (in_species m) with Some st => is_complete st | None => false end.
  Definition selected (sps : list sp) (mols : list (minst I)) : list (minst I) := filter (sel sps) mols.

  Lemma mol_atoms_none sps m : sel sps m = false -> mol_atoms mapmol sps m = None.
  Proof. unfold sel, mol_atoms. destruct (nth_error sps (in_species m)); [|reflexivity]. now intros ->. Qed.
  Lemma mol_atoms_some sps m : sel sps m = true -> exists r, mol_atoms mapmol sps m = Some r.
  Proof.
    unfold sel, mol_atoms. destruct (nth_error sps (in_species m)); [|discriminate]. intros ->. eauto.
  Qed.

  (* what `mol_atoms = Some (Ok atoms)` says, spelled out *)
  Lemma mol_atoms_ok sps m atoms : mol_atoms mapmol sps m = Some (Ok atoms) ->
    exists st mp mm, nth_error sps (in_species m) = Some st /\ is_complete st = true /\ sp_map st = Some mp /\
      mapmol mp (in_body m) = Ok mm /\ length (in_resids m) = length mm /\
      atoms = flatten_res (combine (in_resids m) mm).
  Proof.
    unfold mol_atoms. destruct (nth_error sps (in_species m)) as [st|] eqn:Hn; [|discriminate].
    destruct (is_complete st) eqn:Hc; [|discriminate]. destruct (sp_map st) as [mp|] eqn:Hmp; [|discriminate].
    destruct (mapmol mp (in_body m)) as [mm|] eqn:Hm; cbn [bind]; [|discriminate].
    unfold set_resids. destruct (in_resids m) as [|r0 rt] eqn:Hr; cbn [bind]; [discriminate|].
    destruct (length (r0 :: rt) =? length mm) eqn:Hl; cbn [bind]; [|discriminate].
    intros H. apply Nat.eqb_eq in Hl. exists st, mp, mm.
    split; [reflexivity|]. split; [exact Hc|]. split; [exact Hmp|]. split; [exact Hm|].
    split; [exact Hl|]. inversion H. reflexivity.
  Qed.

  (* another number of residues in the two resolutions: ValueError *)
  Lemma mol_atoms_residue_mismatch sps m st mp mm :
    nth_error sps (in_species m) = Some st -> is_complete st = true -> sp_map st = Some mp ->
    mapmol mp (in_body m) = Ok mm -> in_resids m <> [] -> length (in_resids m) <> length mm ->
    mol_atoms mapmol sps m = Some (Err EValue).
  Proof.
    intros Hn Hc Hm Hmm Hne Hl. unfold mol_atoms. rewrite Hn, Hc, Hm, Hmm. cbn [bind]. unfold set_resids.
    destruct (in_resids m) as [|r0 rt]; [contradiction|]. apply Nat.eqb_neq in Hl. rewrite Hl. reflexivity.
  Qed.

  (* ---------------------------------------------------------------- the loop *)
  Lemma go_cons sps m rest idx :
    go mapmol sps (m :: rest) idx =
    match mol_atoms mapmol sps m with
    | None => go mapmol sps rest idx
    | Some (Err e) => ([], Err e)
    | Some (Ok atoms) =>
        (numbered atoms idx ++ fst (go mapmol sps rest (idx + Z.of_nat (length atoms))%Z),
         snd (go mapmol sps rest (idx + Z.of_nat (length atoms))%Z))
    end.
  Proof.
    cbn [go]. destruct (mol_atoms mapmol sps m) as [[atoms|e]|]; try reflexivity.
    rewrite number_spec. destruct (go mapmol sps rest _); reflexivity.
  Qed.

  Definition maps_to (sps : list sp) (m : minst I) (atoms : list (Z * matom C)) : Prop :=
    mol_atoms mapmol sps m = Some (Ok atoms).

  (* every molecule of a complete species maps: one block per such molecule, in input order, numbered on *)
  Lemma go_ok sps mols blocks idx :
    Forall2 (maps_to sps) (selected sps mols) blocks ->
    go mapmol sps mols idx = (numbered (concat blocks) idx, Ok tt).
  Proof.
    revert blocks idx; induction mols as [|m rest IH]; intros blocks idx H.
    - cbn in H. inversion H; subst. reflexivity.
    - rewrite go_cons. unfold selected in H. cbn [filter] in H. destruct (sel sps m) eqn:Hs.
      + inversion H as [|? atoms ? bt Hm Ht]; subst. unfold maps_to in Hm. rewrite Hm.
        rewrite (IH bt _ Ht). cbn [fst snd concat]. rewrite numbered_app. reflexivity.
      + rewrite (mol_atoms_none _ _ Hs). apply IH. exact H.
  Qed.

  (* the first molecule whose call raises stops the loop: the blocks before it have been written *)
  Lemma go_err sps pre m post blocks e idx :
    Forall2 (maps_to sps) (selected sps pre) blocks ->
    mol_atoms mapmol sps m = Some (Err e) ->
    go mapmol sps (pre ++ m :: post) idx = (numbered (concat blocks) idx, Err e).
  Proof.
    revert blocks idx; induction pre as [|p rest IH]; intros blocks idx H He.
    - cbn in H. inversion H; subst. cbn [app]. rewrite go_cons, He. reflexivity.
    - cbn [app]. rewrite go_cons. unfold selected in H. cbn [filter] in H. destruct (sel sps p) eqn:Hs.
      + inversion H as [|? atoms ? bt Hm Ht]; subst. unfold maps_to in Hm. rewrite Hm.
        rewrite (IH bt _ Ht He). cbn [fst snd concat]. rewrite numbered_app. reflexivity.
      + rewrite (mol_atoms_none _ _ Hs). apply IH; assumption.
  Qed.

  (* the running counter, with no hypothesis at all: the k-th line issued carries idx + k *)
  Lemma go_numbering sps mols idx k l :
    nth_error (fst (go mapmol sps mols idx)) k = Some l -> l_anum l = (idx + Z.of_nat k)%Z.
  Proof.
    revert idx k; induction mols as [|m rest IH]; intros idx k H.
    - destruct k; discriminate.
    - rewrite go_cons in H. destruct (mol_atoms mapmol sps m) as [[atoms|e]|].
      + cbn [fst] in H. destruct (Nat.lt_ge_cases k (length atoms)) as [Hk|Hk].
        * rewrite nth_error_app1 in H by (rewrite numbered_length; exact Hk).
          destruct (numbered_nth _ _ _ _ H) as (rid & a & _ & ->). reflexivity.
        * rewrite nth_error_app2 in H by (rewrite numbered_length; exact Hk). rewrite numbered_length in H.
          rewrite (IH _ _ H). lia.
      + destruct k; discriminate.
      + apply IH. exact H.
  Qed.

  (* ---------------------------------------------------------------- pre-flight *)
  Lemma preflight_ok_iff (sps : list sp) :
    preflight sps = Ok tt <->
    (exists st, In st sps /\ is_complete st = true) /\
    (forall st, In st sps -> is_complete st = true -> sp_map st <> None).
  Proof.
    unfold preflight. destruct (filter is_complete sps) as [|c0 ct] eqn:Hf.
    - split; [discriminate|]. intros [(st & Hin & Hc) _].
      assert (Hx : In st (filter is_complete sps)) by (apply filter_In; auto). rewrite Hf in Hx. destruct Hx.
    - destruct (forallb (fun st => is_some (sp_map st)) (c0 :: ct)) eqn:Hall.
      + split; [intros _|reflexivity]. split.
        * exists c0. apply filter_In. rewrite Hf. left; reflexivity.
        * intros st Hin Hc. rewrite forallb_forall in Hall.
          assert (Hx : In st (c0 :: ct)) by (rewrite <- Hf; apply filter_In; auto).
          specialize (Hall _ Hx). destruct (sp_map st); [discriminate|discriminate].
      + split; [discriminate|]. intros [_ Hm]. exfalso.
        assert (Ht : forallb (fun st => is_some (sp_map st)) (c0 :: ct) = true).
        { apply forallb_forall. intros st Hx. rewrite <- Hf in Hx. apply filter_In in Hx as [Hin Hc].
          specialize (Hm _ Hin Hc). destruct (sp_map st); [reflexivity|contradiction]. }
        congruence.
  Qed.

  Lemma preflight_cases (sps : list sp) : preflight sps = Ok tt \/ preflight sps = Err ESystem.
  Proof.
    unfold preflight. destruct (filter is_complete sps); [auto|].
    destruct (forallb _ _); auto.
  Qed.

  Lemma preflight_refuses (sps : list sp) :
    (forall st, In st sps -> is_complete st = false) \/
    (exists st, In st sps /\ is_complete st = true /\ sp_map st = None) ->
    preflight sps = Err ESystem.
  Proof.
    intros H. destruct (preflight_cases sps) as [Hok|He]; [|exact He]. exfalso.
    apply preflight_ok_iff in Hok as [(st & Hin & Hc) Hm]. destruct H as [H|(st' & Hin' & Hc' & Hn)].
    - rewrite (H _ Hin) in Hc. discriminate.
    - exact (Hm _ Hin' Hc' Hn).
  Qed.

  (* ---------------------------------------------------------------- extrapolate *)
  Lemma extrapolate_refused (f : F) title (box : B) sps mols :
    preflight sps = Err ESystem -> extrapolate mapmol f title box sps mols = ([], Err ESystem).
  Proof. unfold extrapolate. now intros ->. Qed.

  Lemma extrapolate_open (f : F) title (box : B) sps mols :
    preflight sps = Ok tt ->
    extrapolate mapmol f title box sps mols =
      (frame f title box (fst (go mapmol sps mols 1%Z)), snd (go mapmol sps mols 1%Z)).
  Proof. unfold extrapolate, frame. intros ->. destruct (go mapmol sps mols 1%Z). reflexivity. Qed.

  Theorem preflight_thm (f : F) title (box : B) sps mols :
    (forall st, In st sps -> is_complete st = false) \/
    (exists st, In st sps /\ is_complete st = true /\ sp_map st = None) ->
    extrapolate mapmol f title box sps mols = ([], Err ESystem).
  Proof. intros H. apply extrapolate_refused, preflight_refuses, H. Qed.

  (* conversely: whenever anything at all is issued, the pre-flight passed, the file is opened first and
     closed last, whatever happened in between *)
  Theorem opened_thm (f : F) title (box : B) sps mols t r :
    extrapolate mapmol f title box sps mols = (t, r) ->
    (t = [] /\ r = Err ESystem /\ preflight sps = Err ESystem) \/
    (preflight sps = Ok tt /\ exists ls, t = frame f title box ls).
  Proof.
    intros H. destruct (preflight_cases sps) as [Hok|He].
    - right. split; [exact Hok|]. rewrite (extrapolate_open _ _ _ _ _ Hok) in H. inversion H. eauto.
    - left. rewrite (extrapolate_refused _ _ _ _ _ He) in H. inversion H. auto.
  Qed.

  Theorem trace_thm (f : F) title (box : B) sps mols blocks :
    preflight sps = Ok tt ->
    Forall2 (maps_to sps) (selected sps mols) blocks ->
    extrapolate mapmol f title box sps mols = (frame f title box (numbered (concat blocks) 1%Z), Ok tt).
  Proof. intros Hp Hb. rewrite (extrapolate_open _ _ _ _ _ Hp), (go_ok _ _ _ _ Hb). reflexivity. Qed.

  Theorem trace_error_thm (f : F) title (box : B) sps pre m post blocks e :
    preflight sps = Ok tt ->
    Forall2 (maps_to sps) (selected sps pre) blocks ->
    mol_atoms mapmol sps m = Some (Err e) ->
    extrapolate mapmol f title box sps (pre ++ m :: post) =
      (frame f title box (numbered (concat blocks) 1%Z), Err e).
  Proof. intros Hp Hb He. rewrite (extrapolate_open _ _ _ _ _ Hp), (go_err _ _ _ _ _ _ _ Hb He). reflexivity. Qed.

  (* count *)
  Lemma length_concat {A} (l : list (list A)) : length (concat l) = list_sum (map (@length A) l).
  Proof. induction l as [|x t IH]; [reflexivity|]. cbn [concat map list_sum]. rewrite app_length, IH. reflexivity. Qed.

  Theorem count_thm (f : F) title (box : B) sps mols blocks :
    preflight sps = Ok tt ->
    Forall2 (maps_to sps) (selected sps mols) blocks ->
    length (written (fst (extrapolate mapmol f title box sps mols))) = list_sum (map (@length _) blocks).
  Proof.
    intros Hp Hb. rewrite (trace_thm _ _ _ _ _ _ Hp Hb). cbn [fst]. rewrite written_frame, numbered_length.
    apply length_concat.
  Qed.

  (* with a size per species (every map of species s produces tsize s atoms): the sum of the target sizes over
     the input molecules of complete species *)
  Theorem count_sizes_thm (f : F) title (box : B) sps mols blocks (tsize : nat -> nat) :
    preflight sps = Ok tt ->
    Forall2 (maps_to sps) (selected sps mols) blocks ->
    (forall m atoms, In m mols -> maps_to sps m atoms -> length atoms = tsize (in_species m)) ->
    length (written (fst (extrapolate mapmol f title box sps mols))) =
      list_sum (map (fun m => tsize (in_species m)) (selected sps mols)).
  Proof.
    intros Hp Hb Hs. rewrite (count_thm _ _ _ _ _ _ Hp Hb). f_equal.
    assert (Hin : forall m, In m (selected sps mols) -> In m mols) by (intros m Hm; apply filter_In in Hm; tauto).
    revert Hin. induction Hb as [|m atoms ms bs Hm _ IH]; intros Hin; [reflexivity|].
    cbn [map]. rewrite IH by (intros x Hx; apply Hin; right; exact Hx).
    f_equal. apply Hs; [apply Hin; left; reflexivity|exact Hm].
  Qed.

  (* numbering: no hypothesis beyond the trace being this call's *)
  Theorem numbering_thm (f : F) title (box : B) sps mols k l :
    nth_error (written (fst (extrapolate mapmol f title box sps mols))) k = Some l ->
    l_anum l = (Z.of_nat k + 1)%Z.
  Proof.
    destruct (preflight_cases sps) as [Hok|He].
    - rewrite (extrapolate_open _ _ _ _ _ Hok). cbn [fst]. rewrite written_frame. intros H.
      rewrite (go_numbering _ _ _ _ _ H). lia.
    - rewrite (extrapolate_refused _ _ _ _ _ He). destruct k; discriminate.
  Qed.

  (* order and residue numbers: the written lines are the concatenation of one block per input molecule of a
     complete species, in input order; a block is the mapped molecule atom by atom (names and payload of the
     map's output) and residue k of it carries the k-th residue number of the input molecule *)
  Fixpoint split_blocks {A} (sizes : list nat) (l : list A) : list (list A) :=
    match sizes with
    | [] => []
    | n :: t => firstn n l :: split_blocks t (skipn n l)
    end.

  Lemma split_numbered (blocks : list (list (Z * matom C))) idx :
    map (map unnum) (split_blocks (map (@length _) blocks) (numbered (concat blocks) idx)) = blocks.
  Proof.
    revert idx; induction blocks as [|b t IH]; intros idx; [reflexivity|].
    cbn [map concat split_blocks]. rewrite numbered_app.
    rewrite firstn_app, numbered_length, Nat.sub_diag, firstn_O, app_nil_r.
    rewrite firstn_all2 by (rewrite numbered_length; lia).
    rewrite skipn_app, numbered_length, Nat.sub_diag, skipn_O.
    rewrite skipn_all2 by (rewrite numbered_length; lia). cbn [app].
    rewrite unnum_numbered, IH. reflexivity.
  Qed.

  Theorem order_resids_thm (f : F) title (box : B) sps mols blocks :
    preflight sps = Ok tt ->
    Forall2 (maps_to sps) (selected sps mols) blocks ->
    let ls := written (fst (extrapolate mapmol f title box sps mols)) in
    ls = numbered (concat blocks) 1%Z /\
    Forall2 (fun m lb => exists mm, (exists st mp, nth_error sps (in_species m) = Some st /\ sp_map st = Some mp /\
                                       mapmol mp (in_body m) = Ok mm) /\
                                    length (in_resids m) = length mm /\
                                    map unnum lb = flatten_res (combine (in_resids m) mm))
            (selected sps mols) (split_blocks (map (@length _) blocks) ls).
  Proof.
    intros Hp Hb ls. assert (Hls : ls = numbered (concat blocks) 1%Z).
    { unfold ls. rewrite (trace_thm _ _ _ _ _ _ Hp Hb). cbn [fst]. apply written_frame. }
    split; [exact Hls|]. rewrite Hls.
    pose proof (split_numbered blocks 1%Z) as Hs.
    set (lbs := split_blocks (map (@length _) blocks) (numbered (concat blocks) 1%Z)) in *.
    clearbody lbs. clear Hls ls. revert lbs Hs.
    induction Hb as [|m atoms ms bs Hm _ IH]; intros lbs Hs.
    - destruct lbs; [constructor|discriminate].
    - destruct lbs as [|lb lt]; [discriminate|]. cbn [map] in Hs. inversion Hs as [[H1 H2]].
      constructor; [|apply IH; exact H2].
      destruct (mol_atoms_ok _ _ _ Hm) as (st & mp & mm & Hn & _ & Hmp & Hmm & Hl & ->).
      exists mm. repeat split; eauto.
  Qed.

  (* title and box: issued once each, right after Open and before any line, with the input's values *)
  Theorem title_box_thm (f : F) title (box : B) sps mols t r :
    extrapolate mapmol f title box sps mols = (t, r) -> t <> [] ->
    exists ls, t = Open f :: SetComment title :: SetBox box :: map WriteLine ls ++ [Close].
  Proof.
    intros H Hne. destruct (opened_thm _ _ _ _ _ _ _ H) as [(-> & _)|(_ & ls & ->)]; [contradiction|].
    exists ls. reflexivity.
  Qed.

  (* ---------------------------------------------------------------- the call sequence of the defect class
     "maps calculated, then one more end molecule": add_end never touches a map *)
  Variable eeq : E -> E -> bool.

  Lemma update_nth {A} (l : list A) n x y : nth_error l n = Some y -> nth_error (update l n x) n = Some x.
  Proof.
    revert n; induction l as [|a t IH]; intros n H; [destruct n; discriminate|].
    destruct n as [|n]; cbn [update nth_error] in *; [reflexivity|]. apply IH. exact H.
  Qed.

  Theorem end_after_maps_thm sps i e sps' st (f : F) title (box : B) mols :
    nth_error sps i = Some st -> sp_start st = true -> sp_map st = None ->
    add_end eeq sps i e = Ok sps' ->
    extrapolate mapmol f title box sps' mols = ([], Err ESystem).
  Proof.
    intros Hn Hs Hm Ha. apply preflight_thm. right.
    unfold add_end in Ha. rewrite Hn, Hs in Ha.
    assert (Hx : exists st', nth_error sps' i = Some st' /\ is_complete st' = true /\ sp_map st' = None).
    { destruct (sp_end st) as [old|].
      - destruct (eeq e old); [|discriminate]. inversion Ha; subst.
        eexists. split; [eapply update_nth; exact Hn|]. rewrite Hm. split; reflexivity.
      - inversion Ha; subst. eexists. split; [eapply update_nth; exact Hn|]. rewrite Hm. split; reflexivity. }
    destruct Hx as (st' & Hn' & Hc & Hmm). exists st'. split; [eapply nth_error_In; exact Hn'|]. auto.
  Qed.

  (* `molecule_correspondence[name].end = None`: from then on nothing is written for that species, whatever map
     object it still holds *)
  Theorem end_removed_thm sps i sps' m :
    remove_end sps i = Ok sps' -> in_species m = i -> sel sps' m = false /\ mol_atoms mapmol sps' m = None.
  Proof.
    intros Hr Hi. assert (Hs : sel sps' m = false).
    { unfold remove_end in Hr. destruct (nth_error sps i) as [st|] eqn:Hn; [|discriminate].
      inversion Hr; subst. unfold sel. rewrite (update_nth _ _ _ _ Hn). reflexivity. }
    split; [exact Hs|apply mol_atoms_none; exact Hs].
  Qed.
End MgrP.
