(* From the file to the hypothesis [domain]: a coordinate file assembled from whole molecules of species
   with pairwise disjoint (resname, size) signatures, plus residues with other signatures, in which the
   (resname, size) key identifies the residue, satisfies [domain] for the view SystemGro computes. *)
From Coq Require Import List Arith Bool Lia.
Import ListNotations.
From GM Require Import Base.Res Model.SystemRec Proofs.SystemRecScan Proofs.SystemRecDomain
     Proofs.SystemRecSort Proofs.SystemRecLoad.

(* ---------------- equalities *)
Lemma list_eqb_nat_iff a b : list_eqb Nat.eqb a b = true <-> a = b.
Proof.
  revert b. induction a as [|x xs IH]; intros [|y ys]; simpl; split; intros H; try discriminate; auto.
  - apply andb_true_iff in H as [H1 H2]. apply Nat.eqb_eq in H1. apply IH in H2. subst. reflexivity.
  - inversion H; subst. rewrite Nat.eqb_refl. simpl. apply IH. reflexivity.
Qed.

Lemma res_eqb_iff a b : res_eqb a b = true <-> a = b.
Proof.
  destruct a as [n1 l1], b as [n2 l2]. unfold res_eqb. simpl. rewrite andb_true_iff, Nat.eqb_eq, list_eqb_nat_iff.
  split; [intros [-> ->]; reflexivity|intros H; inversion H; auto].
Qed.

Lemma pair_eqb_iff a b : pair_eqb a b = true <-> a = b.
Proof.
  destruct a, b. unfold pair_eqb. simpl. rewrite andb_true_iff, !Nat.eqb_eq.
  split; [intros [-> ->]; reflexivity|intros H; inversion H; auto].
Qed.

Lemma pair_eqb_refl a : pair_eqb a a = true.
Proof. apply pair_eqb_iff. reflexivity. Qed.

Lemma list_eqb_pair_refl l : list_eqb pair_eqb l l = true.
Proof. induction l; simpl; auto. rewrite pair_eqb_refl. auto. Qed.

(* ---------------- the residues a topology describes *)
Fixpoint tr_go (atoms : list (nat * nat * nat)) (cur : nat * nat) (names : list nat) : list residue :=
  match atoms with
  | [] => [mkRes (fst cur) names]
  | (an, rn, rid) :: t =>
    if pair_eqb (rn, rid) cur then tr_go t cur (names ++ [an])
    else mkRes (fst cur) names :: tr_go t (rn, rid) [an]
  end.

Definition top_residues (t : top) : list residue :=
  match top_atoms t with
  | [] => []
  | (an, rn, rid) :: rest => tr_go rest (rn, rid) [an]
  end.

Lemma rll_tr atoms : forall cur names,
  rll_go atoms cur (length names) = map res_key (tr_go atoms cur names).
Proof.
  induction atoms as [|[[an rn] rid] t IH]; intros cur names; simpl; auto.
  destruct (pair_eqb (rn, rid) cur).
  - rewrite <- IH. rewrite app_length. simpl. f_equal. lia.
  - simpl. f_equal. apply (IH (rn, rid) [an]).
Qed.

Lemma resname_len_list_tr t : top_atoms t <> [] ->
  resname_len_list t = Ok (map res_key (top_residues t)).
Proof.
  unfold resname_len_list, top_residues. destruct (top_atoms t) as [|[[an rn] rid] rest]; [congruence|].
  intros _. rewrite <- rll_tr. reflexivity.
Qed.

Lemma keys_tr atoms : forall cur names,
  flat_map res_atom_keys (tr_go atoms cur names) =
  map (fun a => (fst cur, a)) names ++ map (fun a => match a with (an, rn, _) => (rn, an) end) atoms.
Proof.
  induction atoms as [|[[an rn] rid] t IH]; intros cur names; simpl.
  - unfold res_atom_keys. simpl. reflexivity.
  - destruct (pair_eqb (rn, rid) cur) eqn:E.
    + apply pair_eqb_iff in E. subst cur. rewrite IH. simpl. rewrite map_app, <- app_assoc. reflexivity.
    + simpl. rewrite IH. unfold res_atom_keys at 1. simpl. reflexivity.
Qed.

Lemma mol_match_self t : mol_match t (top_residues t) = true.
Proof.
  unfold mol_match, top_atom_keys, top_residues.
  destruct (top_atoms t) as [|[[an rn] rid] rest]; [reflexivity|].
  rewrite keys_tr. cbn [map app fst]. apply list_eqb_pair_refl.
Qed.

Lemma tr_go_nonempty atoms cur names : tr_go atoms cur names <> [].
Proof.
  revert cur names. induction atoms as [|[[an rn] rid] t IH]; intros cur names; simpl; [discriminate|].
  destruct (pair_eqb (rn, rid) cur); [apply IH|discriminate].
Qed.

Lemma top_residues_nonempty t : top_atoms t <> [] -> top_residues t <> [].
Proof.
  unfold top_residues. destruct (top_atoms t) as [|[[an rn] rid] rest]; [congruence|].
  intros _. apply tr_go_nonempty.
Qed.

(* ---------------- SystemGro's numbering of residue kinds when the key identifies the residue *)
Definition key_inj (l : list residue) : Prop :=
  forall r1 r2, In r1 l -> In r2 l -> res_key r1 = res_key r2 -> r1 = r2.

Record pinv (tpl : list residue) (pk : pkmap) : Prop := {
  pi_get : forall i r, nth_error tpl i = Some r -> pk_get pk (res_key r) = Some i;
  pi_inv : forall key i, pk_get pk key = Some i -> exists r, nth_error tpl i = Some r /\ res_key r = key
}.

Lemma pinv_nil : pinv [] [].
Proof. split; [intros [|i] r H; discriminate|intros key i H; discriminate]. Qed.

Lemma key_inj_incl l1 l2 : (forall x, In x l1 -> In x l2) -> key_inj l2 -> key_inj l1.
Proof. intros Hi H r1 r2 H1 H2. apply H; auto. Qed.

Lemma add_residue_spec tpl pk r : pinv tpl pk -> key_inj (tpl ++ [r]) ->
  exists tpl' pk' k, add_residue_init (tpl, pk) r = Ok ((tpl', pk'), k) /\ pinv tpl' pk' /\
    (exists ext, tpl' = tpl ++ ext) /\ nth_error tpl' k = Some r /\
    (forall x, In x tpl' -> In x tpl \/ x = r).
Proof.
  intros [Hget Hinv] Hki. unfold add_residue_init.
  destruct (existsb (res_eqb r) tpl) eqn:E.
  - apply existsb_exists in E as [x [Hx Hrx]]. apply res_eqb_iff in Hrx. subst x.
    destruct (In_nth_error _ _ Hx) as [i Hi]. rewrite (Hget i r Hi).
    exists tpl, pk, i. split; [reflexivity|]. split; [split; assumption|]. split; [exists []; rewrite app_nil_r; reflexivity|].
    split; auto.
  - assert (Hnin : ~ In r tpl).
    { intros Hin. assert (existsb (res_eqb r) tpl = true).
      { apply existsb_exists. exists r. split; auto. apply res_eqb_iff. reflexivity. } congruence. }
    cbn [pk_get]. rewrite pair_eqb_refl.
    exists (tpl ++ [r]), ((res_key r, length tpl) :: pk), (length tpl).
    split; [reflexivity|]. split; [|split; [exists [r]; reflexivity|split]].
    + split.
      * intros i r' Hn. destruct (lt_dec i (length tpl)) as [Hl|Hl].
        -- rewrite nth_error_app1 in Hn by assumption. cbn [pk_get].
           destruct (pair_eqb (res_key r') (res_key r)) eqn:Ek.
           ++ apply pair_eqb_iff in Ek. exfalso. apply Hnin.
              assert (r' = r).
              { apply Hki; auto; apply in_or_app; [left; eapply nth_error_In; eauto|right; left; reflexivity]. }
              subst r'. eapply nth_error_In; eauto.
           ++ apply Hget. exact Hn.
        -- rewrite nth_error_app2 in Hn by lia.
           destruct (i - length tpl) as [|d] eqn:Ed; simpl in Hn; [|destruct d; discriminate].
           inversion Hn; subst r'. cbn [pk_get]. rewrite pair_eqb_refl. f_equal. lia.
      * intros key i Hg. cbn [pk_get] in Hg. destruct (pair_eqb key (res_key r)) eqn:Ek.
        -- apply pair_eqb_iff in Ek. inversion Hg; subst. exists r. split; auto.
           rewrite nth_error_app2 by lia. rewrite Nat.sub_diag. reflexivity.
        -- destruct (Hinv key i Hg) as (r' & Hn & Hk). exists r'. split; auto.
           rewrite nth_error_app1; auto. apply nth_error_Some. congruence.
    + rewrite nth_error_app2 by lia. rewrite Nat.sub_diag. reflexivity.
    + intros x Hx. apply in_app_or in Hx as [Hx | [Hx | [] ] ]; auto.
Qed.

Lemma parse_spec rs : forall tpl pk, pinv tpl pk -> key_inj (tpl ++ rs) ->
  exists tplF pkF ks, parse_kinds (tpl, pk) rs = Ok ((tplF, pkF), ks) /\ pinv tplF pkF /\
    (exists ext, tplF = tpl ++ ext) /\ Forall2 (fun r k => nth_error tplF k = Some r) rs ks /\
    (forall x, In x tplF -> In x (tpl ++ rs)).
Proof.
  induction rs as [|r rest IH]; intros tpl pk Hp Hk.
  - exists tpl, pk, []. split; [reflexivity|]. split; auto. split; [exists []; rewrite app_nil_r; reflexivity|].
    split; [constructor|]. intros x Hx. rewrite app_nil_r. exact Hx.
  - assert (Hk1 : key_inj (tpl ++ [r])).
    { eapply key_inj_incl; [|exact Hk]. intros x Hx. apply in_app_or in Hx as [Hx | [Hx | [] ] ]; apply in_or_app; auto.
      right; left; auto. }
    destruct (add_residue_spec tpl pk r Hp Hk1) as (tpl1 & pk1 & k & H1 & Hp1 & (ext1 & He1) & Hn1 & Hin1).
    assert (Hk2 : key_inj (tpl1 ++ rest)).
    { eapply key_inj_incl; [|exact Hk]. intros x Hx. apply in_app_or in Hx as [Hx|Hx]; apply in_or_app.
      - destruct (Hin1 x Hx) as [Hx' | ->]; auto. right; left; auto.
      - right; right; auto. }
    destruct (IH tpl1 pk1 Hp1 Hk2) as (tplF & pkF & ks & H2 & HpF & (ext2 & He2) & HF & HinF).
    exists tplF, pkF, (k :: ks). cbn [parse_kinds]. rewrite H1. cbn [bind]. rewrite H2. cbn [bind].
    split; [reflexivity|]. split; auto. split; [exists (ext1 ++ ext2); rewrite He2, He1, app_assoc; reflexivity|].
    split.
    + constructor; auto. rewrite He2. rewrite nth_error_app1; auto. apply nth_error_Some. congruence.
    + intros x Hx. apply HinF in Hx. apply in_app_or in Hx as [Hx|Hx]; apply in_or_app.
      * destruct (Hin1 x Hx) as [Hx' | ->]; auto. right; left; auto.
      * right; right; auto.
Qed.

(* the kind of a residue of the file *)
Definition kind_of (pk : pkmap) (r : residue) : nat :=
  match pk_get pk (res_key r) with Some i => i | None => 0 end.

Lemma view_spec file : key_inj file ->
  exists v, view_of file = Ok v /\ gv_res v = file /\ gv_stream v = map (kind_of (gv_pk v)) file /\
    (forall r, In r file -> pk_get (gv_pk v) (res_key r) = Some (kind_of (gv_pk v) r)) /\
    (forall r1 r2, In r1 file -> In r2 file -> kind_of (gv_pk v) r1 = kind_of (gv_pk v) r2 -> r1 = r2).
Proof.
  intros Hk. destruct (parse_spec file [] [] pinv_nil Hk) as (tplF & pkF & ks & H & [Hget Hinv] & _ & HF & _).
  unfold view_of. unfold pkmap in *. rewrite H. cbn [bind]. eexists. split; [reflexivity|]. cbn [gv_res gv_pk gv_stream].
  assert (Hkind : forall r k, nth_error tplF k = Some r -> kind_of pkF r = k).
  { intros r k Hn. unfold kind_of. rewrite (Hget k r Hn). reflexivity. }
  assert (Hex : forall r, In r file -> exists k, nth_error tplF k = Some r).
  { clear -HF. induction HF; intros r Hr; [contradiction|]. destruct Hr as [<-|Hr]; eauto. }
  split; [reflexivity|]. split; [|split].
  - clear -HF Hkind. induction HF; simpl; auto. rewrite (Hkind _ _ H), <- IHHF. reflexivity.
  - intros r Hr. destruct (Hex r Hr) as [k Hn]. rewrite (Hkind r k Hn). apply Hget. exact Hn.
  - intros r1 r2 H1 H2 He. destruct (Hex r1 H1) as [k1 Hn1]. destruct (Hex r2 H2) as [k2 Hn2].
    rewrite (Hkind _ _ Hn1), (Hkind _ _ Hn2) in He. subst. congruence.
Qed.

(* ---------------- the file, described by the molecules it was assembled from *)
Inductive frun := FInst (s m : nat) | FOther (r : residue).

Definition shape (fr : frun) : run := match fr with FInst s m => RInst s m | FOther _ => ROther 0 end.
Definition to_run (pk : pkmap) (fr : frun) : run :=
  match fr with FInst s m => RInst s m | FOther r => ROther (kind_of pk r) end.

Lemma adjacent_shape pk frs : adjacent_ok (map shape frs) -> adjacent_ok (map (to_run pk) frs).
Proof.
  induction frs as [|fr rest IH]; simpl; auto. intros [H1 H2]. split; auto.
  destruct fr as [s m|r]; simpl in *; auto. destruct rest as [|[t m'|r'] rest']; simpl in *; auto.
Qed.

Lemma map_concat_repeat {A B} (f : A -> B) l n : map f (concat (repeat l n)) = concat (repeat (map f l) n).
Proof. induction n; simpl; auto. rewrite map_app, IHn. reflexivity. Qed.

Lemma skipn_add {A} (l : list A) a b : skipn (a + b) l = skipn b (skipn a l).
Proof.
  revert l. induction a as [|a IH]; intros l; simpl; auto. destruct l; auto. destruct b; reflexivity.
Qed.

Lemma window_repeat {A} (TR : list A) m rest j : j <= m ->
  firstn (length TR) (skipn (j * length TR) (concat (repeat TR (S m)) ++ rest)) = TR.
Proof.
  revert m. induction j as [|j IH]; intros m Hj.
  - simpl. rewrite <- app_assoc. apply firstn_length_app.
  - destruct m as [|m]; [lia|]. cbn [repeat concat]. rewrite <- app_assoc.
    replace (S j * length TR) with (length TR + j * length TR) by (simpl; lia).
    rewrite skipn_add. rewrite skipn_length_app. apply (IH m). lia.
Qed.

Lemma mapM_map_ok {A B C} (f : B -> res C) (g : A -> B) (h : A -> C) l :
  (forall x, In x l -> f (g x) = Ok (h x)) -> mapM f (map g l) = Ok (map h l).
Proof.
  induction l as [|x xs IH]; intros H; simpl; auto.
  rewrite (H x (or_introl eq_refl)). simpl. rewrite IH; auto. intros y Hy. apply H. right. exact Hy.
Qed.

Section File.
Variable tops : list top.

(* the residues of species s, as its topology describes them *)
Definition tres (s : nat) : list residue :=
  match nth_error tops s with Some t => top_residues t | None => [] end.

Definition frun_res (fr : frun) : list residue :=
  match fr with FInst s m => concat (repeat (tres s) (S m)) | FOther r => [r] end.
Definition file_of (frs : list frun) : list residue := flat_map frun_res frs.

(* The property's domain, on the file itself: whole molecules of the species [tops] (each present, written as
   maximal runs of adjacent instances), whose (resname, size) signature sets are pairwise disjoint, plus other
   residues whose signature no species has; equal signature = equal residue (name and atom names) in the file. *)
Record file_domain (frs : list frun) : Prop := {
  fd_tops : forall s t, nth_error tops s = Some t -> top_atoms t <> [];
  fd_present : forall s, s < length tops -> exists m, In (FInst s m) frs;
  fd_inst : forall s m, In (FInst s m) frs -> s < length tops;
  fd_disj : forall s t k, s <> t -> In k (map res_key (tres s)) -> ~ In k (map res_key (tres t));
  fd_other : forall r, In (FOther r) frs -> forall s, ~ In (res_key r) (map res_key (tres s));
  fd_keyinj : key_inj (file_of frs);
  fd_adj : adjacent_ok (map shape frs)
}.

Definition pats_of (pk : pkmap) : list (list nat) :=
  map (fun s => map (kind_of pk) (tres s)) (seq 0 (length tops)).

Lemma pat_pats_of pk s : pat (pats_of pk) s = map (kind_of pk) (tres s).
Proof.
  unfold pat, pats_of. destruct (lt_dec s (length tops)) as [Hl|Hl].
  - rewrite (nth_indep _ [] (map (kind_of pk) (tres 0))) by (rewrite map_length, seq_length; exact Hl).
    rewrite (map_nth (fun s => map (kind_of pk) (tres s)) (seq 0 (length tops)) 0 s).
    rewrite seq_nth by exact Hl. reflexivity.
  - rewrite nth_overflow by (rewrite map_length, seq_length; lia).
    unfold tres. assert (nth_error tops s = None) by (apply nth_error_None; lia). rewrite H. reflexivity.
Qed.

Lemma tres_out s : length tops <= s -> tres s = [].
Proof. intros H. unfold tres. assert (E : nth_error tops s = None) by (apply nth_error_None; lia). rewrite E. reflexivity. Qed.

Lemma frun_in_file frs fr r : In fr frs -> In r (frun_res fr) -> In r (file_of frs).
Proof. intros H1 H2. unfold file_of. apply in_flat_map. exists fr. split; auto. Qed.

Lemma tres_in_file frs s r : file_domain frs -> In r (tres s) -> In r (file_of frs).
Proof.
  intros D Hr. destruct (lt_dec s (length tops)) as [Hl|Hl]; [|rewrite tres_out in Hr by lia; contradiction].
  destruct (fd_present frs D s Hl) as [m Hm]. eapply frun_in_file; [exact Hm|].
  simpl. apply in_or_app. left. exact Hr.
Qed.

Theorem file_domain_domain frs : file_domain frs ->
  exists v, view_of (file_of frs) = Ok v /\
            domain v tops (pats_of (gv_pk v)) (map (to_run (gv_pk v)) frs).
Proof.
  intros D. destruct (view_spec (file_of frs) (fd_keyinj frs D)) as (v & Hv & Hres & Hstream & Hget & Hinj).
  exists v. split; auto. set (pk := gv_pk v) in *. set (kk := kind_of pk).
  assert (Hkin : forall s t k, In k (pat (pats_of pk) s) -> In k (pat (pats_of pk) t) ->
                 exists r, In r (tres s) /\ In r (tres t) /\ kk r = k).
  { intros s t k Hs Ht. rewrite pat_pats_of in Hs, Ht. apply in_map_iff in Hs as (r1 & E1 & H1).
    apply in_map_iff in Ht as (r2 & E2 & H2).
    assert (r1 = r2).
    { apply Hinj; [eapply tres_in_file; eauto|eapply tres_in_file; eauto|]. transitivity k; [exact E1|symmetry; exact E2]. }
    subst r2. exists r1. auto. }
  constructor.
  - unfold pats_of. rewrite map_length, seq_length. reflexivity.
  - split.
    + intros s Hs. unfold pats_of in Hs. rewrite map_length, seq_length in Hs. rewrite pat_pats_of.
      unfold tres. destruct (nth_error tops s) as [t|] eqn:E; [|apply nth_error_None in E; lia].
      intros Hnil. apply map_eq_nil in Hnil. apply (top_residues_nonempty t (fd_tops frs D s t E)). exact Hnil.
    + intros s t k Hne Hs Ht. destruct (Hkin s t k Hs Ht) as (r & H1 & H2 & _).
      apply (fd_disj frs D s t (res_key r) Hne); apply in_map; assumption.
  - intros s t Ht. unfold lookup_pattern. rewrite (resname_len_list_tr t (fd_tops frs D s t Ht)). cbn [bind].
    rewrite pat_pats_of. assert (Etr : tres s = top_residues t) by (unfold tres; rewrite Ht; reflexivity).
    rewrite Etr. apply mapM_map_ok. intros r Hr. fold pk.
    rewrite (Hget r). { reflexivity. } eapply tres_in_file; eauto. rewrite Etr. exact Hr.
  - apply Forall_forall. intros r Hr. apply in_map_iff in Hr as (fr & <- & Hfr).
    destruct fr as [s m|r0]; simpl.
    + unfold pats_of. rewrite map_length, seq_length. eapply fd_inst; eauto.
    + intros s Hin. rewrite pat_pats_of in Hin. apply in_map_iff in Hin as (r' & E & Hr').
      assert (r' = r0).
      { apply Hinj; [eapply tres_in_file; eauto|eapply frun_in_file; [exact Hfr|left; reflexivity]|]. exact E. }
      subst r'. apply (fd_other frs D r0 Hfr s). apply in_map. exact Hr'.
  - apply adjacent_shape. exact (fd_adj frs D).
  - rewrite Hstream. fold pk. fold kk. unfold file_of. clear -kk.
    induction frs as [|fr rest IH]; simpl; auto.
    rewrite !map_app, IH. f_equal. destruct fr as [s m|r]; simpl; auto.
    change (map Some (map kk (tres s ++ concat (repeat (tres s) m))) =
            concat (repeat (map Some (pat (pats_of pk) s)) (S m))).
    rewrite pat_pats_of. fold kk. cbn [repeat concat]. rewrite !map_app, !map_concat_repeat. reflexivity.
  - rewrite Hres, Hstream, map_length. reflexivity.
  - rewrite <- (app_nil_l (file_of frs)) in Hres. change 0 with (@length residue []).
    revert Hres. generalize (@nil residue) as pre. clear -D. 
    assert (Hfd := fd_tops frs D). clear D.
    induction frs as [|fr rest IH]; intros pre Hres; cbn [map runs_match]; auto.
    assert (Hlen : length (frun_res fr) = run_len (pats_of pk) (to_run pk fr)).
    { destruct fr as [s m|r]; simpl; auto. unfold plen. rewrite pat_pats_of, map_length.
      change (length (concat (repeat (tres s) (S m))) = S m * length (tres s)).
      rewrite concat_repeat_length. reflexivity. }
    split.
    + destruct fr as [s m|r]; cbn [to_run]; auto. intros t j Ht Hj.
      assert (Etr : tres s = top_residues t) by (unfold tres; rewrite Ht; reflexivity).
      unfold plen. rewrite pat_pats_of, map_length. rewrite Hres.
      rewrite skipn_add, skipn_length_app.
      change (file_of (FInst s m :: rest)) with (concat (repeat (tres s) (S m)) ++ file_of rest).
      rewrite window_repeat by exact Hj. rewrite Etr. apply mol_match_self.
    + rewrite <- Hlen, <- app_length. apply IH. rewrite Hres. simpl. rewrite app_assoc. reflexivity.
Qed.

End File.

Definition key_inj_b (l : list residue) : bool :=
  forallb (fun r1 => forallb (fun r2 => negb (pair_eqb (res_key r1) (res_key r2)) || res_eqb r1 r2) l) l.

Lemma key_inj_check l : key_inj_b l = true -> key_inj l.
Proof.
  unfold key_inj_b. intros H r1 r2 H1 H2 Hk. rewrite forallb_forall in H. specialize (H r1 H1).
  rewrite forallb_forall in H. specialize (H r2 H2). apply orb_true_iff in H as [H|H].
  - apply negb_true_iff in H. assert (pair_eqb (res_key r1) (res_key r2) = true) by (apply pair_eqb_iff; exact Hk). congruence.
  - apply res_eqb_iff. exact H.
Qed.
