(* Rigid operations of Model/Objects.v over the reals: move, move_to and rotate preserve every
   pairwise distance and move the geometric centre by exactly d / to exactly p / not at all. *)
From Coq Require Import Nsatz.
From GM Require Import Proofs.RTac Model.Objects.
Import ListNotations.
Local Open Scope R_scope.

Ltac v3 := apply V3_eq; runfold; simpl.

(* ---------- sums ---------- *)
Fixpoint vsumr (l : list (V3 R)) : V3 R :=
  match l with [] => vzero | x :: xs => vadd x (vsumr xs) end.

Lemma fold_vadd_acc (l : list (V3 R)) a : fold_left vadd l a = vadd a (vsumr l).
Proof.
  revert a; induction l as [|x xs IH]; intros a; simpl.
  - destruct a; v3; ring.
  - rewrite IH. v3; ring.
Qed.

Lemma vsum_vsumr (l : list (V3 R)) : vsum l = vsumr l.
Proof. unfold vsum. rewrite fold_vadd_acc. v3; ring. Qed.

Lemma vsumr_move d l :
  vsumr (map (fun p => vadd p d) l) = vadd (vsumr l) (vscale (INR (length l)) d).
Proof.
  induction l as [|x xs IH].
  - simpl. v3; ring.
  - cbn [map vsumr length]. rewrite IH, S_INR. v3; ring.
Qed.

Lemma vsumr_rot (M : M3 R) c l :
  vsumr (map (fun p => vadd (vecm (vsub p c) M) c) l) =
  vadd (vecm (vsub (vsumr l) (vscale (INR (length l)) c)) M) (vscale (INR (length l)) c).
Proof.
  induction l as [|x xs IH].
  - simpl. v3; ring.
  - cbn [map vsumr length]. rewrite IH, S_INR. v3; ring.
Qed.

Lemma vmean_eq (l : list (V3 R)) : vmean l = vdivs (vsumr l) (INR (length l)).
Proof. unfold vmean. rewrite vsum_vsumr. cbn [sofZ RScalar]. rewrite <- INR_IZR_INZ. reflexivity. Qed.

Lemma length_pos_INR {A} (l : list A) : l <> [] -> 0 < INR (length l).
Proof. destruct l; [congruence|]. intros _. apply lt_0_INR. simpl; lia. Qed.

(* ---------- centres ---------- *)
Lemma center_ok (ps : list (V3 R)) : ps <> [] -> geo_center ps = Ok (vmean ps).
Proof. destruct ps; [congruence | reflexivity]. Qed.

Lemma mean_move d (ps : list (V3 R)) : ps <> [] -> vmean (geo_move d ps) = vadd (vmean ps) d.
Proof.
  intros Hne. pose proof (length_pos_INR ps Hne) as Hn. unfold geo_move.
  rewrite !vmean_eq, map_length, vsumr_move.
  set (n := INR (length ps)) in *. set (S := vsumr ps). v3; field; lra.
Qed.

Lemma mean_rot (M : M3 R) (ps : list (V3 R)) : ps <> [] ->
  vmean (map (fun p => vadd (vecm (vsub p (vmean ps)) M) (vmean ps)) ps) = vmean ps.
Proof.
  intros Hne. pose proof (length_pos_INR ps Hne) as Hn.
  rewrite (vmean_eq (map _ _)), map_length, vsumr_rot. rewrite !vmean_eq.
  set (n := INR (length ps)) in *. set (S := vsumr ps). destruct M as [[a b c] [d e f] [g h i]].
  v3; field; lra.
Qed.

(* ---------- isometries ---------- *)
Lemma dist_move d (p q : V3 R) : vdist (vadd p d) (vadd q d) = vdist p q.
Proof. unfold vdist, vnorm. f_equal. runfold. ring. Qed.

Definition orthogonal (Q : M3 R) : Prop := mmul (mtrans Q) Q = mid.

Lemma dist_rot (Q : M3 R) c (p q : V3 R) : orthogonal Q ->
  vdist (vadd (vecm (vsub p c) (mtrans Q)) c) (vadd (vecm (vsub q c) (mtrans Q)) c) = vdist p q.
Proof.
  unfold orthogonal. intros HO. unfold vdist, vnorm. f_equal.
  destruct Q as [[a b c'] [d e f] [g h i]], p as [p1 p2 p3], q as [q1 q2 q3], c as [c1 c2 c3].
  runfold. inversion HO as [[E1 E2 E3 E4 E5 E6 E7 E8 E9]]. clear HO. nsatz.
Qed.

(* ---------- the three operations on a list of positions (one body) ---------- *)
Definition same_shape (ps ps' : list (V3 R)) : Prop :=
  length ps' = length ps /\
  forall i j p q p' q', nth_error ps i = Some p -> nth_error ps j = Some q ->
    nth_error ps' i = Some p' -> nth_error ps' j = Some q' -> vdist p' q' = vdist p q.

Lemma map_same_shape (f : V3 R -> V3 R) ps :
  (forall p q, vdist (f p) (f q) = vdist p q) -> same_shape ps (map f ps).
Proof.
  intros Hf. split; [apply map_length|].
  intros i j p q p' q' Hi Hj Hi' Hj'. rewrite nth_error_map in Hi', Hj'. rewrite Hi in Hi'. rewrite Hj in Hj'.
  simpl in *. inversion Hi'; inversion Hj'; subst. apply Hf.
Qed.

Theorem rigid_move : forall (d : V3 R) (ps : list (V3 R)), ps <> [] ->
  same_shape ps (geo_move d ps) /\
  exists c, geo_center ps = Ok c /\ geo_center (geo_move d ps) = Ok (vadd c d).
Proof.
  intros d ps Hne. split.
  - apply map_same_shape. intros; apply dist_move.
  - exists (vmean ps). split; [apply center_ok; auto|].
    rewrite center_ok; [|unfold geo_move; destruct ps; simpl; congruence]. f_equal. apply mean_move; auto.
Qed.

Theorem rigid_move_to : forall (p : V3 R) (ps : list (V3 R)), ps <> [] ->
  exists ps', geo_move_to p ps = Ok ps' /\ same_shape ps ps' /\ geo_center ps' = Ok p.
Proof.
  intros p ps Hne. unfold geo_move_to. rewrite center_ok by auto. cbn [bind].
  eexists; split; [reflexivity|]. split.
  - apply map_same_shape. intros; apply dist_move.
  - rewrite center_ok; [|unfold geo_move; destruct ps; simpl; congruence]. f_equal.
    rewrite mean_move by auto. v3; ring.
Qed.

Theorem rigid_rotate : forall (Q : M3 R) (ps : list (V3 R)), ps <> [] -> orthogonal Q ->
  exists ps', geo_rotate Q ps = Ok ps' /\ same_shape ps ps' /\ geo_center ps' = geo_center ps.
Proof.
  intros Q ps Hne HO. unfold geo_rotate. rewrite center_ok by auto. cbn [bind].
  eexists; split; [reflexivity|]. split.
  - apply map_same_shape. intros; apply dist_rot; auto.
  - rewrite center_ok; [|destruct ps; simpl; congruence]. f_equal. apply mean_rot; auto.
Qed.

(* a rotation matrix in the sense of C17 is orthogonal in the sense used here *)
Lemma orthogonal_of_both (Q : M3 R) : mmul (mtrans Q) Q = mid -> orthogonal Q.
Proof. auto. Qed.
