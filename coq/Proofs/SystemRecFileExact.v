(* C11_exact stated on the file itself *)
From Coq Require Import List Arith Bool Lia Sorting.Permutation.
Import ListNotations.
From GM Require Import Base.Res Model.SystemRec Proofs.SystemRecScan Proofs.SystemRecDomain
     Proofs.SystemRecSort Proofs.SystemRecLoad Proofs.SystemRecExact Proofs.SystemRecFile.

Section FileExact.
Variable tops : list top.

(* the molecules the file was assembled from that belong to the species selected by idx (species -> molecule
   index), in file order, as (molecule index, first residue, one past the last residue) *)
Fixpoint fexpected (idx : nat -> option nat) (frs : list frun) (pos : nat) : list inst :=
  match frs with
  | [] => []
  | fr :: rest =>
    (match fr with
     | FInst t m =>
       match idx t with
       | Some i => map (fun j => (i, pos + j * length (tres tops t), pos + S j * length (tres tops t))) (seq 0 (S m))
       | None => []
       end
     | FOther _ => []
     end) ++ fexpected idx rest (pos + length (frun_res tops fr))
  end.

Lemma run_len_file pk fr : run_len (pats_of tops pk) (to_run pk fr) = length (frun_res tops fr).
Proof.
  destruct fr as [s m|r]; simpl; auto. unfold plen. rewrite pat_pats_of, map_length.
  change (S m * length (tres tops s) = length (concat (repeat (tres tops s) (S m)))).
  rewrite concat_repeat_length. reflexivity.
Qed.

Lemma expected_file pk idx frs pos :
  expected (pats_of tops pk) idx (map (to_run pk) frs) pos = fexpected idx frs pos.
Proof.
  revert pos. induction frs as [|fr rest IH]; intros pos; cbn [map expected fexpected]; auto.
  rewrite IH, run_len_file. f_equal. destruct fr as [s m|r]; cbn [to_run]; auto.
  unfold plen. rewrite pat_pats_of, map_length. reflexivity.
Qed.

Lemma present_file pk frs s m : In (FInst s m) frs -> present s (map (to_run pk) frs).
Proof.
  intros H. unfold present. apply existsb_exists. exists (RInst s m). split.
  - apply in_map_iff. exists (FInst s m). auto.
  - simpl. apply Nat.eqb_refl.
Qed.

Theorem exact_file frs order ts : file_domain tops frs ->
  NoDup order -> Forall (fun s => s < length tops) order ->
  Forall2 (fun s t => nth_error tops s = Some t) order ts ->
  exists v st, view_of (file_of tops frs) = Ok v /\
               load_all v (sys_init v) ts = Ok st /\
               instances st = Ok (fexpected (index_of order) frs 0) /\
               sys_iter v st = Ok (fexpected (index_of order) frs 0).
Proof.
  intros D Hnd Hlt Hts. destruct (file_domain_domain tops frs D) as (v & Hv & Hdom).
  assert (Hpr : Forall (fun s => present s (map (to_run (gv_pk v)) frs)) order).
  { eapply Forall_impl; [|exact Hlt]. intros s Hs. destruct (fd_present tops frs D s Hs) as [m Hm].
    eapply present_file; eauto. }
  destruct (exact_kinds v tops _ _ Hdom order ts Hnd Hpr Hts) as (st & H1 & H2 & H3 & _).
  exists v, st. rewrite expected_file in H2, H3. auto.
Qed.

End FileExact.
