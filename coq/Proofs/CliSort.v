(* sorted(set) is a function of the set of elements; sort_molecules / main depend on the candidate list only
   through its set of elements (hence not on its order, its duplicates, or the hash seed). *)
From Coq Require Import String Ascii List Bool Arith OrdersEx Sorted SetoidList Permutation.
From GM Require Import Base.Res Gen.SrcConsts Model.Cli.
Import ListNotations.
Open Scope string_scope.

Notation slt := String_as_OT.lt.

Lemma scompare_refl x : String_as_OT.compare x x = Eq.
Proof.
  destruct (String_as_OT.compare_spec x x) as [_|H|H]; [reflexivity| |];
    exfalso; exact (StrictOrder_Irreflexive x H).
Qed.

Lemma scompare_eq x y : String_as_OT.compare x y = Eq -> x = y.
Proof. destruct (String_as_OT.compare_spec x y) as [H|H|H]; congruence. Qed.

Lemma scompare_gt x y : String_as_OT.compare x y = Gt -> slt y x.
Proof. destruct (String_as_OT.compare_spec x y) as [H|H|H]; congruence. Qed.

Lemma insert_u_In x l y : In y (insert_u x l) <-> y = x \/ In y l.
Proof.
  induction l as [|z r IH]; simpl.
  - intuition.
  - destruct (String_as_OT.compare x z) eqn:E; simpl.
    + apply scompare_eq in E; subst. intuition.
    + intuition.
    + rewrite IH. intuition.
Qed.

Lemma sorted_set_In l x : In x (sorted_set l) <-> In x l.
Proof.
  induction l as [|y r IH]; simpl; [tauto|].
  rewrite insert_u_In, IH. intuition.
Qed.

Lemma insert_u_hd x a l : HdRel slt a l -> slt a x -> HdRel slt a (insert_u x l).
Proof.
  intros H Hax. destruct l as [|z r]; simpl.
  - constructor; assumption.
  - inversion H; subst. destruct (String_as_OT.compare x z); constructor; assumption.
Qed.

Lemma insert_u_sorted x l : Sorted slt l -> Sorted slt (insert_u x l).
Proof.
  induction 1 as [|z r Hs IH Hd]; simpl.
  - repeat constructor.
  - destruct (String_as_OT.compare x z) eqn:E.
    + constructor; assumption.
    + constructor; [constructor; assumption|]. constructor. exact E.
    + constructor; [exact IH|]. apply insert_u_hd; [assumption|]. apply scompare_gt; exact E.
Qed.

Lemma sorted_set_sorted l : Sorted slt (sorted_set l).
Proof. induction l; simpl; [constructor | apply insert_u_sorted; assumption]. Qed.

Lemma eqlistA_eq_eq {A} (l l' : list A) : eqlistA eq l l' -> l = l'.
Proof. induction 1; subst; reflexivity. Qed.

Lemma sorted_unique l l' :
  Sorted slt l -> Sorted slt l' -> (forall x, In x l <-> In x l') -> l = l'.
Proof.
  intros H H' E. apply eqlistA_eq_eq.
  apply (SortA_equivlistA_eqlistA (eqA := eq) _ String_as_OT.lt_strorder String_as_OT.lt_compat); try assumption.
  intros x. rewrite !InA_alt. split; intros [y [-> Hy]]; exists y; split; try reflexivity; apply E; exact Hy.
Qed.

Lemma sorted_set_ext l l' : (forall x, In x l <-> In x l') -> sorted_set l = sorted_set l'.
Proof.
  intros E. apply sorted_unique; try apply sorted_set_sorted.
  intros x. rewrite !sorted_set_In. apply E.
Qed.

Lemma sorted_set_perm l l' : Permutation l l' -> sorted_set l = sorted_set l'.
Proof.
  intros P. apply sorted_set_ext. intros x; split; apply Permutation_in; [|apply Permutation_sym]; exact P.
Qed.

Lemma sorted_set_NoDup l : NoDup (sorted_set l).
Proof.
  assert (H := sorted_set_sorted l).
  apply (SortA_NoDupA (eqA := eq) _ String_as_OT.lt_strorder String_as_OT.lt_compat) in H.
  induction H as [|x r Hx Hn IH]; constructor; [|exact IH].
  intros Hin. apply Hx. apply InA_alt. exists x; split; [reflexivity|exact Hin].
Qed.

(* sorted_set really sorts: idempotent on its own output *)
Lemma sorted_set_idem l : sorted_set (sorted_set l) = sorted_set l.
Proof.
  apply sorted_unique; try apply sorted_set_sorted. intros x. apply sorted_set_In.
Qed.

(* ------------------------------------------------------------------ candidates depend on the set only *)
Lemma remove_file_In x l y : In y (remove_file x l) <-> In y l /\ x <> y.
Proof.
  unfold remove_file. rewrite filter_In. rewrite negb_true_iff, String.eqb_neq. tauto.
Qed.

Lemma remove_known_ext known : forall t c t' c',
  (forall x, In x t <-> In x t') -> (forall x, In x c <-> In x c') ->
  (forall x, In x (fst (remove_known known (t, c))) <-> In x (fst (remove_known known (t', c')))) /\
  (forall x, In x (snd (remove_known known (t, c))) <-> In x (snd (remove_known known (t', c')))).
Proof.
  unfold remove_known.
  induction known as [|[[a b] cc] r IH]; intros t c t' c' Ht Hc; simpl.
  - split; assumption.
  - apply IH.
    + intros x. rewrite !remove_file_In, Ht. tauto.
    + intros x. rewrite !remove_file_In, Hc. tauto.
Qed.

Lemma candidates_ext files files' known :
  (forall x, In x files <-> In x files') -> candidates files known = candidates files' known.
Proof.
  intros E. unfold candidates, classify_files.
  destruct (remove_known_ext known (filter is_top files) (filter is_coord files)
                             (filter is_top files') (filter is_coord files')) as [Ht Hc].
  - intros x. rewrite !filter_In, E. tauto.
  - intros x. rewrite !filter_In, E. tauto.
  - f_equal; apply sorted_set_ext; assumption.
Qed.

Section Perm.
  Variable sys : Type.
  Variable init_system : list file -> res sys.
  Variable try_add : sys -> file -> option sys.
  Variable name_of : file -> option string.
  Variable pairs_with : file -> file -> bool.

  Notation sortm := (sort_molecules sys init_system try_add name_of pairs_with).
  Notation mainm := (main_molecules sys init_system try_add name_of pairs_with).

  Lemma sort_molecules_set files files' known :
    (forall x, In x files <-> In x files') -> sortm files known = sortm files' known.
  Proof.
    intros E. unfold sort_molecules. rewrite (candidates_ext files files' known E). reflexivity.
  Qed.

  Lemma sort_molecules_perm files files' known :
    Permutation files files' -> sortm files known = sortm files' known.
  Proof.
    intros P. apply sort_molecules_set. intros x; split; apply Permutation_in; [|apply Permutation_sym]; exact P.
  Qed.

  Lemma main_molecules_perm mol files files' exclude :
    Permutation files files' -> mainm mol (Some files) exclude = mainm mol (Some files') exclude.
  Proof.
    intros P. unfold main_molecules. rewrite (sort_molecules_perm files files' _ P). reflexivity.
  Qed.
End Perm.
