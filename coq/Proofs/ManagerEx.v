(* Non-vacuity: concrete sessions on which the hypotheses of the C05 theorems hold. *)
From Coq Require Import List Ascii NArith ZArith Bool Arith Lia.
Import ListNotations.
From GM Require Import Base.Res Base.StrGro Gen.SrcConsts Model.GroCodec Model.GroFile Model.Manager
  Proofs.GroStr Proofs.GroCodecP Proofs.GroReadP Proofs.GroWriteP Proofs.GroMain Proofs.ManagerP Proofs.ManagerFile.
Local Open Scope char_scope.

(* a toy map: the map object IS the mapped molecule (two residues: one atom, two atoms); the instance body is unit *)
Definition ex_dec (m : N) : dec := mkdec false m.
Definition ex_pay (a b c : N) : dpay := ((ex_dec a, ex_dec b, ex_dec c), None).
Definition ex_molA : mapped dpay :=
  [[mkMatom ["R"; "A"] ["C"; "1"] (ex_pay 1000 2000 3000)];
   [mkMatom ["R"; "B"] ["C"; "2"] (ex_pay 1100 2000 3000); mkMatom ["R"; "B"] ["C"; "3"] (ex_pay 1200 2000 3000)]].
Definition ex_molC : mapped dpay := [[mkMatom ["I"; "O"; "N"] ["N"; "A"] (ex_pay 0 0 5)]].

Definition ex_mapmol (mp : mapped dpay) (_ : unit) : res (mapped dpay) := Ok mp.
Definition ex_build (i : nat) (_ : unit) (_ : unit) : res (mapped dpay) :=
  match i with 0 => Ok ex_molA | _ => Ok ex_molC end.
Definition ex_eeq (_ _ : unit) : bool := true.

(* species 0: both resolutions and a map; species 1: loaded, no end molecule; species 2: both and a map *)
Definition ex_sps : list (spstate unit (mapped dpay)) :=
  [mkSp true (Some tt) (Some ex_molA); mkSp true None None; mkSp true (Some tt) (Some ex_molC)].

(* input file order: A(res 7,8)  B(res 9)  C(res 99999)  A(res 0,1): B is not written *)
Definition ex_mols : list (minst unit) :=
  [mkInst 0 [7; 8]%Z tt; mkInst 1 [9]%Z tt; mkInst 2 [99999]%Z tt; mkInst 0 [0; 1]%Z tt].

Definition ex_blocks : list (list (Z * matom dpay)) :=
  [flatten_res (combine [7; 8]%Z ex_molA); flatten_res (combine [99999]%Z ex_molC);
   flatten_res (combine [0; 1]%Z ex_molA)].

Lemma ex_preflight : preflight ex_sps = Ok tt.
Proof. reflexivity. Qed.

Lemma ex_maps : Forall2 (maps_to ex_mapmol ex_sps) (selected ex_sps ex_mols) ex_blocks.
Proof. repeat constructor. Qed.

Lemma ex_selected : map in_resids (selected ex_sps ex_mols) = [[7; 8]; [99999]; [0; 1]]%Z.
Proof. reflexivity. Qed.

Definition ex_title : bytes := ["m"; "i"; "x"].
Definition ex_box : list bentry :=
  [mkbentry (ex_dec 300000) true; bzero; bzero; bzero; mkbentry (ex_dec 300000) true; bzero;
   bzero; bzero; mkbentry (ex_dec 300000) true].

Lemma ex_file_hyps :
  no_nl ex_title /\ length ex_box = 9 /\
  numbered (concat ex_blocks) 1%Z <> [] /\
  Forall (rec_ok 8 false) (map to_grec (numbered (concat ex_blocks) 1%Z)) /\
  (Z.of_nat (length (numbered (concat ex_blocks) 1%Z)) < 1000000000)%Z.
Proof.
  split; [reflexivity|]. split; [reflexivity|]. split; [discriminate|].
  split; [|vm_compute; reflexivity].
  repeat constructor; simpl; try lia; try reflexivity.
Qed.

(* the trace of that call, by evaluation: 7 lines, numbered 1..7, residue numbers of the input molecules *)
Lemma ex_trace :
  map (fun l => (l_resid l, l_anum l)) (written (fst (extrapolate ex_mapmol tt (ex_title ++ [NL]) ex_box ex_sps ex_mols)))
  = [(7, 1); (8, 2); (8, 3); (99999, 4); (0, 5); (1, 6); (1, 7)]%Z.
Proof. vm_compute. reflexivity. Qed.

(* a pre-flight refusal through the session: maps calculated for species 0, THEN an end molecule for species 1 *)
Lemma ex_late_end :
  fst (run ex_eeq ex_build ex_mapmol (ex_title ++ [NL]) ex_box (init 2)
           [OAddEnd 0 tt; OCalc tt; OAddEnd 1 tt; OExtrap tt ex_mols; OCalc tt; OExtrap tt [mkInst 1 [9]%Z tt]])
  = [ORes (Ok tt); ORes (Ok tt); ORes (Ok tt); OTrace [] (Err ESystem); ORes (Ok tt);
     OTrace (frame tt (ex_title ++ [NL]) ex_box
               [mkLine 9%Z ["I"; "O"; "N"] ["N"; "A"] 1%Z (ex_pay 0 0 5)]) (Ok tt)].
Proof. vm_compute. reflexivity. Qed.

Lemma ex_late_end_hyps :
  nth_error (fst (calc ex_build (init (E := unit) (M := mapped dpay) 2) tt)) 1 = Some (mkSp true None None).
Proof. reflexivity. Qed.

(* a target with another number of residues than the input molecule: ValueError, the file is closed after
   the molecules before it *)
Lemma ex_residue_mismatch :
  extrapolate ex_mapmol tt (ex_title ++ [NL]) ex_box ex_sps [mkInst 2 [5]%Z tt; mkInst 0 [7]%Z tt; mkInst 2 [6]%Z tt]
  = (frame tt (ex_title ++ [NL]) ex_box [mkLine 5%Z ["I"; "O"; "N"] ["N"; "A"] 1%Z (ex_pay 0 0 5)], Err EValue).
Proof. vm_compute. reflexivity. Qed.

(* an input whose title line is empty ("\n"): the writer model succeeds on the trace and the reader model finds the
   empty title line, 7 atoms, the box *)
Lemma ex_empty_title :
  match trace_file (fst (extrapolate ex_mapmol tt ([] ++ [NL]) ex_box ex_sps ex_mols)) with
  | Ok file => rmap (fun r => (r_comment r, r_natoms r, length (r_atoms r))) (read_gro file) = Ok ([NL], 7%Z, 7)
  | Err _ => False
  end.
Proof. vm_compute. reflexivity. Qed.
