(* The reader on a text of the shape  title NL count NL line1 NL ... linek NL tail :
   when it is accepted (complete file) and when it is rejected (no box line). *)
From Coq Require Import List Ascii NArith ZArith Bool Arith Lia.
From GM Require Import Base.Res Base.StrGro Gen.SrcConsts Model.GroCodec Model.GroFile
  Proofs.GroStr Proofs.GroCodecP.
Import ListNotations.
Local Open Scope nat_scope.

Definition body_of (lines : list bytes) : bytes := concat (map (fun l => l ++ [NL]) lines).
Definition gro_text (title count : bytes) (lines : list bytes) (tail : bytes) : bytes :=
  title ++ [NL] ++ count ++ [NL] ++ body_of lines ++ tail.

Lemma body_of_cons l r : body_of (l :: r) = l ++ [NL] ++ body_of r.
Proof. unfold body_of. simpl. rewrite <- app_assoc. reflexivity. Qed.
Lemma body_of_app a b : body_of (a ++ b) = body_of a ++ body_of b.
Proof. unfold body_of. rewrite map_app, concat_app. reflexivity. Qed.
Lemma body_of_length lines L : Forall (fun l => length l = L) lines ->
  length (body_of lines) = length lines * (L + 1).
Proof.
  induction 1 as [|l r Hl _ IH]; [reflexivity|].
  rewrite body_of_cons, !app_length, IH, Hl. simpl. lia.
Qed.

Lemma readline_at_app' a l r pos : pos = length a -> no_nl l ->
  readline_at (a ++ l ++ NL :: r) pos = (l ++ [NL], pos + length l + 1).
Proof. intros -> H. apply readline_at_app, H. Qed.

Lemma readline_at_eof f pos : length f <= pos -> readline_at f pos = ([], pos).
Proof. intros H. unfold readline_at. rewrite skipn_all2 by assumption. simpl. f_equal. lia. Qed.

(* ------------------------------------------------------------------ read_atoms *)
Lemma read_atoms_body fmt lines atoms : forall pre tail,
  Forall no_nl lines ->
  Forall2 (fun l a => parse_atomline fmt (l ++ [NL]) = Ok a) lines atoms ->
  read_atoms (pre ++ body_of lines ++ tail) fmt (length pre) (length lines) = Ok atoms.
Proof.
  revert atoms. induction lines as [|l r IH]; intros atoms pre tail Hn H2.
  - inversion H2; subst. reflexivity.
  - inversion H2 as [|? a ? ar Ha Har]; subst. inversion Hn as [|? ? Hl Hr]; subst.
    cbn [length read_atoms]. rewrite body_of_cons.
    replace (pre ++ (l ++ [NL] ++ body_of r) ++ tail) with (pre ++ l ++ NL :: (body_of r ++ tail))
      by (rewrite <- !app_assoc; reflexivity).
    rewrite readline_at_app by assumption. rewrite Ha. cbn [bind].
    replace (pre ++ l ++ NL :: body_of r ++ tail) with ((pre ++ l ++ [NL]) ++ body_of r ++ tail)
      by (rewrite <- !app_assoc; reflexivity).
    replace (length pre + length l + 1) with (length (pre ++ l ++ [NL]))
      by (rewrite !app_length; simpl; lia).
    rewrite (IH ar) by assumption. reflexivity.
Qed.

(* ------------------------------------------------------------------ load *)
Section Load.
  Variables (title count : bytes) (l0 : bytes) (rest : list bytes) (tail : bytes).
  Variables (n : Z) (fmt : nat * bool) (L : nat).
  Hypothesis Htnl : no_nl title.
  Hypothesis Hcnl : no_nl count.
  Hypothesis Hcount : py_int (count ++ [NL]) = Ok n.
  Hypothesis Hlines : Forall (fun l => length l = L /\ no_nl l) (l0 :: rest).
  Hypothesis Hfmt : determine_format (l0 ++ [NL]) = Ok fmt.

  Let lines := l0 :: rest.
  Let f := gro_text title count lines tail.
  Let init := length title + 1 + (length count + 1).

  Lemma f_shape : f = (title ++ [NL] ++ count ++ [NL]) ++ body_of lines ++ tail.
  Proof. unfold f, gro_text. rewrite <- !app_assoc. reflexivity. Qed.
  Lemma init_len : length (title ++ [NL] ++ count ++ [NL]) = init.
  Proof. unfold init. rewrite !app_length. simpl. lia. Qed.
  Lemma lines_len : Forall (fun l => length l = L) lines.
  Proof. eapply Forall_impl; [|exact Hlines]. simpl. tauto. Qed.
  Lemma lines_nl : Forall no_nl lines.
  Proof. eapply Forall_impl; [|exact Hlines]. simpl. tauto. Qed.
  Lemma f_length : length f = init + length lines * (L + 1) + length tail.
  Proof. rewrite f_shape, app_length, init_len, app_length, (body_of_length _ L lines_len). apply Nat.add_assoc. Qed.

  (* the part of load up to the seek to the box line *)
  Definition load_tail (target : Z) : res lstate :=
    if (target <? 0)%Z then Err EValue else
    if (SEEK_LIMIT <=? target)%Z then Err EType else
    if (Z.of_nat (length f) <=? target)%Z then Err EIO else
    let (bl, _) := readline_at f (Z.to_nat target) in
    if isnil bl then Err EIO else
    let* box := io_of_value (extract_lattice_gro bl) in
    if (n <? 0)%Z then Err EIndex else
    Ok (mklstate (title ++ [NL]) n init fmt (L + 1) box).

  Lemma load_head : load f = load_tail (Z.of_nat init + n * Z.of_nat (L + 1))%Z.
  Proof.
    assert (Hl0 : length l0 = L /\ no_nl l0) by (inversion Hlines; assumption).
    destruct Hl0 as [HL Hl0nl].
    unfold load.
    assert (E1 : readline_at f 0 = (title ++ [NL], length title + 1)).
    { unfold f, gro_text. change 0 with (length (@nil ascii)).
      change (title ++ [NL] ++ count ++ [NL] ++ body_of lines ++ tail)
        with ([] ++ title ++ NL :: (count ++ [NL] ++ body_of lines ++ tail)).
      rewrite readline_at_app by assumption. reflexivity. }
    rewrite E1.
    assert (Hn1 : isnil (title ++ [NL]) = false) by (destruct title; reflexivity).
    rewrite Hn1.
    assert (E2 : readline_at f (length title + 1) = (count ++ [NL], init)).
    { unfold f, gro_text.
      replace (title ++ [NL] ++ count ++ [NL] ++ body_of lines ++ tail)
        with ((title ++ [NL]) ++ count ++ NL :: (body_of lines ++ tail))
        by (rewrite <- !app_assoc; reflexivity).
      rewrite readline_at_app' by (try assumption; rewrite app_length; reflexivity).
      unfold init. f_equal. lia. }
    rewrite E2, Hcount.
    assert (E3 : readline_at f init = (l0 ++ [NL], init + (L + 1))).
    { rewrite f_shape. unfold lines. rewrite body_of_cons.
      replace ((title ++ [NL] ++ count ++ [NL]) ++ (l0 ++ [NL] ++ body_of rest) ++ tail)
        with ((title ++ [NL] ++ count ++ [NL]) ++ l0 ++ NL :: (body_of rest ++ tail))
        by (rewrite <- !app_assoc; reflexivity).
      rewrite readline_at_app' by (try assumption; symmetry; apply init_len).
      f_equal. lia. }
    rewrite E3, Hfmt. cbn [bind].
    replace (init + (L + 1) - init) with (L + 1) by lia.
    reflexivity.
  Qed.

  (* no box line: the seek goes to or beyond the end of the file *)
  Lemma load_rejected : (Z.of_nat (length lines) <= n)%Z -> tail = [] ->
    (Z.of_nat init + n * Z.of_nat (L + 1) < SEEK_LIMIT)%Z -> load f = Err EIO.
  Proof.
    intros Hn Ht Hlim. rewrite load_head. unfold load_tail.
    set (target := (Z.of_nat init + n * Z.of_nat (L + 1))%Z) in *.
    assert (Hlen : (Z.of_nat (length f) <= target)%Z).
    { rewrite f_length, Ht. cbn [length]. rewrite Nat.add_0_r. unfold target.
      rewrite Nat2Z.inj_add, Nat2Z.inj_mul.
      apply Z.add_le_mono_l. apply Z.mul_le_mono_nonneg_r; [apply Nat2Z.is_nonneg | exact Hn]. }
    assert (H0 : (target <? 0)%Z = false) by (apply Z.ltb_ge; lia).
    assert (H1 : (SEEK_LIMIT <=? target)%Z = false) by (apply Z.leb_gt; lia).
    assert (H2 : (Z.of_nat (length f) <=? target)%Z = true) by (apply Z.leb_le; lia).
    rewrite H0, H1, H2. reflexivity.
  Qed.

  (* complete file *)
  Lemma load_complete boxline box : n = Z.of_nat (length lines) -> tail = boxline ++ [NL] ->
    no_nl boxline -> extract_lattice_gro (boxline ++ [NL]) = Ok box ->
    (Z.of_nat (length f) < SEEK_LIMIT)%Z ->
    load f = Ok (mklstate (title ++ [NL]) n init fmt (L + 1) box).
  Proof.
    intros Hn Ht Hbnl Hbox Hlim. rewrite load_head. unfold load_tail.
    set (target := (Z.of_nat init + n * Z.of_nat (L + 1))%Z) in *.
    assert (Htgt : target = Z.of_nat (init + length lines * (L + 1))).
    { unfold target. rewrite Hn, (Nat2Z.inj_add init), Nat2Z.inj_mul. reflexivity. }
    assert (Hflen : length f = init + length lines * (L + 1) + (length boxline + 1)).
    { rewrite f_length, Ht, app_length. reflexivity. }
    assert (H0 : (target <? 0)%Z = false) by (apply Z.ltb_ge; lia).
    assert (H1 : (SEEK_LIMIT <=? target)%Z = false) by (apply Z.leb_gt; lia).
    assert (H2 : (Z.of_nat (length f) <=? target)%Z = false) by (apply Z.leb_gt; lia).
    rewrite H0, H1, H2. rewrite Htgt, Nat2Z.id.
    assert (E4 : readline_at f (init + length lines * (L + 1)) =
                 (boxline ++ [NL], init + length lines * (L + 1) + length boxline + 1)).
    { rewrite f_shape, Ht.
      replace ((title ++ [NL] ++ count ++ [NL]) ++ body_of lines ++ boxline ++ [NL])
        with (((title ++ [NL] ++ count ++ [NL]) ++ body_of lines) ++ boxline ++ NL :: [])
        by (rewrite <- !app_assoc; reflexivity).
      apply readline_at_app'; [|assumption].
      rewrite app_length, init_len, (body_of_length _ L lines_len). reflexivity. }
    rewrite E4.
    assert (Hn2 : isnil (boxline ++ [NL]) = false) by (destruct boxline; reflexivity).
    rewrite Hn2, Hbox. cbn [io_of_value bind].
    assert (H3 : (n <? 0)%Z = false) by (apply Z.ltb_ge; lia).
    rewrite H3. reflexivity.
  Qed.

  Lemma read_complete boxline box atoms : n = Z.of_nat (length lines) -> tail = boxline ++ [NL] ->
    no_nl boxline -> extract_lattice_gro (boxline ++ [NL]) = Ok box ->
    (Z.of_nat (length f) < SEEK_LIMIT)%Z ->
    Forall2 (fun l a => parse_atomline fmt (l ++ [NL]) = Ok a) lines atoms ->
    read_gro f = Ok (mkrresult (title ++ [NL]) n atoms box).
  Proof.
    intros Hn Ht Hbnl Hbox Hlim Hat. unfold read_gro.
    rewrite (load_complete boxline box) by assumption. cbn [bind l_fmt l_init l_natoms l_comment l_box].
    rewrite Hn, Nat2Z.id. rewrite f_shape, <- init_len.
    rewrite (read_atoms_body fmt lines atoms) by (auto using lines_nl). reflexivity.
  Qed.

  Lemma read_rejected : (Z.of_nat (length lines) <= n)%Z -> tail = [] ->
    (Z.of_nat init + n * Z.of_nat (L + 1) < SEEK_LIMIT)%Z -> read_gro f = Err EIO.
  Proof. intros. unfold read_gro. rewrite load_rejected by assumption. reflexivity. Qed.
End Load.

(* a file whose count line does not parse *)
Lemma read_bad_count title count rest :
  no_nl title -> no_nl count -> py_int (count ++ [NL]) = Err EValue ->
  read_gro (title ++ [NL] ++ count ++ [NL] ++ rest) = Err EIO.
Proof.
  intros Htnl Hcnl Hc. unfold read_gro, load.
  assert (E1 : readline_at (title ++ [NL] ++ count ++ [NL] ++ rest) 0 = (title ++ [NL], length title + 1)).
  { change 0 with (length (@nil ascii)).
    change (title ++ [NL] ++ count ++ [NL] ++ rest) with ([] ++ title ++ NL :: (count ++ [NL] ++ rest)).
    rewrite readline_at_app by assumption. reflexivity. }
  rewrite E1.
  assert (Hn1 : isnil (title ++ [NL]) = false) by (destruct title; reflexivity).
  rewrite Hn1.
  assert (E2 : readline_at (title ++ [NL] ++ count ++ [NL] ++ rest) (length title + 1)
               = (count ++ [NL], length title + 1 + length count + 1)).
  { replace (title ++ [NL] ++ count ++ [NL] ++ rest) with ((title ++ [NL]) ++ count ++ NL :: rest)
      by (rewrite <- !app_assoc; reflexivity).
    apply readline_at_app'; [rewrite app_length; reflexivity|assumption]. }
  rewrite E2, Hc. reflexivity.
Qed.

Lemma read_empty : read_gro [] = Err EIO.
Proof. reflexivity. Qed.
