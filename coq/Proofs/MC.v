(* Facts about the Monte-Carlo loop of Model/MC.v that hold for EVERY Scalar instance (so also for the
   binary64 instance that is executed against the implementation), every overlap measure and every
   proposal function.  No arithmetic is used: these are the bookkeeping invariants. *)
From Coq Require Import List Lia Bool Arith.
Import ListNotations.
From GM Require Import Base.Res Base.Scalar Base.Vec Model.Aux Model.MC.
Local Open Scope scalar_scope.

Section LoopFacts.
Context {T : Type} `{Scalar T}.
Variables conf P : Type.
Variable chi2 : conf -> T.
Variable propose : nat -> P -> conf -> res conf.
Variable sim : list nat.
Variable n : nat.

Notation State := (state T conf).
Notation Step := (step_rec T conf).

(* ---------------------------------------------------------------- vocabulary of the statements *)

(* how a proposal is judged: decision `acc`, given the two measures and the uniform draw consumed (if any).
   First disjunct: equal or lower, accepted, NO draw.  Second: worse, one draw u, accepted iff
   u <= acceptance * (e0 / e1)  (as booleans of the Scalar instance, so nan compares false). *)
Definition judged (e0 e1 : T) (ou : option T) (acc : bool) : Prop :=
  ((e1 <=? e0) = true /\ ou = None /\ acc = true) \/
  ((e1 <=? e0) = false /\ (e1 =? s0) = false /\
   exists u, ou = Some u /\ acc = (u <=? acceptance * (e0 / e1))).

(* the loop-carried state the code's text prescribes after a step *)
Definition next_state (st : State) (test : conf) (e1 : T) (acc : bool) : State :=
  if acc then
    if e1 <? e_min st then mkState test e1 e1 0
    else mkState test e1 (e_min st) (S (counter st))
  else mkState (held st) (e_held st) (e_min st) (S (counter st)).

Definition step_ok (r : Step) : Prop :=
  In (sr_kind r) sim /\
  (exists p, propose (sr_kind r) p (held (sr_before r)) = Ok (sr_test r)) /\
  sr_e1 r = chi2 (sr_test r) /\
  judged (e_held (sr_before r)) (sr_e1 r) (sr_u r) (sr_acc r) /\
  sr_newmin r = andb (sr_acc r) (sr_e1 r <? e_min (sr_before r)) /\
  sr_after r = next_state (sr_before r) (sr_test r) (sr_e1 r) (sr_acc r).

(* the trace is a chain of loop states starting at st *)
Fixpoint chained (st : State) (tr : list Step) : Prop :=
  match tr with
  | [] => True
  | r :: tr' => sr_before r = st /\ chained (sr_after r) tr'
  end.

Definition final_state (st : State) (tr : list Step) : State :=
  fold_left (fun _ r => sr_after r) tr st.

(* specification functions, computed from the decisions alone *)
Definition last_accepted (init : conf) (tr : list Step) : conf :=
  fold_left (fun c r => if sr_acc r then sr_test r else c) tr init.
Definition since_newmin (c0 : nat) (tr : list Step) : nat :=
  fold_left (fun c r => if sr_newmin r then 0 else S c) tr c0.

(* ---------------------------------------------------------------- one step *)
Lemma accept_inv e0 e1 (s s' : stream T P) acc ou :
  accept_metropolis P e0 e1 s = Ok (acc, ou, s') ->
  judged e0 e1 ou acc /\
  (ou = None -> s' = s) /\ (forall u, ou = Some u -> s = DRand u :: s').
Proof.
  unfold accept_metropolis, judged.
  destruct (e1 <=? e0) eqn:E1.
  - intros E; inversion E; subst. split; [left; auto|]. split; [auto|discriminate].
  - destruct (e1 =? s0) eqn:E0; [discriminate|].
    destruct s as [|[i|p|u] s1]; try discriminate.
    intros E; inversion E; subst. split.
    + right. repeat split; auto. exists u; auto.
    + split; [discriminate|]. intros u' Hu; inversion Hu; reflexivity.
Qed.

Lemma accept_equal_or_lower e0 e1 (s : stream T P) :
  (e1 <=? e0) = true -> accept_metropolis P e0 e1 s = Ok (true, None, s).
Proof. unfold accept_metropolis; intros E; rewrite E; reflexivity. Qed.

Lemma mc_step_ok st s r s' :
  mc_step conf P chi2 propose sim st s = Ok (r, s') -> sr_before r = st /\ step_ok r.
Proof.
  unfold mc_step.
  destruct s as [|[i|p0|u0] s]; try discriminate.
  destruct s as [|[i2|p|u1] s1]; try discriminate.
  unfold nth_res. destruct (nth_error sim i) as [kind|] eqn:Ek; simpl; [|discriminate].
  destruct (propose kind p (held st)) as [test|] eqn:Ep; simpl; [|discriminate].
  destruct (accept_metropolis P (e_held st) (chi2 test) s1) as [[[acc ou] s2]|] eqn:Ea; simpl; [|discriminate].
  intros E; inversion E; subst; clear E. simpl.
  split; [reflexivity|]. unfold step_ok; simpl.
  apply accept_inv in Ea. destruct Ea as [Hj _].
  repeat split; auto.
  - eapply nth_error_In; eauto.
  - exists p; auto.
Qed.

(* ---------------------------------------------------------------- the loop *)
Lemma mc_loop_stop fuel st s :
  Nat.leb n (counter st) = true ->
  mc_loop conf P chi2 propose sim n fuel st s = ([], Ok (held st)).
Proof. intros E; destruct fuel; simpl; rewrite E; reflexivity. Qed.

Lemma mc_loop_trace fuel : forall st s tr out,
  mc_loop conf P chi2 propose sim n fuel st s = (tr, out) ->
  chained st tr /\ Forall step_ok tr /\ Forall (fun r => counter (sr_before r) < n) tr /\
  match out with
  | Ok c => c = held (final_state st tr) /\ n <= counter (final_state st tr)
  | Err _ => counter (final_state st tr) < n
  end.
Proof.
  induction fuel as [|f IH]; intros st s tr out; simpl.
  - destruct (Nat.leb n (counter st)) eqn:E; intros Heq; inversion Heq; subst; simpl.
    + apply Nat.leb_le in E. repeat split; auto.
    + apply Nat.leb_gt in E. repeat split; auto.
  - destruct (Nat.leb n (counter st)) eqn:E.
    + intros Heq; inversion Heq; subst; simpl. apply Nat.leb_le in E. repeat split; auto.
    + apply Nat.leb_gt in E.
      destruct (mc_step conf P chi2 propose sim st s) as [[r s']|e] eqn:Es.
      * destruct (mc_loop conf P chi2 propose sim n f (sr_after r) s') as [tr' out'] eqn:El.
        intros Heq; inversion Heq; subst; clear Heq.
        apply mc_step_ok in Es. destruct Es as [Hb Hok].
        apply IH in El. destruct El as (Hc & Hf & Hn & Ho).
        simpl. repeat split; auto.
        constructor; auto. rewrite Hb; exact E.
      * intros Heq; inversion Heq; subst; simpl. repeat split; auto.
Qed.

(* ---------------------------------------------------------------- consequences on chained traces *)
Lemma chained_app st tr1 tr2 :
  chained st (tr1 ++ tr2) <-> chained st tr1 /\ chained (final_state st tr1) tr2.
Proof using.
  revert st; induction tr1 as [|r tr1 IH]; intros st.
  - simpl. split; [intros Hc; split; [exact I|exact Hc]|intros [_ Hc]; exact Hc].
  - change (final_state st (r :: tr1)) with (final_state (sr_after r) tr1). simpl. rewrite IH.
    split; [intros [A [B C]]; split; [split; [exact A|exact B]|exact C]
           |intros [[A B] C]; split; [exact A|split; [exact B|exact C]]].
Qed.

Lemma final_state_app st tr1 tr2 :
  final_state st (tr1 ++ tr2) = final_state (final_state st tr1) tr2.
Proof. unfold final_state; apply fold_left_app. Qed.

Lemma next_held st test e1 acc :
  held (next_state st test e1 acc) = if acc then test else held st.
Proof. unfold next_state; destruct acc; [destruct (e1 <? e_min st)|]; reflexivity. Qed.
Lemma next_e_held st test e1 acc :
  e_held (next_state st test e1 acc) = if acc then e1 else e_held st.
Proof. unfold next_state; destruct acc; [destruct (e1 <? e_min st)|]; reflexivity. Qed.
Lemma next_counter st test e1 acc :
  counter (next_state st test e1 acc) = if andb acc (e1 <? e_min st) then 0 else S (counter st).
Proof. unfold next_state; destruct acc; [destruct (e1 <? e_min st)|]; reflexivity. Qed.
Lemma next_e_min st test e1 acc :
  e_min (next_state st test e1 acc) = if andb acc (e1 <? e_min st) then e1 else e_min st.
Proof. unfold next_state; destruct acc; [destruct (e1 <? e_min st)|]; reflexivity. Qed.

Lemma final_held : forall tr st, chained st tr -> Forall step_ok tr ->
  held (final_state st tr) = last_accepted (held st) tr.
Proof.
  induction tr as [|r tr IH]; intros st Hc Hf; [reflexivity|].
  destruct Hc as [Hb Hc]. inversion Hf as [|? ? Hr Hf']; subst.
  unfold final_state, last_accepted in *; simpl.
  rewrite (IH _ Hc Hf'). f_equal.
  destruct Hr as (_ & _ & _ & _ & _ & Ha). rewrite Ha, next_held. reflexivity.
Qed.

Lemma final_counter : forall tr st, chained st tr -> Forall step_ok tr ->
  counter (final_state st tr) = since_newmin (counter st) tr.
Proof.
  induction tr as [|r tr IH]; intros st Hc Hf; [reflexivity|].
  destruct Hc as [Hb Hc]. inversion Hf as [|? ? Hr Hf']; subst.
  unfold final_state, since_newmin in *; simpl.
  rewrite (IH _ Hc Hf'). f_equal.
  destruct Hr as (_ & _ & _ & _ & Hn & Ha). rewrite Ha, next_counter, Hn. reflexivity.
Qed.

Lemma consistent_preserved : forall tr st, chained st tr -> Forall step_ok tr ->
  e_held st = chi2 (held st) ->
  Forall (fun r => e_held (sr_before r) = chi2 (held (sr_before r)) /\
                   e_held (sr_after r) = chi2 (held (sr_after r))) tr /\
  e_held (final_state st tr) = chi2 (held (final_state st tr)).
Proof.
  induction tr as [|r tr IH]; intros st Hc Hf Hi; [split; [constructor|exact Hi]|].
  destruct Hc as [Hb Hc]. inversion Hf as [|? ? Hr Hf']; subst.
  assert (Ha : e_held (sr_after r) = chi2 (held (sr_after r))).
  { destruct Hr as (_ & _ & He & _ & _ & Ha). rewrite Ha, next_held, next_e_held.
    destruct (sr_acc r); [exact He|exact Hi]. }
  destruct (IH _ Hc Hf' Ha) as [H1 H2]. split; [constructor; auto|exact H2].
Qed.

Lemma counter_bound : forall tr st, chained st tr -> Forall step_ok tr ->
  Forall (fun r => counter (sr_before r) < n) tr -> counter st <= n ->
  counter (final_state st tr) <= n.
Proof.
  induction tr as [|r tr IH]; intros st Hc Hf Hn Hle; [exact Hle|].
  destruct Hc as [Hb Hc]. inversion Hf as [|? ? Hr Hf']; subst. inversion Hn as [|? ? Hlt Hn']; subst.
  unfold final_state; simpl. apply IH; auto.
  destruct Hr as (_ & _ & _ & _ & _ & Ha). rewrite Ha, next_counter.
  destruct (sr_acc r && (sr_e1 r <? e_min (sr_before r))); lia.
Qed.

(* characterisation of the two specification functions *)
Lemma last_accepted_none : forall tr init,
  Forall (fun r : Step => sr_acc r = false) tr -> last_accepted init tr = init.
Proof.
  induction tr as [|r tr IH]; intros init Hf; [reflexivity|].
  inversion Hf as [|? ? Hr Hf']; subst. unfold last_accepted in *; simpl. rewrite Hr. apply IH; auto.
Qed.

Lemma last_accepted_last tr1 r tr2 init :
  sr_acc r = true -> Forall (fun r : Step => sr_acc r = false) tr2 ->
  last_accepted init (tr1 ++ r :: tr2) = sr_test r.
Proof.
  intros Hr Hf. unfold last_accepted. rewrite fold_left_app. simpl. rewrite Hr.
  apply (last_accepted_none tr2 (sr_test r) Hf).
Qed.

Lemma since_newmin_none : forall tr c0,
  Forall (fun r : Step => sr_newmin r = false) tr -> since_newmin c0 tr = (c0 + length tr)%nat.
Proof.
  induction tr as [|r tr IH]; intros c0 Hf; simpl; [unfold since_newmin; simpl; lia|].
  inversion Hf as [|? ? Hr Hf']; subst. unfold since_newmin in *; simpl. rewrite Hr.
  rewrite (IH (S c0) Hf'). lia.
Qed.

Lemma since_newmin_last tr1 r tr2 c0 :
  sr_newmin r = true -> Forall (fun r : Step => sr_newmin r = false) tr2 ->
  since_newmin c0 (tr1 ++ r :: tr2) = length tr2.
Proof.
  intros Hr Hf. unfold since_newmin. rewrite fold_left_app. simpl. rewrite Hr.
  apply (since_newmin_none tr2 0 Hf).
Qed.

(* ---------------------------------------------------------------- statements about whole runs *)
Definition st0 (init : conf) : State := init_state conf chi2 init.

Lemma run_trace fuel init s tr out :
  mc_run conf P chi2 propose sim n fuel init s = (tr, out) ->
  chained (st0 init) tr /\ Forall step_ok tr /\ Forall (fun r => counter (sr_before r) < n) tr /\
  match out with
  | Ok c => c = held (final_state (st0 init) tr) /\ n <= counter (final_state (st0 init) tr)
  | Err _ => counter (final_state (st0 init) tr) < n
  end.
Proof. unfold mc_run, st0. apply mc_loop_trace. Qed.

(* C09_energy_consistent *)
Lemma run_energy_consistent fuel init s tr out :
  mc_run conf P chi2 propose sim n fuel init s = (tr, out) ->
  chained (st0 init) tr /\
  e_held (st0 init) = chi2 init /\
  Forall (fun r => e_held (sr_before r) = chi2 (held (sr_before r)) /\
                   sr_e1 r = chi2 (sr_test r) /\
                   judged (chi2 (held (sr_before r))) (chi2 (sr_test r)) (sr_u r) (sr_acc r) /\
                   e_held (sr_after r) = chi2 (held (sr_after r))) tr.
Proof.
  intros Hrun. destruct (run_trace _ _ _ _ _ Hrun) as (Hc & Hf & _ & _).
  split; [exact Hc|]. split; [reflexivity|].
  destruct (consistent_preserved tr (st0 init) Hc Hf eq_refl) as [Hall _].
  rewrite Forall_forall in *. intros r Hin.
  destruct (Hall r Hin) as [H1 H2]. destruct (Hf r Hin) as (_ & _ & He & Hj & _ & _).
  repeat split; auto. rewrite <- H1, <- He. exact Hj.
Qed.

(* C09_reject_keeps *)
Lemma run_reject_keeps fuel init s tr out :
  mc_run conf P chi2 propose sim n fuel init s = (tr, out) ->
  Forall (fun r => sr_acc r = false ->
            held (sr_after r) = held (sr_before r) /\ e_held (sr_after r) = e_held (sr_before r) /\
            e_min (sr_after r) = e_min (sr_before r) /\ counter (sr_after r) = S (counter (sr_before r))) tr.
Proof.
  intros Hrun. destruct (run_trace _ _ _ _ _ Hrun) as (_ & Hf & _ & _).
  rewrite Forall_forall in *. intros r Hin Hacc.
  destruct (Hf r Hin) as (_ & _ & _ & _ & _ & Ha). rewrite Ha. unfold next_state. rewrite Hacc.
  simpl; auto.
Qed.

(* the accepted branch, for completeness of the bookkeeping *)
Lemma run_accept_takes fuel init s tr out :
  mc_run conf P chi2 propose sim n fuel init s = (tr, out) ->
  Forall (fun r => sr_acc r = true ->
            held (sr_after r) = sr_test r /\ e_held (sr_after r) = sr_e1 r) tr.
Proof.
  intros Hrun. destruct (run_trace _ _ _ _ _ Hrun) as (_ & Hf & _ & _).
  rewrite Forall_forall in *. intros r Hin Hacc.
  destruct (Hf r Hin) as (_ & _ & _ & _ & _ & Ha). rewrite Ha, next_held, next_e_held, Hacc. auto.
Qed.

(* C09_returns_held *)
Lemma run_returns_held fuel init s tr out :
  mc_run conf P chi2 propose sim n fuel init s = (tr, out) ->
  (forall tr1 tr2, tr = tr1 ++ tr2 -> held (final_state (st0 init) tr1) = last_accepted init tr1) /\
  (forall c, out = Ok c -> c = held (final_state (st0 init) tr) /\ c = last_accepted init tr).
Proof.
  intros Hrun. destruct (run_trace _ _ _ _ _ Hrun) as (Hc & Hf & _ & Ho).
  split.
  - intros tr1 tr2 E; subst. apply chained_app in Hc. destruct Hc as [Hc1 _].
    apply Forall_app in Hf. destruct Hf as [Hf1 _].
    apply (final_held tr1 (st0 init) Hc1 Hf1).
  - intros c E; subst. destruct Ho as [Ho _]. split; [exact Ho|].
    rewrite Ho. apply (final_held tr (st0 init) Hc Hf).
Qed.

(* C09_exact_stop *)
Lemma run_exact_stop fuel init s tr out :
  mc_run conf P chi2 propose sim n fuel init s = (tr, out) ->
  (forall tr1 tr2, tr = tr1 ++ tr2 -> counter (final_state (st0 init) tr1) = since_newmin 0 tr1) /\
  Forall (fun r => sr_newmin r = andb (sr_acc r) (sr_e1 r <? e_min (sr_before r))) tr /\
  Forall (fun r => counter (sr_before r) < n) tr /\
  counter (final_state (st0 init) tr) <= n /\
  ((exists c, out = Ok c) <-> counter (final_state (st0 init) tr) = n).
Proof.
  intros Hrun. destruct (run_trace _ _ _ _ _ Hrun) as (Hc & Hf & Hn & Ho).
  assert (Hle : counter (final_state (st0 init) tr) <= n).
  { apply counter_bound; auto. simpl; lia. }
  split; [|split; [|split; [exact Hn|split; [exact Hle|]]]].
  - intros tr1 tr2 E; subst. apply chained_app in Hc. destruct Hc as [Hc1 _].
    apply Forall_app in Hf. destruct Hf as [Hf1 _].
    apply (final_counter tr1 (st0 init) Hc1 Hf1).
  - rewrite Forall_forall in *. intros r Hin. destruct (Hf r Hin) as (_ & _ & _ & _ & Hm & _). exact Hm.
  - destruct out as [c|e].
    + destruct Ho as [_ Hge]. split; [intros _; lia|intros _; eauto].
    + split; [intros [c E]; discriminate|intros E; lia].
Qed.

(* kinds are drawn among the enabled types and every proposal comes from the proposal function
   applied to the configuration held at that moment *)
Lemma run_kinds fuel init s tr out :
  mc_run conf P chi2 propose sim n fuel init s = (tr, out) ->
  Forall (fun r => In (sr_kind r) sim /\
                   exists p, propose (sr_kind r) p (held (sr_before r)) = Ok (sr_test r)) tr.
Proof.
  intros Hrun. destruct (run_trace _ _ _ _ _ Hrun) as (_ & Hf & _ & _).
  rewrite Forall_forall in *. intros r Hin. destruct (Hf r Hin) as (H1 & H2 & _). auto.
Qed.

End LoopFacts.
