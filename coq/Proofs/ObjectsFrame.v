(* Frame reasoning for the heap model of Model/Objects.v (any Scalar instance):
   which cells an operation may write, where the handles it returns live. *)
From Coq Require Import List ZArith Bool Arith Lia.
From GM Require Import Base.Res Base.Scalar Base.Vec Model.Objects.
Import ListNotations.

(* ------------------------------------------------------------------ upd *)
Lemma upd_length {A} (l : list A) n a : length (upd l n a) = length l.
Proof. revert n; induction l; intros [|n]; simpl; auto. Qed.

Lemma nth_error_upd_same {A} (l : list A) n a : n < length l -> nth_error (upd l n a) n = Some a.
Proof. revert n; induction l; intros [|n]; simpl; intros; try lia; auto. apply IHl; lia. Qed.

Lemma nth_error_upd_other {A} (l : list A) n m a : n <> m -> nth_error (upd l n a) m = nth_error l m.
Proof. revert n m; induction l; intros [|n] [|m]; simpl; intros; try congruence; auto. Qed.

Lemma nth_error_lt {A} (l : list A) n a : nth_error l n = Some a -> n < length l.
Proof. intros E. apply nth_error_Some. congruence. Qed.

Lemma nth_error_app_old {A} (l l' : list A) n : n < length l -> nth_error (l ++ l') n = nth_error l n.
Proof. intros. apply nth_error_app1; auto. Qed.

Section Frame.
Context {T : Type} `{Scalar T}.

Notation heap := (heap T).
Notation handle := (handle T).
Notation M := (M T).

(* ------------------------------------------------------------------ monad inversion *)
Lemma mbind_inv {A B} (m : M A) (f : A -> M B) h h' r :
  mbind m f h = (h', r) ->
  (exists h1 a, m h = (h1, Ok a) /\ f a h1 = (h', r)) \/ (exists e, m h = (h', Err e) /\ r = Err e).
Proof.
  unfold mbind. destruct (m h) as [h1 [a|e]]; intros E.
  - left; eauto.
  - right; inversion E; subst; eauto.
Qed.

Lemma mbind_ok {A B} (m : M A) (f : A -> M B) h h' b :
  mbind m f h = (h', Ok b) -> exists h1 a, m h = (h1, Ok a) /\ f a h1 = (h', Ok b).
Proof.
  intros E. destruct (mbind_inv _ _ _ _ _ E) as [?|[e [_ E']]]; [assumption | discriminate].
Qed.

(* ------------------------------------------------------------------ extension of a heap *)
Definition ext (G Tp Mt : loc -> Prop) (h h' : heap) : Prop :=
  length (hgro h) <= length (hgro h') /\ length (htop h) <= length (htop h') /\
  length (hmt h) <= length (hmt h') /\
  (forall l, l < length (hgro h) -> ~ G l -> nth_error (hgro h') l = nth_error (hgro h) l) /\
  (forall l, l < length (htop h) -> ~ Tp l -> nth_error (htop h') l = nth_error (htop h) l) /\
  (forall l, l < length (hmt h) -> ~ Mt l -> nth_error (hmt h') l = nth_error (hmt h) l).

Lemma ext_refl G Tp Mt h : ext G Tp Mt h h.
Proof. unfold ext; repeat split; auto. Qed.

Lemma ext_trans G Tp Mt h1 h2 h3 : ext G Tp Mt h1 h2 -> ext G Tp Mt h2 h3 -> ext G Tp Mt h1 h3.
Proof.
  intros (a1 & a2 & a3 & a4 & a5 & a6) (b1 & b2 & b3 & b4 & b5 & b6).
  unfold ext; repeat split; try lia; intros l Hl Hn.
  - rewrite b4 by (auto; lia). auto.
  - rewrite b5 by (auto; lia). auto.
  - rewrite b6 by (auto; lia). auto.
Qed.

Lemma ext_weaken (G Tp Mt G' Tp' Mt' : loc -> Prop) h h' :
  (forall l, G l -> G' l) -> (forall l, Tp l -> Tp' l) -> (forall l, Mt l -> Mt' l) ->
  ext G Tp Mt h h' -> ext G' Tp' Mt' h h'.
Proof.
  intros i1 i2 i3 (a1 & a2 & a3 & a4 & a5 & a6). unfold ext; repeat split; auto.
Qed.

Definition framed (G Tp Mt : loc -> Prop) {A} (m : M A) : Prop := forall h, ext G Tp Mt h (fst (m h)).

Section Rules.
Variables G Tp Mt : loc -> Prop.

Lemma framed_ret {A} (a : A) : framed G Tp Mt (ret a).
Proof. intros h; apply ext_refl. Qed.
Lemma framed_fail {A} e : framed G Tp Mt (@fail T A e).
Proof. intros h; apply ext_refl. Qed.
Lemma framed_lift {A} (r : res A) : framed G Tp Mt (lift r).
Proof. intros h; apply ext_refl. Qed.

Lemma framed_bind {A B} (m : M A) (f : A -> M B) :
  framed G Tp Mt m -> (forall a, framed G Tp Mt (f a)) -> framed G Tp Mt (mbind m f).
Proof.
  intros Hm Hf h. unfold mbind. specialize (Hm h). destruct (m h) as [h1 [a|e]]; simpl in *.
  - eapply ext_trans; [exact Hm | apply Hf].
  - exact Hm.
Qed.

Lemma framed_iterM {A} (f : A -> M unit) l :
  (forall x, In x l -> framed G Tp Mt (f x)) -> framed G Tp Mt (iterM f l).
Proof.
  induction l as [|x xs IH]; intros Hf; simpl.
  - apply framed_ret.
  - apply framed_bind; [apply Hf; left; auto | intros _; apply IH; intros; apply Hf; right; auto].
Qed.

Lemma framed_mapMM {A B} (f : A -> M B) l :
  (forall x, In x l -> framed G Tp Mt (f x)) -> framed G Tp Mt (mapMM f l).
Proof.
  induction l as [|x xs IH]; intros Hf; simpl.
  - apply framed_ret.
  - apply framed_bind; [apply Hf; left; auto|]. intros y.
    apply framed_bind; [apply IH; intros; apply Hf; right; auto|]. intros; apply framed_ret.
Qed.

Lemma framed_gro_get l : framed G Tp Mt (gro_get l).
Proof. intros h; apply ext_refl. Qed.
Lemma framed_top_get l : framed G Tp Mt (top_get l).
Proof. intros h; apply ext_refl. Qed.
Lemma framed_mt_get l : framed G Tp Mt (mt_get l).
Proof. intros h; apply ext_refl. Qed.

Lemma framed_gro_set l c : G l -> framed G Tp Mt (gro_set l c).
Proof.
  intros Hl h. unfold gro_set. destruct (nth_error (hgro h) l) eqn:E; simpl; [|apply ext_refl].
  unfold ext; simpl; rewrite upd_length; repeat split; auto.
  intros l' _ Hn. apply nth_error_upd_other. intros ->; auto.
Qed.
Lemma framed_top_set l c : Tp l -> framed G Tp Mt (top_set l c).
Proof.
  intros Hl h. unfold top_set. destruct (nth_error (htop h) l) eqn:E; simpl; [|apply ext_refl].
  unfold ext; simpl; rewrite upd_length; repeat split; auto.
  intros l' _ Hn. apply nth_error_upd_other. intros ->; auto.
Qed.
Lemma framed_mt_set l c : Mt l -> framed G Tp Mt (mt_set l c).
Proof.
  intros Hl h. unfold mt_set. destruct (nth_error (hmt h) l) eqn:E; simpl; [|apply ext_refl].
  unfold ext; simpl; rewrite upd_length; repeat split; auto.
  intros l' _ Hn. apply nth_error_upd_other. intros ->; auto.
Qed.
Lemma framed_gro_mod l f : G l -> framed G Tp Mt (gro_mod l f).
Proof. intros; unfold gro_mod; apply framed_bind; [apply framed_gro_get | intros; apply framed_gro_set; auto]. Qed.
Lemma framed_top_mod l f : Tp l -> framed G Tp Mt (top_mod l f).
Proof. intros; unfold top_mod; apply framed_bind; [apply framed_top_get | intros; apply framed_top_set; auto]. Qed.

Lemma framed_gro_alloc_list cs : framed G Tp Mt (gro_alloc_list cs).
Proof.
  intros h; unfold ext; simpl; rewrite app_length; repeat split; auto; try lia.
  intros; apply nth_error_app_old; auto.
Qed.
Lemma framed_top_alloc_list cs : framed G Tp Mt (top_alloc_list cs).
Proof.
  intros h; unfold ext; simpl; rewrite app_length; repeat split; auto; try lia.
  intros; apply nth_error_app_old; auto.
Qed.
Lemma framed_mt_alloc c : framed G Tp Mt (mt_alloc c).
Proof.
  intros h; unfold ext; simpl; rewrite app_length; repeat split; auto; try lia.
  intros; apply nth_error_app_old; auto.
Qed.

Lemma framed_view_check t g : framed G Tp Mt (view_check t g).
Proof.
  unfold view_check. apply framed_bind; [apply framed_top_get|]; intros tc.
  apply framed_bind; [apply framed_gro_get|]; intros gc.
  destruct (_ && _); [apply framed_ret | apply framed_fail].
Qed.
Lemma framed_visit tg : framed G Tp Mt (visit tg).
Proof. unfold visit; destruct (fst tg); [apply framed_view_check | apply framed_ret]. Qed.
Lemma framed_residname_check cs : framed G Tp Mt (residname_check cs).
Proof. unfold residname_check; destruct cs; [apply framed_fail|]. destruct (forallb _ _); [apply framed_ret | apply framed_fail]. Qed.

Lemma framed_residue_copy gs : framed G Tp Mt (residue_copy gs).
Proof.
  unfold residue_copy. apply framed_bind; [apply framed_mapMM; intros; apply framed_gro_get|]; intros cs.
  apply framed_bind; [apply framed_gro_alloc_list|]; intros gs'.
  apply framed_bind; [apply framed_residname_check|]; intros; apply framed_ret.
Qed.
Lemma framed_match_check ts gs : framed G Tp Mt (match_check ts gs).
Proof.
  unfold match_check. destruct (negb _); [apply framed_fail|].
  apply framed_iterM; intros; apply framed_view_check.
Qed.
Lemma framed_mol_init mt ts rs : framed G Tp Mt (mol_init mt ts rs).
Proof.
  unfold mol_init. apply framed_bind; [apply framed_match_check|]; intros _.
  apply framed_bind; [apply framed_mapMM; intros; apply framed_residue_copy|]; intros; apply framed_ret.
Qed.
Lemma framed_mtop_copy mt ts : framed G Tp Mt (mtop_copy mt ts).
Proof.
  unfold mtop_copy. apply framed_bind; [apply framed_mt_get|]; intros nm.
  apply framed_bind; [apply framed_mt_alloc|]; intros mt'.
  apply framed_bind; [apply framed_mapMM; intros; apply framed_top_get|]; intros tcs.
  apply framed_bind; [apply framed_top_alloc_list|]; intros; apply framed_ret.
Qed.
(* ---- Alignment objects: the setters write the Alignment's own cell and allocate; nothing else *)
Lemma framed_ali_get l : framed G Tp Mt (ali_get l).
Proof. intros h; apply ext_refl. Qed.
Lemma framed_ali_set l c : framed G Tp Mt (ali_set l c).
Proof.
  intros h. unfold ali_set. destruct (nth_error (hali h) l); simpl; [|apply ext_refl].
  unfold ext; simpl; repeat split; auto.
Qed.
Lemma framed_eq_loop la : forall lb, framed G Tp Mt (eq_loop la lb).
Proof.
  induction la as [|[ta ga] ra IH]; intros lb; simpl; [apply framed_ret|].
  destruct lb as [|[tb gb] rb]; [apply framed_ret|].
  apply framed_bind; [apply framed_view_check|]; intros _.
  apply framed_bind; [apply framed_view_check|]; intros _.
  apply framed_bind; [apply framed_gro_get|]; intros ca.
  apply framed_bind; [apply framed_gro_get|]; intros cb.
  apply framed_bind; [apply framed_top_get|]; intros tca.
  apply framed_bind; [apply framed_top_get|]; intros tcb.
  destruct (atom_eqb _ _ _ _); [apply IH | apply framed_ret].
Qed.
Lemma framed_mol_eq A B : framed G Tp Mt (mol_eq A B).
Proof.
  unfold mol_eq. apply framed_bind; [apply framed_mt_get|]; intros na.
  apply framed_bind; [apply framed_mt_get|]; intros nb.
  destruct (negb _); [apply framed_ret|]. destruct (negb _); [apply framed_ret|]. apply framed_eq_loop.
Qed.
Lemma framed_ali_clear a side : framed G Tp Mt (ali_clear a side).
Proof. unfold ali_clear. apply framed_bind; [apply framed_ali_get | intros; apply framed_ali_set]. Qed.
Lemma framed_ali_assign a side m : framed G Tp Mt (ali_assign a side m).
Proof.
  unfold ali_assign. apply framed_bind; [apply framed_ali_get|]; intros c.
  apply framed_bind.
  - destruct (side_get side c); [destruct (side_get (negb side) c)|]; try apply framed_ret. apply framed_mol_eq.
  - intros ok. destruct ok; [|apply framed_fail].
    apply framed_bind; [apply framed_mol_init|]; intros Y.
    apply framed_bind; [|intros; apply framed_ret].
    destruct Y; try apply framed_fail. apply framed_ali_set.
Qed.
(* ---- copy(new_residues) / deep_copy(new_residues): allocation only *)
Lemma framed_graft_residues src mode i : framed G Tp Mt (graft_residues src mode i).
Proof.
  unfold graft_residues. destruct src; try apply framed_fail.
  - destruct mode; [apply framed_ret | apply framed_mapMM; intros; apply framed_residue_copy].
  - destruct mode; [apply framed_ret | apply framed_mapMM; intros; apply framed_residue_copy].
  - apply framed_bind; [apply framed_lift|]; intros inst. apply framed_mapMM; intros cs _.
    apply framed_bind; [apply framed_gro_alloc_list|]; intros.
    apply framed_bind; [apply framed_residname_check | intros; apply framed_ret].
Qed.
Lemma framed_graft deep mt ts src mode i : framed G Tp Mt (graft deep mt ts src mode i).
Proof.
  unfold graft. apply framed_bind; [apply framed_graft_residues|]; intros rs.
  destruct deep; [|apply framed_mol_init].
  apply framed_bind; [apply framed_mtop_copy | intros; apply framed_mol_init].
Qed.
End Rules.

(* ------------------------------------------------------------------ footprints *)
Definition inG (X : handle) : loc -> Prop := fun l => In l (gro_locs X).
Definition inT (X : handle) : loc -> Prop := fun l => In l (top_locs X).
Definition inMt (X : handle) : loc -> Prop := fun l => In l (mt_locs X).

Lemma targets_in (X : handle) tg : In tg (targets X) ->
  In (snd tg) (gro_locs X) /\ (forall t, fst tg = Some t -> In t (top_locs X)).
Proof.
  destruct X; simpl; try tauto.
  - intros Hin. apply in_map_iff in Hin. destruct Hin as [g [E Hg]]; subst; simpl. split; auto. discriminate.
  - intros Hin. destruct tg as [ot g]; simpl. split.
    + eapply in_combine_r; eauto.
    + intros t ->. apply in_combine_l in Hin. apply in_map_iff in Hin. destruct Hin as [t' [E Ht]].
      inversion E; subst; auto.
Qed.

Section Setters.
Variable X : handle.
Notation FR := (framed (inG X) (inT X) (inMt X)).

Lemma framed_get_positions : FR (get_positions X).
Proof.
  unfold get_positions. apply framed_mapMM; intros tg _.
  apply framed_bind; [apply framed_gro_get | intros; apply framed_ret].
Qed.

Lemma framed_visit_then {A} (l : list ((option loc * loc) * A)) (k : loc -> A -> grocell T -> grocell T) :
  (forall x, In x l -> In (fst x) (targets X)) ->
  FR (iterM (fun tp => mbind (visit (fst tp)) (fun _ => gro_mod (snd (fst tp)) (k (snd (fst tp)) (snd tp)))) l).
Proof.
  intros Hin. apply framed_iterM. intros tp Htp.
  apply framed_bind; [apply framed_visit|]. intros _. apply framed_gro_mod.
  apply (targets_in X (fst tp)). auto.
Qed.

Lemma combine_fst_in {A B} (l : list A) (l' : list B) x : In x (combine l l') -> In (fst x) l.
Proof. destruct x; intros; eapply in_combine_l; eauto. Qed.

Lemma framed_set_positions ps : FR (set_positions X ps).
Proof.
  unfold set_positions. destruct (negb _); [apply framed_fail|].
  apply (framed_visit_then (combine (targets X) ps) (fun _ p => gset_pos p)).
  intros; eapply combine_fst_in; eauto.
Qed.
Lemma framed_set_velocities vs : FR (set_velocities X vs).
Proof.
  unfold set_velocities. destruct vs as [l|].
  - destruct (negb _); [apply framed_fail|].
    apply (framed_visit_then (combine (targets X) l) (fun _ p => gset_vel (Some p))).
    intros; eapply combine_fst_in; eauto.
  - apply framed_iterM. intros tg Htg. apply framed_bind; [apply framed_visit|]. intros _.
    apply framed_gro_mod. apply (targets_in X tg); auto.
Qed.
Lemma framed_set_ids ids : FR (set_ids X ids).
Proof.
  unfold set_ids. destruct (negb _); [apply framed_fail|].
  apply (framed_visit_then (combine (targets X) ids) (fun _ z => gset_atomid z)).
  intros; eapply combine_fst_in; eauto.
Qed.
Lemma framed_do_move d : FR (do_move X d).
Proof. unfold do_move. apply framed_bind; [apply framed_get_positions | intros; apply framed_set_positions]. Qed.
Lemma framed_do_move_to p : FR (do_move_to X p).
Proof.
  unfold do_move_to. apply framed_bind; [apply framed_get_positions|]; intros.
  apply framed_bind; [apply framed_lift | intros; apply framed_set_positions].
Qed.
Lemma framed_do_rotate R : FR (do_rotate X R).
Proof.
  unfold do_rotate. apply framed_bind; [apply framed_get_positions|]; intros.
  apply framed_bind; [apply framed_lift | intros; apply framed_set_positions].
Qed.
Lemma framed_mol_set_resid_at tg z : In tg (targets X) -> FR (mol_set_resid_at tg z).
Proof.
  intros Htg. destruct (targets_in X tg Htg) as [Hg Ht]. unfold mol_set_resid_at.
  apply framed_bind; [apply framed_visit|]; intros _.
  apply framed_bind.
  - destruct (fst tg) eqn:E; [apply framed_top_mod; apply Ht; reflexivity | apply framed_ret].
  - intros _; apply framed_gro_mod; auto.
Qed.
Lemma framed_mol_set_resname_at tg s : In tg (targets X) -> FR (mol_set_resname_at tg s).
Proof.
  intros Htg. destruct (targets_in X tg Htg) as [Hg Ht]. unfold mol_set_resname_at.
  apply framed_bind; [apply framed_visit|]; intros _.
  apply framed_bind.
  - destruct (fst tg) eqn:E; [apply framed_top_mod; apply Ht; reflexivity | apply framed_ret].
  - intros _; apply framed_gro_mod; auto.
Qed.
End Setters.

(* every operation writes only cells of the handle it is applied to (plus cells it allocates) *)
Ltac fr_step :=
  first
  [ apply framed_ret | apply framed_fail | apply framed_lift
  | apply framed_gro_get | apply framed_top_get | apply framed_mt_get
  | apply framed_gro_alloc_list | apply framed_top_alloc_list | apply framed_mt_alloc
  | apply framed_view_check | apply framed_visit | apply framed_residname_check
  | apply framed_residue_copy | apply framed_match_check | apply framed_mol_init | apply framed_mtop_copy
  | apply framed_do_move | apply framed_do_move_to | apply framed_do_rotate
  | apply framed_set_positions | apply framed_set_velocities | apply framed_set_ids
  | (apply framed_mol_set_resid_at; first [assumption | eapply combine_fst_in; eassumption])
  | (apply framed_mol_set_resname_at; first [assumption | eapply combine_fst_in; eassumption])
  | (apply framed_gro_mod; unfold inG; simpl; tauto)
  | (apply framed_top_mod; unfold inT; simpl; tauto)
  | (apply framed_mt_set; unfold inMt; simpl; tauto)
  | match goal with |- framed _ _ _ (match ?l with _ => _ end) => destruct l end
  | (apply framed_bind; [|intros])
  | (apply framed_mapMM; intros)
  | (apply framed_iterM; intros) ].

Lemma exec_framed (X : handle) o : framed (inG X) (inT X) (inMt X) (exec X o).
Proof.
  destruct X, o; simpl; try apply framed_fail; repeat fr_step.
Qed.

End Frame.
