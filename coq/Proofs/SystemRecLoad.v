(* Loading the topologies of a domain file one after the other: state invariant *)
From Coq Require Import List Arith Bool Lia Sorting.Permutation Sorting.Sorted.
Import ListNotations.
From GM Require Import Base.Res Model.SystemRec Proofs.SystemRecScan Proofs.SystemRecDomain Proofs.SystemRecSort.

Definition loaded_of (order : list nat) : nat -> bool := fun s => existsb (Nat.eqb s) order.

Fixpoint index_of (order : list nat) (s : nat) : option nat :=
  match order with
  | [] => None
  | x :: t => if x =? s then Some 0 else option_map S (index_of t s)
  end.

Definition present (s : nat) (runs : list run) : Prop := existsb (is_inst s) runs = true.

Section Spec.
Variable pats : list (list nat).

Definition total_len (rs : list run) : nat := fold_right (fun r n => run_len pats r + n) 0 rs.

(* _molecules_ordered when the species s with idx s = Some i are loaded (i = molecule index) *)
Fixpoint spec_blocks (idx : nat -> option nat) (runs : list run) (pos : nat) : list block :=
  match runs with
  | [] => []
  | r :: rest =>
    (match r with
     | RInst t m => match idx t with Some i => [(i, pos, S m)] | None => [] end
     | ROther _ => []
     end) ++ spec_blocks idx rest (pos + run_len pats r)
  end.

(* the instances of the loaded species, in file order, with their residue ranges *)
Fixpoint expected (idx : nat -> option nat) (runs : list run) (pos : nat) : list inst :=
  match runs with
  | [] => []
  | r :: rest =>
    (match r with
     | RInst t m =>
       match idx t with
       | Some i => map (fun j => (i, pos + j * plen pats t, pos + S j * plen pats t)) (seq 0 (S m))
       | None => []
       end
     | ROther _ => []
     end) ++ expected idx rest (pos + run_len pats r)
  end.

Lemma stream_ext l1 l2 runs : (forall t, l1 t = l2 t) -> stream pats l1 runs = stream pats l2 runs.
Proof.
  intros H. unfold stream. induction runs as [|r rest IH]; simpl; auto. rewrite IH. f_equal.
  destruct r; simpl; auto. rewrite H. reflexivity.
Qed.

Lemma spec_blocks_ext i1 i2 runs pos : (forall t, i1 t = i2 t) -> spec_blocks i1 runs pos = spec_blocks i2 runs pos.
Proof.
  intros H. revert pos. induction runs as [|r rest IH]; intros pos; simpl; auto. rewrite IH. f_equal.
  destruct r; simpl; auto. rewrite H. reflexivity.
Qed.

Lemma stream_app l a b : stream pats l (a ++ b) = stream pats l a ++ stream pats l b.
Proof. unfold stream. apply flat_map_app. Qed.

Lemma total_len_stream l rs : length (stream pats l rs) = total_len rs.
Proof. apply stream_length. Qed.

Lemma run_len_pos r : pats_ok pats -> run_ok pats r -> 1 <= run_len pats r.
Proof.
  intros [Hne _] Hr. destruct r as [s m|k]; simpl; auto.
  specialize (Hne s Hr). unfold plen. destruct (pat pats s); [congruence|]. simpl. lia.
Qed.

Lemma spec_blocks_sorted idx runs pos : pats_ok pats -> Forall (run_ok pats) runs ->
  StronglySorted blt (spec_blocks idx runs pos) /\ Forall (fun b => pos <= bstart b) (spec_blocks idx runs pos).
Proof.
  intros Hok. revert pos. induction runs as [|r rest IH]; intros pos Hr; simpl.
  - split; constructor.
  - inversion Hr as [|? ? Hr1 Hr2]; subst. destruct (IH (pos + run_len pats r) Hr2) as [Hs Hb].
    pose proof (run_len_pos r Hok Hr1) as Hpos.
    assert (Hb' : Forall (fun b => pos < bstart b) (spec_blocks idx rest (pos + run_len pats r))).
    { eapply Forall_impl; [|exact Hb]. intros a Ha; simpl in *; lia. }
    destruct r as [t m|k]; simpl.
    + destruct (idx t); simpl.
      * split; constructor; auto. eapply Forall_impl; [|exact Hb']. intros a Ha; simpl in *; lia.
      * split; auto. eapply Forall_impl; [|exact Hb']. intros a Ha; simpl in *; lia.
    + split; auto. eapply Forall_impl; [|exact Hb']. intros a Ha; simpl in *; lia.
Qed.

Lemma spec_blocks_perm idx i s runs pos : idx s = None ->
  Permutation (spec_blocks (fun t => if t =? s then Some i else idx t) runs pos)
              (spec_blocks idx runs pos ++ spec_new pats i s runs pos).
Proof.
  intros Hs. revert pos. induction runs as [|r rest IH]; intros pos; simpl; auto.
  destruct r as [t m|k]; simpl; auto.
  destruct (t =? s) eqn:E.
  - apply Nat.eqb_eq in E. subst t. rewrite Hs. simpl. apply Permutation_cons_app. apply IH.
  - simpl. rewrite <- app_assoc. apply Permutation_app_head. apply IH.
Qed.

Lemma spec_new_none i s runs pos : Forall (fun r => is_inst s r = false) runs -> spec_new pats i s runs pos = [].
Proof.
  revert pos. induction runs as [|r rest IH]; intros pos H; simpl; auto.
  inversion H; subst. rewrite IH by assumption. destruct r; simpl in *; auto. rewrite H2. reflexivity.
Qed.

Lemma spec_new_app i s a b pos :
  spec_new pats i s (a ++ b) pos = spec_new pats i s a pos ++ spec_new pats i s b (pos + total_len a).
Proof.
  revert pos. induction a as [|r rest IH]; intros pos.
  - simpl. rewrite Nat.add_0_r. reflexivity.
  - cbn [app spec_new]. rewrite IH, <- app_assoc. unfold total_len. cbn [fold_right].
    fold (total_len rest). rewrite Nat.add_assoc. reflexivity.
Qed.

Lemma present_split s runs : present s runs ->
  exists pre m post, runs = pre ++ RInst s m :: post /\ Forall (fun r => is_inst s r = false) pre.
Proof.
  unfold present. induction runs as [|r rest IH]; simpl; [discriminate|].
  destruct (is_inst s r) eqn:E; simpl.
  - intros _. destruct r as [t m|k]; simpl in E; [|discriminate]. apply Nat.eqb_eq in E. subst.
    exists [], m, rest. split; auto.
  - intros H. destruct (IH H) as (pre & m & post & -> & HF). exists (r :: pre), m, post. split; auto.
Qed.

Lemma stream_foreign s p0 ptl l pre : pats_ok pats -> pat pats s = p0 :: ptl ->
  Forall (run_ok pats) pre -> Forall (fun r => is_inst s r = false) pre ->
  Forall (foreign p0) (stream pats l pre).
Proof.
  intros Hok Hp. induction pre as [|r rest IH]; intros H1 H2; simpl; [constructor|].
  inversion H1; subst. inversion H2; subst. apply Forall_app. split.
  - eapply run_foreign; eauto.
  - apply IH; auto.
Qed.

Lemma stream_upd_pre l s pre : Forall (fun r => is_inst s r = false) pre ->
  stream pats (upd l s) pre = stream pats l pre.
Proof.
  induction pre as [|r rest IH]; intros H; simpl; auto. inversion H; subst.
  rewrite run_stream_upd by assumption. f_equal. apply IH; auto.
Qed.

End Spec.

Lemma adjacent_ok_app a b : adjacent_ok (a ++ b) -> adjacent_ok b.
Proof.
  induction a as [|r rest IH]; simpl; auto. intros [_ H]. auto.
Qed.

Lemma index_of_app order s t : ~ In s order ->
  index_of (order ++ [s]) t = if t =? s then Some (length order) else index_of order t.
Proof.
  induction order as [|x rest IH]; intros Hn; simpl.
  - rewrite (Nat.eqb_sym s t). destruct (t =? s); reflexivity.
  - assert (x <> s) by (intros ->; apply Hn; left; auto).
    rewrite IH by (intros Hi; apply Hn; right; auto).
    destruct (x =? t) eqn:E.
    + apply Nat.eqb_eq in E. subst t. apply Nat.eqb_neq in H. rewrite H. reflexivity.
    + destruct (t =? s); reflexivity.
Qed.

Lemma index_of_none order s : ~ In s order -> index_of order s = None.
Proof.
  induction order as [|x rest IH]; intros Hn; simpl; auto.
  assert (x <> s) by (intros ->; apply Hn; left; auto). apply Nat.eqb_neq in H. rewrite H.
  rewrite IH; auto. intros Hi; apply Hn; right; auto.
Qed.

Lemma loaded_of_app order s t : loaded_of (order ++ [s]) t = upd (loaded_of order) s t.
Proof.
  unfold loaded_of, upd. rewrite existsb_app. simpl. rewrite orb_false_r. apply orb_comm.
Qed.

Lemma loaded_of_notin order s : ~ In s order -> loaded_of order s = false.
Proof.
  intros Hn. unfold loaded_of. destruct (existsb (Nat.eqb s) order) eqn:E; auto.
  apply existsb_exists in E as [x [Hx Hx']]. apply Nat.eqb_eq in Hx'. subst. contradiction.
Qed.

Lemma Forall2_len {A B} (R : A -> B -> Prop) l1 l2 : Forall2 R l1 l2 -> length l1 = length l2.
Proof. induction 1; simpl; auto. Qed.

Section Load.
Variables (v : groview) (tops : list top) (pats : list (list nat)) (runs : list run).

(* every instance window of the file matches the topology of its species atom by atom *)
Fixpoint runs_match (rs : list run) (pos : nat) : Prop :=
  match rs with
  | [] => True
  | r :: rest =>
    match r with
    | RInst s m => forall t j, nth_error tops s = Some t -> j <= m ->
        mol_match t (firstn (plen pats s) (skipn (pos + j * plen pats s) (gv_res v))) = true
    | ROther _ => True
    end /\ runs_match rest (pos + run_len pats r)
  end.

Record domain : Prop := {
  d_len : length tops = length pats;
  d_pats : pats_ok pats;
  d_lookup : forall s t, nth_error tops s = Some t -> lookup_pattern v t = Ok (pat pats s);
  d_runs : Forall (run_ok pats) runs;
  d_adj : adjacent_ok runs;
  d_stream : map Some (gv_stream v) = stream pats (fun _ => false) runs;
  d_reslen : length (gv_res v) = length (gv_stream v);
  d_match : runs_match runs 0
}.

Definition mols_ok (order : list nat) (mols : list molinfo) : Prop :=
  Forall2 (fun s mi => nth_error tops s = Some (mi_top mi) /\ mi_nres mi = plen pats s) order mols.

Definition inv (order : list nat) (st : sys) : Prop :=
  s_avail st = stream pats (loaded_of order) runs /\
  mols_ok order (s_mols st) /\
  s_blocks st = spec_blocks pats (index_of order) runs 0.

Lemma runs_match_app a b pos : runs_match (a ++ b) pos -> runs_match b (pos + total_len pats a).
Proof.
  revert pos. induction a as [|r rest IH]; intros pos; simpl.
  - rewrite Nat.add_0_r. auto.
  - intros [_ H]. apply IH in H. rewrite Nat.add_assoc. exact H.
Qed.

Lemma inv_init : domain -> inv [] (sys_init v).
Proof.
  intros D. unfold inv, sys_init; simpl. split; [|split].
  - rewrite (d_stream D). apply stream_ext. reflexivity.
  - constructor.
  - clear D. generalize 0. induction runs as [|r rest IH]; intros pos; simpl; auto.
    rewrite <- IH. destruct r; reflexivity.
Qed.

Lemma load_step order st s t : domain -> inv order st -> ~ In s order -> present s runs ->
  nth_error tops s = Some t ->
  exists st', add_top v st t = Ok st' /\ inv (order ++ [s]) st'.
Proof.
  intros D (Hav & Hm & Hb) Hnin Hpres Ht.
  destruct (present_split s runs Hpres) as (pre & m & post & Hruns & Hpre).
  pose proof (d_pats D) as Hok. pose proof (d_runs D) as Hro.
  rewrite Hruns in Hro. apply Forall_app in Hro as [Hro_pre Hro_suf].
  assert (Hs : s < length pats) by (inversion Hro_suf; subst; assumption).
  destruct (pat pats s) as [|p0 ptl] eqn:Hp; [exfalso; destruct Hok as [Hne _]; apply (Hne s Hs); exact Hp|].
  pose proof (loaded_of_notin order s Hnin) as Hl.
  set (loaded := loaded_of order) in *.
  set (suf := RInst s m :: post) in *.
  set (P := map Some (p0 :: ptl)).
  assert (Hsuf : stream pats loaded suf = P ++ (concat (repeat P m) ++ stream pats loaded post)).
  { unfold suf. cbn [stream flat_map run_stream]. rewrite Hl, Hp. cbn [repeat concat].
    rewrite <- app_assoc. reflexivity. }
  assert (HFpre : Forall (foreign p0) (stream pats loaded pre)).
  { eapply stream_foreign; eauto. }
  assert (Hlen_pre : length (stream pats loaded pre) = total_len pats pre) by apply total_len_stream.
  (* the first match *)
  assert (Hci : check_index (s_avail st) 0 (pat pats s) = Ok (total_len pats pre)).
  { rewrite Hav, Hruns, stream_app. fold suf. rewrite Hp.
    rewrite check_index_foreign by assumption. rewrite Hsuf. unfold P.
    rewrite check_index_match. rewrite Hlen_pre. reflexivity. }
  unfold add_top. rewrite (d_lookup D s t Ht). cbn [bind]. rewrite Hci. cbn [bind].
  (* Molecule(mol_top, residues) accepts the first instance *)
  assert (Hmm : mol_match t (firstn (length (pat pats s)) (skipn (total_len pats pre) (gv_res v))) = true).
  { pose proof (d_match D) as Hmt. rewrite Hruns in Hmt. apply runs_match_app in Hmt.
    destruct Hmt as [Hmt _]. specialize (Hmt t 0 Ht (Nat.le_0_l m)).
    simpl in Hmt. rewrite Nat.add_0_r in Hmt. exact Hmt. }
  rewrite Hmm.
  (* the scan *)
  assert (Hsk : skipn (total_len pats pre) (s_avail st) = stream pats loaded suf).
  { rewrite Hav, Hruns, stream_app, <- Hlen_pre. apply skipn_length_app. }
  assert (Hfn : firstn (total_len pats pre) (s_avail st) = stream pats loaded pre).
  { rewrite Hav, Hruns, stream_app, <- Hlen_pre. apply firstn_length_app. }
  rewrite Hsk, Hfn.
  assert (Hadj : adjacent_ok suf).
  { pose proof (d_adj D) as Ha. rewrite Hruns in Ha. apply adjacent_ok_app in Ha. exact Ha. }
  rewrite (scan_runs pats s p0 ptl (length (s_mols st)) Hp Hok loaded Hl suf (total_len pats pre) true
                     (rev (s_blocks st)) Hro_suf Hadj (or_introl eq_refl)).
  cbn [bind]. eexists. split; [reflexivity|].
  assert (Hlo : length (s_mols st) = length order) by (symmetry; eapply Forall2_len; exact Hm).
  unfold inv. cbn [s_avail s_mols s_blocks]. split; [|split].
  - rewrite (stream_ext pats _ _ runs (loaded_of_app order s)). fold loaded.
    rewrite Hruns, stream_app. fold suf. rewrite (stream_upd_pre pats loaded s pre Hpre). reflexivity.
  - apply Forall2_app; auto. constructor; [|constructor]. cbn [mi_top mi_nres]. split; auto.
    rewrite firstn_length, skipn_length. unfold plen.
    assert (length (gv_res v) = total_len pats runs).
    { rewrite (d_reslen D). rewrite <- (map_length Some), (d_stream D). apply total_len_stream. }
    rewrite H, Hruns. unfold total_len. rewrite fold_right_app. cbn [fold_right].
    fold (total_len pats post).
    assert (forall a, fold_right (fun r n => run_len pats r + n) a pre = total_len pats pre + a).
    { clear. intros a. induction pre as [|r rest IH]; simpl; auto. rewrite IH. lia. }
    rewrite H0. unfold suf. cbn [fold_right run_len]. fold (total_len pats pre). unfold plen.
    generalize (total_len pats pre) (fold_right (fun r n => run_len pats r + n) 0 post) (length (pat pats s)). intros a b c. simpl. lia.
  - rewrite rev_app_distr, !rev_involutive. apply sort_unique.
    + apply spec_blocks_sorted; auto. exact (d_runs D).
    + rewrite (spec_blocks_ext pats _ _ runs 0 (fun t0 => index_of_app order s t0 Hnin)).
      eapply perm_trans; [apply spec_blocks_perm; apply index_of_none; exact Hnin|].
      rewrite Hb. apply Permutation_app_head. rewrite Hlo.
      rewrite Hruns, spec_new_app, spec_new_none by assumption. fold suf. simpl. reflexivity.
Qed.

End Load.
