(* Geometry of Model/Align.v at T := R: the bond table of Molecule.bonds_distance, tree-shaped bond graphs,
   what each proposal kind keeps. *)
From GM Require Import Model.Restraints.
From GM Require Import Proofs.RTac Model.Aux Proofs.AuxR Model.Transform Model.Chi2 Model.MC Proofs.MCR
  Proofs.TransformComb Proofs.TransformR Model.Align Proofs.AlignBase.
Import ListNotations.
Local Open Scope R_scope.

(* ------------------------------------------------------------------ lists *)
Lemma mapM_all_ok {A B} (f : A -> res B) : forall l l', mapM f l = Ok l' -> forall x, In x l -> exists y, f x = Ok y.
Proof.
  induction l as [|a l IH]; simpl; intros l' E x Hx; [contradiction|].
  destruct (f a) as [b|] eqn:Ef; simpl in E; [|discriminate].
  destruct (mapM f l) as [bs|] eqn:Em; simpl in E; [|discriminate].
  destruct Hx as [->|Hx]; [eauto|]. eapply IH; eauto.
Qed.

Lemma nth_res_ok {A} (l : list A) i a : nth_res l i = Ok a <-> nth_error l i = Some a.
Proof. unfold nth_res. destruct (nth_error l i); split; intros E; inversion E; reflexivity. Qed.

Lemma nth_error_map_inv {A B} (f : A -> B) l i b :
  nth_error (map f l) i = Some b -> exists a, nth_error l i = Some a /\ b = f a.
Proof.
  rewrite nth_error_map. destruct (nth_error l i) as [a|]; simpl; intros E; inversion E. eauto.
Qed.

(* ------------------------------------------------------------------ distances *)
Lemma vdist_sqrt (a b : V3 R) : vdist a b = sqrt (vdist2 a b).
Proof. reflexivity. Qed.
Lemma vdist_nonneg (a b : V3 R) : 0 <= vdist a b.
Proof. rewrite vdist_sqrt. apply sqrt_pos. Qed.
Lemma vdist_sym (a b : V3 R) : vdist a b = vdist b a.
Proof. unfold vdist. apply vnorm_vsub_sym. Qed.

(* a map of the points that keeps squared distances *)
Definition isometry (f : V3 R -> V3 R) : Prop := forall a b, vdist2 (f a) (f b) = vdist2 a b.

Lemma isometry_translate d : isometry (fun p => vadd p d).
Proof. intros a b. unfold vdist2. rewrite translate_rigid. reflexivity. Qed.
Lemma isometry_rotate (M : M3 R) c : mmul M (mtrans M) = mid -> isometry (fun p => vadd (vecm (vsub p c) M) c).
Proof. intros HM a b. apply rotate_isometry. exact HM. Qed.

Lemma bond_len_map f (ps : posR) i j b : isometry f -> bond_len ps i j b -> bond_len (map f ps) i j b.
Proof.
  intros Hf (a & a' & A & B & C). exists (f a), (f a'). repeat split.
  - apply map_nth_error; exact A.
  - apply map_nth_error; exact B.
  - change (vnorm (vsub (f a) (f a'))) with (vdist (f a) (f a')). rewrite vdist_sqrt, Hf, <- vdist_sqrt. exact C.
Qed.

(* all pairwise distances of q are those of p *)
Definition dists_kept (p q : posR) : Prop :=
  length q = length p /\
  forall i j a b a' b', nth_error p i = Some a -> nth_error p j = Some b ->
    nth_error q i = Some a' -> nth_error q j = Some b' -> vdist a' b' = vdist a b.

Lemma dists_kept_refl p : dists_kept p p.
Proof. split; [reflexivity|]. intros; congruence. Qed.

Lemma dists_kept_map f p q : isometry f -> dists_kept p q -> dists_kept p (map f q).
Proof.
  intros Hf [Hl Hd]. split; [rewrite map_length; exact Hl|].
  intros i j a b a' b' A B A' B'.
  apply nth_error_map_inv in A'. destruct A' as (a0 & A0 & ->).
  apply nth_error_map_inv in B'. destruct B' as (b0 & B0 & ->).
  rewrite vdist_sqrt, Hf, <- vdist_sqrt. eapply Hd; eauto.
Qed.

(* a translation or a rotation about the centroid (the proposal kinds 0 and 1) is an isometry applied point-wise *)
Lemma rigid_proposal AD am kind (ps test : posR) :
  is_proposal AD am kind ps test -> kind <> 2%nat -> exists f, isometry f /\ test = map f ps.
Proof.
  intros [[_ [d ->]]|[[_ (_ & axis & theta & M & _ & _ & HM & _ & _ & ->)]|[-> _]]] Hk.
  - eexists; split; [apply (isometry_translate d)|reflexivity].
  - eexists; split; [apply (isometry_rotate M (vmean ps) HM)|reflexivity].
  - contradiction Hk; reflexivity.
Qed.

(* ------------------------------------------------------------------ Molecule.bonds_distance *)
Definition dist_entry (ps : posR) (p : V3 R) (j : nat) : res (nat * R) :=
  let* q := nth_res ps j in Ok (j, vdist p q).

Lemma bonds_distance_entry (ps : posR) adj tb : bonds_distance ps adj = Ok tb ->
  length tb = length ps /\
  forall i, (i < length ps)%nat -> exists p nb l,
    nth_error ps i = Some p /\ nth_error adj i = Some nb /\ mapM (dist_entry ps p) nb = Ok l /\
    nth_error tb i = Some (match l with [] => None | _ :: _ => Some l end).
Proof.
  unfold bonds_distance. intros E. split.
  - rewrite (mapM_length _ _ _ E), seq_length. reflexivity.
  - intros i Hi. destruct (mapM_nth _ _ _ i i E (nth_error_seq0 _ _ Hi)) as (o & Ef & Ho).
    apply bind_ok in Ef. destruct Ef as (p & Ep & Ef).
    apply bind_ok in Ef. destruct Ef as (nb & Enb & Ef).
    apply bind_ok in Ef. destruct Ef as (l & El & Ef).
    inversion Ef; subst o. exists p, nb, l. repeat split; auto; apply nth_res_ok; assumption.
Qed.

Lemma tbl_get_iff (tb : tableR) i l : tbl_get tb i = Ok l <-> nth_error tb i = Some (Some l).
Proof.
  split; [apply tbl_get_ok|]. intros E. unfold tbl_get. rewrite E. reflexivity.
Qed.

Lemma bonded_iff (ps : posR) adj tb : bonds_distance ps adj = Ok tb -> forall i j b,
  bonded tb i j b <->
  exists p q nb, nth_error ps i = Some p /\ nth_error ps j = Some q /\ nth_error adj i = Some nb /\
                 In j nb /\ b = vdist p q.
Proof.
  intros E i j b. destruct (bonds_distance_entry _ _ _ E) as [Hlen Hent]. split.
  - intros (l & Hg & Hin).
    assert (Hi : (i < length ps)%nat) by (rewrite <- Hlen; eapply tbl_get_lt; eauto).
    destruct (Hent i Hi) as (p & nb & l0 & Hp & Hnb & Hm & Ht).
    apply tbl_get_iff in Hg. rewrite Hg in Ht. inversion Ht as [Hl].
    assert (l0 = l) by (destruct l0; [discriminate|inversion Hl; reflexivity]). subst l0.
    apply (mapM_In _ _ _ Hm) in Hin. destruct Hin as (x & Hx & Hd).
    unfold dist_entry in Hd. apply bind_ok in Hd. destruct Hd as (q & Hq & Hd). inversion Hd; subst.
    exists p, q, nb. repeat split; auto. apply nth_res_ok; assumption.
  - intros (p & q & nb & Hp & Hq & Hnb & Hin & ->).
    assert (Hi : (i < length ps)%nat) by (apply nth_error_Some; congruence).
    destruct (Hent i Hi) as (p' & nb' & l0 & Hp' & Hnb' & Hm & Ht).
    assert (p' = p) by congruence. assert (nb' = nb) by congruence. subst p' nb'.
    assert (Hl : In (j, vdist p q) l0).
    { apply (mapM_In _ _ _ Hm). exists j. split; [exact Hin|].
      unfold dist_entry. apply nth_res_ok in Hq. rewrite Hq. reflexivity. }
    exists l0. split; [|exact Hl]. apply tbl_get_iff. rewrite Ht. destruct l0; [contradiction|reflexivity].
Qed.

(* the table IS the geometry it was computed from *)
Lemma table_is_geometry (ps : posR) adj tb : bonds_distance ps adj = Ok tb ->
  forall i j b, bonded tb i j b -> bond_len ps i j b.
Proof.
  intros E i j b Hb. apply (bonded_iff _ _ _ E) in Hb.
  destruct Hb as (p & q & nb & Hp & Hq & _ & _ & ->). exists p, q. repeat split; auto.
Qed.

Lemma entries_from_count : forall (tb : tableR) (adj : list (list nat)) i,
  Forall2 (fun (o : option (list (nat * R))) (nb : list nat) =>
             length (match o with Some l => l | None => [] end) = length nb) tb adj ->
  length (entries_from i tb) = length (concat adj).
Proof.
  intros tb adj i Hf. revert i. induction Hf as [|o nb tb' adj' Ho Hf IH]; intros i; [reflexivity|].
  simpl. rewrite !app_length, IH. f_equal. destruct o; [rewrite map_length|]; exact Ho.
Qed.

Lemma entries_count (ps : posR) adj tb : bonds_distance ps adj = Ok tb -> length adj = length ps ->
  length (entries tb) = length (concat adj).
Proof.
  intros E Hla. destruct (bonds_distance_entry _ _ _ E) as [Hlen Hent].
  unfold entries. apply entries_from_count. apply Forall2_nth; [congruence|].
  intros i o nb Ho Hnb.
  assert (Hi : (i < length ps)%nat) by (rewrite <- Hlen; apply nth_error_Some; congruence).
  destruct (Hent i Hi) as (p & nb' & l & _ & Hnb' & Hm & Ht).
  assert (nb' = nb) by congruence. subst nb'. rewrite Ho in Ht. inversion Ht; subst o.
  rewrite <- (mapM_length _ _ _ Hm). destruct l; reflexivity.
Qed.

(* ------------------------------------------------------------------ tree-shaped bond graphs *)
(* adj[i] = the atoms bonded to atom i (any order) *)
Inductive areach (adj : list (list nat)) (k : nat) : nat -> Prop :=
| areach_refl : areach adj k k
| areach_step j m nb : areach adj k j -> nth_error adj j = Some nb -> In m nb -> areach adj k m.

(* a tree on n atoms: one neighbour list per atom, symmetric, every atom reachable from atom 0,
   2(n-1) directed entries = n-1 bonds (acyclicity follows by counting and is never stated) *)
Record tree_graph (adj : list (list nat)) (n : nat) : Prop := {
  tg_len : length adj = n;
  tg_sym : forall i j nb, nth_error adj i = Some nb -> In j nb -> exists nb', nth_error adj j = Some nb' /\ In i nb';
  tg_conn : forall i, (i < n)%nat -> areach adj 0 i;
  tg_count : length (concat adj) = (2 * (n - 1))%nat }.

Lemma areach_trans adj k j m : areach adj k j -> areach adj j m -> areach adj k m.
Proof. intros H1 H2. induction H2; [exact H1|]. eapply areach_step; eauto. Qed.

Lemma areach_sym adj k i :
  (forall i j nb, nth_error adj i = Some nb -> In j nb -> exists nb', nth_error adj j = Some nb' /\ In i nb') ->
  areach adj k i -> areach adj i k.
Proof.
  intros Hs H. induction H as [|j m nb H IH Hnb Hin]; [constructor|].
  destruct (Hs j m nb Hnb Hin) as (nb' & Hnb' & Hin').
  eapply areach_trans; [|exact IH]. eapply areach_step; [constructor|exact Hnb'|exact Hin'].
Qed.

Lemma areach_reach (ps : posR) adj tb k i : bonds_distance ps adj = Ok tb -> length adj = length ps ->
  areach adj k i -> reach tb k i.
Proof.
  intros E Hla H. induction H as [|j m nb H IH Hnb Hin]; [constructor|].
  destruct (bonds_distance_entry _ _ _ E) as [Hlen Hent].
  assert (Hj : (j < length ps)%nat) by (rewrite <- Hla; apply nth_error_Some; congruence).
  destruct (Hent j Hj) as (p & nb' & l & Hp & Hnb' & Hm & _).
  assert (nb' = nb) by congruence. subst nb'.
  destruct (mapM_all_ok _ _ _ Hm m Hin) as (y & Hy).
  unfold dist_entry in Hy. apply bind_ok in Hy. destruct Hy as (q & Hq & _). apply nth_res_ok in Hq.
  eapply reach_step; [exact IH|]. apply (bonded_iff _ _ _ E). exists p, q, nb. repeat split; auto.
Qed.

(* what the single-atom move needs of the table (hypotheses of C07_tree, for every moved atom) *)
Record table_tree (tb : tableR) (n : nat) : Prop := {
  tt_len : length tb = n;
  tt_sym : forall i j b, bonded tb i j b -> bonded tb j i b;
  tt_reach : forall k i, (k < n)%nat -> (i < n)%nat -> reach tb k i;
  tt_count : length (entries tb) = (2 * (n - 1))%nat;
  tt_nonneg : forall i j b, bonded tb i j b -> 0 <= b }.

Lemma table_tree_of (ps : posR) adj tb : bonds_distance ps adj = Ok tb -> tree_graph adj (length ps) ->
  table_tree tb (length ps).
Proof.
  intros E [Hla Hsym Hconn Hcount]. destruct (bonds_distance_entry _ _ _ E) as [Hlen _]. constructor.
  - exact Hlen.
  - intros i j b Hb. apply (bonded_iff _ _ _ E) in Hb. destruct Hb as (p & q & nb & Hp & Hq & Hnb & Hin & ->).
    destruct (Hsym i j nb Hnb Hin) as (nb' & Hnb' & Hin').
    apply (bonded_iff _ _ _ E). exists q, p, nb'. repeat split; auto. apply vdist_sym.
  - intros k i Hk Hi. apply (areach_reach ps adj tb k i E Hla).
    eapply areach_trans; [apply areach_sym; [exact Hsym|apply Hconn; exact Hk]|apply Hconn; exact Hi].
  - rewrite (entries_count _ _ _ E Hla). exact Hcount.
  - intros i j b Hb. apply (bonded_iff _ _ _ E) in Hb. destruct Hb as (p & q & _ & _ & _ & _ & _ & ->).
    apply vdist_nonneg.
Qed.

(* ------------------------------------------------------------------ what one proposal keeps *)
Section Steps.
Variable calc : chi2_calc R.
Variable tb : tableR.
Variable ss : R.
Variable n : nat.

(* every tabulated bond has its tabulated length *)
Definition bonds_kept (c : posR) : Prop :=
  length c = n /\ forall i j b, bonded tb i j b -> bond_len c i j b.

Lemma atom_move_inv a (c c' : posR) : atom_move tb ss a c = Ok c' ->
  exists k d, move_mol_atom c tb k d = Ok c'.
Proof.
  destruct a as [[[k u] neg] g]. unfold atom_move. intros E.
  apply bind_ok in E. destruct E as (d & _ & E). eauto.
Qed.

Lemma tree_step : table_tree tb n -> forall kind p c c',
  propose cos sin calc tb ss kind p c = Ok c' -> bonds_kept c -> bonds_kept c'.
Proof.
  intros [Hlen Hsym Hreach Hcount Hnn] kind p c c' E [Hl Hb].
  destruct (propose_geo_of _ _ _ _ _ _ _ _ _ E) as [Eg _].
  pose proof (propose_geo_kinds _ _ _ _ _ _ Eg) as Hp.
  destruct (Nat.eq_dec kind 2) as [->|Hk].
  - destruct Hp as [[Hk _]|[[Hk _]|[_ [a Ha]]]]; try discriminate.
    destruct (atom_move_inv _ _ _ Ha) as (k & d & Em).
    destruct (moved_atom _ _ _ _ _ Em) as [Hl' (pk & Hpk & _)].
    assert (Hkn : (k < length c)%nat) by (apply nth_error_Some; congruence).
    split; [congruence|].
    assert (Ht : forall i j b, bonded tb i j b -> 0 <= b -> bond_len c' i j b).
    { destruct (tree_bonds c tb k d c') as [_ Ht]; [congruence|exact Hsym| |rewrite Hl; exact Hcount|exact Em|exact Ht].
      intros i Hi. apply Hreach; lia. }
    intros i j b Hbd. apply Ht; [exact Hbd|eapply Hnn; exact Hbd].
  - destruct (rigid_proposal _ _ _ _ _ Hp Hk) as (f & Hf & ->).
    split; [rewrite map_length; exact Hl|].
    intros i j b Hbd. apply bond_len_map; auto.
Qed.

Lemma rigid_step (c0 : posR) sim : ~ In 2%nat sim -> forall kind p c c', In kind sim ->
  propose cos sin calc tb ss kind p c = Ok c' -> dists_kept c0 c -> dists_kept c0 c'.
Proof.
  intros Hno kind p c c' Hin E Hd.
  destruct (propose_geo_of _ _ _ _ _ _ _ _ _ E) as [Eg _].
  pose proof (propose_geo_kinds _ _ _ _ _ _ Eg) as Hp.
  assert (Hk : kind <> 2%nat) by (intros ->; contradiction).
  destruct (rigid_proposal _ _ _ _ _ Hp Hk) as (f & Hf & ->).
  apply dists_kept_map; assumption.
Qed.

End Steps.
