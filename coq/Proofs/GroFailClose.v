(* C14, "part-way through closing": a writer that announced N atoms, wrote fewer records and reached
   close() - which raises IOError before touching the file - leaves a file that the reader rejects. *)
From Coq Require Import List Ascii NArith ZArith Bool Arith Lia.
From GM Require Import Base.Res Base.StrGro Gen.SrcConsts Model.GroCodec Model.GroFile
  Proofs.GroStr Proofs.GroCodecP Proofs.GroReadP Proofs.GroWriteP Proofs.GroMain.
Import ListNotations.
Local Open Scope nat_scope.

Lemma w_run_keep_app st a b st' : w_run st a = Ok st' -> w_run_keep st (a ++ b) = w_run_keep st' b.
Proof.
  revert st; induction a as [|o a IH]; intros st H; simpl in *.
  - inversion H. reflexivity.
  - destruct (w_step st o) as [s1|e]; simpl in H; [|discriminate]. apply IH, H.
Qed.

Lemma failing_close c w d vel recs N :
  wd_of c = (w, d) -> 1 <= d -> d + 4 <= w -> title_ok c -> box_ok (c_box c) ->
  Forall (rec_ok w vel) recs ->
  c_natoms c = Some N -> (Z.of_nat (length recs) < N)%Z ->
  exists f, file_left c (write_ops recs) = Ok (f, Some EIO) /\
    ((Z.of_nat (length f) + N * Z.of_nat (line_len w vel + 1) < SEEK_LIMIT)%Z -> read_gro f = Err EIO).
Proof.
  intros Hwd Hd Hw Ht Hb Hr HN Hlt.
  destruct recs as [|r0 rest] eqn:E.
  - (* nothing written: close() raises on the count, the file is empty *)
    exists []. split; [|intros _; apply read_empty].
    unfold file_left, write_ops. rewrite (w_start_ok c Ht Hb). cbn [bind map app close_ops w_run_keep w_step wclosed].
    unfold w_count. cbn [wnat wcur]. rewrite HN.
    assert (Hne : (N =? Z.of_nat 0)%Z = false) by (apply Z.eqb_neq; simpl in Hlt; lia).
    rewrite Hne. reflexivity.
  - rewrite <- E in *.
    set (n := length recs) in *.
    (* the same configuration with the right count is a run of the domain *)
    set (c' := mkwconf (c_title c) (Some (Z.of_nat n)) (c_fmt c) (c_box c)).
    assert (H' : run_ok c' w d vel recs).
    { constructor.
      - exact Hwd.
      - exact Hd.
      - exact Hw.
      - exact Ht.
      - exact Hb.
      - reflexivity.
      - exact Hr.
      - rewrite E. discriminate. }
    assert (Hv : Forall (fun r => has_vel r = vel) recs) by exact (recs_vel c' w d vel recs H').
    assert (Hl : Forall (fun r => length (line_of w d r) = line_len w vel) recs) by exact (recs_len c' w d vel recs H').
    destruct (run_records_gen c w d vel (line_len w vel) recs n Hwd Ht Hb Hv Hl) as (st0 & Hs0 & Hrun).
    { unfold n. rewrite E. simpl. lia. }
    { unfold room. rewrite HN. fold n. lia. }
    unfold n in Hrun. rewrite firstn_all in Hrun. fold n in Hrun.
    exists (file_w c w d recs). split.
    + unfold file_left, write_ops. rewrite Hs0. cbn [bind].
      rewrite (w_run_keep_app _ _ _ _ Hrun).
      cbn [close_ops w_run_keep w_step]. change (wclosed (st_w c w d vel (line_len w vel) recs)) with false. cbv iota.
      unfold w_count. change (wnat (st_w c w d vel (line_len w vel) recs)) with (c_natoms c).
      change (wcur (st_w c w d vel (line_len w vel) recs)) with n. rewrite HN.
      assert (Hne : (N =? Z.of_nat n)%Z = false) by (apply Z.eqb_neq; lia).
      rewrite Hne. reflexivity.
    + intros Hlim.
      pose proof (title_of_ok c Ht) as Hnl.
      pose proof (lines_good c' w d vel recs H' recs Hr) as Hlg.
      assert (Hc : py_int (fmt_Z N ++ [NL]) = Ok N).
      { change (fmt_Z N) with (lpad 0 (fmt_Z N)). apply py_int_lpad; [lia|reflexivity]. }
      assert (Hcnl : no_nl (fmt_Z N)).
      { change (fmt_Z N) with (lpad 0 (fmt_Z N)). apply no_nl_lpad_int. lia. }
      assert (El : lines_of w d recs = line_of w d r0 :: lines_of w d rest) by (rewrite E; reflexivity).
      assert (Hshape : file_w c w d recs =
                gro_text (title_of c) (fmt_Z N) (line_of w d r0 :: lines_of w d rest) []).
      { unfold file_w, header0, count0, gro_text. rewrite HN, El, app_nil_r, <- !app_assoc. reflexivity. }
      rewrite El in Hlg.
      rewrite Hshape in Hlim |- *.
      apply (read_rejected (title_of c) (fmt_Z N) (line_of w d r0) (lines_of w d rest) []
               N (w, vel) (line_len w vel) Hnl Hcnl Hc Hlg (first_line_fmt c' w d vel recs H' r0 rest E)).
      * assert (Hk : length (line_of w d r0 :: lines_of w d rest) = n).
        { rewrite <- El. unfold lines_of. apply map_length. }
        rewrite Hk. lia.
      * reflexivity.
      * unfold gro_text in Hlim. rewrite !app_length in Hlim. cbn [length] in Hlim.
        rewrite !Nat2Z.inj_add in Hlim. rewrite !Nat2Z.inj_add. cbn [Z.of_nat] in *. lia.
Qed.

(* D18: once the announced count is reached, writeline refuses the record.  For a run of the domain whose
   count N = number of records was announced, any operation list that goes on with a further record stops
   there with IOError; nothing was written, the N records are on disk without a box line, and that file is
   rejected (it is the crash point "before close" of C14_crash_points). *)
Lemma overfull_refused c w d vel recs extra more : run_ok c w d vel recs ->
  c_natoms c = Some (Z.of_nat (length recs)) ->
  exists f0, write_gro c recs = Ok f0 /\
    ((Z.of_nat (length f0) < SEEK_LIMIT)%Z ->
     exists f, file_left c (map OpRec recs ++ OpRec extra :: more) = Ok (f, Some EIO) /\
               read_gro f = Err EIO).
Proof.
  intros H HN. destruct (crash_points c w d vel recs H) as (f0 & Hw & Hcp).
  exists f0. split; [exact Hw|]. intros Hlim.
  set (n := length recs) in *.
  assert (Hn : 1 <= n) by (apply (n_pos c w d vel recs H)).
  destruct (Hcp Hlim n) as (fj & Hfj & Hrej).
  { unfold write_ops, close_ops. rewrite app_length, map_length. fold n. simpl. lia. }
  destruct (run_records c w d vel recs H n) as (st0 & Hs0 & Hrun); [fold n; lia|].
  unfold n in Hrun. rewrite firstn_all in Hrun. fold n in Hrun.
  assert (Efj : fj = wf (st_w c w d vel (line_len w vel) recs)).
  { unfold file_after, write_ops in Hfj.
    rewrite firstn_map_app in Hfj by (fold n; lia). unfold n in Hfj. rewrite firstn_all in Hfj.
    rewrite Hs0 in Hfj. cbn [bind] in Hfj. rewrite Hrun in Hfj. cbn [bind] in Hfj. inversion Hfj. reflexivity. }
  exists fj. split; [|exact Hrej].
  unfold file_left. rewrite Hs0. cbn [bind].
  rewrite (w_run_keep_app _ _ _ _ Hrun).
  cbn [w_run_keep w_step]. unfold w_writeline.
  change (wset (st_w c w d vel (line_len w vel) recs))
    with (Some (mkwsetup (length (header0 c)) w d vel)).
  cbv iota. unfold w_record, count_reached.
  change (wnat (st_w c w d vel (line_len w vel) recs)) with (c_natoms c).
  change (wcur (st_w c w d vel (line_len w vel) recs)) with n.
  rewrite HN. fold n. rewrite Z.leb_refl.
  unfold w_after_fail.
  change (wset (st_w c w d vel (line_len w vel) recs))
    with (Some (mkwsetup (length (header0 c)) w d vel)).
  rewrite Efj. reflexivity.
Qed.
