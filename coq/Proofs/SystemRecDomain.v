(* The property's domain at the level of residue kinds, and what one scan does on it *)
From Coq Require Import List Arith Bool Lia.
Import ListNotations.
From GM Require Import Base.Res Model.SystemRec Proofs.SystemRecScan.

(* The file as the list of its maximal runs: [RInst s m] = S m consecutive whole instances of
   species s; [ROther k] = one residue of kind k that belongs to no species *)
Inductive run := RInst (s m : nat) | ROther (k : nat).

Definition is_inst (s : nat) (r : run) : bool :=
  match r with RInst t _ => t =? s | ROther _ => false end.

(* maximality: two neighbouring runs are never of the same species *)
Fixpoint adjacent_ok (runs : list run) : Prop :=
  match runs with
  | [] => True
  | r :: rest =>
    match r, rest with
    | RInst s _, RInst t _ :: _ => s <> t
    | _, _ => True
    end /\ adjacent_ok rest
  end.

Definition upd (loaded : nat -> bool) (s : nat) : nat -> bool := fun t => (t =? s) || loaded t.

Section Dom.
Variable pats : list (list nat).     (* pattern of residue kinds of each species *)

Definition pat (s : nat) : list nat := nth s pats [].
Definition plen (s : nat) : nat := length (pat s).

Definition run_len (r : run) : nat :=
  match r with RInst s m => S m * plen s | ROther _ => 1 end.

(* the array _available_mgro_ordered when the species in [loaded] have been consumed *)
Definition run_stream (loaded : nat -> bool) (r : run) : list (option nat) :=
  match r with
  | RInst s m => if loaded s then repeat None (S m * plen s)
                 else concat (repeat (map Some (pat s)) (S m))
  | ROther k => [Some k]
  end.
Definition stream (loaded : nat -> bool) (runs : list run) : list (option nat) :=
  flat_map (run_stream loaded) runs.

Definition pats_ok : Prop :=
  (forall s, s < length pats -> pat s <> []) /\
  (forall s t k, s <> t -> In k (pat s) -> ~ In k (pat t)).

Definition run_ok (r : run) : Prop :=
  match r with
  | RInst s _ => s < length pats
  | ROther k => forall s, ~ In k (pat s)
  end.

(* the blocks one scan for species s (molecule index idx) appends *)
Fixpoint spec_new (idx s : nat) (runs : list run) (pos : nat) : list block :=
  match runs with
  | [] => []
  | r :: rest =>
    (match r with
     | RInst t m => if t =? s then [(idx, pos, S m)] else []
     | ROther _ => []
     end) ++ spec_new idx s rest (pos + run_len r)
  end.

Lemma concat_repeat_length {A} (l : list A) n : length (concat (repeat l n)) = n * length l.
Proof. induction n; simpl; auto. rewrite app_length, IHn. reflexivity. Qed.

Lemma run_stream_length loaded r : length (run_stream loaded r) = run_len r.
Proof.
  destruct r as [s m|k]; simpl; auto.
  destruct (loaded s).
  - rewrite repeat_length. reflexivity.
  - change (length (concat (repeat (map Some (pat s)) (S m))) = S m * plen s).
    rewrite concat_repeat_length, map_length. reflexivity.
Qed.

Lemma stream_length loaded runs : length (stream loaded runs) = fold_right (fun r n => run_len r + n) 0 runs.
Proof.
  induction runs as [|r rest IH]; simpl; auto. rewrite app_length, run_stream_length, IH. reflexivity.
Qed.

Lemma run_stream_upd loaded s r : is_inst s r = false ->
  run_stream (upd loaded s) r = run_stream loaded r.
Proof.
  destruct r as [t m|k]; simpl; auto. intros H. unfold upd. rewrite H. reflexivity.
Qed.

Lemma in_concat_repeat {A} (x : A) l n : In x (concat (repeat l n)) -> In x l.
Proof. induction n; simpl; [tauto|]. rewrite in_app_iff. tauto. Qed.

Section Species.
Variables (s p0 : nat) (ptl : list nat) (idx : nat).
Hypothesis Hpat : pat s = p0 :: ptl.
Hypothesis Hok : pats_ok.

Lemma p0_in : In p0 (pat s).
Proof. rewrite Hpat. left; reflexivity. Qed.

Lemma run_foreign loaded r : run_ok r -> is_inst s r = false ->
  Forall (foreign p0) (run_stream loaded r) /\ run_stream loaded r <> [].
Proof.
  destruct Hok as [Hne Hdisj].
  destruct r as [t m|k]; simpl; intros Hr Hi.
  - apply Nat.eqb_neq in Hi.
    assert (Hpt : pat t <> []) by (apply Hne; exact Hr).
    destruct (loaded t).
    + split.
      * apply Forall_forall. intros x Hx. apply repeat_spec in Hx. subst. reflexivity.
      * unfold plen. destruct (pat t); [congruence|]. simpl. discriminate.
    + split.
      * apply Forall_forall. intros x Hx.
        change (In x (concat (repeat (map Some (pat t)) (S m)))) in Hx.
        apply in_concat_repeat in Hx. apply in_map_iff in Hx as [k [<- Hk]].
        unfold foreign. simpl. apply Nat.eqb_neq. intros ->.
        apply (Hdisj t s p0); auto. apply p0_in.
      * destruct (pat t); [congruence|]. simpl. discriminate.
  - split; [|discriminate]. constructor; [|constructor].
    unfold foreign. simpl. apply Nat.eqb_neq. intros ->. apply (Hr s). apply p0_in.
Qed.

Lemma scan_runs loaded : loaded s = false ->
  forall runs pos nb acc, Forall run_ok runs -> adjacent_ok runs ->
  (nb = true \/ match runs with r :: _ => is_inst s r = false | [] => True end) ->
  find_all (stream loaded runs) pos 0 (pat s) idx nb acc =
  Ok (stream (upd loaded s) runs, rev (spec_new idx s runs pos) ++ acc).
Proof.
  intros Hl. induction runs as [|r rest IH]; intros pos nb acc Hro Hadj Hnb.
  - reflexivity.
  - inversion Hro as [|? ? Hr Hro']; subst.
    destruct Hadj as [Hhd Hadj'].
    destruct (is_inst s r) eqn:Hi.
    + (* a run of the species being loaded: nb must be true *)
      destruct Hnb as [->|Hnb]; [|congruence].
      destruct r as [t m|k]; simpl in Hi; [|discriminate]. apply Nat.eqb_eq in Hi. subst t.
      cbn [stream flat_map run_stream]. rewrite Hl. rewrite Hpat.
      rewrite find_all_run. rewrite <- Hpat.
      rewrite IH; auto.
      * cbn [bind]. assert (Hu : upd loaded s s = true) by (unfold upd; rewrite Nat.eqb_refl; reflexivity).
        rewrite Hu. cbn [spec_new]. rewrite Nat.eqb_refl. cbn [app rev run_len].
        unfold plen, stream. rewrite <- app_assoc. reflexivity.
      * right. destruct rest as [|[t m'|k] rest']; simpl; auto. apply Nat.eqb_neq. auto.
    + destruct (run_foreign loaded r Hr Hi) as [HF Hne].
      cbn [stream flat_map]. rewrite Hpat. rewrite find_all_foreign by assumption.
      rewrite <- Hpat. rewrite run_stream_length. fold (stream loaded rest).
      rewrite IH; auto. cbn [bind].
      rewrite run_stream_upd by assumption. fold (stream (upd loaded s) rest).
      cbn [spec_new]. replace (match r with RInst t m => if t =? s then [(idx, pos, S m)] else [] | ROther _ => [] end) with (@nil block).
      * reflexivity.
      * destruct r as [t m|k]; simpl in *; [rewrite Hi|]; reflexivity.
Qed.

End Species.
End Dom.
