(* Assembly: the theorems of C13 and the crash-point theorem of C14. *)
From Coq Require Import List Ascii NArith ZArith Bool Arith Lia.
From GM Require Import Base.Res Base.StrGro Gen.SrcConsts Model.GroCodec Model.GroFile
  Proofs.GroStr Proofs.GroCodecP Proofs.GroReadP Proofs.GroWriteP.
Import ListNotations.
Local Open Scope nat_scope.

(* ------------------------------------------------------------------ small facts *)
Lemma w_run_app st a b : w_run st (a ++ b) = (let* st' := w_run st a in w_run st' b).
Proof.
  revert st; induction a as [|o a IH]; intros st; simpl; [reflexivity|].
  destruct (w_step st o); simpl; [apply IH|reflexivity].
Qed.

Lemma dump_ok box : length box = 9 -> exists line, dump_lattice_gro box = Ok line.
Proof.
  intros H. destruct box as [|a0 [|a1 [|a2 [|a3 [|a4 [|a5 [|a6 [|a7 [|a8 [|]]]]]]]]]]; try discriminate.
  eexists. reflexivity.
Qed.

Lemma no_nl_lpad_int w z : (0 <= z)%Z -> no_nl (lpad w (fmt_Z z)).
Proof.
  intros H. unfold lpad. apply no_nl_app. split; [apply no_nl_repeat_sp|].
  rewrite fmt_Z_nonneg by assumption. apply no_nl_digits, to_digits_digits.
Qed.

Lemma py_int_blank l : forallb is_space_c l = true -> py_int l = Err EValue.
Proof.
  intros H. unfold py_int, strip_c.
  replace l with (l ++ [] ++ []) by (rewrite !app_nil_r; reflexivity).
  rewrite strip_with_mid by auto. reflexivity.
Qed.

Lemma firstn_map_app {A B} (f : A -> B) (l : list A) (t : list B) j : j <= length l ->
  firstn j (map f l ++ t) = map f (firstn j l).
Proof.
  intros H. rewrite firstn_app, map_length. replace (j - length l) with 0 by lia.
  simpl. rewrite app_nil_r. apply firstn_map.
Qed.

Lemma Forall_firstn' {A} (P : A -> Prop) l j : Forall P l -> Forall P (firstn j l).
Proof.
  intros H. revert j. induction H; intros j; destruct j; simpl; constructor; auto.
Qed.

(* the states reached while writing: after the first j records, 1 <= j <= n *)
Lemma run_records_gen c w d vel L recs j :
  wd_of c = (w, d) -> title_ok c -> box_ok (c_box c) ->
  Forall (fun r => has_vel r = vel) recs -> Forall (fun r => length (line_of w d r) = L) recs ->
  1 <= j <= length recs -> room c (length recs) ->
  exists st0, w_start c = Ok st0 /\
    w_run st0 (map OpRec (firstn j recs)) = Ok (st_w c w d vel L (firstn j recs)).
Proof.
  intros Hwd Ht Hb Hv Hl Hj Hroom. eexists. split; [apply (w_start_ok c Ht Hb)|].
  destruct recs as [|r0 rest]; [simpl in Hj; lia|].
  destruct j as [|j']; [lia|]. cbn [firstn map w_run w_step].
  apply Forall_cons_iff in Hv as [Hv0 Hvr]. apply Forall_cons_iff in Hl as [Hl0 Hlr].
  rewrite (w_setup_ok c w d vel L Hwd Ht) by (assumption || (apply (room_le c (length (r0 :: rest))); [simpl; lia|assumption])).
  cbn [bind]. rewrite (w_run_recs c w d vel).
  - reflexivity.
  - apply (room_le c (length (r0 :: rest))); [|assumption]. simpl in *. rewrite firstn_length. lia.
  - apply Forall_firstn'; assumption.
Qed.

(* ------------------------------------------------------------------ the domain *)
(* count declared (then equal to the number of records) or left to close (then below 10^9,
   the width of the back-filled field) *)
Definition count_ok (c : wconf) (n : nat) : Prop :=
  match c_natoms c with
  | None => (Z.of_nat n < 1000000000)%Z
  | Some k => k = Z.of_nat n
  end.

Record run_ok (c : wconf) (w d : nat) (vel : bool) (recs : list grec) : Prop := {
  ro_fmt : wd_of c = (w, d);
  ro_d : 1 <= d;
  ro_w : d + 4 <= w;
  ro_title : title_ok c;
  ro_box : box_ok (c_box c);
  ro_count : count_ok c (length recs);
  ro_recs : Forall (rec_ok w vel) recs;
  ro_nonempty : recs <> []
}.

Section Main.
  Variables (c : wconf) (w d : nat) (vel : bool) (recs : list grec).
  Hypothesis H : run_ok c w d vel recs.

  Let n := length recs.
  Let L := line_len w vel.
  Let title := title_of c.
  Let box := box_of (c_box c).

  Lemma recs_vel : Forall (fun r => has_vel r = vel) recs.
  Proof. eapply Forall_impl; [|exact (ro_recs _ _ _ _ _ H)]. intros r (_ & _ & _ & Hv). exact Hv. Qed.
  Lemma recs_len : Forall (fun r => length (line_of w d r) = L) recs.
  Proof.
    eapply Forall_impl; [|exact (ro_recs _ _ _ _ _ H)]. intros r (_ & _ & Hf & Hv).
    unfold L. rewrite <- Hv. apply line_length; auto using (ro_d _ _ _ _ _ H), (ro_w _ _ _ _ _ H).
  Qed.
  Lemma n_pos : 1 <= n.
  Proof. unfold n. pose proof (ro_nonempty _ _ _ _ _ H). destruct recs; [contradiction|simpl; lia]. Qed.

  Lemma lines_good (rs : list grec) : Forall (rec_ok w vel) rs ->
    Forall (fun l => length l = L /\ no_nl l) (lines_of w d rs).
  Proof.
    intros Hr. unfold lines_of. apply Forall_map. eapply Forall_impl; [|exact Hr].
    intros r (Hn1 & Hn2 & Hf & Hv). split.
    - unfold L. rewrite <- Hv. apply line_length; auto using (ro_d _ _ _ _ _ H), (ro_w _ _ _ _ _ H).
    - apply no_nl_line; assumption.
  Qed.

  Lemma atoms_good (rs : list grec) : Forall (rec_ok w vel) rs ->
    Forall2 (fun l a => parse_atomline (w, vel) (l ++ [NL]) = Ok a) (lines_of w d rs) (map (expected_atom d) rs).
  Proof.
    induction 1 as [|r rs' (Hn1 & Hn2 & Hf & Hv) _ IH]; [constructor|].
    cbn [lines_of map]. constructor; [|exact IH].
    rewrite <- Hv. apply parse_atomline_written; auto using (ro_d _ _ _ _ _ H), (ro_w _ _ _ _ _ H).
  Qed.

  Lemma run_records j : 1 <= j <= n ->
    exists st0, w_start c = Ok st0 /\
      w_run st0 (map OpRec (firstn j recs)) = Ok (st_w c w d vel L (firstn j recs)).
  Proof.
    intros Hj. apply run_records_gen; auto using (ro_fmt _ _ _ _ _ H), (ro_title _ _ _ _ _ H),
      (ro_box _ _ _ _ _ H), recs_vel, recs_len.
    pose proof (ro_count _ _ _ _ _ H) as Hc. unfold count_ok, room in *.
    destruct (c_natoms c); [subst; lia|exact I].
  Qed.

  Lemma count_hyp : match c_natoms c with
                    | None => (Z.of_nat (length recs) < 1000000000)%Z
                    | Some k => k = Z.of_nat (length recs) end.
  Proof. exact (ro_count _ _ _ _ _ H). Qed.

  Definition complete_file (boxline : bytes) : bytes := file_c c w d recs ++ boxline ++ [NL].

  Lemma written_file : exists boxline, dump_lattice_gro box = Ok boxline /\
    write_gro c recs = Ok (complete_file boxline).
  Proof.
    destruct (dump_ok box) as [boxline Hb].
    { unfold box. apply set_box_ok, (ro_box _ _ _ _ _ H). }
    exists boxline. split; [assumption|].
    destruct (run_records n) as (st0 & Hs & Hr); [pose proof n_pos; lia|].
    unfold n in Hr. rewrite firstn_all in Hr.
    unfold write_gro, file_after, write_ops. rewrite Hs. cbn [bind]. rewrite w_run_app, Hr. cbn [bind].
    destruct (close_prefixes c w d vel L recs n_pos count_hyp recs_len boxline Hb)
      as (_ & _ & (st & Hst & Hf)).
    rewrite Hst. cbn [bind]. rewrite Hf. reflexivity.
  Qed.

  Lemma count1_parses : py_int (count1 c n ++ [NL]) = Ok (Z.of_nat n) /\ no_nl (count1 c n).
  Proof.
    unfold count1. pose proof count_hyp as Hc. fold n in Hc. destruct (c_natoms c) as [k|].
    - subst k. split.
      + change (fmt_Z (Z.of_nat n)) with (lpad 0 (fmt_Z (Z.of_nat n))).
        apply py_int_lpad; [lia|reflexivity].
      + change (fmt_Z (Z.of_nat n)) with (lpad 0 (fmt_Z (Z.of_nat n))). apply no_nl_lpad_int. lia.
    - split; [apply py_int_lpad; [lia|reflexivity]|apply no_nl_lpad_int; lia].
  Qed.

  Lemma first_line_fmt r0 rest : recs = r0 :: rest ->
    determine_format (line_of w d r0 ++ [NL]) = Ok (w, vel).
  Proof.
    intros E. pose proof (ro_recs _ _ _ _ _ H) as Hr. rewrite E in Hr.
    apply Forall_cons_iff in Hr as [(Hn1 & Hn2 & Hf & Hv) _]. rewrite <- Hv.
    pose proof (ro_d _ _ _ _ _ H). pose proof (ro_w _ _ _ _ _ H).
    apply determine_format_written; auto; lia.
  Qed.

  (* C13: reading the written file *)
  Lemma roundtrip : exists f, write_gro c recs = Ok f /\
    ((Z.of_nat (length f) < SEEK_LIMIT)%Z ->
     read_gro f = Ok (mkrresult (title ++ [NL]) (Z.of_nat n) (map (expected_atom d) recs) (expected_box box))).
  Proof.
    destruct written_file as (boxline & Hb & Hw). exists (complete_file boxline). split; [exact Hw|].
    intros Hlim.
    pose proof (title_of_ok c (ro_title _ _ _ _ _ H)) as Hnl.
    destruct count1_parses as [Hc Hcnl].
    assert (Hlen9 : length box = 9) by (unfold box; apply set_box_ok, (ro_box _ _ _ _ _ H)).
    destruct (box_roundtrip box boxline Hlen9 Hb) as [Hex Hbne].
    pose proof (lines_good recs (ro_recs _ _ _ _ _ H)) as Hl.
    pose proof (atoms_good recs (ro_recs _ _ _ _ _ H)) as Ha.
    assert (Hex2 : exists r0 rest, recs = r0 :: rest).
    { pose proof (ro_nonempty _ _ _ _ _ H) as Hne2. destruct recs as [|r0 rest]; [contradiction|eauto]. }
    destruct Hex2 as (r0 & rest & E).
    rewrite E in Hl, Ha. cbn [lines_of map] in Hl, Ha. fold (lines_of w d rest) in Hl, Ha.
    assert (Hshape : complete_file boxline =
                     gro_text title (count1 c n) (line_of w d r0 :: lines_of w d rest) (boxline ++ [NL])).
    { unfold complete_file, file_c, header1, gro_text.
      replace (lines_of w d recs) with (line_of w d r0 :: lines_of w d rest) by (rewrite E; reflexivity).
      rewrite <- !app_assoc. reflexivity. }
    rewrite Hshape in Hlim |- *.
    apply (read_complete title (count1 c n) (line_of w d r0) (lines_of w d rest) (boxline ++ [NL])
             (Z.of_nat n) (w, vel) L Hnl Hcnl Hc Hl (first_line_fmt r0 rest E) boxline).
    - unfold n. rewrite E. cbn [length]. unfold lines_of. rewrite map_length. reflexivity.
    - reflexivity.
    - apply (dump_no_nl _ _ Hb).
    - exact Hex.
    - exact Hlim.
    - rewrite E. exact Ha.
  Qed.

  Lemma file_c_len : length (file_c c w d recs) =
    length title + 1 + (length (count1 c n) + 1) + n * (L + 1).
  Proof.
    unfold file_c, header1. rewrite !app_length.
    rewrite (body_of_length _ L).
    - unfold lines_of. rewrite map_length. cbn [length]. fold n. fold title. lia.
    - eapply Forall_impl; [|exact (lines_good recs (ro_recs _ _ _ _ _ H))]. simpl. tauto.
  Qed.

  Lemma read_file_c boxline : (Z.of_nat (length (complete_file boxline)) < SEEK_LIMIT)%Z ->
    read_gro (file_c c w d recs) = Err EIO.
  Proof.
    intros Hlim.
    pose proof (title_of_ok c (ro_title _ _ _ _ _ H)) as Hnl.
    destruct count1_parses as [Hc Hcnl].
    pose proof (lines_good recs (ro_recs _ _ _ _ _ H)) as Hl.
    assert (Hex2 : exists r0 rest, recs = r0 :: rest).
    { pose proof (ro_nonempty _ _ _ _ _ H) as Hne2. destruct recs as [|r0 rest]; [contradiction|eauto]. }
    destruct Hex2 as (r0 & rest & E).
    assert (Hlen : (Z.of_nat (length title + 1 + (length (count1 c n) + 1)) + Z.of_nat n * Z.of_nat (L + 1)
                    < SEEK_LIMIT)%Z).
    { unfold complete_file in Hlim. rewrite app_length, file_c_len in Hlim.
      rewrite <- Nat2Z.inj_mul, <- Nat2Z.inj_add. lia. }
    rewrite E in Hl. cbn [lines_of map] in Hl. fold (lines_of w d rest) in Hl.
    assert (Hshape : file_c c w d recs =
                     gro_text title (count1 c n) (line_of w d r0 :: lines_of w d rest) []).
    { unfold file_c, header1, gro_text.
      replace (lines_of w d recs) with (line_of w d r0 :: lines_of w d rest) by (rewrite E; reflexivity).
      rewrite app_nil_r, <- !app_assoc. reflexivity. }
    rewrite Hshape.
    apply (read_rejected title (count1 c n) (line_of w d r0) (lines_of w d rest) []
             (Z.of_nat n) (w, vel) L Hnl Hcnl Hc Hl (first_line_fmt r0 rest E)).
    - unfold n. rewrite E. cbn [length]. unfold lines_of. rewrite map_length. lia.
    - reflexivity.
    - exact Hlen.
  Qed.

  (* the file left by the first j records (1 <= j <= n) is rejected *)
  Lemma read_file_w j boxline : 1 <= j <= n ->
    (Z.of_nat (length (complete_file boxline)) < SEEK_LIMIT)%Z ->
    read_gro (file_w c w d (firstn j recs)) = Err EIO.
  Proof.
    intros Hj Hlim.
    pose proof (title_of_ok c (ro_title _ _ _ _ _ H)) as Hnl.
    pose proof count_hyp as Hcnt. fold n in Hcnt.
    destruct (c_natoms c) as [k|] eqn:Ek.
    - (* declared: the seek lands at or beyond the end *)
      destruct count1_parses as [Hc Hcnl].
      assert (Hc1 : count1 c n = count0 c) by (unfold count1, count0; rewrite Ek; reflexivity).
      assert (Hex2 : exists r0 rest, recs = r0 :: rest).
      { pose proof (ro_nonempty _ _ _ _ _ H) as Hne2. destruct recs as [|r0 rest]; [contradiction|eauto]. }
      destruct Hex2 as (r0 & rest & E).
      destruct j as [|j']; [lia|].
      assert (Hf : firstn (S j') recs = r0 :: firstn j' rest) by (rewrite E; reflexivity).
      pose proof (lines_good (firstn (S j') recs) (Forall_firstn' _ _ _ (ro_recs _ _ _ _ _ H))) as Hl.
      rewrite Hf in Hl |- *. cbn [lines_of map] in Hl. fold (lines_of w d (firstn j' rest)) in Hl.
      assert (Hshape : file_w c w d (r0 :: firstn j' rest) =
                       gro_text title (count1 c n) (line_of w d r0 :: lines_of w d (firstn j' rest)) []).
      { unfold file_w, header0, gro_text. rewrite Hc1. cbn [lines_of map].
        rewrite app_nil_r, <- !app_assoc. reflexivity. }
      rewrite Hshape.
      apply (read_rejected title (count1 c n) (line_of w d r0) (lines_of w d (firstn j' rest)) []
               (Z.of_nat n) (w, vel) L Hnl Hcnl Hc Hl (first_line_fmt r0 rest E)).
      + cbn [length]. unfold lines_of. rewrite map_length, firstn_length.
        assert (length rest = n - 1) by (unfold n; rewrite E; simpl; lia). lia.
      + reflexivity.
      + unfold complete_file in Hlim. rewrite app_length, file_c_len in Hlim.
        rewrite <- Nat2Z.inj_mul, <- Nat2Z.inj_add. lia.
    - (* not declared: the count line is blank *)
      unfold file_w, header0, count0. rewrite Ek. rewrite <- !app_assoc.
      apply read_bad_count; [assumption|apply no_nl_repeat_sp|].
      apply py_int_blank. rewrite forallb_app'. rewrite forallb_repeat by reflexivity. reflexivity.
  Qed.

  Lemma ops_length : length (write_ops recs) = n + 3.
  Proof. unfold write_ops, close_ops. rewrite app_length, map_length. reflexivity. Qed.

  (* C14: crash points of the writer: every proper prefix of the operation list *)
  Lemma crash_points : exists f, write_gro c recs = Ok f /\
    ((Z.of_nat (length f) < SEEK_LIMIT)%Z ->
     forall j, j < length (write_ops recs) ->
       exists fj, file_after c (firstn j (write_ops recs)) = Ok fj /\ read_gro fj = Err EIO).
  Proof.
    destruct written_file as (boxline & Hb & Hw). exists (complete_file boxline). split; [exact Hw|].
    intros Hlim j Hj. rewrite ops_length in Hj.
    destruct (close_prefixes c w d vel L recs n_pos count_hyp recs_len boxline Hb)
      as ((s1 & Hs1 & Hf1) & (s2 & Hs2 & Hf2) & _).
    destruct (run_records n) as (st0 & Hst0 & Hrn); [pose proof n_pos; lia|].
    unfold n in Hrn. rewrite firstn_all in Hrn.
    destruct (Nat.eq_dec j 0) as [->|Hj0].
    - exists []. split; [|apply read_empty].
      unfold file_after. cbn [firstn w_run]. rewrite (w_start_ok c (ro_title _ _ _ _ _ H) (ro_box _ _ _ _ _ H)).
      reflexivity.
    - destruct (le_lt_dec j n) as [Hle|Hgt].
      + exists (file_w c w d (firstn j recs)). split; [|apply (read_file_w j boxline); [lia|exact Hlim]].
        unfold file_after, write_ops. rewrite firstn_map_app by (fold n; lia).
        destruct (run_records j) as (st0' & Hs' & Hr'); [lia|].
        rewrite Hs'. cbn [bind]. rewrite Hr'. reflexivity.
      + exists (file_c c w d recs). split; [|apply (read_file_c boxline Hlim)].
        unfold file_after, write_ops. rewrite Hst0. cbn [bind].
        assert (Hjn : j = n + 1 \/ j = n + 2) by lia.
        assert (Hlen : length (map OpRec recs) = n) by (rewrite map_length; reflexivity).
        destruct Hjn as [-> | ->].
        * rewrite <- Hlen at 1. rewrite firstn_app_2. cbn [firstn close_ops].
          rewrite w_run_app, Hrn. cbn [bind]. rewrite Hs1. cbn [bind]. rewrite Hf1. reflexivity.
        * rewrite <- Hlen at 1. rewrite firstn_app_2. cbn [firstn close_ops].
          rewrite w_run_app, Hrn. cbn [bind]. rewrite Hs2. cbn [bind]. rewrite Hf2. reflexivity.
  Qed.
End Main.
