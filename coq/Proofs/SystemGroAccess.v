(* C12, part 2: reading through the cursor.
   - the offset generator lays the residues of the tiling out one after the other;
   - one access (seek, read len records, build the Residue) returns the residue it was laid out for,
     FROM EVERY READER STATE;
   - iteration, indexing, slicing and interleaved live iterators agree with the plain list of residues. *)
From Coq Require Import ZArith String Bool Arith Lia List.
From GM Require Import Base.Res Model.SystemGro Proofs.SystemGroInit.
Import ListNotations.
Local Open Scope nat_scope.

Lemma Forall2_length {A B} (R : A -> B -> Prop) l1 l2 : Forall2 R l1 l2 -> length l1 = length l2.
Proof. induction 1; simpl; congruence. Qed.
Arguments Forall2_length {A B R l1 l2} _.

(* ------------------------------------------------------------------ layout of the generator *)
Fixpoint layout (idxs lens : list nat) (start : nat) : list (nat * nat * nat) :=
  match idxs, lens with
  | i :: it, n :: nt => (i, start, n) :: layout it nt (start + n)
  | _, _ => []
  end.

Lemma emit_run_layout idx len c : forall start,
  emit_run idx len c start = layout (repeat idx c) (repeat len c) start.
Proof. induction c as [|c IH]; intros start; simpl; [reflexivity | rewrite IH; reflexivity]. Qed.

Lemma layout_app i1 i2 : forall n1 n2 start, length i1 = length n1 ->
  layout (i1 ++ i2) (n1 ++ n2) start = layout i1 n1 start ++ layout i2 n2 (start + list_sum n1).
Proof.
  induction i1 as [|i t IH]; intros n1 n2 start L; destruct n1 as [|n nt]; simpl in L; try discriminate.
  - simpl. rewrite Nat.add_0_r. reflexivity.
  - simpl. rewrite IH by lia. rewrite Nat.add_assoc. reflexivity.
Qed.

Lemma list_sum_repeat n c : list_sum (repeat n c) = c * n.
Proof. induction c; simpl; [reflexivity | rewrite IHc; reflexivity]. Qed.

Definition has_len (tpl : list residue) (idx n : nat) : Prop :=
  exists t, nth_error tpl idx = Some t /\ length t = n.

Lemma has_len_repeat tpl idx t c : forall l, nth_error tpl idx = Some t ->
  Forall2 (has_len tpl) (repeat idx c) l -> l = repeat (length t) c.
Proof.
  induction c as [|c IH]; intros l Ht F; simpl in *.
  - inversion F; reflexivity.
  - inversion F as [|x y lx ly [t' [H1 H2]] F']; subst. rewrite Ht in H1. inversion H1; subst t'.
    f_equal. apply IH; assumption.
Qed.

Lemma entries_from_layout tpl ordered : forall lens start,
  Forall (fun p => 1 <= snd p) ordered ->
  Forall2 (has_len tpl) (flat_map (fun p => repeat (fst p) (snd p)) ordered) lens ->
  entries_from tpl ordered start = Ok (layout (flat_map (fun p => repeat (fst p) (snd p)) ordered) lens start).
Proof.
  induction ordered as [|[idx c] t IH]; intros lens start C F.
  - simpl in *. inversion F. reflexivity.
  - cbn [flat_map fst snd] in *. apply Forall2_app_inv_l in F. destruct F as [l1 [l2 [F1 [F2 ->]]]].
    inversion C as [|p q C1 C2]; subst. simpl in C1.
    destruct c as [|c]; [lia|].
    assert (Ht : exists tp, nth_error tpl idx = Some tp).
    { simpl in F1. inversion F1 as [|x y lx ly [t' [H1 _]] _]; subst. eauto. }
    destruct Ht as [tp Ht].
    pose proof (has_len_repeat tpl idx tp (S c) l1 Ht F1) as ->.
    cbn [entries_from]. unfold nth_res. rewrite Ht. cbn [bind].
    rewrite (IH l2 (start + S c * length tp) C2 F2). cbn [bind].
    rewrite emit_run_layout. rewrite layout_app by (rewrite !repeat_length; reflexivity).
    rewrite list_sum_repeat. reflexivity.
Qed.

Lemma tkey_len t g : tkey t = tkey g -> g <> [] -> length t = length g.
Proof.
  intros H N. destruct g as [|a g']; [contradiction|]. destruct t as [|b t']; simpl in H; [discriminate|].
  inversion H. simpl. lia.
Qed.

Lemma stands_for_has_len tpl info gs :
  Forall (fun g => exists k, all_key k g) gs ->
  Forall2 (stands_for tpl) info gs -> Forall2 (has_len tpl) info (map (@length atom) gs).
Proof.
  intros U F. induction F as [|i g li lg [t [H1 H2]] F IH]; simpl; constructor.
  - inversion U as [|? ? [k [N _]] _]; subst. exists t. split; [exact H1 | apply tkey_len; assumption].
  - apply IH. inversion U; assumption.
Qed.

(* ------------------------------------------------------------------ one access *)
Lemma seek_ok f i st : i <= natoms f -> seek_atom f i st = (mkReader i i, Ok tt).
Proof. intros H. unfold seek_atom. replace (natoms f <? i) with false; [reflexivity|]. symmetry. apply Nat.ltb_ge. exact H. Qed.

Lemma read_n_ok f g : forall pre post, g_records f = pre ++ g ++ post ->
  read_n f (length g) (mkReader (length pre) (length pre)) =
  (mkReader (length pre + length g) (length pre + length g), Ok g).
Proof.
  induction g as [|a g IH]; intros pre post E; simpl.
  - unfold ret. rewrite Nat.add_0_r. reflexivity.
  - unfold bindM. rewrite (next_rec_at f pre a (g ++ post) E).
    assert (E' : g_records f = (pre ++ [a]) ++ g ++ post) by (rewrite <- app_assoc; exact E).
    pose proof (IH (pre ++ [a]) post E') as R. rewrite app_length in R. simpl in R.
    rewrite Nat.add_1_r in R. rewrite R. unfold ret. rewrite <- Nat.add_succ_comm. reflexivity.
Qed.

(* entry e reads residue g whatever the reader state: the access seeks first *)
Definition reads (f : grofile) (e : nat * nat * nat) (g : residue) : Prop :=
  forall st, access f e st = (mkReader (snd (fst e) + snd e) (snd (fst e) + snd e), Ok g).

Lemma access_reads f idx pre g post k :
  g_records f = pre ++ g ++ post -> all_key k g -> reads f (idx, length pre, length g) g.
Proof.
  intros E K st. unfold access, bindM. rewrite seek_ok.
  - rewrite (read_n_ok f g pre post E). unfold lift. rewrite (mk_residue_ok k g K). reflexivity.
  - unfold natoms. rewrite E, !app_length. lia.
Qed.

Lemma layout_reads f gs : forall idxs pre post,
  g_records f = pre ++ concat gs ++ post ->
  Forall (fun g => exists k, all_key k g) gs -> length idxs = length gs ->
  Forall2 (reads f) (layout idxs (map (@length atom) gs) (length pre)) gs.
Proof.
  induction gs as [|g t IH]; intros idxs pre post E U L; destruct idxs as [|i it]; simpl in L; try discriminate.
  - constructor.
  - simpl. inversion U as [|? ? [k K] Ut]; subst. constructor.
    + eapply access_reads; [|exact K]. simpl in E. rewrite <- app_assoc in E. exact E.
    + rewrite <- app_length. apply (IH it (pre ++ g) post); [|exact Ut|lia].
      simpl in E. rewrite <- !app_assoc in *. exact E.
Qed.

(* ------------------------------------------------------------------ what construction guarantees *)
Theorem init_view f st s : init f = (st, Ok s) ->
  exists es, entries s = Ok es /\ Forall2 (reads f) es (split_res (g_records f)) /\
             es = layout (info_all s) (map (@length atom) (split_res (g_records f))) 0.
Proof.
  intros H. destruct (init_inv f st s H) as [N [W F]].
  set (rs := split_res (g_records f)) in *.
  assert (U : Forall (fun g => exists k, all_key k g) rs).
  { unfold rs. destruct (g_records f) as [|a t]; [contradiction|]. eapply chain_all_key, split_res_chain. }
  pose proof (stands_for_has_len _ _ _ U F) as HL.
  exists (layout (info_all s) (map (@length atom) rs) 0). split; [|split; [|reflexivity]].
  - unfold entries. apply entries_from_layout; [apply (wf_counts s W) | exact HL].
  - apply (layout_reads f rs (info_all s) [] []); [|exact U|eapply Forall2_length; exact F].
    simpl. rewrite app_nil_r. unfold rs. rewrite split_res_concat. reflexivity.
Qed.

(* ------------------------------------------------------------------ monadic plumbing *)
Lemma stop_to_runtime_ok {A} (m : M A) st st' a : m st = (st', Ok a) -> stop_to_runtime m st = (st', Ok a).
Proof. intros H. unfold stop_to_runtime. rewrite H. reflexivity. Qed.

Lemma mapMM_ok {A B} (h : A -> M B) es gs :
  Forall2 (fun e g => forall st, exists st', h e st = (st', Ok g)) es gs ->
  forall st, exists st', mapMM h es st = (st', Ok gs).
Proof.
  induction 1 as [|e g le lg H F IH]; intros st; simpl.
  - exists st. reflexivity.
  - unfold bindM. destruct (H st) as [st1 ->]. destruct (IH st1) as [st2 ->]. exists st2. reflexivity.
Qed.

Lemma Forall2_nth_some {A B} (R : A -> B -> Prop) l1 l2 : Forall2 R l1 l2 ->
  forall k a, nth_error l1 k = Some a -> exists b, nth_error l2 k = Some b /\ R a b.
Proof.
  induction 1 as [|x y lx ly H F IH]; intros k a Hk; destruct k; simpl in *; try discriminate.
  - inversion Hk; subst. eauto.
  - eauto.
Qed.
Lemma Forall2_nth_none {A B} (R : A -> B -> Prop) l1 l2 : Forall2 R l1 l2 ->
  forall k, nth_error l1 k = None -> nth_error l2 k = None.
Proof.
  intros F k H. apply nth_error_None in H. apply nth_error_None. rewrite <- (Forall2_length F). exact H.
Qed.
Lemma Forall2_firstn {A B} (R : A -> B -> Prop) l1 l2 n : Forall2 R l1 l2 -> Forall2 R (firstn n l1) (firstn n l2).
Proof.
  intros F. revert n. induction F; intros n; destruct n; simpl; constructor; auto.
Qed.

Lemma mapM_nth_rel {A B} (R : A -> B -> Prop) es rs : Forall2 R es rs -> forall idxs,
  match mapM (nth_res es) idxs with
  | Ok sel => exists l, mapM (nth_res rs) idxs = Ok l /\ Forall2 R sel l
  | Err e => e = EIndex /\ mapM (nth_res rs) idxs = Err EIndex
  end.
Proof.
  intros F. induction idxs as [|k t IH]; simpl.
  - exists []. split; [reflexivity | constructor].
  - destruct (nth_error es k) as [e|] eqn:Hk.
    + destruct (Forall2_nth_some R es rs F k e Hk) as [g [Hg Rg]].
      assert (H1 : nth_res es k = Ok e) by (unfold nth_res; rewrite Hk; reflexivity).
      assert (H2 : nth_res rs k = Ok g) by (unfold nth_res; rewrite Hg; reflexivity).
      rewrite H1, H2. cbn [bind].
      destruct (mapM (nth_res es) t) as [sel|e'].
      * destruct IH as [l [-> Fl]]. cbn [bind]. exists (g :: l). split; [reflexivity | constructor; assumption].
      * destruct IH as [-> ->]. cbn [bind]. auto.
    + pose proof (Forall2_nth_none R es rs F k Hk) as Hg.
      assert (H1 : nth_res es k = Err EIndex) by (unfold nth_res; rewrite Hk; reflexivity).
      assert (H2 : nth_res rs k = Err EIndex) by (unfold nth_res; rewrite Hg; reflexivity).
      rewrite H1, H2. cbn [bind]. auto.
Qed.

Lemma py_slice_indices_err len a b c e : py_slice_indices len a b c = Err e -> e = EValue.
Proof.
  unfold py_slice_indices. destruct (match c with Some z => z | None => 1%Z end =? 0)%Z; intros H; inversion H; reflexivity.
Qed.

Lemma last_opt_nth {A} (l : list A) : l <> [] -> last_opt l = nth_error l (length l - 1).
Proof.
  induction l as [|x t IH]; intros N; [contradiction|].
  destruct t as [|y t']; [reflexivity|].
  change (last_opt (x :: y :: t')) with (last_opt (y :: t')). rewrite IH by discriminate.
  simpl. rewrite Nat.sub_0_r. reflexivity.
Qed.

(* ------------------------------------------------------------------ iteration *)
Lemma reads_runtime f es rs : Forall2 (reads f) es rs ->
  Forall2 (fun e g => forall st, exists st', stop_to_runtime (access f e) st = (st', Ok g)) es rs.
Proof.
  induction 1; constructor; auto. intros st. eexists. apply stop_to_runtime_ok. apply H.
Qed.
Lemma reads_plain f es rs : Forall2 (reads f) es rs ->
  Forall2 (fun e g => forall st, exists st', access f e st = (st', Ok g)) es rs.
Proof. induction 1; constructor; auto. intros st. eexists. apply H. Qed.

Lemma iter_all_ok f s es rs : entries s = Ok es -> Forall2 (reads f) es rs ->
  forall st, exists st', iter_all f s st = (st', Ok rs).
Proof.
  intros E F st. unfold iter_all, bindM, lift. rewrite E. apply mapMM_ok. apply reads_runtime. exact F.
Qed.

(* ------------------------------------------------------------------ every operation, from every state *)
Section Ops.
Variable f : grofile.
Variable s : sysgro.
Variable es : list (nat * nat * nat).
Variable rs : list residue.
Hypothesis E : entries s = Ok es.
Hypothesis F : Forall2 (reads f) es rs.

Lemma getitem_int_spec i st :
  match norm_index (length rs) i with
  | Some k => exists r st', nth_error rs k = Some r /\ getitem_int f s i st = (st', Ok r)
  | None => getitem_int f s i st = (st, Err (if (i =? -1)%Z then EValue else EIndex))
  end.
Proof.
  pose proof (Forall2_length F) as L.
  unfold getitem_int, stop_to_index, bindM, lift. rewrite E. unfold norm_index.
  destruct (i =? -1)%Z eqn:M1.
  - apply Z.eqb_eq in M1. subst i. simpl (0 <=? -1)%Z. cbv iota.
    destruct es as [|e0 et] eqn:Ees.
    + simpl in L. rewrite <- L. simpl. reflexivity.
    + assert (NE : e0 :: et <> []) by discriminate.
      rewrite (last_opt_nth _ NE). rewrite <- L.
      replace (0 <=? Z.of_nat (length (e0 :: et)) + -1)%Z with true by (symmetry; apply Z.leb_le; simpl length; lia).
      replace (Z.to_nat (Z.of_nat (length (e0 :: et)) + -1)) with (length (e0 :: et) - 1) by (simpl length; lia).
      destruct (nth_error (e0 :: et) (length (e0 :: et) - 1)) as [e|] eqn:Hn.
      * destruct (Forall2_nth_some _ _ _ F _ _ Hn) as [g [Hg Rg]]. exists g. eexists. split; [exact Hg|].
        rewrite (Rg st). reflexivity.
      * apply nth_error_None in Hn. simpl length in Hn. lia.
  - unfold islice_one. rewrite <- L. destruct (0 <=? i)%Z eqn:P.
    + apply Z.leb_le in P. destruct (i <? Z.of_nat (length es))%Z eqn:Q.
      * apply Z.ltb_lt in Q. destruct (nth_error es (Z.to_nat i)) as [e|] eqn:Hn.
        -- destruct (Forall2_nth_some _ _ _ F _ _ Hn) as [g [Hg Rg]]. exists g. eexists. split; [exact Hg|].
           rewrite (Rg st). reflexivity.
        -- apply nth_error_None in Hn. lia.
      * apply Z.ltb_ge in Q. destruct (nth_error es (Z.to_nat i)) as [e|] eqn:Hn.
        -- assert (Z.to_nat i < length es) by (apply nth_error_Some; rewrite Hn; discriminate). lia.
        -- unfold fail. reflexivity.
    + apply Z.leb_gt in P. destruct (0 <=? Z.of_nat (length es) + i)%Z eqn:Q.
      * apply Z.leb_le in Q. destruct (nth_error es (Z.to_nat (Z.of_nat (length es) + i))) as [e|] eqn:Hn.
        -- destruct (Forall2_nth_some _ _ _ F _ _ Hn) as [g [Hg Rg]]. exists g. eexists. split; [exact Hg|].
           rewrite (Rg st). reflexivity.
        -- apply nth_error_None in Hn. lia.
      * unfold fail. reflexivity.
Qed.

Lemma getitem_slice_spec a b c st :
  match py_slice_indices (length rs) a b c with
  | Err e => getitem_slice f s a b c st = (st, Err e)
  | Ok idxs => match mapM (nth_res rs) idxs with
               | Ok l => exists st', getitem_slice f s a b c st = (st', Ok l)
               | Err e => getitem_slice f s a b c st = (st, Err e)
               end
  end.
Proof.
  pose proof (Forall2_length F) as L.
  unfold getitem_slice, stop_to_index, bindM, lift. rewrite E. rewrite L.
  destruct (py_slice_indices (length rs) a b c) as [idxs|e] eqn:P.
  - pose proof (mapM_nth_rel (reads f) es rs F idxs) as R.
    destruct (mapM (nth_res es) idxs) as [sel|e].
    + destruct R as [l [-> Fl]]. destruct (mapMM_ok (access f) sel l (reads_plain f sel l Fl) st) as [st' ->].
      exists st'. reflexivity.
    + destruct R as [-> ->]. reflexivity.
  - apply py_slice_indices_err in P. subst e. reflexivity.
Qed.

Lemma iter_prefix_spec n st : exists st', iter_prefix f s n st = (st', Ok (firstn n rs)).
Proof.
  unfold iter_prefix, bindM, lift. rewrite E. apply mapMM_ok. apply reads_runtime. apply Forall2_firstn. exact F.
Qed.

Lemma iter_step_spec k st :
  match nth_error rs k with
  | Some r => exists st', iter_step f s k st = (st', Ok (Some r))
  | None => iter_step f s k st = (st, Ok None)
  end.
Proof.
  unfold iter_step, bindM, lift. rewrite E.
  destruct (nth_error es k) as [e|] eqn:Hn.
  - destruct (Forall2_nth_some _ _ _ F _ _ Hn) as [g [Hg Rg]]. rewrite Hg.
    eexists. rewrite (stop_to_runtime_ok _ _ _ _ (Rg st)). reflexivity.
  - rewrite (Forall2_nth_none _ _ _ F _ Hn). reflexivity.
Qed.

Lemma run_op_spec o h :
  h_iters (fst (run_op f s o h)) = fst (spec_op rs o (h_iters h)) /\
  snd (run_op f s o h) = snd (spec_op rs o (h_iters h)).
Proof.
  destruct o as [i|a b c|n| |j]; simpl.
  - pose proof (getitem_int_spec i (h_reader h)) as G.
    destruct (norm_index (length rs) i) as [k|].
    + destruct G as [r [st' [Hr ->]]]. rewrite Hr. simpl. auto.
    + rewrite G. simpl. auto.
  - pose proof (getitem_slice_spec a b c (h_reader h)) as G.
    destruct (py_slice_indices (length rs) a b c) as [idxs|e].
    + destruct (mapM (nth_res rs) idxs) as [l|e].
      * destruct G as [st' ->]. simpl. auto.
      * rewrite G. simpl. auto.
    + rewrite G. simpl. auto.
  - destruct (iter_prefix_spec n (h_reader h)) as [st' ->]. simpl. auto.
  - auto.
  - destruct (nth_error (h_iters h) j) as [[k|]|]; simpl; auto.
    pose proof (iter_step_spec k (h_reader h)) as G.
    destruct (nth_error rs k) as [r|].
    + destruct G as [st' ->]. simpl. auto.
    + rewrite G. simpl. auto.
Qed.

Lemma run_history_spec ops : forall h, map fst (run_history f s ops h) = spec_history rs ops (h_iters h).
Proof.
  induction ops as [|o t IH]; intros h; simpl; [reflexivity|].
  destruct (run_op_spec o h) as [H1 H2].
  destruct (run_op f s o h) as [h' ob]. destruct (spec_op rs o (h_iters h)) as [its' ob'].
  simpl in *. subst. rewrite IH. reflexivity.
Qed.
End Ops.
