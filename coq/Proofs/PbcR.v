(* Lemmas about Model/Pbc.v at T := R (property C19) *)
From Flocq Require Import Core.Generic_fmt Core.Round_NE.
From GM Require Import Proofs.RTac Model.Pbc Proofs.PbcRound Proofs.PbcLin.
Import ListNotations.
Local Open Scope R_scope.

(* ---------- specification-level vocabulary ---------- *)
(* the centre the second argument stands for, and when it exists *)
Definition tcenter (o : target R) : V3 R :=
  match o with TResidue atoms => vmean atoms | TPoint p => p end.
Definition target_ok (o : target R) : Prop :=
  match o with TResidue atoms => atoms <> [] | TPoint _ => True end.
Definition shift_atoms (atoms : list (V3 R)) (w : V3 R) : list (V3 R) :=
  map (fun p => vadd p w) atoms.
(* no fractional coordinate of v is exactly half-way between two integers *)
Definition frac_not_half (v : V3 R) (Binv : M3 R) : Prop :=
  let f := pbc_frac v Binv in not_half (vx f) /\ not_half (vy f) /\ not_half (vz f).

(* ---------- centres ---------- *)
Lemma geometric_center_ok (l : list (V3 R)) : l <> [] -> geometric_center l = Ok (vmean l).
Proof. destruct l; [contradiction|reflexivity]. Qed.

Lemma target_center_ok (o : target R) : target_ok o -> target_center o = Ok (tcenter o).
Proof. destruct o; simpl; intros Ho; [apply geometric_center_ok; exact Ho | reflexivity]. Qed.

Lemma distance_to_eq self other box inv : self <> [] -> target_ok other ->
  distance_to self other box inv = pbc_dist (vsub (tcenter other) (vmean self)) box inv.
Proof.
  intros Hs Ho. unfold distance_to.
  rewrite (target_center_ok _ Ho), (geometric_center_ok _ Hs). reflexivity.
Qed.

Lemma fold_vadd_acc (l : list (V3 R)) a b :
  fold_left vadd l (vadd a b) = vadd (fold_left vadd l a) b.
Proof.
  revert a; induction l as [|x l IH]; intros a; simpl; [reflexivity|].
  replace (vadd (vadd a b) x) with (vadd (vadd a x) b); [apply IH|].
  dv a; dv b; dv x; runfold; apply V3_eq; simpl; ring.
Qed.

Lemma fold_vadd_shift (l : list (V3 R)) a w :
  fold_left vadd (shift_atoms l w) a = vadd (fold_left vadd l a) (vscale (IZR (Z.of_nat (length l))) w).
Proof.
  revert a; induction l as [|x l IH]; intros a.
  - simpl. dv a; dv w; runfold; apply V3_eq; simpl; ring.
  - cbn [shift_atoms map fold_left length]. fold (shift_atoms l w). rewrite IH.
    replace (vadd a (vadd x w)) with (vadd (vadd a x) w)
      by (dv a; dv x; dv w; runfold; apply V3_eq; simpl; ring).
    rewrite fold_vadd_acc. rewrite Nat2Z.inj_succ, succ_IZR.
    dv (fold_left vadd l (vadd a x)); dv w; runfold; apply V3_eq; simpl; ring.
Qed.

Lemma vmean_shift (l : list (V3 R)) w : l <> [] -> vmean (shift_atoms l w) = vadd (vmean l) w.
Proof.
  intros Hl. unfold vmean, vsum. rewrite fold_vadd_shift.
  unfold shift_atoms; rewrite map_length.
  assert (Hn : IZR (Z.of_nat (length l)) <> 0).
  { destruct l; [contradiction|]. simpl length. rewrite Nat2Z.inj_succ, succ_IZR.
    pose proof (IZR_le 0 (Z.of_nat (length l)) (Nat2Z.is_nonneg _)). lra. }
  cbv [sofZ RScalar]. set (N := IZR (Z.of_nat (length l))) in *. clearbody N.
  dv (fold_left vadd l vzero); dv w; runfold; apply V3_eq; simpl; field; exact Hn.
Qed.

Lemma vmean_single (p : V3 R) : vmean [p] = p.
Proof. dv p. unfold vmean, vsum. simpl. runfold. apply V3_eq; simpl; field. Qed.

Lemma shift_atoms_ne l w : l <> [] -> shift_atoms l w <> [].
Proof. destruct l; [contradiction|discriminate]. Qed.

Lemma target_shift_ok o w : target_ok o -> target_ok (target_shift o w).
Proof. destruct o; simpl; [apply shift_atoms_ne | trivial]. Qed.

Lemma tcenter_shift o w : target_ok o -> tcenter (target_shift o w) = vadd (tcenter o) w.
Proof. destruct o; simpl; intros Ho; [apply vmean_shift; exact Ho | reflexivity]. Qed.

(* ---------- the flag ---------- *)
Lemma pbc_matrices_false B Bi : minv B = Ok Bi -> pbc_matrices B false = Ok (Bi, B).
Proof. intros E. unfold pbc_matrices. rewrite E. reflexivity. Qed.

Lemma pbc_matrices_true B Bi : minv B = Ok Bi -> pbc_matrices Bi true = Ok (Bi, B).
Proof. intros E. unfold pbc_matrices. rewrite (minv_minv _ _ E). reflexivity. Qed.

Lemma pbc_dist_false v B Bi : minv B = Ok Bi ->
  pbc_dist v (Some B) false = Ok (vnorm (pbc_wrap v B Bi)).
Proof. intros E. unfold pbc_dist. rewrite (pbc_matrices_false _ _ E). reflexivity. Qed.

Lemma pbc_dist_inv_flag v B Bi : minv B = Ok Bi ->
  pbc_dist v (Some Bi) true = pbc_dist v (Some B) false.
Proof.
  intros E. unfold pbc_dist. rewrite (pbc_matrices_false _ _ E), (pbc_matrices_true _ _ E). reflexivity.
Qed.

Lemma distance_inv_flag self other B Bi : minv B = Ok Bi ->
  distance_to self other (Some Bi) true = distance_to self other (Some B) false.
Proof.
  intros E. unfold distance_to.
  destruct (target_center other); [|reflexivity]. destruct (geometric_center self); [|reflexivity].
  cbn [bind]. apply pbc_dist_inv_flag; exact E.
Qed.

(* ---------- singular boxes ---------- *)
Lemma distance_singular self other B inv : self <> [] -> target_ok other -> mdet B = 0 ->
  distance_to self other (Some B) inv = Err EDiv0.
Proof.
  intros Hs Ho Hd. rewrite distance_to_eq by assumption.
  unfold pbc_dist, pbc_matrices. rewrite (minv_singular _ Hd). destruct inv; reflexivity.
Qed.

(* ---------- symmetry ---------- *)
Lemma vround_vneg (f : V3 R) : vround (vneg f) = vneg (vround f).
Proof.
  dv f. unfold vround, vneg. cbn [vx vy vz]. rewrite !sround_R.
  cbv [sopp RScalar]. rewrite !rnd_opp. reflexivity.
Qed.

Lemma pbc_wrap_vneg v B Bi : pbc_wrap (vneg v) B Bi = vneg (pbc_wrap v B Bi).
Proof.
  unfold pbc_wrap, pbc_frac. rewrite vecm_vneg, vround_vneg.
  set (f := vecm v Bi). set (r := vround f).
  replace (vsub (vneg f) (vneg r)) with (vneg (vsub f r)); [apply vecm_vneg|].
  dv f; dv r. runfold. apply V3_eq; simpl; ring.
Qed.

Lemma pbc_dist_swap a b box inv : pbc_dist (vsub a b) box inv = pbc_dist (vsub b a) box inv.
Proof.
  rewrite (vsub_swap a b). unfold pbc_dist. destruct box as [bv|].
  - destruct (pbc_matrices bv inv) as [[Bi B]|]; [|reflexivity]. cbn [bind].
    rewrite pbc_wrap_vneg, vnorm_vneg. reflexivity.
  - rewrite vnorm_vneg. reflexivity.
Qed.

Lemma distance_symmetric (a b : list (V3 R)) box inv :
  distance_to a (TResidue b) box inv = distance_to b (TResidue a) box inv.
Proof.
  unfold distance_to, target_center.
  destruct a as [|a0 a], b as [|b0 b]; try reflexivity.
  cbn [geometric_center bind]. apply pbc_dist_swap.
Qed.

Lemma distance_symmetric_point (a : list (V3 R)) (p : V3 R) box inv :
  distance_to a (TPoint p) box inv = distance_to [p] (TResidue a) box inv.
Proof.
  unfold distance_to, target_center.
  destruct a as [|a0 a]; [reflexivity|].
  cbn [geometric_center bind]. rewrite vmean_single. apply pbc_dist_swap.
Qed.

(* ---------- lattice shifts, any non-singular box ---------- *)
Lemma vround_shift (f : V3 R) (n : Z * Z * Z) :
  not_half (vx f) -> not_half (vy f) -> not_half (vz f) ->
  vround (vadd f (zvec n)) = vadd (vround f) (zvec n).
Proof.
  destruct f as [x y z], n as [[n1 n2] n3]. cbn [vx vy vz]. intros H1 H2 H3.
  unfold vround, vadd, zvec. cbn [vx vy vz]. rewrite !sround_R.
  cbv [sadd sofZ RScalar]. rewrite !rnd_plus_Z by assumption. reflexivity.
Qed.

Lemma pbc_wrap_shift v B n : mdet B <> 0 -> frac_not_half v (minvR B) ->
  pbc_wrap (vadd v (lattice n B)) B (minvR B) = pbc_wrap v B (minvR B).
Proof.
  intros Hd (H1 & H2 & H3). unfold pbc_wrap, pbc_frac in *.
  unfold lattice. rewrite vecm_vadd, vecm_minv_r by exact Hd.
  rewrite vround_shift by assumption. f_equal.
  dv (vecm v (minvR B)); dv (vround (mk3 x y z)); dv (zvec n : V3 R).
  runfold. apply V3_eq; simpl; ring.
Qed.

Lemma zvec_neg (n : Z * Z * Z) :
  vneg (zvec n : V3 R) = zvec (let '(a, b, c) := n in (- a, - b, - c)%Z).
Proof.
  destruct n as [[a b] c]. unfold zvec, vneg. cbn [vx vy vz]. cbv [sopp sofZ RScalar].
  rewrite !opp_IZR. reflexivity.
Qed.

Lemma distance_lattice_invariant self other B Bi n :
  self <> [] -> target_ok other -> minv B = Ok Bi ->
  frac_not_half (vsub (tcenter other) (vmean self)) Bi ->
  distance_to self (target_shift other (lattice n B)) (Some B) false
    = distance_to self other (Some B) false /\
  distance_to (shift_atoms self (lattice n B)) other (Some B) false
    = distance_to self other (Some B) false.
Proof.
  intros Hs Ho E Hf. pose proof (minv_inv _ _ E) as [Hd ->].
  rewrite !distance_to_eq; auto using target_shift_ok, shift_atoms_ne.
  rewrite !(pbc_dist_false _ _ _ E). split; f_equal; f_equal.
  - rewrite tcenter_shift by exact Ho.
    replace (vsub (vadd (tcenter other) (lattice n B)) (vmean self))
      with (vadd (vsub (tcenter other) (vmean self)) (lattice n B)).
    + apply pbc_wrap_shift; assumption.
    + dv (tcenter other); dv (lattice n B); dv (vmean self). runfold. apply V3_eq; simpl; ring.
  - rewrite vmean_shift by exact Hs.
    set (n' := let '(a, b, c) := n in (- a, - b, - c)%Z).
    replace (vsub (tcenter other) (vadd (vmean self) (lattice n B)))
      with (vadd (vsub (tcenter other) (vmean self)) (lattice n' B)).
    + apply pbc_wrap_shift; assumption.
    + unfold lattice, n'. rewrite <- zvec_neg, vecm_vneg.
      dv (tcenter other); dv (vecm (zvec n) B); dv (vmean self). runfold. apply V3_eq; simpl; ring.
Qed.

(* ---------- orthorhombic boxes: the minimum image ---------- *)
Section Ortho.
Variables Lx Ly Lz : R.
Hypothesis HLx : 0 < Lx.
Hypothesis HLy : 0 < Ly.
Hypothesis HLz : 0 < Lz.
Let B : M3 R := mdiag Lx Ly Lz.

Lemma mdet_diag : mdet B = Lx * Ly * Lz.
Proof. unfold B. punfold. runfold. ring. Qed.

Lemma mdet_diag_ne : mdet B <> 0.
Proof.
  rewrite mdet_diag. assert (0 < Lx * Ly * Lz); [|lra].
  apply Rmult_lt_0_compat; [apply Rmult_lt_0_compat|]; assumption.
Qed.

Lemma frac_diag (v : V3 R) :
  pbc_frac v (minvR B) = mk3 (vx v / Lx) (vy v / Ly) (vz v / Lz).
Proof.
  destruct v as [x y z]. unfold B, minvR. punfold. runfold.
  apply V3_eq; simpl; field; lra.
Qed.

(* the integer triple the code selects *)
Definition nearest_image (v : V3 R) : Z * Z * Z :=
  (ZnearestE (vx v / Lx), ZnearestE (vy v / Ly), ZnearestE (vz v / Lz)).

Lemma lattice_diag (m : Z * Z * Z) :
  lattice m B = (let '(a, b, c) := m in mk3 (IZR a * Lx) (IZR b * Ly) (IZR c * Lz)).
Proof.
  destruct m as [[a b] c]. unfold B. punfold. runfold. apply V3_eq; simpl; ring.
Qed.

Lemma wrap_diag (v : V3 R) :
  pbc_wrap v B (minvR B) = vsub v (lattice (nearest_image v) B).
Proof.
  unfold pbc_wrap. rewrite frac_diag. rewrite lattice_diag. unfold nearest_image.
  destruct v as [x y z]. unfold B, vround. cbn [vx vy vz]. rewrite !sround_R. unfold rnd.
  punfold. runfold. apply V3_eq; simpl; field; lra.
Qed.

Lemma axis_min (x L : R) (m : Z) : 0 < L ->
  (x - IZR (ZnearestE (x / L)) * L) * (x - IZR (ZnearestE (x / L)) * L)
    <= (x - IZR m * L) * (x - IZR m * L).
Proof.
  intros HL. pose proof (rnd_nearest (x / L) m) as Hn. unfold rnd in Hn.
  set (n := IZR (ZnearestE (x / L))) in *.
  replace (x - n * L) with (L * (x / L - n)) by (field; lra).
  replace (x - IZR m * L) with (L * (x / L - IZR m)) by (field; lra).
  set (u := x / L - n) in *. set (w := x / L - IZR m) in *.
  assert (Hsq : u * u <= w * w) by (apply Rsqr_le_abs_1 in Hn; exact Hn).
  nra.
Qed.

Lemma wrap_diag_min (v : V3 R) (m : Z * Z * Z) :
  vnorm (pbc_wrap v B (minvR B)) <= vnorm (vsub v (lattice m B)).
Proof.
  rewrite wrap_diag, !lattice_diag. unfold nearest_image.
  destruct v as [x y z], m as [[a b] c]. unfold vnorm. apply sqrt_le_1_alt.
  runfold. cbn [vx vy vz].
  pose proof (axis_min x Lx a HLx). pose proof (axis_min y Ly b HLy). pose proof (axis_min z Lz c HLz).
  lra.
Qed.

Lemma distance_min_image self other : self <> [] -> target_ok other ->
  let v := vsub (tcenter other) (vmean self) in
  exists d, distance_to self other (Some B) false = Ok d /\
    (exists n : Z * Z * Z, d = vnorm (vsub v (lattice n B))) /\
    (forall m : Z * Z * Z, d <= vnorm (vsub v (lattice m B))).
Proof.
  intros Hs Ho v. rewrite distance_to_eq by assumption. fold v.
  rewrite (pbc_dist_false _ _ _ (minv_ok _ mdet_diag_ne)).
  eexists; split; [reflexivity|]. split.
  - exists (nearest_image v). rewrite wrap_diag. reflexivity.
  - intros m. apply wrap_diag_min.
Qed.

Lemma lattice_zero : lattice (0, 0, 0)%Z B = vzero.
Proof. rewrite lattice_diag. runfold. apply V3_eq; simpl; ring. Qed.

Lemma distance_le_free self other inv : self <> [] -> target_ok other ->
  exists d d0, distance_to self other (Some B) false = Ok d /\
    distance_to self other None inv = Ok d0 /\ d <= d0.
Proof.
  intros Hs Ho. destruct (distance_min_image self other Hs Ho) as (d & Ed & _ & Hmin).
  exists d, (vnorm (vsub (tcenter other) (vmean self))). split; [exact Ed|]. split.
  - rewrite distance_to_eq by assumption. reflexivity.
  - specialize (Hmin (0, 0, 0)%Z). rewrite lattice_zero in Hmin.
    replace (vsub (vsub (tcenter other) (vmean self)) vzero) with (vsub (tcenter other) (vmean self)) in Hmin;
      [exact Hmin|].
    dv (vsub (tcenter other) (vmean self)). runfold. apply V3_eq; simpl; ring.
Qed.

(* lattice invariance without any condition on ties (round-half-even may pick the other of two
   tied images after an odd shift, but in an orthorhombic box tied images are equally far) *)
Definition zadd3 (a b : Z * Z * Z) : Z * Z * Z :=
  let '(a1, a2, a3) := a in let '(b1, b2, b3) := b in (a1 + b1, a2 + b2, a3 + b3)%Z.
Definition zopp3 (a : Z * Z * Z) : Z * Z * Z := let '(a1, a2, a3) := a in (- a1, - a2, - a3)%Z.

Lemma lattice_add a b : lattice (zadd3 a b) B = vadd (lattice a B) (lattice b B).
Proof.
  rewrite !lattice_diag. destruct a as [[a1 a2] a3], b as [[b1 b2] b3]. unfold zadd3.
  rewrite !plus_IZR. runfold. apply V3_eq; simpl; ring.
Qed.

Lemma wrap_diag_shift (v : V3 R) (k : Z * Z * Z) :
  vnorm (pbc_wrap (vadd v (lattice k B)) B (minvR B)) = vnorm (pbc_wrap v B (minvR B)).
Proof.
  apply Rle_antisym.
  - rewrite (wrap_diag v).
    replace (vsub v (lattice (nearest_image v) B))
      with (vsub (vadd v (lattice k B)) (lattice (zadd3 (nearest_image v) k) B)).
    + apply wrap_diag_min.
    + rewrite lattice_add. dv v; dv (lattice (nearest_image (mk3 x y z)) B); dv (lattice k B).
      runfold. apply V3_eq; simpl; ring.
  - rewrite (wrap_diag (vadd v (lattice k B))).
    set (n' := nearest_image (vadd v (lattice k B))).
    replace (vsub (vadd v (lattice k B)) (lattice n' B))
      with (vsub v (lattice (zadd3 n' (zopp3 k)) B)).
    + apply wrap_diag_min.
    + rewrite lattice_add. rewrite !lattice_diag. dv v; destruct n' as [[a1 a2] a3], k as [[k1 k2] k3].
      unfold zopp3. rewrite !opp_IZR. runfold. apply V3_eq; simpl; ring.
Qed.

Lemma distance_lattice_invariant_ortho self other n : self <> [] -> target_ok other ->
  distance_to self (target_shift other (lattice n B)) (Some B) false
    = distance_to self other (Some B) false /\
  distance_to (shift_atoms self (lattice n B)) other (Some B) false
    = distance_to self other (Some B) false.
Proof.
  intros Hs Ho. pose proof (minv_ok _ mdet_diag_ne) as E.
  rewrite !distance_to_eq; auto using target_shift_ok, shift_atoms_ne.
  rewrite !(pbc_dist_false _ _ _ E). split; f_equal.
  - rewrite tcenter_shift by exact Ho.
    replace (vsub (vadd (tcenter other) (lattice n B)) (vmean self))
      with (vadd (vsub (tcenter other) (vmean self)) (lattice n B)).
    + apply wrap_diag_shift.
    + dv (tcenter other); dv (lattice n B); dv (vmean self). runfold. apply V3_eq; simpl; ring.
  - rewrite vmean_shift by exact Hs.
    replace (vsub (tcenter other) (vadd (vmean self) (lattice n B)))
      with (vadd (vsub (tcenter other) (vmean self)) (lattice (zopp3 n) B)).
    + apply wrap_diag_shift.
    + rewrite !lattice_diag. destruct n as [[a b] c]. unfold zopp3. rewrite !opp_IZR.
      dv (tcenter other); dv (vmean self). runfold. apply V3_eq; simpl; ring.
Qed.

End Ortho.

(* ---------- concrete instances (non-vacuity; the witness of the repaired defect D3) ---------- *)
Lemma ZnearestE_near x (n : Z) : Rabs (x - IZR n) < /2 -> ZnearestE x = n.
Proof. apply Znearest_imp. Qed.

Lemma single_ne (p : V3 R) : [p] <> [].
Proof. discriminate. Qed.

Lemma diag345_ne : mdet (mdiag 3 4 5 : M3 R) <> 0.
Proof. apply mdet_diag_ne; lra. Qed.

(* box diag(3,4,5), separation (1,0,0): distance 1 (the code before the repair gave 1/9) *)
Lemma example_d3_sep1 :
  distance_to [mk3 0 0 0] (TPoint (mk3 1 0 0)) (Some (mdiag 3 4 5)) false = Ok 1.
Proof.
  rewrite distance_to_eq by (apply single_ne || exact I).
  cbn [tcenter]. rewrite vmean_single.
  rewrite (pbc_dist_false _ _ _ (minv_ok _ diag345_ne)).
  rewrite wrap_diag by lra. f_equal.
  unfold nearest_image. runfold. cbn [vx vy vz].
  rewrite (ZnearestE_near ((1 - 0) / 3) 0) by (simpl; rewrite Rabs_pos_eq; lra).
  rewrite (ZnearestE_near ((0 - 0) / 4) 0) by (simpl; rewrite Rabs_pos_eq; lra).
  rewrite (ZnearestE_near ((0 - 0) / 5) 0) by (simpl; rewrite Rabs_pos_eq; lra).
  punfold. runfold. cbn [vx vy vz].
  match goal with |- sqrt ?e = 1 => replace e with (1 * 1) by ring end.
  apply sqrt_square; lra.
Qed.

(* separation (2,0,0) in the same box: the nearest image is one box vector away, distance 1 *)
Lemma example_d3_sep2 :
  distance_to [mk3 0 0 0] (TPoint (mk3 2 0 0)) (Some (mdiag 3 4 5)) false = Ok 1.
Proof.
  rewrite distance_to_eq by (apply single_ne || exact I).
  cbn [tcenter]. rewrite vmean_single.
  rewrite (pbc_dist_false _ _ _ (minv_ok _ diag345_ne)).
  rewrite wrap_diag by lra. f_equal.
  unfold nearest_image. runfold. cbn [vx vy vz].
  rewrite (ZnearestE_near ((2 - 0) / 3) 1) by (simpl; rewrite Rabs_left; lra).
  rewrite (ZnearestE_near ((0 - 0) / 4) 0) by (simpl; rewrite Rabs_pos_eq; lra).
  rewrite (ZnearestE_near ((0 - 0) / 5) 0) by (simpl; rewrite Rabs_pos_eq; lra).
  punfold. runfold. cbn [vx vy vz].
  match goal with |- sqrt ?e = 1 => replace e with (1 * 1) by ring end.
  apply sqrt_square; lra.
Qed.

Lemma not_half_small x : Rabs x < /2 -> not_half x.
Proof.
  intros H k E. apply Rabs_def2 in H. destruct H as [H1 H2].
  destruct (Z_le_gt_dec k (-1)) as [Hk|Hk].
  - apply IZR_le in Hk. lra.
  - assert (Hk' : (0 <= k)%Z) by lia. apply IZR_le in Hk'. lra.
Qed.

(* a GROMACS-style triclinic box with determinant 1 *)
Definition tric_example : M3 R := mkM (mk3 1 0 0) (mk3 1 1 0) (mk3 0 0 1).

Lemma tric_example_ne : mdet tric_example <> 0.
Proof. unfold tric_example. runfold. lra. Qed.

(* the hypotheses of distance_lattice_invariant are satisfiable *)
Lemma example_tric_hyp :
  exists Bi, minv tric_example = Ok Bi /\
    frac_not_half (vsub (tcenter (TPoint (mk3 (/4) 0 0))) (vmean [mk3 0 0 0])) Bi.
Proof.
  exists (minvR tric_example). split; [apply minv_ok, tric_example_ne|].
  cbn [tcenter]. rewrite vmean_single.
  assert (F : pbc_frac (vsub (mk3 (/4) 0 0) (mk3 0 0 0)) (minvR tric_example) = mk3 (/4) 0 0).
  { unfold minvR, tric_example. punfold. runfold. apply V3_eq; simpl; field. }
  unfold frac_not_half. rewrite F. cbn [vx vy vz].
  repeat split; apply not_half_small; [rewrite Rabs_pos_eq; lra | rewrite Rabs_R0; lra | rewrite Rabs_R0; lra].
Qed.

(* ... and the hypothesis cannot be dropped for a triclinic box: at an exact tie an odd lattice
   shift makes round-half-even pick the other image (round 1/2 = 0, round 3/2 = 2), and in a skewed
   box the two tied images are not equally far *)
Lemma lattice_tie_counterexample :
  let p : V3 R := mk3 1 (/2) 0 in
  distance_to [mk3 0 0 0] (TPoint p) (Some tric_example) false = Ok (sqrt (5/4)) /\
  distance_to [mk3 0 0 0] (target_shift (TPoint p) (lattice (1, 0, 0)%Z tric_example))
              (Some tric_example) false = Ok (/2) /\
  sqrt (5/4) <> /2.
Proof.
  intros p. destruct rnd_tie_example as [T0 T1].
  pose proof (rnd_IZR 0) as T2.
  split; [|split].
  - rewrite distance_to_eq by (apply single_ne || exact I).
    cbn [tcenter]. rewrite vmean_single.
    rewrite (pbc_dist_false _ _ _ (minv_ok _ tric_example_ne)). f_equal.
    unfold pbc_wrap.
    assert (F : pbc_frac (vsub p (mk3 0 0 0)) (minvR tric_example) = mk3 (/2) (/2) 0).
    { unfold p, minvR, tric_example. punfold. runfold. apply V3_eq; simpl; field. }
    rewrite F. unfold vround. cbn [vx vy vz]. change (@sround R RScalar) with rnd. rewrite T0, T2.
    unfold tric_example. runfold. f_equal. field.
  - rewrite distance_to_eq by (apply single_ne || exact I).
    cbn [tcenter target_shift]. rewrite vmean_single.
    rewrite (pbc_dist_false _ _ _ (minv_ok _ tric_example_ne)). f_equal.
    unfold pbc_wrap.
    assert (F : pbc_frac (vsub (vadd p (lattice (1, 0, 0)%Z tric_example)) (mk3 0 0 0)) (minvR tric_example)
                = mk3 (/2 + 1) (/2) 0).
    { unfold p, minvR, tric_example. punfold. runfold. apply V3_eq; simpl; field. }
    rewrite F. unfold vround. cbn [vx vy vz]. change (@sround R RScalar) with rnd. rewrite T0, T1, T2.
    unfold tric_example. runfold.
    match goal with |- sqrt ?e = _ => replace e with (/2 * /2) by field end.
    apply sqrt_square; lra.
  - intros E. assert (H : sqrt (5/4) * sqrt (5/4) = 5/4) by (apply sqrt_sqrt; lra).
    rewrite E in H. lra.
Qed.

(* ---------- any non-singular box: the result is the length of SOME periodic image ---------- *)
Definition rounded_frac (v : V3 R) (Binv : M3 R) : Z * Z * Z :=
  let f := pbc_frac v Binv in (ZnearestE (vx f), ZnearestE (vy f), ZnearestE (vz f)).

Lemma pbc_wrap_image v B : mdet B <> 0 ->
  pbc_wrap v B (minvR B) = vsub v (lattice (rounded_frac v (minvR B)) B).
Proof.
  intros Hd. unfold pbc_wrap, lattice, rounded_frac. rewrite vecm_vsub.
  unfold pbc_frac. rewrite vecm_minv_l by exact Hd. reflexivity.
Qed.

Lemma distance_is_image self other B : self <> [] -> target_ok other -> mdet B <> 0 ->
  exists n : Z * Z * Z,
    distance_to self other (Some B) false
      = Ok (vnorm (vsub (vsub (tcenter other) (vmean self)) (lattice n B))).
Proof.
  intros Hs Ho Hd. rewrite distance_to_eq by assumption.
  rewrite (pbc_dist_false _ _ _ (minv_ok _ Hd)).
  eexists. rewrite pbc_wrap_image by exact Hd. reflexivity.
Qed.

Lemma example_singular : mdet (mkM (mk3 1 2 3) (mk3 2 4 6) (mk3 0 1 5) : M3 R) = 0.
Proof. runfold. ring. Qed.
