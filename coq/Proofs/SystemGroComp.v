(* C12, part 4: composition counts the iterated residues by name *)
From Coq Require Import ZArith String Bool Arith Lia List.
From GM Require Import Base.Res Model.SystemGro Proofs.SystemGroInit Proofs.SystemGroAccess Proofs.SystemGroMain.
Import ListNotations.
Local Open Scope nat_scope.

Lemma counter_get_add x y n c :
  counter_get x (counter_add y n c) = (if String.eqb x y then n else 0) + counter_get x c.
Proof.
  induction c as [|[m v] t IH]; simpl.
  - destruct (String.eqb x y); lia.
  - destruct (String.eqb y m) eqn:Eym; simpl.
    + apply String.eqb_eq in Eym. subst m. destruct (String.eqb x y); lia.
    + destruct (String.eqb x m) eqn:Exm.
      * apply String.eqb_eq in Exm. subst m.
        replace (String.eqb x y) with false; [lia|]. symmetry. rewrite String.eqb_sym. exact Eym.
      * exact IH.
Qed.

Lemma count_name_app x l1 l2 : count_name x (l1 ++ l2) = count_name x l1 + count_name x l2.
Proof. unfold count_name. rewrite filter_app, app_length. reflexivity. Qed.

Lemma run_names tpl idx tp k c : nth_error tpl idx = Some tp -> tkey tp = Some k ->
  forall g1, Forall2 (stands_for tpl) (repeat idx c) g1 ->
  forall x, count_name x g1 = if String.eqb x (fst k) then c else 0.
Proof.
  intros Ht Kt. induction c as [|c IH]; intros g1 F x; simpl in F.
  - inversion F. simpl. destruct (String.eqb x (fst k)); reflexivity.
  - inversion F as [|i g li lg [t' [H1 H2]] F']; subst. rewrite Ht in H1. inversion H1; subst t'.
    rewrite Kt in H2. change (g :: lg) with ([g] ++ lg). rewrite count_name_app, (IH lg F' x).
    destruct g as [|a g']; [discriminate|]. simpl in H2. inversion H2; subst k. unfold count_name. simpl.
    destruct (String.eqb x (a_resname a)); simpl; lia.
Qed.

Lemma composition_from_spec tpl ordered : forall gs acc,
  Forall (fun p => 1 <= snd p) ordered ->
  Forall2 (stands_for tpl) (flat_map (fun p => repeat (fst p) (snd p)) ordered) gs ->
  Forall (fun g => g <> []) gs ->
  exists c, composition_from tpl ordered acc = Ok c /\
            forall x, counter_get x c = counter_get x acc + count_name x gs.
Proof.
  induction ordered as [|[idx n] t IH]; intros gs acc C F N.
  - simpl in *. inversion F. exists acc. split; [reflexivity|]. intros x. unfold count_name. simpl. lia.
  - cbn [flat_map fst snd] in F. apply Forall2_app_inv_l in F. destruct F as [g1 [g2 [F1 [F2 ->]]]].
    inversion C as [|p q C1 C2]; subst. simpl in C1. destruct n as [|n]; [lia|].
    apply Forall_app in N. destruct N as [N1 N2].
    assert (Ht : exists tp g, nth_error tpl idx = Some tp /\ tkey tp = tkey g /\ g <> []).
    { simpl in F1. inversion F1 as [|x y lx ly [t' [H1 H2]] _]; subst. inversion N1; subst. eauto. }
    destruct Ht as [tp [g [Ht [Kt Ng]]]].
    destruct g as [|a g']; [contradiction|]. simpl in Kt.
    cbn [composition_from]. unfold nth_res. rewrite Ht. cbn [bind].
    assert (Rk : residue_key tp = Ok (a_resname a, length (a :: g'))) by (apply residue_key_tkey; exact Kt).
    rewrite Rk. cbn [bind fst].
    destruct (IH g2 (counter_add (a_resname a) (S n) acc) C2 F2 N2) as [c [Ec Hc]].
    exists c. split; [exact Ec|]. intros x. rewrite Hc, counter_get_add, count_name_app.
    rewrite (run_names tpl idx tp _ (S n) Ht Kt g1 F1 x). simpl fst. lia.
Qed.

Theorem composition_counts f st s st0 st1 rs :
  init f = (st, Ok s) -> iter_all f s st0 = (st1, Ok rs) ->
  exists c, composition s = Ok c /\ forall name, counter_get name c = count_name name rs.
Proof.
  intros H I. pose proof (iterated_is_split f st s st0 st1 rs H I) as ->.
  destruct (init_inv f st s H) as [N [W F]].
  assert (U : Forall (fun g : list atom => g <> []) (split_res (g_records f))).
  { destruct (g_records f) as [|a0 t0]; [contradiction|].
    pose proof (chain_all_key _ _ (split_res_chain a0 t0)) as U. rewrite Forall_forall in *.
    intros g Hg. destruct (U g Hg) as [k [Ng _]]. exact Ng. }
  destruct (composition_from_spec (s_templates s) (s_ordered s) _ [] (wf_counts s W) F U) as [c [Ec Hc]].
  exists c. split; [exact Ec|]. intros x. rewrite Hc. reflexivity.
Qed.
