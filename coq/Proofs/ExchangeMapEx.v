(* Concrete inputs meeting the hypotheses of the C01-C03 theorems (non-vacuity). *)
From GM Require Import Proofs.RTac Model.Aux Proofs.AuxR Model.ExchangeMap Proofs.ExchangeMapL Proofs.ExchangeMapR
  Proofs.ExchangeMapRigid.
Import ListNotations.
Local Open Scope R_scope.

(* three atoms in a chain 0-1-2 *)
Definition ex_g3 : graph := [[1%nat]; [0%nat; 2%nat]; [1%nat]].
(* exactly collinear and parallel to z: the witness of defect D1 *)
Definition ex_ref_z : list (V3 R) := [mk3 0 0 0; mk3 0 0 1; mk3 0 0 2].
(* bent, axis aligned *)
Definition ex_ref_bent : list (V3 R) := [mk3 1 0 0; mk3 0 0 0; mk3 0 1 0].

Lemma ex_g3_wf : graph_wf ex_g3.
Proof.
  intros a l Hl. destruct a as [|[|[|a]]]; simpl in Hl; try (destruct a; discriminate); inversion Hl; subst l.
  - split; [repeat constructor; simpl; intuition discriminate|]. split; [simpl; lia|]. simpl. intros j [<-|[]]; lia.
  - split; [repeat constructor; simpl; intuition discriminate|]. split; [simpl; lia|].
    simpl. intros j [<-|[<-|[]]]; lia.
  - split; [repeat constructor; simpl; intuition discriminate|]. split; [simpl; lia|]. simpl. intros j [<-|[]]; lia.
Qed.

Lemma ex_g3_anchors : anchors ex_g3 <> [].
Proof. cbv. discriminate. Qed.

Lemma ex_ref_z_ok : conf_ok ex_g3 ex_ref_z.
Proof.
  split; [reflexivity|]. split; [simpl; lia|].
  repeat constructor; simpl; try tauto; intros H;
    repeat (destruct H as [H|H]; [inversion H; lra|]); exact H.
Qed.

Lemma ex_ref_bent_ok : conf_ok ex_g3 ex_ref_bent.
Proof.
  split; [reflexivity|]. split; [simpl; lia|].
  repeat constructor; simpl; try tauto; intros H;
    repeat (destruct H as [H|H]; [inversion H; lra|]); exact H.
Qed.

(* a proper rotation: a quarter turn about z *)
Definition ex_Q : M3 R := mkM (mk3 0 (-1) 0) (mk3 1 0 0) (mk3 0 0 1).
Lemma ex_Q_so3 : SO3 ex_Q.
Proof. split; unfold ex_Q; runfold; [apply M3_eq; apply V3_eq; simpl; ring|ring]. Qed.

(* a sufficient condition for the regular branch *)
Lemma regular_intro (p0 p1 p2 : V3 R) : p0 <> p2 ->
  1 / 1000000 * vnorm (vsub p1 p0) < vnorm (vcross (unitv (vsub p2 p0)) (vsub p1 p0)) ->
  regular_triple p0 p1 p2.
Proof.
  intros Hne Hlt. unfold regular_triple, calcule_base_br.
  destruct (vnormalize_ok _ (sub_ne _ _ Hne)) as [E _]. rewrite E. cbn [bind].
  fold (unitv (vsub p2 p0)).
  set (n3 := vnorm (vcross (unitv (vsub p2 p0)) (vsub p1 p0))) in *.
  assert (Hb : @sleb R RScalar n3 (smul collinear_eps (vnorm (vsub p1 p0))) = false).
  { apply sleb_R_false. unfold collinear_eps. cbn [sofQ smul RScalar]. exact Hlt. }
  rewrite Hb.
  assert (Hz : @seqb R RScalar n3 s0 = false).
  { apply seqb_R_false. cbn [s0 RScalar]. assert (0 <= vnorm (vsub p1 p0)) by (unfold vnorm; apply sqrt_pos). lra. }
  rewrite Hz. cbn [bind]. eexists; reflexivity.
Qed.

Lemma ex_bent_regular : forall a, In a (anchors ex_g3) -> regular_at ex_g3 ex_ref_bent a.
Proof.
  intros a Ha. assert (a = 1%nat) by (cbv in Ha; destruct Ha as [<-|[]]; reflexivity). subst a.
  exists (mk3 0 0 0), (mk3 1 0 0), (mk3 0 1 0). split; [reflexivity|].
  apply regular_intro; [intros E; inversion E; lra|].
  assert (N1 : vnorm (vsub (mk3 0 1 0) (mk3 0 0 0)) = 1).
  { unfold vnorm. runfold. replace ((0-0)*(0-0)+(1-0)*(1-0)+(0-0)*(0-0)) with 1 by ring. apply sqrt_1. }
  unfold unitv. rewrite N1.
  assert (N2 : vnorm (vsub (mk3 1 0 0) (mk3 0 0 0)) = 1).
  { unfold vnorm. runfold. replace ((1-0)*(1-0)+(0-0)*(0-0)+(0-0)*(0-0)) with 1 by ring. apply sqrt_1. }
  rewrite N2.
  assert (N3 : vnorm (vcross (vdivs (vsub (mk3 0 1 0) (mk3 0 0 0)) 1) (vsub (mk3 1 0 0) (mk3 0 0 0))) = 1).
  { unfold vnorm. runfold.
    match goal with |- sqrt ?x = 1 => replace x with 1 by field end. apply sqrt_1. }
  rewrite N3. lra.
Qed.

Lemma ex_two_atoms : (mk3 0 0 0 : V3 R) <> mk3 0 0 1.
Proof. intros E; inversion E; lra. Qed.
Lemma ex_draw : (mk3 (1/2) (1/4) (3/4) : V3 R) <> vzero.
Proof. intros E; inversion E; lra. Qed.
