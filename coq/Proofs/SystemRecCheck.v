(* A boolean checker for the hypothesis [domain] of C11_exact, sound by reflection: the correspondence
   evaluates it on every generated in-domain file, so that on each of them the theorem applies by computation. *)
From Coq Require Import List Arith Bool Lia.
Import ListNotations.
From GM Require Import Base.Res Model.SystemRec Proofs.SystemRecScan Proofs.SystemRecDomain
     Proofs.SystemRecSort Proofs.SystemRecLoad.

Definition is_nil {A} (l : list A) : bool := match l with [] => true | _ => false end.
Definition mem (k : nat) (l : list nat) : bool := existsb (Nat.eqb k) l.

Lemma mem_in k l : In k l -> mem k l = true.
Proof. intros H. apply existsb_exists. exists k. split; auto. apply Nat.eqb_refl. Qed.

Lemma list_eqb_nat_eq a b : list_eqb Nat.eqb a b = true -> a = b.
Proof.
  revert b. induction a as [|x xs IH]; intros [|y ys]; simpl; intros H; try discriminate; auto.
  apply andb_true_iff in H as [H1 H2]. apply Nat.eqb_eq in H1. subst. f_equal. auto.
Qed.

Section Check.
Variables (v : groview) (tops : list top) (pats : list (list nat)).

Definition pats_ok_b : bool :=
  forallb (fun p => negb (is_nil p)) pats &&
  forallb (fun s => forallb (fun t => (s =? t) ||
                       forallb (fun k => negb (mem k (pat pats t))) (pat pats s))
                    (seq 0 (length pats))) (seq 0 (length pats)).

Lemma pat_in s : s < length pats -> In (pat pats s) pats.
Proof. intros H. unfold pat. apply nth_In. exact H. Qed.

Lemma pat_out s : length pats <= s -> pat pats s = [].
Proof. intros H. unfold pat. apply nth_overflow. exact H. Qed.

Lemma pats_ok_sound : pats_ok_b = true -> pats_ok pats.
Proof.
  unfold pats_ok_b. intros H. apply andb_true_iff in H as [H1 H2]. rewrite forallb_forall in H1, H2. split.
  - intros s Hs E. specialize (H1 _ (pat_in s Hs)). rewrite E in H1. discriminate.
  - intros s t k Hne Hs Ht.
    destruct (le_lt_dec (length pats) s) as [Hl|Hl]; [rewrite (pat_out s Hl) in Hs; contradiction|].
    destruct (le_lt_dec (length pats) t) as [Hl'|Hl']; [rewrite (pat_out t Hl') in Ht; contradiction|].
    assert (Is : In s (seq 0 (length pats))) by (apply in_seq; lia).
    assert (It : In t (seq 0 (length pats))) by (apply in_seq; lia).
    specialize (H2 s Is). rewrite forallb_forall in H2. specialize (H2 t It).
    apply orb_true_iff in H2 as [H2|H2]; [apply Nat.eqb_eq in H2; contradiction|].
    rewrite forallb_forall in H2. specialize (H2 k Hs). rewrite (mem_in k _ Ht) in H2. discriminate.
Qed.

Definition run_ok_b (r : run) : bool :=
  match r with
  | RInst s _ => s <? length pats
  | ROther k => forallb (fun p => negb (mem k p)) pats
  end.

Lemma run_ok_sound r : run_ok_b r = true -> run_ok pats r.
Proof.
  destruct r as [s m|k]; simpl; intros H.
  - apply Nat.ltb_lt. exact H.
  - intros s Hin. destruct (le_lt_dec (length pats) s) as [Hl|Hl]; [rewrite (pat_out s Hl) in Hin; contradiction|].
    rewrite forallb_forall in H. specialize (H _ (pat_in s Hl)). rewrite (mem_in k _ Hin) in H. discriminate.
Qed.

Fixpoint adjacent_b (runs : list run) : bool :=
  match runs with
  | [] => true
  | r :: rest =>
    match r, rest with
    | RInst s _, RInst t _ :: _ => negb (s =? t)
    | _, _ => true
    end && adjacent_b rest
  end.

Lemma adjacent_sound runs : adjacent_b runs = true -> adjacent_ok runs.
Proof.
  induction runs as [|r rest IH]; simpl; auto. intros H. apply andb_true_iff in H as [H1 H2]. split; auto.
  destruct r as [s m|k]; auto. destruct rest as [|[t m'|k'] rest']; auto.
  apply negb_true_iff, Nat.eqb_neq in H1. exact H1.
Qed.

Definition lookup_b : bool :=
  forallb (fun st => match lookup_pattern v (snd st) with
                     | Ok p => list_eqb Nat.eqb p (pat pats (fst st))
                     | Err _ => false
                     end) (combine (seq 0 (length tops)) tops).

Lemma nth_combine_seq {A} (l : list A) : forall k s t, nth_error l s = Some t ->
  In (k + s, t) (combine (seq k (length l)) l).
Proof.
  induction l as [|x xs IH]; intros k [|s] t H; simpl in *; try discriminate.
  - inversion H; subst. left. f_equal. lia.
  - right. replace (k + S s) with (S k + s) by lia. apply IH. exact H.
Qed.

Lemma lookup_sound : lookup_b = true -> forall s t, nth_error tops s = Some t -> lookup_pattern v t = Ok (pat pats s).
Proof.
  unfold lookup_b. intros H s t Hn. rewrite forallb_forall in H.
  specialize (H (s, t) (nth_combine_seq tops 0 s t Hn)). simpl in H.
  destruct (lookup_pattern v t) as [p|]; [|discriminate]. apply list_eqb_nat_eq in H. subst. reflexivity.
Qed.

Fixpoint runs_match_b (rs : list run) (pos : nat) : bool :=
  match rs with
  | [] => true
  | r :: rest =>
    match r with
    | RInst s m =>
      match nth_error tops s with
      | Some t => forallb (fun j => mol_match t (firstn (plen pats s) (skipn (pos + j * plen pats s) (gv_res v))))
                          (seq 0 (S m))
      | None => true
      end
    | ROther _ => true
    end && runs_match_b rest (pos + run_len pats r)
  end.

Lemma runs_match_sound rs : forall pos, runs_match_b rs pos = true -> runs_match v tops pats rs pos.
Proof.
  induction rs as [|r rest IH]; intros pos H; cbn [runs_match_b runs_match] in *; auto.
  apply andb_true_iff in H as [H1 H2]. split; [|apply IH; exact H2].
  destruct r as [s m|k]; auto. intros t j Ht Hj. rewrite Ht in H1. rewrite forallb_forall in H1.
  apply H1. apply in_seq. lia.
Qed.

Definition domain_check (runs : list run) : bool :=
  (length tops =? length pats) && pats_ok_b && lookup_b && forallb run_ok_b runs && adjacent_b runs &&
  list_eqb onat_eqb (map Some (gv_stream v)) (stream pats (fun _ => false) runs) &&
  (length (gv_res v) =? length (gv_stream v)) && runs_match_b runs 0.

Theorem domain_check_sound runs : domain_check runs = true -> domain v tops pats runs.
Proof.
  unfold domain_check. intros H.
  repeat (apply andb_true_iff in H as [H ?]).
  constructor.
  - apply Nat.eqb_eq. assumption.
  - apply pats_ok_sound. assumption.
  - apply lookup_sound. assumption.
  - apply Forall_forall. intros r Hr. apply run_ok_sound.
    match goal with Hf : forallb run_ok_b runs = true |- _ => rewrite forallb_forall in Hf; apply Hf; exact Hr end.
  - apply adjacent_sound. assumption.
  - apply list_eqb_onat_eq. assumption.
  - apply Nat.eqb_eq. assumption.
  - apply runs_match_sound. assumption.
Qed.

End Check.

(* the patterns are read off the view: pats = the kinds the topologies' keys resolve to *)
Definition domain_check_file (file : list residue) (tops : list top) (runs : list run) : bool :=
  match view_of file with
  | Ok v =>
    match mapM (lookup_pattern v) tops with
    | Ok pats => domain_check v tops pats runs
    | Err _ => false
    end
  | Err _ => false
  end.

Theorem domain_check_file_sound file tops runs : domain_check_file file tops runs = true ->
  exists v pats, view_of file = Ok v /\ domain v tops pats runs.
Proof.
  unfold domain_check_file. destruct (view_of file) as [v|]; [|discriminate].
  destruct (mapM (lookup_pattern v) tops) as [pats|]; [|discriminate].
  intros H. exists v, pats. split; auto. apply domain_check_sound. exact H.
Qed.

(* the harness describes the file by its ground truth: [HInst s m] = S m adjacent instances of species s,
   [HOther] = one unrelated residue (its kind is read off the view) *)
Inductive hrun := HInst (s m : nat) | HOther.

Fixpoint to_runs (pats : list (list nat)) (ks : list nat) (hs : list hrun) (pos : nat) : list run :=
  match hs with
  | [] => []
  | HInst s m :: rest => RInst s m :: to_runs pats ks rest (pos + S m * plen pats s)
  | HOther :: rest => ROther (nth pos ks 0) :: to_runs pats ks rest (pos + 1)
  end.

Definition domain_check_truth (file : list residue) (tops : list top) (hs : list hrun) : bool :=
  match view_of file with
  | Ok v =>
    match mapM (lookup_pattern v) tops with
    | Ok pats => domain_check v tops pats (to_runs pats (gv_stream v) hs 0)
    | Err _ => false
    end
  | Err _ => false
  end.

Theorem domain_check_truth_sound file tops hs : domain_check_truth file tops hs = true ->
  exists v pats runs, view_of file = Ok v /\ domain v tops pats runs.
Proof.
  unfold domain_check_truth. destruct (view_of file) as [v|]; [|discriminate].
  destruct (mapM (lookup_pattern v) tops) as [pats|]; [|discriminate].
  intros H. exists v, pats, (to_runs pats (gv_stream v) hs 0). split; auto. apply domain_check_sound. exact H.
Qed.

(* correspondence case: 0 = the generated file is in the domain of C11_exact *)
Definition chk_domain (file : list (nat * list nat)) (tops : list top) (hs : list hrun) : nat :=
  if domain_check_truth (map (fun r => mkRes (fst r) (snd r)) file) tops hs then 0 else 1.
