(* One line of an .itp file: the parser of Model/Itp.v (parse_itp_line, parse_line, line_of) against the
   parser-free description of Proofs/ItpSpec.v (spec_entry, is_hdr, fields_of).
   Part 1: string lemmas (strip, split_ws, last_is, removelast).
   Part 2: L1 parse_line_entry, L2 parse_line_complete, L3 spec_entry_add_nl, L4 is_hdr_char / re_header_char,
           L5 line_roundtrip, L6 line_reparse / line_reparse_nl. *)
From Coq Require Import List Ascii Bool Arith Lia ZArith.
From GM Require Import Base.Res Base.StrItp Model.Itp Proofs.ItpSpec.
Import ListNotations.
Local Open Scope char_scope.

(* ================================================================ characters *)
Lemma sp_semi : is_space ";" = false. Proof. reflexivity. Qed.
Lemma sp_hash : is_space "#" = false. Proof. reflexivity. Qed.
Lemma sp_lbr : is_space "[" = false. Proof. reflexivity. Qed.
Lemma sp_rbr : is_space "]" = false. Proof. reflexivity. Qed.
Lemma sp_blank : is_space " " = true. Proof. reflexivity. Qed.
Lemma sp_nl : is_space ch_nl = true. Proof. reflexivity. Qed.

(* ================================================================ generic list facts *)
Lemma forallb_rev {A} (p : A -> bool) (l : list A) : forallb p (rev l) = forallb p l.
Proof.
  destruct (forallb p l) eqn:E.
  - apply forallb_forall. intros x Hx. apply in_rev in Hx.
    rewrite forallb_forall in E. apply E. exact Hx.
  - destruct (forallb p (rev l)) eqn:E2; [|reflexivity].
    rewrite forallb_forall in E2.
    assert (forallb p l = true) as F.
    { apply forallb_forall. intros x Hx. apply E2. apply in_rev in Hx. exact Hx. }
    congruence.
Qed.

Lemma In_removelast {A} (x : A) (s : list A) : In x (removelast s) -> In x s.
Proof.
  induction s as [|a s IH]; simpl; [tauto|].
  destruct s as [|b s]; [simpl; tauto|].
  intros [H|H]; [left; exact H | right; apply IH; exact H].
Qed.

Lemma In_removelast_iff {A} (x : A) (s : list A) :
  In x (removelast s) <-> exists a b, s = a ++ x :: b /\ b <> [].
Proof.
  split.
  - intros H. destruct s as [|y s']; [simpl in H; tauto|].
    assert (y :: s' <> []) as N by discriminate.
    pose proof (app_removelast_last y N) as E.
    apply in_split in H. destruct H as [a [b' Hab]].
    exists a, (b' ++ [last (y :: s') y]). split.
    + rewrite E at 1. rewrite Hab. rewrite <- app_assoc. reflexivity.
    + intros F. apply app_eq_nil in F. destruct F as [_ F]. discriminate.
  - intros [a [b [E N]]]. subst s.
    rewrite removelast_app by discriminate.
    apply in_or_app. right. destruct b as [|z b]; [contradiction|]. simpl. left. reflexivity.
Qed.

(* ================================================================ dropwhile / takewhile *)
Lemma dropwhile_all p w : forallb p w = true -> dropwhile p w = [].
Proof.
  induction w as [|c w IH]; simpl; [reflexivity|].
  intros H. apply andb_true_iff in H. destruct H as [H1 H2]. rewrite H1. apply IH. exact H2.
Qed.

Lemma dropwhile_app_all p w s : forallb p w = true -> dropwhile p (w ++ s) = dropwhile p s.
Proof.
  induction w as [|c w IH]; simpl; [reflexivity|].
  intros H. apply andb_true_iff in H. destruct H as [H1 H2]. rewrite H1. apply IH. exact H2.
Qed.

Lemma dropwhile_app_stop p a c b : p c = false -> dropwhile p (a ++ c :: b) = dropwhile p a ++ c :: b.
Proof.
  intros H. induction a as [|x a IH]; simpl.
  - rewrite H. reflexivity.
  - destruct (p x); [exact IH | reflexivity].
Qed.

Lemma take_drop p s : takewhile p s ++ dropwhile p s = s.
Proof.
  induction s as [|c s IH]; simpl; [reflexivity|].
  destruct (p c); simpl; [rewrite IH|]; reflexivity.
Qed.

Lemma takewhile_all p s : forallb p (takewhile p s) = true.
Proof.
  induction s as [|c s IH]; simpl; [reflexivity|].
  destruct (p c) eqn:E; simpl; [rewrite E; exact IH | reflexivity].
Qed.

Lemma dropwhile_head p s c r : dropwhile p s = c :: r -> p c = false.
Proof.
  induction s as [|x s IH]; simpl; [discriminate|].
  destruct (p x) eqn:E; [exact IH|]. intros H. inversion H; subst. exact E.
Qed.

Lemma dropwhile_nil p s : dropwhile p s = [] <-> forallb p s = true.
Proof.
  split; [|apply dropwhile_all].
  induction s as [|x s IH]; simpl; [reflexivity|].
  destruct (p x); [exact IH | discriminate].
Qed.

Lemma takewhile_app_all p a b : forallb p a = true -> takewhile p (a ++ b) = a ++ takewhile p b.
Proof.
  induction a as [|x a IH]; simpl; [reflexivity|].
  intros H. apply andb_true_iff in H. destruct H as [H1 H2]. rewrite H1. rewrite IH by exact H2. reflexivity.
Qed.

Lemma takewhile_snoc_stop p a c : p c = false -> takewhile p (a ++ [c]) = takewhile p a.
Proof.
  intros H. induction a as [|x a IH]; simpl.
  - rewrite H. reflexivity.
  - destruct (p x); [rewrite IH|]; reflexivity.
Qed.

Lemma In_takewhile p c s : In c (takewhile p s) -> In c s.
Proof.
  induction s as [|x s IH]; simpl; [tauto|].
  destruct (p x); simpl; [|tauto]. intros [H|H]; [left; exact H | right; apply IH; exact H].
Qed.

(* ================================================================ lstrip / rstrip / strip *)
Lemma lstrip_cases s :
  (forallb is_space s = true /\ lstrip s = []) \/
  (exists w c r, s = w ++ c :: r /\ forallb is_space w = true /\ is_space c = false /\ lstrip s = c :: r).
Proof.
  unfold lstrip. destruct (dropwhile is_space s) as [|c r] eqn:D.
  - left. split; [apply dropwhile_nil; exact D | reflexivity].
  - right. exists (takewhile is_space s), c, r. split; [|split; [|split]].
    + rewrite <- D. symmetry. apply take_drop.
    + apply takewhile_all.
    + eapply dropwhile_head. exact D.
    + reflexivity.
Qed.

Lemma lstrip_all w : forallb is_space w = true -> lstrip w = [].
Proof. apply dropwhile_all. Qed.

Lemma lstrip_app_space w s : forallb is_space w = true -> lstrip (w ++ s) = lstrip s.
Proof. apply dropwhile_app_all. Qed.

Lemma lstrip_cons_stop c s : is_space c = false -> lstrip (c :: s) = c :: s.
Proof. intros H. unfold lstrip. simpl. rewrite H. reflexivity. Qed.

Lemma lstrip_app_stop w c r x : forallb is_space w = true -> is_space c = false ->
  lstrip ((w ++ c :: r) ++ x) = c :: r ++ x.
Proof.
  intros Hw Hc. rewrite <- app_assoc. rewrite lstrip_app_space by exact Hw.
  simpl. apply lstrip_cons_stop. exact Hc.
Qed.

Lemma rstrip_nil : rstrip [] = [].
Proof. reflexivity. Qed.

Lemma rstrip_all w : forallb is_space w = true -> rstrip w = [].
Proof.
  intros H. unfold rstrip. rewrite dropwhile_all; [reflexivity|]. rewrite forallb_rev. exact H.
Qed.

Lemma rstrip_app_space s w : forallb is_space w = true -> rstrip (s ++ w) = rstrip s.
Proof.
  intros H. unfold rstrip. rewrite rev_app_distr.
  rewrite dropwhile_app_all; [reflexivity|]. rewrite forallb_rev. exact H.
Qed.

Lemma rstrip_app_stop a c b : is_space c = false -> rstrip (a ++ c :: b) = a ++ c :: rstrip b.
Proof.
  intros H. unfold rstrip. rewrite rev_app_distr. simpl. rewrite <- app_assoc. simpl.
  rewrite dropwhile_app_stop by exact H.
  rewrite rev_app_distr. simpl. rewrite rev_involutive. rewrite <- app_assoc. reflexivity.
Qed.

Lemma rstrip_snoc_space s c : is_space c = true -> rstrip (s ++ [c]) = rstrip s.
Proof. intros H. apply rstrip_app_space. simpl. rewrite H. reflexivity. Qed.

Lemma rstrip_snoc_nonspace s c : is_space c = false -> rstrip (s ++ [c]) = s ++ [c].
Proof. intros H. rewrite rstrip_app_stop by exact H. reflexivity. Qed.

Lemma rstrip_decomp s : exists w, s = rstrip s ++ w /\ forallb is_space w = true.
Proof.
  exists (rev (takewhile is_space (rev s))). split.
  - unfold rstrip. rewrite <- rev_app_distr. rewrite take_drop. symmetry. apply rev_involutive.
  - rewrite forallb_rev. apply takewhile_all.
Qed.

Lemma rstrip_last s : rstrip s = [] \/ exists r c, rstrip s = r ++ [c] /\ is_space c = false.
Proof.
  unfold rstrip. destruct (dropwhile is_space (rev s)) as [|c r] eqn:D.
  - left. reflexivity.
  - right. exists (rev r), c. split; [reflexivity|]. eapply dropwhile_head. exact D.
Qed.

Lemma strip_all w : forallb is_space w = true -> strip w = [].
Proof. intros H. unfold strip. rewrite lstrip_all by exact H. reflexivity. Qed.

Lemma strip_nil : strip [] = [].
Proof. reflexivity. Qed.

Lemma strip_app_space_l w s : forallb is_space w = true -> strip (w ++ s) = strip s.
Proof. intros H. unfold strip. rewrite lstrip_app_space by exact H. reflexivity. Qed.

Lemma strip_cons_stop c s : is_space c = false -> strip (c :: s) = c :: rstrip s.
Proof.
  intros H. unfold strip. rewrite lstrip_cons_stop by exact H.
  apply (rstrip_app_stop [] c s H).
Qed.

Lemma strip_cons_space c s : is_space c = true -> strip (c :: s) = strip s.
Proof. intros H. apply (strip_app_space_l [c] s). simpl. rewrite H. reflexivity. Qed.

Lemma strip_app_space_r s w : forallb is_space w = true -> strip (s ++ w) = strip s.
Proof.
  intros H. destruct (lstrip_cases s) as [[Hs _]|[u [c [r [E [Hu [Hc _]]]]]]].
  - rewrite (strip_all s Hs). apply strip_all. rewrite forallb_app. rewrite Hs, H. reflexivity.
  - subst s. rewrite <- app_assoc.
    rewrite (strip_app_space_l u ((c :: r) ++ w) Hu). rewrite (strip_app_space_l u (c :: r) Hu).
    simpl. rewrite (strip_cons_stop c (r ++ w) Hc). rewrite (strip_cons_stop c r Hc).
    f_equal. apply rstrip_app_space. exact H.
Qed.

Lemma strip_sandwich w1 s w2 : forallb is_space w1 = true -> forallb is_space w2 = true ->
  strip (w1 ++ s ++ w2) = strip s.
Proof.
  intros H1 H2. rewrite strip_app_space_l by exact H1. apply strip_app_space_r. exact H2.
Qed.

Lemma strip_decomp s : exists w1 w2, s = w1 ++ strip s ++ w2 /\
  forallb is_space w1 = true /\ forallb is_space w2 = true.
Proof.
  destruct (rstrip_decomp (lstrip s)) as [w2 [E2 H2]].
  exists (takewhile is_space s), w2. split; [|split].
  - unfold strip. rewrite <- E2. unfold lstrip. symmetry. apply take_drop.
  - apply takewhile_all.
  - exact H2.
Qed.

Lemma strip_idem s : strip (strip s) = strip s.
Proof.
  destruct (strip_decomp s) as [w1 [w2 [E [H1 H2]]]].
  pose proof (strip_sandwich w1 (strip s) w2 H1 H2) as P.
  rewrite <- E in P. symmetry. exact P.
Qed.

Lemma strip_nil_iff s : strip s = [] <-> is_blank s = true.
Proof.
  unfold is_blank. split; [|apply strip_all].
  intros H. destruct (strip_decomp s) as [w1 [w2 [E [H1 H2]]]].
  rewrite H in E. simpl in E. subst s. rewrite forallb_app, H1, H2. reflexivity.
Qed.

Lemma strip_head_nonspace s c r : strip s = c :: r -> is_space c = false.
Proof.
  destruct (lstrip_cases s) as [[Hs _]|[u [x [y [E [Hu [Hx _]]]]]]].
  - rewrite strip_all by exact Hs. discriminate.
  - subst s. rewrite strip_app_space_l by exact Hu. rewrite strip_cons_stop by exact Hx.
    intros H. inversion H; subst. exact Hx.
Qed.

Lemma strip_last_nonspace s : strip s = [] \/ exists r c, strip s = r ++ [c] /\ is_space c = false.
Proof. unfold strip. apply rstrip_last. Qed.

Lemma allsp_In c w : forallb is_space w = true -> In c w -> is_space c = true.
Proof. intros H. rewrite forallb_forall in H. apply H. Qed.

Lemma In_rstrip c s : is_space c = false -> (In c (rstrip s) <-> In c s).
Proof.
  intros Hc. destruct (rstrip_decomp s) as [w [E Hw]]. split.
  - intros H. rewrite E. apply in_or_app. left. exact H.
  - intros H. rewrite E in H. apply in_app_or in H. destruct H as [H|H]; [exact H|].
    apply (allsp_In c w Hw) in H. congruence.
Qed.

Lemma In_strip c s : is_space c = false -> (In c (strip s) <-> In c s).
Proof.
  intros Hc. destruct (strip_decomp s) as [w1 [w2 [E [H1 H2]]]]. split.
  - intros H. rewrite E. apply in_or_app. right. apply in_or_app. left. exact H.
  - intros H. rewrite E in H. apply in_app_or in H. destruct H as [H|H].
    + apply (allsp_In c w1 H1) in H. congruence.
    + apply in_app_or in H. destruct H as [H|H]; [exact H|].
      apply (allsp_In c w2 H2) in H. congruence.
Qed.

Lemma blank_not_In c s : is_space c = false -> is_blank s = true -> ~ In c s.
Proof. intros Hc Hs H. apply (allsp_In c s Hs) in H. congruence. Qed.

(* ================================================================ split_ws *)
Lemma split_ws_app_space_l w s : forallb is_space w = true -> split_ws (w ++ s) = split_ws s.
Proof.
  induction w as [|c w IH]; [reflexivity|].
  intros H. simpl in H. apply andb_true_iff in H. destruct H as [H1 H2].
  change ((c :: w) ++ s) with (c :: (w ++ s)). simpl. rewrite H1. apply IH. exact H2.
Qed.

Lemma split_ws_cons c r :
  split_ws (c :: r) =
  if is_space c then split_ws r
  else match r with
       | [] => [[c]]
       | c' :: _ => if is_space c' then [c] :: split_ws r else cons_first c (split_ws r)
       end.
Proof. reflexivity. Qed.

Lemma split_ws_all w : forallb is_space w = true -> split_ws w = [].
Proof.
  intros H. rewrite <- (app_nil_r w). rewrite split_ws_app_space_l by exact H. reflexivity.
Qed.

Lemma split_ws_app_space_r s w : forallb is_space w = true -> split_ws (s ++ w) = split_ws s.
Proof.
  intros H. induction s as [|c r IH].
  - simpl. apply split_ws_all. exact H.
  - change ((c :: r) ++ w) with (c :: (r ++ w)).
    rewrite (split_ws_cons c (r ++ w)), (split_ws_cons c r).
    destruct (is_space c); [exact IH|].
    destruct r as [|c' r'].
    + change ([] ++ w) with w. destruct w as [|x w']; [reflexivity|].
      assert (split_ws (x :: w') = []) as E by (apply split_ws_all; exact H).
      rewrite E. simpl in H. apply andb_true_iff in H. destruct H as [Hx Hw]. rewrite Hx. reflexivity.
    + rewrite IH. change ((c' :: r') ++ w) with (c' :: (r' ++ w)). reflexivity.
Qed.

Lemma split_ws_cons_nonspace c r : is_space c = false -> split_ws (c :: r) <> [].
Proof.
  intros H. simpl. rewrite H. destruct r as [|c' r']; [discriminate|].
  destruct (is_space c'); [discriminate|].
  destruct (split_ws (c' :: r')); discriminate.
Qed.

Lemma split_ws_nil_iff s : split_ws s = [] <-> is_blank s = true.
Proof.
  unfold is_blank. split; [|apply split_ws_all].
  induction s as [|c r IH]; [reflexivity|].
  intros H. destruct (is_space c) eqn:E.
  - simpl. rewrite E. simpl. apply IH. simpl in H. rewrite E in H. exact H.
  - exfalso. exact (split_ws_cons_nonspace c r E H).
Qed.

Lemma split_ws_strip s : split_ws (strip s) = split_ws s.
Proof.
  destruct (strip_decomp s) as [w1 [w2 [E [H1 H2]]]].
  rewrite E at 2. rewrite split_ws_app_space_l by exact H1.
  rewrite split_ws_app_space_r by exact H2. reflexivity.
Qed.

(* ================================================================ startswith / last_is / removelast *)
Lemma startswith_app c a b : a <> [] -> startswith c (a ++ b) = startswith c a.
Proof. destruct a; [contradiction | reflexivity]. Qed.

Lemma startswith_In c s : startswith c s = true -> In c s.
Proof.
  destruct s as [|x r]; simpl; [discriminate|].
  intros H. apply Ascii.eqb_eq in H. left. exact H.
Qed.

Lemma startswith_true c s : startswith c s = true -> exists r, s = c :: r.
Proof.
  destruct s as [|x r]; simpl; [discriminate|].
  intros H. apply Ascii.eqb_eq in H. subst. exists r. reflexivity.
Qed.

Lemma last_is_snoc c a x : last_is c (a ++ [x]) = Ascii.eqb x c.
Proof. unfold last_is, last_opt. rewrite rev_app_distr. reflexivity. Qed.

Lemma last_is_app c a b : b <> [] -> last_is c (a ++ b) = last_is c b.
Proof.
  intros N. unfold last_is, last_opt. rewrite rev_app_distr.
  destruct (rev b) as [|x r] eqn:E; [|reflexivity].
  exfalso. apply N. rewrite <- (rev_involutive b). rewrite E. reflexivity.
Qed.

Lemma last_is_true c l : last_is c l = true -> l = removelast l ++ [c].
Proof.
  unfold last_is, last_opt. destruct (rev l) as [|x r] eqn:E; [discriminate|].
  intros H. apply Ascii.eqb_eq in H. subst x.
  assert (l = rev r ++ [c]) as L.
  { rewrite <- (rev_involutive l). rewrite E. reflexivity. }
  rewrite L at 2. rewrite removelast_last. exact L.
Qed.

Lemma last_is_In c l : last_is c l = true -> In c l.
Proof.
  intros H. apply last_is_true in H. rewrite H. apply in_or_app. right. left. reflexivity.
Qed.

Lemma In_removelast_or_last c l : In c l -> In c (removelast l) \/ last_is c l = true.
Proof.
  intros H. destruct l as [|y s]; [contradiction|].
  assert (y :: s <> []) as N by discriminate.
  pose proof (app_removelast_last y N) as E.
  rewrite E in H. apply in_app_or in H. destruct H as [H|H]; [left; exact H|].
  right. rewrite E. rewrite last_is_snoc. destruct H as [H|[]]. rewrite H. apply Ascii.eqb_refl.
Qed.

Lemma not_In_of_removelast_last c l : ~ In c (removelast l) -> last_is c l = false -> ~ In c l.
Proof.
  intros H1 H2 H. apply In_removelast_or_last in H. destruct H as [H|H]; [tauto | congruence].
Qed.

(* ================================================================ parse_itp_line by cases *)
Lemma blank_re_header s : is_blank s = true -> re_header s = false.
Proof.
  destruct s as [|c r]; [reflexivity|]. unfold is_blank. simpl.
  intros H. apply andb_true_iff in H. destruct H as [H _].
  destruct (Ascii.eqb c "[") eqn:E; [|reflexivity].
  apply Ascii.eqb_eq in E. subst c. rewrite sp_lbr in H. discriminate.
Qed.

Lemma blank_startswith c s : is_space c = false -> is_blank s = true -> startswith c s = false.
Proof.
  intros Hc Hs. destruct (startswith c s) eqn:E; [|reflexivity].
  apply startswith_In in E. exfalso. exact (blank_not_In c s Hc Hs E).
Qed.

Inductive pil_case (l c m : str) : Prop :=
| PBlank : is_blank l = true -> c = [] -> m = [] -> pil_case l c m
| PDir : is_blank l = false -> startswith "#" l = true -> c = [] -> m = l -> pil_case l c m
| PSemi0 : startswith "#" l = false -> l = ";" :: m -> c = [] -> pil_case l c m
| PSemi : startswith "#" l = false -> l = c ++ ";" :: m -> ~ In ";" c -> c <> [] -> m <> [] -> pil_case l c m
| PSemiLast : startswith "#" l = false -> l = c ++ [";"] -> ~ In ";" c -> c <> [] -> m = [] -> pil_case l c m
| PNone : is_blank l = false -> startswith "#" l = false -> ~ In ";" l -> c = l -> m = [] -> pil_case l c m.

Lemma parse_itp_line_cases l c m :
  parse_itp_line l = Ok (c, m) -> pil_case l c m /\ re_header l = false.
Proof.
  unfold parse_itp_line. destruct (is_blank l) eqn:B.
  { intros H. inversion H; subst. split; [apply PBlank; auto | apply blank_re_header; exact B]. }
  destruct (re_header l) eqn:R; [discriminate|].
  destruct (startswith "#" l) eqn:S.
  { intros H. inversion H; subst. split; [apply PDir; auto | reflexivity]. }
  destruct (startswith ";" l) eqn:S2.
  { intros H. inversion H; subst. split; [|reflexivity].
    apply startswith_true in S2. destruct S2 as [r E]. subst l. apply PSemi0; auto. }
  destruct (mem ";" (removelast l)) eqn:M.
  { destruct (cut_at ";" l) as [[a b]|] eqn:C; [|discriminate].
    intros H. inversion H; subst. split; [|reflexivity].
    apply cut_at_some in C. destruct C as [E N]. apply PSemi; auto.
    - intros F. subst c. subst l. simpl in S2. discriminate.
    - intros F. subst m. subst l. rewrite removelast_last in M. apply mem_In in M. contradiction. }
  apply mem_false in M.
  destruct (last_is ";" l) eqn:La.
  { intros H. inversion H; subst. split; [|reflexivity].
    apply last_is_true in La. apply PSemiLast; auto.
    intros F. rewrite F in La. simpl in La. rewrite La in S2. simpl in S2. discriminate. }
  intros H. inversion H; subst. split; [|reflexivity].
  apply PNone; auto. apply not_In_of_removelast_last; assumption.
Qed.

Lemma parse_itp_line_total l : re_header l = false -> exists c m, parse_itp_line l = Ok (c, m).
Proof.
  intros R. unfold parse_itp_line. rewrite R.
  destruct (is_blank l); [eauto|].
  destruct (startswith "#" l); [eauto|].
  destruct (startswith ";" l); [eauto|].
  destruct (mem ";" (removelast l)) eqn:M.
  - apply mem_In in M. apply In_removelast in M.
    destruct (cut_at ";" l) as [[a b]|] eqn:C; [eauto|].
    apply cut_at_none in C. contradiction.
  - destruct (last_is ";" l); eauto.
Qed.

(* ================================================================ spec_entry by cases *)
Lemma spec_entry_dir l : startswith "#" l = true -> spec_entry l = ([], strip l).
Proof. intros H. unfold spec_entry. rewrite H. reflexivity. Qed.

Lemma spec_entry_cut a b : startswith "#" (a ++ ";" :: b) = false -> ~ In ";" a ->
  spec_entry (a ++ ";" :: b) = (split_ws a, strip b).
Proof. intros H N. unfold spec_entry. rewrite H. rewrite cut_at_app by exact N. reflexivity. Qed.

Lemma spec_entry_nosemi l : startswith "#" l = false -> ~ In ";" l -> spec_entry l = (split_ws l, []).
Proof.
  intros H N. unfold spec_entry. rewrite H. apply cut_at_none in N. rewrite N. reflexivity.
Qed.

Lemma spec_entry_blank l : is_blank l = true -> spec_entry l = ([], []).
Proof.
  intros B. rewrite spec_entry_nosemi.
  - rewrite (proj2 (split_ws_nil_iff l) B). reflexivity.
  - apply blank_startswith; [reflexivity | exact B].
  - apply blank_not_In; [reflexivity | exact B].
Qed.

Lemma pil_case_entry l c m : pil_case l c m -> (split_ws (strip c), strip m) = spec_entry l.
Proof.
  intros [B Ec Em | B S Ec Em | S El Ec | S El N Nc Nm | S El N Nc Em | B S N Ec Em].
  - subst. rewrite spec_entry_blank by exact B. reflexivity.
  - subst. rewrite spec_entry_dir by exact S. reflexivity.
  - subst. change (";" :: m) with ([] ++ ";" :: m) in *.
    rewrite (spec_entry_cut [] m S) by (simpl; tauto). reflexivity.
  - subst l. rewrite spec_entry_cut by assumption. rewrite split_ws_strip. reflexivity.
  - subst. rewrite spec_entry_cut by assumption. rewrite split_ws_strip. reflexivity.
  - subst. rewrite spec_entry_nosemi by assumption. rewrite split_ws_strip. reflexivity.
Qed.

(* ================================================================ parse_line *)
Definition fields_expr (k : kind) (c : str) : res fields :=
  match k with
  | KPlain => Ok FNone
  | KAtom => if nonempty (strip c) then let* a := atom_fields (split_ws (strip c)) in Ok (FAtom a) else Ok FNone
  | KBond => if nonempty (strip c) then bond_fields (split_ws (strip c)) else Ok FNone
  | KMol => if nonempty (strip c) then mol_fields (split_ws (strip c)) else Ok FNone
  end.

Lemma fields_expr_eq k c : fields_expr k c = fields_of k (split_ws (strip c)).
Proof.
  unfold fields_expr. destruct (strip c) as [|x r] eqn:E.
  - simpl. destruct k; reflexivity.
  - apply strip_head_nonspace in E.
    pose proof (split_ws_cons_nonspace x r E) as N.
    destruct (split_ws (x :: r)) as [|t ts]; [contradiction|].
    simpl. destruct k; reflexivity.
Qed.

Lemma parse_line_unfold k l :
  parse_line k l =
  let* cm := parse_itp_line l in
  let* f := fields_expr k (fst cm) in
  Ok {| p_content := fst cm; p_comment := snd cm; p_directive := startswith "#" l; p_fields := f |}.
Proof. reflexivity. Qed.

Lemma parse_line_inv k l p : parse_line k l = Ok p ->
  parse_itp_line l = Ok (p_content p, p_comment p) /\
  fields_of k (split_ws (strip (p_content p))) = Ok (p_fields p) /\
  p_directive p = startswith "#" l.
Proof.
  rewrite parse_line_unfold. intros H.
  apply bind_ok in H. destruct H as [[c m] [H1 H2]].
  apply bind_ok in H2. destruct H2 as [f [H2 H3]]. inversion H3; subst. simpl in *.
  rewrite fields_expr_eq in H2. auto.
Qed.

Lemma parse_line_intro k l c m f : parse_itp_line l = Ok (c, m) ->
  fields_of k (split_ws (strip c)) = Ok f ->
  parse_line k l = Ok {| p_content := c; p_comment := m; p_directive := startswith "#" l; p_fields := f |}.
Proof.
  intros H1 H2. rewrite parse_line_unfold. rewrite H1. simpl.
  rewrite fields_expr_eq. rewrite H2. reflexivity.
Qed.

(* L1 *)
Lemma parse_line_entry : forall k l p, parse_line k l = Ok p ->
  entry_of p = spec_entry l /\
  fields_of k (fst (spec_entry l)) = Ok (p_fields p) /\
  p_directive p = startswith "#" l /\
  parse_itp_line l = Ok (p_content p, p_comment p) /\
  re_header l = false.
Proof.
  intros k l p H. apply parse_line_inv in H. destruct H as [H1 [H2 H3]].
  pose proof (parse_itp_line_cases _ _ _ H1) as [C R].
  apply pil_case_entry in C.
  assert (entry_of p = spec_entry l) as E by exact C.
  split; [exact E|]. split; [|auto].
  rewrite <- C. exact H2.
Qed.

(* L2 *)
Lemma parse_line_complete : forall k l f, re_header l = false ->
  fields_of k (fst (spec_entry l)) = Ok f -> exists p, parse_line k l = Ok p.
Proof.
  intros k l f R F. destruct (parse_itp_line_total l R) as [c [m H]].
  pose proof (parse_itp_line_cases _ _ _ H) as [C _]. apply pil_case_entry in C.
  rewrite <- C in F. simpl in F.
  eexists. apply (parse_line_intro k l c m f H F).
Qed.

(* ================================================================ L3: a newline added at the end *)
Lemma cut_at_snoc d s x : x <> d ->
  cut_at d (s ++ [x]) = match cut_at d s with Some (a, b) => Some (a, b ++ [x]) | None => None end.
Proof.
  intros N. induction s as [|c r IH]; simpl.
  - destruct (Ascii.eqb x d) eqn:E; [apply Ascii.eqb_eq in E; contradiction | reflexivity].
  - destruct (Ascii.eqb c d); [reflexivity|]. rewrite IH.
    destruct (cut_at d r) as [[a b]|]; reflexivity.
Qed.

Lemma strip_snoc_space s c : is_space c = true -> strip (s ++ [c]) = strip s.
Proof. intros H. apply strip_app_space_r. simpl. rewrite H. reflexivity. Qed.

Lemma split_ws_snoc_space s c : is_space c = true -> split_ws (s ++ [c]) = split_ws s.
Proof. intros H. apply split_ws_app_space_r. simpl. rewrite H. reflexivity. Qed.

Lemma re_header_snoc_nl l : re_header (l ++ [ch_nl]) = re_header l.
Proof.
  destruct l as [|c r]; [reflexivity|]. simpl.
  rewrite takewhile_snoc_stop by reflexivity. reflexivity.
Qed.

Lemma is_hdr_snoc_nl l : is_hdr (l ++ [ch_nl]) = is_hdr l.
Proof. unfold is_hdr. rewrite strip_snoc_space by reflexivity. reflexivity. Qed.

Lemma startswith_snoc c l x : x <> c -> startswith c (l ++ [x]) = startswith c l.
Proof.
  intros N. destruct l as [|y r]; [|reflexivity]. simpl.
  destruct (Ascii.eqb x c) eqn:E; [apply Ascii.eqb_eq in E; contradiction | reflexivity].
Qed.

Lemma spec_entry_snoc_nl l : spec_entry (l ++ [ch_nl]) = spec_entry l.
Proof.
  unfold spec_entry. rewrite startswith_snoc by discriminate.
  destruct (startswith "#" l).
  - rewrite strip_snoc_space by reflexivity. reflexivity.
  - rewrite cut_at_snoc by discriminate.
    destruct (cut_at ";" l) as [[a b]|].
    + rewrite strip_snoc_space by reflexivity. reflexivity.
    + rewrite split_ws_snoc_space by reflexivity. reflexivity.
Qed.

Lemma spec_entry_add_nl : forall l, l <> [] -> ~ In ch_nl l ->
  spec_entry (l ++ [ch_nl]) = spec_entry l /\
  is_hdr (l ++ [ch_nl]) = is_hdr l /\
  re_header (l ++ [ch_nl]) = re_header l.
Proof.
  intros l _ _. split; [apply spec_entry_snoc_nl|]. split; [apply is_hdr_snoc_nl | apply re_header_snoc_nl].
Qed.

(* ================================================================ L4: the shape of header lines *)
Definition hd_shape (s : str) : bool :=
  match s with d :: r => Ascii.eqb d "[" && mem "]" r | [] => false end.

Lemma hd_shape_iff s : hd_shape s = true <-> exists r, s = "[" :: r /\ In "]" r.
Proof.
  destruct s as [|d r]; simpl.
  - split; [discriminate | intros [r [E _]]; discriminate].
  - rewrite andb_true_iff. rewrite Ascii.eqb_eq. rewrite mem_In. split.
    + intros [E H]. subst d. exists r. auto.
    + intros [r' [E H]]. inversion E; subst. auto.
Qed.

Lemma re_header_shape s : re_header s = true -> hd_shape s = true.
Proof.
  destruct s as [|d r]; simpl; [auto|].
  intros H. apply andb_true_iff in H. destruct H as [H1 H2]. rewrite H1. simpl.
  apply mem_In. apply mem_In in H2. eapply In_takewhile. exact H2.
Qed.

Lemma In_takewhile_not_nl c r : c <> ch_nl -> ~ In ch_nl (removelast r) -> In c r ->
  In c (takewhile not_nl r).
Proof.
  intros Nc. induction r as [|x r IH]; [simpl; tauto|].
  intros N H. assert (not_nl x = true -> In c (takewhile not_nl (x :: r))) as K.
  { intros T. simpl. rewrite T. destruct H as [H|H]; [left; exact H|]. right. apply IH; [|exact H].
    destruct r as [|y r']; [simpl; tauto|]. intros F. apply N. simpl. right. exact F. }
  destruct r as [|y r'].
  - destruct H as [H|[]]. subst x. apply K. unfold not_nl.
    destruct (Ascii.eqb c ch_nl) eqn:E; [apply Ascii.eqb_eq in E; contradiction | reflexivity].
  - apply K. unfold not_nl. destruct (Ascii.eqb x ch_nl) eqn:E; [|reflexivity].
    apply Ascii.eqb_eq in E. exfalso. apply N. simpl. left. exact E.
Qed.

Lemma shape_re_header s : ~ In ch_nl (removelast s) -> hd_shape s = true -> re_header s = true.
Proof.
  destruct s as [|d r]; simpl; [auto|].
  intros N H. apply andb_true_iff in H. destruct H as [H1 H2]. rewrite H1. simpl.
  apply mem_In. apply mem_In in H2. apply In_takewhile_not_nl; [discriminate | | exact H2].
  destruct r as [|y r']; [simpl; tauto|]. intros F. apply N. right. exact F.
Qed.

Lemma removelast_strip_In x l : In x (removelast (strip l)) -> In x (removelast l).
Proof.
  intros H. apply In_removelast_iff in H. destruct H as [a [b [E N]]].
  destruct (strip_decomp l) as [w1 [w2 [El _]]].
  apply In_removelast_iff. exists (w1 ++ a), (b ++ w2). split.
  - rewrite El at 1. rewrite E. rewrite <- !app_assoc. reflexivity.
  - intros F. apply app_eq_nil in F. destruct F as [F _]. contradiction.
Qed.

Lemma strip_lstrip_cons l c r : lstrip l = c :: r -> strip l = c :: rstrip r /\ is_space c = false.
Proof.
  intros L. destruct (lstrip_cases l) as [[_ E]|[w [c' [r' [_ [_ [Hc E]]]]]]]; [congruence|].
  rewrite L in E. inversion E; subst c' r'. split; [|exact Hc].
  unfold strip. rewrite L. apply (rstrip_app_stop [] c r Hc).
Qed.

Lemma is_hdr_shape l : is_hdr l = true -> hd_shape (lstrip l) = true.
Proof.
  unfold is_hdr. intros H. apply re_header_shape in H.
  destruct (lstrip l) as [|c r] eqn:L.
  - unfold strip in H. rewrite L in H. simpl in H. discriminate.
  - destruct (strip_lstrip_cons l c r L) as [E _]. rewrite E in H. simpl in *.
    apply andb_true_iff in H. destruct H as [H1 H2]. rewrite H1. simpl.
    apply mem_In. apply mem_In in H2. apply (proj1 (In_rstrip "]" r sp_rbr)). exact H2.
Qed.

Lemma shape_is_hdr l : ~ In ch_nl (removelast l) -> hd_shape (lstrip l) = true -> is_hdr l = true.
Proof.
  intros N H. unfold is_hdr. apply shape_re_header.
  - intros F. apply N. apply removelast_strip_In. exact F.
  - destruct (lstrip l) as [|c r] eqn:L; [discriminate|].
    destruct (strip_lstrip_cons l c r L) as [E _]. rewrite E. simpl in *.
    apply andb_true_iff in H. destruct H as [H1 H2]. rewrite H1. simpl.
    apply mem_In. apply mem_In in H2. apply (proj2 (In_rstrip "]" r sp_rbr)). exact H2.
Qed.

Lemma is_hdr_shape_iff l : line_ok l -> (is_hdr l = true <-> hd_shape (lstrip l) = true).
Proof. intros [_ N]. split; [apply is_hdr_shape | apply shape_is_hdr; exact N]. Qed.

Lemma re_header_shape_iff l : line_ok l -> (re_header l = true <-> hd_shape l = true).
Proof. intros [_ N]. split; [apply re_header_shape | apply shape_re_header; exact N]. Qed.

Lemma lstrip_shape_iff l : hd_shape (lstrip l) = true <->
  exists w r, l = w ++ "[" :: r /\ forallb is_space w = true /\ In "]" r.
Proof.
  rewrite hd_shape_iff. split.
  - intros [r [E H]]. destruct (lstrip_cases l) as [[_ L]|[w [c [r' [El [Hw [_ L]]]]]]]; [congruence|].
    rewrite L in E. inversion E; subst. exists w, r. auto.
  - intros [w [r [E [Hw H]]]]. exists r. split; [|exact H]. subst l.
    rewrite lstrip_app_space by exact Hw. apply lstrip_cons_stop. reflexivity.
Qed.

Lemma is_hdr_char : forall l, line_ok l ->
  (is_hdr l = true <->
   exists w r, l = w ++ "[" :: r /\ forallb is_space w = true /\ In "]" r).
Proof. intros l H. rewrite (is_hdr_shape_iff l H). apply lstrip_shape_iff. Qed.

Lemma re_header_char : forall l, line_ok l ->
  (re_header l = true <-> exists r, l = "[" :: r /\ In "]" r).
Proof. intros l H. rewrite (re_header_shape_iff l H). apply hd_shape_iff. Qed.

Lemma re_header_is_hdr l : line_ok l -> re_header l = true -> is_hdr l = true.
Proof.
  intros H R. apply (is_hdr_char l H). apply (re_header_char l H) in R.
  destruct R as [r [E I]]. exists [], r. auto.
Qed.

Lemma is_hdr_false_re_header l : line_ok l -> is_hdr l = false -> re_header l = false.
Proof.
  intros H F. destruct (re_header l) eqn:R; [|reflexivity].
  apply (re_header_is_hdr l H) in R. congruence.
Qed.

(* ================================================================ L5: the round trip of one line *)
Definition line_cm (c m : str) (d : bool) : str :=
  if nonempty (strip m) then (if d then m else c ++ ";" :: " " :: m) else c ++ m.

Lemma line_of_cm p : line_of p = line_cm (p_content p) (p_comment p) (p_directive p).
Proof. reflexivity. Qed.

Definition rt_ok (l l' : str) : Prop :=
  l' <> [] /\ ~ In ch_nl (removelast l') /\ last_is ch_nl l' = last_is ch_nl l /\
  is_hdr l' = false /\ re_header l' = false /\ spec_entry l' = spec_entry l.

Lemma rt_ok_intro l l' : line_ok l -> is_hdr l = false ->
  l' <> [] -> ~ In ch_nl (removelast l') -> last_is ch_nl l' = last_is ch_nl l ->
  (hd_shape (lstrip l') = true -> hd_shape (lstrip l) = true) ->
  spec_entry l' = spec_entry l -> rt_ok l l'.
Proof.
  intros Hl Hh N1 N2 La Sh Sp.
  assert (is_hdr l' = false) as Hh'.
  { destruct (is_hdr l') eqn:E; [|reflexivity].
    apply is_hdr_shape in E. apply Sh in E. apply (shape_is_hdr l (proj2 Hl)) in E. congruence. }
  unfold rt_ok. repeat split; try assumption.
  apply is_hdr_false_re_header; [split; assumption | exact Hh'].
Qed.

Lemma rt_ok_refl l : line_ok l -> is_hdr l = false -> rt_ok l l.
Proof.
  intros Hl Hh. apply rt_ok_intro; auto; [exact (proj1 Hl) | exact (proj2 Hl)].
Qed.

Lemma tail_transfer a a' m : m <> [] -> (In ch_nl a' -> In ch_nl a) ->
  ~ In ch_nl (removelast (a ++ m)) ->
  ~ In ch_nl (removelast (a' ++ m)) /\ last_is ch_nl (a' ++ m) = last_is ch_nl (a ++ m).
Proof.
  intros Nm Ha N. split.
  - rewrite removelast_app in * by exact Nm. intros F. apply N.
    apply in_app_or in F. apply in_or_app. destruct F as [F|F]; [left; apply Ha; exact F | right; exact F].
  - rewrite !last_is_app by exact Nm. reflexivity.
Qed.

Lemma mem_app c a b : mem c (a ++ b) = mem c a || mem c b.
Proof. unfold mem. apply existsb_app. Qed.

Lemma shape_app c X X' : mem "]" X' = mem "]" X -> hd_shape (lstrip X') = false ->
  hd_shape (lstrip (c ++ X')) = true -> hd_shape (lstrip (c ++ X)) = true.
Proof.
  intros M F. destruct (lstrip_cases c) as [[Hc _]|[w [d [r [E [Hw [Hd _]]]]]]].
  - rewrite (lstrip_app_space c X' Hc). congruence.
  - subst c. rewrite !lstrip_app_stop by assumption. simpl.
    rewrite !mem_app. rewrite M. auto.
Qed.

Lemma nonblank_ne s : is_blank s = false -> s <> [].
Proof. intros H E. subst s. discriminate. Qed.

Lemma strip_cons_ne s x r : strip s = x :: r -> s <> [].
Proof. intros H E. subst s. discriminate. Qed.

Lemma pil_case_roundtrip l c m : pil_case l c m -> line_ok l -> is_hdr l = false ->
  (line_cm c m (startswith "#" l) = [] /\ entry_nonblank (spec_entry l) = false) \/
  rt_ok l (line_cm c m (startswith "#" l)).
Proof.
  intros [B Ec Em | B S Ec Em | S El Ec | S El N Nc Nm | S El N Nc Em | B S N Ec Em] Hl Hh.
  - (* blank *)
    left. subst c m. split; [reflexivity|]. rewrite spec_entry_blank by exact B. reflexivity.
  - (* directive *)
    right. subst c m. unfold line_cm. rewrite S.
    destruct (strip l) as [|x r] eqn:E.
    + apply strip_nil_iff in E. congruence.
    + simpl. apply rt_ok_refl; assumption.
  - (* ';' in column 0 *)
    subst c. unfold line_cm. rewrite S.
    assert (spec_entry l = ([], strip m)) as Sp.
    { subst l. apply (spec_entry_cut [] m S). simpl. tauto. }
    destruct (strip m) as [|x r] eqn:E; simpl.
    + assert (is_blank m = true) as Bm by (apply strip_nil_iff; exact E).
      destruct m as [|y m'] eqn:Em.
      * left. split; [reflexivity|]. rewrite Sp. reflexivity.
      * right. rewrite <- Em in *. assert (m <> []) as Nm by (rewrite Em; discriminate).
        destruct (tail_transfer [";"] [] m Nm) as [T1 T2].
        { simpl. tauto. } { change ([";"] ++ m) with (";" :: m). rewrite <- El. exact (proj2 Hl). }
        apply rt_ok_intro; try assumption.
        -- rewrite El. exact T2.
        -- rewrite (lstrip_all m Bm). discriminate.
        -- rewrite Sp. apply spec_entry_blank. exact Bm.
    + right. assert (m <> []) as Nm by (eapply strip_cons_ne; exact E).
      destruct (tail_transfer [";"] [";"; " "] m Nm) as [T1 T2].
      { simpl. intros [F|[F|[]]]; discriminate. }
      { change ([";"] ++ m) with (";" :: m). rewrite <- El. exact (proj2 Hl). }
      apply rt_ok_intro; try assumption.
      * discriminate.
      * rewrite El. exact T2.
      * rewrite (lstrip_cons_stop ";" (" " :: m) sp_semi). discriminate.
      * rewrite Sp. change (";" :: " " :: m) with ([] ++ ";" :: (" " :: m)).
        rewrite (spec_entry_cut [] (" " :: m)); [|reflexivity|simpl; tauto]. simpl split_ws.
        rewrite (strip_cons_space " " m sp_blank). rewrite E. reflexivity.
  - (* ';' inside *)
    right. unfold line_cm. rewrite S.
    assert (spec_entry l = (split_ws c, strip m)) as Sp.
    { subst l. apply spec_entry_cut; assumption. }
    assert (startswith "#" c = false) as Sc.
    { rewrite El in S. rewrite startswith_app in S by exact Nc. exact S. }
    assert (l = (c ++ [";"]) ++ m) as El2.
    { rewrite El. rewrite <- app_assoc. reflexivity. }
    assert (~ In ch_nl (removelast ((c ++ [";"]) ++ m))) as Nl.
    { rewrite <- El2. exact (proj2 Hl). }
    destruct (strip m) as [|x r] eqn:E; simpl.
    + assert (is_blank m = true) as Bm by (apply strip_nil_iff; exact E).
      destruct (tail_transfer (c ++ [";"]) c m Nm) as [T1 T2]; [|exact Nl|].
      { intros F. apply in_or_app. left. exact F. }
      apply rt_ok_intro; try assumption.
      * intros F. apply app_eq_nil in F. destruct F as [F _]. contradiction.
      * rewrite El2. exact T2.
      * rewrite El. apply shape_app; [reflexivity|]. rewrite (lstrip_all m Bm). reflexivity.
      * rewrite Sp. rewrite spec_entry_nosemi.
        -- rewrite split_ws_app_space_r by exact Bm. reflexivity.
        -- rewrite startswith_app by exact Nc. exact Sc.
        -- intros F. apply in_app_or in F. destruct F as [F|F]; [contradiction|].
           exact (blank_not_In ";" m sp_semi Bm F).
    + destruct (tail_transfer (c ++ [";"]) (c ++ [";"; " "]) m Nm) as [T1 T2]; [|exact Nl|].
      { intros F. apply in_app_or in F. apply in_or_app. destruct F as [F|F]; [left; exact F|].
        simpl in F. destruct F as [F|[F|[]]]; discriminate. }
      replace (c ++ ";" :: " " :: m) with ((c ++ [";"; " "]) ++ m) by (rewrite <- app_assoc; reflexivity).
      apply rt_ok_intro; try assumption.
      * intros F. apply app_eq_nil in F. destruct F as [_ F]. contradiction.
      * rewrite El2. exact T2.
      * rewrite El. rewrite <- app_assoc. apply shape_app; [reflexivity|].
        change ([";"; " "] ++ m) with (";" :: " " :: m).
        rewrite (lstrip_cons_stop ";" (" " :: m) sp_semi). reflexivity.
      * rewrite Sp. rewrite <- app_assoc. change ([";"; " "] ++ m) with (";" :: " " :: m).
        rewrite spec_entry_cut; [| rewrite startswith_app by exact Nc; exact Sc | exact N].
        rewrite (strip_cons_space " " m sp_blank). rewrite E. reflexivity.
  - (* ';' last *)
    right. subst m. unfold line_cm. rewrite S. simpl. rewrite app_nil_r.
    assert (spec_entry l = (split_ws c, [])) as Sp.
    { subst l. rewrite spec_entry_cut; [reflexivity | exact S | exact N]. }
    assert (startswith "#" c = false) as Sc.
    { rewrite El in S. rewrite startswith_app in S by exact Nc. exact S. }
    assert (~ In ch_nl c) as Nn.
    { pose proof (proj2 Hl) as K. rewrite El in K. rewrite removelast_last in K. exact K. }
    apply rt_ok_intro; try assumption.
    + intros F. apply Nn. apply In_removelast. exact F.
    + rewrite El. rewrite last_is_snoc. simpl.
      destruct (last_is ch_nl c) eqn:La; [|reflexivity]. apply last_is_In in La. contradiction.
    + rewrite El. rewrite <- (app_nil_r c) at 1. apply shape_app; reflexivity.
    + rewrite Sp. apply spec_entry_nosemi; assumption.
  - (* no ';' *)
    right. subst c m. unfold line_cm. rewrite S. simpl. rewrite app_nil_r.
    apply rt_ok_refl; assumption.
Qed.

Lemma line_roundtrip : forall k l p, line_ok l -> is_hdr l = false -> parse_line k l = Ok p ->
  let l' := line_of p in
  (l' = [] /\ entry_nonblank (spec_entry l) = false) \/
  (l' <> [] /\ ~ In ch_nl (removelast l') /\ (last_is ch_nl l' = last_is ch_nl l) /\
   is_hdr l' = false /\ re_header l' = false /\ spec_entry l' = spec_entry l).
Proof.
  intros k l p Hl Hh H. apply parse_line_inv in H. destruct H as [H1 [_ H3]].
  apply parse_itp_line_cases in H1. destruct H1 as [C _].
  simpl. rewrite line_of_cm. rewrite H3.
  exact (pil_case_roundtrip l _ _ C Hl Hh).
Qed.

(* ================================================================ L6: parsing the written line again *)
Lemma fields_of_entry_eq : forall k l l', spec_entry l' = spec_entry l ->
  fields_of k (fst (spec_entry l')) = fields_of k (fst (spec_entry l)).
Proof. intros k l l' H. rewrite H. reflexivity. Qed.

Lemma reparse_of_entry k l p x : parse_line k l = Ok p ->
  re_header x = false -> spec_entry x = spec_entry l ->
  exists p', parse_line k x = Ok p' /\ entry_of p' = entry_of p /\ p_fields p' = p_fields p.
Proof.
  intros H R Sp. destruct (parse_line_entry k l p H) as [E [F _]].
  rewrite <- (fields_of_entry_eq k l x Sp) in F.
  destruct (parse_line_complete k x _ R F) as [p' H'].
  exists p'. split; [exact H'|].
  destruct (parse_line_entry k x p' H') as [E' [F' _]].
  split; [congruence|]. rewrite F in F'. inversion F'. reflexivity.
Qed.

Lemma line_reparse : forall k l p, line_ok l -> is_hdr l = false -> parse_line k l = Ok p ->
  line_of p <> [] ->
  exists p', parse_line k (line_of p) = Ok p' /\ entry_of p' = entry_of p /\ p_fields p' = p_fields p.
Proof.
  intros k l p Hl Hh H N.
  destruct (line_roundtrip k l p Hl Hh H) as [[E _]|[_ [_ [_ [_ [R Sp]]]]]]; [contradiction|].
  exact (reparse_of_entry k l p (line_of p) H R Sp).
Qed.

Lemma line_reparse_nl : forall k l p, line_ok l -> is_hdr l = false -> parse_line k l = Ok p ->
  line_of p <> [] -> last_is ch_nl (line_of p) = false ->
  exists p', parse_line k (line_of p ++ [ch_nl]) = Ok p' /\ entry_of p' = entry_of p /\
             p_fields p' = p_fields p.
Proof.
  intros k l p Hl Hh H N La.
  destruct (line_roundtrip k l p Hl Hh H) as [[E _]|[_ [Nn [_ [_ [R Sp]]]]]]; [contradiction|].
  assert (~ In ch_nl (line_of p)) as Nn' by (apply not_In_of_removelast_last; assumption).
  destruct (spec_entry_add_nl (line_of p) N Nn') as [S1 [_ S3]].
  apply (reparse_of_entry k l p (line_of p ++ [ch_nl]) H); congruence.
Qed.
