(* One line of an .itp file: the parser of Model/Itp.v (parse_itp_line, parse_line, line_of) against the
   parser-free description of Proofs/ItpSpec.v (spec_entry, is_hdr, fields_of).
   Part 1: string lemmas (strip, split_ws, last_is, removelast).
   Part 2: L1 parse_line_entry, L2 parse_line_complete, L3 spec_entry_add_nl, L4 is_hdr_char / re_header_char,
           L5 line_roundtrip, L6 line_reparse / line_reparse_nl. *)
From Coq Require Import List Ascii Bool Arith Lia ZArith.
From GM Require Import Base.Res Base.StrItp Model.Itp Proofs.ItpSpec.
Import ListNotations.
Local Open Scope char_scope.

(* ================================================================ characters *)
Lemma sp_semi : is_space ";" = false. Proof. reflexivity. Qed.
Lemma sp_hash : is_space "#" = false. Proof. reflexivity. Qed.
Lemma sp_lbr : is_space "[" = false. Proof. reflexivity. Qed.
Lemma sp_rbr : is_space "]" = false. Proof. reflexivity. Qed.
Lemma sp_blank : is_space " " = true. Proof. reflexivity. Qed.
Lemma sp_nl : is_space ch_nl = true. Proof. reflexivity. Qed.

(* ================================================================ generic list facts *)
Lemma forallb_rev {A} (p : A -> bool) (l : list A) : forallb p (rev l) = forallb p l.
Proof.
  destruct (forallb p l) eqn:E.
  - apply forallb_forall. intros x Hx. apply in_rev in Hx.
    rewrite forallb_forall in E. apply E. exact Hx.
  - destruct (forallb p (rev l)) eqn:E2; [|reflexivity].
    rewrite forallb_forall in E2.
    assert (forallb p l = true) as F.
    { apply forallb_forall. intros x Hx. apply E2. apply in_rev in Hx. exact Hx. }
    congruence.
Qed.

Lemma In_removelast {A} (x : A) (s : list A) : In x (removelast s) -> In x s.
Proof.
  induction s as [|a s IH]; simpl; [tauto|].
  destruct s as [|b s]; [simpl; tauto|].
  intros [H|H]; [left; exact H | right; apply IH; exact H].
Qed.

Lemma In_removelast_iff {A} (x : A) (s : list A) :
  In x (removelast s) <-> exists a b, s = a ++ x :: b /\ b <> [].
Proof.
  split.
  - intros H. destruct s as [|y s']; [simpl in H; tauto|].
    assert (y :: s' <> []) as N by discriminate.
    pose proof (app_removelast_last y N) as E.
    apply in_split in H. destruct H as [a [b' Hab]].
    exists a, (b' ++ [last (y :: s') y]). split.
    + rewrite E at 1. rewrite Hab. rewrite <- app_assoc. reflexivity.
    + intros F. apply app_eq_nil in F. destruct F as [_ F]. discriminate.
  - intros [a [b [E N]]]. subst s.
    rewrite removelast_app by discriminate.
    apply in_or_app. right. destruct b as [|z b]; [contradiction|]. simpl. left. reflexivity.
Qed.

(* ================================================================ dropwhile / takewhile *)
Lemma dropwhile_all p w : forallb p w = true -> dropwhile p w = [].
Proof.
  induction w as [|c w IH]; simpl; [reflexivity|].
  intros H. apply andb_true_iff in H. destruct H as [H1 H2]. rewrite H1. apply IH. exact H2.
Qed.

Lemma dropwhile_app_all p w s : forallb p w = true -> dropwhile p (w ++ s) = dropwhile p s.
Proof.
  induction w as [|c w IH]; simpl; [reflexivity|].
  intros H. apply andb_true_iff in H. destruct H as [H1 H2]. rewrite H1. apply IH. exact H2.
Qed.

Lemma dropwhile_app_stop p a c b : p c = false -> dropwhile p (a ++ c :: b) = dropwhile p a ++ c :: b.
Proof.
  intros H. induction a as [|x a IH]; simpl.
  - rewrite H. reflexivity.
  - destruct (p x); [exact IH | reflexivity].
Qed.

Lemma take_drop p s : takewhile p s ++ dropwhile p s = s.
Proof.
  induction s as [|c s IH]; simpl; [reflexivity|].
  destruct (p c); simpl; [rewrite IH|]; reflexivity.
Qed.

Lemma takewhile_all p s : forallb p (takewhile p s) = true.
Proof.
  induction s as [|c s IH]; simpl; [reflexivity|].
  destruct (p c) eqn:E; simpl; [rewrite E; exact IH | reflexivity].
Qed.

Lemma dropwhile_head p s c r : dropwhile p s = c :: r -> p c = false.
Proof.
  induction s as [|x s IH]; simpl; [discriminate|].
  destruct (p x) eqn:E; [exact IH|]. intros H. inversion H; subst. exact E.
Qed.

Lemma dropwhile_nil p s : dropwhile p s = [] <-> forallb p s = true.
Proof.
  split; [|apply dropwhile_all].
  induction s as [|x s IH]; simpl; [reflexivity|].
  destruct (p x); [exact IH | discriminate].
Qed.

Lemma takewhile_app_all p a b : forallb p a = true -> takewhile p (a ++ b) = a ++ takewhile p b.
Proof.
  induction a as [|x a IH]; simpl; [reflexivity|].
  intros H. apply andb_true_iff in H. destruct H as [H1 H2]. rewrite H1. rewrite IH by exact H2. reflexivity.
Qed.

Lemma takewhile_snoc_stop p a c : p c = false -> takewhile p (a ++ [c]) = takewhile p a.
Proof.
  intros H. induction a as [|x a IH]; simpl.
  - rewrite H. reflexivity.
  - destruct (p x); [rewrite IH|]; reflexivity.
Qed.

Lemma In_takewhile p c s : In c (takewhile p s) -> In c s.
Proof.
  induction s as [|x s IH]; simpl; [tauto|].
  destruct (p x); simpl; [|tauto]. intros [H|H]; [left; exact H | right; apply IH; exact H].
Qed.

(* ================================================================ lstrip / rstrip / strip *)
Lemma lstrip_cases s :
  (forallb is_space s = true /\ lstrip s = []) \/
  (exists w c r, s = w ++ c :: r /\ forallb is_space w = true /\ is_space c = false /\ lstrip s = c :: r).
Proof.
  unfold lstrip. destruct (dropwhile is_space s) as [|c r] eqn:D.
  - left. split; [apply dropwhile_nil; exact D | reflexivity].
  - right. exists (takewhile is_space s), c, r. split; [|split; [|split]].
    + rewrite <- D. symmetry. apply take_drop.
    + apply takewhile_all.
    + eapply dropwhile_head. exact D.
    + reflexivity.
Qed.

Lemma lstrip_all w : forallb is_space w = true -> lstrip w = [].
Proof. apply dropwhile_all. Qed.

Lemma lstrip_app_space w s : forallb is_space w = true -> lstrip (w ++ s) = lstrip s.
Proof. apply dropwhile_app_all. Qed.

Lemma lstrip_cons_stop c s : is_space c = false -> lstrip (c :: s) = c :: s.
Proof. intros H. unfold lstrip. simpl. rewrite H. reflexivity. Qed.

Lemma lstrip_app_stop w c r x : forallb is_space w = true -> is_space c = false ->
  lstrip ((w ++ c :: r) ++ x) = c :: r ++ x.
Proof.
  intros Hw Hc. rewrite <- app_assoc. rewrite lstrip_app_space by exact Hw.
  simpl. apply lstrip_cons_stop. exact Hc.
Qed.

Lemma rstrip_nil : rstrip [] = [].
Proof. reflexivity. Qed.

Lemma rstrip_all w : forallb is_space w = true -> rstrip w = [].
Proof.
  intros H. unfold rstrip. rewrite dropwhile_all; [reflexivity|]. rewrite forallb_rev. exact H.
Qed.

Lemma rstrip_app_space s w : forallb is_space w = true -> rstrip (s ++ w) = rstrip s.
Proof.
  intros H. unfold rstrip. rewrite rev_app_distr.
  rewrite dropwhile_app_all; [reflexivity|]. rewrite forallb_rev. exact H.
Qed.

Lemma rstrip_app_stop a c b : is_space c = false -> rstrip (a ++ c :: b) = a ++ c :: rstrip b.
Proof.
  intros H. unfold rstrip. rewrite rev_app_distr. simpl. rewrite <- app_assoc. simpl.
  rewrite dropwhile_app_stop by exact H.
  rewrite rev_app_distr. simpl. rewrite rev_involutive. rewrite <- app_assoc. reflexivity.
Qed.

Lemma rstrip_snoc_space s c : is_space c = true -> rstrip (s ++ [c]) = rstrip s.
Proof. intros H. apply rstrip_app_space. simpl. rewrite H. reflexivity. Qed.

Lemma rstrip_snoc_nonspace s c : is_space c = false -> rstrip (s ++ [c]) = s ++ [c].
Proof. intros H. rewrite rstrip_app_stop by exact H. reflexivity. Qed.

Lemma rstrip_decomp s : exists w, s = rstrip s ++ w /\ forallb is_space w = true.
Proof.
  exists (rev (takewhile is_space (rev s))). split.
  - unfold rstrip. rewrite <- rev_app_distr. rewrite take_drop. symmetry. apply rev_involutive.
  - rewrite forallb_rev. apply takewhile_all.
Qed.

Lemma rstrip_last s : rstrip s = [] \/ exists r c, rstrip s = r ++ [c] /\ is_space c = false.
Proof.
  unfold rstrip. destruct (dropwhile is_space (rev s)) as [|c r] eqn:D.
  - left. reflexivity.
  - right. exists (rev r), c. split; [reflexivity|]. eapply dropwhile_head. exact D.
Qed.

Lemma strip_all w : forallb is_space w = true -> strip w = [].
Proof. intros H. unfold strip. rewrite lstrip_all by exact H. reflexivity. Qed.

Lemma strip_nil : strip [] = [].
Proof. reflexivity. Qed.

Lemma strip_app_space_l w s : forallb is_space w = true -> strip (w ++ s) = strip s.
Proof. intros H. unfold strip. rewrite lstrip_app_space by exact H. reflexivity. Qed.

Lemma strip_cons_stop c s : is_space c = false -> strip (c :: s) = c :: rstrip s.
Proof.
  intros H. unfold strip. rewrite lstrip_cons_stop by exact H.
  apply (rstrip_app_stop [] c s H).
Qed.

Lemma strip_cons_space c s : is_space c = true -> strip (c :: s) = strip s.
Proof. intros H. apply (strip_app_space_l [c] s). simpl. rewrite H. reflexivity. Qed.

Lemma strip_app_space_r s w : forallb is_space w = true -> strip (s ++ w) = strip s.
Proof.
  intros H. destruct (lstrip_cases s) as [[Hs _]|[u [c [r [E [Hu [Hc _]]]]]]].
  - rewrite (strip_all s Hs). apply strip_all. rewrite forallb_app. rewrite Hs, H. reflexivity.
  - subst s. rewrite <- app_assoc. rewrite !strip_app_space_l by exact Hu.
    simpl. rewrite !strip_cons_stop by exact Hc. f_equal. apply rstrip_app_space. exact H.
Qed.

Lemma strip_sandwich w1 s w2 : forallb is_space w1 = true -> forallb is_space w2 = true ->
  strip (w1 ++ s ++ w2) = strip s.
Proof.
  intros H1 H2. rewrite strip_app_space_l by exact H1. apply strip_app_space_r. exact H2.
Qed.

Lemma strip_decomp s : exists w1 w2, s = w1 ++ strip s ++ w2 /\
  forallb is_space w1 = true /\ forallb is_space w2 = true.
Proof.
  destruct (rstrip_decomp (lstrip s)) as [w2 [E2 H2]].
  exists (takewhile is_space s), w2. split; [|split].
  - unfold strip. rewrite <- E2. unfold lstrip. symmetry. apply take_drop.
  - apply takewhile_all.
  - exact H2.
Qed.

Lemma strip_idem s : strip (strip s) = strip s.
Proof.
  destruct (strip_decomp s) as [w1 [w2 [E [H1 H2]]]].
  pose proof (strip_sandwich w1 (strip s) w2 H1 H2) as P.
  rewrite <- E in P. symmetry. exact P.
Qed.

Lemma strip_nil_iff s : strip s = [] <-> is_blank s = true.
Proof.
  unfold is_blank. split; [|apply strip_all].
  intros H. destruct (strip_decomp s) as [w1 [w2 [E [H1 H2]]]].
  rewrite H in E. simpl in E. subst s. rewrite forallb_app, H1, H2. reflexivity.
Qed.

Lemma strip_head_nonspace s c r : strip s = c :: r -> is_space c = false.
Proof.
  destruct (lstrip_cases s) as [[Hs _]|[u [x [y [E [Hu [Hx _]]]]]]].
  - rewrite strip_all by exact Hs. discriminate.
  - subst s. rewrite strip_app_space_l by exact Hu. rewrite strip_cons_stop by exact Hx.
    intros H. inversion H; subst. exact Hx.
Qed.

Lemma strip_last_nonspace s : strip s = [] \/ exists r c, strip s = r ++ [c] /\ is_space c = false.
Proof. unfold strip. apply rstrip_last. Qed.

Lemma allsp_In c w : forallb is_space w = true -> In c w -> is_space c = true.
Proof. intros H. rewrite forallb_forall in H. apply H. Qed.

Lemma In_rstrip c s : is_space c = false -> (In c (rstrip s) <-> In c s).
Proof.
  intros Hc. destruct (rstrip_decomp s) as [w [E Hw]]. split.
  - intros H. rewrite E. apply in_or_app. left. exact H.
  - intros H. rewrite E in H. apply in_app_or in H. destruct H as [H|H]; [exact H|].
    apply (allsp_In c w Hw) in H. congruence.
Qed.

Lemma In_strip c s : is_space c = false -> (In c (strip s) <-> In c s).
Proof.
  intros Hc. destruct (strip_decomp s) as [w1 [w2 [E [H1 H2]]]]. split.
  - intros H. rewrite E. apply in_or_app. right. apply in_or_app. left. exact H.
  - intros H. rewrite E in H. apply in_app_or in H. destruct H as [H|H].
    + apply (allsp_In c w1 H1) in H. congruence.
    + apply in_app_or in H. destruct H as [H|H]; [exact H|].
      apply (allsp_In c w2 H2) in H. congruence.
Qed.

Lemma blank_not_In c s : is_space c = false -> is_blank s = true -> ~ In c s.
Proof. intros Hc Hs H. apply (allsp_In c s Hs) in H. congruence. Qed.

(* ================================================================ split_ws *)
Lemma split_ws_app_space_l w s : forallb is_space w = true -> split_ws (w ++ s) = split_ws s.
Proof.
  induction w as [|c w IH]; [reflexivity|].
  intros H. simpl in H. apply andb_true_iff in H. destruct H as [H1 H2].
  change ((c :: w) ++ s) with (c :: (w ++ s)). simpl. rewrite H1. apply IH. exact H2.
Qed.

Lemma split_ws_all w : forallb is_space w = true -> split_ws w = [].
Proof.
  intros H. rewrite <- (app_nil_r w). rewrite split_ws_app_space_l by exact H. reflexivity.
Qed.

Lemma split_ws_app_space_r s w : forallb is_space w = true -> split_ws (s ++ w) = split_ws s.
Proof.
  intros H. induction s as [|c r IH].
  - simpl. apply split_ws_all. exact H.
  - change ((c :: r) ++ w) with (c :: (r ++ w)). simpl.
    destruct (is_space c); [exact IH|].
    destruct r as [|c' r'].
    + simpl. destruct w as [|x w']; [reflexivity|].
      simpl in H. apply andb_true_iff in H. destruct H as [Hx Hw]. rewrite Hx.
      assert (split_ws (x :: w') = []) as E.
      { apply split_ws_all. simpl. rewrite Hx, Hw. reflexivity. }
      rewrite E. reflexivity.
    + change ((c' :: r') ++ w) with (c' :: (r' ++ w)) in *.
      destruct (is_space c'); rewrite IH; reflexivity.
Qed.

Lemma split_ws_cons_nonspace c r : is_space c = false -> split_ws (c :: r) <> [].
Proof.
  intros H. simpl. rewrite H. destruct r as [|c' r']; [discriminate|].
  destruct (is_space c'); [discriminate|].
  destruct (split_ws (c' :: r')); discriminate.
Qed.

Lemma split_ws_nil_iff s : split_ws s = [] <-> is_blank s = true.
Proof.
  unfold is_blank. split; [|apply split_ws_all].
  induction s as [|c r IH]; [reflexivity|].
  intros H. destruct (is_space c) eqn:E.
  - simpl. rewrite E. simpl. apply IH. simpl in H. rewrite E in H. exact H.
  - exfalso. exact (split_ws_cons_nonspace c r E H).
Qed.

Lemma split_ws_strip s : split_ws (strip s) = split_ws s.
Proof.
  destruct (strip_decomp s) as [w1 [w2 [E [H1 H2]]]].
  rewrite E at 2. rewrite split_ws_app_space_l by exact H1.
  rewrite split_ws_app_space_r by exact H2. reflexivity.
Qed.

(* ================================================================ startswith / last_is / removelast *)
Lemma startswith_app c a b : a <> [] -> startswith c (a ++ b) = startswith c a.
Proof. destruct a; [contradiction | reflexivity]. Qed.

Lemma startswith_In c s : startswith c s = true -> In c s.
Proof.
  destruct s as [|x r]; simpl; [discriminate|].
  intros H. apply Ascii.eqb_eq in H. left. exact H.
Qed.

Lemma startswith_true c s : startswith c s = true -> exists r, s = c :: r.
Proof.
  destruct s as [|x r]; simpl; [discriminate|].
  intros H. apply Ascii.eqb_eq in H. subst. exists r. reflexivity.
Qed.

Lemma last_is_snoc c a x : last_is c (a ++ [x]) = Ascii.eqb x c.
Proof. unfold last_is, last_opt. rewrite rev_app_distr. reflexivity. Qed.

Lemma last_is_app c a b : b <> [] -> last_is c (a ++ b) = last_is c b.
Proof.
  intros N. unfold last_is, last_opt. rewrite rev_app_distr.
  destruct (rev b) as [|x r] eqn:E; [|reflexivity].
  exfalso. apply N. rewrite <- (rev_involutive b). rewrite E. reflexivity.
Qed.

Lemma last_is_true c l : last_is c l = true -> l = removelast l ++ [c].
Proof.
  unfold last_is, last_opt. destruct (rev l) as [|x r] eqn:E; [discriminate|].
  intros H. apply Ascii.eqb_eq in H. subst x.
  assert (l = rev r ++ [c]) as L.
  { rewrite <- (rev_involutive l). rewrite E. reflexivity. }
  rewrite L at 2. rewrite removelast_last. exact L.
Qed.

Lemma last_is_In c l : last_is c l = true -> In c l.
Proof.
  intros H. apply last_is_true in H. rewrite H. apply in_or_app. right. left. reflexivity.
Qed.

Lemma In_removelast_or_last c l : In c l -> In c (removelast l) \/ last_is c l = true.
Proof.
  intros H. destruct l as [|y s]; [contradiction|].
  assert (y :: s <> []) as N by discriminate.
  pose proof (app_removelast_last y N) as E.
  rewrite E in H. apply in_app_or in H. destruct H as [H|H]; [left; exact H|].
  right. rewrite E. rewrite last_is_snoc. destruct H as [H|[]]. rewrite H. apply Ascii.eqb_refl.
Qed.

Lemma not_In_of_removelast_last c l : ~ In c (removelast l) -> last_is c l = false -> ~ In c l.
Proof.
  intros H1 H2 H. apply In_removelast_or_last in H. destruct H as [H|H]; [tauto | congruence].
Qed.
