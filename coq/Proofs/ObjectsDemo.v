(* Concrete states for the non-vacuity examples of C18 and the documented NON-isolation of
   names / residue labels between a molecule and its plain copy (they share the topology atoms). *)
From Coq Require Import List ZArith Lia.
From Coq Require Import String.
From GM Require Import Base.Res Base.Scalar Base.Vec Model.Objects Proofs.ObjectsFrame Proofs.ObjectsIso.
Import ListNotations.
Local Open Scope string_scope.

Section Demo.
Context {T : Type} `{Scalar T}.

(* a two-atom, two-residue molecule (handle 0) and its plain copy (handle 1): own coordinate
   atoms, the same topology atoms and the same MoleculeTop name cell *)
Definition demo_heap : heap T :=
  mkHeap [mkGro 1%Z "RA" "A0" 1%Z vzero None; mkGro 2%Z "RB" "B0" 2%Z vzero None;
          mkGro 1%Z "RA" "A0" 1%Z vzero None; mkGro 2%Z "RB" "B0" 2%Z vzero None]
         [mkTop "A0" "RA" 1%Z 0 [1]; mkTop "B0" "RB" 2%Z 1 [0]]
         ["MOL"] [].
Definition demo_orig : handle T := HM 0 [0; 1] [[0]; [1]].
Definition demo_copy : handle T := HM 0 [0; 1] [[2]; [3]].
Definition demo_fam : family T := [(0, 0, demo_orig); (1, 0, demo_copy)].

Lemma demo_wf : wf demo_heap demo_fam.
Proof.
  split.
  - intros [|[|i]] g tg X E; simpl in E; inversion E; subst; clear E.
    + repeat split; simpl; try lia; intros l Hl; simpl in Hl; lia.
    + repeat split; simpl; try lia; intros l Hl; simpl in Hl; lia.
    + destruct i; discriminate.
  - intros [|[|i]] [|[|j]] gi ti Xi gj tj Xj Ei Ej; simpl in Ei, Ej; inversion Ei; inversion Ej; subst;
      try (destruct i; discriminate); try (destruct j; discriminate);
      (split; [intros Hne | intros Hne; split]); try congruence;
      intros l Ha Hb; simpl in Ha, Hb; lia.
Qed.

(* any single valid handle is a well-formed family: every state reachable from it is (run_wf) *)
Lemma wf_single (h : heap T) (X : handle T) : valid h X -> wf h [(0, 0, X)].
Proof.
  intros V. split.
  - intros [|i] g tg X' E; simpl in E; [|destruct i; discriminate]. inversion E; subst. simpl. split; [exact V | split; lia].
  - intros [|i] [|j] gi ti Xi gj tj Xj Ei Ej; simpl in Ei, Ej;
      try (destruct i; discriminate); try (destruct j; discriminate).
    inversion Ei; inversion Ej; subst. split; intros; congruence.
Qed.

(* Renaming the residues through the plain copy (coordinate group 1) and nothing else:
   - what the original READS from its coordinate atoms (resnames getter included) is unchanged,
   - but its topology atoms now carry the new labels, and building a view of the original
     (mol[0], and with it iteration, move, copy ...) raises IOError. *)
Definition demo_ops : list (nat * op T) := [(1, OSetResnamesAll "XX")].

Lemma shared_top_not_isolated :
  avoids (fun e => fst (fst e) <> 0) (demo_heap, demo_fam) demo_ops /\
  let h' := fst (run (demo_heap, demo_fam) demo_ops) in
  read_resnames h' demo_orig = Ok ["RA"; "RB"] /\
  read_resnames demo_heap demo_orig = Ok ["RA"; "RB"] /\
  rmap (map t_resname) (read_top demo_heap demo_orig) = Ok ["RA"; "RB"] /\
  rmap (map t_resname) (read_top h' demo_orig) = Ok ["XX"; "XX"] /\
  snd (exec demo_orig (OIndex 0) demo_heap) = Ok (Some (NewView, HA 0 0)) /\
  snd (exec demo_orig (OIndex 0) h') = Err EIO /\
  snd (exec demo_orig (OMove vzero) h') = Err EIO /\
  snd (exec demo_orig OCopy h') = Err EIO.
Proof.
  split.
  - simpl. split; auto. intros e E. inversion E; subst. simpl. lia.
  - cbv. repeat split; reflexivity.
Qed.

(* a deep copy of the same molecule: own topology atoms and name cell *)
Definition demo_deep_heap : heap T :=
  mkHeap (hgro demo_heap)
         [mkTop "A0" "RA" 1%Z 0 [1]; mkTop "B0" "RB" 2%Z 1 [0]; mkTop "A0" "RA" 1%Z 0 [1]; mkTop "B0" "RB" 2%Z 1 [0]]
         ["MOL"; "MOL"] [].
Definition demo_deep : handle T := HM 1 [2; 3] [[2]; [3]].
Definition demo_deep_fam : family T := [(0, 0, demo_orig); (1, 1, demo_deep)].

Lemma demo_deep_wf : wf demo_deep_heap demo_deep_fam.
Proof.
  split.
  - intros [|[|i]] g tg X E; simpl in E; inversion E; subst; clear E.
    + repeat split; simpl; try lia; intros l Hl; simpl in Hl; lia.
    + repeat split; simpl; try lia; intros l Hl; simpl in Hl; lia.
    + destruct i; discriminate.
  - intros [|[|i]] [|[|j]] gi ti Xi gj tj Xj Ei Ej; simpl in Ei, Ej; inversion Ei; inversion Ej; subst;
      try (destruct i; discriminate); try (destruct j; discriminate);
      (split; [intros Hne | intros Hne; split]); try congruence;
      intros l Ha Hb; simpl in Ha, Hb; lia.
Qed.

Lemma demo_deep_avoids :
  avoids (fun e => fst (fst e) <> 0 /\ snd (fst e) <> 0) (demo_deep_heap, demo_deep_fam)
         [(1, OSetResnamesAll "XX"); (1, OSetMolName "NEW"); (1, OMove vzero)].
Proof.
  cbn [avoids]. split; [|split; [|split; [|exact I]]]; intros e0 E0; cbv in E0; inversion E0; subst; cbn; lia.
Qed.

(* an Alignment whose two ends are set (both refer to the molecule of handle 1), as handle 2 *)
Definition demo_ali_heap : heap T :=
  mkHeap (hgro demo_heap) (htop demo_heap) (hmt demo_heap)
         [(Some (0, [0; 1], [[2]; [3]]), Some (0, [0; 1], [[2]; [3]]))].
Definition demo_ali_fam : family T := [(0, 0, demo_orig); (1, 0, demo_copy); (2, 2, HL 0)].

Lemma demo_ali_wf : wf demo_ali_heap demo_ali_fam.
Proof.
  split.
  - intros [|[|[|i]]] g tg X E; simpl in E; inversion E; subst; clear E.
    + repeat split; simpl; try lia; intros l Hl; simpl in Hl; lia.
    + repeat split; simpl; try lia; intros l Hl; simpl in Hl; lia.
    + repeat split; simpl; try lia; intros l Hl; simpl in Hl; lia.
    + destruct i; discriminate.
  - intros [|[|[|i]]] [|[|[|j]]] gi ti Xi gj tj Xj Ei Ej; simpl in Ei, Ej; inversion Ei; inversion Ej; subst;
      try (destruct i; discriminate); try (destruct j; discriminate);
      (split; [intros Hne | intros Hne; split]); try congruence;
      intros l Ha Hb; simpl in Ha, Hb; lia.
Qed.

(* re-assigning the start with the (equal) original succeeds and stores a copy in fresh cells 4, 5;
   assigning a handle that is not a molecule is a TypeError; assigning None clears the end *)
Lemma demo_ali_steps :
  snd (step (demo_ali_heap, demo_ali_fam) (2, OAliSet true (Some 0))) = Ok tt /\
  snd (fst (step (demo_ali_heap, demo_ali_fam) (2, OAliSet true (Some 0)))) =
    (demo_ali_fam ++ [(3, 0, HM 0 [0; 1] [[4]; [5]])])%list /\
  snd (step (demo_ali_heap, demo_ali_fam) (2, OAliSet false (Some 2))) = Err EType /\
  hali (fst (fst (step (demo_ali_heap, demo_ali_fam) (2, OAliSet false None)))) =
    [(Some (0, [0; 1], [[2]; [3]]), None)].
Proof. cbv. repeat split; reflexivity. Qed.

(* grafting: orig.copy(copy.residues) and orig.deep_copy(copy.residues) go through; residues of a
   handle that is not a molecule/residue/system are a TypeError; a list argument to a whole-body setter
   is rejected before anything is written *)
Lemma demo_graft_steps :
  snd (step (demo_heap, demo_fam) (0, OCopyWith false 0 1 0)) = Ok tt /\
  snd (fst (step (demo_heap, demo_fam) (0, OCopyWith false 0 1 0))) = (demo_fam ++ [(2, 0, HM 0 [0; 1] [[4]; [5]])])%list /\
  snd (fst (step (demo_heap, demo_fam) (0, OCopyWith true 1 1 0))) = (demo_fam ++ [(2, 2, HM 1 [2; 3] [[6]; [7]])])%list /\
  step (demo_heap, demo_fam) (0, OBadArg) = ((demo_heap, demo_fam), Err EType).
Proof. cbv. repeat split; reflexivity. Qed.

End Demo.
